/-
C12 — Every compiled grammar is well-formed GBNF.

Property theorems over the executable model `Octave.Model.Gbnf` of gbnf_compiler.py (tied to the
source by `Octave.Gen.Gbnf`, regenerated on every run, and by the differential correspondence of
tools/props/c12.py) and the GBNF syntax `Octave.Spec.GbnfSyntax`.  Helper lemmas live in
`Octave/Lemmas`.

Main results
  * `gen_*`                     characterising facts about the generated templates (a changed template
                                in the source falsifies its fact, and with it the theorems below);
  * `sanitize_charset`, `sanitize_nonempty`, `sanitize_lowercase`   what `_sanitize_rule_name` guarantees;
    `sanitize_leading_digit_witness`  (what it does *not* guarantee);
  * `escape_literal_closed`     `"` ++ escape v ++ `"` is read back as exactly the literal token v;
  * `fragment_parses`           every constraint kind's fragment is a well-formed rule-body fragment;
  * `assignNames_spec`          the rule names of the fields are distinct, fresh w.r.t. the structural
                                names, non-empty and made of name characters (fixes of F20 / F21);
  * `C12_compile_total`         `compile_schema` always returns (the uniqueness loop terminates);
  * `C12_wellformed_partial`    SchemaOK → WellFormed (compileSchema …), both envelope settings, every field
                                name / schema name / chain — for the lenient name alphabet (F23);
  * `C12_contract_route`        the META.CONTRACT route compiles the schema rebuilt from the tokens;
  * regression examples for the fixed findings F20 F21 F22 C12N1 C12N2; negative theorem F23.
-/
import Octave.Lemmas.ClassFrag
import Octave.Lemmas.Strings
import Octave.Lemmas.GenFacts
set_option linter.unusedSimpArgs false
namespace Octave.C12
open Octave Octave.Gbnf Octave.GenFacts

/-! ## Characterising facts about the generated data -/

theorem gen_sanitize :
    Gen.sanReplacements = [(".".toList, "_dot_".toList), ("/".toList, "_slash_".toList), ("-".toList, "_".toList)] ∧
    Gen.sanKeepExtra = "_".toList ∧ Gen.sanUniPrefix = "_u".toList ∧ Gen.sanUniSuffix = "_".toList ∧
    Gen.sanDigitPrefix = "r_".toList ∧ Gen.sanCollapseFrom = "__".toList ∧ Gen.sanCollapseTo = "_".toList ∧
    Gen.sanStripChars = "_".toList ∧ Gen.sanFallback = "unnamed_field".toList := by decide

theorem gen_dispatch :
    Gen.dispatch = [(.req, .required), (.opt, .optional), (.enum, .enum), (.const, .const), (.type, .type),
      (.regex, .regex), (.dir, .dir), (.appendOnly, .list), (.range, .range), (.maxLen, .maxLength),
      (.minLen, .minLength), (.date, .date), (.iso8601, .iso8601)] := by decide

theorem gen_regex :
    Gen.regexSimpleTpl = [.lit "[".toList, .var 0, .lit "]".toList, .var 1] ∧
    Gen.regexDefaultQuantifier = "+".toList ∧
    Gen.regexSimplePattern = "^\\[([^\\]]+)\\]([+*?]?)$".toList ∧
    Gen.regexLstrip = "^".toList ∧ Gen.regexRstrip = "$".toList ∧
    Gen.regexUnsupported = ["(?", "\\b", "\\B", "\\d", "\\w", "\\s", "\\D", "\\W", "\\S"].map String.toList ∧
    Gen.regexClassForbidden = "\\".toList ∧ Gen.regexDotPatterns = [".", ".+", ".*", ".?"].map String.toList ∧
    Gen.regexDotFrom = ".".toList ∧ Gen.regexDotTo = "[^\\n]".toList := by decide

/-- every constant fragment the compiler can emit is a well-formed rule-body fragment without references -/
theorem gen_constant_fragments :
    ∀ f ∈ [Gen.unknownFragment, Gen.emptyChainFragment, Gen.requiredFragment, Gen.optionalFragment, Gen.typeDefault,
           Gen.regexDegrade, Gen.regexFinalFragment, Gen.dirFragment, Gen.listFragment, Gen.rangeFragment,
           Gen.maxLengthFragment, Gen.minLengthGeFragment, Gen.minLengthLtFragment, Gen.dateFragment,
           Gen.schemaNoPattern] ++ Gen.typePatterns.map (·.2) ++
           Gen.regexDotPatterns.map (replaceAll Gen.regexDotFrom Gen.regexDotTo),
      fragCheck f = some [] := by decide +kernel

theorem gen_iso8601_fragment : fragCheck Gen.iso8601Fragment = some [] := by decide +kernel

/-- the uniqueness loop of `compile_schema` and the flattening of the schema name in the header comment -/
theorem gen_unique :
    Gen.schemaReservedRuleNames = ["ws", "field", "content", "document", "root"].map String.toList ∧
    Gen.schemaUniqueSuffixStart = 2 ∧ Gen.schemaUniqueTpl = [.var 0, .lit "-".toList, .var 1] ∧
    Gen.schemaHeaderNameReplacements = [("\r".toList, " ".toList), ("\n".toList, " ".toList)] := by decide

theorem gen_schema_templates :
    Gen.schemaHeader = [[.lit "# GBNF Grammar for OCTAVE schema: ".toList, .var 0], [], [.lit "ws ::= [ \\t\\n]*".toList], []] ∧
    Gen.schemaFieldRuleTpl = [.var 0, .lit " ::= \"".toList, .var 1, .lit "\" \"::\" ws ".toList, .var 2] ∧
    Gen.schemaAfterFields = [] ∧ Gen.schemaRefsJoiner = " | ".toList ∧
    Gen.schemaWithFields = [[.lit "field ::= (".toList, .var 0, .lit ")".toList], [.lit "content ::= (field ws)*".toList]] ∧
    Gen.schemaWithoutFields = [[.lit "content ::= [^\\n]*".toList]] ∧ Gen.schemaAfterContent = [] ∧
    Gen.schemaEnvelope = [[.lit "envelope-start ::= \"===".toList, .var 0, .lit "===\"".toList],
      [.lit "envelope-end ::= \"===END===\"".toList], [], [.lit "meta-block ::= \"META:\" ws meta-content".toList],
      [.lit "meta-content ::= (meta-field ws)*".toList], [.lit "meta-field ::= [A-Z_]+ \"::\" ws [^\\n]+".toList], [],
      [.lit "document ::= envelope-start ws meta-block ws content ws envelope-end".toList]] ∧
    Gen.schemaNoEnvelope = [[.lit "document ::= content".toList]] ∧
    Gen.schemaTail = [[], [.lit "root ::= document".toList]] ∧ Gen.schemaLineJoiner = "\n".toList := by decide

/-- the exact text of every constant fragment (any edit of a template in the source shows up here) -/
theorem gen_fragment_texts :
    Gen.requiredFragment = "[^\\n]+".toList ∧ Gen.optionalFragment = "[^\\n]*".toList ∧
    Gen.unknownFragment = "[^\\n]+".toList ∧ Gen.emptyChainFragment = "[^\\n]*".toList ∧
    Gen.typePatterns = [("STRING".toList, "[^\\n]+".toList), ("NUMBER".toList, "\"-\"? [0-9]+ (\".\" [0-9]+)?".toList),
      ("BOOLEAN".toList, "(\"true\" | \"false\")".toList), ("LIST".toList, "\"[\" [^\\]]* \"]\"".toList)] ∧
    Gen.typeDefault = "[^\\n]+".toList ∧ Gen.regexDegrade = "[^\\n]+".toList ∧ Gen.regexFinalFragment = "[^\\n]+".toList ∧
    Gen.dirFragment = "[a-zA-Z0-9_./-]+".toList ∧ Gen.listFragment = "\"[\" [^\\]]* \"]\"".toList ∧
    Gen.rangeFragment = "\"-\"? [0-9]+ (\".\" [0-9]+)?".toList ∧ Gen.maxLengthFragment = "[^\\n]*".toList ∧
    Gen.minLengthThreshold = 1 ∧ Gen.minLengthGeFragment = "[^\\n]+".toList ∧ Gen.minLengthLtFragment = "[^\\n]*".toList ∧
    Gen.dateFragment = "[0-9][0-9][0-9][0-9] \"-\" [0-9][0-9] \"-\" [0-9][0-9]".toList ∧
    Gen.iso8601Fragment = ("[0-9][0-9][0-9][0-9] \"-\" [0-9][0-9] \"-\" [0-9][0-9] (\"T\" [0-9][0-9] \":\" [0-9][0-9] \":\" [0-9][0-9] " ++
      "(\"Z\" | (\"+\" | \"-\") [0-9][0-9] \":\" [0-9][0-9])?)?").toList ∧
    Gen.schemaNoPattern = "[^\\n]*".toList := by decide +kernel

/-- the CONTRACT route: the field pattern, and what each token type contributes to a reconstructed spec -/
theorem gen_contract :
    Gen.contractFieldPattern = "^FIELD\\[([^\\]]+)\\]::(.+)$".toList ∧
    Gen.reconstructSkip = ["LIST_START", "LIST_END", "NEWLINE", "INDENT"].map String.toList ∧
    Gen.reconstructAppend = [("IDENTIFIER".toList, [.var 0]), ("ASSIGN".toList, [.lit "::".toList]), ("CONSTRAINT".toList, [.var 0]),
      ("FLOW".toList, [.var 0]), ("STRING".toList, [.lit "\"".toList, .var 0, .lit "\"".toList]), ("NUMBER".toList, [.var 1])] ∧
    (∀ n, n ∈ Gen.pySpace ↔ n ∈ [9, 10, 11, 12, 13, 28, 29, 30, 31, 32, 133, 160, 5760, 8192, 8193, 8194, 8195, 8196, 8197, 8198, 8199,
      8200, 8201, 8202, 8232, 8233, 8239, 8287, 12288]) := by
  refine ⟨by decide, by decide, by decide, ?_⟩
  intro n
  have : Gen.pySpace = [9, 10, 11, 12, 13, 28, 29, 30, 31, 32, 133, 160, 5760, 8192, 8193, 8194, 8195, 8196, 8197, 8198, 8199,
      8200, 8201, 8202, 8232, 8233, 8239, 8287, 12288] := by decide
  rw [this]

/-! ## `_sanitize_rule_name` -/

theorem sanDigit_forall (P : Char → Prop) (s : Str) (hs : ∀ c ∈ s, P c) (hp : ∀ c ∈ Gen.sanDigitPrefix, P c) :
    ∀ c ∈ sanDigit s, P c := by
  cases s with
  | nil => simpa [sanDigit] using hs
  | cons d r =>
    intro c hc
    unfold sanDigit at hc
    simp only at hc
    split at hc
    · rcases List.mem_append.mp hc with h | h
      · exact hp c h
      · exact hs c h
    · exact hs c hc

/-- generic invariant of the sanitiser: a predicate that holds for the characters the loop keeps, for
the characters of the constant pieces and for lower-case hexadecimal digits holds for the result. -/
theorem sanitize_forall (P : Char → Prop) (lowered : Str)
    (hkeep : ∀ c ∈ sanReplace lowered, isAscii c = true → (isAsciiAlnum c = true ∨ c = '_') → P c)
    (hconst : ∀ c ∈ "_ur_unnamed_field".toList, P c) (hhex : ∀ d, d < 16 → P (Nat.digitChar d)) :
    ∀ c ∈ sanitize lowered, P c := by
  obtain ⟨_, hk, hup, hus, hdp, _, hct, _, hfb⟩ := gen_sanitize
  have s1 : ∀ c ∈ "_u".toList, c ∈ "_ur_unnamed_field".toList := by decide
  have s2 : ∀ c ∈ "_".toList, c ∈ "_ur_unnamed_field".toList := by decide
  have s3 : ∀ c ∈ "r_".toList, c ∈ "_ur_unnamed_field".toList := by decide
  have s4 : ∀ c ∈ "unnamed_field".toList, c ∈ "_ur_unnamed_field".toList := by decide
  -- the per-character loop
  have h1 : ∀ c ∈ sanLoop (sanReplace lowered), P c := by
    intro c hcm
    obtain ⟨a, ha, hca⟩ := List.mem_flatMap.mp hcm
    unfold sanitizeChar at hca
    split at hca
    · rename_i hcond
      simp only [List.mem_singleton] at hca
      subst hca
      simp only [Bool.and_eq_true, Bool.or_eq_true] at hcond
      refine hkeep c ha hcond.1 ?_
      rcases hcond.2 with h | h
      · exact Or.inl h
      · right
        rw [hk] at h
        simpa using h
    · split at hca
      · rw [hup, hus] at hca
        simp only [List.mem_append] at hca
        rcases hca with (h | h) | h
        · exact hconst c (s1 c h)
        · exact toDigits_forall P 16 (by decide) hhex _ c h
        · exact hconst c (s2 c h)
      · simp at hca
  have h2 : ∀ c ∈ sanDigit (sanLoop (sanReplace lowered)), P c :=
    sanDigit_forall P _ h1 (by rw [hdp]; exact fun c h => hconst c (s3 c h))
  have h3 : ∀ c ∈ sanCollapse (sanDigit (sanLoop (sanReplace lowered))), P c := by
    intro d hd
    unfold sanCollapse at hd
    cases hcl : collapseLoop (sanDigit (sanLoop (sanReplace lowered))).length (sanDigit (sanLoop (sanReplace lowered))) with
    | none => rw [hcl] at hd; exact h2 d hd
    | some r =>
      rw [hcl] at hd
      exact collapseLoop_forall P (by rw [hct]; exact fun c h => hconst c (s2 c h)) _ _ r h2 hcl d hd
  intro c hcm
  unfold sanitize at hcm
  simp only at hcm
  split at hcm
  · rw [hfb] at hcm; exact hconst c (s4 c hcm)
  · exact stripChars_forall P _ _ h3 c hcm

/-- **sanitize_charset.**  Whatever the field name, the rule name consists of GBNF name characters under
the lenient alphabet (`[a-zA-Z0-9_]`; never a `-`). -/
theorem sanitize_charset (lowered : Str) :
    ∀ c ∈ sanitize lowered, isWordChar true c = true ∧ c ≠ '-' := by
  apply sanitize_forall
  · intro c _ _ h
    rcases h with h | h
    · unfold isAsciiAlnum at h
      constructor
      · simp only [isWordChar, Bool.or_eq_true] at h ⊢; exact Or.inl (Or.inl h)
      · intro hc; subst hc; simp [isLower, isUpper, isDigit] at h
    · subst h; decide
  · decide
  · intro d hd
    have : ∀ k : Fin 16, isWordChar true (Nat.digitChar k.val) = true ∧ Nat.digitChar k.val ≠ '-' := by decide
    exact this ⟨d, hd⟩

/-- … and it is never empty. -/
theorem sanitize_nonempty (lowered : Str) : sanitize lowered ≠ [] := by
  unfold sanitize
  simp only
  split
  · rw [gen_sanitize.2.2.2.2.2.2.2.2]; decide
  · rename_i h; intro h'; rw [h'] at h; simp at h

/-- If the lowered name has no ASCII upper-case letter (which `str.lower()` guarantees), the rule name is
in `[a-z0-9_]`. -/
theorem sanitize_lowercase (lowered : Str) (hl : ∀ c ∈ lowered, isUpper c = false) :
    ∀ c ∈ sanitize lowered, isLower c = true ∨ isDigit c = true ∨ c = '_' := by
  apply sanitize_forall
  · intro c hc _ h
    have hnu : isUpper c = false := by
      unfold sanReplace at hc
      rw [gen_sanitize.1] at hc
      simp only [List.foldl_cons, List.foldl_nil] at hc
      refine replaceAll_forall (fun c => isUpper c = false) _ _ _ (by decide) ?_ c hc
      refine replaceAll_forall (fun c => isUpper c = false) _ _ _ (by decide) ?_
      exact replaceAll_forall (fun c => isUpper c = false) _ _ _ (by decide) hl
    rcases h with h | h
    · unfold isAsciiAlnum at h
      simp only [Bool.or_eq_true, hnu, Bool.false_eq_true, or_false] at h
      rcases h with h | h
      · exact Or.inl h
      · exact Or.inr (Or.inl h)
    · exact Or.inr (Or.inr h)
  · decide
  · intro d hd
    have : ∀ k : Fin 16, isLower (Nat.digitChar k.val) = true ∨ isDigit (Nat.digitChar k.val) = true ∨ Nat.digitChar k.val = '_' := by decide
    exact this ⟨d, hd⟩

/-- What the code does **not** guarantee although its comment says so: the name can start with a digit
(the `r_` prefix is added before the leading underscore is stripped). -/
theorem sanitize_leading_digit_witness : sanitize "_1".toList = "1".toList := by decide

example : sanitize "a.b/c-d".toList = "a_dot_b_slash_c_d".toList := by decide
example : sanitize "naïve".toList = "na_uef_ve".toList := by decide
example : sanitize "9x".toList = "r_9x".toList := by decide
example : sanitize "___".toList = "unnamed_field".toList := by decide

/-! ## `_escape_literal` -/

/-- **escape_literal_closed.**  For *every* string `v` (quotes, backslashes and raw newlines included),
the text `"` ++ `_escape_literal(v)` ++ `"` read from between tokens is exactly one literal token, whose
content is `v`, and the lexer is between tokens again: the escaped text contains no unescaped quote and
leaves no dangling escape.  A newline in `v` is pasted raw; inside a GBNF literal it stands for itself. -/
theorem escape_literal_closed (v : Str) (toks : List Tok) :
    lexRun true ⟨.top, toks⟩ ('"' :: escapeLiteral v ++ ['"']) = ⟨.top, .lit v :: toks⟩ := by
  rw [escapeLiteral_eq]
  exact lex_quoteLit v toks

example : escapeLiteral "a\"b\\c\nd".toList = "a\\\"b\\\\c\nd".toList := by decide

/-! ## fragments -/

/-- `re.compile` accepts the pattern as far as the grammar needs it: a pattern of the class shape is not
`[^]q` (Python rejects that as an unterminated character set; `RegexConstraint.__post_init__` compiles
every pattern). -/
def regexOK (pat : Str) : Bool :=
  match simpleClassMatch (rstripChars Gen.regexRstrip (lstripChars Gen.regexLstrip pat)) with
  | some (body, _) => body != ['^']
  | none => true

/-- what the schema reader guarantees about a constraint, as far as the grammar needs it -/
def constraintOK : Constraint → Bool
  | .enum vals => !vals.isEmpty          -- `ENUM[...]` always has at least one member (`"".split(",")` is `[""]`)
  | .regex p => regexOK p                -- the pattern is a valid Python regular expression
  | _ => true

theorem constFrag {f : Str} (h : f ∈ [Gen.unknownFragment, Gen.emptyChainFragment, Gen.requiredFragment, Gen.optionalFragment, Gen.typeDefault,
           Gen.regexDegrade, Gen.regexFinalFragment, Gen.dirFragment, Gen.listFragment, Gen.rangeFragment,
           Gen.maxLengthFragment, Gen.minLengthGeFragment, Gen.minLengthLtFragment, Gen.dateFragment,
           Gen.schemaNoPattern] ++ Gen.typePatterns.map (·.2) ++
           Gen.regexDotPatterns.map (replaceAll Gen.regexDotFrom Gen.regexDotTo)) : FragOK f [] :=
  fragOK_of_check (gen_constant_fragments f h)

theorem lookupStr_mem (k : Str) : ∀ (l : List (Str × Str)) (v : Str), lookupStr k l = some v → v ∈ l.map (·.2) := by
  intro l
  induction l with
  | nil => intro v h; simp [lookupStr] at h
  | cons a r ih =>
    intro v h
    obtain ⟨x, y⟩ := a
    simp only [lookupStr] at h
    split at h
    · cases h; simp
    · simp [ih v h]

theorem mem_takeWhile_imp (p : Char → Bool) : ∀ (l : Str) (c : Char), c ∈ l.takeWhile p → p c = true := by
  intro l
  induction l with
  | nil => intro c h; simp at h
  | cons a r ih =>
    intro c h
    simp only [List.takeWhile] at h
    split at h
    · rcases List.mem_cons.mp h with h1 | h1
      · subst h1; assumption
      · exact ih c h1
    · simp at h

theorem simpleClassMatch_spec {p body q : Str} (h : simpleClassMatch p = some (body, q)) :
    body ≠ [] ∧ (∀ c ∈ body, c ≠ ']') ∧ (q = [] ∨ ∃ c, q = [c] ∧ isQuant c) := by
  unfold simpleClassMatch at h
  split at h
  · rename_i rest
    simp only at h
    split at h
    · cases h
    · rename_i hne
      have hb : ∀ c ∈ rest.takeWhile (· != ']'), c ≠ ']' := by
        intro c hc
        have := mem_takeWhile_imp _ _ c hc
        simpa using this
      split at h
      · split at h
        · cases h; exact ⟨by simpa using hne, hb, Or.inl rfl⟩
        · cases h; exact ⟨by simpa using hne, hb, Or.inl rfl⟩
        · split at h
          · rename_i qc hq
            cases h
            refine ⟨by simpa using hne, hb, Or.inr ⟨_, rfl, ?_⟩⟩
            simp only [Bool.or_eq_true, beq_iff_eq] at hq
            unfold isQuant
            rcases hq with (h | h) | h
            · exact Or.inl h
            · exact Or.inr (Or.inl h)
            · exact Or.inr (Or.inr h)
          · cases h
        · split at h
          · rename_i qc hq
            cases h
            refine ⟨by simpa using hne, hb, Or.inr ⟨_, rfl, ?_⟩⟩
            simp only [Bool.or_eq_true, beq_iff_eq] at hq
            unfold isQuant
            rcases hq with (h | h) | h
            · exact Or.inl h
            · exact Or.inr (Or.inl h)
            · exact Or.inr (Or.inr h)
          · cases h
        · cases h
      · cases h
  · cases h

theorem isInfixOf_single (c : Char) : ∀ (s : Str), isInfixOf [c] s = s.contains c := by
  intro s
  induction s with
  | nil => simp [isInfixOf]
  | cons d r ih =>
    simp only [isInfixOf, List.isPrefixOf, ih, List.contains_cons]
    by_cases h : c = d
    · subst h; simp
    · have h1 : (c == d) = false := by simp [h]
      have h2 : (d == c) = false := by simp [Ne.symm h]
      simp [h1, h2]

/-- the tail of `_compile_regex`: a dot pattern or the permissive fragment -/
theorem regex_tail (p : Str) :
    FragOK (if Gen.regexDotPatterns.contains p then replaceAll Gen.regexDotFrom Gen.regexDotTo p else Gen.regexFinalFragment) [] := by
  split
  · rename_i h
    have hm : p ∈ Gen.regexDotPatterns := by simpa [List.contains_iff_mem] using h
    exact constFrag (by simp only [List.mem_append, List.mem_map]; exact Or.inr ⟨p, hm, rfl⟩)
  · exact constFrag (by simp)

/-- **REGEX** (finding F22 fixed): whatever the pattern, `_compile_regex` emits a well-formed fragment — the
permissive one, a `[class]q` whose body has no backslash, or `[^\n]` with an optional quantifier. -/
theorem regex_fragment (pat : Str) (hs : regexOK pat = true) : FragOK (compileRegex pat) [] := by
  unfold regexOK at hs
  unfold compileRegex
  simp only at hs ⊢
  split
  · exact constFrag (by simp)
  · split
    · rename_i body q hm
      rw [hm] at hs
      simp only [bne_iff_ne, ne_eq] at hs
      obtain ⟨hb1, hb2, hq⟩ := simpleClassMatch_spec hm
      split
      · rename_i hforb
        have hplain : ClsPlain body := by
          intro c hc
          refine ⟨hb2 c hc, ?_⟩
          intro h; subst h
          rw [gen_regex.2.2.2.2.2.2.1] at hforb
          have e : "\\".toList = ['\\'] := by decide
          rw [e, isInfixOf_single] at hforb
          simp [List.contains_iff_mem] at hforb
          exact hforb hc
        obtain ⟨htpl, hdq, _⟩ := gen_regex
        rw [htpl, hdq]
        rcases hq with hq | ⟨c, hq, hc⟩
        · subst hq
          have := fragOK_class body '+' hplain hb1 hs (Or.inl rfl)
          simpa [render] using this
        · subst hq
          have := fragOK_class body c hplain hb1 hs hc
          simpa [render] using this
      · exact regex_tail _
    · exact regex_tail _

/-- **fragment_parses.**  The fragment compiled for any single constraint of any of the kinds
(REQ OPT ENUM CONST TYPE REGEX DIR APPEND_ONLY RANGE MAX_LENGTH MIN_LENGTH DATE ISO8601, and the permissive
fragment for anything else) is a well-formed piece of a rule body: it lexes from between tokens to
between tokens, contains no reference, leaves a non-empty alternative and no empty alternative. -/
theorem fragment_parses (c : Constraint) (hok : constraintOK c = true) :
    ∃ frag, compileConstraint c = some frag ∧ FragOK frag [] := by
  obtain ⟨hq, hj, hw, hct⟩ := gen_enumConst
  cases c with
  | req => exact ⟨Gen.requiredFragment, by simp [compileConstraint, gen_dispatch, lookupMethod, Constraint.kind, runMethod], constFrag (by simp)⟩
  | opt => exact ⟨Gen.optionalFragment, by simp [compileConstraint, gen_dispatch, lookupMethod, Constraint.kind, runMethod], constFrag (by simp)⟩
  | dir => exact ⟨Gen.dirFragment, by simp [compileConstraint, gen_dispatch, lookupMethod, Constraint.kind, runMethod], constFrag (by simp)⟩
  | appendOnly => exact ⟨Gen.listFragment, by simp [compileConstraint, gen_dispatch, lookupMethod, Constraint.kind, runMethod], constFrag (by simp)⟩
  | range => exact ⟨Gen.rangeFragment, by simp [compileConstraint, gen_dispatch, lookupMethod, Constraint.kind, runMethod], constFrag (by simp)⟩
  | maxLen => exact ⟨Gen.maxLengthFragment, by simp [compileConstraint, gen_dispatch, lookupMethod, Constraint.kind, runMethod], constFrag (by simp)⟩
  | date => exact ⟨Gen.dateFragment, by simp [compileConstraint, gen_dispatch, lookupMethod, Constraint.kind, runMethod], constFrag (by simp)⟩
  | iso8601 => exact ⟨Gen.iso8601Fragment, by simp [compileConstraint, gen_dispatch, lookupMethod, Constraint.kind, runMethod], fragOK_of_check gen_iso8601_fragment⟩
  | other => exact ⟨Gen.unknownFragment, by simp [compileConstraint, gen_dispatch, lookupMethod, Constraint.kind], constFrag (by simp)⟩
  | minLen n =>
    refine ⟨_, by simp [compileConstraint, gen_dispatch, lookupMethod, Constraint.kind, runMethod]; rfl, ?_⟩
    split
    · exact constFrag (by simp)
    · exact constFrag (by simp)
  | type t =>
    refine ⟨compileType t, by simp [compileConstraint, gen_dispatch, lookupMethod, Constraint.kind, runMethod], ?_⟩
    unfold compileType
    cases h : lookupStr t Gen.typePatterns with
    | none => exact constFrag (by simp)
    | some v => exact constFrag (by simp [lookupStr_mem t _ v h])
  | regex p =>
    exact ⟨compileRegex p, by simp [compileConstraint, gen_dispatch, lookupMethod, Constraint.kind, runMethod], regex_fragment p hok⟩
  | const v =>
    refine ⟨compileConst v, by simp [compileConstraint, gen_dispatch, lookupMethod, Constraint.kind, runMethod], ?_⟩
    unfold compileConst
    rw [hct, escapeLiteral_eq]
    have := fragOK_const (constText v)
    simpa [render] using this
  | enum vals =>
    refine ⟨compileEnum vals, by simp [compileConstraint, gen_dispatch, lookupMethod, Constraint.kind, runMethod], ?_⟩
    have hne : vals ≠ [] := by
      intro h; subst h; simp [constraintOK] at hok
    unfold compileEnum
    rw [hq, hj, hw]
    have hmap : (vals.map fun v => render [.lit "\"".toList, .var 0, .lit "\"".toList] [escapeLiteral v]) = vals.map quoteLit := by
      apply List.map_congr_left
      intro v _
      simp [render, quoteLit, escapeLiteral_eq]
    rw [hmap]
    have := fragOK_enum vals hne
    simpa [render] using this

/-! ## chains -/

theorem firstOfKinds_mem (ks : List Kind) : ∀ (cs : List Constraint) (c : Constraint), firstOfKinds ks cs = some c → c ∈ cs := by
  intro cs
  induction cs with
  | nil => intro c h; simp [firstOfKinds] at h
  | cons a r ih =>
    intro c h
    simp only [firstOfKinds] at h
    split at h
    · cases h; simp
    · simp [ih c h]

theorem pickByPriority_mem : ∀ (ps : List (List Kind)) (cs : List Constraint) (c : Constraint),
    pickByPriority ps cs = some c → c ∈ cs := by
  intro ps
  induction ps with
  | nil => intro cs c h; simp [pickByPriority] at h
  | cons k r ih =>
    intro cs c h
    simp only [pickByPriority] at h
    split at h
    · rename_i c' hc'; cases h; exact firstOfKinds_mem k cs c hc'
    · exact ih cs c h

theorem deciding_mem (cs : List Constraint) (c : Constraint) (h : deciding cs = some c) : c ∈ cs := by
  unfold deciding at h
  split at h
  · cases h
  · rename_i c0 r
    simp only [Option.some.injEq] at h
    cases hp : pickByPriority Gen.chainPriority (c0 :: r) with
    | none => rw [hp] at h; simp at h; subst h; simp
    | some c' => rw [hp] at h; simp at h; subst h; exact pickByPriority_mem _ _ _ hp

/-! ## what the reader guarantees -/

/-- every ENUM has at least one member and every REGEX pattern is a valid Python regular expression -/
def SchemaOK (fields : List Field) : Bool :=
  fields.all fun f => match f.chain with
    | some cs => cs.all constraintOK
    | none => true

/-! ## rule names (fixes of F20 and F21) -/

def allStructural : List Str :=
  ["ws", "field", "content", "document", "root", "envelope-start", "envelope-end", "meta-block", "meta-content",
   "meta-field"].map String.toList

/-- a usable rule name: non-empty, made of name characters, different from every structural rule name -/
def GoodName (n : Str) : Prop := n ≠ [] ∧ (∀ c ∈ n, isWordChar true c = true) ∧ n ∉ allStructural

/-- what `_sanitize_rule_name` delivers: non-empty, name characters, no dash -/
def BaseName (b : Str) : Prop := b ≠ [] ∧ ∀ c ∈ b, isWordChar true c = true ∧ c ≠ '-'

theorem baseName_sanitize (lowered : Str) : BaseName (sanitize lowered) :=
  ⟨sanitize_nonempty lowered, sanitize_charset lowered⟩

def afterFirstDash (s : Str) : Str := (s.dropWhile (· != '-')).drop 1

theorem afterFirstDash_append (b ds : Str) (hb : ∀ c ∈ b, c ≠ '-') : afterFirstDash (b ++ '-' :: ds) = ds := by
  unfold afterFirstDash
  induction b with
  | nil => simp
  | cons c r ih =>
    have hc : c ≠ '-' := hb c (by simp)
    simp only [List.cons_append, List.dropWhile_cons, bne_iff_ne, ne_eq, hc, not_false_eq_true, decide_true, if_true]
    exact ih (fun d hd => hb d (by simp [hd]))

theorem uniqueCandidate_eq (base : Str) (k : Nat) : uniqueCandidate base k = base ++ '-' :: Nat.toDigits 10 k := by
  unfold uniqueCandidate
  rw [gen_unique.2.2.1]
  simp [render]

/-- a candidate name (the base or base-k) is good as soon as it is not one of the five reserved names -/
theorem candidate_good (base : Str) (hb : BaseName base) (n : Str) (hn : n = base ∨ ∃ k, n = uniqueCandidate base k)
    (hres : Gen.schemaReservedRuleNames.contains n = false) : GoodName n := by
  have hdigits : ∀ k, ∀ c ∈ Nat.toDigits 10 k, isDigit c = true := by
    intro k
    apply toDigits_forall (fun c => isDigit c = true) 10 (by decide)
    intro d hd
    have : ∀ j : Fin 10, isDigit (Nat.digitChar j.val) = true := by decide
    exact this ⟨d, hd⟩
  have hres' : n ∉ ["ws", "field", "content", "document", "root"].map String.toList := by
    rw [gen_unique.1] at hres
    intro h
    simp [List.contains_iff_mem] at hres
    simp at h
    rcases h with h | h | h | h | h <;> simp [h] at hres
  have hdashed : ∀ y ∈ allStructural, y ∉ ["ws", "field", "content", "document", "root"].map String.toList →
      '-' ∈ y ∧ ¬ (∀ c ∈ afterFirstDash y, isDigit c = true) := by decide
  rcases hn with hn | ⟨k, hn⟩
  · subst hn
    refine ⟨hb.1, fun c hc => (hb.2 c hc).1, ?_⟩
    intro hmem
    by_cases h5 : n ∈ ["ws", "field", "content", "document", "root"].map String.toList
    · exact hres' h5
    · exact (hb.2 '-' (hdashed n hmem h5).1).2 rfl
  · rw [uniqueCandidate_eq] at hn
    subst hn
    refine ⟨by simp, ?_, ?_⟩
    · intro c hc
      rcases List.mem_append.mp hc with h | h
      · exact (hb.2 c h).1
      · rcases List.mem_cons.mp h with h1 | h1
        · subst h1; decide
        · have := hdigits k c h1
          simp [isWordChar, this]
    · intro hmem
      by_cases h5 : (base ++ '-' :: Nat.toDigits 10 k) ∈ ["ws", "field", "content", "document", "root"].map String.toList
      · exact hres' h5
      · have := (hdashed _ hmem h5).2
        rw [afterFirstDash_append base _ (fun c hc => (hb.2 c hc).2)] at this
        exact this (hdigits k)

theorem uniqueLoop_spec (used : List Str) (base : Str) : ∀ (f suffix : Nat) (cur n : Str),
    uniqueLoop used base f suffix cur = some n →
    nameTaken used n = false ∧ (n = cur ∨ ∃ k, n = uniqueCandidate base k) := by
  intro f
  induction f with
  | zero =>
    intro suffix cur n h
    simp only [uniqueLoop] at h
    split at h
    · cases h
    · rename_i ht; cases h; exact ⟨by simpa using ht, Or.inl rfl⟩
  | succ f ih =>
    intro suffix cur n h
    simp only [uniqueLoop] at h
    split at h
    · obtain ⟨h1, h2⟩ := ih _ _ n h
      refine ⟨h1, Or.inr ?_⟩
      rcases h2 with h2 | h2
      · exact ⟨suffix, h2⟩
      · exact h2
    · rename_i ht; cases h; exact ⟨by simpa using ht, Or.inl rfl⟩

theorem uniqueName_spec (used : List Str) (base n : Str) (hb : BaseName base) (h : uniqueName used base = some n) :
    n ∉ used ∧ GoodName n := by
  obtain ⟨h1, h2⟩ := uniqueLoop_spec used base _ _ base n h
  simp only [nameTaken, Bool.or_eq_false_iff] at h1
  exact ⟨by simpa [List.contains_iff_mem] using h1.1, candidate_good base hb n h2 h1.2⟩

/-- **assignNames_spec** (F20 / F21 fixed).  The rule names `compile_schema` gives to the fields are pairwise
distinct, non-empty, made of name characters and different from all ten structural rule names — whatever
the field names are. -/
theorem assignNames_spec : ∀ (bases used names : List Str), (∀ b ∈ bases, BaseName b) →
    used.Nodup → (∀ u ∈ used, GoodName u) → assignNames bases used = some names →
    names.Nodup ∧ (∀ n ∈ names, GoodName n) ∧ names.length = used.length + bases.length := by
  intro bases
  induction bases with
  | nil =>
    intro used names _ hnd hg h
    simp only [assignNames, Option.some.injEq] at h
    subst h
    exact ⟨hnd, hg, by simp⟩
  | cons b r ih =>
    intro used names hb hnd hg h
    simp only [assignNames] at h
    split at h
    · rename_i n hn
      obtain ⟨hfresh, hgood⟩ := uniqueName_spec used b n (hb b (by simp)) hn
      have hnd' : (used ++ [n]).Nodup := by
        rw [List.nodup_append]
        refine ⟨hnd, by simp, ?_⟩
        intro x hx y hy hxy
        simp at hy; subst hy; subst hxy
        exact hfresh hx
      have hg' : ∀ u ∈ used ++ [n], GoodName u := by
        intro u hu
        rcases List.mem_append.mp hu with h1 | h1
        · exact hg u h1
        · simp at h1; subst h1; exact hgood
      obtain ⟨r1, r2, r3⟩ := ih (used ++ [n]) names (fun x hx => hb x (by simp [hx])) hnd' hg' h
      exact ⟨r1, r2, by simp at r3 ⊢; omega⟩
    · cases h

/-! ## lines -/

theorem fieldLine_ok (f : Field) (rn : Str) (hrn : rn ≠ [] ∧ ∀ c ∈ rn, isWordChar true c = true)
    (hok : (match f.chain with | some cs => cs.all constraintOK | none => true) = true) :
    ∃ l, fieldLine f rn = some l ∧ LineOK l [rn] ["ws".toList] := by
  have hpat : ∃ pat, fieldPattern f = some pat ∧ FragOK pat [] := by
    unfold fieldPattern
    cases hch : f.chain with
    | none => exact ⟨Gen.schemaNoPattern, rfl, constFrag (by simp)⟩
    | some cs =>
      rw [hch] at hok
      simp only at hok ⊢
      unfold compileChain
      cases hd : deciding cs with
      | none => exact ⟨Gen.emptyChainFragment, rfl, constFrag (by simp)⟩
      | some c =>
        have hcok : constraintOK c = true := List.all_eq_true.mp hok c (deciding_mem cs c hd)
        exact fragment_parses c hcok
  obtain ⟨pat, hp, hfrag⟩ := hpat
  refine ⟨render Gen.schemaFieldRuleTpl [rn, escapeLiteral f.name, pat], by simp [fieldLine, hp], ?_⟩
  rw [gen_schema_templates.2.1, escapeLiteral_eq]
  have := lineOK_field rn (f.name.flatMap esc1) f.name pat [] hrn.1 hrn.2 (litText_esc f.name) hfrag
  simpa [render] using this

theorem fieldLines_ok : ∀ (fields : List Field) (names : List Str), SchemaOK fields = true →
    names.length = fields.length → (∀ n ∈ names, n ≠ [] ∧ ∀ c ∈ n, isWordChar true c = true) →
    ∃ xs : List (Str × List Str × List Str), fieldLines fields names = some (xs.map (·.1)) ∧
      (∀ x ∈ xs, LineOK x.1 x.2.1 x.2.2) ∧
      xs.flatMap (fun x => x.2.1.reverse) = names ∧
      (∀ r ∈ xs.flatMap (fun x => x.2.2.reverse), r = "ws".toList) := by
  intro fields
  induction fields with
  | nil =>
    intro names _ hlen _
    have : names = [] := by cases names <;> simp at hlen ⊢
    subst this
    exact ⟨[], rfl, by simp, rfl, by simp⟩
  | cons f r ih =>
    intro names hok hlen hgood
    cases names with
    | nil => simp at hlen
    | cons n ns =>
      simp only [SchemaOK, List.all_cons, Bool.and_eq_true] at hok
      obtain ⟨l, hl, hlo⟩ := fieldLine_ok f n (hgood n (by simp)) hok.1
      obtain ⟨xs, hxs, hall, hnames, hrefs⟩ := ih ns hok.2 (by simpa using hlen) (fun x hx => hgood x (by simp [hx]))
      refine ⟨(l, [n], ["ws".toList]) :: xs, ?_, ?_, ?_, ?_⟩
      · simp [fieldLines, hl, hxs]
      · intro x hx
        rcases List.mem_cons.mp hx with h | h
        · subst h; exact hlo
        · exact hall x h
      · simp [hnames]
      · intro r hr
        simp only [List.flatMap_cons, List.reverse_cons, List.reverse_nil, List.nil_append, List.mem_append,
          List.mem_singleton] at hr
        rcases hr with h | h
        · exact h
        · exact hrefs r h

theorem lineCheck_blank : lineCheck [] = some ([], []) := by decide
theorem lineCheck_ws : lineCheck "ws ::= [ \\t\\n]*".toList = some (["ws".toList], []) := by decide
theorem lineCheck_content0 : lineCheck "content ::= [^\\n]*".toList = some (["content".toList], []) := by decide
theorem lineCheck_content1 : lineCheck "content ::= (field ws)*".toList = some (["content".toList], ["ws".toList, "field".toList]) := by decide
theorem lineCheck_envEnd : lineCheck "envelope-end ::= \"===END===\"".toList = some (["envelope-end".toList], []) := by decide
theorem lineCheck_metaBlock : lineCheck "meta-block ::= \"META:\" ws meta-content".toList = some (["meta-block".toList], ["meta-content".toList, "ws".toList]) := by decide
theorem lineCheck_metaContent : lineCheck "meta-content ::= (meta-field ws)*".toList = some (["meta-content".toList], ["ws".toList, "meta-field".toList]) := by decide
theorem lineCheck_metaField : lineCheck "meta-field ::= [A-Z_]+ \"::\" ws [^\\n]+".toList = some (["meta-field".toList], ["ws".toList]) := by decide
theorem lineCheck_documentEnv : lineCheck "document ::= envelope-start ws meta-block ws content ws envelope-end".toList =
    some (["document".toList], ["envelope-end", "ws", "content", "ws", "meta-block", "ws", "envelope-start"].map String.toList) := by decide +kernel
theorem lineCheck_document : lineCheck "document ::= content".toList = some (["document".toList], ["content".toList]) := by decide
theorem lineCheck_root : lineCheck "root ::= document".toList = some (["root".toList], ["document".toList]) := by decide

theorem replaceAll_single_removes (c : Char) (new s : Str) (hnew : ∀ x ∈ new, x ≠ c) : ∀ x ∈ replaceAll [c] new s, x ≠ c := by
  rw [replaceAll_single]
  intro x hx
  obtain ⟨d, _, hxd⟩ := List.mem_flatMap.mp hx
  split at hxd
  · exact hnew x hxd
  · rename_i hdc; simp at hxd; subst hxd; exact hdc

/-- the header comment stays on one line whatever the schema name is (C12N2 fixed) -/
theorem header_ok (name : Str) :
    LineOK ("# GBNF Grammar for OCTAVE schema: ".toList ++ headerName name) [] [] := by
  have : "# GBNF Grammar for OCTAVE schema: ".toList ++ headerName name =
      '#' :: (" GBNF Grammar for OCTAVE schema: ".toList ++ headerName name) := by simp
  rw [this]
  apply lineOK_comment
  intro c hc
  have hconst : ∀ c ∈ " GBNF Grammar for OCTAVE schema: ".toList, c ≠ '\n' ∧ c ≠ '\r' := by decide
  rcases List.mem_append.mp hc with h1 | h1
  · exact hconst c h1
  · unfold headerName at h1
    rw [gen_unique.2.2.2] at h1
    simp only [List.foldl_cons, List.foldl_nil] at h1
    have e1 : "\r".toList = ['\r'] := by decide
    have e2 : "\n".toList = ['\n'] := by decide
    have e3 : " ".toList = [' '] := by decide
    rw [e1, e2, e3] at h1
    constructor
    · exact replaceAll_single_removes '\n' [' '] _ (by decide) c h1
    · refine replaceAll_forall (fun x => x ≠ '\r') _ _ _ (by decide) ?_ c h1
      exact replaceAll_single_removes '\r' [' '] _ (by decide)

theorem fieldRefs_ok (names : List Str) (hne : names ≠ [])
    (hw : ∀ r ∈ names, r ≠ [] ∧ ∀ c ∈ r, isWordChar true c = true) :
    LineOK ("field ::= (".toList ++ List.intercalate " | ".toList names ++ ")".toList) ["field".toList] names.reverse := by
  have := lineOK_refs "field".toList "field ::= (".toList names hne hw (fun toks => by
    simp [lexStep, lexAction, lexTop, isWordChar, isLower, isUpper, isDigit])
  simpa using this

/-- the `envelope-start` literal is closed whatever the schema name is (C12N2 fixed) -/
theorem envelopeStart_ok (upper : Str) :
    LineOK ("envelope-start ::= \"===".toList ++ escapeLiteral upper ++ "===\"".toList) ["envelope-start".toList] [] := by
  rw [escapeLiteral_eq]
  exact lineOK_pastedLiteral "envelope-start".toList "envelope-start ::= \"===".toList "===".toList (upper.flatMap esc1) upper
    "===\"".toList (litText_esc upper)
    (fun toks => by simp [lexStep, lexAction, lexTop, isWordChar, isLower, isUpper, isDigit])
    (fun acc toks => by simp [lexStep, lexAction, lexTop, isWordChar, isLower, isUpper, isDigit])

/-! ## assembling the grammar -/

abbrev LineSpec := Str × List Str × List Str
def LineSpec.names (xs : List LineSpec) : List Str := xs.flatMap (fun x => x.2.1.reverse)
def LineSpec.refs (xs : List LineSpec) : List Str := xs.flatMap (fun x => x.2.2.reverse)

def blankSpec : LineSpec := ([], [], [])
def headSpecs (name : Str) : List LineSpec :=
  [("# GBNF Grammar for OCTAVE schema: ".toList ++ headerName name, [], []), blankSpec,
   ("ws ::= [ \\t\\n]*".toList, ["ws".toList], []), blankSpec]
def tailSpecs : List LineSpec := [blankSpec, ("root ::= document".toList, ["root".toList], ["document".toList])]

theorem blank_ok : LineOK blankSpec.1 blankSpec.2.1 blankSpec.2.2 := lineOK_of_check lineCheck_blank

theorem assemble (name : Str) (xsF xsC xsD : List LineSpec)
    (hF : ∀ x ∈ xsF, LineOK x.1 x.2.1 x.2.2) (hC : ∀ x ∈ xsC, LineOK x.1 x.2.1 x.2.2) (hD : ∀ x ∈ xsD, LineOK x.1 x.2.1 x.2.2)
    (hnodup : (["ws".toList] ++ LineSpec.names xsF ++ (LineSpec.names xsC ++ LineSpec.names xsD ++ ["root".toList])).Nodup)
    (hrefsF : ∀ r ∈ LineSpec.refs xsF, r = "ws".toList)
    (hrefsC : ∀ r ∈ LineSpec.refs xsC, r ∈ ["ws".toList] ++ LineSpec.names xsF ++ LineSpec.names xsC)
    (hrefsD : ∀ r ∈ LineSpec.refs xsD, r ∈ ["ws".toList] ++ LineSpec.names xsC ++ LineSpec.names xsD)
    (hdoc : "document".toList ∈ LineSpec.names xsD) :
    WellFormed true (List.intercalate ['\n']
      ((headSpecs name ++ xsF ++ [blankSpec] ++ xsC ++ [blankSpec] ++ xsD ++ tailSpecs).map (·.1))) := by
  have hnames : LineSpec.names (headSpecs name ++ xsF ++ [blankSpec] ++ xsC ++ [blankSpec] ++ xsD ++ tailSpecs) =
      ["ws".toList] ++ LineSpec.names xsF ++ (LineSpec.names xsC ++ LineSpec.names xsD ++ ["root".toList]) := by
    simp [LineSpec.names, headSpecs, tailSpecs, blankSpec, List.flatMap_append]
  have hrefs : LineSpec.refs (headSpecs name ++ xsF ++ [blankSpec] ++ xsC ++ [blankSpec] ++ xsD ++ tailSpecs) =
      LineSpec.refs xsF ++ LineSpec.refs xsC ++ LineSpec.refs xsD ++ ["document".toList] := by
    simp [LineSpec.refs, headSpecs, tailSpecs, blankSpec, List.flatMap_append]
  apply wellFormed_of_lines'
  · simp [headSpecs]
  · intro x hx
    simp only [List.mem_append, List.mem_singleton] at hx
    rcases hx with (((((h | h) | h) | h) | h) | h) | h
    · simp only [headSpecs, List.mem_cons, List.not_mem_nil, or_false] at h
      rcases h with h | h | h | h
      · subst h; exact header_ok name
      · subst h; exact blank_ok
      · subst h; exact lineOK_of_check lineCheck_ws
      · subst h; exact blank_ok
    · exact hF x h
    · subst h; exact blank_ok
    · exact hC x h
    · subst h; exact blank_ok
    · exact hD x h
    · simp only [tailSpecs, List.mem_cons, List.not_mem_nil, or_false] at h
      rcases h with h | h
      · subst h; exact blank_ok
      · subst h; exact lineOK_of_check lineCheck_root
  · show rootName ∈ LineSpec.names _
    rw [hnames]; simp [rootName]
  · intro r hr
    show r ∈ LineSpec.names _
    have hr' : r ∈ LineSpec.refs (headSpecs name ++ xsF ++ [blankSpec] ++ xsC ++ [blankSpec] ++ xsD ++ tailSpecs) := hr
    rw [hrefs] at hr'
    rw [hnames]
    simp only [List.mem_append, List.mem_singleton] at hr' ⊢
    rcases hr' with ((h | h) | h) | h
    · left; left; exact hrefsF r h
    · have := hrefsC r h
      simp only [List.mem_append, List.mem_singleton] at this
      rcases this with (h1 | h1) | h1
      · left; left; exact h1
      · left; right; exact h1
      · right; left; left; exact h1
    · have := hrefsD r h
      simp only [List.mem_append, List.mem_singleton] at this
      rcases this with (h1 | h1) | h1
      · left; left; exact h1
      · right; left; left; exact h1
      · right; left; right; exact h1
    · subst h; right; left; right; exact hdoc
  · show (LineSpec.names _).Nodup
    rw [hnames]; exact hnodup

def contentSpecs (F : List Str) : List LineSpec :=
  if F.isEmpty then [("content ::= [^\\n]*".toList, ["content".toList], [])]
  else [("field ::= (".toList ++ List.intercalate " | ".toList F ++ ")".toList, ["field".toList], F.reverse),
        ("content ::= (field ws)*".toList, ["content".toList], ["ws".toList, "field".toList])]

def docSpecs (upper : Str) (envelope : Bool) : List LineSpec :=
  if envelope then
    [("envelope-start ::= \"===".toList ++ escapeLiteral upper ++ "===\"".toList, ["envelope-start".toList], []),
     ("envelope-end ::= \"===END===\"".toList, ["envelope-end".toList], []), blankSpec,
     ("meta-block ::= \"META:\" ws meta-content".toList, ["meta-block".toList], ["meta-content".toList, "ws".toList]),
     ("meta-content ::= (meta-field ws)*".toList, ["meta-content".toList], ["ws".toList, "meta-field".toList]),
     ("meta-field ::= [A-Z_]+ \"::\" ws [^\\n]+".toList, ["meta-field".toList], ["ws".toList]), blankSpec,
     ("document ::= envelope-start ws meta-block ws content ws envelope-end".toList, ["document".toList],
      ["envelope-end", "ws", "content", "ws", "meta-block", "ws", "envelope-start"].map String.toList)]
  else [("document ::= content".toList, ["document".toList], ["content".toList])]

theorem contentSpecs_ok (F : List Str) (hw : ∀ r ∈ F, r ≠ [] ∧ ∀ c ∈ r, isWordChar true c = true) :
    ∀ x ∈ contentSpecs F, LineOK x.1 x.2.1 x.2.2 := by
  intro x hx
  unfold contentSpecs at hx
  split at hx
  · simp only [List.mem_singleton] at hx; subst hx; exact lineOK_of_check lineCheck_content0
  · rename_i hne
    simp only [List.mem_cons, List.not_mem_nil, or_false] at hx
    rcases hx with h | h
    · subst h; exact fieldRefs_ok F (by intro h; simp [h] at hne) hw
    · subst h; exact lineOK_of_check lineCheck_content1

theorem docSpecs_ok (upper : Str) (envelope : Bool) :
    ∀ x ∈ docSpecs upper envelope, LineOK x.1 x.2.1 x.2.2 := by
  intro x hx
  unfold docSpecs at hx
  cases envelope with
  | false =>
    simp only [Bool.false_eq_true, if_false, List.mem_singleton] at hx
    subst hx; exact lineOK_of_check lineCheck_document
  | true =>
    simp only [if_true, List.mem_cons, List.not_mem_nil, or_false] at hx
    rcases hx with h1 | h1 | h1 | h1 | h1 | h1 | h1 | h1
    · subst h1; exact envelopeStart_ok upper
    · subst h1; exact lineOK_of_check lineCheck_envEnd
    · subst h1; exact blank_ok
    · subst h1; exact lineOK_of_check lineCheck_metaBlock
    · subst h1; exact lineOK_of_check lineCheck_metaContent
    · subst h1; exact lineOK_of_check lineCheck_metaField
    · subst h1; exact blank_ok
    · subst h1; exact lineOK_of_check lineCheck_documentEnv

/-- the text `compile_schema` returns, line by line -/
theorem compileSchema_lines (name upper : Str) (fields : List Field) (envelope : Bool) (names : List Str)
    (xsF : List LineSpec) (hn : assignNames (fields.map Field.baseName) [] = some names)
    (hfl : fieldLines fields names = some (xsF.map (·.1))) :
    compileSchema name upper fields envelope = some (List.intercalate ['\n']
      ((headSpecs name ++ xsF ++ [blankSpec] ++ contentSpecs names ++ [blankSpec] ++
        docSpecs upper envelope ++ tailSpecs).map (·.1))) := by
  obtain ⟨h1, _, h3, h4, h5, h6, h7, h8, h9, h10, h11⟩ := gen_schema_templates
  unfold compileSchema schemaLines contentLines documentLines
  rw [hn]
  simp only
  rw [hfl, h1, h3, h4, h5, h6, h7, h8, h9, h10, h11]
  have e : "\n".toList = ['\n'] := by decide
  rw [e]
  simp only [Option.map_some]
  congr 2
  cases envelope <;> cases hF : names.isEmpty <;>
    simp [headSpecs, tailSpecs, blankSpec, contentSpecs, docSpecs, render, hF]

theorem names_contentSpecs (F : List Str) :
    LineSpec.names (contentSpecs F) = if F.isEmpty then ["content".toList] else ["field".toList, "content".toList] := by
  unfold contentSpecs LineSpec.names
  split <;> simp

theorem refs_contentSpecs (F : List Str) :
    LineSpec.refs (contentSpecs F) = if F.isEmpty then [] else F ++ ["field".toList, "ws".toList] := by
  unfold contentSpecs LineSpec.refs
  split <;> simp

theorem names_docSpecs (upper : Str) (envelope : Bool) :
    LineSpec.names (docSpecs upper envelope) =
      if envelope then ["envelope-start", "envelope-end", "meta-block", "meta-content", "meta-field", "document"].map String.toList
      else ["document".toList] := by
  unfold docSpecs LineSpec.names
  split <;> simp [blankSpec]

theorem refs_docSpecs (upper : Str) (envelope : Bool) :
    LineSpec.refs (docSpecs upper envelope) =
      if envelope then ["ws", "meta-content", "meta-field", "ws", "ws", "envelope-start", "ws", "meta-block", "ws", "content", "ws",
        "envelope-end"].map String.toList
      else ["content".toList] := by
  unfold docSpecs LineSpec.refs
  split <;> simp [blankSpec]

/-- **C12 (partial only w.r.t. the name alphabet).**  For every schema name, every list of fields — any field
names (dots, slashes, hyphens, non-ASCII, quotes, backslashes, names equal to the grammar's own rule names,
names that sanitise alike), any chains of the 13 constraint kinds plus unknown ones, arbitrary REGEX patterns —
and **both envelope settings**, the text `compile_schema` returns is well-formed GBNF: it parses, defines
`root`, defines every rule it references, defines no rule twice, has no unterminated literal or class and
no empty alternative.  `SchemaOK` says only what the schema reader guarantees (an ENUM has a member, a REGEX
pattern compiled under Python's `re`).

*Partial*: the statement is for the lenient rule-name alphabet (`_` admitted).  Under llama.cpp's own
alphabet `[a-zA-Z0-9-]` it is false whenever a rule name contains `_` (finding F23, `F23_strict_alphabet_witness`). -/
theorem C12_wellformed_partial (name upper : Str) (fields : List Field) (envelope : Bool) (text : Str)
    (hok : SchemaOK fields = true) (hc : compileSchema name upper fields envelope = some text) :
    WellFormed true text := by
  -- the rule names
  have hbases : ∀ b ∈ fields.map Field.baseName, BaseName b := by
    intro b hb
    obtain ⟨f, _, hfb⟩ := List.mem_map.mp hb
    subst hfb
    exact baseName_sanitize f.lowered
  cases hn : assignNames (fields.map Field.baseName) [] with
  | none => simp [compileSchema, schemaLines, hn] at hc
  | some names =>
    obtain ⟨hnd, hgood, hlen⟩ := assignNames_spec _ [] names hbases (by simp) (by simp) hn
    have hlen' : names.length = fields.length := by simpa using hlen
    have hw : ∀ n ∈ names, n ≠ [] ∧ ∀ c ∈ n, isWordChar true c = true := fun n h => ⟨(hgood n h).1, (hgood n h).2.1⟩
    obtain ⟨xsF, hfl, hallF, hnamesF, hrefsF⟩ := fieldLines_ok fields names hok hlen' hw
    have htext := compileSchema_lines name upper fields envelope names xsF hn hfl
    rw [hc] at htext
    simp only [Option.some.injEq] at htext
    rw [htext]
    have hF : LineSpec.names xsF = names := hnamesF
    apply assemble name xsF (contentSpecs names) (docSpecs upper envelope) hallF (contentSpecs_ok _ hw)
      (docSpecs_ok upper envelope)
    · -- no rule is defined twice
      rw [hF, names_contentSpecs, names_docSpecs]
      apply nodup_insert_middle _ _ _ hnd
      · cases envelope <;> cases names.isEmpty <;> decide
      · intro x hx hmem
        refine (hgood x hx).2.2 ?_
        have hsub : ∀ (b1 b2 : Bool), ∀ y ∈ ["ws".toList] ++ ((if b1 then ["content".toList] else ["field".toList, "content".toList]) ++
            (if b2 then ["envelope-start", "envelope-end", "meta-block", "meta-content", "meta-field", "document"].map String.toList
              else ["document".toList]) ++ ["root".toList]), y ∈ allStructural := by decide
        exact hsub _ _ x hmem
    · exact hrefsF
    · -- references of the field / content rules
      intro r hr
      rw [refs_contentSpecs] at hr
      rw [hF, names_contentSpecs]
      split at hr
      · simp at hr
      · rename_i hne
        simp only [hne, Bool.false_eq_true, if_false]
        simp only [List.mem_append, List.mem_cons, List.not_mem_nil, or_false] at hr ⊢
        rcases hr with h | h | h
        · left; right; exact h
        · right; left; exact h
        · left; left; exact h
    · -- references of the document rules
      intro r hr
      rw [refs_docSpecs] at hr
      rw [names_contentSpecs, names_docSpecs]
      cases envelope <;> cases names.isEmpty <;> revert r <;> decide
    · rw [names_docSpecs]; cases envelope <;> decide

/-! ## the executable verdict used by the driver is the specification -/

theorem dupsOf_isEmpty_iff : ∀ (l : List Str), (dupsOf l).isEmpty = true ↔ l.Nodup := by
  intro l
  induction l with
  | nil => simp [dupsOf]
  | cons n r ih =>
    simp only [dupsOf, List.nodup_cons]
    by_cases h : r.contains n = true
    · simp only [h, if_true, List.isEmpty_cons, Bool.false_eq_true, false_iff, not_and]
      intro hn; exact absurd (by simpa [List.contains_iff_mem] using h) hn
    · simp only [h, Bool.false_eq_true, if_false, ih]
      constructor
      · intro hr; exact ⟨by simpa [List.contains_iff_mem] using h, hr⟩
      · intro hr; exact hr.2

theorem wellFormedB_iff (len : Bool) (text : Str) : wellFormedB len text = true ↔ WellFormed len text := by
  unfold wellFormedB WellFormed
  cases hp : parse len text with
  | none => simp
  | some g =>
    simp only [Grammar.wellFormedB, Bool.and_eq_true, List.all_eq_true, Option.some.injEq, exists_eq_left']
    rw [dupsOf_isEmpty_iff]
    simp [List.contains_iff_mem, and_assoc]

/-! ## totality: the uniqueness loop terminates -/

theorem length_le_of_nodup_subset : ∀ (xs l : List Str), xs.Nodup → (∀ x ∈ xs, x ∈ l) → xs.length ≤ l.length := by
  intro xs
  induction xs with
  | nil => intro l _ _; simp
  | cons a r ih =>
    intro l hnd hsub
    have ha : a ∈ l := hsub a (by simp)
    have hnd' := List.nodup_cons.mp hnd
    have h1 : ∀ x ∈ r, x ∈ l.erase a := by
      intro x hx
      have hxa : x ≠ a := fun h => hnd'.1 (h ▸ hx)
      exact (List.mem_erase_of_ne hxa).mpr (hsub x (by simp [hx]))
    have := ih (l.erase a) hnd'.2 h1
    rw [List.length_erase_of_mem ha] at this
    have hpos : 0 < l.length := List.length_pos_of_mem ha
    simp only [List.length_cons]
    omega

theorem nodup_map_of_inj (f : Nat → Str) (hinj : ∀ a b, f a = f b → a = b) : ∀ (l : List Nat), l.Nodup → (l.map f).Nodup := by
  intro l
  induction l with
  | nil => intro _; simp
  | cons a r ih =>
    intro h
    have h' := List.nodup_cons.mp h
    simp only [List.map_cons, List.nodup_cons]
    refine ⟨?_, ih h'.2⟩
    intro hm
    obtain ⟨x, hx, hfx⟩ := List.mem_map.mp hm
    have := hinj x a hfx
    subst this
    exact h'.1 hx

theorem toDigits10_inj (a b : Nat) (h : Nat.toDigits 10 a = Nat.toDigits 10 b) : a = b := by
  have ha := @Nat.ofDigitChars_toDigits 10 a (by decide) (by decide)
  have hb := @Nat.ofDigitChars_toDigits 10 b (by decide) (by decide)
  rw [h] at ha
  exact ha.symm.trans hb

/-- the i-th name the loop tries -/
def candidateAt (base : Str) (start : Nat) : Nat → Str
  | 0 => base
  | i + 1 => uniqueCandidate base (start + i)

theorem candidateAt_inj (base : Str) (start i j : Nat) (h : candidateAt base start i = candidateAt base start j) : i = j := by
  cases i with
  | zero =>
    cases j with
    | zero => rfl
    | succ j =>
      simp only [candidateAt, uniqueCandidate_eq] at h
      have := congrArg List.length h
      simp at this
  | succ i =>
    cases j with
    | zero =>
      simp only [candidateAt, uniqueCandidate_eq] at h
      have := congrArg List.length h
      simp at this
    | succ j =>
      simp only [candidateAt, uniqueCandidate_eq] at h
      have h2 := List.append_cancel_left h
      simp only [List.cons.injEq, true_and] at h2
      have := toDigits10_inj _ _ h2
      omega

/-- if the loop gives up after `f` more iterations, every name it tried was taken -/
theorem uniqueLoop_none (used : List Str) (base : Str) (start : Nat) : ∀ (f i : Nat),
    uniqueLoop used base f (start + i) (candidateAt base start i) = none →
    ∀ j, j ≤ f → nameTaken used (candidateAt base start (i + j)) = true := by
  intro f
  induction f with
  | zero =>
    intro i h j hj
    have : j = 0 := by omega
    subst this
    simp only [uniqueLoop] at h
    split at h
    · rename_i ht; simpa using ht
    · cases h
  | succ f ih =>
    intro i h j hj
    simp only [uniqueLoop] at h
    split at h
    · rename_i ht
      cases j with
      | zero => simpa using ht
      | succ j =>
        have h' : uniqueLoop used base f (start + (i + 1)) (candidateAt base start (i + 1)) = none := by
          simpa [candidateAt, Nat.add_assoc] using h
        have := ih (i + 1) h' j (by omega)
        simpa [Nat.add_assoc, Nat.add_comm 1 j] using this
    · cases h

theorem uniqueName_total (used : List Str) (base : Str) : ∃ n, uniqueName used base = some n := by
  cases h : uniqueName used base with
  | some n => exact ⟨n, rfl⟩
  | none =>
    exfalso
    unfold uniqueName at h
    have h0 : uniqueLoop used base (used.length + Gen.schemaReservedRuleNames.length + 1) (Gen.schemaUniqueSuffixStart + 0)
        (candidateAt base Gen.schemaUniqueSuffixStart 0) = none := by simpa [candidateAt] using h
    have hall := uniqueLoop_none used base Gen.schemaUniqueSuffixStart _ 0 h0
    -- F+1 distinct candidates inside a list of length F
    let F := used.length + Gen.schemaReservedRuleNames.length + 1
    let cands := (List.range (F + 1)).map (candidateAt base Gen.schemaUniqueSuffixStart)
    have hnd : cands.Nodup :=
      nodup_map_of_inj _ (fun a b hab => candidateAt_inj base _ a b hab) _ List.nodup_range
    have hsub : ∀ x ∈ cands, x ∈ used ++ Gen.schemaReservedRuleNames := by
      intro x hx
      obtain ⟨i, hi, hxi⟩ := List.mem_map.mp hx
      have hi' : i ≤ F := by have := List.mem_range.mp hi; omega
      have := hall i hi'
      simp only [Nat.zero_add] at this
      rw [hxi] at this
      simp only [nameTaken, Bool.or_eq_true, List.contains_iff_mem] at this
      exact List.mem_append.mpr this
    have := length_le_of_nodup_subset cands _ hnd hsub
    simp only [cands, List.length_map, List.length_range, List.length_append, F] at this
    omega

theorem assignNames_total : ∀ (bases used : List Str), ∃ names, assignNames bases used = some names := by
  intro bases
  induction bases with
  | nil => intro used; exact ⟨used, rfl⟩
  | cons b r ih =>
    intro used
    obtain ⟨n, hn⟩ := uniqueName_total used b
    obtain ⟨names, hnames⟩ := ih (used ++ [n])
    exact ⟨names, by simp [assignNames, hn, hnames]⟩

theorem assignNames_length : ∀ (bases used names : List Str), assignNames bases used = some names →
    names.length = used.length + bases.length := by
  intro bases
  induction bases with
  | nil => intro used names h; simp [assignNames] at h; subst h; simp
  | cons b r ih =>
    intro used names h
    simp only [assignNames] at h
    split at h
    · have := ih _ _ h; simp at this ⊢; omega
    · cases h

theorem compileConstraint_total (c : Constraint) : ∃ frag, compileConstraint c = some frag := by
  cases c <;> simp [compileConstraint, gen_dispatch, lookupMethod, Constraint.kind, runMethod]

theorem fieldLines_total : ∀ (fields : List Field) (names : List Str), names.length = fields.length →
    ∃ ls, fieldLines fields names = some ls := by
  intro fields
  induction fields with
  | nil => intro names _; exact ⟨[], by simp [fieldLines]⟩
  | cons f r ih =>
    intro names hlen
    cases names with
    | nil => simp at hlen
    | cons n ns =>
      obtain ⟨ls, hls⟩ := ih ns (by simpa using hlen)
      have hp : ∃ pat, fieldPattern f = some pat := by
        unfold fieldPattern
        cases f.chain with
        | none => exact ⟨_, rfl⟩
        | some cs =>
          simp only
          unfold compileChain
          cases deciding cs with
          | none => exact ⟨_, rfl⟩
          | some c => exact compileConstraint_total c
      obtain ⟨pat, hpat⟩ := hp
      exact ⟨render Gen.schemaFieldRuleTpl [n, escapeLiteral f.name, pat] :: ls, by simp [fieldLines, fieldLine, hpat, hls]⟩

/-- **C12_compile_total.**  `compile_schema` returns a text for every schema: no constraint object makes a
`_compile_*` method raise (the dispatch sends each class to the method that reads its own attributes) and
the rule-name uniqueness loop terminates (pigeonhole over the candidates `base`, `base-2`, `base-3`, …). -/
theorem C12_compile_total (name upper : Str) (fields : List Field) (envelope : Bool) :
    ∃ text, compileSchema name upper fields envelope = some text := by
  obtain ⟨names, hn⟩ := assignNames_total (fields.map Field.baseName) []
  have hlen := assignNames_length _ _ _ hn
  obtain ⟨ls, hls⟩ := fieldLines_total fields names (by simpa using hlen)
  simp [compileSchema, schemaLines, hn, hls]

/-- … hence: every schema the reader can deliver compiles to a well-formed grammar. -/
theorem C12_wellformed_total_partial (name upper : Str) (fields : List Field) (envelope : Bool)
    (hok : SchemaOK fields = true) :
    ∃ text, compileSchema name upper fields envelope = some text ∧ WellFormed true text := by
  obtain ⟨text, ht⟩ := C12_compile_total name upper fields envelope
  exact ⟨text, ht, C12_wellformed_partial name upper fields envelope text hok ht⟩

/-! ## the META.CONTRACT route -/

/-- **C12_contract_route.**  `compile_gbnf_from_meta` (CONTRACT given as the parser's token list) is
`compile_schema` with envelope of the schema whose fields are rebuilt from the tokens
(`_reconstruct_field_specs_from_tokens`, `parse_contract_field`, dict insertion) — so
`C12_wellformed_partial` applies to it verbatim. -/
theorem C12_contract_route (env : Env) (type upper : Str) (toks : List CTok) (fs : List Field)
    (h : contractFields env (reconstruct toks) [] = some fs) :
    compileMetaTokens env type upper toks = some (compileSchema type upper fs true) := by
  simp [compileMetaTokens, compileMeta, h]

theorem C12_contract_wellformed_partial (env : Env) (type upper : Str) (toks : List CTok) (fs : List Field)
    (h : contractFields env (reconstruct toks) [] = some fs) (hok : SchemaOK fs = true) :
    ∃ text, compileMetaTokens env type upper toks = some (some text) ∧ WellFormed true text := by
  obtain ⟨text, ht, hwf⟩ := C12_wellformed_total_partial type upper fs true hok
  exact ⟨text, by rw [C12_contract_route env type upper toks fs h, ht], hwf⟩

/-- the fields dict never holds a name twice: collisions (F21) are between *different* field names -/
theorem dictSet_names_nodup (f : Field) : ∀ (l : List Field), (l.map (·.name)).Nodup → ((dictSet f l).map (·.name)).Nodup := by
  intro l
  induction l with
  | nil => intro _; simp [dictSet]
  | cons g r ih =>
    intro h
    simp only [dictSet]
    split
    · rename_i heq
      have : g.name = f.name := by simpa using heq
      simpa [this] using h
    · rename_i hne
      have hne' : g.name ≠ f.name := by simpa using hne
      simp only [List.map_cons, List.nodup_cons] at h ⊢
      refine ⟨?_, ih h.2⟩
      intro hmem
      obtain ⟨x, hx, hxn⟩ := List.mem_map.mp hmem
      have : ∀ (l : List Field) (x : Field), x ∈ dictSet f l → x = f ∨ x ∈ l := by
        intro l
        induction l with
        | nil => intro x hx; simp [dictSet] at hx; exact Or.inl hx
        | cons a t iht =>
          intro x hx
          simp only [dictSet] at hx
          split at hx
          · rcases List.mem_cons.mp hx with h1 | h1
            · exact Or.inl h1
            · exact Or.inr (by simp [h1])
          · rcases List.mem_cons.mp hx with h1 | h1
            · exact Or.inr (by simp [h1])
            · rcases iht x h1 with h2 | h2
              · exact Or.inl h2
              · exact Or.inr (by simp [h2])
      rcases this r x hx with h1 | h1
      · subst h1; exact hne' hxn.symm
      · exact h.1 (List.mem_map.mpr ⟨x, h1, hxn⟩)

/-! ## non-vacuity and regression examples -/

def exampleFields : List Field :=
  [⟨"STATUS".toList, "status".toList, some [.req, .enum ["ACTIVE".toList, "PAUSED".toList]]⟩,
   ⟨"A.B".toList, "a.b".toList, some [.opt, .regex "^[a-z]+$".toList]⟩,
   ⟨"A_DOT_B".toList, "a_dot_b".toList, some [.regex "^abc$".toList]⟩,
   ⟨"CONTENT".toList, "content".toList, some [.const (.bool true)]⟩,
   ⟨"a\"b\\c".toList, "a\"b\\c".toList, some [.const (.other "a\"b\\c".toList)]⟩,
   ⟨"WHEN".toList, "when".toList, some [.iso8601]⟩, ⟨"N".toList, "n".toList, some [.type "NUMBER".toList]⟩,
   ⟨"X".toList, "x".toList, none⟩]

example : SchemaOK exampleFields = true := by decide
example : (compileSchema "Session \"Log\"\n".toList "SESSION \"LOG\"\n".toList exampleFields true).map (wellFormedB true) = some true := by
  decide +kernel
example : (compileSchema "S".toList "S".toList [] false).map (wellFormedB true) = some true := by decide +kernel
example : assignNames ["a_dot_b".toList, "a_dot_b".toList, "content".toList, "a_dot_b".toList] [] =
    some ["a_dot_b".toList, "a_dot_b-2".toList, "content-2".toList, "a_dot_b-3".toList] := by decide +kernel

/-- the witnesses of the fixed findings F20 F21 F22 C12N1 C12N2 now compile to well-formed grammars -/
theorem fixed_findings_regression :
    (compileSchema "S".toList "S".toList [⟨"CONTENT".toList, "content".toList, some [.req]⟩] false).map (wellFormedB true) = some true ∧
    (compileSchema "S".toList "S".toList
      [⟨"A.B".toList, "a.b".toList, some [.req]⟩, ⟨"A_DOT_B".toList, "a_dot_b".toList, some [.opt]⟩] false).map (wellFormedB true) = some true ∧
    (compileSchema "S".toList "S".toList [⟨"P".toList, "p".toList, some [.regex "^abc$".toList]⟩] false).map (wellFormedB true) = some true ∧
    (compileSchema "S".toList "S".toList [⟨"\"a\\b\"".toList, "\"a\\b\"".toList, some [.req]⟩] true).map (wellFormedB true) = some true ∧
    (compileSchema "a\"b".toList "A\"B".toList [⟨"STATUS".toList, "status".toList, some [.req]⟩] true).map (wellFormedB true) = some true ∧
    (compileSchema "a\nb".toList "A\nB".toList [⟨"STATUS".toList, "status".toList, some [.req]⟩] false).map (wellFormedB true) = some true := by
  decide +kernel

/-! ## negative theorem: the strict alphabet (F23) -/

def illFormed (len : Bool) (o : Option Str) : Prop := ∃ text, o = some text ∧ ¬ WellFormed len text

theorem illFormed_of_B {len : Bool} {o : Option Str} (h : o.map (wellFormedB len) = some false) : illFormed len o := by
  cases o with
  | none => simp at h
  | some t =>
    refine ⟨t, rfl, ?_⟩
    rw [← wellFormedB_iff]
    simpa using h

/-- **F23**: under llama.cpp's own name alphabet `[a-zA-Z0-9-]` the grammar of a schema with a field
`OPTIONAL_FIELD` (rule `optional_field`) does not parse, although it is well-formed when `_` is admitted. -/
theorem F23_strict_alphabet_witness :
    illFormed false (compileSchema "S".toList "S".toList [⟨"OPTIONAL_FIELD".toList, "optional_field".toList, some [.opt]⟩] false) ∧
    (compileSchema "S".toList "S".toList [⟨"OPTIONAL_FIELD".toList, "optional_field".toList, some [.opt]⟩] false).map (wellFormedB true) = some true :=
  ⟨illFormed_of_B (by decide +kernel), by decide +kernel⟩

end Octave.C12
