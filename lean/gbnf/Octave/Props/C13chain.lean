/-
C13 — the CHAIN half: the value a derived text is read as satisfies the constraint the fragment was compiled from.

`Props/C13.lean` proves, for every input, which texts each compiled fragment derives and takes the reader + validator as a
parameter `accepts : Str → Bool`.  `Spec/ChainAccept.lean` spells that parameter out:
`chainAccepts env k s = (readsAs env s).any (chainOk env k)` — `readsAs` is the READING half in the terms the text engine
proves (`lean/text/Octave/Props/C13reader.lean`), `chainOk` is `Constraint.evaluate(value).valid` of constraints.py.
Here it is proved that this `accepts` satisfies the hypotheses of `C13_boolean`, `C13_number`, `C13_const`, `C13_enum`
— everywhere it is true; where it is false (open findings C13N2, C13N3, C13N4) the theorem is named `_partial`, carries
a decidable guard, and the negation is proved on a witness.

  * `C13chain_boolean`          TYPE[BOOLEAN]: every derivable text is read as a bool and TYPE[BOOLEAN] accepts it.  Full strength.
  * `C13chain_number_partial`   TYPE[NUMBER]: every derivable text that is representable (`chainAccRepresentable`: an int
        lexeme of at most 4300 digits / a float lexeme that does not overflow) is read as an int or a float and
        TYPE[NUMBER] accepts it.  `C13chain_number_refused`: for EVERY NUMBER lexeme outside the guard `readsAs` is `none`
        (findings C13N3 / C13N4); `C13N3chain_refused`: EVERY digit string of more than 4300 digits is derivable (completeness lemma
        `chainAcc_number_digits_derivable`) and refused, `C13N3chain_witness` (4301 ones); `C13N4chain_witness`: `1` + 309 zeros +
        `.0` is derivable and refused when `float` overflows.
  * `C13chain_const_partial`    CONST[c]: the one derivable text `constText c` is read as a value equal (Python `==`) to `c`,
        for `c` in `chainAccConstOK` (bool, null, int whose `str` has ≤ 4300 digits — beyond that `str(int)` itself raises in
        `_compile_const` —, a float whose `repr` is a NUMBER lexeme with `.`/exponent that does not overflow and round-trips,
        a string that is a bare word).  `C13chain_const_exact`: for every non-float `c` the guard is EXACT
        (`chainAccepts … = true ↔ chainAccConstOK`), so what is excluded is exactly where `accepts` is false (C13N2).
        Witnesses `C13N2chain_const_witnesses`: the strings `true`, `007`, `"abc"` as CONST values.
  * `C13chain_enum_partial`     ENUM[vals]: every member is read as a value whose `str()` is that member (so the exact-match
        clause accepts), for members in `chainAccMemberOK` (bare word; canonical int `str(int(m)) == m` of ≤ 4300 digits;
        float lexeme with `repr(float(m)) == m`).  The exact class is `vals.all (chainAccepts env (.enum vals))` (decidable, it
        is literally C13_enum's hypothesis: `C13chain_enum_exact`); it is larger than the syntactic guard only through
        ENUM's prefix matching (`ENUM[true,True]` accepts `true`, read as `True`): `C13chain_enum_prefix_quirk`.
        Witnesses `C13N2chain_enum_witnesses`: `ENUM[007]`, `ENUM[true]`, `ENUM[1e5]`.
  * `C13chain_req`, `C13chain_opt`   the REQ/OPT companions (which `C13_with_req_opt` shows leave the fragment alone) accept
        every value read, except REQ on the two texts `null` and `""` (chains `REQ∧CONST[null]` accept no value at all).
  * `C13chain_string_witness`   observation (not among the fragments C13 characterises): TYPE[STRING]'s fragment `[^\n]+`
        derives `7`, which is read as the int 7 and rejected by TYPE[STRING] (real code: `TypeConstraint("STRING").evaluate(7).valid
        == False`).

Not modelled: `ConstraintChain.detect_conflicts` (constraints.py l.1123; a chain with conflicts rejects everything), Python
floats (four operations are fields of `ChainEnv`; hypotheses on them are stated where used).
-/
import Octave.Props.C13
import Octave.Spec.ChainAccept
set_option linter.unusedSimpArgs false
namespace Octave.C13
open Octave Octave.Gbnf Octave.GenFacts

/-! ## generalities -/

theorem chainAccepts_iff (env : ChainEnv) (k : ChainKind) (s : Str) :
    chainAccepts env k s = true ↔ ∃ v, readsAs env s = some v ∧ chainOk env k v = true := by
  unfold chainAccepts
  cases readsAs env s with
  | none => simp
  | some v => simp

/-- a NUMBER lexeme is none of the three reserved words -/
theorem chainAcc_number_not_word (s : Str) (h : pyNumberFull s = true) :
    s ≠ "true".toList ∧ s ≠ "false".toList ∧ s ≠ "null".toList := by
  refine ⟨?_, ?_, ?_⟩ <;> intro e <;> subst e <;> revert h <;> decide

/-- the guard of the NUMBER theorems: `Representable` of C13reader. -/
def chainAccRepresentable (env : ChainEnv) (s : Str) : Bool :=
  if chainAccIsIntLexeme s then decide (chainAccDigitCount s ≤ 4300) else !env.floatInf s

/-- **reading a NUMBER lexeme.** -/
theorem readsAs_number (env : ChainEnv) (s : Str) (h : pyNumberFull s = true) :
    readsAs env s =
      if chainAccIsIntLexeme s then
        if chainAccDigitCount s ≤ 4300 then some (.int (chainAccIntOfText s)) else none
      else if env.floatInf s then none else some (.float s) := by
  obtain ⟨h1, h2, h3⟩ := chainAcc_number_not_word s h
  unfold readsAs
  rw [if_neg (by simpa using h1), if_neg (by simpa using h2), if_neg (by simpa using h3), if_pos h]

/-! ## TYPE[BOOLEAN] -/

/-- **TYPE[BOOLEAN], full strength**: every text the compiled fragment derives is read as a value TYPE[BOOLEAN] accepts. -/
theorem C13chain_boolean (env : ChainEnv) :
    ∃ alts, parseFragment true (compileType "BOOLEAN".toList) = some alts ∧
      ∀ g f s, 8 ≤ f → derivesAlts f g alts s = true →
        ∃ v, readsAs env s = some v ∧ chainOk env (.type "BOOLEAN".toList) v = true := by
  obtain ⟨alts, hp, h⟩ := C13_boolean (chainAccepts env (.type "BOOLEAN".toList)) rfl rfl
  exact ⟨alts, hp, fun g f s hf hd => (chainAccepts_iff env _ s).mp (h g f s hf hd)⟩

example : chainAccepts ChainEnv.plain (.type "BOOLEAN".toList) "true".toList = true ∧
    chainAccepts ChainEnv.plain (.type "BOOLEAN".toList) "True".toList = false ∧
    chainAccepts ChainEnv.plain (.type "NUMBER".toList) "true".toList = false := by decide

/-! ## TYPE[NUMBER] -/

/-- every representable NUMBER lexeme is read as an int or a float, which TYPE[NUMBER] accepts -/
theorem chainAcc_number_accepts (env : ChainEnv) (s : Str) (h : pyNumberFull s = true) (hr : chainAccRepresentable env s = true) :
    ∃ v, readsAs env s = some v ∧ chainOk env (.type "NUMBER".toList) v = true := by
  rw [readsAs_number env s h]
  unfold chainAccRepresentable at hr
  cases hi : chainAccIsIntLexeme s with
  | true =>
    rw [hi] at hr
    simp only [if_true, decide_eq_true_eq] at hr
    exact ⟨.int (chainAccIntOfText s), by simp [hr], rfl⟩
  | false =>
    rw [hi] at hr
    simp only [Bool.false_eq_true, if_false, Bool.not_eq_true'] at hr
    exact ⟨.float s, by simp [hr], rfl⟩

/-- **TYPE[NUMBER]** (partial: findings C13N3, C13N4 — derivable texts of more than 4300 digits, and decimal numerals beyond the
largest double, are refused by the reader; the guard `chainAccRepresentable` excludes exactly those, see
`C13chain_number_refused`). -/
theorem C13chain_number_partial (env : ChainEnv) :
    ∃ alts, parseFragment true (compileType "NUMBER".toList) = some alts ∧
      ∀ g f s, derivesAlts f g alts s = true → chainAccRepresentable env s = true →
        ∃ v, readsAs env s = some v ∧ chainOk env (.type "NUMBER".toList) v = true := by
  obtain ⟨alts, hp, hl⟩ := C13_number_language
  exact ⟨alts, hp, fun g f s hd hr => chainAcc_number_accepts env s (hl g f s hd) hr⟩

/-- the same through `C13_number`'s own interface: its hypothesis holds of `accepts s := representable s → chainAccepts s`. -/
theorem C13chain_number_hypothesis (env : ChainEnv) (s : Str) (h : pyNumberFull s = true) :
    (!chainAccRepresentable env s || chainAccepts env (.type "NUMBER".toList) s) = true := by
  cases hr : chainAccRepresentable env s with
  | false => rfl
  | true => simpa using (chainAccepts_iff env _ s).mpr (chainAcc_number_accepts env s h hr)

/-- **the excluded region, all inputs**: a NUMBER lexeme outside the guard is not read at all (`C13_number_refused` of the text
engine: LexerError E005), so no chain accepts it. -/
theorem C13chain_number_refused (env : ChainEnv) (k : ChainKind) (s : Str) (h : pyNumberFull s = true)
    (hr : chainAccRepresentable env s = false) : readsAs env s = none ∧ chainAccepts env k s = false := by
  have hn : readsAs env s = none := by
    rw [readsAs_number env s h]
    unfold chainAccRepresentable at hr
    cases hi : chainAccIsIntLexeme s with
    | true =>
      rw [hi] at hr
      simp only [if_true, decide_eq_false_iff_not] at hr
      simp [hr]
    | false =>
      rw [hi] at hr
      simp only [Bool.false_eq_true, if_false, Bool.not_eq_false'] at hr
      simp [hr]
  exact ⟨hn, by simp [chainAccepts, hn]⟩

example : chainAccRepresentable ChainEnv.plain "-12.50".toList = true ∧ chainAccRepresentable ChainEnv.plain "007".toList = true := by
  decide
example : readsAs ChainEnv.plain "007".toList = some (.int 7) ∧ readsAs ChainEnv.plain "-0".toList = some (.int 0) ∧
    readsAs ChainEnv.plain "-12.50".toList = some (.float "-12.50".toList) ∧
    readsAs ChainEnv.plain "1e5".toList = some (.float "1e5".toList) := by decide

/-! ## `str(int)` is read back as that int -/

theorem chainAcc_decVal_ofDigitChars (cs : Str) (acc : Nat) : chainAccDecVal cs acc = Nat.ofDigitChars 10 cs acc := by
  induction cs generalizing acc with
  | nil => simp [chainAccDecVal]
  | cons c r ih => rw [chainAccDecVal, Nat.ofDigitChars_cons, ih]; simp [Nat.mul_comm]

theorem chainAcc_decVal_natStr (n : Nat) : chainAccDecVal (chainAccNatStr n) 0 = n := by
  rw [chainAcc_decVal_ofDigitChars]; exact Nat.ofDigitChars_ten_toDigits

theorem chainAcc_natStr_digits (n : Nat) : ∀ c ∈ chainAccNatStr n, isDigit c = true := by
  intro c hc
  have := Nat.isDigit_of_mem_toDigits (by decide) (by decide) hc
  simp only [Char.isDigit, Bool.and_eq_true, decide_eq_true_eq] at this
  simp only [isDigit, Bool.and_eq_true, decide_eq_true_eq]
  obtain ⟨a, b⟩ := this
  constructor
  · have := UInt32.le_iff_toNat_le.mp a; simpa using this
  · have := UInt32.le_iff_toNat_le.mp b; simpa using this

theorem chainAcc_natStr_ne_nil (n : Nat) : chainAccNatStr n ≠ [] := Nat.toDigits_ne_nil

theorem chainAcc_digit_ne (c x : Char) (hc : isDigit c = true) (hx : isDigit x = false) : c ≠ x := by
  intro e; subst e; rw [hc] at hx; cases hx

/-- a string of digits, possibly after `-`, contains no `.`, `e`, `E` -/
theorem chainAcc_digits_isIntLexeme (ds : Str) (h : ∀ c ∈ ds, isDigit c = true) :
    chainAccIsIntLexeme ds = true ∧ chainAccIsIntLexeme ('-' :: ds) = true := by
  have hno : ∀ x : Char, isDigit x = false → ds.contains x = false := by
    intro x hx
    cases hcx : ds.contains x with
    | false => rfl
    | true =>
      have := List.contains_iff_mem.mp hcx
      exact absurd rfl (chainAcc_digit_ne x x (h x this) hx)
  have h1 := hno '.' (by decide)
  have h2 := hno 'e' (by decide)
  have h3 := hno 'E' (by decide)
  constructor
  · simp only [chainAccIsIntLexeme, h1, h2, h3]; decide
  · simp only [chainAccIsIntLexeme, List.contains_cons, h1, h2, h3]; decide

/-- `str(i)` for an int: a NUMBER lexeme, an int lexeme, with the digits of `|i|`, denoting `i`. -/
theorem chainAcc_intStr_facts (i : Int) :
    pyNumberFull (chainAccIntStr i) = true ∧ chainAccIsIntLexeme (chainAccIntStr i) = true ∧
    chainAccDigitCount (chainAccIntStr i) = (chainAccNatStr i.natAbs).length ∧
    chainAccIntOfText (chainAccIntStr i) = i := by
  have hd := chainAcc_natStr_digits i.natAbs
  have hne := chainAcc_natStr_ne_nil i.natAbs
  have hpy := pyNumberFull_unsigned (chainAccNatStr i.natAbs) [] hd hne (Or.inl rfl)
  simp only [List.append_nil] at hpy
  have hil := chainAcc_digits_isIntLexeme _ hd
  have hv := chainAcc_decVal_natStr i.natAbs
  obtain ⟨d, t, hdt⟩ := List.exists_cons_of_ne_nil hne
  have hdm : d ≠ '-' := chainAcc_digit_ne d '-' (hd d (by rw [hdt]; simp)) (by decide)
  unfold chainAccIntStr
  by_cases hneg : i < 0
  · rw [if_pos hneg]
    refine ⟨hpy.2, hil.2, rfl, ?_⟩
    simp only [chainAccIntOfText, hv]
    omega
  · rw [if_neg hneg]
    refine ⟨hpy.1, hil.1, ?_, ?_⟩
    · rw [hdt]; unfold chainAccDigitCount; split
      · rename_i heq; simp at heq; exact absurd heq.1 hdm
      · rfl
    · have : chainAccIntOfText (chainAccNatStr i.natAbs) = ((chainAccDecVal (chainAccNatStr i.natAbs) 0 : Nat) : Int) := by
        rw [hdt]; unfold chainAccIntOfText; split
        · rename_i heq; simp at heq; exact absurd heq.1 hdm
        · rfl
      rw [this, hv]
      omega

/-- **reading `str(i)`**: the int `i` itself — or nothing, beyond 4300 digits. -/
theorem readsAs_intStr (env : ChainEnv) (i : Int) :
    readsAs env (chainAccIntStr i) = if (chainAccNatStr i.natAbs).length ≤ 4300 then some (.int i) else none := by
  obtain ⟨h1, h2, h3, h4⟩ := chainAcc_intStr_facts i
  rw [readsAs_number env _ h1, h2, h3, h4]
  rfl

/-! ## bare words -/

theorem chainAcc_ident_not_number (s : Str) (h : chainAccIsIdentifierText s = true) : pyNumberFull s = false := by
  cases s with
  | nil => rfl
  | cons c cs =>
    simp only [chainAccIsIdentifierText, Bool.and_eq_true] at h
    have hs := h.1.1
    have hcd : isDigit c = false ∧ c ≠ '-' := by
      simp only [chainAccIdentStart, chainAccIsAlpha, isUpper, isLower, Bool.or_eq_true, Bool.and_eq_true, decide_eq_true_eq,
        beq_iff_eq] at hs
      constructor
      · rcases hs with (h1 | h1) | h1
        · simp [isDigit]; omega
        · simp [isDigit]; omega
        · subst h1; decide
      · intro e; subst e; revert hs; decide
    rw [pyNumberFull_cons_ne c cs hcd.2, hcd.1]; rfl

/-- **reading a bare word**: the string itself. -/
theorem readsAs_bareWord (env : ChainEnv) (s : Str) (h : chainAccBareWord s = true) : readsAs env s = some (.str s) := by
  have h1 : s ≠ "true".toList := by intro e; subst e; revert h; decide
  have h2 : s ≠ "false".toList := by intro e; subst e; revert h; decide
  have h3 : s ≠ "null".toList := by intro e; subst e; revert h; decide
  have hid : chainAccIsIdentifierText s = true := by
    simp only [chainAccBareWord, Bool.and_eq_true] at h; exact h.1
  have hn := chainAcc_ident_not_number s hid
  unfold readsAs
  rw [if_neg (by simpa using h1), if_neg (by simpa using h2), if_neg (by simpa using h3), hn, if_neg (by simp), if_pos h]

/-! ## CONST -/

/-- the class of CONST values for which the derived text is read back as an equal value (decidable).
  * bool, null: always (finding C13N1 fixed);
  * int: `str(i)` has at most 4300 digits (beyond: `str(const_value)` raises ValueError inside `_compile_const`, nothing is compiled);
  * float, given as its `repr` `r`: `r` is a NUMBER lexeme with `.` or exponent (excludes `inf`, `nan` — C13N2), `float(r)` is
    finite, and `float(r) == float(r)` (true of every non-NaN float; a fact about the environment);
  * str: a bare word (everything else is finding C13N2 or outside the reader theorems, see `C13chain_const_exact`). -/
def chainAccConstOK (env : ChainEnv) : ChainConst → Bool
  | .bool _ => true
  | .none => true
  | .int i => decide ((chainAccNatStr i.natAbs).length ≤ 4300)
  | .float r => pyNumberFull r && !chainAccIsIntLexeme r && !env.floatInf r && env.floatEq r r
  | .str s => chainAccBareWord s

theorem chainAcc_const_accepts (env : ChainEnv) (c : ChainConst) (h : chainAccConstOK env c = true) :
    ∃ v, readsAs env (constText c.toConstVal) = some v ∧ chainOk env (.const c) v = true := by
  obtain ⟨ht, hf, hn⟩ := gen_constSpellings
  cases c with
  | bool b =>
    cases b
    · exact ⟨.bool false, by simp only [ChainConst.toConstVal, constText, hf]; rfl, rfl⟩
    · exact ⟨.bool true, by simp only [ChainConst.toConstVal, constText, ht]; rfl, rfl⟩
  | none => exact ⟨.null, by simp only [ChainConst.toConstVal, constText, hn]; rfl, rfl⟩
  | int i =>
    simp only [chainAccConstOK, decide_eq_true_eq] at h
    refine ⟨.int i, ?_, by simp [chainOk, chainAccPyEq]⟩
    simp only [ChainConst.toConstVal, constText]
    rw [readsAs_intStr, if_pos h]
  | float r =>
    simp only [chainAccConstOK, Bool.and_eq_true, Bool.not_eq_true'] at h
    obtain ⟨⟨⟨h1, h2⟩, h3⟩, h4⟩ := h
    refine ⟨.float r, ?_, by simpa [chainOk, chainAccPyEq] using h4⟩
    simp only [ChainConst.toConstVal, constText]
    rw [readsAs_number env r h1, h2, h3]
    rfl
  | str s =>
    simp only [chainAccConstOK] at h
    refine ⟨.str s, ?_, by simp [chainOk, chainAccPyEq]⟩
    simp only [ChainConst.toConstVal, constText]
    exact readsAs_bareWord env s h

/-- **CONST** (partial: finding C13N2 — CONST literals are emitted as raw text, not in OCTAVE value syntax; the guard
`chainAccConstOK` is exact for every non-float value, `C13chain_const_exact`).  The hypothesis of `C13_const` holds of
`accepts := chainAccepts env (.const c)`, hence every text the compiled fragment derives is read as a value equal to `c`. -/
theorem C13chain_const_partial (env : ChainEnv) (c : ChainConst) (h : chainAccConstOK env c = true) :
    ∃ alts, parseFragment true (compileConst c.toConstVal) = some alts ∧
      ∀ g f s, 4 ≤ f → derivesAlts f g alts s = true →
        ∃ v, readsAs env s = some v ∧ chainOk env (.const c) v = true := by
  obtain ⟨alts, hp, hl⟩ := C13_const (chainAccepts env (.const c)) c.toConstVal
    ((chainAccepts_iff env _ _).mpr (chainAcc_const_accepts env c h))
  exact ⟨alts, hp, fun g f s hf hd => (chainAccepts_iff env _ s).mp (hl g f s hf hd)⟩

/-- the content of a quoted spelling is shorter than the spelling -/
theorem chainAcc_unquote_length : ∀ (r u : Str), chainAccUnquote r = some u → u.length + 1 ≤ r.length := by
  intro r
  fun_induction chainAccUnquote r <;> intro u hu
  all_goals first
    | (simp at hu; done)
    | (simp at hu; subst hu; simp; done)
    | (simp only [Option.map_eq_some_iff] at hu
       obtain ⟨w, hw, rfl⟩ := hu
       rename_i ih
       have := ih w hw
       simp only [List.length_cons]
       omega)

/-- a text that is read as the very same string is a bare word -/
theorem chainAcc_readsAs_str_self (env : ChainEnv) (s : Str) (h : readsAs env s = some (.str s)) : chainAccBareWord s = true := by
  unfold readsAs at h
  split at h
  · simp at h
  split at h
  · simp at h
  split at h
  · simp at h
  split at h
  · split at h
    · split at h <;> simp at h
    · split at h <;> simp at h
  split at h
  · assumption
  · split at h
    · simp only [Option.map_eq_some_iff, ReadVal.str.injEq] at h
      obtain ⟨u, hu, hus⟩ := h
      have := chainAcc_unquote_length _ _ hu
      rw [hus] at this
      simp only [List.length_cons] at this
      omega
    · simp at h

/-- **the guard is exact** for every CONST value that is not a float: outside `chainAccConstOK` the derived text is NOT read
as an equal value (it is read as another value — `CONST["true"]` → the boolean, `CONST["007"]` → 7, `CONST["\"a\""]` → `a` —
or refused, or outside the classes the reader theorems cover). -/
theorem C13chain_const_exact (env : ChainEnv) (c : ChainConst) (hnf : ∀ r, c ≠ .float r) :
    chainAccepts env (.const c) (constText c.toConstVal) = true ↔ chainAccConstOK env c = true := by
  constructor
  · intro h
    obtain ⟨v, hv, hok⟩ := (chainAccepts_iff env _ _).mp h
    cases c with
    | bool b => rfl
    | none => rfl
    | float r => exact absurd rfl (hnf r)
    | int i =>
      simp only [ChainConst.toConstVal, constText] at hv
      rw [readsAs_intStr] at hv
      simp only [chainAccConstOK, decide_eq_true_eq]
      by_cases hl : (chainAccNatStr i.natAbs).length ≤ 4300
      · exact hl
      · rw [if_neg hl] at hv; simp at hv
    | str s =>
      simp only [ChainConst.toConstVal, constText] at hv
      have hvs : v = .str s := by
        cases v <;> simp [chainOk, chainAccPyEq] at hok
        rw [hok]
      subst hvs
      exact chainAcc_readsAs_str_self env s hv
  · intro h
    exact (chainAccepts_iff env _ _).mpr (chainAcc_const_accepts env c h)

example : chainAccConstOK ChainEnv.plain (.str "ACTIVE".toList) = true ∧ chainAccConstOK ChainEnv.plain (.int (-42)) = true ∧
    chainAccConstOK ChainEnv.plain (.float "1.5".toList) = true ∧ chainAccConstOK ChainEnv.plain (.float "1e+16".toList) = true ∧
    chainAccConstOK ChainEnv.plain (.bool true) = true ∧ chainAccConstOK ChainEnv.plain (.str "v1.2-rc".toList) = true := by decide
/-- excluded: the strings `true`, `007`, `a,b`, `"abc"`, ``, `hello world`; the floats `inf`, `nan`. -/
example : chainAccConstOK ChainEnv.plain (.str "true".toList) = false ∧ chainAccConstOK ChainEnv.plain (.str "007".toList) = false ∧
    chainAccConstOK ChainEnv.plain (.str "a,b".toList) = false ∧ chainAccConstOK ChainEnv.plain (.str "\"abc\"".toList) = false ∧
    chainAccConstOK ChainEnv.plain (.str []) = false ∧ chainAccConstOK ChainEnv.plain (.str "hello world".toList) = false ∧
    chainAccConstOK ChainEnv.plain (.float "inf".toList) = false ∧ chainAccConstOK ChainEnv.plain (.float "nan".toList) = false := by
  decide

/-- **C13N2 on witnesses (CONST)**: the compiled fragment derives the raw text, which is read as a DIFFERENT value that the
same CONST rejects.  Real code: `ConstConstraint("true").evaluate(True).valid`, `ConstConstraint("007").evaluate(7).valid`,
`ConstConstraint('"abc"').evaluate("abc").valid` are all `False`. -/
theorem C13N2chain_const_witnesses (env : ChainEnv) :
    (∃ alts, parseFragment true (compileConst (ChainConst.str "true".toList).toConstVal) = some alts ∧
      derivesAlts 10 [] alts "true".toList = true ∧ readsAs env "true".toList = some (.bool true) ∧
      chainOk env (.const (.str "true".toList)) (.bool true) = false) ∧
    (∃ alts, parseFragment true (compileConst (ChainConst.str "007".toList).toConstVal) = some alts ∧
      derivesAlts 10 [] alts "007".toList = true ∧ readsAs env "007".toList = some (.int 7) ∧
      chainOk env (.const (.str "007".toList)) (.int 7) = false) ∧
    (∃ alts, parseFragment true (compileConst (ChainConst.str "\"abc\"".toList).toConstVal) = some alts ∧
      derivesAlts 10 [] alts "\"abc\"".toList = true ∧ readsAs env "\"abc\"".toList = some (.str "abc".toList) ∧
      chainOk env (.const (.str "\"abc\"".toList)) (.str "abc".toList) = false) := by
  refine ⟨?_, ?_, ?_⟩
  · obtain ⟨alts, hp, hl⟩ := C13_const_language (ChainConst.str "true".toList).toConstVal
    exact ⟨alts, hp, (hl [] 10 _ (by decide)).mpr rfl, rfl, rfl⟩
  · obtain ⟨alts, hp, hl⟩ := C13_const_language (ChainConst.str "007".toList).toConstVal
    exact ⟨alts, hp, (hl [] 10 _ (by decide)).mpr rfl, rfl, rfl⟩
  · obtain ⟨alts, hp, hl⟩ := C13_const_language (ChainConst.str "\"abc\"".toList).toConstVal
    exact ⟨alts, hp, (hl [] 10 _ (by decide)).mpr rfl, rfl, rfl⟩

/-! ## ENUM -/

/-- members that are read as a value whose `str()` is the member itself (decidable): a bare word; a canonical int
(`str(int(m)) == m`: no leading zeros, no `-0`, no `+`) of at most 4300 digits; a float lexeme with `repr(float(m)) == m`. -/
def chainAccMemberOK (env : ChainEnv) (m : Str) : Bool :=
  chainAccBareWord m ||
  (pyNumberFull m &&
    (if chainAccIsIntLexeme m then decide (chainAccDigitCount m ≤ 4300) && chainAccIntStr (chainAccIntOfText m) == m
     else !env.floatInf m && env.floatRepr m == m))

theorem chainAcc_member_reads (env : ChainEnv) (m : Str) (h : chainAccMemberOK env m = true) :
    ∃ v, readsAs env m = some v ∧ chainAccPyStr env v = m := by
  unfold chainAccMemberOK at h
  cases hb : chainAccBareWord m with
  | true => exact ⟨.str m, readsAs_bareWord env m hb, rfl⟩
  | false =>
    rw [hb] at h
    simp only [Bool.false_or, Bool.and_eq_true] at h
    obtain ⟨hn, h⟩ := h
    rw [readsAs_number env m hn]
    cases hi : chainAccIsIntLexeme m with
    | true =>
      rw [hi] at h
      simp only [if_true, Bool.and_eq_true, decide_eq_true_eq, beq_iff_eq] at h
      exact ⟨.int (chainAccIntOfText m), by simp [h.1], h.2⟩
    | false =>
      rw [hi] at h
      simp only [Bool.false_eq_true, if_false, Bool.and_eq_true, Bool.not_eq_true', beq_iff_eq] at h
      exact ⟨.float m, by simp [h.1], h.2⟩

theorem chainAcc_member_accepts (env : ChainEnv) (vals : List Str) (m : Str) (hm : m ∈ vals) (h : chainAccMemberOK env m = true) :
    chainAccepts env (.enum vals) m = true := by
  obtain ⟨v, hv, hs⟩ := chainAcc_member_reads env m h
  refine (chainAccepts_iff env _ m).mpr ⟨v, hv, ?_⟩
  simp only [chainOk, hs, Bool.or_eq_true]
  exact Or.inl (List.contains_iff_mem.mpr hm)

/-- **ENUM** (partial: finding C13N2 — members are emitted as raw text; guard: every member is in `chainAccMemberOK`).
The hypothesis of `C13_enum` holds of `accepts := chainAccepts env (.enum vals)`: every text the compiled fragment derives is
read as a value whose `str()` is a member, which `EnumConstraint.evaluate` accepts by its exact-match clause. -/
theorem C13chain_enum_partial (env : ChainEnv) (vals : List Str) (hne : vals ≠ [])
    (h : ∀ m ∈ vals, chainAccMemberOK env m = true) :
    ∃ alts, parseFragment true (compileEnum vals) = some alts ∧
      ∀ g f s, vals.length + 6 ≤ f → derivesAlts f g alts s = true →
        ∃ v, readsAs env s = some v ∧ chainOk env (.enum vals) v = true := by
  obtain ⟨alts, hp, hl⟩ := C13_enum (chainAccepts env (.enum vals)) vals hne
    (fun m hm => chainAcc_member_accepts env vals m hm (h m hm))
  exact ⟨alts, hp, fun g f s hf hd => (chainAccepts_iff env _ s).mp (hl g f s hf hd)⟩

/-- **the exact class for ENUM** is C13_enum's own hypothesis, a decidable predicate of the member list: all derivations are
accepted iff every member is (`chainAccMemberOK` is a syntactic sufficient condition for it, member by member). -/
theorem C13chain_enum_exact (env : ChainEnv) (vals : List Str) (hne : vals ≠ []) :
    ∃ alts, parseFragment true (compileEnum vals) = some alts ∧
      ((∀ g f s, vals.length + 6 ≤ f → derivesAlts f g alts s = true → chainAccepts env (.enum vals) s = true) ↔
        vals.all (chainAccepts env (.enum vals)) = true) := by
  obtain ⟨alts, hp, hl⟩ := C13_enum_language vals hne
  refine ⟨alts, hp, ?_, ?_⟩
  · intro h
    rw [List.all_eq_true]
    exact fun m hm => h [] (vals.length + 6) m (Nat.le_refl _) ((hl [] _ m (Nat.le_refl _)).mpr hm)
  · intro h g f s hf hd
    rw [List.all_eq_true] at h
    exact h s ((hl g f s hf).mp hd)

/-- the syntactic guard is not exact: ENUM's prefix matching rescues `true` (read as `True`) when `True` is a member too.
Real code: `EnumConstraint(["true","True"]).evaluate(True).valid == True`. -/
theorem C13chain_enum_prefix_quirk :
    chainAccMemberOK ChainEnv.plain "true".toList = false ∧
    chainAccepts ChainEnv.plain (.enum ["true".toList, "True".toList]) "true".toList = true ∧
    chainAccepts ChainEnv.plain (.enum ["true".toList, "True".toList]) "True".toList = true := by decide

example : chainAccMemberOK ChainEnv.plain "ACTIVE".toList = true ∧ chainAccMemberOK ChainEnv.plain "in_progress".toList = true ∧
    chainAccMemberOK ChainEnv.plain "42".toList = true ∧ chainAccMemberOK ChainEnv.plain "-7".toList = true ∧
    chainAccMemberOK ChainEnv.plain "0".toList = true ∧ chainAccMemberOK ChainEnv.plain "1.5".toList = true := by decide
/-- excluded members -/
example : chainAccMemberOK ChainEnv.plain "007".toList = false ∧ chainAccMemberOK ChainEnv.plain "-0".toList = false ∧
    chainAccMemberOK ChainEnv.plain "true".toList = false ∧ chainAccMemberOK ChainEnv.plain "null".toList = false ∧
    chainAccMemberOK ChainEnv.plain "a,b".toList = false ∧ chainAccMemberOK ChainEnv.plain "hello world".toList = false ∧
    chainAccMemberOK ChainEnv.plain [] = false := by decide
example : ∀ m ∈ ["ACTIVE".toList, "INACTIVE".toList, "42".toList], chainAccMemberOK ChainEnv.plain m = true := by decide

/-- **C13N2 on witnesses (ENUM)**: `ENUM[007]` derives `007`, read as 7, whose `str` `7` is neither a member nor a prefix of
one; `ENUM[true]` derives `true`, read as the boolean, whose `str` is `True`; `ENUM[1e5]` (built through the API) derives `1e5`, read as a
float whose `repr` is `100000.0`.  (`ENUM[1.50]` is NOT a witness: `1.50` is read as 1.5, and `1.5` is a unique prefix of the
member — prefix matching accepts it.)  Real code: `EnumConstraint(["007"]).evaluate(7).valid`, `EnumConstraint(["true"]).evaluate(True).valid`,
`EnumConstraint(["1e5"]).evaluate(100000.0).valid` are `False`. -/
theorem C13N2chain_enum_witnesses (env : ChainEnv) (hinf : env.floatInf "1e5".toList = false)
    (hrepr : env.floatRepr "1e5".toList = "100000.0".toList) :
    (∃ alts, parseFragment true (compileEnum ["007".toList]) = some alts ∧ derivesAlts 10 [] alts "007".toList = true ∧
      chainAccepts env (.enum ["007".toList]) "007".toList = false) ∧
    (∃ alts, parseFragment true (compileEnum ["true".toList]) = some alts ∧ derivesAlts 10 [] alts "true".toList = true ∧
      chainAccepts env (.enum ["true".toList]) "true".toList = false) ∧
    (∃ alts, parseFragment true (compileEnum ["1e5".toList]) = some alts ∧ derivesAlts 10 [] alts "1e5".toList = true ∧
      chainAccepts env (.enum ["1e5".toList]) "1e5".toList = false) := by
  refine ⟨?_, ?_, ?_⟩
  · obtain ⟨alts, hp, hl⟩ := C13_enum_language ["007".toList] (by decide)
    exact ⟨alts, hp, (hl [] 10 _ (by decide)).mpr (by decide), rfl⟩
  · obtain ⟨alts, hp, hl⟩ := C13_enum_language ["true".toList] (by decide)
    exact ⟨alts, hp, (hl [] 10 _ (by decide)).mpr (by decide), rfl⟩
  · obtain ⟨alts, hp, hl⟩ := C13_enum_language ["1e5".toList] (by decide)
    refine ⟨alts, hp, (hl [] 10 _ (by decide)).mpr (by decide), ?_⟩
    have hr : readsAs env "1e5".toList = some (.float "1e5".toList) := by
      rw [readsAs_number env _ (by decide), if_neg (by decide), hinf]; rfl
    simp only [chainAccepts, hr, Option.any_some, chainOk, chainAccPyStr, hrepr]
    decide

/-! ## REQ / OPT companions -/

theorem chainAcc_unquote_nil : ∀ (r : Str), chainAccUnquote r = some [] → r = ['"'] := by
  intro r
  fun_induction chainAccUnquote r <;> intro hu
  all_goals first
    | rfl
    | (simp at hu; done)

/-- **REQ** accepts every value read, except for the two texts `null` and `""` (read as `None` / the empty string: a chain
`REQ∧CONST[null]` accepts no value at all). -/
theorem C13chain_req (env : ChainEnv) (s : Str) (v : ReadVal) (h : readsAs env s = some v)
    (h1 : s ≠ "null".toList) (h2 : s ≠ "\"\"".toList) : chainOk env .req v = true := by
  unfold readsAs at h
  split at h
  · simp at h; subst h; rfl
  split at h
  · simp at h; subst h; rfl
  split at h
  · rename_i hn; exact absurd (by simpa using hn) h1
  split at h
  · split at h
    · split at h <;> simp at h; subst h; rfl
    · split at h <;> simp at h; subst h; rfl
  split at h
  · rename_i hb
    simp at h; subst h
    cases s with
    | nil => exact absurd hb (by decide)
    | cons c cs => rfl
  · split at h
    · simp only [Option.map_eq_some_iff] at h
      obtain ⟨u, hu, rfl⟩ := h
      cases u with
      | nil => rw [chainAcc_unquote_nil _ hu] at h2; exact absurd rfl h2
      | cons c cs => rfl
    · simp at h

/-- **OPT** accepts everything. -/
theorem C13chain_opt (env : ChainEnv) (v : ReadVal) : chainOk env .opt v = true := rfl

/-- `ConstraintChain.evaluate` (constraints.py l.1137–1143): every member must accept (fail-fast loop = conjunction);
conflict detection (l.1123) is not modelled. -/
def chainAccChainOk (env : ChainEnv) (ks : List ChainKind) (v : ReadVal) : Bool := ks.all fun k => chainOk env k v

/-- REQ / OPT before or after the deciding member `k` (`C13_with_req_opt`: the fragment is `k`'s): the whole chain accepts
the value read whenever `k` does, for every derived text other than `null` and `""`. -/
theorem C13chain_with_req_opt (env : ChainEnv) (k : ChainKind) (s : Str) (v : ReadVal) (h : readsAs env s = some v)
    (hk : chainOk env k v = true) (h1 : s ≠ "null".toList) (h2 : s ≠ "\"\"".toList) :
    chainAccChainOk env [.req, k] v = true ∧ chainAccChainOk env [k, .req] v = true ∧
    chainAccChainOk env [.opt, k] v = true ∧ chainAccChainOk env [k, .opt] v = true := by
  have hr := C13chain_req env s v h h1 h2
  simp [chainAccChainOk, hk, hr, C13chain_opt]

example : readsAs ChainEnv.plain "ACTIVE".toList = some (.str "ACTIVE".toList) ∧
    chainAccChainOk ChainEnv.plain [.req, .enum ["ACTIVE".toList, "DONE".toList]] (.str "ACTIVE".toList) = true := by decide
/-- the two excluded texts -/
example : chainAccepts ChainEnv.plain .req "null".toList = false ∧ chainAccepts ChainEnv.plain .req "\"\"".toList = false ∧
    chainAccepts ChainEnv.plain (.const .none) "null".toList = true ∧
    chainAccChainOk ChainEnv.plain [.req, .const .none] .null = false := by decide

/-! ## witnesses outside the guards -/

/-- `1` followed by 309 zeros and `.0` -/
def chainAccBig310 : Str := '1' :: (List.replicate 309 '0' ++ ".0".toList)

set_option maxRecDepth 100000 in
/-- **C13N4 on a witness**: the NUMBER fragment derives `1` + 309 zeros + `.0`; wherever `float()` of it is infinite (CPython)
the reader refuses it, so no chain accepts it. -/
theorem C13N4chain_witness (env : ChainEnv) (hinf : env.floatInf chainAccBig310 = true) :
    derivesAlts 400 [] numberAlts chainAccBig310 = true ∧ readsAs env chainAccBig310 = none ∧
    chainAccepts env (.type "NUMBER".toList) chainAccBig310 = false := by
  have hd : derivesAlts 400 [] numberAlts chainAccBig310 = true := by decide +kernel
  have hp := number_sound [] 400 _ hd
  have hi : chainAccIsIntLexeme chainAccBig310 = false := by decide +kernel
  have hr : chainAccRepresentable env chainAccBig310 = false := by
    unfold chainAccRepresentable; rw [hi, hinf]; rfl
  exact ⟨hd, C13chain_number_refused env _ _ hp hr⟩

/-- **observation (TYPE[STRING], not among the fragments C13 characterises)**: the fragment `[^\n]+` derives `7` and `true`,
which are read as the int 7 / the boolean, and TYPE[STRING] rejects both.  Real code:
`TypeConstraint("STRING").evaluate(7).valid == False` with `octave_mcp.parse("===D===\nF::7\n===END===\n")` giving the int 7. -/
theorem C13chain_string_witness (env : ChainEnv) :
    (parseFragment true (compileType "STRING".toList)).map (fun a => derivesAlts 10 [] a "7".toList) = some true ∧
    readsAs env "7".toList = some (.int 7) ∧ chainOk env (.type "STRING".toList) (.int 7) = false ∧
    (parseFragment true (compileType "STRING".toList)).map (fun a => derivesAlts 10 [] a "true".toList) = some true ∧
    readsAs env "true".toList = some (.bool true) ∧ chainOk env (.type "STRING".toList) (.bool true) = false := by
  refine ⟨by decide +kernel, rfl, rfl, by decide +kernel, rfl, rfl⟩

/-! ## C13N3: every digit string of more than 4300 digits is derivable and refused -/

/-- completeness of `[0-9]{mn,}` on digit strings -/
theorem chainAcc_mRep_digits_complete (g : List (Str × Alts)) : ∀ (ds : Str) (mn f : Nat) (rest : Str),
    (∀ c ∈ ds, isDigit c = true) → mn ≤ ds.length → ds.length + 1 ≤ f → rest ∈ mRep f g digitCls mn none (ds ++ rest) := by
  intro ds
  induction ds with
  | nil =>
    intro mn f rest _ hmn hf
    obtain ⟨f', rfl⟩ : ∃ f', f = f' + 1 := ⟨f - 1, by simp at hf; omega⟩
    have : mn = 0 := by simpa using hmn
    subst this
    rw [mRep_succ]
    simp
  | cons c t ih =>
    intro mn f rest hd hmn hf
    simp only [List.length_cons] at hmn hf
    obtain ⟨f', rfl⟩ : ∃ f', f = f' + 2 := ⟨f - 2, by omega⟩
    rw [mRep_succ]
    apply List.mem_append_right
    simp only [Option.map_none, reduceCtorEq, beq_iff_eq, if_false]
    apply List.mem_flatMap.mpr
    refine ⟨t ++ rest, ?_, ?_⟩
    · rw [digitCls, List.cons_append, mItem_cls_cons, clsHas_digit, hd c (by simp)]; simp
    · have hlen : (t ++ rest).length < (c :: t ++ rest).length := by simp
      simp only [hlen, decide_true, Bool.true_or, if_true]
      exact ih (mn - 1) (f' + 1) rest (fun d hd' => hd d (by simp [hd'])) (by omega) (by omega)

theorem chainAcc_number_digits_derivable (g : List (Str × Alts)) (ds : Str) (hd : ∀ c ∈ ds, isDigit c = true) (hne : ds ≠ [])
    (f : Nat) (hf : ds.length + 6 ≤ f) : derivesAlts f g numberAlts ds = true := by
  obtain ⟨k, rfl⟩ : ∃ k, f = k + 5 := ⟨f - 5, by omega⟩
  have hk : ds.length + 1 ≤ k := by omega
  have hlen : 1 ≤ ds.length := by
    cases ds with
    | nil => exact absurd rfl hne
    | cons _ _ => simp
  obtain ⟨k', rfl⟩ : ∃ k', k = k' + 1 := ⟨k - 1, by omega⟩
  unfold derivesAlts
  rw [List.contains_iff_mem, numberAlts, mAlts_cons]
  apply List.mem_append_left
  rw [mSeq_cons]
  apply List.mem_flatMap.mpr
  refine ⟨ds, ?_, ?_⟩
  · rw [mItem_rep, mRep_succ]; simp
  · rw [mSeq_cons]
    apply List.mem_flatMap.mpr
    refine ⟨[], ?_, ?_⟩
    · rw [mItem_rep]
      have := chainAcc_mRep_digits_complete g ds 1 (k' + 1 + 1) [] hd hlen (by omega)
      simpa using this
    · rw [mSeq_cons]
      apply List.mem_flatMap.mpr
      refine ⟨[], ?_, ?_⟩
      · rw [mItem_rep, mRep_succ]; simp
      · rw [mSeq_nil]; simp

/-- the digit count of a digit string is its length -/
theorem chainAcc_digits_digitCount (ds : Str) (hd : ∀ c ∈ ds, isDigit c = true) : chainAccDigitCount ds = ds.length := by
  cases ds with
  | nil => rfl
  | cons d t =>
    have hdm : d ≠ '-' := chainAcc_digit_ne d '-' (hd d (by simp)) (by decide)
    unfold chainAccDigitCount; split
    · rename_i heq; simp at heq; exact absurd heq.1 hdm
    · rfl

/-- **C13N3, all inputs**: every string of more than 4300 ASCII digits is derivable from the compiled NUMBER fragment (at the
stated derivation depth, any grammar) and the reader refuses it (`readsAs` is `none`: LexerError E005, CPython's int digit
limit), so no chain accepts it. -/
theorem C13N3chain_refused (env : ChainEnv) (g : List (Str × Alts)) (ds : Str) (hd : ∀ c ∈ ds, isDigit c = true)
    (hlen : 4300 < ds.length) :
    derivesAlts (ds.length + 6) g numberAlts ds = true ∧ readsAs env ds = none ∧ ∀ k, chainAccepts env k ds = false := by
  have hne : ds ≠ [] := by intro e; subst e; simp at hlen
  have hder := chainAcc_number_digits_derivable g ds hd hne (ds.length + 6) (Nat.le_refl _)
  have hp := number_sound g _ ds hder
  have hi := (chainAcc_digits_isIntLexeme ds hd).1
  have hc := chainAcc_digits_digitCount ds hd
  have hr : chainAccRepresentable env ds = false := by
    unfold chainAccRepresentable; rw [hi, hc]; simp; omega
  exact ⟨hder, (C13chain_number_refused env .opt ds hp hr).1, fun k => (C13chain_number_refused env k ds hp hr).2⟩

/-- 4301 ones -/
def chainAccOnes4301 : Str := List.replicate 4301 '1'

/-- **C13N3 on the witness** of `known_findings/C13.txt` (4301 digits). -/
theorem C13N3chain_witness (env : ChainEnv) :
    derivesAlts 4307 [] numberAlts chainAccOnes4301 = true ∧ readsAs env chainAccOnes4301 = none ∧
    chainAccepts env (.type "NUMBER".toList) chainAccOnes4301 = false := by
  have hd : ∀ c ∈ chainAccOnes4301, isDigit c = true := by
    intro c hc
    rw [List.eq_of_mem_replicate hc]; decide
  have hl : chainAccOnes4301.length = 4301 := List.length_replicate ..
  obtain ⟨h1, h2, h3⟩ := C13N3chain_refused env [] chainAccOnes4301 hd (by rw [hl]; decide)
  rw [hl] at h1
  exact ⟨h1, h2, h3 _⟩

/-- just inside the guard: 4300 digits are read. -/
example : chainAccRepresentable ChainEnv.plain (List.replicate 4300 '1') = true := by
  have hd : ∀ c ∈ List.replicate 4300 '1', isDigit c = true := fun c hc => by rw [List.eq_of_mem_replicate hc]; decide
  unfold chainAccRepresentable
  rw [(chainAcc_digits_isIntLexeme _ hd).1, chainAcc_digits_digitCount _ hd, List.length_replicate]
  decide

end Octave.C13
