/-
JSON-lines driver for the gbnf engine: one request per line on stdin, one reply per line.

  {"op":"compile_schema","name":s,"upper":s,"envelope":b,"fields":[field…]}      -> {"grammar":s} | {"raise":true}
  {"op":"compile_meta","type":s,"upper":s,"tokens":[{"ty":s,"v":s,"sv":s}…] | "specs":[s…],
        "chains":[[s, null | [constraint…]]…], "lowers":[[s,s]…]}              -> {"grammar":s,"specs":[s…]} | {"raise":true} | {"envmiss":true}
  {"op":"gbnf_check","text":s,"lenient":b}   -> {"ok":false} | {"ok":true,"defined":[…],"refs":[…],"duplicates":[…],"undefined":[…],"empty_alts":[…],"root":b,"wellformed":b}
  {"op":"frag_match","frag":s,"strings":[s…],"fuel":n}   -> {"ok":false} | {"ok":true,"m":[b…]}
  {"op":"rule_match","text":s,"rule":s,"strings":[s…],"fuel":n}    (value part of a compiled field rule: items after `ws`)
  {"op":"sanitize","lower":s} -> {"out":s}      {"op":"escape","s":s} -> {"out":s}
  {"op":"py_number","s":s} -> {"m":b}   {"op":"valid_ymd","s":s} -> {"m":b}
  {"op":"chain_accepts","kind":{"k":"CONST","ct":"bool"|"none"|"int"|"float"|"str","s":s} | {"k":"ENUM","a":[s…]} | {"k":"TYPE","t":s} | {"k":"REQ"} | {"k":"OPT"},
   "s":text,"inf":b,"repr":s,"eq":b,"ieq":b}  -> {"reads":null|"int:…"|"float:…"|"bool:…"|"null"|"str:…","ok":b}     (Spec/ChainAccept; float facts of THIS text/const pair supplied by the harness)
          {"op":"chain","chain":[constraint…]} -> {"frag":s,"deciding":kind|null} | {"raise":true}
field: {"name":s,"lower":s,"chain":null | [constraint…]}
constraint: {"k":"REQ"|"OPT"|"DIR"|"APPEND_ONLY"|"RANGE"|"MAX_LENGTH"|"DATE"|"ISO8601"|"OTHER"} | {"k":"ENUM","a":[s…]}
          | {"k":"CONST","s":str(value),"py":"bool"|"none"|"other"} | {"k":"TYPE","t":s} | {"k":"REGEX","p":s} | {"k":"MIN_LENGTH","n":int}
-/
import Lean.Data.Json
import Octave.Model.Gbnf
import Octave.Spec.GbnfSyntax
import Octave.Spec.PyNumber
import Octave.Spec.Calendar
import Octave.Spec.ChainAccept
open Lean Octave Octave.Gbnf

def strOf (j : Json) (k : String) : Except String Str := do
  let s ← j.getObjValAs? String k
  pure s.toList

def jstr (s : Str) : Json := Json.str (String.ofList s)
def jstrs (xs : List Str) : Json := Json.arr (xs.map jstr).toArray

def constraintOfJson (j : Json) : Except String Constraint := do
  let k ← j.getObjValAs? String "k"
  match k with
  | "REQ" => pure .req
  | "OPT" => pure .opt
  | "DIR" => pure .dir
  | "APPEND_ONLY" => pure .appendOnly
  | "RANGE" => pure .range
  | "MAX_LENGTH" => pure .maxLen
  | "DATE" => pure .date
  | "ISO8601" => pure .iso8601
  | "OTHER" => pure .other
  | "ENUM" => do
    let a ← j.getObjValAs? (Array String) "a"
    pure (.enum (a.toList.map String.toList))
  | "CONST" => do
    let py ← j.getObjValAs? String "py"
    let sv ← strOf j "s"
    match py with
    | "bool" => pure (.const (.bool (sv == "True".toList)))
    | "none" => pure (.const .null)
    | _ => pure (.const (.other sv))
  | "TYPE" => do pure (.type (← strOf j "t"))
  | "REGEX" => do pure (.regex (← strOf j "p"))
  | "MIN_LENGTH" => do
    let n ← j.getObjValAs? Int "n"
    pure (.minLen n)
  | other => throw s!"unsupported constraint kind {other}"

def chainOfJson (j : Json) : Except String (Option (List Constraint)) :=
  match j with
  | .null => pure none
  | _ => do
    let a ← j.getArr?
    let cs ← a.toList.mapM constraintOfJson
    pure (some cs)

def fieldOfJson (j : Json) : Except String Field := do
  let name ← strOf j "name"
  let lower ← strOf j "lower"
  let chain ← chainOfJson (← j.getObjVal? "chain")
  pure ⟨name, lower, chain⟩

def kindName : Kind → String
  | .req => "REQ" | .opt => "OPT" | .enum => "ENUM" | .const => "CONST" | .type => "TYPE" | .regex => "REGEX"
  | .dir => "DIR" | .appendOnly => "APPEND_ONLY" | .range => "RANGE" | .maxLen => "MAX_LENGTH"
  | .minLen => "MIN_LENGTH" | .date => "DATE" | .iso8601 => "ISO8601" | .other => "OTHER"

def reportJson (g : Grammar) : Json :=
  let r := g.report
  Json.mkObj [("ok", true), ("defined", jstrs r.defined), ("refs", jstrs r.refs), ("duplicates", jstrs r.duplicates),
    ("undefined", jstrs r.undefined), ("empty_alts", jstrs r.emptyAlts), ("root", r.root),
    ("wellformed", g.wellFormedB)]

/-- value part of a compiled field rule: the items after the first `ws` reference of its single
top-level sequence. -/
def valueAlts (g : Grammar) (rule : Str) : Option Alts :=
  match lookupRule rule g.rules with
  | some [seq] =>
    let rec go : List Item → Option Alts
      | [] => none
      | .ref n :: r => if n == "ws".toList then some [r] else go r
      | _ :: r => go r
    go seq
  | _ => none

def chainKindOfJson (j : Json) : Except String ChainKind := do
  let k ← j.getObjValAs? String "k"
  match k with
  | "ENUM" => do
    let a ← j.getObjValAs? (Array String) "a"
    pure (.enum (a.toList.map String.toList))
  | "TYPE" => do pure (.type (← strOf j "t"))
  | "REQ" => pure .req
  | "OPT" => pure .opt
  | "CONST" => do
    let ct ← j.getObjValAs? String "ct"
    let sv ← strOf j "s"
    match ct with
    | "bool" => pure (.const (.bool (sv == "True".toList)))
    | "none" => pure (.const .none)
    | "int" => match (String.ofList sv).toInt? with
      | some i => pure (.const (.int i))
      | none => throw "int"
    | "float" => pure (.const (.float sv))
    | _ => pure (.const (.str sv))
  | other => throw s!"unsupported chain kind {other}"

def readValJson : Option ReadVal → Json
  | none => Json.null
  | some (.int i) => Json.str s!"int:{i}"
  | some (.float l) => Json.str ("float:" ++ String.ofList l)
  | some (.bool b) => Json.str s!"bool:{b}"
  | some .null => Json.str "null"
  | some (.str t) => Json.str ("str:" ++ String.ofList t)

def handle (j : Json) : Except String Json := do
  let op ← j.getObjValAs? String "op"
  match op with
  | "compile_schema" =>
    let name ← strOf j "name"
    let upper ← strOf j "upper"
    let env ← j.getObjValAs? Bool "envelope"
    let fs ← (← j.getObjValAs? (Array Json) "fields").toList.mapM fieldOfJson
    match compileSchema name upper fs env with
    | some g => pure (Json.mkObj [("grammar", jstr g)])
    | none => pure (Json.mkObj [("raise", true)])
  | "compile_meta" =>
    let ty ← strOf j "type"
    let upper ← strOf j "upper"
    let chains ← (← j.getObjValAs? (Array Json) "chains").toList.mapM fun e => do
      let a ← e.getArr?
      let k ← (a[0]!).getStr?
      let c ← chainOfJson a[1]!
      pure (k.toList, c)
    let lowers ← (← j.getObjValAs? (Array Json) "lowers").toList.mapM fun e => do
      let a ← e.getArr?
      pure ((← (a[0]!).getStr?).toList, (← (a[1]!).getStr?).toList)
    let env : Env := ⟨chains, lowers⟩
    let specs ← match j.getObjValAs? (Array Json) "tokens" with
      | .ok toks => do
        let ts ← toks.toList.mapM fun t => do
          pure (CTok.mk (← strOf t "ty") (← strOf t "v") (← strOf t "sv"))
        pure (reconstruct ts)
      | .error _ => do
        let a ← j.getObjValAs? (Array String) "specs"
        pure (a.toList.map String.toList)
    match compileMeta env ty upper specs with
    | none => pure (Json.mkObj [("envmiss", true), ("specs", jstrs specs)])
    | some none => pure (Json.mkObj [("raise", true), ("specs", jstrs specs)])
    | some (some g) => pure (Json.mkObj [("grammar", jstr g), ("specs", jstrs specs)])
  | "gbnf_check" =>
    let text ← strOf j "text"
    let len ← j.getObjValAs? Bool "lenient"
    match parse len text with
    | some g => pure (reportJson g)
    | none => pure (Json.mkObj [("ok", false)])
  | "frag_match" =>
    let frag ← strOf j "frag"
    let fuel ← j.getObjValAs? Nat "fuel"
    let ss ← j.getObjValAs? (Array String) "strings"
    match parseFragment true frag with
    | some a => pure (Json.mkObj [("ok", true), ("m", Json.arr (ss.map fun s => Json.bool (derivesAlts fuel [] a s.toList)))])
    | none => pure (Json.mkObj [("ok", false)])
  | "rule_match" =>
    let text ← strOf j "text"
    let rule ← strOf j "rule"
    let fuel ← j.getObjValAs? Nat "fuel"
    let ss ← j.getObjValAs? (Array String) "strings"
    match parse true text with
    | some g => match valueAlts g rule with
      | some a => pure (Json.mkObj [("ok", true), ("m", Json.arr (ss.map fun s => Json.bool (derivesAlts fuel g.rules a s.toList)))])
      | none => pure (Json.mkObj [("ok", false)])
    | none => pure (Json.mkObj [("ok", false)])
  | "sanitize" => pure (Json.mkObj [("out", jstr (sanitize (← strOf j "lower")))])
  | "escape" => pure (Json.mkObj [("out", jstr (escapeLiteral (← strOf j "s")))])
  | "py_number" => pure (Json.mkObj [("m", Json.bool (pyNumberFull (← strOf j "s")))])
  | "valid_ymd" => pure (Json.mkObj [("m", Json.bool (validYMD (← strOf j "s")))])
  | "chain_accepts" =>
    let kind ← chainKindOfJson (← j.getObjVal? "kind")
    let t ← strOf j "s"
    let inf ← j.getObjValAs? Bool "inf"
    let rp ← strOf j "repr"
    let eq ← j.getObjValAs? Bool "eq"
    let ieq ← j.getObjValAs? Bool "ieq"
    let env : ChainEnv := { floatInf := fun _ => inf, floatRepr := fun _ => rp, floatEq := fun _ _ => eq, intFloatEq := fun _ _ => ieq }
    pure (Json.mkObj [("reads", readValJson (readsAs env t)), ("ok", Json.bool (chainAccepts env kind t))])
  | "chain" =>
    match ← chainOfJson (← j.getObjVal? "chain") with
    | none => throw "chain"
    | some cs =>
      match compileChain cs with
      | some f => pure (Json.mkObj [("frag", jstr f), ("deciding", match deciding cs with
          | some c => Json.str (kindName c.kind) | none => Json.null)])
      | none => pure (Json.mkObj [("raise", true)])
  | _ => throw "op"

partial def loop (h : IO.FS.Stream) (out : IO.FS.Stream) : IO Unit := do
  let line ← h.getLine
  if line.isEmpty then return ()
  let reply := match Json.parse line with
    | .ok j => match handle j with
      | .ok r => r
      | .error e => Json.mkObj [("unsupported", e)]
    | .error e => Json.mkObj [("unsupported", s!"json: {e}")]
  out.putStrLn reply.compress
  loop h out

def main : IO Unit := do
  let out ← IO.getStdout
  loop (← IO.getStdin) out
  out.flush
