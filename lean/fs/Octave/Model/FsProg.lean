/-
The file-operation language of the write paths (C16, C17) and its semantics.

* `Stmt`  — structured programs as the translator (tools/gen/fs.py) extracts them from the Python
            AST: file-system calls with their argument role, `if`, `try/except`, `with`
            (`finally_`), `return`, `raise`, inlined callee (`scope`).
* `Prog`  — the same program compiled to a finite decision tree in continuation-passing style:
            every op node carries its success continuation and its exception continuation, so the
            small-step semantics needs no control stack.  Conditions on the *static* parameters of
            a call (mode, base_hash given, corrections_only) are resolved at compile time.
* `run`   — one process: executes a tree on an abstract `Fs`; every op is one atomic transition
            that may instead fail (injected fault `World.fault n`, or a natural errno), a crash may
            happen before any op (`crashAt`) or inside it (`crashMid`: a prefix reaches the file).
* `Proc.step`, `runSched` — several processes interleaved by a schedule, one op per turn.

Import-free apart from `Model/Fs` (core Lean only).
-/
import Octave.Model.Fs
namespace Octave

inductive Loc where
  | target | parent | temp
  deriving DecidableEq, Repr

inductive Src where
  | canonical | other
  deriving DecidableEq, Repr

inductive Mode where
  | content | changes | normalize
  deriving DecidableEq, Repr

inductive Code where
  | E_INPUT | E_PATH | E_FILE | E_READ | E_HASH | E_PARSE | E_TOKENIZE | E_APPLY | E_EMIT | E_WRITE
  | E_EXIT | E_OTHER
  deriving DecidableEq, Repr

inductive Errno where
  | ENOSPC | EACCES | EIO | EINTR | EROFS | ENOENT | EEXIST | EISDIR | ENOTDIR | EBADF
  deriving DecidableEq, Repr

/-- Python exception classes below `OSError` that an `except` clause of the write paths may name. -/
inductive ExcClass where
  | permission | notFound | fileExists | isDir | notDir | interrupted
  deriving DecidableEq, Repr

def Errno.isA : Errno → ExcClass → Bool
  | .EACCES, .permission => true
  | .ENOENT, .notFound => true
  | .EEXIST, .fileExists => true
  | .EISDIR, .isDir => true
  | .ENOTDIR, .notDir => true
  | .EINTR, .interrupted => true
  | _, _ => false

/-- One file-system call of the source, with the role of its path argument. -/
inductive Op where
  | validatePath                  -- `_validate_path` / `validate_octave_path` (composite, read-only, guarded)
  | exists_ (l : Loc)             -- `Path.exists()`
  | osPathExists (l : Loc)        -- `os.path.exists()`: swallows every OSError and answers False
  | isSymlink (l : Loc)           -- `Path.is_symlink()`
  | stat (l : Loc)                -- `os.stat()` (mode is saved)
  | read (l : Loc)                -- open + read + close at entry (baseline)
  | reread (l : Loc)              -- open + read + close after the temp file was written (TOCTOU re-check)
  | mkdirP (l : Loc)              -- `Path.mkdir(parents=True, exist_ok=True)`
  | mkstemp (l : Loc)             -- `tempfile.mkstemp(dir=l)`; opens a handle on the new file
  | fchmod                        -- `os.fchmod(handle, saved mode)`
  | fdopen                        -- `os.fdopen(handle)`
  | write (s : Src)               -- `f.write(..)` (buffered)
  | flush                         -- `f.flush()`
  | fsync                         -- `os.fsync(f.fileno())`
  | close                         -- `f.close()` / end of `with`
  | unlink (l : Loc)              -- `os.unlink`
  | replace (src dst : Loc)       -- `os.replace`
  | openW (l : Loc)               -- `open(l, "w")`: create/truncate, handle on `l`
  | chmod (l : Loc)               -- `os.chmod(l, saved mode)`
  | other (mutating : Bool)       -- a file-system call the translator does not know
  deriving DecidableEq, Repr

/-- Ops whose Python wrapper swallows every `OSError` (the call answers False instead of raising). -/
def Op.swallows : Op → Bool
  | .validatePath => true
  | .osPathExists _ => true
  | _ => false

/-- Ops of the clean-up path (a fault *in these* may leave the temp file; C16 says so). -/
def Op.isCleanup : Op → Bool
  | .unlink .temp => true
  | .osPathExists .temp => true
  | _ => false

/-- Ops that never change the file system. -/
def Op.isRead : Op → Bool
  | .validatePath | .exists_ _ | .osPathExists _ | .isSymlink _ | .stat _ | .read _ | .reread _ => true
  | .other false => true
  | _ => false

inductive Cond where
  | last                      -- result of the last boolean op
  | existed                   -- the variable `file_exists`
  | pathValid                 -- result of path validation
  | modeSaved                 -- `original_mode is not None`
  | mismatchBase              -- hash(baseline read at entry) != base_hash
  | mismatchVerify            -- hash(re-read content) != base_hash
  | hasBase                   -- `base_hash` is given (static)
  | dry                       -- `corrections_only` (static)
  | mode (m : Mode)           -- which of content / changes / normalize (static)
  | pureErr (c : Code)        -- the pure pipeline fails with code `c` on the current baseline
  | excIs (k : ExcClass)      -- class test of an `except` clause
  | unknown (n : Nat)         -- a condition the translator does not understand
  | not (c : Cond)
  deriving DecidableEq, Repr

inductive Ret where
  | ok
  | err (c : Code)
  deriving DecidableEq, Repr

/-- Pure assignments the control flow depends on. -/
inductive RegOp where
  | saveExisted        -- `file_exists = <last boolean op>`
  | clearBase          -- `baseline_content_for_diff = ""` (in the handler of a failed read)
  deriving DecidableEq, Repr

inductive Stmt where
  | skip
  | op (o : Op)
  | seq (a b : Stmt)
  | ite (c : Cond) (a b : Stmt)
  | try_ (body handler : Stmt)      -- `except Exception`: the handler falls through unless it raises / returns
  | finally_ (body fin : Stmt)      -- `with` / `finally`
  | ret (r : Ret)
  | raise
  | set (a : RegOp)                  -- assignment to a register (pure)
  | scope (body onErr : Stmt)        -- inlined callee; `onErr` is what the caller does with an error result
  deriving Repr

/-- A block of statements (what the translator prints for a Python suite). -/
def Stmt.block : List Stmt → Stmt
  | [] => .skip
  | [s] => s
  | s :: ss => .seq s (Stmt.block ss)

/-- Compiled form: a finite decision tree. -/
inductive Prog where
  | ret (r : Ret)
  | raise
  | op (o : Op) (k kf : Prog)
  | branch (c : Cond) (a b : Prog)
  | set (a : RegOp) (k : Prog)
  deriving Repr

/-- Static parameters of a call. -/
structure Params where
  mode : Mode
  hasBase : Bool
  dry : Bool
  deriving DecidableEq, Repr

def Cond.static (P : Params) : Cond → Option Bool
  | .hasBase => some P.hasBase
  | .dry => some P.dry
  | .mode m => some (decide (P.mode = m))
  | .not c => (c.static P).map (!·)
  | _ => none

/-- CPS compilation.  `k` normal continuation, `kr` exception continuation, `kret` return continuation. -/
def compile (P : Params) : Stmt → Prog → Prog → (Ret → Prog) → Prog
  | .skip, k, _, _ => k
  | .op o, k, kr, _ => .op o k kr
  | .seq a b, k, kr, kret => compile P a (compile P b k kr kret) kr kret
  | .ite c a b, k, kr, kret =>
      match c.static P with
      | some true => compile P a k kr kret
      | some false => compile P b k kr kret
      | none => .branch c (compile P a k kr kret) (compile P b k kr kret)
  | .try_ b h, k, kr, kret => compile P b k (compile P h k kr kret) kret
  | .finally_ b f, k, kr, kret =>
      compile P b (compile P f k kr kret) (compile P f kr kr kret) (fun r => compile P f (kret r) kr kret)
  | .ret r, _, _, kret => kret r
  | .raise, _, kr, _ => kr
  | .set a, k, _, _ => .set a k
  | .scope b e, k, kr, kret =>
      compile P b k kr (fun r => match r with | .ok => k | .err _ => compile P e k kr kret)

/-- Whole entry point: falling off the end is a success return; an uncaught exception escapes. -/
def Stmt.toProg (s : Stmt) (P : Params) : Prog := compile P s (.ret .ok) .raise .ret

/-- A call: the arguments and the pure part of the pipeline (as functions of the baseline text). -/
structure Call where
  target : Path
  tmpName : Path
  mode : Mode := .content
  baseHash : Option Hash := none
  dry : Bool := false
  pathOk : Bool := true
  fails : Data → Option Code := fun _ => none    -- validation / parse / emit failure, if any
  canon : Data → Data := fun d => d               -- canonical text to write
  oracle : Nat → Bool := fun _ => false

def Call.params (c : Call) : Params := ⟨c.mode, c.baseHash.isSome, c.dry⟩

/-- Process-local registers (the Python local variables the control flow depends on). -/
structure Regs where
  pathValid : Bool := true
  existed : Bool := false
  last : Bool := false
  savedMode : Option Nat := none
  base : Data := []
  verify : Data := []
  tmp : Option Path := none
  hpath : Option Path := none       -- where the file behind the open write handle lives
  buf : Data := []                   -- data buffered in the handle
  exc : Option Errno := none

def locPath (c : Call) (r : Regs) : Loc → Option Path
  | .target => some c.target
  | .parent => some (parentOf c.target)
  | .temp => r.tmp

def RegOp.apply : RegOp → Regs → Regs
  | .saveExisted, r => { r with existed := r.last }
  | .clearBase, r => { r with base := [] }

def evalCond (H : Data → Hash) (c : Call) (r : Regs) : Cond → Bool
  | .last => r.last
  | .existed => r.existed
  | .pathValid => r.pathValid
  | .modeSaved => r.savedMode.isSome
  | .mismatchBase => decide (some (H r.base) ≠ c.baseHash)
  | .mismatchVerify => decide (some (H r.verify) ≠ c.baseHash)
  | .hasBase => c.baseHash.isSome
  | .dry => c.dry
  | .mode m => decide (c.mode = m)
  | .pureErr e => decide (c.fails r.base = some e)
  | .excIs k => match r.exc with | some e => e.isA k | none => false
  | .unknown n => c.oracle n
  | .not x => !(evalCond H c r x)

/-- Text a `write` puts into the handle's buffer. -/
def writeData (c : Call) (r : Regs) : Src → Data
  | .canonical => c.canon r.base
  | .other => ['?']

/-- Append buffered data to the file behind the handle. -/
def flushTo (fs : Fs) (p : Path) (buf : Data) : Fs :=
  match fs p with
  | some (.file d m _) => fs.set p (some (.file (d ++ buf) m false))
  | _ => fs

/-- Successful execution of one op (or its natural errno). -/
def doOp (c : Call) : Op → Regs → Fs → Except Errno (Regs × Fs)
  | .validatePath, r, fs => .ok ({ r with pathValid := c.pathOk }, fs)
  | .exists_ l, r, fs =>
      match locPath c r l with
      | none => .error .EBADF
      | some p => .ok ({ r with last := (fs p).isSome }, fs)
  | .osPathExists l, r, fs =>
      match locPath c r l with
      | none => .error .EBADF
      | some p => .ok ({ r with last := (fs p).isSome }, fs)
  | .isSymlink l, r, fs =>
      match locPath c r l with
      | none => .error .EBADF
      | some p => .ok ({ r with last := decide (fs p = some .symlink) }, fs)
  | .stat l, r, fs =>
      match locPath c r l with
      | none => .error .EBADF
      | some p =>
        match fs p with
        | some (.file _ m _) => .ok ({ r with savedMode := some m }, fs)
        | some _ => .ok ({ r with savedMode := some 493 }, fs)
        | none => .error .ENOENT
  | .read l, r, fs =>
      match locPath c r l with
      | none => .error .EBADF
      | some p =>
        match fs p with
        | some (.file d _ _) => .ok ({ r with base := d }, fs)
        | some .dir => .error .EISDIR
        | _ => .error .ENOENT
  | .reread l, r, fs =>
      match locPath c r l with
      | none => .error .EBADF
      | some p =>
        match fs p with
        | some (.file d _ _) => .ok ({ r with verify := d }, fs)
        | some .dir => .error .EISDIR
        | _ => .error .ENOENT
  | .mkdirP l, r, fs =>
      match locPath c r l with
      | none => .error .EBADF
      | some p => if fs.mkdirOk p then .ok (r, fs.mkdirP p) else .error .EEXIST
  | .mkstemp l, r, fs =>
      match locPath c r l with
      | none => .error .EBADF
      | some d =>
        if fs d = some .dir then
          if fs c.tmpName = none then
            .ok ({ r with tmp := some c.tmpName, hpath := some c.tmpName, buf := [] },
                 fs.set c.tmpName (some (.file [] 384 false)))
          else .error .EEXIST
        else .error .ENOENT
  | .fchmod, r, fs =>
      match r.hpath, r.savedMode with
      | some p, some m =>
        (match fs p with
         | some (.file d _ s) => .ok (r, fs.set p (some (.file d m s)))
         | _ => .ok (r, fs))
      | _, _ => .error .EBADF
  | .fdopen, r, fs => if r.hpath.isSome then .ok (r, fs) else .error .EBADF
  | .write s, r, fs =>
      if r.hpath.isSome then .ok ({ r with buf := r.buf ++ writeData c r s }, fs) else .error .EBADF
  | .flush, r, fs =>
      match r.hpath with
      | none => .error .EBADF
      | some p => .ok ({ r with buf := [] }, if r.buf = [] then fs else flushTo fs p r.buf)
  | .fsync, r, fs =>
      match r.hpath with
      | none => .error .EBADF
      | some p =>
        (match fs p with
         | some (.file d m _) => .ok (r, fs.set p (some (.file d m true)))
         | _ => .ok (r, fs))
  | .close, r, fs =>
      match r.hpath with
      | none => .ok (r, fs)
      | some p => .ok ({ r with buf := [], hpath := none }, if r.buf = [] then fs else flushTo fs p r.buf)
  | .unlink l, r, fs =>
      match locPath c r l with
      | none => .error .EBADF
      | some p =>
        match fs p with
        | none => .error .ENOENT
        | some .dir => .error .EISDIR
        | some _ => .ok ({ r with hpath := if r.hpath = some p then none else r.hpath }, fs.set p none)
  | .replace s d, r, fs =>
      match locPath c r s, locPath c r d with
      | some ps, some pd =>
        (match fs ps with
         | some (.file dat m sy) =>
           if fs pd = some .dir then .error .EISDIR
           else .ok ({ r with hpath := if r.hpath = some ps then some pd else r.hpath },
                     (fs.set ps none).set pd (some (.file dat m sy)))
         | _ => .error .ENOENT)
      | _, _ => .error .EBADF
  | .openW l, r, fs =>
      match locPath c r l with
      | none => .error .EBADF
      | some p =>
        (match fs p with
         | some .dir => .error .EISDIR
         | some (.file _ m _) => .ok ({ r with hpath := some p, buf := [] }, fs.set p (some (.file [] m false)))
         | _ =>
           if fs (parentOf p) = some .dir then
             .ok ({ r with hpath := some p, buf := [] }, fs.set p (some (.file [] 420 false)))
           else .error .ENOENT)
  | .chmod l, r, fs =>
      match locPath c r l, r.savedMode with
      | some p, some m =>
        (match fs p with
         | some (.file d _ s) => .ok (r, fs.set p (some (.file d m s)))
         | some _ => .ok (r, fs)
         | none => .error .ENOENT)
      | _, _ => .error .EBADF
  | .other _, r, fs => .ok (r, fs)

/-- What a swallowing op leaves in the registers when its system call failed. -/
def swallowRegs : Op → Regs → Regs
  | .validatePath, r => { r with pathValid := false }
  | .osPathExists _, r => { r with last := false }
  | _, r => r

/-- Effect of an op interrupted in the middle (`cut` = how much got through). -/
def partialOp (c : Call) (cut : Nat) : Op → Regs → Fs → Fs
  | .write s, r, fs =>
      (match r.hpath with
       | some p => flushTo fs p ((r.buf ++ writeData c r s).take cut)
       | none => fs)
  | .flush, r, fs =>
      (match r.hpath with
       | some p => flushTo fs p (r.buf.take cut)
       | none => fs)
  | .close, r, fs =>
      (match r.hpath with
       | some p => flushTo fs p (r.buf.take cut)
       | none => fs)
  | .mkdirP l, r, fs =>
      (match locPath c r l with
       | some p => if fs.mkdirOk p then fs.mkdirP (p.take cut) else fs
       | none => fs)
  | _, _, fs => fs

/-- The outside world of one run: where it is killed, which calls fail. -/
structure World where
  crashAt : Option Nat := none      -- killed when about to execute op number `crashAt` (0-based)
  crashMid : Bool := false          -- … or in the middle of that op
  cut : Nat := 0
  fault : Nat → Option Errno := fun _ => none

inductive Result where
  | ok (h : Hash)
  | err (c : Code)
  | raised
  | crashed
  deriving DecidableEq, Repr

structure Ev where
  op : Op
  ok : Bool
  deriving DecidableEq, Repr

/-- Run state. `trace` is in reverse order; `cf` = a clean-up op failed. -/
structure St where
  regs : Regs := {}
  fs : Fs
  n : Nat := 0
  trace : List Ev := []
  cf : Bool := false

structure Out where
  res : Result
  st : St

def retResult (H : Data → Hash) (c : Call) (r : Regs) : Ret → Result
  | .ok => .ok (H (c.canon r.base))
  | .err e => .err e

/-- Big-step execution of a tree with crash point and faults. -/
def run (H : Data → Hash) (c : Call) (w : World) : Prog → St → Out
  | .ret r, s => ⟨retResult H c s.regs r, s⟩
  | .raise, s => ⟨.raised, s⟩
  | .set a k, s => run H c w k { s with regs := a.apply s.regs }
  | .branch cnd a b, s => if evalCond H c s.regs cnd then run H c w a s else run H c w b s
  | .op o k kf, s =>
      if w.crashAt = some s.n then
        ⟨.crashed, { s with fs := if w.crashMid then partialOp c w.cut o s.regs s.fs else s.fs }⟩
      else
        match w.fault s.n with
        | some e =>
          if o.swallows then
            run H c w k { s with regs := swallowRegs o s.regs, n := s.n + 1,
                                 trace := ⟨o, false⟩ :: s.trace, cf := s.cf || o.isCleanup }
          else
            run H c w kf { s with regs := { s.regs with exc := some e }, n := s.n + 1,
                                  trace := ⟨o, false⟩ :: s.trace, cf := s.cf || o.isCleanup }
        | none =>
          match doOp c o s.regs s.fs with
          | .ok (r', fs') =>
            run H c w k { s with regs := r', fs := fs', n := s.n + 1, trace := ⟨o, true⟩ :: s.trace }
          | .error e =>
            if o.swallows then
              run H c w k { s with regs := swallowRegs o s.regs, n := s.n + 1,
                                   trace := ⟨o, false⟩ :: s.trace, cf := s.cf || o.isCleanup }
            else
              run H c w kf { s with regs := { s.regs with exc := some e }, n := s.n + 1,
                                    trace := ⟨o, false⟩ :: s.trace, cf := s.cf || o.isCleanup }

/-- One complete call of an entry point. -/
def exec (H : Data → Hash) (s : Stmt) (c : Call) (w : World) (fs : Fs) : Out :=
  run H c w (s.toProg c.params) { fs := fs }

/-! ### Several processes -/

structure Proc where
  call : Call
  pc : Prog
  regs : Regs := {}
  trace : List Ev := []

/-- Resolve pure nodes until the next op or a terminal node. -/
def settle (H : Data → Hash) (c : Call) : Prog → Regs → Prog × Regs
  | .branch cnd a b, r => if evalCond H c r cnd then settle H c a r else settle H c b r
  | .set a k, r => settle H c k (a.apply r)
  | p, r => (p, r)

/-- One scheduler turn of a process: its next op, atomically (no injected faults). -/
def Proc.step (H : Data → Hash) (p : Proc) (fs : Fs) : Proc × Fs :=
  match settle H p.call p.pc p.regs with
  | (.op o k kf, r) =>
    (match doOp p.call o r fs with
     | .ok (r', fs') => ({ p with pc := k, regs := r', trace := ⟨o, true⟩ :: p.trace }, fs')
     | .error e =>
       if o.swallows then ({ p with pc := k, regs := swallowRegs o r, trace := ⟨o, false⟩ :: p.trace }, fs)
       else ({ p with pc := kf, regs := { r with exc := some e }, trace := ⟨o, false⟩ :: p.trace }, fs))
  | (pc', r) => ({ p with pc := pc', regs := r }, fs)

def Proc.result (H : Data → Hash) (p : Proc) : Option Result :=
  match settle H p.call p.pc p.regs with
  | (.ret r, regs) => some (retResult H p.call regs r)
  | (.raise, _) => some .raised
  | _ => none

structure Sys where
  procs : List Proc
  fs : Fs

def Sys.step (H : Data → Hash) (s : Sys) (i : Nat) : Sys :=
  match s.procs[i]? with
  | none => s
  | some p => let (p', fs') := p.step H s.fs; ⟨s.procs.set i p', fs'⟩

def runSched (H : Data → Hash) : List Nat → Sys → Sys
  | [], s => s
  | i :: is, s => runSched H is (s.step H i)

end Octave
