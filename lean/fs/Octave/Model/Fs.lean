/-
Abstract file system for the write paths of octave-mcp (C16, C17).
Import-free (core Lean only).

A file system is a total function from paths to optional nodes.  Paths are lists of abstract
component ids (the harness maps real names to ids); `[]` is the root.  A file node carries its
data, its permission bits and a `synced` flag (true = every byte of `data` is durable; used only by
the power-loss clause of C16).  Text is `List Char` (the write paths read and write text; hashes
are taken over the text).
-/
namespace Octave

abbrev Data := List Char
abbrev Hash := List Char
abbrev Path := List Nat

inductive Node where
  | file (data : Data) (mode : Nat) (synced : Bool)
  | dir
  | symlink
  deriving DecidableEq, Repr, Inhabited

abbrev Fs := Path → Option Node

namespace Fs

/-- Point update. -/
def set (fs : Fs) (p : Path) (n : Option Node) : Fs := fun q => if q = p then n else fs q

@[simp] theorem set_same (fs : Fs) (p : Path) (n : Option Node) : (fs.set p n) p = n := by
  simp [set]

theorem set_other (fs : Fs) {p q : Path} (n : Option Node) (h : q ≠ p) : (fs.set p n) q = fs q := by
  simp [set, h]

/-- Data of the regular file at `p`, if any. -/
def dataAt (fs : Fs) (p : Path) : Option Data :=
  match fs p with
  | some (.file d _ _) => some d
  | _ => none

/-- Mode of the regular file at `p`, if any. -/
def modeAt (fs : Fs) (p : Path) : Option Nat :=
  match fs p with
  | some (.file _ m _) => some m
  | _ => none

/-- All prefixes of a path, shortest first. -/
def prefixes : Path → List Path
  | [] => [[]]
  | x :: xs => [] :: (prefixes xs).map (x :: ·)

/-- `mkdir -p d` is possible when every prefix of `d` is absent or a directory. -/
def mkdirOk (fs : Fs) (d : Path) : Bool :=
  (prefixes d).all fun q => match fs q with
    | none => true
    | some .dir => true
    | _ => false

/-- Effect of `mkdir -p d`: every absent prefix of `d` becomes a directory. -/
def mkdirP (fs : Fs) (d : Path) : Fs := fun q =>
  if q.isPrefixOf d then (match fs q with | none => some .dir | n => n) else fs q

/-- Power loss: a file whose data is not synced keeps only a prefix (of length `cut p`). -/
def powerLoss (cut : Path → Nat) (fs : Fs) : Fs := fun p =>
  match fs p with
  | some (.file d m false) => some (.file (d.take (cut p)) m false)
  | n => n

end Fs

def parentOf (p : Path) : Path := p.dropLast

end Octave
