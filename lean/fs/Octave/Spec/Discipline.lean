/-
`AtomicDiscipline`: a decidable, purely syntactic check of a compiled write program, by abstract
interpretation along every path of its decision tree.  It tracks what is known about the temp file,
the write handle, the data that reached the temp file, the saved mode, and the meaning of the last
boolean probe; it rejects every op that could touch the target other than
`replace temp target` of a temp file created by `mkstemp parent`, fully written, flushed, fsynced,
closed and (when the target existed) chmod-ed to the target's mode; it demands that every error exit
after `mkstemp` has unlinked the temp file (unless the clean-up call itself failed), that a success
exit has installed the file (or, for a dry run, attempted no mutation at all), that a validation
error is returned before any mutating call is attempted, and — for the compare-and-swap clause of
C17 — that with a base_hash the replace is preceded by a successful re-read of the target whose hash
was compared with base_hash, unless the target was seen absent.

The theorems of Props/C16 and Props/C17 are generic over every program that passes this check;
the generated programs pass it by `decide`.
-/
import Octave.Model.FsProg
namespace Octave

inductive TmpA where
  | none | live | gone | installed
  deriving DecidableEq, Repr

inductive DatA where
  | empty | buffered | flushed | synced | dirty
  deriving DecidableEq, Repr

inductive ModeK where
  | unknown | absent | saved
  deriving DecidableEq, Repr

inductive LastA where
  | unknown | targetExists | tmpProbe | false_
  deriving DecidableEq, Repr

/-- What is known about the compare-and-swap guard on the current path. -/
inductive CasA where
  | unchecked      -- nothing known
  | reread         -- the target was just re-read successfully (verify = its content)
  | verified       -- … and hash(verify) = base_hash was tested
  | absent         -- the target was seen absent (a create: outside the CAS clause)
  deriving DecidableEq, Repr

structure Abs where
  tmp : TmpA := .none
  hOpen : Bool := false
  dat : DatA := .empty
  chm : Bool := false
  modeK : ModeK := .unknown
  lastA : LastA := .unknown
  cf : Bool := false
  mutd : Bool := false
  cas : CasA := .unchecked
  exProbe : Bool := false       -- the register `existed` holds the result of a probe of the (unchanged) target
  deriving DecidableEq, Repr

/-- Which clauses the check enforces.  `atomic`: the C16 clauses that C17 does not need (data fsynced
before the replace, mode copied to the temp file, validation before the first mutating call).  `cas`:
the C17 clause (with a base_hash, the replace is preceded by a verified re-read).  Everything else —
only `replace temp target` touches the target, the text is completely written and flushed, every error
exit has removed the temp file — is enforced always. -/
structure Strict where
  atomic : Bool
  cas : Bool
  deriving DecidableEq, Repr

/-- Validation errors (everything the pure pipeline or the argument checks can answer). -/
def Code.isValidation : Code → Bool
  | .E_INPUT | .E_PATH | .E_FILE | .E_PARSE | .E_TOKENIZE | .E_APPLY | .E_EMIT => true
  | _ => false

def DatA.afterFlush : DatA → DatA
  | .buffered => .flushed
  | d => d

def DatA.afterFsync : DatA → DatA
  | .flushed => .synced
  | d => d

/-- Abstract transfer: `none` = the op is not allowed here; `some (aOk, aFail)` = abstract state after
success / after failure of the op.  `hb` = the call carries a base_hash. -/
def Abs.step (S : Strict) (hb : Bool) (a : Abs) : Op → Option (Abs × Abs)
  | .validatePath => some ({ a with lastA := .unknown }, { a with lastA := .unknown })
  | .exists_ .target => some ({ a with lastA := .targetExists }, { a with lastA := .unknown })
  | .exists_ _ => some ({ a with lastA := .unknown }, { a with lastA := .unknown })
  | .osPathExists .temp =>
      if a.tmp = .none then none
      else some ({ a with lastA := .tmpProbe }, { a with lastA := .false_, cf := true })
  | .isSymlink _ => some ({ a with lastA := .unknown }, { a with lastA := .unknown })
  | .stat .target =>
      if a.tmp = .none then some ({ a with lastA := .unknown, modeK := .saved }, { a with lastA := .unknown })
      else none
  | .read .target =>
      if a.tmp = .none ∧ a.dat = .empty then some ({ a with lastA := .unknown }, { a with lastA := .unknown })
      else none
  | .reread .target =>
      if a.tmp = .installed then none
      else some ({ a with lastA := .unknown, cas := .reread }, { a with lastA := .unknown })
  | .mkdirP .parent => some ({ a with lastA := .unknown, mutd := true }, { a with lastA := .unknown, mutd := true })
  | .mkstemp .parent =>
      if a.tmp = .none then
        some ({ a with lastA := .unknown, mutd := true, tmp := .live, hOpen := true, dat := .empty, chm := false },
              { a with lastA := .unknown, mutd := true })
      else none
  | .fchmod =>
      if a.hOpen ∧ a.tmp = .live ∧ a.modeK = .saved then
        some ({ a with lastA := .unknown, mutd := true, chm := true }, { a with lastA := .unknown, mutd := true })
      else none
  | .fdopen => if a.hOpen then some ({ a with lastA := .unknown }, { a with lastA := .unknown }) else none
  | .write .canonical =>
      if a.hOpen ∧ a.tmp = .live ∧ a.dat = .empty then
        some ({ a with lastA := .unknown, mutd := true, dat := .buffered }, { a with lastA := .unknown, mutd := true, dat := .dirty })
      else none
  | .flush =>
      if a.hOpen ∧ a.tmp = .live then
        some ({ a with lastA := .unknown, mutd := true, dat := a.dat.afterFlush }, { a with lastA := .unknown, mutd := true, dat := .dirty })
      else none
  | .fsync =>
      if a.hOpen ∧ a.tmp = .live then
        some ({ a with lastA := .unknown, mutd := true, dat := a.dat.afterFsync }, { a with lastA := .unknown, mutd := true })
      else none
  | .close =>
      if a.hOpen then
        if a.tmp = .live then
          some ({ a with lastA := .unknown, mutd := true, hOpen := false, dat := a.dat.afterFlush },
                { a with lastA := .unknown, mutd := true, dat := .dirty })
        else none
      else some ({ a with lastA := .unknown }, { a with lastA := .unknown })
  | .unlink .temp =>
      if a.tmp = .live then
        some ({ a with lastA := .unknown, mutd := true, tmp := .gone, hOpen := false },
              { a with lastA := .unknown, mutd := true, cf := true })
      else none
  | .replace .temp .target =>
      if a.tmp = .live ∧ (a.dat = .synced ∨ (S.atomic = false ∧ a.dat = .flushed)) ∧ a.hOpen = false
          ∧ (S.atomic = false ∨ a.chm ∨ a.modeK = .absent)
          ∧ (S.cas = false ∨ hb = false ∨ a.cas = .verified ∨ a.cas = .absent) then
        some ({ a with lastA := .unknown, mutd := true, tmp := .installed }, { a with lastA := .unknown, mutd := true })
      else none
  | .other false => some ({ a with lastA := .unknown }, { a with lastA := .unknown })
  | _ => none

def Abs.errOk (a : Abs) : Bool :=
  a.tmp = .none || a.tmp = .gone || (a.tmp = .live && a.cf)

/-- What is known in the branch where the target was seen absent. -/
def Abs.seenAbsent (a : Abs) : Abs :=
  if a.tmp = .none ∧ a.modeK = .unknown then { a with modeK := .absent, cas := .absent }
  else if a.tmp ≠ .installed then { a with cas := .absent } else a

/-- The check proper.  `P` are the static parameters the tree was compiled for. -/
def Prog.disciplined (S : Strict) (P : Params) : Prog → Abs → Bool
  | .ret .ok, a => if P.dry then (!a.mutd && a.tmp = .none) else a.tmp = .installed
  | .ret (.err c), a => a.errOk && (!S.atomic || !c.isValidation || !a.mutd) && (!P.dry || !a.mutd)
  | .raise, a => a.errOk && (!P.dry || !a.mutd)
  | .set .saveExisted k, a =>
      k.disciplined S P { a with exProbe := decide (a.lastA = .targetExists ∧ a.tmp ≠ .installed) }
  | .set .clearBase k, a => (a.tmp = .none && a.dat = .empty) && k.disciplined S P a
  | .branch .last x y, a =>
      match a.lastA with
      | .targetExists => x.disciplined S P a && y.disciplined S P a.seenAbsent
      | .tmpProbe => if a.tmp = .live then x.disciplined S P a else y.disciplined S P a
      | .false_ => y.disciplined S P a
      | .unknown => x.disciplined S P a && y.disciplined S P a
  | .branch .existed x y, a =>
      x.disciplined S P a && y.disciplined S P (if a.exProbe ∧ a.tmp ≠ .installed then { a with cas := .absent } else a)
  | .branch .modeSaved x y, a => if a.modeK = .saved then x.disciplined S P a else y.disciplined S P a
  | .branch .mismatchVerify x y, a =>
      x.disciplined S P a && y.disciplined S P (if a.cas = .reread then { a with cas := .verified } else a)
  | .branch _ x y, a => x.disciplined S P a && y.disciplined S P a
  | .op o k kf, a =>
      match a.step S P.hasBase o with
      | none => false
      | some (aOk, aFail) =>
          k.disciplined S P aOk && (if o.swallows then k.disciplined S P aFail else kf.disciplined S P aFail)

def allParams : List Params :=
  [Mode.content, Mode.changes, Mode.normalize].flatMap fun m =>
    [true, false].flatMap fun hb => [true, false].map fun d => ⟨m, hb, d⟩

theorem allParams_complete (P : Params) : P ∈ allParams := by
  rcases P with ⟨m, hb, d⟩
  cases m <;> cases hb <;> cases d <;> decide

/-- A structured program has the discipline (clauses `S`) for the static parameters `P` when its
compiled tree passes the check from the initial abstract state. -/
def Stmt.disciplined (s : Stmt) (S : Strict) (P : Params) : Bool := (s.toProg P).disciplined S P {}

/-- The clauses C16 needs / the clauses C17 needs. -/
def Strict.c16 : Strict := ⟨true, false⟩
def Strict.c17 : Strict := ⟨false, true⟩

/-- … for every parameter combination (entry points that honour `corrections_only`). -/
def Disciplined (S : Strict) (s : Stmt) : Prop := ∀ P ∈ allParams, s.disciplined S P = true

/-- … for every parameter combination that writes (entry points without a dry-run mode). -/
def DisciplinedW (S : Strict) (s : Stmt) : Prop := ∀ P ∈ allParams, P.dry = false → s.disciplined S P = true

instance (S : Strict) (s : Stmt) : Decidable (Disciplined S s) := by
  unfold Disciplined; infer_instance

instance (S : Strict) (s : Stmt) : Decidable (DisciplinedW S s) := by
  unfold DisciplinedW; infer_instance

end Octave
