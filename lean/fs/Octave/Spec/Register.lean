/-
The one-register compare-and-swap specification of C17: the abstract state is the text of the file at
the target path (or `none`), a history is a list of calls and external modifications, and the
specification says which responses / next states a call may produce.  Independent of the op language.
-/
import Octave.Model.FsProg
namespace Octave

/-- The register a file system is abstracted to: the text at the target path. -/
def absReg (t : Path) (fs : Fs) : Option Data := fs.dataAt t

/-- A step of a history. -/
inductive HStep where
  | call (c : Call)
  | ext (d : Option Data)      -- somebody else rewrites (some d) or deletes (none) the file

namespace Reg

/-- What a call may do to the register `r`, answering `res`:
* a (non-dry) success installs a new text whose hash is the answer, and — when the call carries a
  base_hash and the register holds a text — only if that text hashes to base_hash;
* a dry success, an error and an escaped exception leave the register as it was. -/
def allowed (H : Data → Hash) (c : Call) (r : Option Data) (res : Result) (r' : Option Data) : Prop :=
  (∀ h, res = .ok h → c.dry = false →
      (∃ new, r' = some new ∧ h = H new) ∧
      (c.baseHash.isSome = true → r = none ∨ ∃ d, r = some d ∧ some (H d) = c.baseHash)) ∧
  (∀ h, res = .ok h → c.dry = true → r' = r) ∧
  (∀ code, res = .err code → r' = r) ∧
  (res = .raised → r' = r)

/-- Runs of the specification over a history. -/
inductive runs (H : Data → Hash) : Option Data → List HStep → List Result → Option Data → Prop where
  | nil (r : Option Data) : runs H r [] [] r
  | call {r r1 r' : Option Data} {c : Call} {res : Result} {rest : List HStep} {ress : List Result} :
      allowed H c r res r1 → runs H r1 rest ress r' → runs H r (.call c :: rest) (res :: ress) r'
  | ext {r r' : Option Data} {d : Option Data} {rest : List HStep} {ress : List Result} :
      runs H d rest ress r' → runs H r (.ext d :: rest) ress r'

/-- The compare-and-swap clause in its usual form: a stale base_hash never installs. -/
theorem stale_not_installed {H : Data → Hash} {c : Call} {d : Data} {res : Result} {r' : Option Data} {h : Hash}
    (ha : allowed H c (some d) res r') (hb : c.baseHash = some h) (hne : H d ≠ h) (hdry : c.dry = false) :
    (∀ h', res ≠ .ok h') := by
  intro h' hres
  obtain ⟨_, hcas⟩ := ha.1 h' hres hdry
  rcases hcas (by simp [hb]) with h1 | ⟨d', h1, h2⟩
  · cases h1
  · injection h1 with h1
    subst h1
    rw [hb] at h2
    injection h2 with h2
    exact hne h2

end Reg
end Octave
