/-
Interleaved executions (C17, two or more writers): the per-process invariant `J`, the instrumented
semantics with ghost version counters, and the proof that an install whose [re-read, replace] window
contains no other install happens over a text that hashes to base_hash.
-/
import Octave.Lemmas.Inv
open Octave
namespace Octave

/-- The target is a regular file. -/
def TFile (fs : Fs) (t : Path) : Prop := ∃ d m sy, fs t = some (.file d m sy)

/-- Static side conditions of a writer among other writers. -/
structure WriterOK (c : Call) : Prop where
  tmp_ne : c.tmpName ≠ c.target
  tmp_np : c.tmpName.isPrefixOf (parentOf c.target) = false
  tgt_np : c.target.isPrefixOf (parentOf c.target) = false

/-- Per-process invariant in the interleaved semantics.  It mentions the file system only at the
process's own temp path, so the steps of the other writers preserve it. `seen` is a ghost: the text
the process read at its last successful re-read. -/
structure J (H : Data → Hash) (c : Call) (a : Abs) (r : Regs) (fs : Fs) (seen : Data) : Prop where
  tsome : a.tmp ≠ .none → r.tmp = some c.tmpName
  tgone : a.tmp = .gone ∨ a.tmp = .installed → fs c.tmpName = none
  tlive : a.tmp = .live → ∃ d m sy, fs c.tmpName = some (.file d m sy)
  hp : r.hpath = if a.hOpen then some c.tmpName else none
  ho : a.hOpen = true → a.tmp = .live
  modeS : a.modeK = .saved → r.savedMode.isSome = true
  modeN : a.modeK ≠ .saved → r.savedMode = none
  lastT : a.lastA = .targetExists → r.last = true
  lastP : a.lastA = .tmpProbe → r.last = (fs c.tmpName).isSome ∧ a.tmp ≠ .none
  lastF : a.lastA = .false_ → r.last = false
  exI : a.exProbe = true → r.existed = true
  casR : a.cas = .reread → r.verify = seen
  casV : a.cas = .verified → r.verify = seen ∧ some (H seen) = c.baseHash
  casA : a.cas ≠ .absent
  modeA : a.modeK ≠ .absent

variable {S : Strict} {H : Data → Hash} {c : Call}

theorem J.init (H : Data → Hash) (c : Call) (fs : Fs) : J H c {} {} fs [] := by
  constructor <;> simp

/-- Steps that leave the process's temp path alone and change only "harmless" registers. -/
theorem J.transfer {a a' : Abs} {r r' : Regs} {fs fs' : Fs} {seen seen' : Data}
    (hJ : J H c a r fs seen)
    (hx : fs' c.tmpName = fs c.tmpName)
    (htmp : a'.tmp = a.tmp) (hho : a'.hOpen = a.hOpen)
    (hmk : (a'.modeK = a.modeK ∧ r'.savedMode = r.savedMode) ∨ (a'.modeK = .saved ∧ r'.savedMode.isSome = true))
    (hla : a'.lastA = .unknown ∨ (a'.lastA = .false_ ∧ r'.last = false) ∨
           (a'.lastA = .targetExists ∧ r'.last = true) ∨
           (a'.lastA = .tmpProbe ∧ r'.last = (fs c.tmpName).isSome ∧ a.tmp ≠ .none))
    (hcas : (a'.cas = a.cas ∧ r'.verify = r.verify ∧ seen' = seen) ∨ (a'.cas = .reread ∧ seen' = r'.verify))
    (hex : a'.exProbe = a.exProbe)
    (rt : r'.tmp = r.tmp) (rh : r'.hpath = r.hpath) (re : r'.existed = r.existed) :
    J H c a' r' fs' seen' := by
  obtain ⟨tsome, tgone, tlive, hp, ho, modeS, modeN, lastT, lastP, lastF, exI, casR, casV, casA, modeA⟩ := hJ
  constructor
  case tsome => intro h; rw [rt]; exact tsome (by simpa [htmp] using h)
  case tgone => intro h; rw [hx]; exact tgone (by simpa [htmp] using h)
  case tlive => intro h; rw [hx]; exact tlive (by simpa [htmp] using h)
  case hp => rw [rh, hho]; exact hp
  case ho => intro h; rw [htmp]; exact ho (by simpa [hho] using h)
  case modeS =>
    intro h
    rcases hmk with ⟨h1, h2⟩ | ⟨_, h2⟩
    · rw [h2]; exact modeS (by simpa [h1] using h)
    · exact h2
  case modeN =>
    intro h
    rcases hmk with ⟨h1, h2⟩ | ⟨h1, _⟩
    · rw [h2]; exact modeN (by simpa [h1] using h)
    · exact absurd h1 h
  case lastT =>
    intro h
    rcases hla with h1 | ⟨h1, _⟩ | ⟨_, h2⟩ | ⟨h1, _⟩
    · simp [h1] at h
    · simp [h1] at h
    · exact h2
    · simp [h1] at h
  case lastP =>
    intro h
    rcases hla with h1 | ⟨h1, _⟩ | ⟨h1, _⟩ | ⟨_, h2, h3⟩
    · simp [h1] at h
    · simp [h1] at h
    · simp [h1] at h
    · exact ⟨by rw [hx]; exact h2, by rw [htmp]; exact h3⟩
  case lastF =>
    intro h
    rcases hla with h1 | ⟨_, h2⟩ | ⟨h1, _⟩ | ⟨h1, _⟩
    · simp [h1] at h
    · exact h2
    · simp [h1] at h
    · simp [h1] at h
  case exI => intro h; rw [re]; exact exI (by simpa [hex] using h)
  case casR =>
    intro h
    rcases hcas with ⟨h1, h2, h3⟩ | ⟨_, h2⟩
    · rw [h2, h3]; exact casR (by simpa [h1] using h)
    · exact h2.symm
  case casV =>
    intro h
    rcases hcas with ⟨h1, h2, h3⟩ | ⟨h1, _⟩
    · rw [h2, h3]; exact casV (by simpa [h1] using h)
    · simp [h1] at h
  case casA =>
    rcases hcas with ⟨h1, _, _⟩ | ⟨h1, _⟩
    · rw [h1]; exact casA
    · simp [h1]
  case modeA =>
    rcases hmk with ⟨h1, _⟩ | ⟨h1, _⟩
    · rw [h1]; exact modeA
    · simp [h1]

/-- Another writer's step (it does not touch this writer's temp path). -/
theorem J.frame {a : Abs} {r : Regs} {fs fs' : Fs} {seen : Data} (hJ : J H c a r fs seen)
    (hx : fs' c.tmpName = fs c.tmpName) : J H c a r fs' seen :=
  hJ.transfer hx rfl rfl (Or.inl ⟨rfl, rfl⟩) (by
    cases hl : a.lastA
    · exact Or.inl rfl
    · exact Or.inr (Or.inr (Or.inl ⟨rfl, hJ.lastT hl⟩))
    · exact Or.inr (Or.inr (Or.inr ⟨rfl, (hJ.lastP hl).1, (hJ.lastP hl).2⟩))
    · exact Or.inr (Or.inl ⟨rfl, hJ.lastF hl⟩)) (Or.inl ⟨rfl, rfl, rfl⟩) rfl rfl rfl rfl

/-! ### One step of a writer -/

theorem j_fail {hb : Bool} {a aOk aFail : Abs} {o : Op} {r : Regs} {fs : Fs} {seen : Data}
    (hJ : J H c a r fs seen) (hs : a.step S hb o = some (aOk, aFail)) :
    (∀ e, o.swallows = false → J H c aFail { r with exc := some e } fs seen) ∧
    (o.swallows = true → J H c aFail (swallowRegs o r) fs seen) := by
  obtain ⟨h1, h2, _, _, h5, h6, _, _, h9, h10⟩ := step_fail_shape hs
  constructor
  · intro e hsw
    refine hJ.transfer rfl h1 h2 (Or.inl ⟨h5, rfl⟩) ?_ (Or.inl ⟨h9, rfl, rfl⟩) h10 rfl rfl rfl
    rcases h6 with h6 | ⟨_, l, rfl⟩
    · exact Or.inl h6
    · simp [Op.swallows] at hsw
  · intro hsw
    have hr : (swallowRegs o r).tmp = r.tmp ∧ (swallowRegs o r).hpath = r.hpath ∧
        (swallowRegs o r).verify = r.verify ∧ (swallowRegs o r).savedMode = r.savedMode ∧
        (swallowRegs o r).existed = r.existed := by
      cases o <;> simp [swallowRegs]
    obtain ⟨e1, e2, e5, e6, e7⟩ := hr
    refine hJ.transfer rfl h1 h2 (Or.inl ⟨h5, e6⟩) ?_ (Or.inl ⟨h9, e5, rfl⟩) h10 e1 e2 e7
    rcases h6 with h6 | ⟨h6, l, rfl⟩
    · exact Or.inl h6
    · exact Or.inr (Or.inl ⟨h6, by simp [swallowRegs]⟩)

/-- Effect of a successful op of a disciplined writer on the shared file system and on its own invariant. -/
theorem j_ok (hc : WriterOK c) {hb : Bool} {a aOk aFail : Abs} {o : Op} {r r' : Regs} {fs fs' : Fs} {seen : Data}
    (hJ : J H c a r fs seen) (hT : TFile fs c.target) (hs : a.step S hb o = some (aOk, aFail))
    (hd : doOp c o r fs = .ok (r', fs')) :
    J H c aOk r' fs' (if o = .reread .target then r'.verify else seen) ∧
    (∀ p, p ≠ c.target → p ≠ c.tmpName → p.isPrefixOf (parentOf c.target) = false → fs' p = fs p) ∧
    (o ≠ .replace .temp .target → fs' c.target = fs c.target) ∧
    (o = .reread .target → fs.dataAt c.target = some r'.verify) ∧
    TFile fs' c.target := by
  have hne := hc.tmp_ne
  have hne' : c.target ≠ c.tmpName := fun h => hne h.symm
  obtain ⟨d0, m0, sy0, hT0⟩ := hT
  -- ops that do not touch the file system at all
  have pure : ∀ (a' : Abs) (seen' : Data), fs' = fs → J H c a' r' fs seen' → o ≠ .reread .target ∨ fs.dataAt c.target = some r'.verify →
      J H c a' r' fs' seen' ∧
      (∀ p, p ≠ c.target → p ≠ c.tmpName → p.isPrefixOf (parentOf c.target) = false → fs' p = fs p) ∧
      (o ≠ .replace .temp .target → fs' c.target = fs c.target) ∧
      (o = .reread .target → fs.dataAt c.target = some r'.verify) ∧ TFile fs' c.target := by
    intro a' seen' hfs hj hrr
    subst hfs
    refine ⟨hj, fun _ _ _ _ => rfl, fun _ => rfl, ?_, ⟨d0, m0, sy0, hT0⟩⟩
    intro ho
    rcases hrr with h | h
    · exact absurd ho h
    · exact h
  cases o with
  | validatePath =>
    simp only [Abs.step, Option.some.injEq, Prod.mk.injEq] at hs
    obtain ⟨rfl, rfl⟩ := hs
    simp only [doOp] at hd
    injection hd with hd; injection hd with h1 h2; subst h1 h2
    refine pure _ _ rfl ?_ (Or.inl (by simp))
    exact hJ.transfer rfl rfl rfl (Or.inl ⟨rfl, rfl⟩) (Or.inl rfl) (Or.inl ⟨rfl, rfl, rfl⟩) rfl rfl rfl rfl
  | exists_ l =>
    cases l <;> simp only [Abs.step, Option.some.injEq, Prod.mk.injEq] at hs <;> obtain ⟨rfl, rfl⟩ := hs <;>
      simp only [doOp, locPath] at hd
    · injection hd with hd; injection hd with h1 h2; subst h1 h2
      refine pure _ _ rfl ?_ (Or.inl (by simp))
      exact hJ.transfer rfl rfl rfl (Or.inl ⟨rfl, rfl⟩) (Or.inr (Or.inr (Or.inl ⟨rfl, by simp [hT0]⟩))) (Or.inl ⟨rfl, rfl, rfl⟩) rfl rfl rfl rfl
    · injection hd with hd; injection hd with h1 h2; subst h1 h2
      refine pure _ _ rfl ?_ (Or.inl (by simp))
      exact hJ.transfer rfl rfl rfl (Or.inl ⟨rfl, rfl⟩) (Or.inl rfl) (Or.inl ⟨rfl, rfl, rfl⟩) rfl rfl rfl rfl
    · split at hd
      · cases hd
      · injection hd with hd; injection hd with h1 h2; subst h1 h2
        refine pure _ _ rfl ?_ (Or.inl (by simp))
        exact hJ.transfer rfl rfl rfl (Or.inl ⟨rfl, rfl⟩) (Or.inl rfl) (Or.inl ⟨rfl, rfl, rfl⟩) rfl rfl rfl rfl
  | osPathExists l =>
    cases l <;> simp only [Abs.step, reduceCtorEq] at hs
    split at hs
    · cases hs
    · rename_i hne0
      simp only [Option.some.injEq, Prod.mk.injEq] at hs
      obtain ⟨rfl, rfl⟩ := hs
      have ht := hJ.tsome hne0
      simp only [doOp, locPath, ht] at hd
      injection hd with hd; injection hd with h1 h2; subst h1 h2
      refine pure _ _ rfl ?_ (Or.inl (by simp))
      exact hJ.transfer rfl rfl rfl (Or.inl ⟨rfl, rfl⟩) (Or.inr (Or.inr (Or.inr ⟨rfl, rfl, hne0⟩))) (Or.inl ⟨rfl, rfl, rfl⟩) rfl (by simp [ht]) rfl rfl
  | isSymlink l =>
    simp only [Abs.step, Option.some.injEq, Prod.mk.injEq] at hs
    obtain ⟨rfl, rfl⟩ := hs
    simp only [doOp] at hd
    split at hd
    · cases hd
    · injection hd with hd; injection hd with h1 h2; subst h1 h2
      refine pure _ _ rfl ?_ (Or.inl (by simp))
      exact hJ.transfer rfl rfl rfl (Or.inl ⟨rfl, rfl⟩) (Or.inl rfl) (Or.inl ⟨rfl, rfl, rfl⟩) rfl rfl rfl rfl
  | stat l =>
    cases l <;> simp only [Abs.step, reduceCtorEq] at hs
    split at hs
    · simp only [Option.some.injEq, Prod.mk.injEq] at hs
      obtain ⟨rfl, rfl⟩ := hs
      simp only [doOp, locPath, hT0] at hd
      injection hd with hd; injection hd with h1 h2; subst h1 h2
      refine pure _ _ rfl ?_ (Or.inl (by simp))
      exact hJ.transfer rfl rfl rfl (Or.inr ⟨rfl, rfl⟩) (Or.inl rfl) (Or.inl ⟨rfl, rfl, rfl⟩) rfl rfl rfl rfl
    · cases hs
  | read l =>
    cases l <;> simp only [Abs.step, reduceCtorEq] at hs
    split at hs
    · simp only [Option.some.injEq, Prod.mk.injEq] at hs
      obtain ⟨rfl, rfl⟩ := hs
      simp only [doOp, locPath, hT0] at hd
      injection hd with hd; injection hd with h1 h2; subst h1 h2
      refine pure _ _ rfl ?_ (Or.inl (by simp))
      exact hJ.transfer rfl rfl rfl (Or.inl ⟨rfl, rfl⟩) (Or.inl rfl) (Or.inl ⟨rfl, rfl, rfl⟩) rfl rfl rfl rfl
    · cases hs
  | reread l =>
    cases l <;> simp only [Abs.step, reduceCtorEq] at hs
    split at hs
    · cases hs
    · simp only [Option.some.injEq, Prod.mk.injEq] at hs
      obtain ⟨rfl, rfl⟩ := hs
      simp only [doOp, locPath, hT0] at hd
      injection hd with hd; injection hd with h1 h2; subst h1 h2
      refine pure _ _ rfl ?_ (Or.inr (by simp [Fs.dataAt, hT0]))
      exact hJ.transfer rfl rfl rfl (Or.inl ⟨rfl, rfl⟩) (Or.inl rfl) (Or.inr ⟨rfl, rfl⟩) rfl rfl rfl rfl
  | fdopen =>
    simp only [Abs.step] at hs
    split at hs
    · simp only [Option.some.injEq, Prod.mk.injEq] at hs
      obtain ⟨rfl, rfl⟩ := hs
      simp only [doOp] at hd
      split at hd
      · injection hd with hd; injection hd with h1 h2; subst h1 h2
        refine pure _ _ rfl ?_ (Or.inl (by simp))
        exact hJ.transfer rfl rfl rfl (Or.inl ⟨rfl, rfl⟩) (Or.inl rfl) (Or.inl ⟨rfl, rfl, rfl⟩) rfl rfl rfl rfl
      · cases hd
    · cases hs
  | write s =>
    cases s <;> simp only [Abs.step, reduceCtorEq] at hs
    split at hs
    · simp only [Option.some.injEq, Prod.mk.injEq] at hs
      obtain ⟨rfl, rfl⟩ := hs
      simp only [doOp] at hd
      split at hd
      · injection hd with hd; injection hd with h1 h2; subst h1 h2
        refine pure _ _ rfl ?_ (Or.inl (by simp))
        exact hJ.transfer rfl rfl rfl (Or.inl ⟨rfl, rfl⟩) (Or.inl rfl) (Or.inl ⟨rfl, rfl, rfl⟩) rfl rfl rfl rfl
      · cases hd
    · cases hs
  | other m =>
    cases m <;> simp only [Abs.step, reduceCtorEq] at hs
    simp only [Option.some.injEq, Prod.mk.injEq] at hs
    obtain ⟨rfl, rfl⟩ := hs
    simp only [doOp] at hd
    injection hd with hd; injection hd with h1 h2; subst h1 h2
    refine pure _ _ rfl ?_ (Or.inl (by simp))
    exact hJ.transfer rfl rfl rfl (Or.inl ⟨rfl, rfl⟩) (Or.inl rfl) (Or.inl ⟨rfl, rfl, rfl⟩) rfl rfl rfl rfl
  | openW l => simp [Abs.step] at hs
  | chmod l => simp [Abs.step] at hs
  | mkdirP l =>
    cases l <;> simp only [Abs.step, reduceCtorEq] at hs
    simp only [Option.some.injEq, Prod.mk.injEq] at hs
    obtain ⟨rfl, rfl⟩ := hs
    simp only [doOp, locPath] at hd
    split at hd
    · injection hd with hd; injection hd with h1 h2; subst h1 h2
      have ht := mkdirP_other fs (parentOf c.target) c.target hc.tgt_np
      have hx := mkdirP_other fs (parentOf c.target) c.tmpName hc.tmp_np
      refine ⟨?_, ?_, fun _ => ht, (by intro h; cases h), ⟨d0, m0, sy0, by rw [ht]; exact hT0⟩⟩
      · exact hJ.transfer hx rfl rfl (Or.inl ⟨rfl, rfl⟩) (Or.inl rfl) (Or.inl ⟨rfl, rfl, rfl⟩) rfl rfl rfl rfl
      · intro p _ _ h3; exact mkdirP_other fs _ p h3
    · cases hd
  | mkstemp l =>
    cases l <;> simp only [Abs.step, reduceCtorEq] at hs
    split at hs
    · rename_i h0
      simp only [Option.some.injEq, Prod.mk.injEq] at hs
      obtain ⟨rfl, rfl⟩ := hs
      simp only [doOp, locPath] at hd
      split at hd
      · split at hd
        · injection hd with hd; injection hd with h1 h2; subst h1 h2
          obtain ⟨tsome, tgone, tlive, hp, ho, modeS, modeN, lastT, lastP, lastF, exI, casR, casV, casA, modeA⟩ := hJ
          refine ⟨?_, ?_, fun _ => by simp [Fs.set, hne'], (by intro h; cases h), ⟨d0, m0, sy0, by simp [Fs.set, hne', hT0]⟩⟩
          · constructor <;> simp_all [Fs.set]
          · intro p _ h2 _; simp [Fs.set, h2]
        · cases hd
      · cases hd
    · cases hs
  | fchmod =>
    simp only [Abs.step] at hs
    split at hs
    · rename_i h0
      simp only [Option.some.injEq, Prod.mk.injEq] at hs
      obtain ⟨rfl, rfl⟩ := hs
      have hp := hJ.hp
      simp only [h0.1, if_true] at hp
      obtain ⟨d, m, sy, hx⟩ := hJ.tlive h0.2.1
      have hm := hJ.modeS h0.2.2
      obtain ⟨m', hm'⟩ := Option.isSome_iff_exists.mp hm
      simp only [doOp, hp, hm', hx] at hd
      injection hd with hd; injection hd with h1 h2; subst h1 h2
      obtain ⟨tsome, tgone, tlive, hp', ho, modeS, modeN, lastT, lastP, lastF, exI, casR, casV, casA, modeA⟩ := hJ
      refine ⟨?_, ?_, fun _ => by simp [Fs.set, hne'], (by intro h; cases h), ⟨d0, m0, sy0, by simp [Fs.set, hne', hT0]⟩⟩
      · constructor <;> simp_all [Fs.set]
      · intro p _ h2 _; simp [Fs.set, h2]
    · cases hs
  | flush =>
    simp only [Abs.step] at hs
    split at hs
    · rename_i h0
      simp only [Option.some.injEq, Prod.mk.injEq] at hs
      obtain ⟨rfl, rfl⟩ := hs
      have hp := hJ.hp
      simp only [h0.1, if_true] at hp
      obtain ⟨d, m, sy, hx⟩ := hJ.tlive h0.2
      simp only [doOp, hp] at hd
      injection hd with hd; injection hd with h1 h2; subst h1 h2
      obtain ⟨tsome, tgone, tlive, hp', ho, modeS, modeN, lastT, lastP, lastF, exI, casR, casV, casA, modeA⟩ := hJ
      by_cases hb : r.buf = []
      · rw [if_pos hb]
        refine ⟨?_, fun _ _ _ _ => rfl, fun _ => rfl, (by intro h; cases h), ⟨d0, m0, sy0, hT0⟩⟩
        constructor <;> simp_all
      · rw [if_neg hb]
        simp only [flushTo, hx]
        refine ⟨?_, ?_, fun _ => by simp [Fs.set, hne'], (by intro h; cases h), ⟨d0, m0, sy0, by simp [Fs.set, hne', hT0]⟩⟩
        · constructor <;> simp_all [Fs.set]
        · intro p _ h2 _; simp [Fs.set, h2]
    · cases hs
  | fsync =>
    simp only [Abs.step] at hs
    split at hs
    · rename_i h0
      simp only [Option.some.injEq, Prod.mk.injEq] at hs
      obtain ⟨rfl, rfl⟩ := hs
      have hp := hJ.hp
      simp only [h0.1, if_true] at hp
      obtain ⟨d, m, sy, hx⟩ := hJ.tlive h0.2
      simp only [doOp, hp, hx] at hd
      injection hd with hd; injection hd with h1 h2; subst h1 h2
      obtain ⟨tsome, tgone, tlive, hp', ho, modeS, modeN, lastT, lastP, lastF, exI, casR, casV, casA, modeA⟩ := hJ
      refine ⟨?_, ?_, fun _ => by simp [Fs.set, hne'], (by intro h; cases h), ⟨d0, m0, sy0, by simp [Fs.set, hne', hT0]⟩⟩
      · constructor <;> simp_all [Fs.set]
      · intro p _ h2 _; simp [Fs.set, h2]
    · cases hs
  | close =>
    simp only [Abs.step] at hs
    split at hs
    · rename_i h0
      split at hs
      · rename_i h1
        simp only [Option.some.injEq, Prod.mk.injEq] at hs
        obtain ⟨rfl, rfl⟩ := hs
        have hp := hJ.hp
        simp only [h0, if_true] at hp
        obtain ⟨d, m, sy, hx⟩ := hJ.tlive h1
        simp only [doOp, hp] at hd
        injection hd with hd; injection hd with e1 e2; subst e1 e2
        obtain ⟨tsome, tgone, tlive, hp', ho, modeS, modeN, lastT, lastP, lastF, exI, casR, casV, casA, modeA⟩ := hJ
        by_cases hb : r.buf = []
        · rw [if_pos hb]
          refine ⟨?_, fun _ _ _ _ => rfl, fun _ => rfl, (by intro h; cases h), ⟨d0, m0, sy0, hT0⟩⟩
          constructor <;> simp_all
        · rw [if_neg hb]
          simp only [flushTo, hx]
          refine ⟨?_, ?_, fun _ => by simp [Fs.set, hne'], (by intro h; cases h), ⟨d0, m0, sy0, by simp [Fs.set, hne', hT0]⟩⟩
          · constructor <;> simp_all [Fs.set]
          · intro p _ h2 _; simp [Fs.set, h2]
      · cases hs
    · rename_i h0
      simp only [Option.some.injEq, Prod.mk.injEq] at hs
      obtain ⟨rfl, rfl⟩ := hs
      have hp := hJ.hp
      simp only [h0] at hp
      simp only [doOp, hp] at hd
      injection hd with hd; injection hd with h1 h2; subst h1 h2
      refine pure _ _ rfl ?_ (Or.inl (by simp))
      exact hJ.transfer rfl rfl rfl (Or.inl ⟨rfl, rfl⟩) (Or.inl rfl) (Or.inl ⟨rfl, rfl, rfl⟩) rfl rfl rfl rfl
  | unlink l =>
    cases l <;> simp only [Abs.step, reduceCtorEq] at hs
    split at hs
    · rename_i h0
      simp only [Option.some.injEq, Prod.mk.injEq] at hs
      obtain ⟨rfl, rfl⟩ := hs
      obtain ⟨d, m, sy, hx⟩ := hJ.tlive h0
      have ht := hJ.tsome (by simp [h0])
      simp only [doOp, locPath, ht, hx] at hd
      injection hd with hd; injection hd with h1 h2; subst h1 h2
      obtain ⟨tsome, tgone, tlive, hp', ho, modeS, modeN, lastT, lastP, lastF, exI, casR, casV, casA, modeA⟩ := hJ
      refine ⟨?_, ?_, fun _ => by simp [Fs.set, hne'], (by intro h; cases h), ⟨d0, m0, sy0, by simp [Fs.set, hne', hT0]⟩⟩
      · constructor
        case hp => cases hh : a.hOpen <;> simp_all
        all_goals simp_all [Fs.set]
      · intro p _ h2 _; simp [Fs.set, h2]
    · cases hs
  | replace s d =>
    cases s <;> cases d <;> simp only [Abs.step, reduceCtorEq] at hs
    split at hs
    · rename_i h0
      simp only [Option.some.injEq, Prod.mk.injEq] at hs
      obtain ⟨rfl, rfl⟩ := hs
      obtain ⟨d, m, sy, hx⟩ := hJ.tlive h0.1
      have ht := hJ.tsome (by simp [h0.1])
      have hp := hJ.hp
      simp only [h0.2.2.1] at hp
      simp only [doOp, locPath, ht, hx, hT0] at hd

      injection hd with hd; injection hd with h1 h2; subst h1 h2
      obtain ⟨tsome, tgone, tlive, hp', ho, modeS, modeN, lastT, lastP, lastF, exI, casR, casV, casA, modeA⟩ := hJ
      refine ⟨?_, ?_, fun h => absurd rfl h, (by intro h; cases h), ⟨d, m, sy, by simp [Fs.set]⟩⟩
      · constructor <;> simp_all [Fs.set]
      · intro p h1 h2 _; simp [Fs.set, h1, h2]
    · cases hs

/-! ### Pure nodes in the interleaved semantics -/

/-- Refinement of the abstract state at a pure node, along the branch actually taken (mirrors
`Prog.disciplined`). -/
def Abs.onBranch (cnd : Cond) (taken : Bool) (a : Abs) : Abs :=
  match cnd, taken with
  | .last, false => (match a.lastA with | .targetExists => a.seenAbsent | _ => a)
  | .existed, false => if a.exProbe ∧ a.tmp ≠ .installed then { a with cas := .absent } else a
  | .mismatchVerify, false => if a.cas = .reread then { a with cas := .verified } else a
  | _, _ => a

def Abs.onSet : RegOp → Abs → Abs
  | .saveExisted, a => { a with exProbe := decide (a.lastA = .targetExists ∧ a.tmp ≠ .installed) }
  | .clearBase, a => a

/-- `settle` with the ghost abstract state. -/
def settleA (H : Data → Hash) (c : Call) : Prog → Regs → Abs → Prog × Regs × Abs
  | .branch cnd x y, r, a =>
      if evalCond H c r cnd then settleA H c x r (a.onBranch cnd true) else settleA H c y r (a.onBranch cnd false)
  | .set ro k, r, a => settleA H c k (ro.apply r) (a.onSet ro)
  | p, r, a => (p, r, a)

theorem settleA_erase (H : Data → Hash) (c : Call) (pc : Prog) (r : Regs) (a : Abs) :
    ((settleA H c pc r a).1, (settleA H c pc r a).2.1) = settle H c pc r := by
  induction pc generalizing r a with
  | branch cnd x y ihx ihy =>
    simp only [settleA, settle]
    split
    · exact ihx _ _
    · exact ihy _ _
  | set ro k ih => simp only [settleA, settle]; exact ih _ _
  | ret r' => rfl
  | raise => rfl
  | op o k kf => rfl

/-- A settled node is an op or a terminal. -/
def Prog.settled : Prog → Bool
  | .branch _ _ _ => false
  | .set _ _ => false
  | _ => true

theorem settleA_ok {P : Params} (pc : Prog) :
    ∀ (a : Abs) (r : Regs) (fs : Fs) (seen : Data), pc.disciplined S P a = true → J H c a r fs seen →
      (settleA H c pc r a).1.disciplined S P (settleA H c pc r a).2.2 = true ∧
      J H c (settleA H c pc r a).2.2 (settleA H c pc r a).2.1 fs seen ∧
      (settleA H c pc r a).1.settled = true ∧
      (settleA H c pc r a).2.2.tmp = a.tmp := by
  induction pc with
  | ret r' => intro a r fs seen hd hJ; exact ⟨hd, hJ, rfl, rfl⟩
  | raise => intro a r fs seen hd hJ; exact ⟨hd, hJ, rfl, rfl⟩
  | op o k kf _ _ => intro a r fs seen hd hJ; exact ⟨hd, hJ, rfl, rfl⟩
  | set ro k ih =>
    intro a r fs seen hd hJ
    simp only [settleA]
    cases ro with
    | saveExisted =>
      simp only [Prog.disciplined] at hd
      have hJ' : J H c (a.onSet .saveExisted) (RegOp.saveExisted.apply r) fs seen := by
        obtain ⟨tsome, tgone, tlive, hp, ho, modeS, modeN, lastT, lastP, lastF, exI, casR, casV, casA, modeA⟩ := hJ
        constructor
        case exI =>
          intro h
          simp only [Abs.onSet, decide_eq_true_eq] at h
          simp only [RegOp.apply]
          exact lastT h.1
        all_goals (first | assumption | (simp only [RegOp.apply, Abs.onSet]; assumption))
      obtain ⟨h1, h2, h3, h4⟩ := ih _ _ fs seen hd hJ'
      exact ⟨h1, h2, h3, h4⟩
    | clearBase =>
      simp only [Prog.disciplined, Bool.and_eq_true] at hd
      have hJ' : J H c (a.onSet .clearBase) (RegOp.clearBase.apply r) fs seen := by
        obtain ⟨tsome, tgone, tlive, hp, ho, modeS, modeN, lastT, lastP, lastF, exI, casR, casV, casA, modeA⟩ := hJ
        constructor
        all_goals (first | assumption | (simp only [RegOp.apply, Abs.onSet]; assumption))
      obtain ⟨h1, h2, h3, h4⟩ := ih _ _ fs seen hd.2 hJ'
      exact ⟨h1, h2, h3, h4⟩
  | branch cnd x y ihx ihy =>
    intro a r fs seen hd hJ
    simp only [settleA]
    cases cnd
    case last =>
      simp only [Prog.disciplined] at hd
      by_cases hv : evalCond H c r .last = true
      · rw [if_pos hv]
        have hdx : x.disciplined S P a = true := by
          cases hl : a.lastA with
          | unknown => simp only [hl, Bool.and_eq_true] at hd; exact hd.1
          | targetExists => simp only [hl, Bool.and_eq_true] at hd; exact hd.1
          | tmpProbe =>
            simp only [hl] at hd
            have hp := hJ.lastP hl
            by_cases hlive : a.tmp = .live
            · simpa [hlive] using hd
            · exfalso
              have hx : fs c.tmpName = none := by
                cases ht : a.tmp with
                | none => exact absurd ht hp.2
                | live => exact absurd ht hlive
                | gone => exact hJ.tgone (Or.inl ht)
                | installed => exact hJ.tgone (Or.inr ht)
              simp only [evalCond] at hv
              rw [hp.1, hx] at hv
              cases hv
          | false_ =>
            exfalso
            have := hJ.lastF hl
            simp only [evalCond] at hv
            rw [this] at hv; cases hv
        exact ihx a r fs seen hdx hJ
      · rw [if_neg hv]
        have hv' : r.last = false := by simpa [evalCond] using hv
        cases hl : a.lastA with
        | unknown =>
          simp only [hl, Bool.and_eq_true] at hd
          have : a.onBranch .last false = a := by simp [Abs.onBranch, hl]
          rw [this]; exact ihy a r fs seen hd.2 hJ
        | targetExists =>
          exfalso
          have := hJ.lastT hl
          rw [hv'] at this; cases this
        | tmpProbe =>
          simp only [hl] at hd
          have : a.onBranch .last false = a := by simp [Abs.onBranch, hl]
          rw [this]
          have hp := hJ.lastP hl
          by_cases hlive : a.tmp = .live
          · exfalso
            obtain ⟨d, m, sy, hx⟩ := hJ.tlive hlive
            rw [hp.1, hx] at hv'; cases hv'
          · exact ihy a r fs seen (by simpa [hlive] using hd) hJ
        | false_ =>
          simp only [hl] at hd
          have : a.onBranch .last false = a := by simp [Abs.onBranch, hl]
          rw [this]; exact ihy a r fs seen hd hJ
    case existed =>
      simp only [Prog.disciplined, Bool.and_eq_true] at hd
      by_cases hv : evalCond H c r .existed = true
      · rw [if_pos hv]; exact ihx a r fs seen hd.1 hJ
      · rw [if_neg hv]
        have hv' : r.existed = false := by simpa [evalCond] using hv
        by_cases hex : a.exProbe = true ∧ a.tmp ≠ .installed
        · exfalso
          have := hJ.exI hex.1
          rw [hv'] at this; cases this
        · have : a.onBranch .existed false = a := by simp only [Abs.onBranch, hex, if_false]
          rw [this]
          exact ihy a r fs seen (by simpa [hex] using hd.2) hJ
    case modeSaved =>
      simp only [Prog.disciplined] at hd
      by_cases hm : a.modeK = .saved
      · simp only [hm, if_true] at hd
        have hv : evalCond H c r .modeSaved = true := by simp only [evalCond]; exact hJ.modeS hm
        rw [if_pos hv]; exact ihx a r fs seen hd hJ
      · simp only [hm, if_false] at hd
        have hv : ¬ evalCond H c r .modeSaved = true := by simp only [evalCond, hJ.modeN hm]; simp
        rw [if_neg hv]; exact ihy a r fs seen hd hJ
    case mismatchVerify =>
      simp only [Prog.disciplined, Bool.and_eq_true] at hd
      by_cases hv : evalCond H c r .mismatchVerify = true
      · rw [if_pos hv]; exact ihx a r fs seen hd.1 hJ
      · rw [if_neg hv]
        have hv' : some (H r.verify) = c.baseHash := by simpa [evalCond] using hv
        by_cases hcas : a.cas = .reread
        · have hJ' : J H c (a.onBranch .mismatchVerify false) r fs seen := by
            have hse := hJ.casR hcas
            obtain ⟨tsome, tgone, tlive, hp, ho, modeS, modeN, lastT, lastP, lastF, exI, casR, casV, casA, modeA⟩ := hJ
            simp only [Abs.onBranch, hcas, if_true]
            constructor
            case casV => intro _; exact ⟨hse, by rw [← hse]; exact hv'⟩
            case casR => intro h; simp at h
            case casA => simp
            all_goals assumption
          have hd' : y.disciplined S P (a.onBranch .mismatchVerify false) = true := by
            simpa [Abs.onBranch, hcas] using hd.2
          obtain ⟨h1, h2, h3, h4⟩ := ihy _ r fs seen hd' hJ'
          exact ⟨h1, h2, h3, h4.trans (by simp [Abs.onBranch, hcas])⟩
        · have : a.onBranch .mismatchVerify false = a := by simp only [Abs.onBranch, hcas, if_false]
          rw [this]
          exact ihy a r fs seen (by simpa [hcas] using hd.2) hJ
    all_goals (
      rw [Prog.disciplined.eq_10 _ _ _ _ _ _ (by intro h; cases h) (by intro h; cases h) (by intro h; cases h)
        (by intro h; cases h)] at hd
      simp only [Bool.and_eq_true] at hd
      split
      · exact ihx a r fs seen hd.1 hJ
      · exact ihy a r fs seen hd.2 hJ)

theorem onBranch_cas (cnd : Cond) (b : Bool) (a : Abs)
    (h : (a.onBranch cnd b).cas = .reread ∨ (a.onBranch cnd b).cas = .verified) :
    a.cas = .reread ∨ a.cas = .verified := by
  unfold Abs.onBranch at h
  split at h
  · split at h
    · unfold Abs.seenAbsent at h
      split at h
      · simp at h
      · split at h
        · simp at h
        · exact h
    · exact h
  · split at h
    · simp at h
    · exact h
  · split at h
    · rename_i hc; exact Or.inl hc
    · exact h
  · exact h

theorem settleA_cas (pc : Prog) : ∀ (a : Abs) (r : Regs),
    ((settleA H c pc r a).2.2.cas = .reread ∨ (settleA H c pc r a).2.2.cas = .verified) →
    (a.cas = .reread ∨ a.cas = .verified) := by
  induction pc with
  | ret _ => intro a r h; exact h
  | raise => intro a r h; exact h
  | op _ _ _ _ _ => intro a r h; exact h
  | set ro k ih =>
    intro a r h
    simp only [settleA] at h
    have := ih _ _ h
    cases ro <;> simpa [Abs.onSet] using this
  | branch cnd x y ihx ihy =>
    intro a r h
    simp only [settleA] at h
    split at h
    · exact onBranch_cas _ _ _ (ihx _ _ h)
    · exact onBranch_cas _ _ _ (ihy _ _ h)

/-! ### The instrumented semantics -/

/-- A process with its ghosts: the abstract state of the discipline along the path it took, the text it
read at its last successful re-read, and the version of the target at that moment. -/
structure GProc where
  p : Proc
  a : Abs := {}
  seen : Data := []
  rrVer : Nat := 0

/-- One instrumented turn: exactly `Proc.step`, plus the ghosts.  Third component: this turn installed
(a successful `replace temp target`). -/
def GProc.step (S : Strict) (H : Data → Hash) (g : GProc) (fs : Fs) (ver : Nat) : GProc × Fs × Bool :=
  match settleA H g.p.call g.p.pc g.p.regs g.a with
  | (.op o k kf, r, a) =>
    (match doOp g.p.call o r fs with
     | .ok (r', fs') =>
       ({ p := { g.p with pc := k, regs := r', trace := ⟨o, true⟩ :: g.p.trace },
          a := ((a.step S g.p.call.baseHash.isSome o).map (·.1)).getD a,
          seen := if o = .reread .target then r'.verify else g.seen,
          rrVer := if o = .reread .target then ver else g.rrVer }, fs', decide (o = .replace .temp .target))
     | .error e =>
       if o.swallows then
         ({ g with p := { g.p with pc := k, regs := swallowRegs o r, trace := ⟨o, false⟩ :: g.p.trace },
                   a := ((a.step S g.p.call.baseHash.isSome o).map (·.2)).getD a }, fs, false)
       else
         ({ g with p := { g.p with pc := kf, regs := { r with exc := some e }, trace := ⟨o, false⟩ :: g.p.trace },
                   a := ((a.step S g.p.call.baseHash.isSome o).map (·.2)).getD a }, fs, false))
  | (pc', r, a) => ({ g with p := { g.p with pc := pc', regs := r }, a := a }, fs, false)

theorem GProc.step_erase (S : Strict) (H : Data → Hash) (g : GProc) (fs : Fs) (ver : Nat) :
    ((g.step S H fs ver).1.p, (g.step S H fs ver).2.1) = g.p.step H fs := by
  have he := settleA_erase H g.p.call g.p.pc g.p.regs g.a
  unfold GProc.step Proc.step
  rw [← he]
  rcases hs : settleA H g.p.call g.p.pc g.p.regs g.a with ⟨pc, r, a⟩
  cases pc with
  | op o k kf =>
    simp only
    cases hd : doOp g.p.call o r fs with
    | ok pr => rfl
    | error e =>
      simp only
      split <;> rfl
  | ret _ => rfl
  | raise => rfl
  | branch _ _ _ => rfl
  | set _ _ => rfl

local macro "triv" : tactic => `(tactic| (intros; first | rfl | trivial))

theorem step_ok_shape {hb : Bool} {a aOk aFail : Abs} {o : Op} (hs : a.step S hb o = some (aOk, aFail)) :
    (o ≠ .reread .target → aOk.cas = a.cas) ∧
    (o ≠ .replace .temp .target → (aOk.tmp = .installed ↔ a.tmp = .installed)) ∧
    (o = .replace .temp .target → a.tmp = .live ∧ aOk.tmp = .installed ∧
        (S.cas = false ∨ hb = false ∨ a.cas = .verified ∨ a.cas = .absent)) := by
  unfold Abs.step at hs
  split at hs <;> (try split at hs) <;> (try split at hs) <;>
    simp only [Option.some.injEq, Prod.mk.injEq, reduceCtorEq] at hs <;>
    (try (obtain ⟨rfl, rfl⟩ := hs)) <;> simp_all

/-- What the scheduler-level invariant knows about one writer (`ver` = number of installs so far). -/
structure PInv (S : Strict) (H : Data → Hash) (t : Path) (h : Hash) (fs : Fs) (ver : Nat) (g : GProc) : Prop where
  tgt : g.p.call.target = t
  wok : WriterOK g.p.call
  base : g.p.call.baseHash = some h
  dry : g.p.call.dry = false
  disc : g.p.pc.disciplined S g.p.call.params g.a = true
  j : J H g.p.call g.a g.p.regs fs g.seen
  le : g.rrVer ≤ ver
  fresh : g.rrVer = ver → (g.a.cas = .reread ∨ g.a.cas = .verified) → fs.dataAt t = some g.seen

theorem dataAt_congr {fs fs' : Fs} {t : Path} (h : fs' t = fs t) : fs'.dataAt t = fs.dataAt t := by
  unfold Fs.dataAt; rw [h]

/-- One turn of a writer preserves its invariant; an install happens only over a text the writer has
seen hash to base_hash — and, when nobody installed since its re-read, that text is the current one. -/
theorem gstep_inv {t : Path} {h : Hash} {fs : Fs} {ver : Nat} {g : GProc} (hS : S.cas = true)
    (hP : PInv S H t h fs ver g) (hT : TFile fs t) :
    TFile (g.step S H fs ver).2.1 t ∧
    (∀ p, p ≠ t → p ≠ g.p.call.tmpName → p.isPrefixOf (parentOf t) = false → (g.step S H fs ver).2.1 p = fs p) ∧
    (g.step S H fs ver).1.p.call = g.p.call ∧
    ((g.step S H fs ver).2.2 = false →
        (g.step S H fs ver).2.1 t = fs t ∧ PInv S H t h (g.step S H fs ver).2.1 ver (g.step S H fs ver).1 ∧
        ((g.step S H fs ver).1.a.tmp = .installed ↔ g.a.tmp = .installed)) ∧
    ((g.step S H fs ver).2.2 = true →
        PInv S H t h (g.step S H fs ver).2.1 (ver + 1) (g.step S H fs ver).1 ∧
        g.a.tmp ≠ .installed ∧ (g.step S H fs ver).1.a.tmp = .installed ∧
        H g.seen = h ∧ (g.rrVer = ver → fs.dataAt t = some g.seen)) := by
  obtain ⟨htgt, hwok, hbase, hdry, hdisc, hj, hle, hfresh⟩ := hP
  obtain ⟨hd', hJ', hset, htmp⟩ := settleA_ok (S := S) (H := H) (c := g.p.call) g.p.pc g.a g.p.regs fs g.seen hdisc hj
  have hcas := settleA_cas (H := H) (c := g.p.call) g.p.pc g.a g.p.regs
  have hT' : TFile fs g.p.call.target := by rw [htgt]; exact hT
  unfold GProc.step
  rcases hs : settleA H g.p.call g.p.pc g.p.regs g.a with ⟨pc, r, a⟩
  rw [hs] at hd' hJ' hset htmp hcas
  simp only at hd' hJ' hset htmp hcas
  cases pc with
  | branch _ _ _ => simp [Prog.settled] at hset
  | set _ _ => simp [Prog.settled] at hset
  | ret rr =>
    simp only
    refine ⟨hT, by triv, by triv, fun _ => ⟨by triv, ⟨htgt, hwok, hbase, hdry, hd', hJ', hle, ?_⟩, by rw [htmp]⟩, (by intro hh; cases hh)⟩
    intro h1 h2; exact hfresh h1 (hcas h2)
  | raise =>
    simp only
    refine ⟨hT, by triv, by triv, fun _ => ⟨by triv, ⟨htgt, hwok, hbase, hdry, hd', hJ', hle, ?_⟩, by rw [htmp]⟩, (by intro hh; cases hh)⟩
    intro h1 h2; exact hfresh h1 (hcas h2)
  | op o k kf =>
    simp only [Prog.disciplined] at hd'
    cases hst : a.step S g.p.call.params.hasBase o with
    | none => simp [hst] at hd'
    | some pr =>
      obtain ⟨aOk, aFail⟩ := pr
      simp only [hst, Bool.and_eq_true] at hd'
      obtain ⟨hk, hkf⟩ := hd'
      have hst' : a.step S g.p.call.baseHash.isSome o = some (aOk, aFail) := hst
      obtain ⟨sh1, sh2, sh3⟩ := step_ok_shape hst'
      obtain ⟨fh1, _, _, _, _, _, _, _, fh9, _⟩ := step_fail_shape hst'
      obtain ⟨jf1, jf2⟩ := j_fail hJ' hst'
      have hfail : ∀ (pcn : Prog) (rn : Regs) (tr : List Ev), pcn.disciplined S g.p.call.params aFail = true →
          J H g.p.call aFail rn fs g.seen →
          PInv S H t h fs ver { g with p := { g.p with pc := pcn, regs := rn, trace := tr }, a := aFail } ∧
          (aFail.tmp = .installed ↔ g.a.tmp = .installed) := by
        intro pcn rn tr hdn hjn
        refine ⟨⟨htgt, hwok, hbase, hdry, hdn, hjn, hle, ?_⟩, by rw [fh1, htmp]⟩
        intro h1 h2
        simp only at h2
        rw [fh9] at h2
        exact hfresh h1 (hcas h2)
      simp only
      cases hdo : doOp g.p.call o r fs with
      | error e =>
        simp only [hst', Option.map_some, Option.getD_some]
        by_cases hsw : o.swallows = true
        · simp only [hsw, if_true] at hkf ⊢
          obtain ⟨p1, p2⟩ := hfail k (swallowRegs o r) (⟨o, false⟩ :: g.p.trace) hkf (jf2 hsw)
          exact ⟨hT, by triv, by triv, fun _ => ⟨by triv, p1, p2⟩, (by intro hh; cases hh)⟩
        · simp only [hsw] at hkf ⊢
          obtain ⟨p1, p2⟩ := hfail kf { r with exc := some e } (⟨o, false⟩ :: g.p.trace) (by simpa using hkf) (jf1 e (by simpa using hsw))
          exact ⟨hT, by triv, by triv, fun _ => ⟨by triv, p1, p2⟩, (by intro hh; cases hh)⟩
      | ok pr =>
        obtain ⟨r', fs'⟩ := pr
        simp only [hst', Option.map_some, Option.getD_some]
        obtain ⟨jo1, jo2, jo3, jo4, jo5⟩ := j_ok hwok hJ' hT' hst' hdo
        rw [htgt] at jo2 jo3 jo4 jo5
        refine ⟨jo5, jo2, by triv, ?_, ?_⟩
        · intro hinst
          have hne : o ≠ .replace .temp .target := by simpa using hinst
          have hft := jo3 hne
          refine ⟨hft, ⟨htgt, hwok, hbase, hdry, hk, jo1, ?_, ?_⟩, ?_⟩
          · show (if o = .reread .target then ver else g.rrVer) ≤ ver
            split
            · exact Nat.le_refl _
            · exact hle
          · show (if o = .reread .target then ver else g.rrVer) = ver → (aOk.cas = .reread ∨ aOk.cas = .verified) →
                fs'.dataAt t = some (if o = .reread .target then r'.verify else g.seen)
            intro h1 h2
            rw [dataAt_congr hft]
            by_cases hrr : o = .reread .target
            · simp only [hrr, if_true]
              exact jo4 hrr
            · simp only [hrr, if_false] at h1 ⊢
              rw [sh1 hrr] at h2
              exact hfresh h1 (hcas h2)
          · show aOk.tmp = .installed ↔ g.a.tmp = .installed
            rw [sh2 hne, htmp]
        · intro hinst
          have heq : o = .replace .temp .target := by simpa using hinst
          obtain ⟨e1, e2, e3⟩ := sh3 heq
          have hne : o ≠ .reread .target := by rw [heq]; simp
          have hver : a.cas = .verified := by
            rcases e3 with e | e | e | e
            · rw [hS] at e; cases e
            · rw [hbase] at e; cases e
            · exact e
            · exact absurd e hJ'.casA
          obtain ⟨v1, v2⟩ := hJ'.casV hver
          rw [hbase] at v2
          injection v2 with v2
          refine ⟨⟨htgt, hwok, hbase, hdry, hk, jo1, ?_, ?_⟩, ?_, e2, v2, ?_⟩
          · simp only [hne, if_false]
            exact Nat.le_succ_of_le hle
          · simp only [hne, if_false]
            intro h1
            exact absurd h1 (Nat.ne_of_lt (Nat.lt_succ_of_le hle))
          · rw [← htmp, e1]; simp
          · intro h1
            exact hfresh h1 (hcas (Or.inr hver))

/-! ### The system and its invariant -/

/-- The instrumented system: processes with ghosts, the shared file system, who installed (newest first),
whether some install happened although the target had changed since the installer's re-read, and the
texts installed so far (newest first). -/
structure GSys where
  procs : List GProc
  fs : Fs
  installers : List Nat := []
  overlap : Bool := false
  texts : List Data := []

def GSys.ver (g : GSys) : Nat := g.installers.length

def GSys.step (S : Strict) (H : Data → Hash) (t : Path) (g : GSys) (i : Nat) : GSys :=
  match g.procs[i]? with
  | none => g
  | some gp =>
    { procs := g.procs.set i (gp.step S H g.fs g.ver).1,
      fs := (gp.step S H g.fs g.ver).2.1,
      installers := if (gp.step S H g.fs g.ver).2.2 then i :: g.installers else g.installers,
      overlap := g.overlap || ((gp.step S H g.fs g.ver).2.2 && decide (gp.rrVer ≠ g.ver)),
      texts := if (gp.step S H g.fs g.ver).2.2 then (((gp.step S H g.fs g.ver).2.1.dataAt t).getD []) :: g.texts
               else g.texts }

def grun (S : Strict) (H : Data → Hash) (t : Path) : List Nat → GSys → GSys
  | [], g => g
  | i :: is, g => grun S H t is (g.step S H t i)

def GSys.erase (g : GSys) : Sys := ⟨g.procs.map (·.p), g.fs⟩

theorem GSys.step_erase (S : Strict) (H : Data → Hash) (t : Path) (g : GSys) (i : Nat) :
    (g.step S H t i).erase = g.erase.step H i := by
  unfold GSys.step Sys.step GSys.erase
  simp only [List.getElem?_map]
  cases hi : g.procs[i]? with
  | none => simp
  | some gp =>
    have he := GProc.step_erase S H gp g.fs g.ver
    simp only [Option.map_some]
    rw [← he]
    simp [List.map_set]

theorem grun_erase (S : Strict) (H : Data → Hash) (t : Path) (sched : List Nat) :
    ∀ g : GSys, (grun S H t sched g).erase = runSched H sched g.erase := by
  induction sched with
  | nil => intro g; rfl
  | cons i is ih => intro g; simp only [grun, runSched]; rw [ih, GSys.step_erase]

/-- The scheduler-level invariant. -/
structure GInv (S : Strict) (H : Data → Hash) (t : Path) (h : Hash) (g : GSys) : Prop where
  tfile : TFile g.fs t
  procs : ∀ (i : Nat) (gp : GProc), g.procs[i]? = some gp → PInv S H t h g.fs g.ver gp
  distinct : ∀ (i j : Nat) (gi gj : GProc), i ≠ j → g.procs[i]? = some gi → g.procs[j]? = some gj →
    gi.p.call.tmpName ≠ gj.p.call.tmpName
  inst_mem : ∀ (i : Nat) (gp : GProc), g.procs[i]? = some gp → gp.a.tmp = .installed → i ∈ g.installers
  inst_nodup : g.installers.Nodup
  inst_sound : ∀ (i : Nat), i ∈ g.installers → ∃ gp : GProc, g.procs[i]? = some gp ∧ gp.a.tmp = .installed
  cur : g.ver ≥ 1 → ∃ d, g.fs.dataAt t = some d ∧ d ∈ g.texts
  aba : g.overlap = false → g.ver ≥ 2 → ∃ d, d ∈ g.texts ∧ H d = h

theorem PInv.frame {t : Path} {h : Hash} {fs fs' : Fs} {ver ver' : Nat} {g : GProc}
    (hP : PInv S H t h fs ver g) (hx : fs' g.p.call.tmpName = fs g.p.call.tmpName)
    (hv : (fs' t = fs t ∧ ver' = ver) ∨ ver' = ver + 1) : PInv S H t h fs' ver' g := by
  obtain ⟨htgt, hwok, hbase, hdry, hdisc, hj, hle, hfresh⟩ := hP
  refine ⟨htgt, hwok, hbase, hdry, hdisc, hj.frame hx, ?_, ?_⟩
  · rcases hv with ⟨_, e⟩ | e
    · rw [e]; exact hle
    · rw [e]; exact Nat.le_succ_of_le hle
  · intro h1 h2
    rcases hv with ⟨e1, e2⟩ | e
    · rw [dataAt_congr e1]; exact hfresh (by rw [← e2]; exact h1) h2
    · rw [e] at h1
      exact absurd h1 (Nat.ne_of_lt (Nat.lt_succ_of_le hle))

theorem GInv.step {t : Path} {h : Hash} {g : GSys} (hS : S.cas = true) (hG : GInv S H t h g) (i : Nat) :
    GInv S H t h (g.step S H t i) := by
  unfold GSys.step
  cases hi : g.procs[i]? with
  | none => exact hG
  | some gp =>
    obtain ⟨tfile, procs, distinct, inst_mem, inst_nodup, inst_sound, cur, aba⟩ := hG
    have hP := procs i gp hi
    obtain ⟨s1, s2, s3, s4, s5⟩ := gstep_inv hS hP tfile
    have hilt : i < g.procs.length := (List.getElem?_eq_some_iff.mp hi).1
    -- lookups in the updated process list
    have look : ∀ j gj', (g.procs.set i (gp.step S H g.fs g.ver).1)[j]? = some gj' →
        (j = i ∧ gj' = (gp.step S H g.fs g.ver).1) ∨ (j ≠ i ∧ g.procs[j]? = some gj') := by
      intro j gj' hj
      by_cases hji : j = i
      · subst hji
        rw [List.getElem?_set_self hilt] at hj
        exact Or.inl ⟨rfl, (Option.some.inj hj).symm⟩
      · rw [List.getElem?_set_ne (fun e => hji e.symm)] at hj
        exact Or.inr ⟨hji, hj⟩
    -- the other writers' temp paths are untouched
    have other : ∀ j gj, j ≠ i → g.procs[j]? = some gj →
        (gp.step S H g.fs g.ver).2.1 gj.p.call.tmpName = g.fs gj.p.call.tmpName := by
      intro j gj hji hj
      have hPj := procs j gj hj
      apply s2
      · have := hPj.wok.tmp_ne; rw [hPj.tgt] at this; exact this
      · exact distinct j i gj gp hji hj hi
      · have := hPj.wok.tmp_np; rw [hPj.tgt] at this; exact this
    cases hinst : (gp.step S H g.fs g.ver).2.2 with
    | false =>
      obtain ⟨t1, t2, t3⟩ := s4 hinst
      simp only [hinst, Bool.false_and, Bool.or_false, if_false, Bool.false_eq_true]
      refine ⟨s1, ?_, ?_, ?_, inst_nodup, ?_, ?_, aba⟩
      · intro j gj' hj
        rcases look j gj' hj with ⟨_, e⟩ | ⟨hji, hj'⟩
        · rw [e]; exact t2
        · exact (procs j gj' hj').frame (other j gj' hji hj') (Or.inl ⟨t1, rfl⟩)
      · intro j k gj gk hjk hj hk
        have cj : ∃ gj0, g.procs[j]? = some gj0 ∧ gj0.p.call = gj.p.call := by
          rcases look j gj hj with ⟨e1, e2⟩ | ⟨_, hj'⟩
          · exact ⟨gp, by rw [e1]; exact hi, by rw [e2, s3]⟩
          · exact ⟨gj, hj', rfl⟩
        have ck : ∃ gk0, g.procs[k]? = some gk0 ∧ gk0.p.call = gk.p.call := by
          rcases look k gk hk with ⟨e1, e2⟩ | ⟨_, hk'⟩
          · exact ⟨gp, by rw [e1]; exact hi, by rw [e2, s3]⟩
          · exact ⟨gk, hk', rfl⟩
        obtain ⟨gj0, hj0, ej⟩ := cj
        obtain ⟨gk0, hk0, ek⟩ := ck
        rw [← ej, ← ek]
        exact distinct j k gj0 gk0 hjk hj0 hk0
      · intro j gj' hj hins
        rcases look j gj' hj with ⟨e1, e2⟩ | ⟨_, hj'⟩
        · rw [e2] at hins
          rw [e1]; exact inst_mem i gp hi (t3.mp hins)
        · exact inst_mem j gj' hj' hins
      · intro j hj
        obtain ⟨gj, hgj, hins⟩ := inst_sound j hj
        by_cases hji : j = i
        · subst hji
          refine ⟨_, List.getElem?_set_self hilt, ?_⟩
          rw [hi] at hgj; injection hgj with hgj; subst hgj
          exact t3.mpr hins
        · exact ⟨gj, by rw [List.getElem?_set_ne (fun e => hji e.symm)]; exact hgj, hins⟩
      · intro hv
        obtain ⟨d, e1, e2⟩ := cur hv
        exact ⟨d, by rw [dataAt_congr t1]; exact e1, e2⟩
    | true =>
      obtain ⟨t1, t2, t3, t4, t5⟩ := s5 hinst
      have hnotin : i ∉ g.installers := by
        intro hmem
        obtain ⟨gp', e1, e2⟩ := inst_sound i hmem
        rw [hi] at e1; injection e1 with e1; subst e1
        exact t2 e2
      have hver' : (i :: g.installers).length = g.ver + 1 := by simp [GSys.ver]
      simp only [hinst, Bool.true_and, if_true]
      refine ⟨s1, ?_, ?_, ?_, List.nodup_cons.mpr ⟨hnotin, inst_nodup⟩, ?_, ?_, ?_⟩
      · intro j gj' hj
        show PInv S H t h _ (i :: g.installers).length gj'
        rw [hver']
        rcases look j gj' hj with ⟨_, e⟩ | ⟨hji, hj'⟩
        · rw [e]; exact t1
        · exact (procs j gj' hj').frame (other j gj' hji hj') (Or.inr rfl)
      · intro j k gj gk hjk hj hk
        have cj : ∃ gj0, g.procs[j]? = some gj0 ∧ gj0.p.call = gj.p.call := by
          rcases look j gj hj with ⟨e1, e2⟩ | ⟨_, hj'⟩
          · exact ⟨gp, by rw [e1]; exact hi, by rw [e2, s3]⟩
          · exact ⟨gj, hj', rfl⟩
        have ck : ∃ gk0, g.procs[k]? = some gk0 ∧ gk0.p.call = gk.p.call := by
          rcases look k gk hk with ⟨e1, e2⟩ | ⟨_, hk'⟩
          · exact ⟨gp, by rw [e1]; exact hi, by rw [e2, s3]⟩
          · exact ⟨gk, hk', rfl⟩
        obtain ⟨gj0, hj0, ej⟩ := cj
        obtain ⟨gk0, hk0, ek⟩ := ck
        rw [← ej, ← ek]
        exact distinct j k gj0 gk0 hjk hj0 hk0
      · intro j gj' hj hins
        rcases look j gj' hj with ⟨e1, _⟩ | ⟨_, hj'⟩
        · rw [e1]; exact List.mem_cons_self
        · exact List.mem_cons_of_mem _ (inst_mem j gj' hj' hins)
      · intro j hj
        rcases List.mem_cons.mp hj with e | hj'
        · subst e
          exact ⟨_, List.getElem?_set_self hilt, t3⟩
        · obtain ⟨gj, hgj, hins⟩ := inst_sound j hj'
          have hji : j ≠ i := fun e => hnotin (e ▸ hj')
          exact ⟨gj, by rw [List.getElem?_set_ne (fun e => hji e.symm)]; exact hgj, hins⟩
      · intro _
        obtain ⟨d, m, sy, hd⟩ := s1
        refine ⟨d, by simp [Fs.dataAt, hd], ?_⟩
        simp [Fs.dataAt, hd]
      · intro hov hv
        have hov' : g.overlap = false ∧ gp.rrVer = g.ver := by
          cases ho : g.overlap <;> simp_all
        have hv1 : g.ver ≥ 1 := by
          have : (i :: g.installers).length ≥ 2 := hv
          rw [hver'] at this
          omega
        obtain ⟨d, e1, e2⟩ := cur hv1
        have := t5 hov'.2
        rw [e1] at this
        injection this with this
        exact ⟨d, List.mem_cons_of_mem _ e2, by rw [this]; exact t4⟩

theorem GInv.run {t : Path} {h : Hash} (hS : S.cas = true) (sched : List Nat) :
    ∀ g : GSys, GInv S H t h g → GInv S H t h (grun S H t sched g) := by
  induction sched with
  | nil => intro g hG; exact hG
  | cons i is ih => intro g hG; exact ih _ (hG.step hS i)

theorem two_le_length {l : List Nat} {i j : Nat} (hi : i ∈ l) (hj : j ∈ l) (hij : i ≠ j) : 2 ≤ l.length := by
  cases l with
  | nil => cases hi
  | cons x xs =>
    cases xs with
    | nil =>
      have e1 : i = x := by simpa using hi
      have e2 : j = x := by simpa using hj
      exact absurd (e1.trans e2.symm) hij
    | cons y ys => simp

/-- A writer that answers success has installed. -/
theorem result_ok_installed {t : Path} {h : Hash} {fs : Fs} {ver : Nat} {g : GProc}
    (hP : PInv S H t h fs ver g) (hh : Hash) (hr : g.p.result H = some (.ok hh)) : g.a.tmp = .installed := by
  obtain ⟨htgt, hwok, hbase, hdry, hdisc, hj, hle, hfresh⟩ := hP
  obtain ⟨hd', _, _, htmp⟩ := settleA_ok (S := S) (H := H) (c := g.p.call) g.p.pc g.a g.p.regs fs g.seen hdisc hj
  have he := settleA_erase H g.p.call g.p.pc g.p.regs g.a
  unfold Proc.result at hr
  rw [← he] at hr
  rcases hs : settleA H g.p.call g.p.pc g.p.regs g.a with ⟨pc, r, a⟩
  rw [hs] at hd' htmp hr
  simp only at hd' htmp hr
  cases pc with
  | ret rr =>
    cases rr with
    | ok =>
      simp only [Prog.disciplined, Call.params, hdry, Bool.false_eq_true, if_false, decide_eq_true_eq] at hd'
      rw [← htmp]; exact hd'
    | err code => simp [retResult] at hr
  | raise => simp at hr
  | op _ _ _ => simp at hr
  | branch _ _ _ => simp at hr
  | set _ _ => simp at hr

end Octave
