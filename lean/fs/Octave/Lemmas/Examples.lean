/-
Concrete file system and call used by the non-vacuity examples of Props/C16 and Props/C17.
-/
import Octave.Lemmas.Inv
namespace Octave.Ex
open Octave

/-- root `[]` and `[1]` are directories, `[1,2]` is the target holding "old" with mode 0o640. -/
def fsEx : Fs := fun p =>
  if p = [] then some .dir else if p = [1] then some .dir
  else if p = [1, 2] then some (.file "old".toList 416 true) else none

def callEx : Call :=
  { target := [1, 2], tmpName := [1, 9], mode := .content, baseHash := some "old".toList,
    canon := fun _ => "new".toList }

theorem callEx_ok : CallOK callEx fsEx := ⟨by decide, by decide, by decide, by decide⟩

def Hid : Data → Hash := fun d => d

/-- Ops of a run, in execution order. -/
def traceOf (o : Out) : List Op := o.st.trace.reverse.map (·.op)

/-- Position of the first occurrence of `op` in a trace (its length when there is none).  The examples
address ops by *what they are*, not by a pinned number, so a harmless reordering of the source keeps them. -/
def idx (tr : List Op) (op : Op) : Nat := tr.findIdx (fun x => decide (x = op))

/-- A world that injects `e` at every listed step. -/
def faultsAt (ks : List Nat) (e : Errno) : World := { fault := fun n => if ks.contains n then some e else none }

end Octave.Ex
