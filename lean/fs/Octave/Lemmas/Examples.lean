/-
Concrete file system and call used by the non-vacuity examples of Props/C16 and Props/C17.
-/
import Octave.Lemmas.Inv
namespace Octave.Ex
open Octave

/-- root `[]` and `[1]` are directories, `[1,2]` is the target holding "old" with mode 0o640. -/
def fsEx : Fs := fun p =>
  if p = [] then some .dir else if p = [1] then some .dir
  else if p = [1, 2] then some (.file "old".toList 416 true) else none

def callEx : Call :=
  { target := [1, 2], tmpName := [1, 9], mode := .content, baseHash := some "old".toList,
    canon := fun _ => "new".toList }

theorem callEx_ok : CallOK callEx fsEx := ⟨by decide, by decide, by decide, by decide⟩

def Hid : Data → Hash := fun d => d

end Octave.Ex
