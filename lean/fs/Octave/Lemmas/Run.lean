/-
The main induction: a run of a disciplined tree, from a state that satisfies the invariant, ends in a
state that satisfies `Post` — whatever the crash point and the faults.
-/
import Octave.Lemmas.Inv
namespace Octave
variable {S : Strict} {H : Data → Hash} {c : Call} {fs0 : Fs}

/-- What the discipline guarantees about the outcome of a run. -/
def Post (S : Strict) (H : Data → Hash) (c : Call) (fs0 : Fs) (out : Out) : Prop :=
  match out.res with
  | .crashed => out.st.fs c.target = fs0 c.target ∨ Installed S H c fs0 out.st.regs out.st.fs
  | .ok h => ∃ a, Inv S H c fs0 a out.st.regs out.st.fs out.st.cf ∧ h = H (c.canon out.st.regs.base) ∧
      (if c.dry = true then a.mutd = false ∧ a.tmp = .none else a.tmp = .installed)
  | .err code => ∃ a, Inv S H c fs0 a out.st.regs out.st.fs out.st.cf ∧ a.errOk = true ∧
      (S.atomic = true → code.isValidation = true → a.mutd = false) ∧ (c.dry = true → a.mutd = false)
  | .raised => ∃ a, Inv S H c fs0 a out.st.regs out.st.fs out.st.cf ∧ a.errOk = true ∧ (c.dry = true → a.mutd = false)

theorem isPrefixOf_take (l m : Path) (k : Nat) (h : l.isPrefixOf (m.take k) = true) : l.isPrefixOf m = true := by
  induction l generalizing m k with
  | nil => simp
  | cons a as ih =>
    cases m with
    | nil => simp at h
    | cons b bs =>
      cases k with
      | zero => simp at h
      | succ k =>
        simp only [List.take_succ_cons, List.isPrefixOf, Bool.and_eq_true] at h ⊢
        exact ⟨h.1, ih bs k h.2⟩

theorem flushTo_other (fs : Fs) (p q : Path) (d : Data) (h : q ≠ p) : flushTo fs p d q = fs q := by
  unfold flushTo
  cases hfp : fs p with
  | none => rfl
  | some n =>
    cases n with
    | file d1 m sy => simp [Fs.set, h]
    | dir => rfl
    | symlink => rfl

/-- An op interrupted in the middle does not touch the target. -/
theorem crash_target (hc : CallOK c fs0) {hb : Bool} {a aOk aFail : Abs} {o : Op} {r : Regs} {fs : Fs} {cf : Bool}
    (hI : Inv S H c fs0 a r fs cf) (hs : a.step S hb o = some (aOk, aFail)) (cut : Nat) :
    (partialOp c cut o r fs) c.target = fs c.target := by
  have hp := hI.hp
  have hne : c.target ≠ c.tmpName := fun h => hc.tmp_ne h.symm
  have hflush : ∀ d, (match r.hpath with | some p => flushTo fs p d | none => fs) c.target = fs c.target := by
    intro d
    cases hh : a.hOpen <;> simp only [hh] at hp <;> simp [hp, flushTo_other _ _ _ _ hne]
  cases o with
  | write s => exact hflush _
  | flush => exact hflush _
  | close => exact hflush _
  | mkdirP l =>
    cases l <;> simp only [Abs.step, reduceCtorEq] at hs
    simp only [partialOp, locPath]
    split
    · apply mkdirP_other
      cases h : c.target.isPrefixOf ((parentOf c.target).take cut)
      · rfl
      · have := isPrefixOf_take _ _ _ h
        rw [hc.tgt_np] at this
        cases this
    · rfl
  | _ => rfl

/-! ### Pure nodes -/

theorem inv_saveExisted {a : Abs} {r : Regs} {fs : Fs} {cf : Bool} (hI : Inv S H c fs0 a r fs cf) :
    Inv S H c fs0 { a with exProbe := decide (a.lastA = .targetExists ∧ a.tmp ≠ .installed) }
      (RegOp.saveExisted.apply r) fs cf := by
  obtain ⟨frame, clean, tgt, inst, tnone, tsome, tgone, tlive, bufB, bufE, hp, ho, chmK, modeS, modeA, modeN, lastT, lastP, lastF, cfI, casR, casV, casA, exI⟩ := hI
  constructor
  case exI =>
    intro h
    simp only [decide_eq_true_eq] at h
    simp only [RegOp.apply]
    rw [lastT h.1, tgt h.2]
  all_goals (first | assumption | (simp only [RegOp.apply]; assumption))

theorem inv_seenAbsent {a : Abs} {r : Regs} {fs : Fs} {cf : Bool} (hI : Inv S H c fs0 a r fs cf)
    (hl : a.lastA = .targetExists) (hf : r.last = false) : Inv S H c fs0 a.seenAbsent r fs cf := by
  have h0 : fs c.target = none := by
    have := hI.lastT hl
    rw [hf] at this
    cases h : fs c.target with
    | none => rfl
    | some n => rw [h] at this; cases this
  unfold Abs.seenAbsent
  split
  · rename_i h1
    have h2 : fs0 c.target = none := by rw [← hI.tgt (by simp [h1.1])]; exact h0
    obtain ⟨frame, clean, tgt, inst, tnone, tsome, tgone, tlive, bufB, bufE, hp, ho, chmK, modeS, modeA, modeN, lastT, lastP, lastF, cfI, casR, casV, casA, exI⟩ := hI
    constructor
    case chmK => intro h; have := chmK h; simp [h1.2] at this
    case modeN => intro _; exact modeN (by simp [h1.2])
    all_goals (first | assumption | simp_all)
  · split
    · rename_i h1
      have h2 : fs0 c.target = none := by rw [← hI.tgt h1]; exact h0
      obtain ⟨frame, clean, tgt, inst, tnone, tsome, tgone, tlive, bufB, bufE, hp, ho, chmK, modeS, modeA, modeN, lastT, lastP, lastF, cfI, casR, casV, casA, exI⟩ := hI
      constructor
      all_goals (first | assumption | simp_all)
    · exact hI

theorem inv_casAbsent {a : Abs} {r : Regs} {fs : Fs} {cf : Bool} (hI : Inv S H c fs0 a r fs cf)
    (h2 : fs0 c.target = none) : Inv S H c fs0 { a with cas := .absent } r fs cf := by
  obtain ⟨frame, clean, tgt, inst, tnone, tsome, tgone, tlive, bufB, bufE, hp, ho, chmK, modeS, modeA, modeN, lastT, lastP, lastF, cfI, casR, casV, casA, exI⟩ := hI
  constructor
  all_goals (first | assumption | simp_all)

theorem inv_verified {a : Abs} {r : Regs} {fs : Fs} {cf : Bool} (hI : Inv S H c fs0 a r fs cf)
    (h1 : a.cas = .reread) (h2 : some (H r.verify) = c.baseHash) : Inv S H c fs0 { a with cas := .verified } r fs cf := by
  obtain ⟨d, m, sy, e1, e2⟩ := hI.casR h1
  obtain ⟨frame, clean, tgt, inst, tnone, tsome, tgone, tlive, bufB, bufE, hp, ho, chmK, modeS, modeA, modeN, lastT, lastP, lastF, cfI, casR, casV, casA, exI⟩ := hI
  constructor
  case casV => intro _; exact ⟨d, m, sy, e1, e2, by rw [← e2]; exact h2⟩
  all_goals (first | assumption | simp_all)

/-! ### The main induction -/

/-- Clean-up ops do not fail on their own when the invariant holds. -/
theorem cleanup_succeeds {hb : Bool} {a aOk aFail : Abs} {o : Op} {r : Regs} {fs : Fs} {cf : Bool}
    (hI : Inv S H c fs0 a r fs cf) (hs : a.step S hb o = some (aOk, aFail)) (hcl : o.isCleanup = true) :
    ∃ pr, doOp c o r fs = .ok pr := by
  cases o with
  | unlink l =>
    cases l <;> simp only [Op.isCleanup, reduceCtorEq] at hcl
    simp only [Abs.step] at hs
    split at hs
    · rename_i h0
      obtain ⟨d, m, sy, hx, _⟩ := hI.tlive h0
      have ht := hI.tsome (by simp [h0])
      simp only [doOp, locPath, ht, hx]
      exact ⟨_, rfl⟩
    · cases hs
  | osPathExists l =>
    cases l <;> simp only [Op.isCleanup, reduceCtorEq] at hcl
    simp only [Abs.step] at hs
    split at hs
    · cases hs
    · rename_i h0
      have ht := hI.tsome h0
      simp only [doOp, locPath, ht]
      exact ⟨_, rfl⟩
  | _ => simp [Op.isCleanup] at hcl

/-- `Post`, plus: without injected faults no clean-up call fails. -/
def PostW (S : Strict) (H : Data → Hash) (c : Call) (fs0 : Fs) (w : World) (out : Out) : Prop :=
  Post S H c fs0 out ∧ ((∀ n, w.fault n = none) → out.st.cf = false) ∧ (w.crashAt = none → out.res ≠ .crashed)

theorem ite_post {P : Out → Prop} (b : Bool) (x y : Out) (hx : P x) (hy : P y) :
    P (if b = true then x else y) := by
  cases b
  · exact hy
  · exact hx

theorem run_post (hc : CallOK c fs0) (w : World) :
    ∀ (p : Prog) (a : Abs) (s : St), p.disciplined S c.params a = true → Inv S H c fs0 a s.regs s.fs s.cf →
      ((∀ n, w.fault n = none) → s.cf = false) → PostW S H c fs0 w (run H c w p s) := by
  intro p
  induction p with
  | ret r =>
    intro a s hd hI hcf
    refine ⟨?_, hcf, ?_⟩
    case refine_2 => intro _; cases r <;> simp [run, retResult]
    cases r with
    | ok =>
      simp only [run, retResult, Post]
      refine ⟨a, hI, ?_⟩
      simp only [Prog.disciplined, Call.params] at hd
      by_cases hdry : c.dry = true
      · simp only [hdry, if_true] at hd ⊢
        simpa using hd
      · simp only [hdry] at hd ⊢
        simpa using hd
    | err code =>
      simp only [run, retResult, Post]
      simp only [Prog.disciplined, Call.params, Bool.and_eq_true] at hd
      refine ⟨a, hI, hd.1.1, ?_, ?_⟩
      · intro hat hv; have := hd.1.2; simp [hv, hat] at this; exact this
      · intro hv; have := hd.2; simp [hv] at this; exact this
  | raise =>
    intro a s hd hI hcf
    refine ⟨?_, hcf, by intro _; simp [run]⟩
    simp only [run, Post]
    simp only [Prog.disciplined, Call.params, Bool.and_eq_true] at hd
    refine ⟨a, hI, hd.1, ?_⟩
    intro hv; have := hd.2; simp [hv] at this; exact this
  | set ro k ih =>
    intro a s hd hI hcf
    cases ro with
    | saveExisted =>
      simp only [Prog.disciplined] at hd
      simp only [run]
      exact ih _ _ hd (inv_saveExisted hI) hcf
    | clearBase =>
      simp only [Prog.disciplined, Bool.and_eq_true, decide_eq_true_eq] at hd
      simp only [run]
      refine ih a _ hd.2 ?_ hcf
      exact hI.transfer rfl rfl (Or.inl rfl) rfl (Or.inl ⟨rfl, rfl⟩) (by
        cases hl : a.lastA
        · exact Or.inl rfl
        · exact Or.inr (Or.inr (Or.inl ⟨rfl, hI.lastT hl⟩))
        · exact Or.inr (Or.inr (Or.inr ⟨rfl, hI.lastP hl⟩))
        · exact Or.inr (Or.inl ⟨rfl, hI.lastF hl⟩)) (fun h => Or.inl h) id id (Or.inl ⟨rfl, rfl⟩) rfl rfl rfl rfl (Or.inr hd.1) rfl
  | branch cnd x y ihx ihy =>
    intro a s hd hI hcf
    simp only [run]
    cases cnd
    case last =>
      simp only [Prog.disciplined] at hd
      simp only [evalCond]
      cases hl : a.lastA with
      | unknown =>
        simp only [hl, Bool.and_eq_true] at hd
        by_cases hv : s.regs.last = true
        · simp only [hv, if_true]; exact ihx a s hd.1 hI hcf
        · simp only [hv]; exact ihy a s hd.2 hI hcf
      | targetExists =>
        simp only [hl, Bool.and_eq_true] at hd
        by_cases hv : s.regs.last = true
        · simp only [hv, if_true]; exact ihx a s hd.1 hI hcf
        · simp only [hv]; exact ihy _ s hd.2 (inv_seenAbsent hI hl (by simpa using hv)) hcf
      | tmpProbe =>
        simp only [hl] at hd
        have hp := hI.lastP hl
        by_cases hlive : a.tmp = .live
        · simp only [hlive, if_true] at hd
          obtain ⟨d, m, sy, hx, _⟩ := hI.tlive hlive
          have hv : s.regs.last = true := by rw [hp, hx]; rfl
          simp only [hv, if_true]; exact ihx a s hd hI hcf
        · simp only [hlive, if_false] at hd
          have hx : s.fs c.tmpName = none := by
            cases ht : a.tmp with
            | none => exact (hI.tnone ht).2
            | live => exact absurd ht hlive
            | gone => exact hI.tgone (Or.inl ht)
            | installed => exact hI.tgone (Or.inr ht)
          have hv : s.regs.last = false := by rw [hp, hx]; rfl
          simp only [hv]; exact ihy a s hd hI hcf
      | false_ =>
        simp only [hl] at hd
        have hv := hI.lastF hl
        simp only [hv]; exact ihy a s hd hI hcf
    case existed =>
      simp only [Prog.disciplined, Bool.and_eq_true] at hd
      simp only [evalCond]
      by_cases hv : s.regs.existed = true
      · simp only [hv, if_true]; exact ihx a s hd.1 hI hcf
      · simp only [hv]
        refine ihy _ s hd.2 ?_ hcf
        split
        · rename_i h1
          apply inv_casAbsent hI
          have := hI.exI h1.1
          cases h : fs0 c.target with
          | none => rfl
          | some n => rw [h] at this; simp at this; exact absurd this hv
        · exact hI
    case modeSaved =>
      simp only [Prog.disciplined] at hd
      simp only [evalCond]
      by_cases hm : a.modeK = .saved
      · simp only [hm, if_true] at hd
        obtain ⟨m, hm1, _⟩ := hI.modeS hm
        simp only [hm1, Option.isSome_some, if_true]; exact ihx a s hd hI hcf
      · simp only [hm, if_false] at hd
        have := hI.modeN hm
        simp only [this, Option.isSome_none]; exact ihy a s hd hI hcf
    case mismatchVerify =>
      simp only [Prog.disciplined, Bool.and_eq_true] at hd
      by_cases hv : evalCond H c s.regs .mismatchVerify = true
      · rw [if_pos hv]; exact ihx a s hd.1 hI hcf
      · rw [if_neg hv]
        refine ihy _ s hd.2 ?_ hcf
        split
        · rename_i h1
          exact inv_verified hI h1 (by simpa [evalCond] using hv)
        · exact hI
    all_goals (
      rw [Prog.disciplined.eq_10 _ _ _ _ _ _ (by intro h; cases h) (by intro h; cases h) (by intro h; cases h)
        (by intro h; cases h)] at hd
      simp only [Bool.and_eq_true] at hd
      exact ite_post _ _ _ (ihx a s hd.1 hI hcf) (ihy a s hd.2 hI hcf))
  | op o k kf ihk ihkf =>
    intro a s hd hI hcf
    simp only [Prog.disciplined] at hd
    cases hs : a.step S c.params.hasBase o with
    | none => simp [hs] at hd
    | some pr =>
      obtain ⟨aOk, aFail⟩ := pr
      simp only [hs, Bool.and_eq_true] at hd
      obtain ⟨hk, hkf⟩ := hd
      have hs' : a.step S c.baseHash.isSome o = some (aOk, aFail) := hs
      obtain ⟨hf1, hf2⟩ := inv_fail hI hs'
      simp only [run]
      by_cases hcr : w.crashAt = some s.n
      · simp only [hcr, if_true]
        refine ⟨?_, hcf, by intro h; rw [h] at hcr; cases hcr⟩
        simp only [Post]
        have ht : (if w.crashMid = true then partialOp c w.cut o s.regs s.fs else s.fs) c.target = s.fs c.target := by
          split
          · exact crash_target hc hI hs' _
          · rfl
        by_cases hi : a.tmp = .installed
        · right
          obtain ⟨m, sy, h1, h2, h3⟩ := hI.inst hi
          exact ⟨m, sy, by rw [ht]; exact h1, h2, h3⟩
        · left; rw [ht]; exact hI.tgt hi
      · simp only [hcr, if_false]
        have hfail : ∀ e, ((∀ n, w.fault n = none) → (s.cf || o.isCleanup) = false) →
            PostW S H c fs0 w (if o.swallows = true then
              run H c w k { s with regs := swallowRegs o s.regs, n := s.n + 1, trace := ⟨o, false⟩ :: s.trace, cf := s.cf || o.isCleanup }
            else
              run H c w kf { s with regs := { s.regs with exc := some e }, n := s.n + 1, trace := ⟨o, false⟩ :: s.trace, cf := s.cf || o.isCleanup }) := by
          intro e hcf'
          by_cases hsw : o.swallows = true
          · simp only [hsw, if_true] at hkf ⊢
            exact ihk aFail _ hkf (hf2 hsw) hcf'
          · simp only [hsw] at hkf ⊢
            exact ihkf aFail _ (by simpa using hkf) (hf1 e (by simpa using hsw)) hcf'
        cases hfa : w.fault s.n with
        | some e =>
          apply hfail e
          intro hnf; rw [hnf] at hfa; cases hfa
        | none =>
          cases hdo : doOp c o s.regs s.fs with
          | ok pr =>
            obtain ⟨r', fs'⟩ := pr
            exact ihk aOk _ hk (inv_ok hc hI hs' hdo) hcf
          | error e =>
            apply hfail e
            intro hnf
            cases hcl : o.isCleanup with
            | false => simp [hcf hnf]
            | true =>
              obtain ⟨pr, hpr⟩ := cleanup_succeeds hI hs' hcl
              rw [hpr] at hdo; cases hdo

/-- A complete call of a disciplined entry point. -/
theorem exec_post (S : Strict) (H : Data → Hash) (s : Stmt) (c : Call) (w : World) (fs : Fs) (hc : CallOK c fs)
    (hd : s.disciplined S c.params = true) : Post S H c fs (exec H s c w fs) :=
  (run_post hc w _ {} { fs := fs } hd (Inv.init S H c fs hc) (fun _ => rfl)).1

/-- Without injected faults no clean-up call fails. -/
theorem exec_not_crashed (S : Strict) (H : Data → Hash) (s : Stmt) (c : Call) (w : World) (fs : Fs) (hc : CallOK c fs)
    (hd : s.disciplined S c.params = true) (hnc : w.crashAt = none) : (exec H s c w fs).res ≠ .crashed :=
  (run_post hc w _ {} { fs := fs } hd (Inv.init S H c fs hc) (fun _ => rfl)).2.2 hnc

theorem exec_cf (S : Strict) (H : Data → Hash) (s : Stmt) (c : Call) (w : World) (fs : Fs) (hc : CallOK c fs)
    (hd : s.disciplined S c.params = true) (hnf : ∀ n, w.fault n = none) : (exec H s c w fs).st.cf = false :=
  (run_post hc w _ {} { fs := fs } hd (Inv.init S H c fs hc) (fun _ => rfl)).2.1 hnf

end Octave
