/-
The invariant that links the abstract state of the discipline check (`Abs`) with the concrete state
of a run (registers, file system, clean-up-failed flag), and its preservation by every op the
discipline admits.  Helper lemmas for Props/C16 and Props/C17.
-/
import Octave.Spec.Discipline
namespace Octave

/-- Side conditions on a call: the name `mkstemp` will pick is fresh, is not the target and is not
an ancestor of the target's directory; the target is not its own ancestor (i.e. is not the root). -/
structure CallOK (c : Call) (fs0 : Fs) : Prop where
  tmp_ne : c.tmpName ≠ c.target
  tmp_fresh : fs0 c.tmpName = none
  tmp_np : c.tmpName.isPrefixOf (parentOf c.target) = false
  tgt_np : c.target.isPrefixOf (parentOf c.target) = false

/-- The target holds the complete new text, durable, with the mode of the file it replaced, and (when
a base_hash was given) the file it replaced hashed to base_hash or there was none. -/
def Installed (S : Strict) (H : Data → Hash) (c : Call) (fs0 : Fs) (r : Regs) (fs : Fs) : Prop :=
  ∃ m sy, fs c.target = some (.file (c.canon r.base) m sy) ∧
    (S.atomic = true → sy = true ∧ ∀ d m0 sy0, fs0 c.target = some (.file d m0 sy0) → m = m0) ∧
    (S.cas = true → c.baseHash.isSome = true →
      fs0 c.target = none ∨ ∃ d m0 sy0, fs0 c.target = some (.file d m0 sy0) ∧ some (H d) = c.baseHash)

structure Inv (S : Strict) (H : Data → Hash) (c : Call) (fs0 : Fs) (a : Abs) (r : Regs) (fs : Fs) (cf : Bool) : Prop where
  frame : ∀ p, p ≠ c.target → p ≠ c.tmpName →
    fs p = fs0 p ∨ (p.isPrefixOf (parentOf c.target) = true ∧ fs0 p = none ∧ fs p = some .dir)
  clean : a.mutd = false → fs = fs0
  tgt : a.tmp ≠ .installed → fs c.target = fs0 c.target
  inst : a.tmp = .installed → Installed S H c fs0 r fs
  tnone : a.tmp = .none → r.tmp = none ∧ fs c.tmpName = none
  tsome : a.tmp ≠ .none → r.tmp = some c.tmpName
  tgone : a.tmp = .gone ∨ a.tmp = .installed → fs c.tmpName = none
  tlive : a.tmp = .live → ∃ d m sy, fs c.tmpName = some (.file d m sy) ∧
            (a.dat = .synced → d = c.canon r.base ∧ sy = true) ∧
            (a.dat = .flushed → d = c.canon r.base) ∧
            (a.dat = .empty ∨ a.dat = .buffered → d = []) ∧
            (a.chm = true → r.savedMode = some m)
  bufB : a.dat = .buffered → r.buf = c.canon r.base
  bufE : a.dat = .empty ∨ a.dat = .flushed ∨ a.dat = .synced → r.buf = []
  hp : r.hpath = if a.hOpen then some c.tmpName else none
  ho : a.hOpen = true → a.tmp = .live
  chmK : a.chm = true → a.modeK = .saved
  modeS : a.modeK = .saved → ∃ m, r.savedMode = some m ∧ ∀ d m0 sy, fs0 c.target = some (.file d m0 sy) → m = m0
  modeA : a.modeK = .absent → fs0 c.target = none
  modeN : a.modeK ≠ .saved → r.savedMode = none
  lastT : a.lastA = .targetExists → r.last = (fs c.target).isSome
  lastP : a.lastA = .tmpProbe → r.last = (fs c.tmpName).isSome
  lastF : a.lastA = .false_ → r.last = false
  cfI : a.cf = true → cf = true
  casR : a.cas = .reread → ∃ d m sy, fs0 c.target = some (.file d m sy) ∧ r.verify = d
  casV : a.cas = .verified → ∃ d m sy, fs0 c.target = some (.file d m sy) ∧ r.verify = d ∧ some (H d) = c.baseHash
  casA : a.cas = .absent → fs0 c.target = none
  exI : a.exProbe = true → r.existed = (fs0 c.target).isSome

theorem Inv.init (S : Strict) (H : Data → Hash) (c : Call) (fs0 : Fs) (hc : CallOK c fs0) : Inv S H c fs0 {} {} fs0 false := by
  constructor <;> simp [hc.tmp_fresh]

variable {S : Strict} {H : Data → Hash} {c : Call} {fs0 : Fs}

/-- Preservation by a step that leaves the file system alone (reads, failed ops). -/
theorem Inv.transfer {a a' : Abs} {r r' : Regs} {fs : Fs} {cf cf' : Bool}
    (hI : Inv S H c fs0 a r fs cf)
    (htmp : a'.tmp = a.tmp) (hho : a'.hOpen = a.hOpen) (hdat : a'.dat = a.dat ∨ a'.dat = .dirty) (hchm : a'.chm = a.chm)
    (hmk : (a'.modeK = a.modeK ∧ r'.savedMode = r.savedMode) ∨
           (a.tmp = .none ∧ a'.modeK = .saved ∧ ∃ m, r'.savedMode = some m ∧
              ∀ d m0 sy, fs0 c.target = some (.file d m0 sy) → m = m0))
    (hla : a'.lastA = .unknown ∨ (a'.lastA = .false_ ∧ r'.last = false) ∨
           (a'.lastA = .targetExists ∧ r'.last = (fs c.target).isSome) ∨
           (a'.lastA = .tmpProbe ∧ r'.last = (fs c.tmpName).isSome))
    (hcf : a'.cf = true → a.cf = true ∨ cf' = true) (hcf' : cf = true → cf' = true)
    (hmut : a.mutd = true → a'.mutd = true)
    (hcas : (a'.cas = a.cas ∧ r'.verify = r.verify) ∨
            (a'.cas = .reread ∧ ∃ d m sy, fs0 c.target = some (.file d m sy) ∧ r'.verify = d))
    (hex : a'.exProbe = a.exProbe)
    (rt : r'.tmp = r.tmp) (rh : r'.hpath = r.hpath) (rb : r'.buf = r.buf)
    (rba : r'.base = r.base ∨ (a.tmp = .none ∧ a.dat = .empty))
    (re : r'.existed = r.existed) :
    Inv S H c fs0 a' r' fs cf' := by
  constructor
  case frame => exact hI.frame
  case clean => intro hm; apply hI.clean; cases hx : a.mutd <;> simp_all
  case tgt => intro h1; exact hI.tgt (by simpa [htmp] using h1)
  case inst =>
    intro h1
    have h2 : a.tmp = .installed := by simpa [htmp] using h1
    have := hI.inst h2
    rcases rba with rba | ⟨h3, _⟩
    · simpa [Installed, rba] using this
    · simp [h3] at h2
  case tnone => intro h1; have := hI.tnone (by simpa [htmp] using h1); simpa [rt] using this
  case tsome => intro h1; have := hI.tsome (by simpa [htmp] using h1); simpa [rt] using this
  case tgone => intro h1; exact hI.tgone (by simpa [htmp] using h1)
  case tlive =>
    intro h1
    have h2 : a.tmp = .live := by simpa [htmp] using h1
    obtain ⟨d, m, sy, hx, h3, h4, h5, h6⟩ := hI.tlive h2
    have hb : r'.base = r.base := by
      rcases rba with rba | ⟨h7, _⟩
      · exact rba
      · simp [h7] at h2
    have hs : r'.savedMode = r.savedMode := by
      rcases hmk with ⟨_, h7⟩ | ⟨h7, _⟩
      · exact h7
      · simp [h7] at h2
    refine ⟨d, m, sy, hx, ?_, ?_, ?_, ?_⟩
    · intro hd; rw [hb]; apply h3; rcases hdat with hd' | hd' <;> simp_all
    · intro hd; rw [hb]; apply h4; rcases hdat with hd' | hd' <;> simp_all
    · intro hd; apply h5; rcases hdat with hd' | hd' <;> simp_all
    · intro hd; rw [hs]; apply h6; simpa [hchm] using hd
  case bufB =>
    intro hd
    have h2 : a.dat = .buffered := by rcases hdat with hd' | hd' <;> simp_all
    rcases rba with rba | ⟨_, h3⟩
    · rw [rb, rba]; exact hI.bufB h2
    · simp [h3] at h2
  case bufE => intro hd; rw [rb]; apply hI.bufE; rcases hdat with hd' | hd' <;> simp_all
  case hp => rw [rh, hho]; exact hI.hp
  case ho => intro h1; rw [htmp]; exact hI.ho (by simpa [hho] using h1)
  case chmK =>
    intro h1
    rcases hmk with ⟨h2, _⟩ | ⟨_, h2, _⟩
    · rw [h2]; exact hI.chmK (by simpa [hchm] using h1)
    · exact h2
  case modeS =>
    intro h1
    rcases hmk with ⟨h2, h3⟩ | ⟨_, _, h2⟩
    · rw [h3]; exact hI.modeS (by simpa [h2] using h1)
    · exact h2
  case modeA =>
    intro h1
    rcases hmk with ⟨h2, _⟩ | ⟨_, h2, _⟩
    · exact hI.modeA (by simpa [h2] using h1)
    · simp [h2] at h1
  case modeN =>
    intro h1
    rcases hmk with ⟨h2, h3⟩ | ⟨_, h2, _⟩
    · rw [h3]; exact hI.modeN (by simpa [h2] using h1)
    · simp [h2] at h1
  case lastT =>
    intro h1
    rcases hla with h2 | ⟨h2, _⟩ | ⟨_, h3⟩ | ⟨h2, _⟩
    · simp [h2] at h1
    · simp [h2] at h1
    · exact h3
    · simp [h2] at h1
  case lastP =>
    intro h1
    rcases hla with h2 | ⟨h2, _⟩ | ⟨h2, _⟩ | ⟨_, h3⟩
    · simp [h2] at h1
    · simp [h2] at h1
    · simp [h2] at h1
    · exact h3
  case lastF =>
    intro h1
    rcases hla with h2 | ⟨_, h3⟩ | ⟨h2, _⟩ | ⟨h2, _⟩
    · simp [h2] at h1
    · exact h3
    · simp [h2] at h1
    · simp [h2] at h1
  case cfI =>
    intro h1; rcases hcf h1 with h2 | h2
    · exact hcf' (hI.cfI h2)
    · exact h2
  case casR =>
    intro h1
    rcases hcas with ⟨h2, h3⟩ | ⟨_, h2⟩
    · rw [h3]; exact hI.casR (by simpa [h2] using h1)
    · exact h2
  case casV =>
    intro h1
    rcases hcas with ⟨h2, h3⟩ | ⟨h2, _⟩
    · rw [h3]; exact hI.casV (by simpa [h2] using h1)
    · simp [h2] at h1
  case casA =>
    intro h1
    rcases hcas with ⟨h2, _⟩ | ⟨h2, _⟩
    · exact hI.casA (by simpa [h2] using h1)
    · simp [h2] at h1
  case exI => intro h1; rw [re]; exact hI.exI (by simpa [hex] using h1)


/-! ### Preservation by the mutating ops -/

theorem mkdirP_other (fs : Fs) (d q : Path) (h : q.isPrefixOf d = false) : fs.mkdirP d q = fs q := by
  simp [Fs.mkdirP, h]

theorem mkdirP_cases (fs : Fs) (d q : Path) :
    fs.mkdirP d q = fs q ∨ (q.isPrefixOf d = true ∧ fs q = none ∧ fs.mkdirP d q = some .dir) := by
  unfold Fs.mkdirP
  by_cases h : q.isPrefixOf d = true
  · simp only [h, if_true]
    cases hq : fs q <;> simp
  · simp [h]

theorem inv_mkdirP {a : Abs} {r r' : Regs} {fs fs' : Fs} {cf : Bool} (hc : CallOK c fs0)
    (hI : Inv S H c fs0 a r fs cf) (hd : doOp c (.mkdirP .parent) r fs = .ok (r', fs')) :
    Inv S H c fs0 { a with lastA := .unknown, mutd := true } r' fs' cf := by
  simp only [doOp, locPath] at hd
  split at hd
  · injection hd with hd; injection hd with hr hf; subst hr hf
    have ht := mkdirP_other fs (parentOf c.target) c.target hc.tgt_np
    have hx := mkdirP_other fs (parentOf c.target) c.tmpName hc.tmp_np
    obtain ⟨frame, clean, tgt, inst, tnone, tsome, tgone, tlive, bufB, bufE, hp, ho, chmK, modeS, modeA, modeN, lastT, lastP, lastF, cfI, casR, casV, casA, exI⟩ := hI
    constructor
    case frame =>
      intro p h1 h2
      rcases mkdirP_cases fs (parentOf c.target) p with h3 | ⟨hpre, h3, h4⟩
      · rw [h3]; exact frame p h1 h2
      · rcases frame p h1 h2 with h5 | ⟨_, _, h6⟩
        · right; exact ⟨hpre, by rw [← h5]; exact h3, h4⟩
        · rw [h3] at h6; cases h6
    case inst => intro h1; have := inst h1; simpa [Installed, ht] using this
    all_goals (simp only [ht, hx]; first | assumption | grind)
  · cases hd

theorem inv_mkstemp {a : Abs} {r r' : Regs} {fs fs' : Fs} {cf : Bool} (hc : CallOK c fs0)
    (hI : Inv S H c fs0 a r fs cf) (h0 : a.tmp = .none) (hd : doOp c (.mkstemp .parent) r fs = .ok (r', fs')) :
    Inv S H c fs0 { a with lastA := .unknown, mutd := true, tmp := .live, hOpen := true, dat := .empty, chm := false } r' fs' cf := by
  simp only [doOp, locPath] at hd
  split at hd
  · split at hd
    · injection hd with hd; injection hd with hr hf; subst hr hf
      have hne := hc.tmp_ne
      have hne' : c.target ≠ c.tmpName := fun h => hne h.symm
      obtain ⟨frame, clean, tgt, inst, tnone, tsome, tgone, tlive, bufB, bufE, hp, ho, chmK, modeS, modeA, modeN, lastT, lastP, lastF, cfI, casR, casV, casA, exI⟩ := hI
      constructor
      case frame => intro p h1 h2; simp only [Fs.set, h2, if_false]; exact frame p h1 h2
      case tgt => intro _; simp only [Fs.set, hne', if_false]; exact tgt (by simp [h0])
      case tlive => intro _; exact ⟨[], 384, false, by simp [Fs.set], by simp, by simp, by simp, by simp⟩
      all_goals (simp_all)
    · cases hd
  · cases hd

theorem inv_fchmod {a : Abs} {r r' : Regs} {fs fs' : Fs} {cf : Bool} (hc : CallOK c fs0)
    (hI : Inv S H c fs0 a r fs cf) (h1 : a.hOpen = true) (h2 : a.tmp = .live) (h3 : a.modeK = .saved)
    (hd : doOp c .fchmod r fs = .ok (r', fs')) :
    Inv S H c fs0 { a with lastA := .unknown, mutd := true, chm := true } r' fs' cf := by
  have hp := hI.hp
  simp only [h1, if_true] at hp
  obtain ⟨d, m, sy, hx, hsy, hfl, hem, hch⟩ := hI.tlive h2
  obtain ⟨m', hm', hm0⟩ := hI.modeS h3
  simp only [doOp, hp, hm', hx] at hd
  injection hd with hd; injection hd with hr hf; subst hr hf
  have hne := hc.tmp_ne
  have hne' : c.target ≠ c.tmpName := fun h => hne h.symm
  obtain ⟨frame, clean, tgt, inst, tnone, tsome, tgone, tlive, bufB, bufE, hp', ho, chmK, modeS, modeA, modeN, lastT, lastP, lastF, cfI, casR, casV, casA, exI⟩ := hI
  constructor
  case frame => intro p h4 h5; simp only [Fs.set, h5, if_false]; exact frame p h4 h5
  case tgt => intro h4; simp only [Fs.set, hne', if_false]; exact tgt h4
  case tlive => intro _; exact ⟨d, m', sy, by simp [Fs.set], hsy, hfl, hem, fun _ => hm'⟩
  case inst => intro h4; simp [h2] at h4
  case tgone => intro h4; simp [h2] at h4
  case tnone => intro h4; simp [h2] at h4
  all_goals (first | assumption | simp_all)

theorem inv_write {a : Abs} {r r' : Regs} {fs fs' : Fs} {cf : Bool}
    (hI : Inv S H c fs0 a r fs cf) (h1 : a.hOpen = true) (h2 : a.tmp = .live) (h3 : a.dat = .empty)
    (hd : doOp c (.write .canonical) r fs = .ok (r', fs')) :
    Inv S H c fs0 { a with lastA := .unknown, mutd := true, dat := .buffered } r' fs' cf := by
  have hp := hI.hp
  simp only [h1, if_true] at hp
  have hb := hI.bufE (Or.inl h3)
  simp only [doOp, hp, Option.isSome_some, if_true, writeData, hb, List.nil_append] at hd
  injection hd with hd; injection hd with hr hf; subst hr hf
  obtain ⟨frame, clean, tgt, inst, tnone, tsome, tgone, tlive, bufB, bufE, hp', ho, chmK, modeS, modeA, modeN, lastT, lastP, lastF, cfI, casR, casV, casA, exI⟩ := hI
  constructor
  case tlive =>
    intro _
    obtain ⟨d, m, sy, hx, hsy, hfl, hem, hch⟩ := tlive h2
    exact ⟨d, m, sy, hx, by simp, by simp, fun _ => hem (Or.inl h3), hch⟩
  case inst => intro h4; simp [h2] at h4
  all_goals (first | assumption | simp_all)

theorem inv_flush {a : Abs} {r r' : Regs} {fs fs' : Fs} {cf : Bool} (hc : CallOK c fs0)
    (hI : Inv S H c fs0 a r fs cf) (h1 : a.hOpen = true) (h2 : a.tmp = .live)
    (hd : doOp c .flush r fs = .ok (r', fs')) :
    Inv S H c fs0 { a with lastA := .unknown, mutd := true, dat := a.dat.afterFlush } r' fs' cf := by
  have hp := hI.hp
  simp only [h1, if_true] at hp
  obtain ⟨d, m, sy, hx, hsy, hfl, hem, hch⟩ := hI.tlive h2
  simp only [doOp, hp] at hd
  have hne := hc.tmp_ne
  have hne' : c.target ≠ c.tmpName := fun h => hne h.symm
  injection hd with hd; injection hd with hr hf; subst hr hf
  obtain ⟨frame, clean, tgt, inst, tnone, tsome, tgone, tlive, bufB, bufE, hp', ho, chmK, modeS, modeA, modeN, lastT, lastP, lastF, cfI, casR, casV, casA, exI⟩ := hI
  by_cases hb : r.buf = []
  · simp only [hb, if_true]
    constructor
    case tlive =>
      intro _
      refine ⟨d, m, sy, hx, ?_, ?_, ?_, hch⟩
      · cases hdat : a.dat <;> simp_all [DatA.afterFlush]
      · cases hdat : a.dat <;> simp_all [DatA.afterFlush]
      · cases hdat : a.dat <;> simp_all [DatA.afterFlush]
    case inst => intro h4; simp [h2] at h4
    case bufB => cases hdat : a.dat <;> simp_all [DatA.afterFlush]
    case bufE => simp
    all_goals (first | assumption | simp_all)
  · simp only [hb, if_false, flushTo, hx]
    constructor
    case frame => intro p h4 h5; simp only [Fs.set, h5, if_false]; exact frame p h4 h5
    case tgt => intro h4; simp only [Fs.set, hne', if_false]; exact tgt h4
    case tlive =>
      intro _
      refine ⟨d ++ r.buf, m, false, by simp [Fs.set], ?_, ?_, ?_, hch⟩
      · cases hdat : a.dat <;> simp_all [DatA.afterFlush]
      · cases hdat : a.dat <;> simp_all [DatA.afterFlush]
      · cases hdat : a.dat <;> simp_all [DatA.afterFlush]
    case inst => intro h4; simp [h2] at h4
    case tgone => intro h4; simp [h2] at h4
    case tnone => intro h4; simp [h2] at h4
    case bufB => cases hdat : a.dat <;> simp_all [DatA.afterFlush]
    case bufE => simp
    all_goals (first | assumption | simp_all)

theorem inv_fsync {a : Abs} {r r' : Regs} {fs fs' : Fs} {cf : Bool} (hc : CallOK c fs0)
    (hI : Inv S H c fs0 a r fs cf) (h1 : a.hOpen = true) (h2 : a.tmp = .live)
    (hd : doOp c .fsync r fs = .ok (r', fs')) :
    Inv S H c fs0 { a with lastA := .unknown, mutd := true, dat := a.dat.afterFsync } r' fs' cf := by
  have hp := hI.hp
  simp only [h1, if_true] at hp
  obtain ⟨d, m, sy, hx, hsy, hfl, hem, hch⟩ := hI.tlive h2
  simp only [doOp, hp, hx] at hd
  have hne := hc.tmp_ne
  have hne' : c.target ≠ c.tmpName := fun h => hne h.symm
  injection hd with hd; injection hd with hr hf; subst hr hf
  obtain ⟨frame, clean, tgt, inst, tnone, tsome, tgone, tlive, bufB, bufE, hp', ho, chmK, modeS, modeA, modeN, lastT, lastP, lastF, cfI, casR, casV, casA, exI⟩ := hI
  constructor
  case frame => intro p h4 h5; simp only [Fs.set, h5, if_false]; exact frame p h4 h5
  case tgt => intro h4; simp only [Fs.set, hne', if_false]; exact tgt h4
  case tlive =>
    intro _
    refine ⟨d, m, true, by simp [Fs.set], ?_, ?_, ?_, hch⟩
    · cases hdat : a.dat <;> simp_all [DatA.afterFsync]
    · cases hdat : a.dat <;> simp_all [DatA.afterFsync]
    · cases hdat : a.dat <;> simp_all [DatA.afterFsync]
  case inst => intro h4; simp [h2] at h4
  case tgone => intro h4; simp [h2] at h4
  case tnone => intro h4; simp [h2] at h4
  case bufB => cases hdat : a.dat <;> simp_all [DatA.afterFsync]
  case bufE => cases hdat : a.dat <;> simp_all [DatA.afterFsync]
  all_goals (first | assumption | simp_all)

theorem inv_close {a : Abs} {r r' : Regs} {fs fs' : Fs} {cf : Bool} (hc : CallOK c fs0)
    (hI : Inv S H c fs0 a r fs cf) (h1 : a.hOpen = true) (h2 : a.tmp = .live)
    (hd : doOp c .close r fs = .ok (r', fs')) :
    Inv S H c fs0 { a with lastA := .unknown, mutd := true, hOpen := false, dat := a.dat.afterFlush } r' fs' cf := by
  have hp := hI.hp
  simp only [h1, if_true] at hp
  obtain ⟨d, m, sy, hx, hsy, hfl, hem, hch⟩ := hI.tlive h2
  simp only [doOp, hp] at hd
  have hne := hc.tmp_ne
  have hne' : c.target ≠ c.tmpName := fun h => hne h.symm
  injection hd with hd; injection hd with hr hf; subst hr hf
  obtain ⟨frame, clean, tgt, inst, tnone, tsome, tgone, tlive, bufB, bufE, hp', ho, chmK, modeS, modeA, modeN, lastT, lastP, lastF, cfI, casR, casV, casA, exI⟩ := hI
  by_cases hb : r.buf = []
  · simp only [hb, if_true]
    constructor
    case tlive =>
      intro _
      refine ⟨d, m, sy, hx, ?_, ?_, ?_, hch⟩
      · cases hdat : a.dat <;> simp_all [DatA.afterFlush]
      · cases hdat : a.dat <;> simp_all [DatA.afterFlush]
      · cases hdat : a.dat <;> simp_all [DatA.afterFlush]
    case inst => intro h4; simp [h2] at h4
    case bufB => cases hdat : a.dat <;> simp_all [DatA.afterFlush]
    case bufE => simp
    case ho => simp
    case hp => simp
    all_goals (first | assumption | simp_all)
  · simp only [hb, if_false, flushTo, hx]
    constructor
    case frame => intro p h4 h5; simp only [Fs.set, h5, if_false]; exact frame p h4 h5
    case tgt => intro h4; simp only [Fs.set, hne', if_false]; exact tgt h4
    case tlive =>
      intro _
      refine ⟨d ++ r.buf, m, false, by simp [Fs.set], ?_, ?_, ?_, hch⟩
      · cases hdat : a.dat <;> simp_all [DatA.afterFlush]
      · cases hdat : a.dat <;> simp_all [DatA.afterFlush]
      · cases hdat : a.dat <;> simp_all [DatA.afterFlush]
    case inst => intro h4; simp [h2] at h4
    case tgone => intro h4; simp [h2] at h4
    case tnone => intro h4; simp [h2] at h4
    case bufB => cases hdat : a.dat <;> simp_all [DatA.afterFlush]
    case bufE => simp
    case ho => simp
    case hp => simp
    all_goals (first | assumption | simp_all)

theorem inv_unlink {a : Abs} {r r' : Regs} {fs fs' : Fs} {cf : Bool} (hc : CallOK c fs0)
    (hI : Inv S H c fs0 a r fs cf) (h2 : a.tmp = .live)
    (hd : doOp c (.unlink .temp) r fs = .ok (r', fs')) :
    Inv S H c fs0 { a with lastA := .unknown, mutd := true, tmp := .gone, hOpen := false } r' fs' cf := by
  obtain ⟨d, m, sy, hx, hsy, hfl, hem, hch⟩ := hI.tlive h2
  have ht := hI.tsome (by simp [h2])
  simp only [doOp, locPath, ht, hx] at hd
  have hne := hc.tmp_ne
  have hne' : c.target ≠ c.tmpName := fun h => hne h.symm
  injection hd with hd; injection hd with hr hf; subst hr hf
  obtain ⟨frame, clean, tgt, inst, tnone, tsome, tgone, tlive, bufB, bufE, hp', ho, chmK, modeS, modeA, modeN, lastT, lastP, lastF, cfI, casR, casV, casA, exI⟩ := hI
  constructor
  case frame => intro p h4 h5; simp only [Fs.set, h5, if_false]; exact frame p h4 h5
  case tgt => intro h4; simp only [Fs.set, hne', if_false]; exact tgt (by simp [h2])
  case tgone => intro _; simp [Fs.set]
  case hp => cases hh : a.hOpen <;> simp_all
  all_goals (first | assumption | simp_all)

theorem inv_replace {a : Abs} {r r' : Regs} {fs fs' : Fs} {cf : Bool} (hc : CallOK c fs0)
    (hI : Inv S H c fs0 a r fs cf) (h2 : a.tmp = .live)
    (h3 : a.dat = .synced ∨ (S.atomic = false ∧ a.dat = .flushed)) (h1 : a.hOpen = false)
    (h4 : S.atomic = false ∨ a.chm = true ∨ a.modeK = .absent)
    (h5 : S.cas = false ∨ c.baseHash.isSome = false ∨ a.cas = .verified ∨ a.cas = .absent)
    (hd : doOp c (.replace .temp .target) r fs = .ok (r', fs')) :
    Inv S H c fs0 { a with lastA := .unknown, mutd := true, tmp := .installed } r' fs' cf := by
  obtain ⟨d, m, sy, hx, hsy, hfl, hem, hch⟩ := hI.tlive h2
  have hd1 : d = c.canon r.base := by
    rcases h3 with h3 | ⟨_, h3⟩
    · exact (hsy h3).1
    · exact hfl h3
  subst hd1
  have ht := hI.tsome (by simp [h2])
  have hp := hI.hp
  simp only [h1] at hp
  simp only [doOp, locPath, ht, hx] at hd
  have hne := hc.tmp_ne
  have hne' : c.target ≠ c.tmpName := fun h => hne h.symm
  split at hd
  · cases hd
  · injection hd with hd; injection hd with hr hf; subst hr hf
    obtain ⟨frame, clean, tgt, inst, tnone, tsome, tgone, tlive, bufB, bufE, hp', ho, chmK, modeS, modeA, modeN, lastT, lastP, lastF, cfI, casR, casV, casA, exI⟩ := hI
    constructor
    case frame =>
      intro p h6 h7; simp only [Fs.set, h6, h7, if_false]; exact frame p h6 h7
    case inst =>
      intro _
      refine ⟨m, sy, by simp [Fs.set], ?_, ?_⟩
      · intro hat
        have hsyn : a.dat = .synced := by
          rcases h3 with h3 | ⟨h3, _⟩
          · exact h3
          · rw [hat] at h3; cases h3
        refine ⟨(hsy hsyn).2, ?_⟩
        intro d0 m0 sy0 h0
        rcases h4 with h4 | h4 | h4
        · rw [hat] at h4; cases h4
        · obtain ⟨m', hm', hm0⟩ := modeS (chmK h4)
          have := hch h4
          rw [hm'] at this
          injection this with this
          subst this
          exact hm0 d0 m0 sy0 h0
        · rw [modeA h4] at h0; cases h0
      · intro hcas hb
        rcases h5 with h5 | h5 | h5 | h5
        · rw [hcas] at h5; cases h5
        · rw [h5] at hb; cases hb
        · obtain ⟨d1, m1, sy1, e1, _, e3⟩ := casV h5
          exact Or.inr ⟨d1, m1, sy1, e1, e3⟩
        · exact Or.inl (casA h5)
    case tgone => intro _; simp [Fs.set, hne]
    case hp => simp [hp, h1]
    all_goals (first | assumption | simp_all)

/-! ### Failure of an op -/

theorem step_fail_shape {hb : Bool} {a aOk aFail : Abs} {o : Op} (hs : a.step S hb o = some (aOk, aFail)) :
    aFail.tmp = a.tmp ∧ aFail.hOpen = a.hOpen ∧ (aFail.dat = a.dat ∨ aFail.dat = .dirty) ∧ aFail.chm = a.chm ∧
    aFail.modeK = a.modeK ∧
    (aFail.lastA = .unknown ∨ (aFail.lastA = .false_ ∧ ∃ l, o = .osPathExists l)) ∧
    (aFail.cf = true → a.cf = true ∨ o.isCleanup = true) ∧
    (a.mutd = true → aFail.mutd = true) ∧ aFail.cas = a.cas ∧ aFail.exProbe = a.exProbe := by
  unfold Abs.step at hs
  split at hs <;> (try split at hs) <;> (try split at hs) <;>
    simp only [Option.some.injEq, Prod.mk.injEq, reduceCtorEq] at hs <;>
    (try (obtain ⟨rfl, rfl⟩ := hs)) <;> simp [Op.isCleanup]

theorem inv_fail {hb : Bool} {a aOk aFail : Abs} {o : Op} {r : Regs} {fs : Fs} {cf : Bool}
    (hI : Inv S H c fs0 a r fs cf) (hs : a.step S hb o = some (aOk, aFail)) :
    (∀ e, o.swallows = false → Inv S H c fs0 aFail { r with exc := some e } fs (cf || o.isCleanup)) ∧
    (o.swallows = true → Inv S H c fs0 aFail (swallowRegs o r) fs (cf || o.isCleanup)) := by
  obtain ⟨h1, h2, h3, h4, h5, h6, h7, h8, h9, h10⟩ := step_fail_shape hs
  constructor
  · intro e hsw
    refine hI.transfer h1 h2 h3 h4 (Or.inl ⟨h5, rfl⟩) ?_ ?_ (by intro h; simp [h]) h8 (Or.inl ⟨h9, rfl⟩) h10 rfl rfl rfl (Or.inl rfl) rfl
    · rcases h6 with h6 | ⟨_, l, rfl⟩
      · exact Or.inl h6
      · simp [Op.swallows] at hsw
    · intro h; rcases h7 h with h | h
      · exact Or.inl h
      · right; simp [h]
  · intro hsw
    have hr : (swallowRegs o r).tmp = r.tmp ∧ (swallowRegs o r).hpath = r.hpath ∧ (swallowRegs o r).buf = r.buf ∧
        (swallowRegs o r).base = r.base ∧ (swallowRegs o r).verify = r.verify ∧ (swallowRegs o r).savedMode = r.savedMode ∧
        (swallowRegs o r).existed = r.existed := by
      cases o <;> simp [swallowRegs]
    obtain ⟨e1, e2, e3, e4, e5, e6, e7⟩ := hr
    refine hI.transfer h1 h2 h3 h4 (Or.inl ⟨h5, e6⟩) ?_ ?_ (by intro h; simp [h]) h8 (Or.inl ⟨h9, e5⟩) h10 e1 e2 e3 (Or.inl e4) e7
    · rcases h6 with h6 | ⟨h6, l, rfl⟩
      · exact Or.inl h6
      · exact Or.inr (Or.inl ⟨h6, by simp [swallowRegs]⟩)
    · intro h; rcases h7 h with h | h
      · exact Or.inl h
      · right; simp [h]

/-! ### Success of an op -/

theorem inv_ok (hc : CallOK c fs0) {a aOk aFail : Abs} {o : Op} {r r' : Regs} {fs fs' : Fs} {cf : Bool}
    (hI : Inv S H c fs0 a r fs cf) (hs : a.step S c.baseHash.isSome o = some (aOk, aFail))
    (hd : doOp c o r fs = .ok (r', fs')) : Inv S H c fs0 aOk r' fs' cf := by
  cases o with
  | validatePath =>
    simp only [Abs.step, Option.some.injEq, Prod.mk.injEq] at hs
    obtain ⟨rfl, rfl⟩ := hs
    simp only [doOp] at hd
    injection hd with hd; injection hd with h1 h2; subst h1 h2
    exact hI.transfer rfl rfl (Or.inl rfl) rfl (Or.inl ⟨rfl, rfl⟩) (Or.inl rfl) (by simp; exact fun h => Or.inl h) (by simp) (by simp) (Or.inl ⟨rfl, rfl⟩) rfl rfl rfl rfl (Or.inl rfl) rfl
  | exists_ l =>
    cases l <;> simp only [Abs.step, Option.some.injEq, Prod.mk.injEq] at hs <;> obtain ⟨rfl, rfl⟩ := hs <;>
      simp only [doOp, locPath] at hd
    · injection hd with hd; injection hd with h1 h2; subst h1 h2
      exact hI.transfer rfl rfl (Or.inl rfl) rfl (Or.inl ⟨rfl, rfl⟩) (Or.inr (Or.inr (Or.inl ⟨rfl, rfl⟩))) (by simp; exact fun h => Or.inl h) (by simp) (by simp) (Or.inl ⟨rfl, rfl⟩) rfl rfl rfl rfl (Or.inl rfl) rfl
    · injection hd with hd; injection hd with h1 h2; subst h1 h2
      exact hI.transfer rfl rfl (Or.inl rfl) rfl (Or.inl ⟨rfl, rfl⟩) (Or.inl rfl) (by simp; exact fun h => Or.inl h) (by simp) (by simp) (Or.inl ⟨rfl, rfl⟩) rfl rfl rfl rfl (Or.inl rfl) rfl
    · split at hd
      · cases hd
      · injection hd with hd; injection hd with h1 h2; subst h1 h2
        exact hI.transfer rfl rfl (Or.inl rfl) rfl (Or.inl ⟨rfl, rfl⟩) (Or.inl rfl) (by simp; exact fun h => Or.inl h) (by simp) (by simp) (Or.inl ⟨rfl, rfl⟩) rfl rfl rfl rfl (Or.inl rfl) rfl
  | osPathExists l =>
    cases l <;> simp only [Abs.step, reduceCtorEq] at hs
    split at hs
    · cases hs
    · rename_i hne
      simp only [Option.some.injEq, Prod.mk.injEq] at hs
      obtain ⟨rfl, rfl⟩ := hs
      have ht := hI.tsome hne
      simp only [doOp, locPath, ht] at hd
      injection hd with hd; injection hd with h1 h2; subst h1 h2
      exact hI.transfer rfl rfl (Or.inl rfl) rfl (Or.inl ⟨rfl, rfl⟩) (Or.inr (Or.inr (Or.inr ⟨rfl, rfl⟩))) (by simp; exact fun h => Or.inl h) (by simp) (by simp) (Or.inl ⟨rfl, rfl⟩) rfl (by simp [ht]) rfl rfl (Or.inl rfl) rfl
  | isSymlink l =>
    simp only [Abs.step, Option.some.injEq, Prod.mk.injEq] at hs
    obtain ⟨rfl, rfl⟩ := hs
    simp only [doOp] at hd
    split at hd
    · cases hd
    · injection hd with hd; injection hd with h1 h2; subst h1 h2
      exact hI.transfer rfl rfl (Or.inl rfl) rfl (Or.inl ⟨rfl, rfl⟩) (Or.inl rfl) (by simp; exact fun h => Or.inl h) (by simp) (by simp) (Or.inl ⟨rfl, rfl⟩) rfl rfl rfl rfl (Or.inl rfl) rfl
  | stat l =>
    cases l <;> simp only [Abs.step, reduceCtorEq] at hs
    split at hs
    · rename_i h0
      simp only [Option.some.injEq, Prod.mk.injEq] at hs
      obtain ⟨rfl, rfl⟩ := hs
      have htg := hI.tgt (by simp [h0])
      simp only [doOp, locPath] at hd
      split at hd
      · rename_i d m sy hx
        injection hd with hd; injection hd with h1 h2; subst h1 h2
        refine hI.transfer rfl rfl (Or.inl rfl) rfl (Or.inr ⟨h0, rfl, m, rfl, ?_⟩) (Or.inl rfl) (by simp; exact fun h => Or.inl h) (by simp) (by simp) (Or.inl ⟨rfl, rfl⟩) rfl rfl rfl rfl (Or.inl rfl) rfl
        intro d0 m0 sy0 h1
        rw [← htg, hx] at h1
        injection h1 with h1; injection h1
      · rename_i _ n hnf hx
        injection hd with hd; injection hd with h1 h2; subst h1 h2
        refine hI.transfer rfl rfl (Or.inl rfl) rfl (Or.inr ⟨h0, rfl, 493, rfl, ?_⟩) (Or.inl rfl) (by simp; exact fun h => Or.inl h) (by simp) (by simp) (Or.inl ⟨rfl, rfl⟩) rfl rfl rfl rfl (Or.inl rfl) rfl
        intro d0 m0 sy0 h1
        rw [← htg, hx] at h1
        injection h1 with h1
        exact (hnf d0 m0 sy0 h1).elim
      · cases hd
    · cases hs
  | read l =>
    cases l <;> simp only [Abs.step, reduceCtorEq] at hs
    split at hs
    · rename_i h0
      simp only [Option.some.injEq, Prod.mk.injEq] at hs
      obtain ⟨rfl, rfl⟩ := hs
      simp only [doOp, locPath] at hd
      split at hd
      · injection hd with hd; injection hd with h1 h2; subst h1 h2
        exact hI.transfer rfl rfl (Or.inl rfl) rfl (Or.inl ⟨rfl, rfl⟩) (Or.inl rfl) (by simp; exact fun h => Or.inl h) (by simp) (by simp) (Or.inl ⟨rfl, rfl⟩) rfl rfl rfl rfl (Or.inr h0) rfl
      · cases hd
      · cases hd
    · cases hs
  | reread l =>
    cases l <;> simp only [Abs.step, reduceCtorEq] at hs
    split at hs
    · cases hs
    · rename_i h0
      simp only [Option.some.injEq, Prod.mk.injEq] at hs
      obtain ⟨rfl, rfl⟩ := hs
      have htg := hI.tgt h0
      simp only [doOp, locPath] at hd
      split at hd
      · rename_i d m sy hx
        injection hd with hd; injection hd with h1 h2; subst h1 h2
        exact hI.transfer rfl rfl (Or.inl rfl) rfl (Or.inl ⟨rfl, rfl⟩) (Or.inl rfl) (by simp; exact fun h => Or.inl h) (by simp) (by simp) (Or.inr ⟨rfl, d, m, sy, by rw [← htg]; exact hx, rfl⟩) rfl rfl rfl rfl (Or.inl rfl) rfl
      · cases hd
      · cases hd
  | mkdirP l =>
    cases l <;> simp only [Abs.step, reduceCtorEq] at hs
    simp only [Option.some.injEq, Prod.mk.injEq] at hs
    obtain ⟨rfl, rfl⟩ := hs
    exact inv_mkdirP hc hI hd
  | mkstemp l =>
    cases l <;> simp only [Abs.step, reduceCtorEq] at hs
    split at hs
    · rename_i h0
      simp only [Option.some.injEq, Prod.mk.injEq] at hs
      obtain ⟨rfl, rfl⟩ := hs
      exact inv_mkstemp hc hI h0 hd
    · cases hs
  | fchmod =>
    simp only [Abs.step] at hs
    split at hs
    · rename_i h0
      simp only [Option.some.injEq, Prod.mk.injEq] at hs
      obtain ⟨rfl, rfl⟩ := hs
      exact inv_fchmod hc hI h0.1 h0.2.1 h0.2.2 hd
    · cases hs
  | fdopen =>
    simp only [Abs.step] at hs
    split at hs
    · simp only [Option.some.injEq, Prod.mk.injEq] at hs
      obtain ⟨rfl, rfl⟩ := hs
      simp only [doOp] at hd
      split at hd
      · injection hd with hd; injection hd with h1 h2; subst h1 h2
        exact hI.transfer rfl rfl (Or.inl rfl) rfl (Or.inl ⟨rfl, rfl⟩) (Or.inl rfl) (by simp; exact fun h => Or.inl h) (by simp) (by simp) (Or.inl ⟨rfl, rfl⟩) rfl rfl rfl rfl (Or.inl rfl) rfl
      · cases hd
    · cases hs
  | write s =>
    cases s <;> simp only [Abs.step, reduceCtorEq] at hs
    split at hs
    · rename_i h0
      simp only [Option.some.injEq, Prod.mk.injEq] at hs
      obtain ⟨rfl, rfl⟩ := hs
      exact inv_write hI h0.1 h0.2.1 h0.2.2 hd
    · cases hs
  | flush =>
    simp only [Abs.step] at hs
    split at hs
    · rename_i h0
      simp only [Option.some.injEq, Prod.mk.injEq] at hs
      obtain ⟨rfl, rfl⟩ := hs
      exact inv_flush hc hI h0.1 h0.2 hd
    · cases hs
  | fsync =>
    simp only [Abs.step] at hs
    split at hs
    · rename_i h0
      simp only [Option.some.injEq, Prod.mk.injEq] at hs
      obtain ⟨rfl, rfl⟩ := hs
      exact inv_fsync hc hI h0.1 h0.2 hd
    · cases hs
  | close =>
    simp only [Abs.step] at hs
    split at hs
    · rename_i h0
      split at hs
      · rename_i h1
        simp only [Option.some.injEq, Prod.mk.injEq] at hs
        obtain ⟨rfl, rfl⟩ := hs
        exact inv_close hc hI h0 h1 hd
      · cases hs
    · rename_i h0
      simp only [Option.some.injEq, Prod.mk.injEq] at hs
      obtain ⟨rfl, rfl⟩ := hs
      have hp := hI.hp
      simp only [h0] at hp
      simp only [doOp, hp] at hd
      injection hd with hd; injection hd with h1 h2; subst h1 h2
      exact hI.transfer rfl rfl (Or.inl rfl) rfl (Or.inl ⟨rfl, rfl⟩) (Or.inl rfl) (by simp; exact fun h => Or.inl h) (by simp) (by simp) (Or.inl ⟨rfl, rfl⟩) rfl rfl rfl rfl (Or.inl rfl) rfl
  | unlink l =>
    cases l <;> simp only [Abs.step, reduceCtorEq] at hs
    split at hs
    · rename_i h0
      simp only [Option.some.injEq, Prod.mk.injEq] at hs
      obtain ⟨rfl, rfl⟩ := hs
      exact inv_unlink hc hI h0 hd
    · cases hs
  | replace s d =>
    cases s <;> cases d <;> simp only [Abs.step, reduceCtorEq] at hs
    split at hs
    · rename_i h0
      simp only [Option.some.injEq, Prod.mk.injEq] at hs
      obtain ⟨rfl, rfl⟩ := hs
      exact inv_replace hc hI h0.1 h0.2.1 h0.2.2.1 (by simpa using h0.2.2.2.1) (by simpa using h0.2.2.2.2) hd
    · cases hs
  | openW l => simp [Abs.step] at hs
  | chmod l => simp [Abs.step] at hs
  | other m =>
    cases m <;> simp only [Abs.step, reduceCtorEq] at hs
    simp only [Option.some.injEq, Prod.mk.injEq] at hs
    obtain ⟨rfl, rfl⟩ := hs
    simp only [doOp] at hd
    injection hd with hd; injection hd with h1 h2; subst h1 h2
    exact hI.transfer rfl rfl (Or.inl rfl) rfl (Or.inl ⟨rfl, rfl⟩) (Or.inl rfl) (by simp; exact fun h => Or.inl h) (by simp) (by simp) (Or.inl ⟨rfl, rfl⟩) rfl rfl rfl rfl (Or.inl rfl) rfl

end Octave
