/-
C17 — placeholder while the harness is brought up (replaced by the real theorems).
-/
import Octave.Model.FsProg
import Octave.Gen.WriteOps
namespace Octave.C17
open Octave

theorem gen_no_awaits : Gen.awaitsInExecute = [] := by decide

end Octave.C17
