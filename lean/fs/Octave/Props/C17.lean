/-
C17 — base_hash is a real compare-and-swap; failed and dry calls change nothing.

Sequential part: every call of a disciplined entry point refines the one-register CAS specification
(`C17_step`), hence so does every history of calls and external modifications, of any length
(`C17_history`, by induction); `corrections_only` leaves the file system exactly as it was
(`C17_dry_unchanged`); an error leaves the target and every other file exactly as they were and no
temp file (`C17_error_unchanged`).  Generic over any program with the discipline; the generated
programs have it (`C16.gen_*`).
-/
import Octave.Lemmas.Run
import Octave.Lemmas.Sched
import Octave.Spec.Register
import Octave.Lemmas.Examples
import Octave.Gen.WriteOps
namespace Octave.C17
open Octave

variable (H : Data → Hash)

/-- One call of the tool on a healthy file system (no crash, no injected fault). -/
def toolStep (s : Stmt) (fs : Fs) (c : Call) : Out := exec H s c {} fs

/-- Summary of a fault-free call. -/
theorem toolStep_summary (s : Stmt) (c : Call) (fs : Fs) (hc : CallOK c fs) (hd : s.disciplined .c17 c.params = true) :
    (toolStep H s fs c).st.fs c.tmpName = none ∧
    (∀ p, p ≠ c.target → p ≠ c.tmpName →
      (toolStep H s fs c).st.fs p = fs p ∨
        (p.isPrefixOf (parentOf c.target) = true ∧ fs p = none ∧ (toolStep H s fs c).st.fs p = some .dir)) ∧
    Reg.allowed H c (absReg c.target fs) (toolStep H s fs c).res (absReg c.target (toolStep H s fs c).st.fs) := by
  have hp := exec_post .c17 H s c {} fs hc hd
  have hcf := exec_cf .c17 H s c {} fs hc hd (fun _ => rfl)
  have hnc := exec_not_crashed .c17 H s c {} fs hc hd rfl
  unfold toolStep
  unfold Post at hp
  generalize exec H s c {} fs = out at hp hcf hnc ⊢
  rcases out with ⟨res, st⟩
  simp only at hcf hnc hp ⊢
  have herr : ∀ a, Inv .c17 H c fs a st.regs st.fs st.cf → a.errOk = true →
      st.fs c.tmpName = none ∧ st.fs c.target = fs c.target := by
    intro a hI h1
    refine ⟨?_, hI.tgt ?_⟩
    · cases ht : a.tmp with
      | none => exact (hI.tnone ht).2
      | gone => exact hI.tgone (Or.inl ht)
      | installed => simp [Abs.errOk, ht] at h1
      | live =>
        simp only [Abs.errOk, ht, Bool.or_eq_true, Bool.and_eq_true, decide_eq_true_eq, reduceCtorEq, false_or, true_and] at h1
        have := hI.cfI h1
        rw [hcf] at this
        cases this
    · intro h; simp [Abs.errOk, h] at h1
  cases res with
  | crashed => exact absurd rfl hnc
  | ok h =>
    obtain ⟨a, hI, h1, h2⟩ := hp
    by_cases hdry : c.dry = true
    · simp only [hdry, if_true] at h2
      have hfs := hI.clean h2.1
      refine ⟨(hI.tnone h2.2).2, hI.frame, ?_⟩
      refine ⟨fun h' _ hd' => ?_, fun h' _ _ => ?_, fun code hres => ?_, fun hres => ?_⟩
      · rw [hdry] at hd'; cases hd'
      · simp only [hfs]
      · cases hres
      · cases hres
    · simp only [hdry] at h2
      have h3 : a.tmp = .installed := by simpa using h2
      obtain ⟨m, sy, e1, _, e3⟩ := hI.inst h3
      have e3 := e3 rfl
      refine ⟨hI.tgone (Or.inr h3), hI.frame, ?_⟩
      refine ⟨fun h' hres _ => ?_, fun h' _ hd' => ?_, fun code hres => ?_, fun hres => ?_⟩
      · injection hres with hres
        subst hres
        refine ⟨⟨c.canon st.regs.base, ?_, h1⟩, ?_⟩
        · simp [absReg, Fs.dataAt, e1]
        · intro hb
          rcases e3 hb with e | ⟨d, m0, sy, e, e'⟩
          · left; simp [absReg, Fs.dataAt, e]
          · right; exact ⟨d, by simp [absReg, Fs.dataAt, e], e'⟩
      · exact absurd hd' hdry
      · cases hres
      · cases hres
  | err code =>
    obtain ⟨a, hI, h1, _⟩ := hp
    obtain ⟨e1, e2⟩ := herr a hI h1
    refine ⟨e1, hI.frame, ?_⟩
    refine ⟨fun h' hres _ => ?_, fun h' hres _ => ?_, fun code _ => ?_, fun hres => ?_⟩
    · cases hres
    · cases hres
    · simp [absReg, Fs.dataAt, e2]
    · cases hres
  | raised =>
    obtain ⟨a, hI, h1, _⟩ := hp
    obtain ⟨e1, e2⟩ := herr a hI h1
    refine ⟨e1, hI.frame, ?_⟩
    refine ⟨fun h' hres _ => ?_, fun h' hres _ => ?_, fun code hres => ?_, fun _ => ?_⟩
    · cases hres
    · cases hres
    · cases hres
    · simp [absReg, Fs.dataAt, e2]

/-- Error ⇒ clean, for the clauses C17 needs (same statement as `C16.C16_error_clean`). -/
theorem error_clean (s : Stmt) (c : Call) (w : World) (fs : Fs) (hc : CallOK c fs)
    (hd : s.disciplined .c17 c.params = true)
    (herr : (∃ code, (exec H s c w fs).res = .err code) ∨ (exec H s c w fs).res = .raised)
    (hcf : (exec H s c w fs).st.cf = false) :
    (exec H s c w fs).st.fs c.target = fs c.target ∧
    (exec H s c w fs).st.fs c.tmpName = none ∧
    ∀ p, p ≠ c.target → p ≠ c.tmpName →
      (exec H s c w fs).st.fs p = fs p ∨
        (p.isPrefixOf (parentOf c.target) = true ∧ fs p = none ∧ (exec H s c w fs).st.fs p = some .dir) := by
  have hp := exec_post .c17 H s c w fs hc hd
  unfold Post at hp
  generalize exec H s c w fs = out at hp herr hcf ⊢
  rcases out with ⟨res, st⟩
  have key : ∀ a, Inv .c17 H c fs a st.regs st.fs st.cf → a.errOk = true →
      st.fs c.target = fs c.target ∧ st.fs c.tmpName = none ∧
      ∀ p, p ≠ c.target → p ≠ c.tmpName →
        st.fs p = fs p ∨ (p.isPrefixOf (parentOf c.target) = true ∧ fs p = none ∧ st.fs p = some .dir) := by
    intro a hI h1
    refine ⟨hI.tgt ?_, ?_, hI.frame⟩
    · intro h; simp [Abs.errOk, h] at h1
    · cases ht : a.tmp with
      | none => exact (hI.tnone ht).2
      | gone => exact hI.tgone (Or.inl ht)
      | installed => simp [Abs.errOk, ht] at h1
      | live =>
        simp only [Abs.errOk, ht, Bool.or_eq_true, Bool.and_eq_true, decide_eq_true_eq, reduceCtorEq, false_or, true_and] at h1
        have := hI.cfI h1
        simp only at hcf
        rw [hcf] at this
        cases this
  cases res with
  | crashed => rcases herr with ⟨_, h⟩ | h <;> cases h
  | ok h => rcases herr with ⟨_, h⟩ | h <;> cases h
  | err code => obtain ⟨a, hI, h1, _⟩ := hp; exact key a hI h1
  | raised => obtain ⟨a, hI, h1, _⟩ := hp; exact key a hI h1

/-- **C17_step.**  A call refines one step of the register specification: with `base_hash = some h`
and the file present, the file changes only if its text hashes to `h`; dry, failed and raising calls
leave it alone; a success installs a text whose hash is the returned `canonical_hash`. -/
theorem C17_step (s : Stmt) (c : Call) (fs : Fs) (hc : CallOK c fs) (hd : s.disciplined .c17 c.params = true) :
    Reg.allowed H c (absReg c.target fs) (toolStep H s fs c).res (absReg c.target (toolStep H s fs c).st.fs) :=
  (toolStep_summary H s c fs hc hd).2.2

/-- A stale base_hash never installs (the CAS clause in its usual form). -/
theorem C17_stale_rejected (s : Stmt) (c : Call) (fs : Fs) (hc : CallOK c fs) (hd : s.disciplined .c17 c.params = true)
    (d : Data) (m : Nat) (sy : Bool) (h : Hash) (hfile : fs c.target = some (.file d m sy))
    (hb : c.baseHash = some h) (hne : H d ≠ h) (hdry : c.dry = false) :
    (∀ h', (toolStep H s fs c).res ≠ .ok h') ∧ (toolStep H s fs c).st.fs c.target = fs c.target := by
  have ha := C17_step H s c fs hc hd
  have hreg : absReg c.target fs = some d := by simp [absReg, Fs.dataAt, hfile]
  rw [hreg] at ha
  have hno := Reg.stale_not_installed ha hb hne hdry
  refine ⟨hno, ?_⟩
  have hcf := exec_cf .c17 H s c {} fs hc hd (fun _ => rfl)
  have hnc := exec_not_crashed .c17 H s c {} fs hc hd rfl
  cases hres : (toolStep H s fs c).res with
  | ok h' => exact absurd hres (hno h')
  | err code => exact (error_clean H s c {} fs hc hd (Or.inl ⟨code, hres⟩) hcf).1
  | raised => exact (error_clean H s c {} fs hc hd (Or.inr hres) hcf).1
  | crashed => exact absurd hres hnc

/-! ### Histories of any length -/

/-- An external modification: somebody else rewrites the target (keeping its mode) or deletes it. -/
def extFs (t : Path) (fs : Fs) : Option Data → Fs
  | none => fs.set t none
  | some d => fs.set t (some (.file d (match fs t with | some (.file _ m _) => m | _ => 420) true))

/-- The implementation run over a history: the list of answers and the final file system. -/
def runHist (s : Stmt) (t : Path) : Fs → List HStep → Fs × List Result
  | fs, [] => (fs, [])
  | fs, .call c :: rest =>
      let out := toolStep H s fs c
      ((runHist s t out.st.fs rest).1, out.res :: (runHist s t out.st.fs rest).2)
  | fs, .ext d :: rest => runHist s t (extFs t fs d) rest

/-- Static side conditions on the calls of a history on target `t`. -/
def CallStatic (s : Stmt) (t : Path) (c : Call) : Prop :=
  c.target = t ∧ s.disciplined .c17 c.params = true ∧ c.tmpName ≠ t ∧
  c.tmpName.isPrefixOf (parentOf t) = false ∧ t.isPrefixOf (parentOf t) = false

def HistStatic (s : Stmt) (t : Path) : List HStep → Prop
  | [] => True
  | .call c :: rest => CallStatic s t c ∧ HistStatic s t rest
  | .ext _ :: rest => HistStatic s t rest

/-- The temp names the calls of the history will use are free. -/
def HistFresh (fs : Fs) : List HStep → Prop
  | [] => True
  | .call c :: rest => fs c.tmpName = none ∧ HistFresh fs rest
  | .ext _ :: rest => HistFresh fs rest

theorem histFresh_mono (s : Stmt) (t : Path) (fs fs' : Fs) (steps : List HStep) (hs : HistStatic s t steps)
    (h : ∀ x, x ≠ t → x.isPrefixOf (parentOf t) = false → fs x = none → fs' x = none)
    (hf : HistFresh fs steps) : HistFresh fs' steps := by
  induction steps with
  | nil => trivial
  | cons st rest ih =>
    cases st with
    | call c =>
      obtain ⟨⟨_, _, h1, h2, _⟩, hs'⟩ := hs
      exact ⟨h _ h1 h2 hf.1, ih hs' hf.2⟩
    | ext d => exact ih hs hf

/-- **C17_history.**  For every history (any length) of calls and external modifications on one
target, the answers and the final register of the implementation are a run of the register
specification from the initial register. -/
theorem C17_history (s : Stmt) (t : Path) (steps : List HStep) :
    ∀ fs, HistStatic s t steps → HistFresh fs steps →
      Reg.runs H (absReg t fs) steps (runHist H s t fs steps).2 (absReg t (runHist H s t fs steps).1) := by
  induction steps with
  | nil => intro fs _ _; exact Reg.runs.nil _
  | cons st rest ih =>
    intro fs hs hf
    cases st with
    | call c =>
      obtain ⟨hst, hs'⟩ := hs
      obtain ⟨ht, hd, h1, h2, h3⟩ := hst
      have hc : CallOK c fs := ⟨by rw [ht]; exact h1, hf.1, by rw [ht]; exact h2, by rw [ht]; exact h3⟩
      obtain ⟨e1, e2, e3⟩ := toolStep_summary H s c fs hc hd
      simp only [runHist]
      rw [ht] at e3
      refine Reg.runs.call e3 (ih _ hs' ?_)
      apply histFresh_mono s t fs _ rest hs' _ hf.2
      intro x hx hpx hfx
      by_cases hxt : x = c.tmpName
      · rw [hxt]; exact e1
      · rcases e2 x (by rw [ht]; exact hx) hxt with e | ⟨e, _, _⟩
        · rw [e]; exact hfx
        · rw [ht, hpx] at e; cases e
    | ext d =>
      simp only [runHist]
      have hreg : absReg t (extFs t fs d) = d := by
        cases d <;> simp [absReg, Fs.dataAt, extFs]
      have := ih (extFs t fs d) hs (by
        apply histFresh_mono s t fs _ rest hs _ hf
        intro x hx _ hfx
        cases d <;> simp [extFs, Fs.set, hx, hfx])
      rw [hreg] at this
      exact Reg.runs.ext this

/-- **corrections_only changes nothing**: the file system after a dry call is the file system before. -/
theorem C17_dry_unchanged (s : Stmt) (c : Call) (w : World) (fs : Fs) (hc : CallOK c fs)
    (hd : s.disciplined .c17 c.params = true) (hdry : c.dry = true) (hw : w.crashAt = none) :
    (exec H s c w fs).st.fs = fs := by
  have hp := exec_post .c17 H s c w fs hc hd
  have hnc := exec_not_crashed .c17 H s c w fs hc hd hw
  unfold Post at hp
  generalize exec H s c w fs = out at hp hnc ⊢
  rcases out with ⟨res, st⟩
  simp only at hp hnc ⊢
  cases res with
  | crashed => exact absurd rfl hnc
  | ok h => obtain ⟨a, hI, _, h2⟩ := hp; simp only [hdry, if_true] at h2; exact hI.clean h2.1
  | err code => obtain ⟨a, hI, _, _, h2⟩ := hp; exact hI.clean (h2 hdry)
  | raised => obtain ⟨a, hI, _, h2⟩ := hp; exact hI.clean (h2 hdry)

/-- **status = error changes nothing**: on a healthy file system (no injected fault) a call that
answers an error — or lets an exception escape — leaves the target node (bytes, mode), and every other
path, exactly as they were, and no temp file; the only trace it may leave are directories that
`mkdir -p` created above the target (F35: reachable only under injected faults, see notes/C17.md). -/
theorem C17_error_unchanged (s : Stmt) (c : Call) (fs : Fs) (hc : CallOK c fs) (hd : s.disciplined .c17 c.params = true)
    (herr : (∃ code, (toolStep H s fs c).res = .err code) ∨ (toolStep H s fs c).res = .raised) :
    (toolStep H s fs c).st.fs c.target = fs c.target ∧ (toolStep H s fs c).st.fs c.tmpName = none ∧
    ∀ p, p ≠ c.target → p ≠ c.tmpName →
      (toolStep H s fs c).st.fs p = fs p ∨
        (p.isPrefixOf (parentOf c.target) = true ∧ fs p = none ∧ (toolStep H s fs c).st.fs p = some .dir) :=
  error_clean H s c {} fs hc hd herr (exec_cf .c17 H s c {} fs hc hd (fun _ => rfl))

/-! ### The generated programs have the compare-and-swap discipline (re-proved whenever the source changes) -/

set_option maxRecDepth 100000 in
theorem gen_writeTool_cas_disciplined : Disciplined .c17 Gen.writeToolStmt := by decide

set_option maxRecDepth 100000 in
theorem gen_atomicWrite_cas_disciplined : DisciplinedW .c17 Gen.atomicWriteStmt := by decide

set_option maxRecDepth 100000 in
theorem gen_cliWrite_cas_disciplined : DisciplinedW .c17 Gen.cliWriteStmt := by decide

/-- C17_history for WriteTool.execute as it is now. -/
theorem C17_history_writeTool (t : Path) (steps : List HStep) (fs : Fs)
    (hs : HistStatic Gen.writeToolStmt t steps) (hf : HistFresh fs steps) :
    Reg.runs H (absReg t fs) steps (runHist H Gen.writeToolStmt t fs steps).2
      (absReg t (runHist H Gen.writeToolStmt t fs steps).1) :=
  C17_history H Gen.writeToolStmt t steps fs hs hf

/-- Non-vacuity of `C17_history`: a history of three steps on the example file system — a stale write
(refused), an external modification, a write with the then-current hash (accepted). -/
def histEx : List HStep :=
  [.call { target := [1, 2], tmpName := [1, 7], baseHash := some "stale".toList, canon := fun _ => "x".toList },
   .ext (some "theirs".toList),
   .call { target := [1, 2], tmpName := [1, 8], baseHash := some "theirs".toList, canon := fun _ => "mine".toList }]

example : HistStatic Gen.writeToolStmt [1, 2] histEx ∧ HistFresh Ex.fsEx histEx := by
  refine ⟨⟨⟨rfl, ?_, by decide, by decide, by decide⟩, ⟨rfl, ?_, by decide, by decide, by decide⟩, trivial⟩, by decide, by decide, trivial⟩
  · exact gen_writeTool_cas_disciplined _ (allParams_complete _)
  · exact gen_writeTool_cas_disciplined _ (allParams_complete _)

example : (runHist Ex.Hid Gen.writeToolStmt [1, 2] Ex.fsEx histEx).2 = [.err .E_HASH, .ok "mine".toList] ∧
    absReg [1, 2] (runHist Ex.Hid Gen.writeToolStmt [1, 2] Ex.fsEx histEx).1 = some "mine".toList := by decide

/-! ### Two writers: the compare-and-swap is not atomic (F27) -/

set_option maxRecDepth 100000

def fsEx : Fs := Ex.fsEx
def Hid : Data → Hash := fun d => d

/-- Writers A and B hold the same base_hash (the hash of "old") for the same file. -/
def callA : Call :=
  { target := [1, 2], tmpName := [1, 8], mode := .content, baseHash := some "old".toList, canon := fun _ => "A".toList }
def callB : Call :=
  { target := [1, 2], tmpName := [1, 9], mode := .content, baseHash := some "old".toList, canon := fun _ => "B".toList }

def sysAB : Sys :=
  ⟨[{ call := callA, pc := Gen.writeToolStmt.toProg callA.params }, { call := callB, pc := Gen.writeToolStmt.toProg callB.params }],
   fsEx⟩

/-- … (re-read_A) (re-read_B) replace_A replace_B : A runs alone up to (not including) its `os.replace`, then B
does the same, then A runs to completion (it replaces), then B runs to completion (it replaces).  The positions are computed from the programs (the
fault-free solo trace), not pinned. -/
def scheduleF27 : List Nat :=
  List.replicate (Ex.idx (Ex.traceOf (exec Hid Gen.writeToolStmt callA {} fsEx)) (.replace .temp .target)) 0 ++
  List.replicate (Ex.idx (Ex.traceOf (exec Hid Gen.writeToolStmt callB {} fsEx)) (.replace .temp .target)) 1 ++
  List.replicate 40 0 ++ List.replicate 40 1

/-- **C17_two_writers_negative (F27).**  There is a schedule of the two generated programs in which both
writers, holding the same base_hash, answer success; the file ends up with B's text and A's update is
lost.  The re-check and `os.replace` are not one critical section.  (Re-confirmed on the real code by
tools/props/c17.py on every run.) -/
theorem C17_two_writers_negative :
    ∃ sched, ((runSched Hid sched sysAB).procs.map (fun p => p.result Hid)) = [some (.ok "A".toList), some (.ok "B".toList)] ∧
      (runSched Hid sched sysAB).fs.dataAt [1, 2] = some "B".toList :=
  ⟨scheduleF27, by decide⟩

/-- Non-vacuity of the positive side: when B starts after A has finished, B is refused with E_HASH. -/
example : ((runSched Hid (List.replicate 40 0 ++ List.replicate 40 1) sysAB).procs.map (fun p => p.result Hid))
    = [some (.ok "A".toList), some (.err .E_HASH)] := by decide

/-! ### N writers whose [re-read, replace] windows do not overlap -/

/-- N writers at the start of program `s`, with the ghosts of the instrumented semantics
(Lemmas/Sched.lean): `installers` (who installed, newest first), `texts` (what was installed), and
`overlap` — set when a writer's `os.replace` succeeds although somebody else installed after that
writer's last successful re-read of the target (a writer that never re-read counts from version 0). -/
def gInit (s : Stmt) (calls : List Call) (fs : Fs) : GSys :=
  { procs := calls.map (fun c => { p := { call := c, pc := s.toProg c.params } }), fs := fs }

theorem gInit_erase (s : Stmt) (calls : List Call) (fs : Fs) :
    (gInit s calls fs).erase = ⟨calls.map (fun c => { call := c, pc := s.toProg c.params }), fs⟩ := by
  simp [gInit, GSys.erase, List.map_map, Function.comp_def]

/-- **C17_two_writers_partial** (N writers).  Writers running any program with the CAS discipline on one
existing file, all holding the same base_hash `h`, pairwise distinct temp names.  In every schedule in
which no writer's `os.replace` succeeds after somebody else installed since that writer's re-read
(`overlap = false`: the [re-read, replace] windows do not overlap), and in which no installed text
hashes to `h` again (no ABA; collision-freeness on the relevant texts, as a hypothesis), **at most one
writer answers success** in the interleaved semantics `runSched`.
Partial: the hypothesis `overlap = false` is exactly what F27 violates; without it the statement is
false (`C17_two_writers_negative`). -/
theorem C17_two_writers_partial (s : Stmt) (calls : List Call) (fs : Fs) (t : Path) (h : Hash) (sched : List Nat)
    (hcalls : ∀ c ∈ calls, c.target = t ∧ WriterOK c ∧ c.baseHash = some h ∧ c.dry = false ∧
        s.disciplined .c17 c.params = true)
    (hdist : ∀ (i j : Nat) (ci cj : Call), i ≠ j → calls[i]? = some ci → calls[j]? = some cj → ci.tmpName ≠ cj.tmpName)
    (hfile : TFile fs t)
    (hno : (grun .c17 H t sched (gInit s calls fs)).overlap = false)
    (haba : ∀ d ∈ (grun .c17 H t sched (gInit s calls fs)).texts, H d ≠ h) :
    ∀ (i j : Nat) (pi pj : Proc), i ≠ j →
      (runSched H sched ⟨calls.map (fun c => { call := c, pc := s.toProg c.params }), fs⟩).procs[i]? = some pi →
      (runSched H sched ⟨calls.map (fun c => { call := c, pc := s.toProg c.params }), fs⟩).procs[j]? = some pj →
      ¬ ((∃ hi, pi.result H = some (.ok hi)) ∧ (∃ hj, pj.result H = some (.ok hj))) := by
  -- the invariant holds initially …
  have h0 : GInv .c17 H t h (gInit s calls fs) := by
    have look : ∀ (i : Nat) (gp : GProc), (gInit s calls fs).procs[i]? = some gp →
        ∃ c, calls[i]? = some c ∧ gp = { p := { call := c, pc := s.toProg c.params } } := by
      intro i gp hi
      simp only [gInit, List.getElem?_map, Option.map_eq_some_iff] at hi
      obtain ⟨c, e1, e2⟩ := hi
      exact ⟨c, e1, e2.symm⟩
    refine ⟨hfile, ?_, ?_, ?_, List.nodup_nil, ?_, ?_, ?_⟩
    · intro i gp hi
      obtain ⟨c, e1, e2⟩ := look i gp hi
      obtain ⟨c1, c2, c3, c4, c5⟩ := hcalls c (List.mem_of_getElem? e1)
      subst e2
      exact ⟨c1, c2, c3, c4, c5, J.init H c fs, Nat.le_refl _, by intro _ hc; simp at hc⟩
    · intro i j gi gj hij hi hj
      obtain ⟨ci, e1, e2⟩ := look i gi hi
      obtain ⟨cj, e3, e4⟩ := look j gj hj
      subst e2 e4
      exact hdist i j ci cj hij e1 e3
    · intro i gp hi hins
      obtain ⟨c, _, e2⟩ := look i gp hi
      subst e2
      simp at hins
    · intro i hi; cases hi
    · intro hv; simp [GSys.ver, gInit] at hv
    · intro _ hv; simp [GSys.ver, gInit] at hv
  -- … and along every schedule
  have hG := GInv.run (S := .c17) (H := H) rfl sched _ h0
  have her := grun_erase .c17 H t sched (gInit s calls fs)
  rw [gInit_erase] at her
  intro i j pi pj hij hi hj ⟨⟨hhi, ri⟩, ⟨hhj, rj⟩⟩
  rw [← her] at hi hj
  simp only [GSys.erase, List.getElem?_map, Option.map_eq_some_iff] at hi hj
  obtain ⟨gi, gi1, gi2⟩ := hi
  obtain ⟨gj, gj1, gj2⟩ := hj
  subst gi2 gj2
  have ii := hG.inst_mem i gi gi1 (result_ok_installed (hG.procs i gi gi1) hhi ri)
  have ij := hG.inst_mem j gj gj1 (result_ok_installed (hG.procs j gj gj1) hhj rj)
  have hv : (grun .c17 H t sched (gInit s calls fs)).ver ≥ 2 := two_le_length ii ij hij
  obtain ⟨d, d1, d2⟩ := hG.aba hno hv
  exact haba d d1 d2

/-- Non-vacuity: for the two writers of F27 under the *serial* schedule the hypotheses hold (no overlap,
the one installed text "A" does not hash to "old") — and indeed only A succeeds. -/
example : (grun .c17 Hid [1, 2] (List.replicate 40 0 ++ List.replicate 40 1) (gInit Gen.writeToolStmt [callA, callB] fsEx)).overlap = false ∧
    (grun .c17 Hid [1, 2] (List.replicate 40 0 ++ List.replicate 40 1) (gInit Gen.writeToolStmt [callA, callB] fsEx)).texts = ["A".toList] := by
  decide

/-- … and under the F27 schedule the hypothesis fails: `overlap = true`. -/
example : (grun .c17 Hid [1, 2] scheduleF27 (gInit Gen.writeToolStmt [callA, callB] fsEx)).overlap = true := by decide

/-! ### One event loop serves calls serially -/

/-- `WriteTool.execute` contains no await / async for / async with (extracted from the AST on every
run): as a coroutine it is one atomic segment. -/
theorem gen_no_await_in_execute : Gen.awaitsInExecute = [] := by decide

/-- An event loop: every task is a list of atomic segments (the code between two awaits); one turn runs
the next segment of the chosen task. -/
def loopStep {σ : Type} (tasks : List (List (σ → σ))) (i : Nat) (s : σ) : List (List (σ → σ)) × σ :=
  match tasks[i]? with
  | some (f :: rest) => (tasks.set i rest, f s)
  | _ => (tasks, s)

def loopRun {σ : Type} : List (List (σ → σ)) → List Nat → σ → σ
  | _, [], s => s
  | tasks, i :: is, s => loopRun (loopStep tasks i s).1 is (loopStep tasks i s).2

/-- The (first) segment of task `i`. -/
def seg {σ : Type} (tasks : List (List (σ → σ))) (i : Nat) (s : σ) : σ :=
  match tasks[i]? with
  | some (f :: _) => f s
  | _ => s

theorem foldl_seg_congr {σ : Type} (t1 t2 : List (List (σ → σ))) (idxs : List Nat)
    (h : ∀ j ∈ idxs, t1[j]? = t2[j]?) (s : σ) :
    idxs.foldl (fun s j => seg t1 j s) s = idxs.foldl (fun s j => seg t2 j s) s := by
  induction idxs generalizing s with
  | nil => rfl
  | cons j js ih =>
    simp only [List.foldl_cons]
    have hj : seg t1 j s = seg t2 j s := by unfold seg; rw [h j (by simp)]
    rw [hj]
    exact ih (fun k hk => h k (by simp [hk])) _

/-- **C17_serial_in_loop.**  If every task is a single atomic segment (no await inside `execute`), then
whatever the event loop's schedule, the effect is that of running whole calls one after another: there
is an order of distinct tasks whose sequential execution gives the same final state.  So two calls
served by one event loop never interleave; the race of F27 needs separate threads or processes. -/
theorem C17_serial_in_loop {σ : Type} (sched : List Nat) :
    ∀ (tasks : List (List (σ → σ))) (s : σ), (∀ t ∈ tasks, t.length ≤ 1) →
      ∃ idxs : List Nat, idxs.Nodup ∧ (∀ i ∈ idxs, ∃ f, tasks[i]? = some [f]) ∧
        loopRun tasks sched s = idxs.foldl (fun s i => seg tasks i s) s := by
  induction sched with
  | nil => intro tasks s _; exact ⟨[], List.nodup_nil, by simp, rfl⟩
  | cons i is ih =>
    intro tasks s hlen
    simp only [loopRun]
    cases hti : tasks[i]? with
    | none =>
      simp only [loopStep, hti]
      exact ih tasks s hlen
    | some t =>
      cases t with
      | nil =>
        simp only [loopStep, hti]
        exact ih tasks s hlen
      | cons f rest =>
        have hmem : (f :: rest) ∈ tasks := List.mem_of_getElem? hti
        have hrest : rest = [] := by
          have := hlen _ hmem
          cases rest with
          | nil => rfl
          | cons g gs => simp at this
        subst hrest
        simp only [loopStep, hti]
        have hlen' : ∀ t ∈ tasks.set i [], t.length ≤ 1 := by
          intro t ht
          rcases List.mem_or_eq_of_mem_set ht with h | h
          · exact hlen t h
          · subst h; simp
        obtain ⟨idxs, hnd, hall, heq⟩ := ih (tasks.set i []) (f s) hlen'
        have hi : i < tasks.length := by
          rcases List.getElem?_eq_some_iff.mp hti with ⟨h, _⟩
          exact h
        have hne : ∀ j ∈ idxs, j ≠ i := by
          intro j hj hji
          obtain ⟨g, hg⟩ := hall j hj
          rw [hji, List.getElem?_set_self hi] at hg
          cases hg
        refine ⟨i :: idxs, ?_, ?_, ?_⟩
        · exact List.nodup_cons.mpr ⟨fun h => hne i h rfl, hnd⟩
        · intro j hj
          rcases List.mem_cons.mp hj with h | h
          · subst h; exact ⟨f, hti⟩
          · obtain ⟨g, hg⟩ := hall j h
            rw [List.getElem?_set_ne (fun e => hne j h e.symm)] at hg
            exact ⟨g, hg⟩
        · rw [heq]
          simp only [List.foldl_cons]
          have hs : seg tasks i s = f s := by unfold seg; rw [hti]
          rw [hs]
          apply foldl_seg_congr
          intro j hj
          exact List.getElem?_set_ne (fun e => hne j hj e.symm)

/-- Non-vacuity: two single-segment tasks, schedule 1,0,1: task 1 runs whole, then task 0. -/
example : loopRun [[fun (n : Nat) => n + 1], [fun n => n * 10]] [1, 0, 1] 2 = 21 := by decide

end Octave.C17
