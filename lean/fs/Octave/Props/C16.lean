/-
C16 — Writes are all-or-nothing at every interruption point.

Property theorems only (the invariant and the induction live in Octave/Lemmas).  Every theorem is
generic: it holds for **any** structured program `s` that passes the decidable check
`s.disciplined .c16 c.params` (Spec/Discipline.lean; `.c16` = the clauses C16 needs, without the
compare-and-swap clause that belongs to C17), for all file systems `fs`, calls `c` (target, text to
write, base_hash, mode, dry-run flag, pure pipeline as functions), hash functions `H`, and worlds `w`
(crash point `crashAt`, crash inside an op `crashMid` with any `cut`, any set of injected faults
`fault : Nat → Option Errno`).  The generated programs of the three write paths pass the check by
`decide` (facts `gen_*` below), so the corollaries `*_writeTool`, `*_atomicWrite`, `*_cliWrite` hold
for the code as it is now; a harmless reordering of the source keeps them, a direct write to the
target, a replace before fsync, a missing unlink … makes the `decide` facts fail.

Model: Octave/Model/FsProg.lean (`run`): each op is one atomic transition that may fail; a crash
may happen before any op and inside `write`/`flush`/`close`/`mkdir -p`.
-/
import Octave.Lemmas.Run
import Octave.Lemmas.Examples
import Octave.Gen.WriteOps
namespace Octave.C16
open Octave

variable (H : Data → Hash)

/-- The complete new text: what the pure pipeline makes of the baseline the call read. -/
def newText (c : Call) (out : Out) : Data := c.canon out.st.regs.base

/-- **All or nothing.**  After *any* run — completed, failed, or killed at any point, under any
faults — the target holds exactly what it held before (same node: bytes, mode; or still absent), or
the complete new text, durable. -/
theorem C16_all_or_nothing (s : Stmt) (c : Call) (w : World) (fs : Fs) (hc : CallOK c fs)
    (hd : s.disciplined .c16 c.params = true) :
    (exec H s c w fs).st.fs c.target = fs c.target ∨
      ∃ m, (exec H s c w fs).st.fs c.target = some (.file (newText c (exec H s c w fs)) m true) := by
  have hp := exec_post .c16 H s c w fs hc hd
  unfold Post at hp
  generalize exec H s c w fs = out at hp ⊢
  rcases out with ⟨res, st⟩
  cases res with
  | crashed =>
    rcases hp with hp | ⟨m, sy, h1, h2, _⟩
    · exact Or.inl hp
    · obtain ⟨rfl, _⟩ := h2 rfl
      exact Or.inr ⟨m, h1⟩
  | ok h =>
    obtain ⟨a, hI, _, h2⟩ := hp
    by_cases hdry : c.dry = true
    · simp only [hdry, if_true] at h2
      exact Or.inl (by rw [hI.clean h2.1])
    · simp only [hdry] at h2
      obtain ⟨m, sy, h1, h3, _⟩ := hI.inst (by simpa using h2)
      obtain ⟨rfl, _⟩ := h3 rfl
      exact Or.inr ⟨m, h1⟩
  | err code =>
    obtain ⟨a, hI, h1, _⟩ := hp
    refine Or.inl (hI.tgt ?_)
    intro h; simp [Abs.errOk, h] at h1
  | raised =>
    obtain ⟨a, hI, h1, _⟩ := hp
    refine Or.inl (hI.tgt ?_)
    intro h; simp [Abs.errOk, h] at h1

/-- … also when the machine loses power right after: data that was not fsynced keeps only an
arbitrary prefix (`cut`), and still the target is its previous self or the complete new text.
(Hypothesis: the previous version of the target was itself durable.) -/
theorem C16_all_or_nothing_power_loss (s : Stmt) (c : Call) (w : World) (fs : Fs) (hc : CallOK c fs)
    (hd : s.disciplined .c16 c.params = true)
    (hdur : ∀ d m sy, fs c.target = some (.file d m sy) → sy = true) (cut : Path → Nat) :
    ((exec H s c w fs).st.fs.powerLoss cut) c.target = fs c.target ∨
      ∃ m, ((exec H s c w fs).st.fs.powerLoss cut) c.target = some (.file (newText c (exec H s c w fs)) m true) := by
  rcases C16_all_or_nothing H s c w fs hc hd with h | ⟨m, h⟩
  · left
    unfold Fs.powerLoss
    rw [h]
    split
    · rename_i d m heq
      have := hdur d m false heq
      cases this
    · rfl
  · right
    refine ⟨m, ?_⟩
    unfold Fs.powerLoss
    rw [h]

/-- **Error ⇒ clean.**  When the call returns an error (or an exception escapes the entry point) and
no clean-up call (`os.path.exists(temp)`, `os.unlink(temp)`) itself failed, the target is exactly as
before, no temp file is left, and nothing else changed except directories `mkdir -p` created. -/
theorem C16_error_clean (s : Stmt) (c : Call) (w : World) (fs : Fs) (hc : CallOK c fs)
    (hd : s.disciplined .c16 c.params = true)
    (herr : (∃ code, (exec H s c w fs).res = .err code) ∨ (exec H s c w fs).res = .raised)
    (hcf : (exec H s c w fs).st.cf = false) :
    (exec H s c w fs).st.fs c.target = fs c.target ∧
    (exec H s c w fs).st.fs c.tmpName = none ∧
    ∀ p, p ≠ c.target → p ≠ c.tmpName →
      (exec H s c w fs).st.fs p = fs p ∨
        (p.isPrefixOf (parentOf c.target) = true ∧ fs p = none ∧ (exec H s c w fs).st.fs p = some .dir) := by
  have hp := exec_post .c16 H s c w fs hc hd
  unfold Post at hp
  generalize exec H s c w fs = out at hp herr hcf ⊢
  rcases out with ⟨res, st⟩
  have key : ∀ a, Inv .c16 H c fs a st.regs st.fs st.cf → a.errOk = true →
      st.fs c.target = fs c.target ∧ st.fs c.tmpName = none ∧
      ∀ p, p ≠ c.target → p ≠ c.tmpName →
        st.fs p = fs p ∨ (p.isPrefixOf (parentOf c.target) = true ∧ fs p = none ∧ st.fs p = some .dir) := by
    intro a hI h1
    refine ⟨hI.tgt ?_, ?_, hI.frame⟩
    · intro h; simp [Abs.errOk, h] at h1
    · cases ht : a.tmp with
      | none => exact (hI.tnone ht).2
      | gone => exact hI.tgone (Or.inl ht)
      | installed => simp [Abs.errOk, ht] at h1
      | live =>
        simp only [Abs.errOk, ht, Bool.or_eq_true, Bool.and_eq_true, decide_eq_true_eq, reduceCtorEq, false_or, true_and] at h1
        have := hI.cfI h1
        simp only at hcf
        rw [hcf] at this
        cases this
  cases res with
  | crashed => rcases herr with ⟨_, h⟩ | h <;> cases h
  | ok h => rcases herr with ⟨_, h⟩ | h <;> cases h
  | err code => obtain ⟨a, hI, h1, _⟩ := hp; exact key a hI h1
  | raised => obtain ⟨a, hI, h1, _⟩ := hp; exact key a hI h1

/-- **Success.**  When the call answers success with hash `h`: `h` is the hash of the new text; unless
it was a dry run the target holds exactly the new text (durable), an existing file kept its
permission bits, and no temp file is left. -/
theorem C16_success (s : Stmt) (c : Call) (w : World) (fs : Fs) (hc : CallOK c fs)
    (hd : s.disciplined .c16 c.params = true) (h : Hash) (hok : (exec H s c w fs).res = .ok h) :
    h = H (newText c (exec H s c w fs)) ∧
    (c.dry = false →
      (∃ m, (exec H s c w fs).st.fs c.target = some (.file (newText c (exec H s c w fs)) m true) ∧
            ∀ d m0 sy, fs c.target = some (.file d m0 sy) → m = m0) ∧
      (exec H s c w fs).st.fs c.tmpName = none) ∧
    (c.dry = true → (exec H s c w fs).st.fs = fs) := by
  have hp := exec_post .c16 H s c w fs hc hd
  unfold Post at hp
  unfold newText
  generalize exec H s c w fs = out at hp hok ⊢
  rcases out with ⟨res, st⟩
  simp only at hok
  subst hok
  obtain ⟨a, hI, h1, h2⟩ := hp
  refine ⟨h1, ?_, ?_⟩
  · intro hdry
    simp only [hdry] at h2
    have h3 : a.tmp = .installed := by simpa using h2
    obtain ⟨m, sy, e1, e2, _⟩ := hI.inst h3
    obtain ⟨hsy, e3⟩ := e2 rfl
    subst hsy
    exact ⟨⟨m, e1, e3⟩, hI.tgone (Or.inr h3)⟩
  · intro hdry
    simp only [hdry, if_true] at h2
    exact hI.clean h2.1

/-- **Validation first.**  When the call answers a validation error (path, arguments, missing file,
tokenize / parse / apply / emit), no mutating call was even attempted: the file system is untouched. -/
theorem C16_validate_first (s : Stmt) (c : Call) (w : World) (fs : Fs) (hc : CallOK c fs)
    (hd : s.disciplined .c16 c.params = true) (code : Code) (hv : code.isValidation = true)
    (herr : (exec H s c w fs).res = .err code) : (exec H s c w fs).st.fs = fs := by
  have hp := exec_post .c16 H s c w fs hc hd
  unfold Post at hp
  generalize exec H s c w fs = out at hp herr ⊢
  rcases out with ⟨res, st⟩
  simp only at herr
  subst herr
  obtain ⟨a, hI, _, h2, _⟩ := hp
  exact hI.clean (h2 rfl hv)

/-! ### The generated programs have the discipline (re-proved whenever the source changes) -/

set_option maxRecDepth 100000 in
theorem gen_writeTool_disciplined : Disciplined .c16 Gen.writeToolStmt := by decide

set_option maxRecDepth 100000 in
theorem gen_atomicWrite_disciplined : DisciplinedW .c16 Gen.atomicWriteStmt := by decide

set_option maxRecDepth 100000 in
theorem gen_cliWrite_disciplined : DisciplinedW .c16 Gen.cliWriteStmt := by decide

/-- Every file-system call inside the two path validators is read-only and guarded (a failure makes
the path invalid instead of raising): the composite op `validatePath` is a read that never raises. -/
theorem gen_validators_read_only_guarded :
    Gen.validatePathCalls.all (fun r => r.2.2.1 && r.2.2.2) = true := by decide

/-- The translator classified every file-system call it found. -/
theorem gen_no_unclassified : Gen.unclassified.length = 0 := by decide

/-! ### Corollaries for the code as it is -/

theorem C16_writeTool (c : Call) (w : World) (fs : Fs) (hc : CallOK c fs) :
    ((exec H Gen.writeToolStmt c w fs).st.fs c.target = fs c.target ∨
      ∃ m, (exec H Gen.writeToolStmt c w fs).st.fs c.target =
        some (.file (newText c (exec H Gen.writeToolStmt c w fs)) m true)) :=
  C16_all_or_nothing H _ c w fs hc (gen_writeTool_disciplined _ (allParams_complete _))

theorem C16_atomicWrite (c : Call) (w : World) (fs : Fs) (hc : CallOK c fs) (hdry : c.dry = false) :
    ((exec H Gen.atomicWriteStmt c w fs).st.fs c.target = fs c.target ∨
      ∃ m, (exec H Gen.atomicWriteStmt c w fs).st.fs c.target =
        some (.file (newText c (exec H Gen.atomicWriteStmt c w fs)) m true)) :=
  C16_all_or_nothing H _ c w fs hc (gen_atomicWrite_disciplined _ (allParams_complete _) hdry)

theorem C16_cliWrite (c : Call) (w : World) (fs : Fs) (hc : CallOK c fs) (hdry : c.dry = false) :
    ((exec H Gen.cliWriteStmt c w fs).st.fs c.target = fs c.target ∨
      ∃ m, (exec H Gen.cliWriteStmt c w fs).st.fs c.target =
        some (.file (newText c (exec H Gen.cliWriteStmt c w fs)) m true)) :=
  C16_all_or_nothing H _ c w fs hc (gen_cliWrite_disciplined _ (allParams_complete _) hdry)

/-! ### Non-vacuity: concrete runs of the generated program of WriteTool.execute -/

open Octave.Ex

/-- Ops of the fault-free run of the example call (the examples below address ops through it). -/
def trEx : List Op := traceOf (exec Hid Gen.writeToolStmt callEx {} fsEx)

/-- The hypotheses are satisfiable and the success clause is not vacuous: the run succeeds, installs
"new" with the old mode 0o640, leaves no temp file. -/
example : (exec Hid Gen.writeToolStmt callEx {} fsEx).res = .ok "new".toList ∧
    (exec Hid Gen.writeToolStmt callEx {} fsEx).st.fs [1, 2] = some (.file "new".toList 416 true) ∧
    (exec Hid Gen.writeToolStmt callEx {} fsEx).st.fs [1, 9] = none := by decide

/-- A kill in the middle of the temp-file write (after 2 characters): target untouched, a partial temp
file is left — all-or-nothing speaks about the target only. -/
example :
    let w : World := { crashAt := some (idx trEx (.write .canonical)), crashMid := true, cut := 2 }
    (exec Hid Gen.writeToolStmt callEx w fsEx).res = .crashed ∧
    (exec Hid Gen.writeToolStmt callEx w fsEx).st.fs [1, 2] = some (.file "old".toList 416 true) ∧
    (exec Hid Gen.writeToolStmt callEx w fsEx).st.fs.dataAt [1, 9] = some "ne".toList := by decide

/-- A kill right after `os.replace`: the complete new text is there. -/
example :
    let w : World := { crashAt := some (idx trEx (.replace .temp .target) + 1) }
    (exec Hid Gen.writeToolStmt callEx w fsEx).st.fs.dataAt [1, 2] = some "new".toList ∨
    (exec Hid Gen.writeToolStmt callEx w fsEx).res = .ok "new".toList := by decide

/-- A fault in `os.replace`: E_WRITE, target untouched, temp file removed, no clean-up failure. -/
example :
    let w := faultsAt [idx trEx (.replace .temp .target)] .ENOSPC
    (exec Hid Gen.writeToolStmt callEx w fsEx).res = .err .E_WRITE ∧
    (exec Hid Gen.writeToolStmt callEx w fsEx).st.cf = false ∧
    (exec Hid Gen.writeToolStmt callEx w fsEx).st.fs [1, 9] = none ∧
    (exec Hid Gen.writeToolStmt callEx w fsEx).st.fs [1, 2] = some (.file "old".toList 416 true) := by decide

/-- The hypothesis of `C16_error_clean` is needed: when `os.replace` fails *and* the `os.unlink` of the
clean-up fails too, the temp file stays — and the model says `cf = true`; the target is still intact. -/
example :
    let k1 := idx trEx (.replace .temp .target)
    let k2 := idx (traceOf (exec Hid Gen.writeToolStmt callEx (faultsAt [k1] .EIO) fsEx)) (.unlink .temp)
    let w := faultsAt [k1, k2] .EIO
    (exec Hid Gen.writeToolStmt callEx w fsEx).st.cf = true ∧
    (exec Hid Gen.writeToolStmt callEx w fsEx).st.fs [1, 9] ≠ none ∧
    (exec Hid Gen.writeToolStmt callEx w fsEx).st.fs [1, 2] = some (.file "old".toList 416 true) := by decide

/-- Validation first: a parse error answers E_PARSE with the file system untouched. -/
example : (exec Hid Gen.writeToolStmt { callEx with fails := fun _ => some .E_PARSE } {} fsEx).res = .err .E_PARSE := by decide

/-- The discipline is not trivially true: a program that writes directly to the target, one that
replaces before fsync, and one that forgets the unlink in its handler are all rejected. -/
example : (Stmt.block [.op (.openW .target), .op (.write .canonical), .op .close, .ret .ok]).disciplined .c16 ⟨.content, false, false⟩ = false := by
  decide
example : (Stmt.block [.op (.mkstemp .parent), .op .fdopen, .op (.write .canonical), .op .flush, .op .close,
    .op (.replace .temp .target), .ret .ok]).disciplined .c16 ⟨.content, false, false⟩ = false := by decide
example : (Stmt.block [.op (.exists_ .target), .ite .last (.ret (.err .E_WRITE)) .skip, .op (.mkstemp .parent),
    .try_ (.block [.op .fdopen, .op (.write .canonical), .op .flush, .op .fsync, .op .close, .op (.replace .temp .target)])
      (.ret (.err .E_WRITE)), .ret .ok]).disciplined .c16 ⟨.content, false, false⟩ = false := by decide
/-- … and the same program with the unlink is accepted. -/
example : (Stmt.block [.op (.exists_ .target), .ite .last (.ret (.err .E_WRITE)) .skip, .op (.mkstemp .parent),
    .try_ (.block [.op .fdopen, .op (.write .canonical), .op .flush, .op .fsync, .op .close, .op (.replace .temp .target)])
      (.block [.op (.unlink .temp), .ret (.err .E_WRITE)]), .ret .ok]).disciplined .c16 ⟨.content, false, false⟩ = true := by decide

end Octave.C16
