/-
C16 — placeholder while the harness is brought up (replaced by the real theorems).
-/
import Octave.Model.FsProg
import Octave.Gen.WriteOps
namespace Octave.C16
open Octave

theorem gen_no_unclassified : Gen.unclassified = [] := by decide

end Octave.C16
