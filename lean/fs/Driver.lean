/-
JSON-lines driver for the fs engine (C16, C17): one request per line on stdin, one reply per line.

  {"op":"run",     "prog":P, "call":CALL, "fs":FS, "world":WORLD, "query":[path..]}
      -> {"res":..,"code":..,"hash":..,"fs":[node|null..],"trace":[[op,ok]..],"cf":bool}
  {"op":"history", "prog":P, "fs":FS, "steps":[{"call":CALL} | {"ext":text|null,"path":path}], "query":[path..]}
      -> {"steps":[{"res":..,"code":..,"hash":..,"fs":[..]}..]}
  {"op":"sched",   "prog":P, "calls":[CALL..], "fs":FS, "schedule":[i..], "query":[path..]}
      -> {"results":[{"res":..}|null ..], "fs":[..], "traces":[[[op,ok]..]..]}     (after the schedule every
         unfinished process is run to completion, in index order)
  {"op":"tree", "prog":P, "mode":m, "hasBase":b, "dry":b} -> {"size":n}

P     : "writeTool" | "atomicWrite" | "cliWrite"
CALL  : {"target":path,"tmp":path,"mode":"content|changes|normalize","baseHash":text|null,"dry":bool,"pathOk":bool,
         "fails":{"default":code|null,"table":[[base,code|null]..]}, "canon":{"default":text|null,"table":[[base,text]..]}}
         (canon default null = identity).  Hashes are modelled by the identity function: a base_hash is *the text it is the
         hash of* (or any other token); the harness maps real SHA-256 values to texts.
FS    : [[path, {"file":text,"mode":n,"synced":bool} | {"dir":true} | {"symlink":true}] ..]
WORLD : {"crashAt":n|null,"crashMid":bool,"cut":n,"faults":[[n,errno]..]}
-/
import Lean.Data.Json
import Octave.Model.FsProg
import Octave.Gen.WriteOps
open Lean Octave

def pathOfJson (j : Json) : Except String Path := do
  let a ← j.getArr?
  a.toList.mapM (fun x => x.getNat?)

def codeOfString : String → Code
  | "E_INPUT" => .E_INPUT | "E_PATH" => .E_PATH | "E_FILE" => .E_FILE | "E_READ" => .E_READ
  | "E_HASH" => .E_HASH | "E_PARSE" => .E_PARSE | "E_TOKENIZE" => .E_TOKENIZE | "E_APPLY" => .E_APPLY
  | "E_EMIT" => .E_EMIT | "E_WRITE" => .E_WRITE | "E_EXIT" => .E_EXIT | _ => .E_OTHER

def codeToString : Code → String
  | .E_INPUT => "E_INPUT" | .E_PATH => "E_PATH" | .E_FILE => "E_FILE" | .E_READ => "E_READ"
  | .E_HASH => "E_HASH" | .E_PARSE => "E_PARSE" | .E_TOKENIZE => "E_TOKENIZE" | .E_APPLY => "E_APPLY"
  | .E_EMIT => "E_EMIT" | .E_WRITE => "E_WRITE" | .E_EXIT => "E_EXIT" | .E_OTHER => "E_OTHER"

def errnoOfString : String → Errno
  | "ENOSPC" => .ENOSPC | "EACCES" => .EACCES | "EIO" => .EIO | "EINTR" => .EINTR | "EROFS" => .EROFS
  | "ENOENT" => .ENOENT | "EEXIST" => .EEXIST | "EISDIR" => .EISDIR | "ENOTDIR" => .ENOTDIR | _ => .EBADF

def modeOfString : String → Mode
  | "changes" => .changes | "normalize" => .normalize | _ => .content

def locToString : Loc → String
  | .target => "target" | .parent => "parent" | .temp => "temp"

def opToString : Op → String
  | .validatePath => "validatePath"
  | .exists_ l => "exists " ++ locToString l
  | .osPathExists l => "osPathExists " ++ locToString l
  | .isSymlink l => "isSymlink " ++ locToString l
  | .stat l => "stat " ++ locToString l
  | .read l => "read " ++ locToString l
  | .reread l => "reread " ++ locToString l
  | .mkdirP l => "mkdirP " ++ locToString l
  | .mkstemp l => "mkstemp " ++ locToString l
  | .fchmod => "fchmod"
  | .fdopen => "fdopen"
  | .write .canonical => "write canonical"
  | .write .other => "write other"
  | .flush => "flush"
  | .fsync => "fsync"
  | .close => "close"
  | .unlink l => "unlink " ++ locToString l
  | .replace s d => "replace " ++ locToString s ++ " " ++ locToString d
  | .openW l => "openW " ++ locToString l
  | .chmod l => "chmod " ++ locToString l
  | .other m => "other " ++ toString m

def nodeOfJson (j : Json) : Except String Node := do
  if let .ok (s : String) := j.getObjValAs? String "file" then
    let m := (j.getObjValAs? Nat "mode").toOption.getD 420
    let sy := (j.getObjValAs? Bool "synced").toOption.getD true
    return .file s.toList m sy
  if let .ok _ := j.getObjVal? "dir" then return .dir
  if let .ok _ := j.getObjVal? "symlink" then return .symlink
  throw "bad node"

def nodeToJson : Option Node → Json
  | none => Json.null
  | some (.file d m s) => Json.mkObj [("file", String.ofList d), ("mode", m), ("synced", s)]
  | some .dir => Json.mkObj [("dir", true)]
  | some .symlink => Json.mkObj [("symlink", true)]

def fsOfJson (j : Json) : Except String Fs := do
  let a ← j.getArr?
  let entries ← a.toList.mapM (fun e => do
    let pr ← e.getArr?
    let p ← pathOfJson (pr[0]?.getD Json.null)
    let n ← nodeOfJson (pr[1]?.getD Json.null)
    pure (p, n))
  pure (fun q => (entries.find? (fun e => e.1 = q)).map (·.2))

def optStr (j : Json) (k : String) : Option String :=
  match j.getObjVal? k with
  | .ok (.str s) => some s
  | _ => none

def tableOfJson (j : Json) : Except String (List (Data × Option String)) := do
  let a ← (← j.getObjVal? "table").getArr?
  a.toList.mapM (fun e => do
    let pr ← e.getArr?
    let b ← (pr[0]?.getD Json.null).getStr?
    let v := match pr[1]?.getD Json.null with | .str s => some s | _ => none
    pure (b.toList, v))

def callOfJson (j : Json) : Except String Call := do
  let target ← pathOfJson (← j.getObjVal? "target")
  let tmp ← pathOfJson (← j.getObjVal? "tmp")
  let mode := modeOfString ((optStr j "mode").getD "content")
  let bh := (optStr j "baseHash").map String.toList
  let dry := (j.getObjValAs? Bool "dry").toOption.getD false
  let pathOk := (j.getObjValAs? Bool "pathOk").toOption.getD true
  let fj := (j.getObjVal? "fails").toOption.getD (Json.mkObj [("table", Json.arr #[])])
  let ftab ← tableOfJson fj
  let fdef := (optStr fj "default").map codeOfString
  let cj := (j.getObjVal? "canon").toOption.getD (Json.mkObj [("table", Json.arr #[])])
  let ctab ← tableOfJson cj
  let cdef := (optStr cj "default").map String.toList
  pure { target := target, tmpName := tmp, mode := mode, baseHash := bh, dry := dry, pathOk := pathOk,
         fails := fun b => match ftab.find? (fun e => e.1 = b) with
                           | some e => e.2.map codeOfString
                           | none => fdef,
         canon := fun b => match ctab.find? (fun e => e.1 = b) with
                           | some e => (e.2.map String.toList).getD b
                           | none => cdef.getD b }

def worldOfJson (j : Json) : Except String World := do
  let crashAt := (j.getObjValAs? Nat "crashAt").toOption
  let crashMid := (j.getObjValAs? Bool "crashMid").toOption.getD false
  let cut := (j.getObjValAs? Nat "cut").toOption.getD 0
  let fa := ((j.getObjVal? "faults").toOption.bind (fun x => x.getArr?.toOption)).getD #[]
  let faults ← fa.toList.mapM (fun e => do
    let pr ← e.getArr?
    let n ← (pr[0]?.getD Json.null).getNat?
    let s ← (pr[1]?.getD Json.null).getStr?
    pure (n, errnoOfString s))
  pure { crashAt := crashAt, crashMid := crashMid, cut := cut,
         fault := fun n => (faults.find? (fun e => e.1 = n)).map (·.2) }

def progOfName : String → Except String Stmt
  | "writeTool" => pure Gen.writeToolStmt
  | "atomicWrite" => pure Gen.atomicWriteStmt
  | "cliWrite" => pure Gen.cliWriteStmt
  | s => throw s!"unknown program {s}"

def H0 : Data → Hash := fun d => d

def resultFields : Result → List (String × Json)
  | .ok h => [("res", "ok"), ("hash", String.ofList h)]
  | .err c => [("res", "err"), ("code", codeToString c)]
  | .raised => [("res", "raised")]
  | .crashed => [("res", "crashed")]

def traceToJson (t : List Ev) : Json :=
  Json.arr (t.reverse.map (fun e => Json.arr #[opToString e.op, e.ok])).toArray

def queryFs (fs : Fs) (q : List Path) : Json := Json.arr (q.map (fun p => nodeToJson (fs p))).toArray

def getQuery (j : Json) : Except String (List Path) := do
  let a ← (← j.getObjVal? "query").getArr?
  a.toList.mapM pathOfJson

def extStep (fs : Fs) (p : Path) (d : Option Data) : Fs :=
  match d with
  | none => fs.set p none
  | some t =>
    match fs p with
    | some (.file _ m _) => fs.set p (some (.file t m true))
    | _ => fs.set p (some (.file t 420 true))

def Octave.Prog.size : Prog → Nat
  | .ret _ => 1
  | .raise => 1
  | .op _ k kf => 1 + k.size + kf.size
  | .branch _ a b => 1 + a.size + b.size
  | .set _ k => 1 + k.size

def drain (fuel : Nat) (s : Sys) : Sys :=
  match fuel with
  | 0 => s
  | fuel + 1 =>
    match (List.range s.procs.length).find? (fun i => match s.procs[i]? with
                                                        | some p => (p.result H0).isNone
                                                        | none => false) with
    | none => s
    | some i => drain fuel (s.step H0 i)

def handle (j : Json) : Except String Json := do
  let op ← j.getObjValAs? String "op"
  match op with
  | "run" =>
    let stmt ← progOfName (← j.getObjValAs? String "prog")
    let call ← callOfJson (← j.getObjVal? "call")
    let fs ← fsOfJson (← j.getObjVal? "fs")
    let w ← worldOfJson ((j.getObjVal? "world").toOption.getD (Json.mkObj []))
    let q ← getQuery j
    let out := exec H0 stmt call w fs
    pure (Json.mkObj (resultFields out.res ++
      [("fs", queryFs out.st.fs q), ("trace", traceToJson out.st.trace), ("cf", out.st.cf)]))
  | "history" =>
    let stmt ← progOfName (← j.getObjValAs? String "prog")
    let fs0 ← fsOfJson (← j.getObjVal? "fs")
    let q ← getQuery j
    let steps ← (← j.getObjVal? "steps").getArr?
    let mut fs := fs0
    let mut outs : Array Json := #[]
    for st in steps do
      match st.getObjVal? "call" with
      | .ok cj =>
        let call ← callOfJson cj
        let out := exec H0 stmt call {} fs
        fs := out.st.fs
        outs := outs.push (Json.mkObj (resultFields out.res ++ [("fs", queryFs fs q)]))
      | .error _ =>
        let p ← pathOfJson (← st.getObjVal? "path")
        let d := (optStr st "ext").map String.toList
        fs := extStep fs p d
        outs := outs.push (Json.mkObj [("res", "ext"), ("fs", queryFs fs q)])
    pure (Json.mkObj [("steps", Json.arr outs)])
  | "sched" =>
    let stmt ← progOfName (← j.getObjValAs? String "prog")
    let calls ← (← (← j.getObjVal? "calls").getArr?).toList.mapM callOfJson
    let fs ← fsOfJson (← j.getObjVal? "fs")
    let q ← getQuery j
    let sched ← (← (← j.getObjVal? "schedule").getArr?).toList.mapM (fun x => x.getNat?)
    let procs := calls.map (fun c => ({ call := c, pc := stmt.toProg c.params } : Proc))
    let s := drain 2000 (runSched H0 sched ⟨procs, fs⟩)
    pure (Json.mkObj [
      ("results", Json.arr (s.procs.map (fun p => match p.result H0 with
                                                  | some r => Json.mkObj (resultFields r)
                                                  | none => Json.null)).toArray),
      ("fs", queryFs s.fs q),
      ("traces", Json.arr (s.procs.map (fun p => traceToJson p.trace)).toArray)])
  | "tree" =>
    let stmt ← progOfName (← j.getObjValAs? String "prog")
    let P : Params := ⟨modeOfString ((optStr j "mode").getD "content"),
                       (j.getObjValAs? Bool "hasBase").toOption.getD false,
                       (j.getObjValAs? Bool "dry").toOption.getD false⟩
    pure (Json.mkObj [("size", (stmt.toProg P).size)])
  | _ => throw "op"

partial def loop (h : IO.FS.Stream) (out : IO.FS.Stream) : IO Unit := do
  let line ← h.getLine
  if line.isEmpty then return ()
  let reply := match Json.parse line with
    | .ok j => (match handle j with
                | .ok r => r
                | .error e => Json.mkObj [("unsupported", e)])
    | .error e => Json.mkObj [("unsupported", s!"json: {e}")]
  out.putStrLn reply.compress
  loop h out

def main : IO Unit := do
  let out ← IO.getStdout
  loop (← IO.getStdin) out
  out.flush
