/-
Helper lemmas about `Model/Repair` (used by Props/C11).
-/
import Octave.Spec.RepairSpec
namespace Octave.Lemmas
open Octave Repair Spec

/-! ### single attempts -/

theorem enumCasefold_some {env : Env} {v w : Val} {A : List Str} {e : Entry}
    (h : enumCasefold env v A = some (w, e)) :
    ∃ s X, v = .str s ∧ w = .str X ∧ e = ⟨"ENUM_CASEFOLD", s, X, .repair, true, false⟩ ∧ s ∉ A ∧ ciMatches env A s = [X] := by
  cases v with
  | str s =>
    simp only [enumCasefold] at h
    split at h
    · cases h
    · rename_i hc
      split at h
      · rename_i X hX
        simp only [Option.some.injEq, Prod.mk.injEq] at h
        refine ⟨s, X, rfl, h.1.symm, h.2.symm, ?_, hX⟩
        simpa using hc
      · cases h
  | _ => simp [enumCasefold] at h

theorem enumCasefold_str_iff {env : Env} {s : Str} {A : List Str} :
    enumCasefold env (.str s) A = none ↔ (s ∈ A ∨ ∀ X, ciMatches env A s ≠ [X]) := by
  simp only [enumCasefold]
  by_cases hs : s ∈ A
  · simp [hs]
  · have : A.contains s = false := by simpa using hs
    simp only [this, Bool.false_eq_true, ↓reduceIte, hs, false_or]
    constructor
    · intro h X hX
      simp only [ciMatches] at hX
      simp [hX] at h
    · intro h
      split
      · rename_i X hX
        exact absurd hX (h X)
      · rfl

theorem ciMatches_single {env : Env} {A : List Str} {s X : Str} (h : ciMatches env A s = [X]) :
    X ∈ A ∧ env.lower X = env.lower s ∧ ∀ a ∈ A, env.lower a = env.lower s → a = X := by
  have hX : X ∈ ciMatches env A s := by rw [h]; simp
  simp only [ciMatches, List.mem_filter, beq_iff_eq] at hX
  refine ⟨hX.1, hX.2, ?_⟩
  intro a ha hl
  have : a ∈ ciMatches env A s := by simp only [ciMatches, List.mem_filter, beq_iff_eq]; exact ⟨ha, hl⟩
  rw [h] at this
  simpa using this

/-- `ciMatches` depends on the text only through its lower-case form. -/
theorem ciMatches_congr {env : Env} {A : List Str} {s t : Str} (h : env.lower s = env.lower t) :
    ciMatches env A s = ciMatches env A t := by
  simp [ciMatches, h]

theorem coerceNumber_some {env : Env} {st : Str} {w : Val} {after : Str}
    (h : coerceNumber env st = some (w, after)) :
    (∃ n, Numeral.pyInt env st = some n ∧ w = .int n ∧ after = intStr n) ∨
    (∃ f, Numeral.pyFloat env st = some f ∧ f.finite = true ∧ w = .float f ∧ after = f.repr) := by
  simp only [coerceNumber] at h
  split at h
  · split at h
    · rename_i n hn
      simp only [Option.some.injEq, Prod.mk.injEq] at h
      exact Or.inl ⟨n, hn, h.1.symm, h.2.symm⟩
    · cases h
  · split at h
    · rename_i f hf
      split at h
      · rename_i hfin
        simp only [Option.some.injEq, Prod.mk.injEq] at h
        exact Or.inr ⟨f, hf, hfin, h.1.symm, h.2.symm⟩
      · cases h
    · cases h

theorem typeCoercion_some {env : Env} {v w : Val} {t : Str} {e : Entry}
    (h : typeCoercion env v t = some (w, e)) :
    t = NUMBER ∧ ∃ s after, v = .str s ∧ Denotes env s w after ∧ e = ⟨"TYPE_COERCION", s, after, .repair, true, false⟩ := by
  simp only [typeCoercion] at h
  split at h
  · cases h
  · rename_i ht
    have ht' : t = NUMBER := by simpa [NUMBER] using ht
    refine ⟨ht', ?_⟩
    cases v with
    | str s =>
      simp only at h
      split at h
      · cases h
      · split at h
        · rename_i w' after hco
          simp only [Option.some.injEq, Prod.mk.injEq] at h
          refine ⟨s, after, rfl, ?_, h.2.symm⟩
          rw [← h.1]
          rcases coerceNumber_some hco with ⟨n, hn, hw, ha⟩ | ⟨f, hf, hfin, hw, ha⟩
          · rw [hw, ha]; exact Denotes.int s n hn
          · rw [hw, ha]; exact Denotes.float s f hf hfin
        · cases h
    | _ => simp at h

theorem attempt_nonstr (env : Env) (v : Val) (c : Constraint) (h : ∀ s, v ≠ .str s) : attempt env v c = none := by
  cases c with
  | enum a => cases v <;> simp_all [attempt, enumCasefold]
  | type t => cases v <;> simp_all [attempt, typeCoercion]
  | _ => simp [attempt]

/-- A successful attempt is a permitted step motivated by that very constraint. -/
theorem attempt_step {env : Env} {chain : List Constraint} {c : Constraint} {v w : Val} {e : Entry}
    (hc : c ∈ chain) (h : attempt env v c = some (w, e)) : Step env chain c v w e := by
  cases c with
  | enum A =>
    simp only [attempt] at h
    obtain ⟨s, X, hv, hw, he, hs, hm⟩ := enumCasefold_some h
    obtain ⟨hX, hl, hu⟩ := ciMatches_single hm
    subst hv hw he
    exact Step.casefold A s X hc hs hX hl hu
  | type t =>
    simp only [attempt] at h
    obtain ⟨ht, s, after, hv, hd, he⟩ := typeCoercion_some h
    subst ht hv he
    exact Step.coerce s w after hc hd
  | req => simp [attempt] at h
  | opt => simp [attempt] at h
  | ext i => simp [attempt] at h

/-- The result of a successful attempt is a text with the same lower-case form, or not a text. -/
theorem attempt_lower {env : Env} {c : Constraint} {s : Str} {w : Val} {e : Entry}
    (h : attempt env (.str s) c = some (w, e)) : (∃ x, w = .str x ∧ env.lower x = env.lower s) ∨ (∀ x, w ≠ .str x) := by
  cases c with
  | enum A =>
    simp only [attempt] at h
    obtain ⟨s', X, hv, hw, _, _, hm⟩ := enumCasefold_some h
    cases hv
    exact Or.inl ⟨X, hw, (ciMatches_single hm).2.1⟩
  | type t =>
    simp only [attempt] at h
    obtain ⟨_, s', after, hv, hd, _⟩ := typeCoercion_some h
    right
    intro x hx
    cases hd <;> cases hx
  | req => simp [attempt] at h
  | opt => simp [attempt] at h
  | ext i => simp [attempt] at h

/-! ### the loop of `repair_value` -/

theorem loop_nonstr (env : Env) (cs : List Constraint) (v : Val) (h : ∀ s, v ≠ .str s) : loop env cs v = (v, []) := by
  induction cs with
  | nil => simp [loop]
  | cons c cs ih => simp [loop, attempt_nonstr env v c h, ih]

theorem loop_steps (env : Env) (chain : List Constraint) :
    ∀ (cs : List Constraint) (v : Val), (∀ c ∈ cs, c ∈ chain) → Steps env chain v (loop env cs v).1 (loop env cs v).2
  | [], v, _ => by simp only [loop]; exact Steps.nil v
  | c :: cs, v, h => by
    simp only [loop]
    cases ha : attempt env v c with
    | none => exact loop_steps env chain cs v (fun c' hc' => h c' (List.mem_cons_of_mem _ hc'))
    | some r =>
      obtain ⟨w, e⟩ := r
      simp only
      exact Steps.cons (attempt_step (h c (List.mem_cons_self ..)) ha)
        (loop_steps env chain cs w (fun c' hc' => h c' (List.mem_cons_of_mem _ hc')))

/-- nothing logged ⇒ nothing changed. -/
theorem steps_nil_eq {env : Env} {chain : List Constraint} {v w : Val} (h : Steps env chain v w []) : w = v := by
  cases h; rfl

theorem loop_nil_eq (env : Env) (cs : List Constraint) (v : Val) (h : (loop env cs v).2 = []) : (loop env cs v).1 = v := by
  have := loop_steps env cs cs v (fun _ hc => hc)
  rw [h] at this
  exact steps_nil_eq this

/-- a value no constraint of the list can improve is a fixed point of the loop. -/
theorem loop_fixed (env : Env) : ∀ (cs : List Constraint) (v : Val), (∀ c ∈ cs, attempt env v c = none) → loop env cs v = (v, [])
  | [], v, _ => by simp [loop]
  | c :: cs, v, h => by
    simp only [loop, h c (List.mem_cons_self ..)]
    exact loop_fixed env cs v (fun c' hc' => h c' (List.mem_cons_of_mem _ hc'))

/-- the final value of the loop is a text with the same lower-case form, or not a text. -/
theorem loop_lower (env : Env) : ∀ (cs : List Constraint) (s : Str),
    (∃ x, (loop env cs (.str s)).1 = .str x ∧ env.lower x = env.lower s) ∨ (∀ x, (loop env cs (.str s)).1 ≠ .str x)
  | [], s => by simp [loop]
  | c :: cs, s => by
    simp only [loop]
    cases ha : attempt env (.str s) c with
    | none => exact loop_lower env cs s
    | some r =>
      obtain ⟨w, e⟩ := r
      simp only
      rcases attempt_lower ha with ⟨x, hw, hl⟩ | hn
      · subst hw
        rcases loop_lower env cs x with ⟨y, hy, hly⟩ | hn
        · exact Or.inl ⟨y, hy, hly.trans hl⟩
        · exact Or.inr hn
      · right
        rw [loop_nonstr env cs w hn]
        exact hn

/-! ### `repair_value` -/

/-- `repair_value` with `fix=True` and the definition found under key `k`: permitted steps only. -/
theorem repairValue_steps (env : Env) (sch : Schema) (k : Str) (v : Val) :
    Steps env (chainOf sch k) v (repairValue env v (sch.get k) true).1 (repairValue env v (sch.get k) true).2 := by
  simp only [repairValue]
  split
  · exact Steps.nil v
  · simp only [Bool.not_true, Bool.false_eq_true, ↓reduceIte]
    cases hg : sch.get k with
    | none => exact Steps.nil v
    | some fd =>
      obtain ⟨pat⟩ := fd
      cases pat with
      | none => exact Steps.nil v
      | some pat =>
        obtain ⟨ch, tgt⟩ := pat
        cases ch with
        | none => exact Steps.nil v
        | some ch =>
          simp only
          split
          · exact Steps.nil v
          · split
            · exact Steps.nil v
            · have : chainOf sch k = ch.cs := by simp [chainOf, hg]
              rw [this]
              exact loop_steps env ch.cs ch.cs v (fun _ h => h)

theorem repairValue_nil_eq (env : Env) (sch : Schema) (k : Str) (v : Val)
    (h : (repairValue env v (sch.get k) true).2 = []) : (repairValue env v (sch.get k) true).1 = v := by
  have := repairValue_steps env sch k v
  rw [h] at this
  exact steps_nil_eq this

/-! ### trees -/

theorem explained_append {env : Env} {sch : Schema} {l1 l1' l2 l2' : List (Str × Val)} {g1 g2 : List Entry}
    (h1 : Explained env sch l1 l1' g1) (h2 : Explained env sch l2 l2' g2) :
    Explained env sch (l1 ++ l2) (l1' ++ l2') (g1 ++ g2) := by
  induction h1 with
  | nil => simpa using h2
  | cons hs _ ih =>
    simp only [List.cons_append, List.append_assoc]
    exact Explained.cons hs ih

/-- the leaf `repairNode` produces for an assignment. -/
theorem repairNode_assign_steps (env : Env) (sch : Schema) (p : Pos) (k : Str) (v : Val) :
    ∃ v', (repairNode env sch (.assign p k v)).1 = .assign p k v' ∧
      Steps env (chainOf sch k) v v' (repairNode env sch (.assign p k v)).2 := by
  simp only [repairNode]
  split
  · exact ⟨v, rfl, Steps.nil v⟩
  · cases hg : sch.get k with
    | none => exact ⟨v, rfl, Steps.nil v⟩
    | some fd =>
      simp only
      have hs := repairValue_steps env sch k v
      rw [hg] at hs
      by_cases he : (repairValue env v (some fd) true).2 = []
      · refine ⟨v, ?_, ?_⟩
        · simp [he]
        · rw [he]; exact Steps.nil v
      · refine ⟨(repairValue env v (some fd) true).1, ?_, hs⟩
        have : (repairValue env v (some fd) true).2.isEmpty = false := by
          cases h : (repairValue env v (some fd) true).2 with
          | nil => exact absurd h he
          | cons _ _ => rfl
        simp [this]

mutual
theorem explained_node (env : Env) (sch : Schema) : ∀ n : Node,
    Explained env sch n.leaves (repairNode env sch n).1.leaves (repairNode env sch n).2
  | .assign p k v => by
    obtain ⟨v', hn, hs⟩ := repairNode_assign_steps env sch p k v
    rw [hn]
    simp only [Node.leaves]
    have := Explained.cons (sch := sch) hs (Explained.nil (env := env))
    simpa using this
  | .block p k t cs => by
    simp only [repairNode, Node.leaves]
    exact explained_nodes env sch cs
  | .sect p i k a cs => by
    simp only [repairNode, Node.leaves]
    exact explained_nodes env sch cs
  | .other p id => by
    simp only [repairNode, Node.leaves]
    exact Explained.nil
theorem explained_nodes (env : Env) (sch : Schema) : ∀ ns : List Node,
    Explained env sch (Node.leavesList ns) (Node.leavesList (repairNodes env sch ns).1) (repairNodes env sch ns).2
  | [] => by
    simp only [repairNodes, Node.leavesList]
    exact Explained.nil
  | n :: ns => by
    simp only [repairNodes, Node.leavesList]
    exact explained_append (explained_node env sch n) (explained_nodes env sch ns)
end

mutual
theorem skel_node (env : Env) (sch : Schema) : ∀ n : Node, (repairNode env sch n).1.skeleton = n.skeleton
  | .assign p k v => by
    simp only [repairNode]
    split
    · rfl
    · split <;> simp [Node.skeleton]
  | .block p k t cs => by
    simp only [repairNode, Node.skeleton]
    rw [skel_nodes env sch cs]
  | .sect p i k a cs => by
    simp only [repairNode, Node.skeleton]
    rw [skel_nodes env sch cs]
  | .other p id => by simp [repairNode, Node.skeleton]
theorem skel_nodes (env : Env) (sch : Schema) : ∀ ns : List Node,
    Node.skeletonList (repairNodes env sch ns).1 = Node.skeletonList ns
  | [] => by simp [repairNodes, Node.skeletonList]
  | n :: ns => by
    simp only [repairNodes, Node.skeletonList]
    rw [skel_node env sch n, skel_nodes env sch ns]
end

end Octave.Lemmas
