/-
Helper lemmas about `Model/Repair` (used by Props/C11).
-/
import Octave.Spec.RepairSpec
namespace Octave.Lemmas
open Octave Repair Spec

/-! ### single attempts -/

theorem enumCasefold_some {env : Env} {v w : Val} {A : List Str} {e : Entry}
    (h : enumCasefold env v A = some (w, e)) :
    ∃ s X, v = .str s ∧ w = .str X ∧ e = ⟨"ENUM_CASEFOLD", s, X, .repair, true, false⟩ ∧ s ∉ A ∧ ciMatches env A s = [X] := by
  cases v with
  | str s =>
    simp only [enumCasefold] at h
    split at h
    · cases h
    · rename_i hc
      split at h
      · rename_i X hX
        simp only [Option.some.injEq, Prod.mk.injEq] at h
        refine ⟨s, X, rfl, h.1.symm, h.2.symm, ?_, hX⟩
        simpa using hc
      · cases h
  | _ => simp [enumCasefold] at h

theorem enumCasefold_str_iff {env : Env} {s : Str} {A : List Str} :
    enumCasefold env (.str s) A = none ↔ (s ∈ A ∨ ∀ X, ciMatches env A s ≠ [X]) := by
  simp only [enumCasefold]
  by_cases hs : s ∈ A
  · simp [hs]
  · have : A.contains s = false := by simpa using hs
    simp only [this, Bool.false_eq_true, ↓reduceIte, hs, false_or]
    constructor
    · intro h X hX
      simp only [ciMatches] at hX
      simp [hX] at h
    · intro h
      split
      · rename_i X hX
        exact absurd hX (h X)
      · rfl

theorem ciMatches_single {env : Env} {A : List Str} {s X : Str} (h : ciMatches env A s = [X]) :
    X ∈ A ∧ env.lower X = env.lower s ∧ ∀ a ∈ A, env.lower a = env.lower s → a = X := by
  have hX : X ∈ ciMatches env A s := by rw [h]; simp
  simp only [ciMatches, List.mem_filter, beq_iff_eq] at hX
  refine ⟨hX.1, hX.2, ?_⟩
  intro a ha hl
  have : a ∈ ciMatches env A s := by simp only [ciMatches, List.mem_filter, beq_iff_eq]; exact ⟨ha, hl⟩
  rw [h] at this
  simpa using this

/-- `ciMatches` depends on the text only through its lower-case form. -/
theorem ciMatches_congr {env : Env} {A : List Str} {s t : Str} (h : env.lower s = env.lower t) :
    ciMatches env A s = ciMatches env A t := by
  simp [ciMatches, h]

theorem coerceNumber_some {env : Env} {st : Str} {w : Val} {after : Str}
    (h : coerceNumber env st = some (w, after)) :
    (∃ n, Numeral.pyInt env st = some n ∧ w = .int n ∧ after = intStr n) ∨
    (∃ f, Numeral.pyFloat env st = some f ∧ f.finite = true ∧ w = .float f ∧ after = f.repr) := by
  simp only [coerceNumber] at h
  split at h
  · split at h
    · rename_i n hn
      simp only [Option.some.injEq, Prod.mk.injEq] at h
      exact Or.inl ⟨n, hn, h.1.symm, h.2.symm⟩
    · cases h
  · split at h
    · rename_i f hf
      split at h
      · rename_i hfin
        simp only [Option.some.injEq, Prod.mk.injEq] at h
        exact Or.inr ⟨f, hf, hfin, h.1.symm, h.2.symm⟩
      · cases h
    · cases h

theorem typeCoercion_some {env : Env} {v w : Val} {t : Str} {e : Entry}
    (h : typeCoercion env v t = some (w, e)) :
    t = NUMBER ∧ ∃ s after, v = .str s ∧ Denotes env s w after ∧ e = ⟨"TYPE_COERCION", s, after, .repair, true, false⟩ := by
  simp only [typeCoercion] at h
  split at h
  · cases h
  · rename_i ht
    have ht' : t = NUMBER := by simpa [NUMBER] using ht
    refine ⟨ht', ?_⟩
    cases v with
    | str s =>
      simp only at h
      split at h
      · cases h
      · split at h
        · rename_i w' after hco
          simp only [Option.some.injEq, Prod.mk.injEq] at h
          refine ⟨s, after, rfl, ?_, h.2.symm⟩
          rw [← h.1]
          rcases coerceNumber_some hco with ⟨n, hn, hw, ha⟩ | ⟨f, hf, hfin, hw, ha⟩
          · rw [hw, ha]; exact Denotes.int s n hn
          · rw [hw, ha]; exact Denotes.float s f hf hfin
        · cases h
    | _ => simp at h

theorem attempt_nonstr (env : Env) (v : Val) (c : Constraint) (h : ∀ s, v ≠ .str s) : attempt env v c = none := by
  cases c with
  | enum a => cases v <;> simp_all [attempt, enumCasefold]
  | type t => cases v <;> simp_all [attempt, typeCoercion]
  | _ => simp [attempt]

/-- A successful attempt is a permitted step motivated by that very constraint. -/
theorem attempt_step {env : Env} {chain : List Constraint} {c : Constraint} {v w : Val} {e : Entry}
    (hc : c ∈ chain) (h : attempt env v c = some (w, e)) : Step env chain c v w e := by
  cases c with
  | enum A =>
    simp only [attempt] at h
    obtain ⟨s, X, hv, hw, he, hs, hm⟩ := enumCasefold_some h
    obtain ⟨hX, hl, hu⟩ := ciMatches_single hm
    subst hv hw he
    exact Step.casefold A s X hc hs hX hl hu
  | type t =>
    simp only [attempt] at h
    obtain ⟨ht, s, after, hv, hd, he⟩ := typeCoercion_some h
    subst ht hv he
    exact Step.coerce s w after hc hd
  | req => simp [attempt] at h
  | opt => simp [attempt] at h
  | ext i => simp [attempt] at h

/-- The result of a successful attempt is a text with the same lower-case form, or not a text. -/
theorem attempt_lower {env : Env} {c : Constraint} {s : Str} {w : Val} {e : Entry}
    (h : attempt env (.str s) c = some (w, e)) : (∃ x, w = .str x ∧ env.lower x = env.lower s) ∨ (∀ x, w ≠ .str x) := by
  cases c with
  | enum A =>
    simp only [attempt] at h
    obtain ⟨s', X, hv, hw, _, _, hm⟩ := enumCasefold_some h
    cases hv
    exact Or.inl ⟨X, hw, (ciMatches_single hm).2.1⟩
  | type t =>
    simp only [attempt] at h
    obtain ⟨_, s', after, hv, hd, _⟩ := typeCoercion_some h
    right
    intro x hx
    cases hd <;> cases hx
  | req => simp [attempt] at h
  | opt => simp [attempt] at h
  | ext i => simp [attempt] at h

/-! ### the loop of `repair_value` -/

theorem loop_nonstr (env : Env) (cs : List Constraint) (v : Val) (h : ∀ s, v ≠ .str s) : loop env cs v = (v, []) := by
  induction cs with
  | nil => simp [loop]
  | cons c cs ih => simp [loop, attempt_nonstr env v c h, ih]

theorem loop_steps (env : Env) (chain : List Constraint) :
    ∀ (cs : List Constraint) (v : Val), (∀ c ∈ cs, c ∈ chain) → Steps env chain v (loop env cs v).1 (loop env cs v).2
  | [], v, _ => by simp only [loop]; exact Steps.nil v
  | c :: cs, v, h => by
    simp only [loop]
    cases ha : attempt env v c with
    | none => exact loop_steps env chain cs v (fun c' hc' => h c' (List.mem_cons_of_mem _ hc'))
    | some r =>
      obtain ⟨w, e⟩ := r
      simp only
      exact Steps.cons (attempt_step (h c (List.mem_cons_self ..)) ha)
        (loop_steps env chain cs w (fun c' hc' => h c' (List.mem_cons_of_mem _ hc')))

/-- nothing logged ⇒ nothing changed. -/
theorem steps_nil_eq {env : Env} {chain : List Constraint} {v w : Val} (h : Steps env chain v w []) : w = v := by
  cases h; rfl

theorem loop_nil_eq (env : Env) (cs : List Constraint) (v : Val) (h : (loop env cs v).2 = []) : (loop env cs v).1 = v := by
  have := loop_steps env cs cs v (fun _ hc => hc)
  rw [h] at this
  exact steps_nil_eq this

/-- a value no constraint of the list can improve is a fixed point of the loop. -/
theorem loop_fixed (env : Env) : ∀ (cs : List Constraint) (v : Val), (∀ c ∈ cs, attempt env v c = none) → loop env cs v = (v, [])
  | [], v, _ => by simp [loop]
  | c :: cs, v, h => by
    simp only [loop, h c (List.mem_cons_self ..)]
    exact loop_fixed env cs v (fun c' hc' => h c' (List.mem_cons_of_mem _ hc'))

/-- the final value of the loop is a text with the same lower-case form, or not a text. -/
theorem loop_lower (env : Env) : ∀ (cs : List Constraint) (s : Str),
    (∃ x, (loop env cs (.str s)).1 = .str x ∧ env.lower x = env.lower s) ∨ (∀ x, (loop env cs (.str s)).1 ≠ .str x)
  | [], s => by simp [loop]
  | c :: cs, s => by
    simp only [loop]
    cases ha : attempt env (.str s) c with
    | none => exact loop_lower env cs s
    | some r =>
      obtain ⟨w, e⟩ := r
      simp only
      rcases attempt_lower ha with ⟨x, hw, hl⟩ | hn
      · subst hw
        rcases loop_lower env cs x with ⟨y, hy, hly⟩ | hn
        · exact Or.inl ⟨y, hy, hly.trans hl⟩
        · exact Or.inr hn
      · right
        rw [loop_nonstr env cs w hn]
        exact hn

/-! ### `repair_value` -/

/-- `repair_value` with `fix=True` and the definition found under key `k`: permitted steps only. -/
theorem repairValue_steps (env : Env) (sch : Schema) (k : Str) (v : Val) :
    Steps env (chainOf sch k) v (repairValue env v (sch.get k) true).1 (repairValue env v (sch.get k) true).2 := by
  simp only [repairValue]
  split
  · exact Steps.nil v
  · simp only [Bool.not_true, Bool.false_eq_true, ↓reduceIte]
    cases hg : sch.get k with
    | none => exact Steps.nil v
    | some fd =>
      obtain ⟨pat⟩ := fd
      cases pat with
      | none => exact Steps.nil v
      | some pat =>
        obtain ⟨ch, tgt⟩ := pat
        cases ch with
        | none => exact Steps.nil v
        | some ch =>
          simp only
          split
          · exact Steps.nil v
          · split
            · exact Steps.nil v
            · have : chainOf sch k = ch.cs := by simp [chainOf, hg]
              rw [this]
              exact loop_steps env ch.cs ch.cs v (fun _ h => h)

theorem repairValue_nil_eq (env : Env) (sch : Schema) (k : Str) (v : Val)
    (h : (repairValue env v (sch.get k) true).2 = []) : (repairValue env v (sch.get k) true).1 = v := by
  have := repairValue_steps env sch k v
  rw [h] at this
  exact steps_nil_eq this

/-! ### trees -/

theorem explained_append {env : Env} {sch : Schema} {l1 l1' l2 l2' : List (Str × Val)} {g1 g2 : List Entry}
    (h1 : Explained env sch l1 l1' g1) (h2 : Explained env sch l2 l2' g2) :
    Explained env sch (l1 ++ l2) (l1' ++ l2') (g1 ++ g2) := by
  induction h1 with
  | nil => simpa using h2
  | cons hs _ ih =>
    simp only [List.cons_append, List.append_assoc]
    exact Explained.cons hs ih

/-- the leaf `repairNode` produces for an assignment. -/
theorem repairNode_assign_steps (env : Env) (sch : Schema) (p : Pos) (k : Str) (v : Val) :
    ∃ v', (repairNode env sch (.assign p k v)).1 = .assign p k v' ∧
      Steps env (chainOf sch k) v v' (repairNode env sch (.assign p k v)).2 := by
  simp only [repairNode]
  split
  · exact ⟨v, rfl, Steps.nil v⟩
  · cases hg : sch.get k with
    | none => exact ⟨v, rfl, Steps.nil v⟩
    | some fd =>
      simp only
      have hs := repairValue_steps env sch k v
      rw [hg] at hs
      by_cases he : (repairValue env v (some fd) true).2 = []
      · refine ⟨v, ?_, ?_⟩
        · simp [he]
        · rw [he]; exact Steps.nil v
      · refine ⟨(repairValue env v (some fd) true).1, ?_, hs⟩
        have : (repairValue env v (some fd) true).2.isEmpty = false := by
          cases h : (repairValue env v (some fd) true).2 with
          | nil => exact absurd h he
          | cons _ _ => rfl
        simp [this]

mutual
theorem explained_node (env : Env) (sch : Schema) : ∀ n : Node,
    Explained env sch n.leaves (repairNode env sch n).1.leaves (repairNode env sch n).2
  | .assign p k v => by
    obtain ⟨v', hn, hs⟩ := repairNode_assign_steps env sch p k v
    rw [hn]
    simp only [Node.leaves]
    have := Explained.cons (sch := sch) hs (Explained.nil (env := env))
    simpa using this
  | .block p k t cs => by
    simp only [repairNode, Node.leaves]
    exact explained_nodes env sch cs
  | .sect p i k a cs => by
    simp only [repairNode, Node.leaves]
    exact explained_nodes env sch cs
  | .other p id => by
    simp only [repairNode, Node.leaves]
    exact Explained.nil
theorem explained_nodes (env : Env) (sch : Schema) : ∀ ns : List Node,
    Explained env sch (Node.leavesList ns) (Node.leavesList (repairNodes env sch ns).1) (repairNodes env sch ns).2
  | [] => by
    simp only [repairNodes, Node.leavesList]
    exact Explained.nil
  | n :: ns => by
    simp only [repairNodes, Node.leavesList]
    exact explained_append (explained_node env sch n) (explained_nodes env sch ns)
end

mutual
theorem skel_node (env : Env) (sch : Schema) : ∀ n : Node, (repairNode env sch n).1.skeleton = n.skeleton
  | .assign p k v => by
    simp only [repairNode]
    split
    · rfl
    · split <;> simp [Node.skeleton]
  | .block p k t cs => by
    simp only [repairNode, Node.skeleton]
    rw [skel_nodes env sch cs]
  | .sect p i k a cs => by
    simp only [repairNode, Node.skeleton]
    rw [skel_nodes env sch cs]
  | .other p id => by simp [repairNode, Node.skeleton]
theorem skel_nodes (env : Env) (sch : Schema) : ∀ ns : List Node,
    Node.skeletonList (repairNodes env sch ns).1 = Node.skeletonList ns
  | [] => by simp [repairNodes, Node.skeletonList]
  | n :: ns => by
    simp only [repairNodes, Node.skeletonList]
    rw [skel_node env sch n, skel_nodes env sch ns]
end

/-! ### idempotence of the loop -/

theorem loop_append (env : Env) : ∀ (xs ys : List Constraint) (v : Val),
    loop env (xs ++ ys) v = ((loop env ys (loop env xs v).1).1, (loop env xs v).2 ++ (loop env ys (loop env xs v).1).2)
  | [], ys, v => by simp [loop]
  | c :: xs, ys, v => by
    simp only [List.cons_append, loop]
    cases ha : attempt env v c with
    | none => simp only; exact loop_append env xs ys v
    | some r =>
      obtain ⟨w, e⟩ := r
      simp only [loop_append env xs ys w, List.cons_append]

/-- R2: once the value is the single match `U` of some ENUM of the chain, no later constraint of a
cycle-free chain turns it into a different text. -/
theorem loop_from_match {env : Env} {chain : List Constraint} {s0 U : Str} {B : List Str}
    (hB : Constraint.enum B ∈ chain) (hU : ciMatches env B s0 = [U]) (hnc : NoCycle env chain s0) :
    ∀ (post : List Constraint), (∀ c ∈ post, c ∈ chain) → ∀ y, (loop env post (.str U)).1 = .str y → y = U
  | [], _, y, h => by simp [loop] at h; exact h.symm
  | c :: post, hsub, y, h => by
    have hlU : env.lower U = env.lower s0 := (ciMatches_single hU).2.1
    simp only [loop] at h
    cases ha : attempt env (.str U) c with
    | none =>
      rw [ha] at h
      exact loop_from_match hB hU hnc post (fun c' hc' => hsub c' (List.mem_cons_of_mem _ hc')) y h
    | some r =>
      obtain ⟨w, e⟩ := r
      rw [ha] at h
      simp only at h
      cases c with
      | enum C =>
        simp only [attempt] at ha
        obtain ⟨s', X, hv, hw, _, hs, hm⟩ := enumCasefold_some ha
        cases hv
        have hm0 : ciMatches env C s0 = [X] := by rw [← ciMatches_congr hlU]; exact hm
        have hUX : U = X := hnc B C U X hB (hsub _ (List.mem_cons_self ..)) hU hm0
        exact absurd (hUX ▸ (ciMatches_single hm).1) hs
      | type t =>
        simp only [attempt] at ha
        obtain ⟨_, s', after, hv, hd, _⟩ := typeCoercion_some ha
        have hn : ∀ x, w ≠ .str x := by intro x hx; cases hd <;> cases hx
        rw [loop_nonstr env post w hn] at h
        exact absurd h (hn y)
      | req => simp [attempt] at ha
      | opt => simp [attempt] at ha
      | ext i => simp [attempt] at ha

/-- Lemma A: the final value of the loop can no longer be improved by the constraint the loop
started with. -/
theorem final_fixed_head {env : Env} {chain : List Constraint} {s0 : Str}
    (hcs : CaseStable env) (hnc : NoCycle env chain s0)
    (c : Constraint) (post : List Constraint) (hsub : ∀ c' ∈ c :: post, c' ∈ chain)
    (cur : Val) (hcur : (∃ x, cur = .str x ∧ env.lower x = env.lower s0) ∨ (∀ x, cur ≠ .str x)) :
    attempt env (loop env (c :: post) cur).1 c = none := by
  have hpost : ∀ c' ∈ post, c' ∈ chain := fun c' hc' => hsub c' (List.mem_cons_of_mem _ hc')
  rcases hcur with ⟨x, hx, hlx⟩ | hn
  · subst hx
    simp only [loop]
    cases c with
    | enum B =>
      have hB : Constraint.enum B ∈ chain := hsub _ (List.mem_cons_self ..)
      cases ha : attempt env (.str x) (.enum B) with
      | some r =>
        obtain ⟨w, e⟩ := r
        simp only
        simp only [attempt] at ha
        obtain ⟨s', U, hv, hw, _, hs, hm⟩ := enumCasefold_some ha
        cases hv
        subst hw
        have hm0 : ciMatches env B s0 = [U] := by rw [← ciMatches_congr hlx]; exact hm
        rcases loop_lower env post U with ⟨y, hy, _⟩ | hn
        · have : y = U := loop_from_match hB hm0 hnc post hpost y hy
          subst this
          rw [hy]
          simp only [attempt]
          exact enumCasefold_str_iff.mpr (Or.inl (ciMatches_single hm).1)
        · exact attempt_nonstr env _ _ hn
      | none =>
        simp only
        simp only [attempt] at ha
        rcases loop_lower env post x with ⟨y, hy, hly⟩ | hn
        · rw [hy]
          simp only [attempt]
          apply enumCasefold_str_iff.mpr
          by_cases hex : ∃ U, ciMatches env B x = [U]
          · obtain ⟨U, hU⟩ := hex
            rcases enumCasefold_str_iff.mp ha with hxB | hno
            · have hxU : x = U := (ciMatches_single hU).2.2 x hxB rfl
              subst hxU
              have hm0 : ciMatches env B s0 = [x] := by rw [← ciMatches_congr hlx]; exact hU
              have : y = x := loop_from_match hB hm0 hnc post hpost y hy
              subst this
              exact Or.inl hxB
            · exact absurd hU (hno U)
          · right
            intro U hU
            apply hex
            exact ⟨U, by rw [← ciMatches_congr hly]; exact hU⟩
        · exact attempt_nonstr env _ _ hn
    | type t =>
      cases ha : attempt env (.str x) (.type t) with
      | some r =>
        obtain ⟨w, e⟩ := r
        simp only
        simp only [attempt] at ha
        obtain ⟨_, s', after, hv, hd, _⟩ := typeCoercion_some ha
        have hn : ∀ z, w ≠ .str z := by intro z hz; cases hd <;> cases hz
        rw [loop_nonstr env post w hn]
        exact attempt_nonstr env _ _ hn
      | none =>
        simp only
        rcases loop_lower env post x with ⟨y, hy, hly⟩ | hn
        · rw [hy]
          simp only [attempt] at ha ⊢
          by_cases ht : t = NUMBER
          · subst ht
            have := hcs y x hly
            rw [ha] at this
            simpa using this
          · simp [typeCoercion, NUMBER] at ht ⊢
            intro h; exact absurd h ht
        · exact attempt_nonstr env _ _ hn
    | req => simp [attempt]
    | opt => simp [attempt]
    | ext i => simp [attempt]
  · rw [loop_nonstr env (c :: post) cur hn]
    exact attempt_nonstr env _ _ hn


/-- every member of the chain leaves the loop's final value alone. -/
theorem loop_final_fixed {env : Env} {chain : List Constraint} {s0 : Str}
    (hcs : CaseStable env) (hnc : NoCycle env chain s0) :
    ∀ (pre rest : List Constraint), pre ++ rest = chain →
      ∀ cur, ((∃ x, cur = .str x ∧ env.lower x = env.lower s0) ∨ (∀ x, cur ≠ .str x)) →
      ∀ c ∈ rest, attempt env (loop env rest cur).1 c = none
  | pre, [], _, _, _, c, hc => by cases hc
  | pre, d :: rest, hsplit, cur, hcur, c, hc => by
    have hsub : ∀ c' ∈ d :: rest, c' ∈ chain := by
      intro c' hc'; rw [← hsplit]; exact List.mem_append_right _ hc'
    rcases List.mem_cons.mp hc with rfl | hc'
    · exact final_fixed_head hcs hnc c rest hsub cur hcur
    · -- the value after `d` is again in the lower-case class of `s0` (or not a text)
      have hnext : (∃ x, (loop env [d] cur).1 = .str x ∧ env.lower x = env.lower s0) ∨ (∀ x, (loop env [d] cur).1 ≠ .str x) := by
        rcases hcur with ⟨x, hx, hlx⟩ | hn
        · subst hx
          rcases loop_lower env [d] x with ⟨y, hy, hly⟩ | hn
          · exact Or.inl ⟨y, hy, hly.trans hlx⟩
          · exact Or.inr hn
        · rw [loop_nonstr env [d] cur hn]; exact Or.inr hn
      have happ := loop_append env [d] rest cur
      simp only [List.singleton_append] at happ
      rw [happ]
      simp only
      exact loop_final_fixed hcs hnc (pre ++ [d]) rest (by simp [← hsplit]) _ hnext c hc'

theorem loop_idem {env : Env} {cs : List Constraint} (hcs : CaseStable env) (v : Val)
    (hnc : ∀ s, v = .str s → NoCycle env cs s) :
    loop env cs (loop env cs v).1 = ((loop env cs v).1, []) := by
  apply loop_fixed
  by_cases hv : ∃ s, v = .str s
  · obtain ⟨s, rfl⟩ := hv
    exact loop_final_fixed hcs (hnc s rfl) [] cs rfl (.str s) (Or.inl ⟨s, rfl, rfl⟩)
  · have hn : ∀ s, v ≠ .str s := fun s hs => hv ⟨s, hs⟩
    intro c _
    rw [loop_nonstr env cs v hn]
    exact attempt_nonstr env v c hn

theorem attempt_kind {env : Env} {v w : Val} {c : Constraint} {e : Entry} (h : attempt env v c = some (w, e)) :
    w.isZone = false ∧ w.isNone = false := by
  cases c with
  | enum A =>
    simp only [attempt] at h
    obtain ⟨_, X, _, hw, _⟩ := enumCasefold_some h
    subst hw; exact ⟨rfl, rfl⟩
  | type t =>
    simp only [attempt] at h
    obtain ⟨_, s', after, _, hd, _⟩ := typeCoercion_some h
    cases hd <;> exact ⟨rfl, rfl⟩
  | req => simp [attempt] at h
  | opt => simp [attempt] at h
  | ext i => simp [attempt] at h

theorem loop_kind (env : Env) : ∀ (cs : List Constraint) (v : Val), v.isZone = false → v.isNone = false →
    (loop env cs v).1.isZone = false ∧ (loop env cs v).1.isNone = false
  | [], v, hz, hn => by simp [loop, hz, hn]
  | c :: cs, v, hz, hn => by
    simp only [loop]
    cases ha : attempt env v c with
    | none => exact loop_kind env cs v hz hn
    | some r =>
      obtain ⟨w, e⟩ := r
      simp only
      obtain ⟨hz', hn'⟩ := attempt_kind ha
      exact loop_kind env cs w hz' hn'

/-- `repair_value` applied to its own result changes nothing and logs nothing. -/
theorem repairValue_idem {env : Env} (hcs : CaseStable env) (sch : Schema) (k : Str) (v : Val)
    (hnc : ∀ s, v = .str s → NoCycle env (chainOf sch k) s) :
    repairValue env (repairValue env v (sch.get k) true).1 (sch.get k) true = ((repairValue env v (sch.get k) true).1, []) := by
  cases hg : sch.get k with
  | none => simp [repairValue]
  | some fd =>
    obtain ⟨pat⟩ := fd
    cases pat with
    | none => by_cases hz : v.isZone <;> simp [repairValue, hz]
    | some pat =>
      obtain ⟨ch, tgt⟩ := pat
      cases ch with
      | none => by_cases hz : v.isZone <;> simp [repairValue, hz]
      | some ch =>
        have hchain : chainOf sch k = ch.cs := by simp [chainOf, hg]
        by_cases hz : v.isZone
        · simp [repairValue, hz]
        · by_cases he : ch.cs.isEmpty
          · simp [repairValue, hz, he]
          · by_cases hn : v.isNone
            · simp [repairValue, hz, he, hn]
            · have hz' : v.isZone = false := by simpa using hz
              have hn' : v.isNone = false := by simpa using hn
              obtain ⟨hz2, hn2⟩ := loop_kind env ch.cs v hz' hn'
              have hidem := loop_idem (cs := ch.cs) hcs v (by rw [← hchain]; exact hnc)
              simp [repairValue, hz', hn', he, hz2, hn2, hidem]


theorem step_notZone {env : Env} {chain : List Constraint} {c : Constraint} {v w : Val} {e : Entry}
    (h : Step env chain c v w e) : w.isZone = false := by
  cases h with
  | casefold => rfl
  | coerce s w after _ hd => cases hd <;> rfl

theorem steps_notZone {env : Env} {chain : List Constraint} {v w : Val} {es : List Entry}
    (h : Steps env chain v w es) (hz : v.isZone = false) : w.isZone = false := by
  induction h with
  | nil => exact hz
  | cons hstep _ ih => exact ih (step_notZone hstep)

theorem idem_assign {env : Env} (hcs : CaseStable env) (sch : Schema) (p : Pos) (k : Str) (v : Val)
    (hnc : ∀ s, v = .str s → NoCycle env (chainOf sch k) s) :
    repairNode env sch (repairNode env sch (.assign p k v)).1 = ((repairNode env sch (.assign p k v)).1, []) := by
  by_cases hz : v.isZone
  · simp [repairNode, hz]
  · cases hg : sch.get k with
    | none => simp [repairNode, hz, hg]
    | some fd =>
      have hz' : v.isZone = false := by simpa using hz
      have hid := repairValue_idem hcs sch k v hnc
      rw [hg] at hid
      have hnil := repairValue_nil_eq env sch k v
      rw [hg] at hnil
      -- the value stored by the first run is the repaired value in every case
      have hval : (if (repairValue env v (some fd) true).2.isEmpty then v else (repairValue env v (some fd) true).1)
          = (repairValue env v (some fd) true).1 := by
        split
        · rename_i h
          exact (hnil (by simpa using h)).symm
        · rfl
      -- it is not a zone
      have hz2 : (repairValue env v (some fd) true).1.isZone = false := by
        have hs := repairValue_steps env sch k v
        rw [hg] at hs
        exact steps_notZone hs hz'
      simp only [repairNode, hz', Bool.false_eq_true, ↓reduceIte, hg, hval, hz2, hid, List.isEmpty_nil]


mutual
theorem idem_node {env : Env} (hcs : CaseStable env) (sch : Schema) : ∀ n : Node, DocNoCycle env sch n.leaves →
    repairNode env sch (repairNode env sch n).1 = ((repairNode env sch n).1, [])
  | .assign p k v, h => by
    apply idem_assign hcs sch p k v
    intro s hs
    subst hs
    exact h k s (by simp [Node.leaves])
  | .block p k t cs, h => by
    have := idem_nodes hcs sch cs (by simpa [Node.leaves] using h)
    simp only [repairNode, this]
  | .sect p i k a cs, h => by
    have := idem_nodes hcs sch cs (by simpa [Node.leaves] using h)
    simp only [repairNode, this]
  | .other p id, _ => by simp [repairNode]
theorem idem_nodes {env : Env} (hcs : CaseStable env) (sch : Schema) : ∀ ns : List Node, DocNoCycle env sch (Node.leavesList ns) →
    repairNodes env sch (repairNodes env sch ns).1 = ((repairNodes env sch ns).1, [])
  | [], _ => by simp [repairNodes]
  | n :: ns, h => by
    have h1 := idem_node hcs sch n (fun k s hm => h k s (by simp [Node.leavesList, hm]))
    have h2 := idem_nodes hcs sch ns (fun k s hm => h k s (by simp [Node.leavesList, hm]))
    simp only [repairNodes, h1, h2, List.append_nil]
end

end Octave.Lemmas
