/-
Helper lemmas about `Model/Repair` (used by Props/C11).
-/
import Octave.Spec.RepairSpec
namespace Octave.Lemmas
open Octave Repair Spec

/-! ### single attempts -/

theorem enumCasefold_some {env : Env} {v w : Val} {A : List Str} {e : Entry}
    (h : enumCasefold env v A = some (w, e)) :
    ∃ s X, v = .str s ∧ w = .str X ∧ e = ⟨"ENUM_CASEFOLD", s, X, .repair, true, false⟩ ∧ s ∉ A ∧ ciMatches env A s = [X] := by
  cases v with
  | str s =>
    simp only [enumCasefold] at h
    split at h
    · cases h
    · rename_i hc
      split at h
      · rename_i X hX
        simp only [Option.some.injEq, Prod.mk.injEq] at h
        refine ⟨s, X, rfl, h.1.symm, h.2.symm, ?_, hX⟩
        simpa using hc
      · cases h
  | _ => simp [enumCasefold] at h

theorem enumCasefold_str_iff {env : Env} {s : Str} {A : List Str} :
    enumCasefold env (.str s) A = none ↔ (s ∈ A ∨ ∀ X, ciMatches env A s ≠ [X]) := by
  simp only [enumCasefold]
  by_cases hs : s ∈ A
  · simp [hs]
  · have : A.contains s = false := by simpa using hs
    simp only [this, Bool.false_eq_true, ↓reduceIte, hs, false_or]
    constructor
    · intro h X hX
      simp only [ciMatches] at hX
      simp [hX] at h
    · intro h
      split
      · rename_i X hX
        exact absurd hX (h X)
      · rfl

theorem ciMatches_single {env : Env} {A : List Str} {s X : Str} (h : ciMatches env A s = [X]) :
    X ∈ A ∧ env.lower X = env.lower s ∧ ∀ a ∈ A, env.lower a = env.lower s → a = X := by
  have hX : X ∈ ciMatches env A s := by rw [h]; simp
  simp only [ciMatches, List.mem_filter, beq_iff_eq] at hX
  refine ⟨hX.1, hX.2, ?_⟩
  intro a ha hl
  have : a ∈ ciMatches env A s := by simp only [ciMatches, List.mem_filter, beq_iff_eq]; exact ⟨ha, hl⟩
  rw [h] at this
  simpa using this

/-- `ciMatches` depends on the text only through its lower-case form. -/
theorem ciMatches_congr {env : Env} {A : List Str} {s t : Str} (h : env.lower s = env.lower t) :
    ciMatches env A s = ciMatches env A t := by
  simp [ciMatches, h]

theorem coerceNumber_some {env : Env} {st : Str} {w : Val} {after : Str}
    (h : coerceNumber env st = some (w, after)) :
    (∃ n, Numeral.pyInt env st = some n ∧ w = .int n ∧ after = intStr n) ∨
    (∃ f, Numeral.pyFloat env st = some f ∧ f.finite = true ∧ w = .float f ∧ after = f.repr) := by
  simp only [coerceNumber] at h
  split at h
  · split at h
    · rename_i n hn
      simp only [Option.some.injEq, Prod.mk.injEq] at h
      exact Or.inl ⟨n, hn, h.1.symm, h.2.symm⟩
    · cases h
  · split at h
    · rename_i f hf
      split at h
      · rename_i hfin
        simp only [Option.some.injEq, Prod.mk.injEq] at h
        exact Or.inr ⟨f, hf, hfin, h.1.symm, h.2.symm⟩
      · cases h
    · cases h

theorem typeCoercion_some {env : Env} {v w : Val} {t : Str} {e : Entry}
    (h : typeCoercion env v t = some (w, e)) :
    t = NUMBER ∧ ∃ s after, v = .str s ∧ Denotes env s w after ∧ e = ⟨"TYPE_COERCION", s, after, .repair, true, false⟩ := by
  simp only [typeCoercion] at h
  split at h
  · cases h
  · rename_i ht
    have ht' : t = NUMBER := by simpa [NUMBER] using ht
    refine ⟨ht', ?_⟩
    cases v with
    | str s =>
      simp only at h
      split at h
      · cases h
      · split at h
        · rename_i w' after hco
          simp only [Option.some.injEq, Prod.mk.injEq] at h
          refine ⟨s, after, rfl, ?_, h.2.symm⟩
          rw [← h.1]
          rcases coerceNumber_some hco with ⟨n, hn, hw, ha⟩ | ⟨f, hf, hfin, hw, ha⟩
          · rw [hw, ha]; exact Denotes.int s n hn
          · rw [hw, ha]; exact Denotes.float s f hf hfin
        · cases h
    | _ => simp at h

theorem attempt_nonstr (env : Env) (v : Val) (c : Constraint) (h : ∀ s, v ≠ .str s) : attempt env v c = none := by
  cases c with
  | enum a => cases v <;> simp_all [attempt, enumCasefold]
  | type t => cases v <;> simp_all [attempt, typeCoercion]
  | _ => simp [attempt]

/-- A successful attempt is a permitted step motivated by that very constraint. -/
theorem attempt_step {env : Env} {chain : List Constraint} {c : Constraint} {v w : Val} {e : Entry}
    (hc : c ∈ chain) (h : attempt env v c = some (w, e)) : Step env chain c v w e := by
  cases c with
  | enum A =>
    simp only [attempt] at h
    obtain ⟨s, X, hv, hw, he, hs, hm⟩ := enumCasefold_some h
    obtain ⟨hX, hl, hu⟩ := ciMatches_single hm
    subst hv hw he
    exact Step.casefold A s X hc hs hX hl hu
  | type t =>
    simp only [attempt] at h
    obtain ⟨ht, s, after, hv, hd, he⟩ := typeCoercion_some h
    subst ht hv he
    exact Step.coerce s w after hc hd
  | req => simp [attempt] at h
  | opt => simp [attempt] at h
  | ext i => simp [attempt] at h

/-- The result of a successful attempt is a text with the same lower-case form, or not a text. -/
theorem attempt_lower {env : Env} {c : Constraint} {s : Str} {w : Val} {e : Entry}
    (h : attempt env (.str s) c = some (w, e)) : (∃ x, w = .str x ∧ env.lower x = env.lower s) ∨ (∀ x, w ≠ .str x) := by
  cases c with
  | enum A =>
    simp only [attempt] at h
    obtain ⟨s', X, hv, hw, _, _, hm⟩ := enumCasefold_some h
    cases hv
    exact Or.inl ⟨X, hw, (ciMatches_single hm).2.1⟩
  | type t =>
    simp only [attempt] at h
    obtain ⟨_, s', after, hv, hd, _⟩ := typeCoercion_some h
    right
    intro x hx
    cases hd <;> cases hx
  | req => simp [attempt] at h
  | opt => simp [attempt] at h
  | ext i => simp [attempt] at h

/-! ### the loop of `repair_value` -/

theorem loop_nonstr (env : Env) (cs : List Constraint) (v : Val) (h : ∀ s, v ≠ .str s) : loop env cs v = (v, []) := by
  induction cs with
  | nil => simp [loop]
  | cons c cs ih => simp [loop, attempt_nonstr env v c h, ih]

theorem loop_steps (env : Env) (chain : List Constraint) :
    ∀ (cs : List Constraint) (v : Val), (∀ c ∈ cs, c ∈ chain) → Steps env chain v (loop env cs v).1 (loop env cs v).2
  | [], v, _ => by simp only [loop]; exact Steps.nil v
  | c :: cs, v, h => by
    simp only [loop]
    cases ha : attempt env v c with
    | none => exact loop_steps env chain cs v (fun c' hc' => h c' (List.mem_cons_of_mem _ hc'))
    | some r =>
      obtain ⟨w, e⟩ := r
      simp only
      exact Steps.cons (attempt_step (h c (List.mem_cons_self ..)) ha)
        (loop_steps env chain cs w (fun c' hc' => h c' (List.mem_cons_of_mem _ hc')))

/-- nothing logged ⇒ nothing changed. -/
theorem steps_nil_eq {env : Env} {chain : List Constraint} {v w : Val} (h : Steps env chain v w []) : w = v := by
  cases h; rfl

theorem loop_nil_eq (env : Env) (cs : List Constraint) (v : Val) (h : (loop env cs v).2 = []) : (loop env cs v).1 = v := by
  have := loop_steps env cs cs v (fun _ hc => hc)
  rw [h] at this
  exact steps_nil_eq this

/-- a value no constraint of the list can improve is a fixed point of the loop. -/
theorem loop_fixed (env : Env) : ∀ (cs : List Constraint) (v : Val), (∀ c ∈ cs, attempt env v c = none) → loop env cs v = (v, [])
  | [], v, _ => by simp [loop]
  | c :: cs, v, h => by
    simp only [loop, h c (List.mem_cons_self ..)]
    exact loop_fixed env cs v (fun c' hc' => h c' (List.mem_cons_of_mem _ hc'))

/-- the final value of the loop is a text with the same lower-case form, or not a text. -/
theorem loop_lower (env : Env) : ∀ (cs : List Constraint) (s : Str),
    (∃ x, (loop env cs (.str s)).1 = .str x ∧ env.lower x = env.lower s) ∨ (∀ x, (loop env cs (.str s)).1 ≠ .str x)
  | [], s => by simp [loop]
  | c :: cs, s => by
    simp only [loop]
    cases ha : attempt env (.str s) c with
    | none => exact loop_lower env cs s
    | some r =>
      obtain ⟨w, e⟩ := r
      simp only
      rcases attempt_lower ha with ⟨x, hw, hl⟩ | hn
      · subst hw
        rcases loop_lower env cs x with ⟨y, hy, hly⟩ | hn
        · exact Or.inl ⟨y, hy, hly.trans hl⟩
        · exact Or.inr hn
      · right
        rw [loop_nonstr env cs w hn]
        exact hn

/-! ### `repair_value` -/

/-- `repair_value` with `fix=True` and the definition found under key `k`: permitted steps only. -/
theorem repairValue_steps (env : Env) (sch : Schema) (k : Str) (v : Val) :
    Steps env (chainOf sch k) v (repairValue env v (sch.get k) true).1 (repairValue env v (sch.get k) true).2 := by
  simp only [repairValue]
  split
  · exact Steps.nil v
  · simp only [Bool.not_true, Bool.false_eq_true, ↓reduceIte]
    cases hg : sch.get k with
    | none => exact Steps.nil v
    | some fd =>
      obtain ⟨pat⟩ := fd
      cases pat with
      | none => exact Steps.nil v
      | some pat =>
        obtain ⟨ch, tgt⟩ := pat
        cases ch with
        | none => exact Steps.nil v
        | some ch =>
          simp only
          split
          · exact Steps.nil v
          · split
            · exact Steps.nil v
            · have : chainOf sch k = ch.cs := by simp [chainOf, hg]
              rw [this]
              simp only [settle]
              split
              · exact Steps.nil v
              · exact loop_steps env ch.cs ch.cs v (fun _ h => h)

theorem repairValue_nil_eq (env : Env) (sch : Schema) (k : Str) (v : Val)
    (h : (repairValue env v (sch.get k) true).2 = []) : (repairValue env v (sch.get k) true).1 = v := by
  have := repairValue_steps env sch k v
  rw [h] at this
  exact steps_nil_eq this

/-! ### trees -/

theorem explained_append {env : Env} {sch : Schema} {l1 l1' l2 l2' : List (Str × Val)} {g1 g2 : List Entry}
    (h1 : Explained env sch l1 l1' g1) (h2 : Explained env sch l2 l2' g2) :
    Explained env sch (l1 ++ l2) (l1' ++ l2') (g1 ++ g2) := by
  induction h1 with
  | nil => simpa using h2
  | cons hs _ ih =>
    simp only [List.cons_append, List.append_assoc]
    exact Explained.cons hs ih

/-- the leaf `repairNode` produces for an assignment. -/
theorem repairNode_assign_steps (env : Env) (sch : Schema) (p : Pos) (k : Str) (v : Val) :
    ∃ v', (repairNode env sch (.assign p k v)).1 = .assign p k v' ∧
      Steps env (chainOf sch k) v v' (repairNode env sch (.assign p k v)).2 := by
  simp only [repairNode]
  split
  · exact ⟨v, rfl, Steps.nil v⟩
  · cases hg : sch.get k with
    | none => exact ⟨v, rfl, Steps.nil v⟩
    | some fd =>
      simp only
      have hs := repairValue_steps env sch k v
      rw [hg] at hs
      by_cases he : (repairValue env v (some fd) true).2 = []
      · refine ⟨v, ?_, ?_⟩
        · simp [he]
        · rw [he]; exact Steps.nil v
      · refine ⟨(repairValue env v (some fd) true).1, ?_, hs⟩
        have : (repairValue env v (some fd) true).2.isEmpty = false := by
          cases h : (repairValue env v (some fd) true).2 with
          | nil => exact absurd h he
          | cons _ _ => rfl
        simp [this]

mutual
theorem explained_node (env : Env) (sch : Schema) : ∀ n : Node,
    Explained env sch n.leaves (repairNode env sch n).1.leaves (repairNode env sch n).2
  | .assign p k v => by
    obtain ⟨v', hn, hs⟩ := repairNode_assign_steps env sch p k v
    rw [hn]
    simp only [Node.leaves]
    have := Explained.cons (sch := sch) hs (Explained.nil (env := env))
    simpa using this
  | .block p k t cs => by
    simp only [repairNode, Node.leaves]
    exact explained_nodes env sch cs
  | .sect p i k a cs => by
    simp only [repairNode, Node.leaves]
    exact explained_nodes env sch cs
  | .other p id => by
    simp only [repairNode, Node.leaves]
    exact Explained.nil
theorem explained_nodes (env : Env) (sch : Schema) : ∀ ns : List Node,
    Explained env sch (Node.leavesList ns) (Node.leavesList (repairNodes env sch ns).1) (repairNodes env sch ns).2
  | [] => by
    simp only [repairNodes, Node.leavesList]
    exact Explained.nil
  | n :: ns => by
    simp only [repairNodes, Node.leavesList]
    exact explained_append (explained_node env sch n) (explained_nodes env sch ns)
end

mutual
theorem skel_node (env : Env) (sch : Schema) : ∀ n : Node, (repairNode env sch n).1.skeleton = n.skeleton
  | .assign p k v => by
    simp only [repairNode]
    split
    · rfl
    · split <;> simp [Node.skeleton]
  | .block p k t cs => by
    simp only [repairNode, Node.skeleton]
    rw [skel_nodes env sch cs]
  | .sect p i k a cs => by
    simp only [repairNode, Node.skeleton]
    rw [skel_nodes env sch cs]
  | .other p id => by simp [repairNode, Node.skeleton]
theorem skel_nodes (env : Env) (sch : Schema) : ∀ ns : List Node,
    Node.skeletonList (repairNodes env sch ns).1 = Node.skeletonList ns
  | [] => by simp [repairNodes, Node.skeletonList]
  | n :: ns => by
    simp only [repairNodes, Node.skeletonList]
    rw [skel_node env sch n, skel_nodes env sch ns]
end

/-! ### idempotence (after commit 9d272b4: a chain of repairs that returns to its start is dropped) -/

/-- On the texts of one lower-case class a constraint either maps everything to one text (an ENUM
with a single case-insensitive match) or changes nothing; `lastConst` is the last such text in the
chain, if any. -/
def lastConst (env : Env) : List Constraint → Str → Option Str
  | [], _ => none
  | c :: cs, s =>
    match lastConst env cs s with
    | some m => some m
    | none =>
      match c with
      | .enum A => (match ciMatches env A s with | [m] => some m | _ => none)
      | _ => none

/-- "no text of the class of `s` coerces" (needed only when the chain has a TYPE[NUMBER]). -/
def NoCoerce (env : Env) (cs : List Constraint) (s : Str) : Prop :=
  Constraint.type NUMBER ∈ cs → ∀ t, env.lower t = env.lower s → typeCoercion env (.str t) NUMBER = none

/-- Lemma S: a run that never coerces ends at `lastConst` (or where it started), and logs nothing
when there is no such text. -/
theorem loop_strings (env : Env) (s : Str) : ∀ (cs : List Constraint), NoCoerce env cs s →
    ∀ a, env.lower a = env.lower s →
      (loop env cs (.str a)).1 = .str ((lastConst env cs s).getD a) ∧
      (lastConst env cs s = none → (loop env cs (.str a)).2 = [])
  | [], _, a, _ => by simp [loop, lastConst]
  | c :: cs, hnc, a, hla => by
    have hnc' : NoCoerce env cs s := fun hm => hnc (List.mem_cons_of_mem _ hm)
    have ih := loop_strings env s cs hnc'
    simp only [loop]
    cases c with
    | enum A =>
      cases ha : attempt env (.str a) (.enum A) with
      | some r =>
        obtain ⟨w, e⟩ := r
        simp only [attempt] at ha
        obtain ⟨s', X, hv, hw, _, _, hm⟩ := enumCasefold_some ha
        cases hv
        subst hw
        have hm0 : ciMatches env A s = [X] := by rw [← ciMatches_congr hla]; exact hm
        have hlX : env.lower X = env.lower s := ((ciMatches_single hm).2.1).trans hla
        obtain ⟨h1, _⟩ := ih X hlX
        simp only [h1, lastConst, hm0]
        cases hlc : lastConst env cs s <;> simp
      | none =>
        simp only [attempt] at ha
        obtain ⟨h1, h2⟩ := ih a hla
        simp only [h1, lastConst]
        cases hlc : lastConst env cs s with
        | some m => simp
        | none =>
          simp only [Option.getD_none]
          cases hms : ciMatches env A s with
          | nil => simp [h2 hlc]
          | cons m rest =>
            cases rest with
            | cons m2 rest2 => simp [h2 hlc]
            | nil =>
              -- a single match and no repair: `a` is that match already
              have hma : ciMatches env A a = [m] := by rw [ciMatches_congr hla]; exact hms
              rcases enumCasefold_str_iff.mp ha with haA | hno
              · have : a = m := (ciMatches_single hma).2.2 a haA rfl
                simp [this]
              · exact absurd hma (hno m)
    | type t =>
      have hat : attempt env (.str a) (.type t) = none := by
        simp only [attempt]
        by_cases ht : t = NUMBER
        · subst ht
          exact hnc (List.mem_cons_self ..) a hla
        · simp [typeCoercion, NUMBER] at ht ⊢
          intro h; exact absurd h ht
      obtain ⟨h1, h2⟩ := ih a hla
      simp only [hat, h1, lastConst]
      cases hlc : lastConst env cs s with
      | some m => simp
      | none => simp [h2 hlc]
    | req =>
      obtain ⟨h1, h2⟩ := ih a hla
      simp only [attempt, h1, lastConst]
      cases hlc : lastConst env cs s with
      | some m => simp
      | none => simp [h2 hlc]
    | opt =>
      obtain ⟨h1, h2⟩ := ih a hla
      simp only [attempt, h1, lastConst]
      cases hlc : lastConst env cs s with
      | some m => simp
      | none => simp [h2 hlc]
    | ext i =>
      obtain ⟨h1, h2⟩ := ih a hla
      simp only [attempt, h1, lastConst]
      cases hlc : lastConst env cs s with
      | some m => simp
      | none => simp [h2 hlc]

/-- Lemma N: a run that ends in a text met, at every TYPE[NUMBER], a text of the class that does not coerce. -/
theorem loop_str_witness (env : Env) (s : Str) : ∀ (cs : List Constraint) (a x : Str), env.lower a = env.lower s →
    (loop env cs (.str a)).1 = .str x → Constraint.type NUMBER ∈ cs →
    ∃ b, env.lower b = env.lower s ∧ typeCoercion env (.str b) NUMBER = none
  | [], _, _, _, _, hm => by cases hm
  | c :: cs, a, x, hla, hfin, hm => by
    simp only [loop] at hfin
    cases ha : attempt env (.str a) c with
    | none =>
      rw [ha] at hfin
      rcases List.mem_cons.mp hm with hc | hm'
      · subst hc
        exact ⟨a, hla, by simpa [attempt] using ha⟩
      · exact loop_str_witness env s cs a x hla hfin hm'
    | some r =>
      obtain ⟨w, e⟩ := r
      rw [ha] at hfin
      simp only at hfin
      rcases attempt_lower ha with ⟨y, hw, hly⟩ | hn
      · subst hw
        rcases List.mem_cons.mp hm with hc | hm'
        · -- a successful attempt of TYPE[NUMBER] yields a number, not a text
          subst hc
          simp only [attempt] at ha
          obtain ⟨_, s', after, _, hd, _⟩ := typeCoercion_some ha
          cases hd
        · exact loop_str_witness env s cs y x (hly.trans hla) hfin hm'
      · rw [loop_nonstr env cs w hn] at hfin
        exact absurd hfin (hn x)

theorem noCoerce_of_final_str {env : Env} (hcs : CaseStable env) {cs : List Constraint} {s x : Str}
    (h : (loop env cs (.str s)).1 = .str x) : NoCoerce env cs s := by
  intro hm t hlt
  obtain ⟨b, hlb, hb⟩ := loop_str_witness env s cs s x rfl h hm
  have := hcs t b (hlt.trans hlb.symm)
  rw [hb] at this
  simpa using this

theorem settle_fst_of_nil {v : Val} {r : Val × List Entry} (h : (settle v r).2 = []) (hr : r.2 = [] → r.1 = v) :
    (settle v r).1 = v := by
  simp only [settle] at h ⊢
  split
  · rfl
  · rename_i hc
    rw [if_neg hc] at h
    exact hr h

/-- the loop followed by `settle`, applied to its own result: nothing changes, nothing is logged. -/
theorem settled_loop_idem {env : Env} (hcs : CaseStable env) (cs : List Constraint) (v : Val) :
    settle (settle v (loop env cs v)).1 (loop env cs (settle v (loop env cs v)).1) = ((settle v (loop env cs v)).1, []) := by
  by_cases hv : ∃ s, v = .str s
  · obtain ⟨s, rfl⟩ := hv
    rcases loop_lower env cs s with ⟨x, hx, hlx⟩ | hn
    · -- run 1 ends in the text x
      have hnc := noCoerce_of_final_str hcs hx
      obtain ⟨h1, h1n⟩ := loop_strings env s cs hnc s rfl
      have hxeq : x = (lastConst env cs s).getD s := by rw [hx] at h1; exact Val.str.inj h1
      -- whatever `settle` decides, the value after run 1 is the text x
      have hr1 : (settle (.str s) (loop env cs (.str s))).1 = .str x := by
        simp only [settle]
        split
        · rename_i hc
          simp only [Bool.and_eq_true, hx, sameText, beq_iff_eq] at hc
          rw [hc.2]
        · exact hx
      rw [hr1]
      obtain ⟨h2, h2n⟩ := loop_strings env s cs hnc x hlx
      -- run 2 ends in x again
      have hfin2 : (loop env cs (.str x)).1 = .str x := by
        rw [h2]
        cases hlc : lastConst env cs s with
        | none => simp
        | some m => rw [hxeq, hlc]; simp
      simp only [settle, hfin2, sameText, beq_self_eq_true, Bool.and_true]
      cases hes : (loop env cs (.str x)).2 with
      | nil =>
        simp only [List.isEmpty_nil, Bool.not_true, Bool.false_eq_true, ↓reduceIte]
        rw [Prod.ext_iff]; exact ⟨hfin2, hes⟩
      | cons e es => simp
    · -- run 1 ends in a non-text (a number): `settle` keeps it, run 2 does nothing
      have hr1 : (settle (.str s) (loop env cs (.str s))).1 = (loop env cs (.str s)).1 := by
        simp only [settle]
        split
        · rename_i hc
          simp only [Bool.and_eq_true] at hc
          cases hw : (loop env cs (.str s)).1 <;> simp_all [sameText]
        · rfl
      rw [hr1, loop_nonstr env cs _ hn]
      simp [settle]
  · have hn : ∀ s, v ≠ .str s := fun s hs => hv ⟨s, hs⟩
    rw [loop_nonstr env cs v hn]
    simp [settle, loop_nonstr env cs v hn]

theorem attempt_kind {env : Env} {v w : Val} {c : Constraint} {e : Entry} (h : attempt env v c = some (w, e)) :
    w.isZone = false ∧ w.isNone = false := by
  cases c with
  | enum A =>
    simp only [attempt] at h
    obtain ⟨_, X, _, hw, _⟩ := enumCasefold_some h
    subst hw; exact ⟨rfl, rfl⟩
  | type t =>
    simp only [attempt] at h
    obtain ⟨_, s', after, _, hd, _⟩ := typeCoercion_some h
    cases hd <;> exact ⟨rfl, rfl⟩
  | req => simp [attempt] at h
  | opt => simp [attempt] at h
  | ext i => simp [attempt] at h

theorem loop_kind (env : Env) : ∀ (cs : List Constraint) (v : Val), v.isZone = false → v.isNone = false →
    (loop env cs v).1.isZone = false ∧ (loop env cs v).1.isNone = false
  | [], v, hz, hn => by simp [loop, hz, hn]
  | c :: cs, v, hz, hn => by
    simp only [loop]
    cases ha : attempt env v c with
    | none => exact loop_kind env cs v hz hn
    | some r =>
      obtain ⟨w, e⟩ := r
      simp only
      obtain ⟨hz', hn'⟩ := attempt_kind ha
      exact loop_kind env cs w hz' hn'

theorem settle_kind {v : Val} {r : Val × List Entry} (hz : v.isZone = false) (hn : v.isNone = false)
    (hrz : r.1.isZone = false) (hrn : r.1.isNone = false) :
    (settle v r).1.isZone = false ∧ (settle v r).1.isNone = false := by
  simp only [settle]
  split
  · exact ⟨hz, hn⟩
  · exact ⟨hrz, hrn⟩

/-- `repair_value` applied to its own result changes nothing and logs nothing. -/
theorem repairValue_idem {env : Env} (hcs : CaseStable env) (sch : Schema) (k : Str) (v : Val) :
    repairValue env (repairValue env v (sch.get k) true).1 (sch.get k) true = ((repairValue env v (sch.get k) true).1, []) := by
  cases hg : sch.get k with
  | none => simp [repairValue]
  | some fd =>
    obtain ⟨pat⟩ := fd
    cases pat with
    | none => by_cases hz : v.isZone <;> simp [repairValue, hz]
    | some pat =>
      obtain ⟨ch, tgt⟩ := pat
      cases ch with
      | none => by_cases hz : v.isZone <;> simp [repairValue, hz]
      | some ch =>
        by_cases hz : v.isZone
        · simp [repairValue, hz]
        · by_cases he : ch.cs.isEmpty
          · simp [repairValue, hz, he]
          · by_cases hn : v.isNone
            · simp [repairValue, hz, he, hn]
            · have hz' : v.isZone = false := by simpa using hz
              have hn' : v.isNone = false := by simpa using hn
              obtain ⟨hz1, hn1⟩ := loop_kind env ch.cs v hz' hn'
              obtain ⟨hz2, hn2⟩ := settle_kind (r := loop env ch.cs v) hz' hn' hz1 hn1
              have hidem := settled_loop_idem hcs ch.cs v
              simp [repairValue, hz', hn', he, hz2, hn2, hidem]

theorem step_notZone {env : Env} {chain : List Constraint} {c : Constraint} {v w : Val} {e : Entry}
    (h : Step env chain c v w e) : w.isZone = false := by
  cases h with
  | casefold => rfl
  | coerce s w after _ hd => cases hd <;> rfl

theorem steps_notZone {env : Env} {chain : List Constraint} {v w : Val} {es : List Entry}
    (h : Steps env chain v w es) (hz : v.isZone = false) : w.isZone = false := by
  induction h with
  | nil => exact hz
  | cons hstep _ ih => exact ih (step_notZone hstep)

theorem idem_assign {env : Env} (hcs : CaseStable env) (sch : Schema) (p : Pos) (k : Str) (v : Val) :
    repairNode env sch (repairNode env sch (.assign p k v)).1 = ((repairNode env sch (.assign p k v)).1, []) := by
  by_cases hz : v.isZone
  · simp [repairNode, hz]
  · cases hg : sch.get k with
    | none => simp [repairNode, hz, hg]
    | some fd =>
      have hz' : v.isZone = false := by simpa using hz
      have hid := repairValue_idem hcs sch k v
      rw [hg] at hid
      have hnil := repairValue_nil_eq env sch k v
      rw [hg] at hnil
      have hval : (if (repairValue env v (some fd) true).2.isEmpty then v else (repairValue env v (some fd) true).1)
          = (repairValue env v (some fd) true).1 := by
        split
        · rename_i h
          exact (hnil (by simpa using h)).symm
        · rfl
      have hz2 : (repairValue env v (some fd) true).1.isZone = false := by
        have hs := repairValue_steps env sch k v
        rw [hg] at hs
        exact steps_notZone hs hz'
      simp only [repairNode, hz', Bool.false_eq_true, ↓reduceIte, hg, hval, hz2, hid, List.isEmpty_nil]

mutual
theorem idem_node {env : Env} (hcs : CaseStable env) (sch : Schema) : ∀ n : Node,
    repairNode env sch (repairNode env sch n).1 = ((repairNode env sch n).1, [])
  | .assign p k v => idem_assign hcs sch p k v
  | .block p k t cs => by
    have := idem_nodes hcs sch cs
    simp only [repairNode, this]
  | .sect p i k a cs => by
    have := idem_nodes hcs sch cs
    simp only [repairNode, this]
  | .other p id => by simp [repairNode]
theorem idem_nodes {env : Env} (hcs : CaseStable env) (sch : Schema) : ∀ ns : List Node,
    repairNodes env sch (repairNodes env sch ns).1 = ((repairNodes env sch ns).1, [])
  | [] => by simp [repairNodes]
  | n :: ns => by
    have h1 := idem_node hcs sch n
    have h2 := idem_nodes hcs sch ns
    simp only [repairNodes, h1, h2, List.append_nil]
end

end Octave.Lemmas
