/-
The integer numeral grammar of `Model/Numeral.pyInt`, characterised declaratively (used by Props/C11).
-/
import Octave.Model.Numeral
namespace Octave.Lemmas
open Octave Numeral

/-- Declarative grammar of the digit part of an integer numeral: `digit ('_'? digit)*`, with the
digit values read off left to right. -/
inductive DigitGroups : Str → List Nat → Prop
  | one (c : Char) (d : Nat) : digit? c = some d → DigitGroups [c] [d]
  | more (c : Char) (d : Nat) (rest : Str) (ds : List Nat) :
      digit? c = some d → DigitGroups rest ds → DigitGroups (c :: rest) (d :: ds)
  | under (c : Char) (d : Nat) (rest : Str) (ds : List Nat) :
      digit? c = some d → DigitGroups rest ds → DigitGroups (c :: '_' :: rest) (d :: ds)

theorem digit_not_underscore {d : Nat} : digit? '_' ≠ some d := by
  have : digit? '_' = none := by decide
  simp [this]

/-- after a digit: either the end, or a further group. -/
theorem digitsTail_spec : ∀ (s : Str) (ds : List Nat),
    digitsTail s = some ds ↔ ((s = [] ∧ ds = []) ∨ DigitGroups s ds ∨ (∃ r, s = '_' :: r ∧ DigitGroups r ds))
  | [], ds => by
    simp only [digitsTail, Option.some.injEq, true_and]
    constructor
    · intro h; exact Or.inl h.symm
    · rintro (h | h | ⟨r, h, _⟩)
      · exact h.symm
      · cases h
      · cases h
  | [c], ds => by
    simp only [digitsTail]
    by_cases hu : c = '_'
    · subst hu
      simp only [↓reduceIte]
      constructor
      · intro h; cases h
      · rintro (⟨h, _⟩ | h | ⟨r, h, hg⟩)
        · cases h
        · cases h with
          | one _ d hd => exact absurd hd digit_not_underscore
          | more _ d _ _ hd _ => exact absurd hd digit_not_underscore
        · cases h; cases hg
    · simp only [hu, ↓reduceIte]
      cases hd : digit? c with
      | none =>
        simp only
        constructor
        · intro h; cases h
        · rintro (⟨h, _⟩ | h | ⟨r, h, _⟩)
          · cases h
          · cases h with
            | one _ d hd' => rw [hd] at hd'; cases hd'
            | more _ d _ _ hd' _ => rw [hd] at hd'; cases hd'
          · cases h; exact absurd rfl hu
      | some n =>
        simp only [Option.map_some, Option.some.injEq]
        constructor
        · intro h; subst h; exact Or.inr (Or.inl (DigitGroups.one c n hd))
        · rintro (⟨h, _⟩ | h | ⟨r, h, _⟩)
          · cases h
          · cases h with
            | one _ d hd' => rw [hd] at hd'; cases hd'; rfl
            | more _ d _ _ _ hg => cases hg
          · cases h; exact absurd rfl hu
  | c :: c2 :: cs, ds => by
    simp only [digitsTail]
    by_cases hu : c = '_'
    · subst hu
      simp only [↓reduceIte]
      cases hd : digit? c2 with
      | none =>
        simp only
        constructor
        · intro h; cases h
        · rintro (⟨h, _⟩ | h | ⟨r, h, hg⟩)
          · cases h
          · cases h with
            | more _ d _ _ hd' _ => exact absurd hd' digit_not_underscore
            | under _ d _ _ hd' _ => exact absurd hd' digit_not_underscore
          · cases h
            cases hg with
            | one _ d hd' => rw [hd] at hd'; cases hd'
            | more _ d _ _ hd' _ => rw [hd] at hd'; cases hd'
            | under _ d _ _ hd' _ => rw [hd] at hd'; cases hd'
      | some n =>
        simp only [Option.map_eq_some_iff]
        have ih := digitsTail_spec cs
        constructor
        · rintro ⟨ds', h, rfl⟩
          right; right
          refine ⟨c2 :: cs, rfl, ?_⟩
          rcases (ih ds').mp h with ⟨h1, h2⟩ | h1 | ⟨r, h1, h2⟩
          · subst h1 h2; exact DigitGroups.one c2 n hd
          · exact DigitGroups.more c2 n cs ds' hd h1
          · subst h1; exact DigitGroups.under c2 n r ds' hd h2
        · rintro (⟨h, _⟩ | h | ⟨r, h, hg⟩)
          · cases h
          · cases h with
            | more _ d _ _ hd' _ => exact absurd hd' digit_not_underscore
            | under _ d _ _ hd' _ => exact absurd hd' digit_not_underscore
          · cases h
            cases hg with
            | one _ d hd' => rw [hd] at hd'; cases hd'; exact ⟨[], (ih []).mpr (Or.inl ⟨rfl, rfl⟩), rfl⟩
            | more _ d _ ds' hd' hg' => rw [hd] at hd'; cases hd'; exact ⟨ds', (ih ds').mpr (Or.inr (Or.inl hg')), rfl⟩
            | under _ d r' ds' hd' hg' => rw [hd] at hd'; cases hd'; exact ⟨ds', (ih ds').mpr (Or.inr (Or.inr ⟨r', rfl, hg'⟩)), rfl⟩
    · simp only [hu, ↓reduceIte]
      cases hd : digit? c with
      | none =>
        simp only
        constructor
        · intro h; cases h
        · rintro (⟨h, _⟩ | h | ⟨r, h, _⟩)
          · cases h
          · cases h with
            | more _ d _ _ hd' _ => rw [hd] at hd'; cases hd'
            | under _ d _ _ hd' _ => rw [hd] at hd'; cases hd'
          · cases h; exact absurd rfl hu
      | some n =>
        simp only [Option.map_eq_some_iff]
        have ih := digitsTail_spec (c2 :: cs)
        constructor
        · rintro ⟨ds', h, rfl⟩
          right; left
          rcases (ih ds').mp h with ⟨h1, _⟩ | h1 | ⟨r, h1, h2⟩
          · cases h1
          · exact DigitGroups.more c n (c2 :: cs) ds' hd h1
          · injection h1 with h1a h1b
            subst h1a h1b
            exact DigitGroups.under c n _ ds' hd h2
        · rintro (⟨h, _⟩ | h | ⟨r, h, _⟩)
          · cases h
          · cases h with
            | more _ d _ ds' hd' hg' => rw [hd] at hd'; cases hd'; exact ⟨ds', (ih ds').mpr (Or.inr (Or.inl hg')), rfl⟩
            | under _ d r' ds' hd' hg' => rw [hd] at hd'; cases hd'; exact ⟨ds', (ih ds').mpr (Or.inr (Or.inr ⟨_, rfl, hg'⟩)), rfl⟩
          · cases h; exact absurd rfl hu


theorem digitsBody_iff (s : Str) (ds : List Nat) : digitsBody s = some ds ↔ DigitGroups s ds := by
  cases s with
  | nil =>
    simp only [digitsBody]
    constructor
    · intro h; cases h
    · intro h; cases h
  | cons c cs =>
    simp only [digitsBody]
    cases hd : digit? c with
    | none =>
      simp only
      constructor
      · intro h; cases h
      · intro h
        cases h with
        | one _ d hd' => rw [hd] at hd'; cases hd'
        | more _ d _ _ hd' _ => rw [hd] at hd'; cases hd'
        | under _ d _ _ hd' _ => rw [hd] at hd'; cases hd'
    | some n =>
      simp only [Option.map_eq_some_iff]
      constructor
      · rintro ⟨ds', h, rfl⟩
        rcases (digitsTail_spec cs ds').mp h with ⟨h1, h2⟩ | h1 | ⟨r, h1, h2⟩
        · subst h1 h2; exact DigitGroups.one c n hd
        · exact DigitGroups.more c n cs ds' hd h1
        · subst h1; exact DigitGroups.under c n r ds' hd h2
      · intro h
        cases h with
        | one _ d hd' => rw [hd] at hd'; cases hd'; exact ⟨[], (digitsTail_spec [] []).mpr (Or.inl ⟨rfl, rfl⟩), rfl⟩
        | more _ d _ ds' hd' hg => rw [hd] at hd'; cases hd'; exact ⟨ds', (digitsTail_spec cs ds').mpr (Or.inr (Or.inl hg)), rfl⟩
        | under _ d r ds' hd' hg => rw [hd] at hd'; cases hd'; exact ⟨ds', (digitsTail_spec _ ds').mpr (Or.inr (Or.inr ⟨r, rfl, hg⟩)), rfl⟩

/-- `int(text)` succeeds with value `n` exactly when, after the Unicode→ASCII transformation and
trimming of C blanks, the text is an optional sign followed by digit groups separated by single
underscores, of at most 4300 digits, and `n` is the signed decimal value of those digits. -/
theorem pyInt_spec (env : Env) (s : Str) (n : Int) :
    pyInt env s = some n ↔
      ∃ ds, DigitGroups (splitSign (trimC (s.map (transform env)))).2 ds ∧ ds.length ≤ maxStrDigits ∧
        n = (if (splitSign (trimC (s.map (transform env)))).1 then -(Int.ofNat (ofDigits ds)) else Int.ofNat (ofDigits ds)) := by
  simp only [pyInt]
  generalize splitSign (trimC (s.map (transform env))) = sb
  obtain ⟨neg, body⟩ := sb
  simp only
  cases hb : digitsBody body with
  | none =>
    simp only
    constructor
    · intro h; cases h
    · rintro ⟨ds, hg, _, _⟩
      rw [(digitsBody_iff body ds).mpr hg] at hb
      cases hb
  | some ds =>
    simp only
    have hg := (digitsBody_iff body ds).mp hb
    by_cases hl : ds.length > maxStrDigits
    · simp only [hl, ↓reduceIte]
      constructor
      · intro h; cases h
      · rintro ⟨ds', hg', hl', _⟩
        have : ds' = ds := by
          have := (digitsBody_iff body ds').mpr hg'
          rw [hb] at this
          exact (Option.some.inj this).symm
        subst this
        omega
    · simp only [hl, ↓reduceIte, Option.some.injEq]
      constructor
      · intro h
        exact ⟨ds, hg, by omega, h.symm⟩
      · rintro ⟨ds', hg', _, hn⟩
        have : ds' = ds := by
          have := (digitsBody_iff body ds').mpr hg'
          rw [hb] at this
          exact (Option.some.inj this).symm
        subst this
        exact hn.symm

end Octave.Lemmas
