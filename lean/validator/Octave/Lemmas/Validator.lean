/-
Helper lemmas about `Model/Validator` (used by Props/C09): every function `validate` calls on the
document gives the same result on the document with all spelling erased.
-/
import Octave.Model.Validator
import Octave.Model.Tools
namespace Octave.Lemmas
open Octave Validator

mutual
theorem toPy_erase : ∀ v : Val, v.erase.toPy = v.toPy
  | .null => rfl
  | .bool _ => rfl
  | .int _ => rfl
  | .float _ => rfl
  | .str _ => rfl
  | .list items sp => by simp only [Val.erase, Val.toPy, toPyList_erase items]
  | .map pairs => by simp only [Val.erase, Val.toPy, toPyPairs_erase pairs]
  | .zone _ _ _ => rfl
  | .other _ => rfl
theorem toPyList_erase : ∀ vs : List Val, Val.toPyList (Val.eraseList vs) = Val.toPyList vs
  | [] => rfl
  | v :: vs => by simp only [Val.eraseList, Val.toPyList, toPy_erase v, toPyList_erase vs]
theorem toPyPairs_erase : ∀ ps : List (Str × Val), Val.toPyPairs (Val.erasePairs ps) = Val.toPyPairs ps
  | [] => rfl
  | (k, v) :: ps => by simp only [Val.erasePairs, Val.toPyPairs, toPy_erase v, toPyPairs_erase ps]
end

theorem key_erase (n : Node) : n.erase.key? = n.key? := by
  cases n <;> simp [Node.erase, Node.key?]

theorem presentFields_erase : ∀ ns : List Node, presentFields (Node.eraseList ns) = presentFields ns
  | [] => rfl
  | .assign p k v :: ns => by simp only [Node.eraseList, Node.erase, presentFields, toPy_erase, presentFields_erase ns]
  | .block p k t cs :: ns => by simp only [Node.eraseList, Node.erase, presentFields, presentFields_erase ns]
  | .sect p i k a cs :: ns => by simp only [Node.eraseList, Node.erase, presentFields, presentFields_erase ns]
  | .other p id :: ns => by simp only [Node.eraseList, Node.erase, presentFields, presentFields_erase ns]

mutual
theorem blockTargets_erase : ∀ (path : List Str) (n : Node), blockTargets path n.erase = blockTargets path n
  | path, .assign _ _ _ => by simp [Node.erase, blockTargets]
  | path, .block p k t cs => by simp only [Node.erase, blockTargets, blockTargetsList_erase (path ++ [k]) cs]
  | path, .sect p i k a cs => by simp only [Node.erase, blockTargets, blockTargetsList_erase (path ++ [k]) cs]
  | path, .other _ _ => by simp [Node.erase, blockTargets]
theorem blockTargetsList_erase : ∀ (path : List Str) (ns : List Node), blockTargetsList path (Node.eraseList ns) = blockTargetsList path ns
  | path, [] => rfl
  | path, n :: ns => by simp only [Node.eraseList, blockTargetsList, blockTargets_erase path n, blockTargetsList_erase path ns]
end

theorem validateSection_erase (ve : VEnv) (bt : List (Str × Str)) (s : Node) (sch : Option Schema) :
    validateSection ve bt s.erase sch = validateSection ve bt s sch := by
  cases sch with
  | none => rfl
  | some sch =>
    cases s with
    | block p k t cs => simp only [Node.erase, validateSection, presentFields_erase]
    | assign p k v => rfl
    | sect p i k a cs => rfl
    | other p id => rfl

theorem eraseList_eq_map : ∀ ns : List Node, Node.eraseList ns = ns.map Node.erase
  | [] => rfl
  | n :: ns => by simp [Node.eraseList, eraseList_eq_map ns]

/-- `validate` reads content only: erasing all spelling does not change its result. -/
theorem validate_content (ve : VEnv) (hmeta : ∀ m strict, ve.metaErrors (Doc.erasePairs m) strict = ve.metaErrors m strict)
    (d : Doc) (strict : Bool) (ss : Option (List (Str × Schema))) :
    validate ve d.content strict ss = validate ve d strict ss := by
  simp only [validate, Doc.content, blockTargetsList_erase, hmeta]
  congr 2
  rw [eraseList_eq_map, List.map_map]
  congr 1
  apply List.map_congr_left
  intro s _
  simp only [Function.comp, key_erase, validateSection_erase]

/-! ### `_to_python_value` loses nothing but spelling; the tool skeleton -/

mutual
theorem toPy_inj : ∀ v w : Val, v.toPy = w.toPy → v.erase = w.erase
  | .null, w, h => by cases w <;> simp_all [Val.toPy, Val.erase]
  | .bool _, w, h => by cases w <;> simp_all [Val.toPy, Val.erase]
  | .int _, w, h => by cases w <;> simp_all [Val.toPy, Val.erase]
  | .float _, w, h => by cases w <;> simp_all [Val.toPy, Val.erase]
  | .str _, w, h => by cases w <;> simp_all [Val.toPy, Val.erase]
  | .zone _ _ _, w, h => by cases w <;> simp_all [Val.toPy, Val.erase]
  | .other _, w, h => by cases w <;> simp_all [Val.toPy, Val.erase]
  | .list items sp, w, h => by
    cases w with
    | list items' sp' =>
      simp only [Val.toPy, PyVal.list.injEq] at h
      simp only [Val.erase, toPyList_inj items items' h]
    | _ => simp [Val.toPy] at h
  | .map pairs, w, h => by
    cases w with
    | map pairs' =>
      simp only [Val.toPy, PyVal.dict.injEq] at h
      simp only [Val.erase, toPyPairs_inj pairs pairs' h]
    | _ => simp [Val.toPy] at h
theorem toPyList_inj : ∀ vs ws : List Val, Val.toPyList vs = Val.toPyList ws → Val.eraseList vs = Val.eraseList ws
  | [], [], _ => rfl
  | [], _ :: _, h => by simp [Val.toPyList] at h
  | _ :: _, [], h => by simp [Val.toPyList] at h
  | v :: vs, w :: ws, h => by
    simp only [Val.toPyList, List.cons.injEq] at h
    simp only [Val.eraseList, toPy_inj v w h.1, toPyList_inj vs ws h.2]
theorem toPyPairs_inj : ∀ ps qs : List (Str × Val), Val.toPyPairs ps = Val.toPyPairs qs → Val.erasePairs ps = Val.erasePairs qs
  | [], [], _ => rfl
  | [], (_, _) :: _, h => by simp [Val.toPyPairs] at h
  | (_, _) :: _, [], h => by simp [Val.toPyPairs] at h
  | (k, v) :: ps, (k', w) :: qs, h => by
    simp only [Val.toPyPairs, List.cons.injEq, Prod.mk.injEq] at h
    simp only [Val.erasePairs, h.1.1, toPy_inj v w h.1.2, toPyPairs_inj ps qs h.2]
end

open Tools in
theorem exec_middle (P : Tools.Params) (f : Tools.Flags) (content : Str) (hf : f.fix = false) :
    ∀ (rest : List Tools.Stage) (s : Tools.St), Tools.middleOk rest = true → s.canonical = none →
      (Tools.exec P f content rest s).canonical = s.doc.map P.emit ∧ (Tools.exec P f content rest s).log = s.log ∧
      (Tools.exec P f content rest s).doc = s.doc
  | [], s, h, _ => by simp [Tools.middleOk] at h
  | [.emit], s, _, _ => by simp [Tools.exec, Tools.step]
  | .readOnly c :: st :: rest, s, h, hc => by
    simp only [Tools.middleOk] at h
    simp only [Tools.exec, Tools.step]
    exact exec_middle P f content hf (st :: rest) s h hc
  | .repair gs :: st :: rest, s, h, hc => by
    simp only [Tools.middleOk, Bool.and_eq_true] at h
    have hg : gs.all (Tools.guardHolds f) = false := by
      apply List.all_eq_false.mpr
      refine ⟨"fix", by simpa using h.1, ?_⟩
      simp [Tools.guardHolds, hf]
    simp only [Tools.exec, Tools.step, hg, Bool.false_eq_true, ↓reduceIte]
    exact exec_middle P f content hf (st :: rest) s h.2 hc
  | [.readOnly c], s, h, _ => by simp [Tools.middleOk] at h
  | [.repair gs], s, h, _ => by simp [Tools.middleOk] at h
  | [.parse], s, h, _ => by simp [Tools.middleOk] at h
  | [.unknown _ _], s, h, _ => by simp [Tools.middleOk] at h
  | .parse :: _ :: _, s, h, _ => by simp [Tools.middleOk] at h
  | .emit :: _ :: _, s, h, _ => by simp [Tools.middleOk] at h
  | .unknown _ _ :: _ :: _, s, h, _ => by simp [Tools.middleOk] at h

end Octave.Lemmas
