/-
C11 — Schema repair changes only what it may, and logs every change.

Property theorems over the executable model `Model/Repair` (tied to repair.py by the correspondence
of tools/props/c11.py) and over the regenerated tables `Gen/Repair`, `Gen/Tools`.
Helper lemmas: `Lemmas/Repair`.  What a repair *may* do: `Spec/RepairSpec` (`Step`, `Steps`, `Explained`).
Documents are trees of Assignment / Block / Section nodes of any depth and width; values include
lists, inline maps and literal zones; schemas are arbitrary.
-/
import Octave.Lemmas.Repair
import Octave.Lemmas.Numeral
import Octave.Spec.AsciiEnv
import Octave.Model.Tools
import Octave.Gen.Repair
namespace Octave.C11
open Octave Repair Spec Lemmas

/-! ## fix off -/

/-- With fix off (or without a schema) the document is returned unchanged and nothing is logged. -/
theorem C11_off (env : Env) (d : Doc) (sch : Option Schema) : repair env d false sch = (d, []) := by
  cases sch <;> rfl

theorem C11_off_noschema (env : Env) (d : Doc) (fix : Bool) : repair env d fix none = (d, []) := by
  cases fix <;> rfl

/-- `repair_value(…, fix=False)` never changes a value. -/
theorem C11_off_value (env : Env) (v : Val) (fd : Option FieldDef) : repairValue env v fd false = (v, []) := by
  simp [repairValue]

/-! ## structure -/

/-- Keys, nesting, order, block targets, section ids: unchanged (`skeleton` erases values only). -/
theorem C11_skeleton (env : Env) (d : Doc) (fix : Bool) (sch : Option Schema) :
    (repair env d fix sch).1.skeleton = d.skeleton := by
  cases fix <;> cases sch <;> simp [repair, Doc.skeleton, skel_nodes]

/-- Nothing outside the section tree is touched: envelope name, META, frontmatter, separator, version. -/
theorem C11_envelope (env : Env) (d : Doc) (fix : Bool) (sch : Option Schema) :
    { (repair env d fix sch).1 with sections := d.sections } = d := by
  cases fix <;> cases sch <;> simp [repair]

/-! ## changes and log -/

/-- Leaf by leaf in traversal order: same keys; every value is reached from the old one by permitted
changes only (`Step`: ENUM case repair to the single case-insensitive match, or NUMBER coercion of a
text whose numeral denotes the new finite number); and the log is *exactly* the concatenation of the
entries of those changes, each with tier REPAIR, `before` = the old text, `after` = `str(new)`. -/
theorem C11_log (env : Env) (d : Doc) (sch : Schema) :
    Explained env sch d.leaves (repair env d true (some sch)).1.leaves (repair env d true (some sch)).2 := by
  simp only [repair, Doc.leaves]
  exact explained_nodes env sch d.sections

/-- Every logged entry has tier REPAIR and one of the two rule ids. -/
theorem C11_log_tier {env : Env} {sch : Schema} {ls ls' : List (Str × Val)} {log : List Entry}
    (h : Explained env sch ls ls' log) :
    ∀ e ∈ log, e.tier = .repair ∧ (e.ruleId = "ENUM_CASEFOLD" ∨ e.ruleId = "TYPE_COERCION") := by
  induction h with
  | nil => intro e he; cases he
  | cons hs _ ih =>
    intro e he
    rcases List.mem_append.mp he with h1 | h2
    · clear ih he
      induction hs with
      | nil => cases h1
      | cons hstep _ ih2 =>
        rcases List.mem_cons.mp h1 with rfl | h1'
        · cases hstep <;> exact ⟨rfl, by simp⟩
        · exact ih2 h1'
    · exact ih e h2

/-- A value without log entries is unchanged (so: every change is logged). -/
theorem C11_unlogged_unchanged {env : Env} {chain : List Constraint} {v w : Val}
    (h : Steps env chain v w []) : w = v := steps_nil_eq h

/-- Every changed value: keys aligned, and a changed value has a non-empty chain of permitted steps. -/
theorem C11_changes {env : Env} {sch : Schema} {ls ls' : List (Str × Val)} {log : List Entry}
    (h : Explained env sch ls ls' log) :
    Forall2 (fun a b => b.1 = a.1 ∧ (b.2 = a.2 ∨ ∃ es, es ≠ [] ∧ Steps env (chainOf sch a.1) a.2 b.2 es)) ls ls' := by
  induction h with
  | nil => exact Forall2.nil
  | @cons k v v' es log ls ls' hs _ ih =>
    refine Forall2.cons ⟨rfl, ?_⟩ ih
    cases es with
    | nil => exact Or.inl (steps_nil_eq hs)
    | cons e es => exact Or.inr ⟨e :: es, by simp, hs⟩

/-- What "the numeral denotes the integer" means, independently of the scanning code: after the
Unicode→ASCII transformation and trimming of blanks the text is `[+-] digit ('_'? digit)*` with at most
4300 digits (`DigitGroups`, a declarative grammar), and the integer is the signed decimal value of the
digits.  (For decimal fractions the double itself is an external value — `Env.floatVal`.) -/
theorem C11_int_numeral (env : Env) (s : Str) (n : Int) :
    Numeral.pyInt env s = some n ↔
      ∃ ds, DigitGroups (Numeral.splitSign (Numeral.trimC (s.map (Numeral.transform env)))).2 ds ∧
        ds.length ≤ Numeral.maxStrDigits ∧
        n = (if (Numeral.splitSign (Numeral.trimC (s.map (Numeral.transform env)))).1
              then -(Int.ofNat (Numeral.ofDigits ds)) else Int.ofNat (Numeral.ofDigits ds)) :=
  pyInt_spec env s n

/-! ## the new value satisfies the motivating constraint -/

theorem C11_satisfies {env : Env} (ce : CEnv) {chain : List Constraint} {c : Constraint} {v w : Val} {e : Entry}
    (h : Step env chain c v w e) : c ∈ chain ∧ c.eval ce w.toPy = none := by
  cases h with
  | casefold allowed s canonical hc _ hmem _ _ =>
    refine ⟨hc, ?_⟩
    simp [Constraint.eval, Constraint.evalEnum, Constraint.pyStrE, Val.toPy, PyVal.pyStr, PyVal.render, hmem]
  | coerce s w after hc hd =>
    refine ⟨hc, ?_⟩
    cases hd <;> simp [Constraint.eval, Constraint.evalType, Val.toPy, NUMBER]

/-! ## forbidden repairs -/

/-- Only text is ever changed: `None` is never filled, literal zones, lists, maps, numbers, booleans
and foreign objects pass through untouched and unlogged. -/
theorem C11_forbidden_nontext {env : Env} {chain : List Constraint} {v w : Val} {es : List Entry}
    (h : Steps env chain v w es) (hv : ∀ s, v ≠ .str s) : w = v ∧ es = [] := by
  cases h with
  | nil => exact ⟨rfl, rfl⟩
  | cons hstep _ => cases hstep <;> exact absurd rfl (hv _)

theorem C11_forbidden_none {env : Env} {chain : List Constraint} {w : Val} {es : List Entry}
    (h : Steps env chain .null w es) : w = .null ∧ es = [] :=
  C11_forbidden_nontext h (by intro s hs; cases hs)

theorem C11_forbidden_zone {env : Env} {chain : List Constraint} {c : Str} {i : Option Str} {f : Str} {w : Val} {es : List Entry}
    (h : Steps env chain (.zone c i f) w es) : w = .zone c i f ∧ es = [] :=
  C11_forbidden_nontext h (by intro s hs; cases hs)

/-- No node is added or removed and no block target is set: the skeleton (which records targets) is
unchanged — `C11_skeleton`.  In particular a missing required field stays missing. -/
theorem C11_forbidden_absent (env : Env) (d : Doc) (sch : Schema) :
    ((repair env d true (some sch)).1.leaves.map (·.1)) = d.leaves.map (·.1) := by
  have h := C11_changes (C11_log env d sch)
  generalize (repair env d true (some sch)).1.leaves = ls' at h
  generalize d.leaves = ls at h
  induction h with
  | nil => rfl
  | cons hab _ ih => simp [hab.1, ih]

/-- A text with no case-insensitive match, or with more than one, is never replaced by an ENUM. -/
theorem C11_forbidden_enum (env : Env) (s : Str) (allowed : List Str)
    (h : (ciMatches env allowed s).length ≠ 1) : enumCasefold env (.str s) allowed = none := by
  apply enumCasefold_str_iff.mpr
  right
  intro X hX
  rw [hX] at h
  exact h rfl

/-- A text that is already one of the allowed values is left alone. -/
theorem C11_forbidden_exact (env : Env) (s : Str) (allowed : List Str) (h : s ∈ allowed) :
    enumCasefold env (.str s) allowed = none :=
  enumCasefold_str_iff.mpr (Or.inl h)

/-- Non-finite results (overflow, `inf`, `nan`) and unparsable text are never coerced. -/
theorem C11_forbidden_nonfinite (env : Env) (st : Str) (f : PyFloat)
    (hb : (!st.contains '.' && !(env.lower st).contains 'e') = false)
    (hf : Numeral.pyFloat env st = some f) (hfin : f.finite = false) : coerceNumber env st = none := by
  simp only [coerceNumber, hb, Bool.false_eq_true, ↓reduceIte, hf, hfin]

/-! ## idempotence -/

/-- Repairing a repaired document changes nothing and logs nothing — for every schema and document
(since commit 9d272b4 `repair_value` drops a chain of repairs that ends where it started, which closed
known finding F40).  `CaseStable`: coercibility does not depend on letter case — an external law of
CPython's numeral grammar and `str.lower`, checked dynamically by the harness on every run. -/
theorem C11_idem {env : Env} (hcs : CaseStable env) (d : Doc) (sch : Schema) :
    repair env (repair env d true (some sch)).1 true (some sch) = ((repair env d true (some sch)).1, []) := by
  simp only [repair]
  rw [idem_nodes hcs sch d.sections]

/-- Regression vector of the former finding F40: two ENUMs whose single case-insensitive matches differ. -/
def f40Schema : Schema := { name := "W".toList, fields := [
  ("BOTH".toList, ⟨some ⟨some ⟨[.opt, .enum ["A".toList, "B".toList], .enum ["a".toList, "b".toList]], 0⟩, none⟩⟩)] }
def f40Doc : Doc := { name := "DOC".toList, sections := [.assign {} "BOTH".toList (.str "A".toList), .assign {} "BOTH".toList (.str "a".toList)] }

/-- first run: `A → a` is a real change and is logged; `a` (→ A → a) ends where it started and is not. -/
example : (repair asciiEnv f40Doc true (some f40Schema)).2 =
    [⟨"ENUM_CASEFOLD", "A".toList, "a".toList, .repair, true, false⟩] := by decide
/-- second run: silent (it used to log `a→A, A→a`). -/
example : (repair asciiEnv (repair asciiEnv f40Doc true (some f40Schema)).1 true (some f40Schema)).2 = [] := by decide

/-! ## the entry points call repair once, under their guard, and copy the log -/

open Tools in
/-- `octave_validate(fix=true)`: the document handed to `emit` and the copied log are exactly
`repair(parsed doc)`; with fix=false the parsed document reaches `emit` untouched and nothing is
logged.  (`validateToolProg` is regenerated from mcp/validate.py.) -/
theorem C11_tools_validate (rep : Doc → Doc × List Entry) (f : Tools.Flags) (d : Doc) :
    Tools.run rep f Tools.validateToolProg d = if f.fix then rep d else (d, []) := by
  cases hf : f.fix <;>
    simp [Tools.run, Tools.exec, Tools.step, Tools.validateToolProg, Tools.stageOf, Tools.readOnlyCallees,
      Gen.validateDocOps, Tools.guardHolds, hf]

/-- `octave_write(lenient=true, schema=…)`: repair runs once iff lenient ∧ schema definition found ∧
validation errors exist. -/
theorem C11_tools_write (rep : Doc → Doc × List Entry) (f : Tools.Flags) (d : Doc) :
    Tools.run rep f Tools.writeToolProg d =
      if f.lenient && f.schemaDefinition && f.validationErrors then rep d else (d, []) := by
  cases h1 : f.lenient <;> cases h2 : f.schemaDefinition <;> cases h3 : f.validationErrors <;>
    simp [Tools.run, Tools.exec, Tools.step, Tools.writeToolProg, Tools.siteProg, Gen.repairSites, Tools.guardHolds, h1, h2, h3]

/-- `octave validate --fix`: repair runs once iff --fix ∧ validation errors exist. -/
theorem C11_tools_cli (rep : Doc → Doc × List Entry) (f : Tools.Flags) (d : Doc) :
    Tools.run rep f Tools.cliValidateProg d = if f.fix && f.validationErrors then rep d else (d, []) := by
  cases h1 : f.fix <;> cases h3 : f.validationErrors <;>
    simp [Tools.run, Tools.exec, Tools.step, Tools.cliValidateProg, Tools.siteProg, Gen.repairSites, Tools.guardHolds, h1, h3]

/-! ## table facts (regenerated from the source on every run) -/

/-- rule ids, tiers and flags of every `repair_log.add` in repair.py are the ones the model logs. -/
theorem gen_repair_rules : Gen.repairLogAdds =
    [("_attempt_enum_casefold", "ENUM_CASEFOLD", "REPAIR", true, false, "value", "canonical"),
     ("_attempt_type_coercion", "TYPE_COERCION", "REPAIR", true, false, "value", "str(coerced)")] := by rfl

theorem gen_repair_tiers : Gen.repairTiers =
    [("NORMALIZATION", "NORMALIZATION"), ("REPAIR", "REPAIR"), ("FORBIDDEN", "FORBIDDEN")] := by decide

/-- the coercion is for `expected_type == "NUMBER"` only and swallows exactly ValueError/OverflowError. -/
theorem gen_coercion_type : Gen.coercionTypeTests = [("NotEq", ["NUMBER"])] := by decide
theorem gen_coercion_caught : Gen.coercionCaught = ["ValueError", "OverflowError"] := by decide

/-- `TypeConstraint`'s table is the one `Constraint.evalType` transcribes. -/
theorem gen_type_map : Gen.typeMap =
    [("STRING", ["str"]), ("NUMBER", ["int", "float"]), ("BOOLEAN", ["bool"]), ("LIST", ["list"])] := by decide

/-- every call of `repair()` passes the parsed `doc`, `fix=True`, the file-based schema definition;
all three read the returned log (the CLI since commit 6342678, which closed known finding F41). -/
theorem gen_repair_sites : Gen.repairSites.map (fun s => (s.1, s.2.2.1, s.2.2.2.1, s.2.2.2.2.1)) =
    [("mcp/validate.py", "True", "doc", "schema_definition"), ("mcp/write.py", "True", "doc", "schema_definition"),
     ("cli/main.py", "True", "doc", "schema_definition")] := by decide

theorem gen_repair_sites_guarded :
    (Gen.repairSites.map fun s => (s.1, s.2.1.contains "fix" || s.2.1.contains "lenient")) =
    [("mcp/validate.py", true), ("mcp/write.py", true), ("cli/main.py", true)] := by decide

theorem gen_tools_copy_log : Gen.repairSites.all (fun s => s.2.2.2.2.2) = true := by decide

/-! ## non-vacuity: a document of depth 3 with both kinds of repair, a two-step chain, a refused
overflow, an untouched zone and an untouched nested occurrence of a non-schema key -/

def exSchema : Schema := { name := "S".toList, fields := [
  ("STATUS".toList, ⟨some ⟨some ⟨[.req, .enum ["ACTIVE".toList, "DONE".toList]], 0⟩, none⟩⟩),
  ("COUNT".toList, ⟨some ⟨some ⟨[.opt, .type "NUMBER".toList], 0⟩, none⟩⟩),
  ("NE".toList, ⟨some ⟨some ⟨[.opt, .enum ["1E5".toList, "2".toList], .type "NUMBER".toList], 0⟩, none⟩⟩)] }

def exDoc : Doc := { name := "DOC".toList, sections := [
  .block {} "S".toList none [
    .assign {} "STATUS".toList (.str "active".toList), .assign {} "COUNT".toList (.str " 4_2 ".toList),
    .block {} "NEST".toList (some "SELF".toList) [
      .assign {} "NE".toList (.str "1e5".toList), .assign {} "COUNT".toList (.str "1e309".toList),
      .assign {} "COUNT".toList .null, .assign {} "OTHER".toList (.str "active".toList)]],
  .sect {} "1".toList "SEC".toList none [.assign {} "STATUS".toList (.zone "active".toList none "```".toList)]] }

example : (repair asciiEnv exDoc true (some exSchema)).2 =
  [⟨"ENUM_CASEFOLD", "active".toList, "ACTIVE".toList, .repair, true, false⟩,
   ⟨"TYPE_COERCION", " 4_2 ".toList, "42".toList, .repair, true, false⟩,
   ⟨"ENUM_CASEFOLD", "1e5".toList, "1E5".toList, .repair, true, false⟩,
   ⟨"TYPE_COERCION", "1E5".toList, "100000.0".toList, .repair, true, false⟩] := by decide

example : (repair asciiEnv exDoc false (some exSchema)).2 = [] := by decide
example : (repair asciiEnv exDoc true (some exSchema)).1.skeleton.length = 2 := by decide
/-- `C11_idem` on a non-trivial document. -/
example : (repair asciiEnv (repair asciiEnv exDoc true (some exSchema)).1 true (some exSchema)).2 = [] := by decide
/-- an instance of `Step` (hypotheses of `C11_satisfies`). -/
example : Step asciiEnv (chainOf exSchema "STATUS".toList) (.enum ["ACTIVE".toList, "DONE".toList])
    (.str "active".toList) (.str "ACTIVE".toList) ⟨"ENUM_CASEFOLD", "active".toList, "ACTIVE".toList, .repair, true, false⟩ :=
  Step.casefold _ _ _ (by decide) (by decide) (by decide) (by decide) (by decide)
/-- hypothesis of `C11_forbidden_enum`: an ambiguous value. -/
example : (ciMatches asciiEnv ["Ab".toList, "AB".toList, "c".toList] "ab".toList).length ≠ 1 := by decide
/-- `C11_int_numeral` on a numeral with blanks, sign, underscore. -/
example : Numeral.pyInt asciiEnv " -4_2 ".toList = some (-42) := by decide
example : DigitGroups "4_2".toList [4, 2] :=
  DigitGroups.under '4' 4 _ _ (by decide) (DigitGroups.one '2' 2 (by decide))
/-- hypothesis of `C11_forbidden_nonfinite`: overflow. -/
example : Numeral.pyFloat asciiEnv "1e309".toList = some ⟨"inf".toList, false⟩ := by decide

end Octave.C11
