/- C11 — placeholder while the check is being built (replaced below). -/
import Octave.Model.Repair
namespace Octave.C11
end Octave.C11
