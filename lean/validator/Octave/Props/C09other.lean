/-
C09 (content only) — the validator never looks at `other` nodes.

Orphan comments inside a block (and every node kind that is not Assignment / Block / Section) are
`Node.other` children.  `_validate_section` builds `present_fields` from Assignment children only,
`extract_block_targets` descends through Block / Section only, and a top-level `other` node has no
key, hence no schema, hence no verdicts.  So removing every `other` node — at every depth, top
level included — leaves the verdict list unchanged, with no hypothesis at all.
-/
import Octave.Props.C09
set_option linter.unusedSimpArgs false
namespace Octave

/-- is the node an `other` node (comment, …)? -/
def Node.isOther : Node → Bool
  | .other _ _ => true
  | _ => false

mutual
/-- Remove every `other` child at every depth below a node. -/
def Node.dropOthers : Node → Node
  | .assign p k v => .assign p k v
  | .block p k t cs => .block p k t (Node.dropOthersList cs)
  | .sect p i k a cs => .sect p i k a (Node.dropOthersList cs)
  | .other p id => .other p id
/-- Remove every `other` node of a list, at every depth. -/
def Node.dropOthersList : List Node → List Node
  | [] => []
  | n :: ns => (if Node.isOther n then [] else [Node.dropOthers n]) ++ Node.dropOthersList ns
end

/-- The document without any `other` node (top level and every depth). -/
def Doc.dropOthers (d : Doc) : Doc := { d with sections := Node.dropOthersList d.sections }

namespace C09
open Octave Validator Lemmas

theorem dropOther_presentFields : ∀ ns : List Node, presentFields (Node.dropOthersList ns) = presentFields ns
  | [] => rfl
  | .assign p k v :: ns => by
    simp only [Node.dropOthersList, Node.dropOthers, Node.isOther, if_true, if_false, Bool.false_eq_true, List.cons_append, List.nil_append, presentFields, dropOther_presentFields ns]
  | .block p k t cs :: ns => by
    simp only [Node.dropOthersList, Node.dropOthers, Node.isOther, if_true, if_false, Bool.false_eq_true, List.cons_append, List.nil_append, presentFields, dropOther_presentFields ns]
  | .sect p i k a cs :: ns => by
    simp only [Node.dropOthersList, Node.dropOthers, Node.isOther, if_true, if_false, Bool.false_eq_true, List.cons_append, List.nil_append, presentFields, dropOther_presentFields ns]
  | .other p id :: ns => by
    simp only [Node.dropOthersList, Node.dropOthers, Node.isOther, if_true, if_false, Bool.false_eq_true, List.nil_append, presentFields, dropOther_presentFields ns]

theorem dropOther_blockTargetsList : ∀ (path : List Str) (ns : List Node),
    blockTargetsList path (Node.dropOthersList ns) = blockTargetsList path ns
  | _, [] => rfl
  | path, .assign p k v :: ns => by
    simp only [Node.dropOthersList, Node.dropOthers, Node.isOther, if_true, if_false, Bool.false_eq_true, List.cons_append, List.nil_append, blockTargetsList, blockTargets,
      dropOther_blockTargetsList path ns]
  | path, .block p k t cs :: ns => by
    simp only [Node.dropOthersList, Node.dropOthers, Node.isOther, if_true, if_false, Bool.false_eq_true, List.cons_append, List.nil_append, blockTargetsList, blockTargets,
      dropOther_blockTargetsList path ns, dropOther_blockTargetsList (path ++ [k]) cs]
  | path, .sect p i k a cs :: ns => by
    simp only [Node.dropOthersList, Node.dropOthers, Node.isOther, if_true, if_false, Bool.false_eq_true, List.cons_append, List.nil_append, blockTargetsList, blockTargets,
      dropOther_blockTargetsList path ns, dropOther_blockTargetsList (path ++ [k]) cs]
  | path, .other p id :: ns => by
    simp only [Node.dropOthersList, Node.dropOthers, Node.isOther, if_true, if_false, Bool.false_eq_true, List.nil_append, blockTargetsList, blockTargets,
      dropOther_blockTargetsList path ns]

theorem dropOther_validateSection_other (ve : VEnv) (bt : List (Str × Str)) (p : Pos) (id : Nat) (sch : Option Schema) :
    validateSection ve bt (.other p id) sch = [] := by
  cases sch <;> rfl

/-- the per-section loop of `validate`, for any way `sch` of choosing the schema from the key. -/
theorem dropOther_sections (ve : VEnv) (bt : List (Str × Str)) (sch : Option Str → Option Schema) :
    ∀ ns : List Node,
      ((Node.dropOthersList ns).map fun s => validateSection ve bt s (sch s.key?)).flatten =
      (ns.map fun s => validateSection ve bt s (sch s.key?)).flatten
  | [] => rfl
  | .assign p k v :: ns => by
    simp only [Node.dropOthersList, Node.dropOthers, Node.isOther, if_true, if_false, Bool.false_eq_true, List.cons_append, List.nil_append, List.map_cons, List.flatten_cons,
      dropOther_sections ve bt sch ns]
  | .sect p i k a cs :: ns => by
    have h : ∀ cs', validateSection ve bt (.sect p i k a cs') (sch (Node.key? (.sect p i k a cs'))) = [] := by
      intro cs'; cases sch (Node.key? (.sect p i k a cs')) <;> rfl
    simp only [Node.dropOthersList, Node.dropOthers, Node.isOther, if_true, if_false, Bool.false_eq_true, List.cons_append, List.nil_append, List.map_cons, List.flatten_cons,
      dropOther_sections ve bt sch ns, h]
  | .block p k t cs :: ns => by
    have h : validateSection ve bt (.block p k t (Node.dropOthersList cs)) (sch (Node.key? (.block p k t (Node.dropOthersList cs))))
        = validateSection ve bt (.block p k t cs) (sch (Node.key? (.block p k t cs))) := by
      simp only [Node.key?]
      cases sch (some k) with
      | none => rfl
      | some s => simp only [validateSection, dropOther_presentFields]
    simp only [Node.dropOthersList, Node.dropOthers, Node.isOther, if_true, if_false, Bool.false_eq_true, List.cons_append, List.nil_append, List.map_cons, List.flatten_cons,
      dropOther_sections ve bt sch ns, h]
  | .other p id :: ns => by
    simp only [Node.dropOthersList, Node.dropOthers, Node.isOther, if_true, if_false, Bool.false_eq_true, List.nil_append, List.map_cons, List.flatten_cons,
      dropOther_sections ve bt sch ns, dropOther_validateSection_other, List.nil_append]

/-- **C09, `other` nodes are ignored.**  Removing every `other` node (orphan comments inside blocks,
any non Assignment / Block / Section node; every depth and the top level) does not change the list
of verdicts — for every document, environment, strictness and schema table; no hypothesis. -/
theorem C09_others_ignored (ve : VEnv) (d : Doc) (strict : Bool) (schemas : Option (List (Str × Schema))) :
    validate ve (Doc.dropOthers d) strict schemas = validate ve d strict schemas := by
  have hs := dropOther_sections ve (blockTargetsList [] d.sections)
    (fun k => match schemas, k with | some ss, some k => lookupLast k ss | _, _ => none) d.sections
  simp only [validate, Doc.dropOthers, dropOther_blockTargetsList]
  congr 2      -- closes the middle summand with `hs`

/-- Section level: a block with and without its `other` descendants gets the same verdicts. -/
theorem C09_others_ignored_section (ve : VEnv) (bt : List (Str × Str)) (s : Node) (sch : Option Schema) :
    validateSection ve bt s.dropOthers sch = validateSection ve bt s sch := by
  cases sch with
  | none => rfl
  | some sch =>
    cases s with
    | block p k t cs => simp only [Node.dropOthers, validateSection, dropOther_presentFields]
    | assign p k v => rfl
    | sect p i k a cs => rfl
    | other p id => rfl

/-! ## non-vacuity -/

/-- a block holding an orphan comment between two assignments, a nested block with one more, and a
top-level `other` node. -/
def exDocOther : Doc := { name := "DOC".toList, sections := [
  .other ⟨2, 1, [], none⟩ 7,
  .block ⟨3, 1, [], none⟩ "S".toList none [
    .assign ⟨4, 3, [], none⟩ "STATUS".toList (.str "active".toList),
    .other ⟨5, 3, [], none⟩ 0,
    .assign ⟨6, 3, [], none⟩ "ZED".toList (.int 1),
    .block ⟨7, 3, [], none⟩ "SUB".toList (some "INDEXER".toList) [.other ⟨8, 5, [], none⟩ 1]]] }

example : (Doc.dropOthers exDocOther).sections = [
  .block ⟨3, 1, [], none⟩ "S".toList none [
    .assign ⟨4, 3, [], none⟩ "STATUS".toList (.str "active".toList),
    .assign ⟨6, 3, [], none⟩ "ZED".toList (.int 1),
    .block ⟨7, 3, [], none⟩ "SUB".toList (some "INDEXER".toList) []]] := by rfl

example : validate exVEnv (Doc.dropOthers exDocOther) false (some [("S".toList, exSchema)]) =
    validate exVEnv exDocOther false (some [("S".toList, exSchema)]) := by decide

example : validate exVEnv exDocOther false (some [("S".toList, exSchema)]) =
    [("W001", "S.ZED".toList), ("E005", "S.STATUS".toList), ("E009", "S.STATUS".toList), ("E003", "S.NAME".toList)] := by decide

end C09
end Octave

#print axioms Octave.C09.C09_others_ignored
#print axioms Octave.C09.C09_others_ignored_section
#print axioms Octave.C09.dropOther_sections
#print axioms Octave.C09.dropOther_blockTargetsList
#print axioms Octave.C09.dropOther_presentFields
