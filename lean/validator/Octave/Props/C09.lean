/-
C09 — Validity is invariant under respelling; validating never alters content.

Property theorems over the executable model `Model/Validator` (tied to validator.py by the
correspondence of tools/props/c09.py) and over the stage skeleton of `ValidateTool.execute`
regenerated from the source (`Gen/Tools`, interpreted by `Model/Tools`).
`content d` erases everything that is spelling: line / column / comments of every node, the token
slices inside list values, the document's trailing comments.  A verdict is `(code, field path)`.

Not here: that every lenient respelling of a text *parses* to a document with the same content —
that is the reader's master theorem (DESIGN §6.3, engine `text`); C09's own part is the validator.
-/
import Octave.Lemmas.Validator
import Octave.Spec.AsciiEnv
import Octave.Gen.ReadOnly
namespace Octave.C09
open Octave Validator Lemmas

/-- The list of verdicts (hence the verdict *set* and the validation status computed from it) is a
function of document content: two documents with the same content receive the same verdicts, for
every schema map, strictness, constraint environment — any depth, any size.
`hmeta`: the old-style dict check `_validate_meta` (abstract in this engine) reads keys and values only. -/
theorem C09_congr (ve : VEnv)
    (hmeta : ∀ m strict, ve.metaErrors (Doc.erasePairs m) strict = ve.metaErrors m strict)
    (d₁ d₂ : Doc) (strict : Bool) (ss : Option (List (Str × Schema)))
    (h : d₁.content = d₂.content) :
    validate ve d₁ strict ss = validate ve d₂ strict ss := by
  rw [← validate_content ve hmeta d₁ strict ss, ← validate_content ve hmeta d₂ strict ss, h]

/-- … in particular for the document and its own content-normal form. -/
theorem C09_content_normal (ve : VEnv)
    (hmeta : ∀ m strict, ve.metaErrors (Doc.erasePairs m) strict = ve.metaErrors m strict)
    (d : Doc) (strict : Bool) (ss : Option (List (Str × Schema))) :
    validate ve d.content strict ss = validate ve d strict ss :=
  validate_content ve hmeta d strict ss

/-- Section validation alone needs no hypothesis at all. -/
theorem C09_section_congr (ve : VEnv) (bt : List (Str × Str)) (s₁ s₂ : Node) (sch : Option Schema)
    (h : s₁.erase = s₂.erase) : validateSection ve bt s₁ sch = validateSection ve bt s₂ sch := by
  rw [← validateSection_erase ve bt s₁ sch, ← validateSection_erase ve bt s₂ sch, h]

/-- `_to_python_value` converts AST values without loss: two AST values are handed to the constraint
evaluator as the same Python value exactly when they have the same content (so the evaluator can
tell apart precisely what content tells apart: kind, text, number, nesting — never spelling). -/
theorem C09_to_python_lossless (v w : Val) : v.toPy = w.toPy ↔ v.erase = w.erase := by
  constructor
  · exact toPy_inj v w
  · intro h
    rw [← toPy_erase v, ← toPy_erase w, h]

/-- Kind preservation: a text stays a text, a number a number (TYPE / CONST / RANGE see what the
document says). -/
theorem C09_to_python_kind (v : Val) :
    (∀ s, v = .str s ↔ v.toPy = .str s) ∧ (∀ i, v = .int i ↔ v.toPy = .int i) ∧ (∀ b, v = .bool b ↔ v.toPy = .bool b) ∧
    (v = .null ↔ v.toPy = .null) := by
  cases v <;> simp [Val.toPy]

/-! ## read-only -/

/-- Generic: any tool whose stages between `parse` and `emit` only read the document, or repair it
under a guard that includes `fix`, returns with fix off exactly `emit (parse input)`, logs nothing,
and hands `emit` the parsed document itself. -/
theorem C09_readonly_generic (P : Tools.Params) (f : Tools.Flags) (content : Str) (prog : List Tools.Stage)
    (hd : Tools.readOnlyUnlessFix prog = true) (hf : f.fix = false) :
    (Tools.exec P f content prog {}).canonical = (P.parse content).map P.emit ∧
    (Tools.exec P f content prog {}).log = [] ∧
    (Tools.exec P f content prog {}).doc = P.parse content := by
  cases prog with
  | nil => simp [Tools.readOnlyUnlessFix] at hd
  | cons st rest =>
    cases st with
    | parse =>
      simp only [Tools.readOnlyUnlessFix] at hd
      simp only [Tools.exec, Tools.step]
      exact exec_middle P f content hf rest _ hd rfl
    | _ => simp [Tools.readOnlyUnlessFix] at hd

/-- `ValidateTool.execute` as it is written today has that shape (regenerated from mcp/validate.py on
every run: dropping the `if fix:` around `repair(...)`, or a new statement touching `doc`, breaks this). -/
theorem gen_validate_discipline : Tools.readOnlyUnlessFix Tools.validateToolProg = true := by decide

/-- With fix off the canonical text `octave_validate` returns equals plain canonicalisation of the
input (`emit(parse(input))`), and no schema repair is logged. -/
theorem C09_readonly (P : Tools.Params) (f : Tools.Flags) (content : Str) (hf : f.fix = false) :
    (Tools.exec P f content Tools.validateToolProg {}).canonical = (P.parse content).map P.emit ∧
    (Tools.exec P f content Tools.validateToolProg {}).log = [] :=
  let h := C09_readonly_generic P f content Tools.validateToolProg gen_validate_discipline hf
  ⟨h.1, h.2.1⟩

/-- Static read-only scan of the validator (regenerated): the only store whose root may be document
data is the accumulator dict that `extract_block_targets` creates and passes down. -/
theorem gen_validator_readonly :
    (Gen.validatorStores.filter (fun r => r.2.2.2.2)).map (fun r => (r.1, r.2.2.1)) =
      [("_extract_targets_recursive", "targets[path_str]")] := by decide

/-- every callee the skeleton treats as read-only is one the scan covers. -/
theorem gen_readonly_callees : Tools.readOnlyCallees =
    ["_count_literal_zones", "validator.validate", "validator_for_repair.validate"] := by decide

/-! ## non-vacuity -/

def exSchema : Schema := { name := "S".toList, unknownFields := "WARN".toList, fields := [
  ("STATUS".toList, ⟨some ⟨some ⟨[.req, .enum ["ACTIVE".toList, "DONE".toList]], 0⟩, some "NOPE".toList⟩⟩),
  ("COUNT".toList, ⟨some ⟨some ⟨[.opt, .type "NUMBER".toList], 0⟩, none⟩⟩),
  ("NAME".toList, ⟨some ⟨some ⟨[.req], 0⟩, none⟩⟩)] }

def exVEnv : VEnv := { env := Spec.asciiEnv, ce := Spec.plainCEnv, metaErrors := fun _ _ => [], fmErrors := fun _ _ => [] }

/-- one spelling … -/
def exDoc₁ : Doc := { name := "DOC".toList, sections := [
  .block ⟨3, 1, ["// c".toList], none⟩ "S".toList none [
    .assign ⟨4, 3, [], some "t".toList⟩ "STATUS".toList (.str "active".toList),
    .assign ⟨5, 3, [], none⟩ "COUNT".toList (.list [.str "a".toList] [5, 9, 5, 10]),
    .assign ⟨6, 3, [], none⟩ "ZED".toList (.int 1)]] }
/-- … and another spelling of the same content. -/
def exDoc₂ : Doc := { name := "DOC".toList, trailingComments := ["x".toList], sections := [
  .block ⟨7, 1, [], none⟩ "S".toList none [
    .assign ⟨9, 5, [], none⟩ "STATUS".toList (.str "active".toList),
    .assign ⟨11, 5, [], none⟩ "COUNT".toList (.list [.str "a".toList] [11, 14, 12, 9]),
    .assign ⟨13, 5, [], none⟩ "ZED".toList (.int 1)]] }

example : exDoc₁.content = exDoc₂.content := by rfl
example : validate exVEnv exDoc₁ false (some [("S".toList, exSchema)]) =
    [("W001", "S.ZED".toList), ("E005", "S.STATUS".toList), ("E009", "S.STATUS".toList), ("E007", "S.COUNT".toList), ("E003", "S.NAME".toList)] := by decide
example : validate exVEnv exDoc₂ false (some [("S".toList, exSchema)]) = validate exVEnv exDoc₁ false (some [("S".toList, exSchema)]) := by decide
example : ∀ m strict, exVEnv.metaErrors (Doc.erasePairs m) strict = exVEnv.metaErrors m strict := fun _ _ => rfl
/-- an instance of the discipline's hypothesis and a program that violates it. -/
example : Tools.readOnlyUnlessFix [.parse, .readOnly "x", .repair ["fix", "other"], .emit] = true := by decide
example : Tools.readOnlyUnlessFix [.parse, .repair [], .emit] = false := by decide

end Octave.C09
