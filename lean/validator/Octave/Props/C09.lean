/- C09 — placeholder while the check is being built (replaced below). -/
import Octave.Model.Validator
namespace Octave.C09
end Octave.C09
