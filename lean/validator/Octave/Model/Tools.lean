/-
Stage skeleton of the entry points as far as the *document* flows through them
(`mcp/validate.py: ValidateTool.execute`, `mcp/write.py` lenient repair branch, `cli/main.py validate`).

The skeleton of `ValidateTool.execute` is not written by hand: it is `Gen.validateDocOps`, the ordered
list of operations touching the variable `doc`, regenerated from the source on every run, and
interpreted here.  `parse`, `emit`, `repair` and the effect of unrecognised operations are parameters.
-/
import Octave.Model.Repair
import Octave.Gen.Tools
namespace Octave.Tools

/-- Truth values of the guard atoms that can enclose a stage. -/
structure Flags where
  fix : Bool := false
  lenient : Bool := false
  schemaDefinition : Bool := false      -- `schema_definition is not None`
  validationErrors : Bool := false      -- `validation_errors` truthy
  deriving Repr, DecidableEq

/-- A guard atom holds?  Atoms the model does not know may hold (conservative). -/
def guardHolds (f : Flags) (g : String) : Bool :=
  if g = "fix" then f.fix
  else if g = "lenient" then f.lenient
  else if g = "schema_definition is not None" then f.schemaDefinition
  else if g = "validation_errors" then f.validationErrors
  else true

inductive Stage where
  | parse                                  -- `doc, … = parse_with_warnings(content)`
  | readOnly (callee : String)             -- receives `doc`, does not modify it
  | repair (guards : List String)          -- `doc, repair_log = repair(doc, …, fix=True, schema=…)`
  | emit                                   -- `emit(doc)`
  | unknown (what : String) (guards : List String)
  deriving Repr, DecidableEq

/-- Callees that receive the document and only read it.  Justified by `Gen.validatorStores`
(static scan, fact `gen_validator_readonly` in Props/C09) and by the dynamic deep-hash check of
tools/props/c09.py. -/
def readOnlyCallees : List String :=
  ["_count_literal_zones", "validator.validate", "validator_for_repair.validate"]

def stageOf : String × String × List String → Stage
  | (kind, callee, guards) =>
    if kind = "assign" && callee = "parse_with_warnings" then .parse
    else if kind = "assign" && callee = "repair" then .repair guards
    else if kind = "call" && callee = "emit" then .emit
    else if kind = "call" && readOnlyCallees.contains callee then .readOnly callee
    else .unknown (kind ++ ":" ++ callee) guards

/-- `ValidateTool.execute` as regenerated from the source. -/
def validateToolProg : List Stage := Gen.validateDocOps.map stageOf

/-- repair call sites of the other two entry points (guards regenerated from the source). -/
def siteProg (file : String) : List Stage :=
  [.parse] ++ ((Gen.repairSites.filter (·.1 = file)).map fun s => Stage.repair s.2.1) ++ [.emit]

def writeToolProg : List Stage := siteProg "mcp/write.py"
def cliValidateProg : List Stage := siteProg "cli/main.py"

/-- The outside of the skeleton. -/
structure Params where
  parse : Str → Option Doc                 -- `none` = raises (error envelope, not modelled further)
  emit : Doc → Str
  rep : Doc → Doc × List Entry             -- `repair(doc, errs, fix=True, schema=schema_definition)`
  unk : String → Doc → Doc                 -- an unrecognised operation on `doc`

/-- State while a tool runs: current `doc`, log copied so far, canonical output. -/
structure St where
  doc : Option Doc := none
  log : List Entry := []
  canonical : Option Str := none

def step (P : Params) (f : Flags) (content : Str) (s : St) : Stage → St
  | .parse => { s with doc := P.parse content }
  | .readOnly _ => s
  | .repair gs =>
    if gs.all (guardHolds f) then
      match s.doc with
      | some d => let (d', es) := P.rep d; { s with doc := some d', log := s.log ++ es }
      | none => s
    else s
  | .emit => { s with canonical := s.doc.map P.emit }
  | .unknown w gs => if gs.all (guardHolds f) then { s with doc := s.doc.map (P.unk w) } else s

def exec (P : Params) (f : Flags) (content : Str) : List Stage → St → St
  | [], s => s
  | st :: rest, s => exec P f content rest (step P f content s st)

/-- document-level run used by the driver: the stages after `parse`, on a given document. -/
def run (rep : Doc → Doc × List Entry) (f : Flags) (prog : List Stage) (d : Doc) : Doc × List Entry :=
  let P : Params := { parse := fun _ => some d, emit := fun _ => [], rep := rep, unk := fun _ d => d }
  let s := exec P f [] prog {}
  (s.doc.getD d, s.log)

/-- The discipline C09_readonly needs: first stage parses, last emits, and in between every stage
either only reads the document or is a repair guarded (at least) by `fix`. -/
def middleOk : List Stage → Bool
  | [] => false
  | [.emit] => true
  | .readOnly _ :: rest => middleOk rest
  | .repair gs :: rest => gs.contains "fix" && middleOk rest
  | _ => false

def readOnlyUnlessFix : List Stage → Bool
  | .parse :: rest => middleOk rest
  | _ => false

end Octave.Tools
