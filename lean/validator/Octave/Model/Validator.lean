/-
Executable model of `Validator.validate` / `_validate_section` / `_to_python_value`
(`octave_mcp/core/validator.py`) with the target-routing check it performs (`routing.py`,
`schema_extractor.extract_block_targets`, `InheritanceResolver`).

Abstract (parameters of `VEnv`): the old-style dict check `_validate_meta` (only the built-in `META`
schema has one) and `validate_frontmatter` (YAML).  An error is modelled as `(code, field_path)`:
the view property C09 speaks about; messages are not modelled, `line` is never set by the code.
-/
import Octave.Model.Repair
namespace Octave

abbrev Err := String × Str

structure VEnv where
  env : Env
  ce : CEnv
  /-- `_validate_meta(doc.meta, strict)` for the validator's dict schema (empty when the schema
  has no `META` entry or `doc.meta` is empty). -/
  metaErrors : List (Str × Val) → Bool → List Err
  /-- `validate_frontmatter(doc.raw_frontmatter, schema_def)`. -/
  fmErrors : Option Str → Schema → List Err

namespace Validator

/-! ### small Python helpers -/

def strLt : Str → Str → Bool
  | [], [] => false
  | [], _ :: _ => true
  | _ :: _, [] => false
  | a :: as, b :: bs => if a.toNat < b.toNat then true else if b.toNat < a.toNat then false else strLt as bs

def insertSorted (x : Str) : List Str → List Str
  | [] => [x]
  | y :: ys => if strLt y x then y :: insertSorted x ys else x :: y :: ys

/-- `sorted(set_of_str)`. -/
def sortStrs : List Str → List Str
  | [] => []
  | x :: xs => insertSorted x (sortStrs xs)

/-- `d.get(k)` for a dict built by successive `d[k] = v` (last assignment wins). -/
def lookupLast {β} (k : Str) : List (Str × β) → Option β
  | [] => none
  | (k', v) :: rest => match lookupLast k rest with
    | some w => some w
    | none => if k' = k then some v else none

/-- the `dict` a sequence of `d[k] = v` builds: keys in first-insertion order, last value wins. -/
def dictOf {β} (l : List (Str × β)) : List (Str × β) :=
  let rec go : List (Str × β) → List Str → List (Str × β)
    | [], _ => []
    | (k, _) :: rest, seen =>
      if seen.contains k then go rest seen
      else match lookupLast k l with
        | some v => (k, v) :: go rest (k :: seen)
        | none => go rest (k :: seen)
  go l []

/-- `s.split(".")`. -/
def splitDots : Str → List Str
  | [] => [[]]
  | c :: cs =>
    match splitDots cs with
    | [] => [[c]]            -- unreachable (`splitDots` never returns `[]`)
    | p :: ps => if c = '.' then [] :: p :: ps else (c :: p) :: ps

/-- `InheritanceResolver._ancestors(path)`: `".".join(path[:i])` for `i = len … 1`. -/
def ancestors (parts : List Str) : List Str :=
  (List.range parts.length).reverse.map fun i => joinWith ['.'] (parts.take (i + 1))

/-! ### block targets (`extract_block_targets`) -/

mutual
def blockTargets (path : List Str) : Node → List (Str × Str)
  | .block _ k t cs =>
    let cur := path ++ [k]
    (match t with | some tg => [(joinWith ['.'] cur, tg)] | none => []) ++ blockTargetsList cur cs
  | .sect _ _ k _ cs => blockTargetsList (path ++ [k]) cs
  | _ => []
def blockTargetsList (path : List Str) : List Node → List (Str × Str)
  | [] => []
  | n :: ns => blockTargets path n ++ blockTargetsList path ns
end

/-- `InheritanceResolver.resolve_target`. -/
def resolveTarget (parts : List Str) (bt : List (Str × Str)) : Option Str :=
  (ancestors parts).findSome? fun pre => lookupLast pre bt

/-! ### routing (`TargetRegistry.is_valid`, `TargetRouter.route`) -/

def builtins : List Str :=
  ["SELF", "META", "INDEXER", "DECISION_LOG", "RISK_LOG", "KNOWLEDGE_BASE"].map String.toList

def isValidTarget (custom : List Str) (name : Str) : Bool :=
  builtins.contains name || custom.contains name || ("./".toList).isPrefixOf name

/-- `spec.split("∨")`. -/
def splitOr : Str → List Str
  | [] => [[]]
  | c :: cs =>
    match splitOr cs with
    | [] => [[c]]
    | p :: ps => if c = '∨' then [] :: p :: ps else (c :: p) :: ps

/-- `TargetRouter.parse_target_spec`: `t.lstrip("§").strip()`. -/
def parseTargetSpec (env : Env) (spec : Str) : List Str :=
  (splitOr spec).map fun t => Numeral.strip env (t.dropWhile (· = '§'))

/-- does `router.route` raise `InvalidTargetError`? -/
def routeFails (env : Env) (custom : List Str) (spec : Str) : Bool :=
  (parseTargetSpec env spec).any fun t => !isValidTarget custom t

/-! ### `_validate_section` -/

/-- `present_fields`: `(key, _to_python_value(value))` of the Assignment children, in order. -/
def presentFields : List Node → List (Str × PyVal)
  | [] => []
  | .assign _ k v :: ns => (k, v.toPy) :: presentFields ns
  | _ :: ns => presentFields ns

def unknownFieldErrors (policy : Str) (sectionKey : Str) (unknown : List Str) : List Err :=
  if policy = "IGNORE".toList then []
  else if policy = "WARN".toList then unknown.map fun f => ("W001", sectionKey ++ ['.'] ++ f)
  else unknown.map fun f => ("E007", sectionKey ++ ['.'] ++ f)     -- REJECT and every invalid policy string

/-- the body of `for field_name, field_def in section_schema.fields.items()`. -/
def fieldErrors (ve : VEnv) (sch : Schema) (sectionKey : Str) (present : List (Str × PyVal))
    (custom : List Str) (bt : List (Str × Str)) (fname : Str) (fd : FieldDef) : List Err :=
  let value : PyVal := (lookupLast fname present).getD .null      -- `.get()` → None when absent
  let isNone := match value with | .null => true | _ => false
  let path := sectionKey ++ ['.'] ++ fname
  match fd.pattern with
  | none => []
  | some pat =>
    let routing : List Err :=
      let target : Option Str := match pat.target with
        | some t => some t
        | none => match resolveTarget (splitDots path) bt with
          | some t => some t
          | none => sch.defaultTarget
      match target with
      | some spec => if !isNone && routeFails ve.env custom spec then [("E009", path)] else []
      | none => []
    match pat.constraints with
    | none => routing
    | some ch =>
      if ch.cs.any Constraint.isReq && isNone then [("E003", path)]      -- `continue`
      else if isNone then []                                              -- `continue`
      else (ch.evaluate ve.ce value).map (fun c => (c, path)) ++ routing

def dedup : List Str → List Str
  | [] => []
  | x :: xs => if xs.contains x then dedup xs else x :: dedup xs

/-- `_validate_section(section, strict, section_schema)`. -/
def validateSection (ve : VEnv) (bt : List (Str × Str)) (sec : Node) (sch : Option Schema) : List Err :=
  match sch with
  | none => []
  | some sch =>
    match sec with
    | .block _ key _ children =>
      let present := presentFields children
      let docFields := dedup (present.map (·.1))
      let schemaFields := sch.fields.map (·.1)
      let unknown := sortStrs (docFields.filter fun f => !schemaFields.contains f)
      let unknownErrs := unknownFieldErrors sch.unknownFields key unknown
      let custom := sch.policyTargets
        ++ (match sch.defaultTarget with
            | some t => if !t.isEmpty && !builtins.contains t then [t] else []
            | none => [])
        ++ ((dictOf bt).map (·.2)).filter (fun t => !builtins.contains t)     -- `self._block_targets.values()`
      unknownErrs ++ (sch.fields.map fun (fname, fd) => fieldErrors ve sch key present custom bt fname fd).flatten
    | _ => []

/-- `Validator.validate(doc, strict, section_schemas)`; `sectionSchemas = none` is Python `None`. -/
def validate (ve : VEnv) (d : Doc) (strict : Bool) (sectionSchemas : Option (List (Str × Schema))) : List Err :=
  let bt := blockTargetsList [] d.sections
  let metaE := ve.metaErrors d.metaBlock strict
  let secE := (d.sections.map fun s =>
    let sch : Option Schema := match sectionSchemas, s.key? with
      | some ss, some k => lookupLast k ss
      | _, _ => none
    validateSection ve bt s sch).flatten
  let fmE := match sectionSchemas with
    | some ss => (ss.map fun (_, sd) => if sd.hasFrontmatter then ve.fmErrors d.frontmatter sd else []).flatten
    | none => []
  metaE ++ secE ++ fmE

end Validator
end Octave
