/-
Executable model of `octave_mcp/core/repair.py` + `repair_log.py` (transcription of the code that
exists).  The Python mutates the AST in place and appends to a `RepairLog`; the model returns the new
tree together with the list of log entries appended, in order.
-/
import Octave.Model.Doc
import Octave.Model.Constraints
import Octave.Model.Numeral
namespace Octave

/-- `RepairTier`. -/
inductive Tier where
  | normalization | repair | forbidden
  deriving Repr, DecidableEq, Inhabited

/-- `RepairEntry`. -/
structure Entry where
  ruleId : String
  before : Str
  after : Str
  tier : Tier
  safe : Bool := true
  semanticsChanged : Bool := false
  deriving Repr, DecidableEq, Inhabited

/-- `HolographicPattern` as far as repair and the validator read it. -/
structure Pattern where
  constraints : Option Chain       -- `None` when the pattern has no constraint part
  target : Option Str := none
  deriving Repr, DecidableEq, Inhabited

/-- `FieldDefinition`. -/
structure FieldDef where
  pattern : Option Pattern
  deriving Repr, DecidableEq, Inhabited

/-- `SchemaDefinition` as far as repair and the validator read it.  `fields` is the `dict`
(insertion order, keys unique). -/
structure Schema where
  name : Str
  fields : List (Str × FieldDef)
  unknownFields : Str := "REJECT".toList        -- `policy.unknown_fields`
  policyTargets : List Str := []
  defaultTarget : Option Str := none
  hasFrontmatter : Bool := false
  deriving Repr, Inhabited

namespace Schema
/-- `schema.fields.get(key)`. -/
def get (s : Schema) (k : Str) : Option FieldDef := s.fields.lookup k
end Schema

namespace Repair

/-- `_attempt_enum_casefold`: `none` = `(value, False)`, `some (v', entry)` = repaired. -/
def enumCasefold (env : Env) (value : Val) (allowed : List Str) : Option (Val × Entry) :=
  match value with
  | .str s =>
    if allowed.contains s then none
    else
      let lo := env.lower s
      let ms := allowed.filter (fun a => env.lower a == lo)
      match ms with
      | [canonical] => some (.str canonical, ⟨"ENUM_CASEFOLD", s, canonical, .repair, true, false⟩)
      | _ => none
  | _ => none

/-- The number a NUMBER coercion produces from a stripped, non-empty string: `int` when the text has
neither `.` nor `e`/`E`, else `float` (rejected when not finite).  `none` = no repair
(`ValueError` or non-finite).  Second component: `str(coerced)`. -/
def coerceNumber (env : Env) (stripped : Str) : Option (Val × Str) :=
  if !stripped.contains '.' && !(env.lower stripped).contains 'e' then
    match Numeral.pyInt env stripped with
    | some n => some (.int n, intStr n)
    | none => none
  else
    match Numeral.pyFloat env stripped with
    | some f => if f.finite then some (.float f, f.repr) else none
    | none => none

/-- `_attempt_type_coercion`. -/
def typeCoercion (env : Env) (value : Val) (expected : Str) : Option (Val × Entry) :=
  if expected ≠ "NUMBER".toList then none
  else match value with
    | .str s =>
      let stripped := Numeral.strip env s
      if stripped.isEmpty then none
      else match coerceNumber env stripped with
        | some (v, after) => some (v, ⟨"TYPE_COERCION", s, after, .repair, true, false⟩)
        | none => none
    | _ => none

/-- One constraint's attempt (the body of the `for constraint in constraints` loop). -/
def attempt (env : Env) (cur : Val) : Constraint → Option (Val × Entry)
  | .enum allowed => enumCasefold env cur allowed
  | .type t => typeCoercion env cur t
  | _ => none

/-- The loop of `repair_value`: current value and log entries appended so far. -/
def loop (env : Env) : List Constraint → Val → Val × List Entry
  | [], cur => (cur, [])
  | c :: cs, cur =>
    match attempt env cur c with
    | some (v, e) => let (v', es) := loop env cs v; (v', e :: es)
    | none => loop env cs cur

/-- `type(current_value) is type(value) and current_value == value` for a value that was repaired
(the original is then a `str`): both are the same text. -/
def sameText : Val → Val → Bool
  | .str a, .str b => a == b
  | _, _ => false

/-- the end of `repair_value` (commit 9d272b4): a chain of repairs that ends where it started changed
nothing — its log entries are deleted again (`del repair_log.repairs[log_start:]`) and the value is
reported as not repaired. -/
def settle (value : Val) (r : Val × List Entry) : Val × List Entry :=
  if !r.2.isEmpty && sameText r.1 value then (value, []) else r

/-- `repair_value(value, field_def, repair_log, fix)`: new value and the entries logged.
`was_repaired` is `entries ≠ []` (every successful attempt logs exactly one entry). -/
def repairValue (env : Env) (value : Val) (fd : Option FieldDef) (fix : Bool) : Val × List Entry :=
  if value.isZone then (value, [])
  else if !fix then (value, [])
  else match fd with
    | none => (value, [])
    | some fd => match fd.pattern with
      | none => (value, [])
      | some pat => match pat.constraints with
        | none => (value, [])
        | some ch =>
          if ch.cs.isEmpty then (value, [])
          else if value.isNone then (value, [])
          else settle value (loop env ch.cs value)

mutual
/-- `_repair_ast_node`. -/
def repairNode (env : Env) (sch : Schema) : Node → Node × List Entry
  | .assign p k v =>
    if v.isZone then (.assign p k v, [])
    else match sch.get k with
      | some fd =>
        let (v', es) := repairValue env v (some fd) true
        -- `if was_repaired: node.value = repaired_value`
        (.assign p k (if es.isEmpty then v else v'), es)
      | none => (.assign p k v, [])
  | .block p k t cs => let (cs', es) := repairNodes env sch cs; (.block p k t cs', es)
  | .sect p i k a cs => let (cs', es) := repairNodes env sch cs; (.sect p i k a cs', es)
  | .other p id => (.other p id, [])
def repairNodes (env : Env) (sch : Schema) : List Node → List Node × List Entry
  | [] => ([], [])
  | n :: ns =>
    let (n', e1) := repairNode env sch n
    let (ns', e2) := repairNodes env sch ns
    (n' :: ns', e1 ++ e2)
end

/-- `repair(doc, validation_errors, fix, schema)` (`validation_errors` is never read). -/
def repair (env : Env) (d : Doc) (fix : Bool) (schema : Option Schema) : Doc × List Entry :=
  match fix, schema with
  | true, some sch => let (ss, es) := repairNodes env sch d.sections; ({ d with sections := ss }, es)
  | _, _ => (d, [])

end Repair
end Octave
