/-
CPython's numeral grammar as `repair._attempt_type_coercion` uses it:
  `value.strip()`, `int(str)` (base 10), `float(str)`.

Transcribed from CPython 3.12:
  * `str.strip()`                              — `Py_UNICODE_ISSPACE` at both ends;
  * `_PyUnicode_TransformDecimalAndSpaceToASCII` — ASCII unchanged, Unicode space ↦ ' ',
                                                   Unicode decimal digit ↦ '0'+d, anything else ↦ '?';
  * `PyLong_FromString(…, base=10)`            — blanks, sign, `digit ('_'? digit)*`, blanks, end;
                                                   more than 4300 digits ⇒ `ValueError`;
  * `_Py_string_to_number_with_underscores` + `PyOS_string_to_double`
                                               — underscores only between digits; sign,
                                                 `inf|infinity|nan` or `D+[.D*]|.D+` with optional
                                                 `e[±]D+`; overflow gives ±inf (no exception).
The *value* of a decimal float literal (the correctly rounded double, as `repr` + finiteness) is an
external value (`Env.floatVal`), supplied by the harness from the running interpreter.
-/
import Octave.Model.Value
namespace Octave

/-- The outside world of this engine (Unicode tables and IEEE rounding of the running CPython). -/
structure Env where
  /-- `Py_UNICODE_ISSPACE(ch)` (= `str.isspace` on one character). -/
  isSpace : Char → Bool
  /-- `Py_UNICODE_TODECIMAL(ch)`. -/
  decimal : Char → Option Nat
  /-- `str.lower`. -/
  lower : Str → Str
  /-- `float(s)` for a string the grammar below accepts as a decimal literal: `repr` and `isfinite`;
  `none` = the harness did not supply it / CPython raised. -/
  floatVal : Str → Option PyFloat

namespace Numeral

/-- `str.strip()`. -/
def strip (env : Env) (s : Str) : Str :=
  ((s.dropWhile env.isSpace).reverse.dropWhile env.isSpace).reverse

/-- `_PyUnicode_TransformDecimalAndSpaceToASCII`, one character. -/
def transform (env : Env) (c : Char) : Char :=
  if c.toNat < 127 then c
  else if env.isSpace c then ' '
  else match env.decimal c with
    | some d => Char.ofNat (48 + d % 10)
    | none => '?'

/-- C `Py_ISSPACE`: space, \t \n \v \f \r. -/
def isCSpace (c : Char) : Bool :=
  c = ' ' || c = '\t' || c = '\n' || c = '\x0b' || c = '\x0c' || c = '\r'

/-- strip C blanks at both ends. -/
def trimC (s : Str) : Str := ((s.dropWhile isCSpace).reverse.dropWhile isCSpace).reverse

def digit? (c : Char) : Option Nat :=
  if '0' ≤ c ∧ c ≤ '9' then some (c.toNat - 48) else none

def isDigit (c : Char) : Bool := (digit? c).isSome

/-- after a digit: `('_'? digit)*` up to the end of the string. -/
def digitsTail : Str → Option (List Nat)
  | [] => some []
  | c :: cs =>
    if c = '_' then
      match cs with
      | [] => none
      | d :: ds => match digit? d with
        | none => none
        | some n => (digitsTail ds).map (n :: ·)
    else match digit? c with
      | none => none
      | some n => (digitsTail cs).map (n :: ·)

/-- `digit ('_'? digit)*`, whole string. -/
def digitsBody : Str → Option (List Nat)
  | [] => none
  | c :: cs => match digit? c with
    | none => none
    | some n => (digitsTail cs).map (n :: ·)

/-- value of a big-endian decimal digit list. -/
def ofDigits (ds : List Nat) : Nat := ds.foldl (fun acc d => acc * 10 + d) 0

/-- `sys.get_int_max_str_digits()` default. -/
def maxStrDigits : Nat := 4300

def splitSign : Str → Bool × Str
  | '+' :: r => (false, r)
  | '-' :: r => (true, r)
  | s => (false, s)

/-- `int(s)` for a `str` argument, base 10.  `none` = `ValueError`. -/
def pyInt (env : Env) (s : Str) : Option Int :=
  let t := trimC (s.map (transform env))
  let (neg, body) := splitSign t
  match digitsBody body with
  | none => none
  | some ds =>
    if ds.length > maxStrDigits then none
    else
      let n : Int := Int.ofNat (ofDigits ds)
      some (if neg then -n else n)

/-! ### `float(str)` -/

/-- `_Py_string_to_number_with_underscores`: remove underscores, each of which must stand between
two ASCII digits.  `prev` is the previous character (`none` at the start). -/
def stripUnderscores : Option Char → Str → Option Str
  | prev, [] => if prev = some '_' then none else some []
  | prev, c :: cs =>
    if c = '_' then
      match prev with
      | some p => if isDigit p then stripUnderscores (some c) cs else none
      | none => none
    else
      if prev = some '_' && !isDigit c then none
      else (stripUnderscores (some c) cs).map (c :: ·)

/-- ASCII lower-case of one character (C `Py_TOLOWER`). -/
def asciiLower (c : Char) : Char :=
  if 'A' ≤ c ∧ c ≤ 'Z' then Char.ofNat (c.toNat + 32) else c

/-- What a float literal denotes syntactically. -/
inductive FloatLit where
  | inf (neg : Bool)
  | nan
  | dec          -- a finite decimal numeral (its double is `Env.floatVal`)
  deriving Repr, DecidableEq

def takeDigits : Str → Str × Str
  | [] => ([], [])
  | c :: cs => if isDigit c then let (a, b) := takeDigits cs; (c :: a, b) else ([], c :: cs)

/-- exponent part, whole rest: `(e|E) [+-] D+`. -/
def isExponent : Str → Bool
  | c :: rest =>
    if c = 'e' || c = 'E' then
      let (_, r) := splitSign rest
      let (ds, r') := takeDigits r
      !ds.isEmpty && r'.isEmpty
    else false
  | [] => false

/-- `D+ [. D*] | . D+` followed by an optional exponent, whole string. -/
def isDecimalBody (s : Str) : Bool :=
  let (ip, r) := takeDigits s
  match r with
  | '.' :: r1 =>
    let (fp, r2) := takeDigits r1
    (!ip.isEmpty || !fp.isEmpty) && (r2.isEmpty || isExponent r2)
  | _ => !ip.isEmpty && (r.isEmpty || isExponent r)

/-- `PyOS_string_to_double` on the blank-trimmed, underscore-free ASCII string; must consume all. -/
def classify (s : Str) : Option FloatLit :=
  let (neg, body) := splitSign s
  let low := body.map asciiLower
  if low = "inf".toList || low = "infinity".toList then some (.inf neg)
  else if low = "nan".toList then some .nan
  else if isDecimalBody body then some .dec
  else none

/-- Syntactic part of `float(s)`: `none` = `ValueError`. -/
def floatLit (env : Env) (s : Str) : Option FloatLit :=
  let t := trimC (s.map (transform env))
  match (if t.contains '_' then stripUnderscores none t else some t) with
  | none => none
  | some u => classify u

/-- `float(s)` for a `str` argument.  `none` = `ValueError`. -/
def pyFloat (env : Env) (s : Str) : Option PyFloat :=
  match floatLit env s with
  | none => none
  | some (.inf neg) => some ⟨(if neg then "-inf" else "inf").toList, false⟩
  | some .nan => some ⟨"nan".toList, false⟩
  | some .dec => env.floatVal s

end Numeral
end Octave
