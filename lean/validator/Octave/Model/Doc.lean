/-
Documents as trees (`ast_nodes.py`): `Assignment`, `Block`, `Section` nodes at any depth, plus the
document envelope.  Everything that is *spelling* (line, column, comments; token slices inside
list values) sits in `Pos` / `Spell` so that `content` can erase it.
-/
import Octave.Model.Value
namespace Octave

/-- `ASTNode` base fields: position and attached comments.  Never content. -/
structure Pos where
  line : Nat := 0
  column : Nat := 0
  leading : List Str := []
  trailing : Option Str := none
  deriving Repr, DecidableEq, Inhabited

inductive Node where
  | assign (p : Pos) (key : Str) (value : Val)
  | block (p : Pos) (key : Str) (target : Option Str) (children : List Node)
  | sect (p : Pos) (sid : Str) (key : Str) (annotation : Option Str) (children : List Node)
  | other (p : Pos) (id : Nat)          -- any other node kind (`Comment`, …): no key, no children
  deriving Repr, Inhabited

structure Doc where
  p : Pos := {}
  name : Str
  metaBlock : List (Str × Val) := []       -- `doc.meta` (`dict`, insertion order)
  sections : List Node := []
  hasSeparator : Bool := false
  frontmatter : Option Str := none
  trailingComments : List Str := []       -- spelling
  grammarVersion : Option Str := none
  deriving Repr, Inhabited

namespace Node

def key? : Node → Option Str
  | assign _ k _ => some k
  | block _ k _ _ => some k
  | sect _ _ k _ _ => some k
  | other .. => none

mutual
/-- Erase spelling from a node (positions, comments, token slices in values). -/
def erase : Node → Node
  | assign _ k v => .assign {} k v.erase
  | block _ k t cs => .block {} k t (eraseList cs)
  | sect _ i k a cs => .sect {} i k a (eraseList cs)
  | other _ id => .other {} id
def eraseList : List Node → List Node
  | [] => []
  | n :: ns => erase n :: eraseList ns
end

/-- The shape of a tree with all values erased: node kinds, keys, nesting, order. -/
inductive Skel where
  | assign (key : Str)
  | block (key : Str) (target : Option Str) (children : List Skel)
  | sect (sid key : Str) (annotation : Option Str) (children : List Skel)
  | other (id : Nat)
  deriving Repr, Inhabited

mutual
def skeleton : Node → Skel
  | assign _ k _ => .assign k
  | block _ k t cs => .block k t (skeletonList cs)
  | sect _ i k a cs => .sect i k a (skeletonList cs)
  | other _ id => .other id
def skeletonList : List Node → List Skel
  | [] => []
  | n :: ns => skeleton n :: skeletonList ns
end

mutual
/-- All `(key, value)` of the assignments of a tree in traversal (document) order. -/
def leaves : Node → List (Str × Val)
  | assign _ k v => [(k, v)]
  | block _ _ _ cs => leavesList cs
  | sect _ _ _ _ cs => leavesList cs
  | other .. => []
def leavesList : List Node → List (Str × Val)
  | [] => []
  | n :: ns => leaves n ++ leavesList ns
end

end Node

namespace Doc

def erasePairs : List (Str × Val) → List (Str × Val)
  | [] => []
  | (k, v) :: ps => (k, v.erase) :: erasePairs ps

/-- `content d`: the document with every piece of spelling erased.  Two documents have the same
content iff `content d₁ = content d₂`. -/
def content (d : Doc) : Doc :=
  { d with p := {}, metaBlock := erasePairs d.metaBlock, sections := Node.eraseList d.sections, trailingComments := [] }

def skeleton (d : Doc) : List Node.Skel := Node.skeletonList d.sections
def leaves (d : Doc) : List (Str × Val) := Node.leavesList d.sections

end Doc
end Octave
