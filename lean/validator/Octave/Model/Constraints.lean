/-
The constraint evaluator as far as the validator engine needs it (`constraints.py`).

Concretely transcribed: `REQ`, `OPT`, `ENUM[…]`, `TYPE[…]` (the two kinds repair is about, and the
two the validator itself inspects) and `ConstraintChain.evaluate` / the REQ∧OPT conflict.  Every other
kind (CONST, REGEX, RANGE, MIN/MAX_LENGTH, DATE, ISO8601, DIR, APPEND_ONLY, TYPE[LITERAL], LANG) is
`ext i`: its verdict on a value is the *parameter* `ext : Nat → PyVal → Option Str` (error code or
`none`), supplied per case by the harness from the real `evaluate` — the engine `lean/constraints`
(property C08) is where those kinds are modelled.  CONST/ENUM and CONST/CONST conflicts are likewise
external: `extConflicts` = number of E999 errors `detect_conflicts` adds beyond REQ∧OPT.
-/
import Octave.Model.Value
namespace Octave

inductive Constraint where
  | req
  | opt
  | enum (allowed : List Str)      -- after `__post_init__`: every allowed value is a `str`
  | type (t : Str)                 -- `TypeConstraint(expected_type=t)`
  | ext (id : Nat)                 -- any other constraint object
  deriving Repr, DecidableEq, Inhabited

/-- `none` = valid, `some code` = the single error's code. -/
abbrev Verdict := Option String

/-- The constraint evaluator's outside world. -/
structure CEnv where
  ext : Nat → PyVal → Verdict
  /-- `str(value)` where `PyVal.pyStr` does not know it (zone / foreign objects). -/
  strOf : PyVal → Str

namespace Constraint

def isReq : Constraint → Bool | req => true | _ => false
def isOpt : Constraint → Bool | opt => true | _ => false
def isEnum : Constraint → Bool | enum _ => true | _ => false

def pyStrE (ce : CEnv) (v : PyVal) : Str := (v.pyStr).getD (ce.strOf v)

/-- `EnumConstraint.evaluate`. -/
def evalEnum (ce : CEnv) (allowed : List Str) (v : PyVal) : Verdict :=
  let s := pyStrE ce v
  if allowed.contains s then none
  else
    let ms := allowed.filter (fun a => s.isPrefixOf a)
    if ms.length == 0 then some "E005"
    else if ms.length > 1 then some "E006"
    else none

/-- `TypeConstraint.evaluate` (`type_map` = STRING, NUMBER, BOOLEAN, LIST). -/
def evalType (t : Str) (v : PyVal) : Verdict :=
  if t = "STRING".toList then (match v with | .str _ => none | _ => some "E007")
  else if t = "NUMBER".toList then (match v with | .int _ => none | .float _ => none | _ => some "E007")
  else if t = "BOOLEAN".toList then (match v with | .bool _ => none | _ => some "E007")
  else if t = "LIST".toList then (match v with | .list _ => none | _ => some "E007")
  else some "E999"

/-- `value is None or value == ""`. -/
def evalReq : PyVal → Verdict
  | .null => some "E003"
  | .str [] => some "E003"
  | _ => none

/-- `constraint.evaluate(value)`. -/
def eval (ce : CEnv) : Constraint → PyVal → Verdict
  | req, v => evalReq v
  | opt, _ => none
  | enum a, v => evalEnum ce a v
  | type t, v => evalType t v
  | ext i, v => ce.ext i v

end Constraint

/-- A `ConstraintChain`: its members plus the external conflict count. -/
structure Chain where
  cs : List Constraint
  extConflicts : Nat := 0
  deriving Repr, DecidableEq, Inhabited

namespace Chain

def conflicts (ch : Chain) : Nat :=
  (if ch.cs.any Constraint.isReq && ch.cs.any Constraint.isOpt then 1 else 0) + ch.extConflicts

def firstFailure (ce : CEnv) : List Constraint → PyVal → Verdict
  | [], _ => none
  | c :: cs, v => match c.eval ce v with
    | some e => some e
    | none => firstFailure ce cs v

/-- `ConstraintChain.evaluate`: error codes, in order (empty = valid). -/
def evaluate (ce : CEnv) (ch : Chain) (v : PyVal) : List String :=
  if ch.conflicts > 0 then List.replicate ch.conflicts "E999"
  else match firstFailure ce ch.cs v with
    | some e => [e]
    | none => []

end Chain
end Octave
