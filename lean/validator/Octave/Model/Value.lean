/-
Values of the validator engine (import-free: core Lean only).

* `Val`   — a value as it sits in the AST (`Assignment.value`): Python scalars, `ListValue`
            (items + token slice), `InlineMap`, `LiteralZoneValue`, anything else (`opaque`).
* `PyVal` — what `Validator._to_python_value` hands to the constraint evaluator: `ListValue → list`,
            `InlineMap → dict`, everything else unchanged.

Strings are `List Char`.  A Python `float` is carried as its `repr` plus `math.isfinite` — both are
*external values* supplied by the harness from the running CPython, never computed here.
-/
namespace Octave

abbrev Str := List Char

/-- Python `str(int)`. -/
def intStr (i : Int) : Str :=
  if i < 0 then '-' :: Nat.toDigits 10 i.natAbs else Nat.toDigits 10 i.natAbs

/-- `sep.join(parts)`. -/
def joinWith (sep : Str) : List Str → Str
  | [] => []
  | [x] => x
  | x :: y :: xs => x ++ sep ++ joinWith sep (y :: xs)

/-- A Python `float`: `repr(f)` and `math.isfinite(f)` (external). -/
structure PyFloat where
  repr : Str
  finite : Bool
  deriving Repr, DecidableEq, Inhabited

/-- Spelling payload of a `ListValue` (`tokens`: the token slice with line/column of every token).
It is *not* content: `_to_python_value` drops it, `content` erases it. -/
abbrev Spell := List Nat

/-- A value in the AST. -/
inductive Val where
  | null
  | bool (b : Bool)
  | int (i : Int)
  | float (f : PyFloat)
  | str (s : Str)
  | list (items : List Val) (sp : Spell)                      -- `ListValue(items, tokens)`
  | map (pairs : List (Str × Val))                            -- `InlineMap(pairs)`
  | zone (content : Str) (info : Option Str) (fence : Str)    -- `LiteralZoneValue`
  | other (id : Nat)                                         -- any other object (e.g. `HolographicValue`)
  deriving Repr, Inhabited

/-- A Python value as the constraint evaluator sees it. -/
inductive PyVal where
  | null
  | bool (b : Bool)
  | int (i : Int)
  | float (f : PyFloat)
  | str (s : Str)
  | list (xs : List PyVal)
  | dict (ps : List (Str × PyVal))
  | zone (content : Str) (info : Option Str) (fence : Str)
  | other (id : Nat)
  deriving Repr, Inhabited

namespace Val

mutual
/-- `Validator._to_python_value`. -/
def toPy : Val → PyVal
  | null => .null
  | bool b => .bool b
  | int i => .int i
  | float f => .float f
  | str s => .str s
  | list items _ => .list (toPyList items)
  | map pairs => .dict (toPyPairs pairs)
  | zone c i f => .zone c i f
  | other id => .other id
def toPyList : List Val → List PyVal
  | [] => []
  | v :: vs => toPy v :: toPyList vs
def toPyPairs : List (Str × Val) → List (Str × PyVal)
  | [] => []
  | (k, v) :: ps => (k, toPy v) :: toPyPairs ps
end

mutual
/-- Erase everything that is spelling, keep everything that is content. -/
def erase : Val → Val
  | list items _ => .list (eraseList items) []
  | map pairs => .map (erasePairs pairs)
  | v => v
def eraseList : List Val → List Val
  | [] => []
  | v :: vs => erase v :: eraseList vs
def erasePairs : List (Str × Val) → List (Str × Val)
  | [] => []
  | (k, v) :: ps => (k, erase v) :: erasePairs ps
end

/-- `isinstance(value, LiteralZoneValue)`. -/
def isZone : Val → Bool
  | zone .. => true
  | _ => false

/-- `value is None`. -/
def isNone : Val → Bool
  | null => true
  | _ => false

mutual
/-- Does a literal zone occur anywhere inside the value? -/
def hasZone : Val → Bool
  | zone .. => true
  | list items _ => hasZoneList items
  | map pairs => hasZonePairs pairs
  | _ => false
def hasZoneList : List Val → Bool
  | [] => false
  | v :: vs => hasZone v || hasZoneList vs
def hasZonePairs : List (Str × Val) → Bool
  | [] => false
  | (_, v) :: ps => hasZone v || hasZonePairs ps
end

end Val

namespace PyVal

/-- Python `repr` of a `str` for strings without quotes, backslashes and controls (the driver
refuses other strings where a `repr` would be needed). -/
def reprStr (s : Str) : Str := '\'' :: s ++ ['\'']

mutual
/-- Python `str(value)` (`q = false`) / `repr(value)` (`q = true`). `none` = not modelled
(zone / opaque objects: their dataclass `repr`). -/
def render (q : Bool) : PyVal → Option Str
  | null => some "None".toList
  | bool true => some "True".toList
  | bool false => some "False".toList
  | int i => some (intStr i)
  | float f => some f.repr
  | str s => some (if q then reprStr s else s)
  | list xs => (renderList xs).map fun parts => '[' :: joinWith [',', ' '] parts ++ [']']
  | dict ps => (renderPairs ps).map fun parts => '{' :: joinWith [',', ' '] parts ++ ['}']
  | zone .. => none
  | other _ => none
def renderList : List PyVal → Option (List Str)
  | [] => some []
  | x :: xs => match render true x, renderList xs with
    | some a, some as => some (a :: as)
    | _, _ => none
def renderPairs : List (Str × PyVal) → Option (List Str)
  | [] => some []
  | (k, v) :: ps => match render true v, renderPairs ps with
    | some a, some as => some ((reprStr k ++ [':', ' '] ++ a) :: as)
    | _, _ => none
end

/-- Python `str(value)`; `none` where the model does not know it. -/
def pyStr (v : PyVal) : Option Str := render false v

end PyVal
end Octave
