/-
What property C11 *allows* a schema repair to do — written from the property statement, independently
of the control flow of `Model/Repair`.

* `Step env chain c v w e`  — `w` is a permitted change of `v`, motivated by constraint `c` of the
  field's chain, and `e` is the log entry that records it (tier REPAIR, exact before / after).
  Exactly two kinds exist: an ENUM case repair and a NUMBER coercion.
* `Steps`                   — zero or more permitted changes in a row, with their log entries in order.
* `Explained`               — leaf by leaf, in traversal order: same keys, every value reached by
  permitted changes, and the log is exactly the concatenation of their entries.
-/
import Octave.Model.Repair
namespace Octave.Spec
open Octave

def NUMBER : Str := "NUMBER".toList

/-- the text `s` denotes (under CPython's numeral grammar, `Model/Numeral`) the finite number `w`,
and `after` is `str(w)`. -/
inductive Denotes (env : Env) : Str → Val → Str → Prop
  /-- an integer numeral (`int(text)`): blanks, sign, digits with single underscores. -/
  | int (s : Str) (n : Int) :
      Numeral.pyInt env (Numeral.strip env s) = some n → Denotes env s (.int n) (intStr n)
  /-- a decimal numeral whose correctly rounded double is finite (`float(text)`, `math.isfinite`). -/
  | float (s : Str) (f : PyFloat) :
      Numeral.pyFloat env (Numeral.strip env s) = some f → f.finite = true → Denotes env s (.float f) f.repr

/-- One permitted change. -/
inductive Step (env : Env) (chain : List Constraint) : Constraint → Val → Val → Entry → Prop
  /-- change of letter case to the single case-insensitive match of an ENUM of the field. -/
  | casefold (allowed : List Str) (s canonical : Str) :
      Constraint.enum allowed ∈ chain →
      s ∉ allowed → canonical ∈ allowed →
      env.lower canonical = env.lower s →
      (∀ a ∈ allowed, env.lower a = env.lower s → a = canonical) →
      Step env chain (.enum allowed) (.str s) (.str canonical)
        ⟨"ENUM_CASEFOLD", s, canonical, .repair, true, false⟩
  /-- lossless text → number conversion for a NUMBER field. -/
  | coerce (s : Str) (w : Val) (after : Str) :
      Constraint.type NUMBER ∈ chain →
      Denotes env s w after →
      Step env chain (.type NUMBER) (.str s) w ⟨"TYPE_COERCION", s, after, .repair, true, false⟩

/-- A chain of permitted changes and the entries they log, in order. -/
inductive Steps (env : Env) (chain : List Constraint) : Val → Val → List Entry → Prop
  | nil (v : Val) : Steps env chain v v []
  | cons {c : Constraint} {v w u : Val} {e : Entry} {es : List Entry} :
      Step env chain c v w e → Steps env chain w u es → Steps env chain v u (e :: es)

/-- the constraint list repair consults for key `k` (empty when the key has no usable definition). -/
def chainOf (sch : Schema) (k : Str) : List Constraint :=
  match sch.get k with
  | some ⟨some ⟨some ch, _⟩⟩ => ch.cs
  | _ => []

/-- before-leaves, after-leaves, log. -/
inductive Explained (env : Env) (sch : Schema) : List (Str × Val) → List (Str × Val) → List Entry → Prop
  | nil : Explained env sch [] [] []
  | cons {k : Str} {v v' : Val} {es log : List Entry} {ls ls' : List (Str × Val)} :
      Steps env (chainOf sch k) v v' es → Explained env sch ls ls' log →
      Explained env sch ((k, v) :: ls) ((k, v') :: ls') (es ++ log)

/-- two lists related element by element. -/
inductive Forall2 {α β : Type} (R : α → β → Prop) : List α → List β → Prop
  | nil : Forall2 R [] []
  | cons {a : α} {b : β} {as : List α} {bs : List β} : R a b → Forall2 R as bs → Forall2 R (a :: as) (b :: bs)

/-- the case-insensitive matches of `s` in an allowed list (what `_attempt_enum_casefold` computes). -/
def ciMatches (env : Env) (allowed : List Str) (s : Str) : List Str :=
  allowed.filter (fun a => env.lower a == env.lower s)

/-- External law used by idempotence: whether a text coerces to a number does not depend on letter
case (CPython's numeral grammar is case-insensitive: `e/E`, `inf`, `nan`). -/
def CaseStable (env : Env) : Prop :=
  ∀ s t, env.lower s = env.lower t →
    (Repair.typeCoercion env (.str s) NUMBER).isNone = (Repair.typeCoercion env (.str t) NUMBER).isNone

end Octave.Spec
