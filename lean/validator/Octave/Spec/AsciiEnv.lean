/-
A concrete `Env` for closed examples (non-vacuity instances, witnesses of known findings): ASCII
blanks, ASCII digits, ASCII lower-casing, and a three-entry table of `float()` results copied from
CPython (`repr(float("1E5")) = "100000.0"`, `float("1e309") = inf`, `repr(float("1.5")) = "1.5"`).
The driver never uses it (there the externals come from the harness per case).
-/
import Octave.Model.Repair
namespace Octave.Spec
open Octave

def asciiEnv : Env where
  isSpace c := c = ' ' || c = '\t' || c = '\n' || c = '\r' || c = '\x0b' || c = '\x0c'
  decimal := Numeral.digit?
  lower s := s.map Numeral.asciiLower
  floatVal s :=
    if s = "1E5".toList then some ⟨"100000.0".toList, true⟩
    else if s = "1e309".toList then some ⟨"inf".toList, false⟩
    else if s = "1.5".toList then some ⟨"1.5".toList, true⟩
    else none

/-- an evaluator environment without external constraints. -/
def plainCEnv : CEnv := { ext := fun _ _ => none, strOf := fun _ => [] }

end Octave.Spec
