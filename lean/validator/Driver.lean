/-
JSON-lines driver of the validator engine: one request per line on stdin, one reply per line.

  {"op":"repair","fix":b,"schema":S|null,"doc":D,"env":E}          -> {"doc":D,"log":[[rule,before,after,tier]...]}
  {"op":"validate","strict":b,"schemas":[S...]|null,"doc":D,"env":E,"ext":[[id,PV,code|null]...],"meta":[[code,path]...],"fm":[[code,path]...]}
                                                                      -> {"errs":[[code,path]...]}
  {"op":"repair_value","value":V,"field":F|null|"absent","fix":b,"env":E}   -> {"value":V,"log":[...]}
  {"op":"numeral","s":str,"env":E}                                  -> {"strip":str,"int":dec|null,"float":"dec"|"inf"|"-inf"|"nan"|null}
  {"op":"content_eq","a":D,"b":D}                                   -> {"eq":bool}      (content a == content b, via the JSON of the erased documents)
  {"op":"tool","fix":b,...}                                         see `handleTool`

Value V: null | true | false | {"i":"<dec>"} | {"f":[repr,finite]} | {"s":str} | {"l":[V...],"sp":[nat...]}
         | {"m":[[k,V]...]} | {"z":[content,info|null,fence]} | {"o":nat}
Node  N: {"k":"a","p":P,"key":str,"v":V} | {"k":"b","p":P,"key":str,"t":str|null,"c":[N...]}
         | {"k":"s","p":P,"sid":str,"key":str,"ann":str|null,"c":[N...]} | {"k":"o","p":P,"id":nat}
Pos   P: [line,col,[leading...],trailing|null]
Doc   D: {"p":P,"name":str,"meta":[[k,V]...],"sections":[N...],"sep":bool,"fm":str|null,"tcs":[str...],"gv":str|null}
Schema S: {"name":str,"fields":[[key, null | {"c":null|{"cs":[C...],"xc":nat},"t":str|null}]...],"uf":str,"pt":[str...],"dt":str|null,"fm":bool}
Constraint C: {"k":"REQ"} {"k":"OPT"} {"k":"ENUM","a":[str...]} {"k":"TYPE","t":str} {"k":"EXT","id":nat}
Env   E: {"chars":[[codepoint,isspace,decimal|null]...],"lower":[[s,lower s]...],"float":[[s,repr,finite]...]}
-/
import Lean.Data.Json
import Octave.Model.Validator
import Octave.Model.Tools
open Lean Octave

abbrev R := Except String

def strOf (j : Json) : R Str := do let s ← j.getStr?; pure s.toList
def optStr (j : Json) : R (Option Str) := match j with | .null => pure none | _ => do pure (some (← strOf j))
def arr (j : Json) : R (List Json) := do pure (← j.getArr?).toList
def fld (j : Json) (k : String) : R Json := j.getObjVal? k
def fldD (j : Json) (k : String) (d : Json) : Json := match j.getObjVal? k with | .ok v => v | .error _ => d
def jstr (s : Str) : Json := Json.str (String.ofList s)
def jopt (s : Option Str) : Json := match s with | some s => jstr s | none => Json.null

partial def valOfJson : Json → R Val
  | .null => pure .null
  | .bool b => pure (.bool b)
  | j => do
    if let .ok s := j.getObjValAs? String "s" then return .str s.toList
    if let .ok i := j.getObjValAs? String "i" then
      match i.toInt? with
      | some n => return .int n
      | none => throw "bad int"
    if let .ok f := j.getObjVal? "f" then
      let a ← arr f
      match a with
      | [r, fin] => return .float ⟨← strOf r, ← fin.getBool?⟩
      | _ => throw "bad float"
    if let .ok l := j.getObjVal? "l" then
      let xs ← (← arr l).mapM valOfJson
      let sp ← (← arr (fldD j "sp" (Json.arr #[]))).mapM (fun x => x.getNat?)
      return .list xs sp
    if let .ok m := j.getObjVal? "m" then
      let ps ← (← arr m).mapM fun p => do
        match ← arr p with
        | [k, v] => pure ((← strOf k), (← valOfJson v))
        | _ => throw "bad pair"
      return .map ps
    if let .ok z := j.getObjVal? "z" then
      match ← arr z with
      | [c, i, f] => return .zone (← strOf c) (← optStr i) (← strOf f)
      | _ => throw "bad zone"
    if let .ok o := j.getObjVal? "o" then return .other (← o.getNat?)
    throw "unsupported value kind"

partial def valToJson : Val → Json
  | .null => Json.null
  | .bool b => Json.bool b
  | .int i => Json.mkObj [("i", Json.str (toString i))]
  | .float f => Json.mkObj [("f", Json.arr #[jstr f.repr, Json.bool f.finite])]
  | .str s => Json.mkObj [("s", jstr s)]
  | .list xs sp => Json.mkObj [("l", Json.arr (xs.map valToJson).toArray), ("sp", Json.arr (sp.map (fun (n : Nat) => toJson n)).toArray)]
  | .map ps => Json.mkObj [("m", Json.arr (ps.map fun (k, v) => Json.arr #[jstr k, valToJson v]).toArray)]
  | .zone c i f => Json.mkObj [("z", Json.arr #[jstr c, jopt i, jstr f])]
  | .other id => Json.mkObj [("o", (id : Json))]

partial def pyToJson : PyVal → Json
  | .null => Json.null
  | .bool b => Json.bool b
  | .int i => Json.mkObj [("i", Json.str (toString i))]
  | .float f => Json.mkObj [("f", Json.arr #[jstr f.repr, Json.bool f.finite])]
  | .str s => Json.mkObj [("s", jstr s)]
  | .list xs => Json.mkObj [("l", Json.arr (xs.map pyToJson).toArray)]
  | .dict ps => Json.mkObj [("m", Json.arr (ps.map fun (k, v) => Json.arr #[jstr k, pyToJson v]).toArray)]
  | .zone c i f => Json.mkObj [("z", Json.arr #[jstr c, jopt i, jstr f])]
  | .other id => Json.mkObj [("o", (id : Json))]

def posOfJson (j : Json) : R Pos := do
  match ← arr j with
  | [l, c, lead, tr] => pure ⟨← l.getNat?, ← c.getNat?, ← (← arr lead).mapM strOf, ← optStr tr⟩
  | _ => throw "bad pos"

def posToJson (p : Pos) : Json :=
  Json.arr #[(p.line : Json), (p.column : Json), Json.arr (p.leading.map jstr).toArray, jopt p.trailing]

partial def nodeOfJson (j : Json) : R Node := do
  let k ← j.getObjValAs? String "k"
  let p ← posOfJson (fldD j "p" (Json.arr #[(0 : Json), (0 : Json), Json.arr #[], Json.null]))
  match k with
  | "a" => pure (.assign p (← strOf (← fld j "key")) (← valOfJson (← fld j "v")))
  | "b" => pure (.block p (← strOf (← fld j "key")) (← optStr (fldD j "t" Json.null)) (← (← arr (← fld j "c")).mapM nodeOfJson))
  | "s" => pure (.sect p (← strOf (← fld j "sid")) (← strOf (← fld j "key")) (← optStr (fldD j "ann" Json.null)) (← (← arr (← fld j "c")).mapM nodeOfJson))
  | "o" => pure (.other p (← (← fld j "id").getNat?))
  | other => throw s!"bad node kind {other}"

partial def nodeToJson : Node → Json
  | .assign p k v => Json.mkObj [("k", "a"), ("p", posToJson p), ("key", jstr k), ("v", valToJson v)]
  | .block p k t cs => Json.mkObj [("k", "b"), ("p", posToJson p), ("key", jstr k), ("t", jopt t), ("c", Json.arr (cs.map nodeToJson).toArray)]
  | .sect p i k a cs => Json.mkObj [("k", "s"), ("p", posToJson p), ("sid", jstr i), ("key", jstr k), ("ann", jopt a), ("c", Json.arr (cs.map nodeToJson).toArray)]
  | .other p id => Json.mkObj [("k", "o"), ("p", posToJson p), ("id", (id : Json))]

def pairsOfJson (j : Json) : R (List (Str × Val)) := do
  (← arr j).mapM fun p => do
    match ← arr p with
    | [k, v] => pure ((← strOf k), (← valOfJson v))
    | _ => throw "bad pair"

def docOfJson (j : Json) : R Doc := do
  pure { p := ← posOfJson (fldD j "p" (Json.arr #[(0 : Json), (0 : Json), Json.arr #[], Json.null])),
         name := ← strOf (← fld j "name"),
         metaBlock := ← pairsOfJson (fldD j "meta" (Json.arr #[])),
         sections := ← (← arr (← fld j "sections")).mapM nodeOfJson,
         hasSeparator := (fldD j "sep" (Json.bool false)).getBool?.toOption.getD false,
         frontmatter := ← optStr (fldD j "fm" Json.null),
         trailingComments := ← (← arr (fldD j "tcs" (Json.arr #[]))).mapM strOf,
         grammarVersion := ← optStr (fldD j "gv" Json.null) }

def docToJson (d : Doc) : Json :=
  Json.mkObj [("p", posToJson d.p), ("name", jstr d.name),
    ("meta", Json.arr (d.metaBlock.map fun (k, v) => Json.arr #[jstr k, valToJson v]).toArray),
    ("sections", Json.arr (d.sections.map nodeToJson).toArray), ("sep", Json.bool d.hasSeparator),
    ("fm", jopt d.frontmatter), ("tcs", Json.arr (d.trailingComments.map jstr).toArray), ("gv", jopt d.grammarVersion)]

def constraintOfJson (j : Json) : R Constraint := do
  let k ← j.getObjValAs? String "k"
  match k with
  | "REQ" => pure .req
  | "OPT" => pure .opt
  | "ENUM" => do pure (.enum (← (← arr (← fld j "a")).mapM strOf))
  | "TYPE" => do pure (.type (← strOf (← fld j "t")))
  | "EXT" => do pure (.ext (← (← fld j "id").getNat?))
  | other => throw s!"unsupported constraint kind {other}"

def fieldDefOfJson (j : Json) : R FieldDef := do
  match j with
  | .null => pure ⟨none⟩
  | _ =>
    let c := fldD j "c" Json.null
    let ch : Option Chain ← match c with
      | .null => pure none
      | _ => do
        let cs ← (← arr (← fld c "cs")).mapM constraintOfJson
        let xc := (fldD c "xc" (0 : Json)).getNat?.toOption.getD 0
        pure (some ⟨cs, xc⟩)
    pure ⟨some ⟨ch, ← optStr (fldD j "t" Json.null)⟩⟩

def schemaOfJson (j : Json) : R Schema := do
  let fields ← (← arr (← fld j "fields")).mapM fun p => do
    match ← arr p with
    | [k, fd] => pure ((← strOf k), (← fieldDefOfJson fd))
    | _ => throw "bad field"
  pure { name := ← strOf (← fld j "name"), fields := fields,
         unknownFields := ← strOf (fldD j "uf" "REJECT"),
         policyTargets := ← (← arr (fldD j "pt" (Json.arr #[]))).mapM strOf,
         defaultTarget := ← optStr (fldD j "dt" Json.null),
         hasFrontmatter := (fldD j "fm" (Json.bool false)).getBool?.toOption.getD false }

def optSchemaOfJson (j : Json) : R (Option Schema) := match j with
  | .null => pure none
  | _ => do pure (some (← schemaOfJson j))

/-- ASCII part of `str.isspace`. -/
def asciiIsSpace (c : Char) : Bool :=
  let n := c.toNat
  (9 ≤ n && n ≤ 13) || (28 ≤ n && n ≤ 32)

def asciiLowerStr (s : Str) : Str := s.map Numeral.asciiLower

def envOfJson (j : Json) : R Env := do
  let chars ← (← arr (fldD j "chars" (Json.arr #[]))).mapM fun e => do
    match ← arr e with
    | [cp, sp, dec] => pure ((← cp.getNat?), (← sp.getBool?), (dec.getNat?.toOption))
    | _ => throw "bad chars entry"
  let lower ← (← arr (fldD j "lower" (Json.arr #[]))).mapM fun e => do
    match ← arr e with
    | [a, b] => pure ((← strOf a), (← strOf b))
    | _ => throw "bad lower entry"
  let fl ← (← arr (fldD j "float" (Json.arr #[]))).mapM fun e => do
    match ← arr e with
    | [s, r, fin] => pure ((← strOf s), (⟨← strOf r, ← fin.getBool?⟩ : PyFloat))
    | _ => throw "bad float entry"
  pure {
    isSpace := fun c => if c.toNat < 128 then asciiIsSpace c else
      match chars.find? (fun e => e.1 == c.toNat) with | some e => e.2.1 | none => false
    decimal := fun c => if c.toNat < 128 then Numeral.digit? c else
      match chars.find? (fun e => e.1 == c.toNat) with | some e => e.2.2 | none => none
    lower := fun s => match lower.lookup s with | some t => t | none => asciiLowerStr s
    floatVal := fun s => fl.lookup s }

/-- every non-ASCII character of a request must be described by the env (never guess). -/
partial def nonAsciiOf : Json → List Nat
  | .str s => (s.toList.filter (fun c => c.toNat ≥ 128)).map Char.toNat
  | .arr a => a.toList.flatMap nonAsciiOf
  | .obj o => o.toList.flatMap (fun (k, v) => nonAsciiOf (.str k) ++ nonAsciiOf v)
  | _ => []

def entryToJson (e : Entry) : Json :=
  Json.arr #[Json.str e.ruleId, jstr e.before, jstr e.after,
    Json.str (match e.tier with | .normalization => "NORMALIZATION" | .repair => "REPAIR" | .forbidden => "FORBIDDEN"),
    Json.bool e.safe, Json.bool e.semanticsChanged]

def errsOfJson (j : Json) : R (List Err) := do
  (← arr j).mapM fun e => do
    match ← arr e with
    | [c, p] => pure ((← c.getStr?), (← strOf p))
    | _ => throw "bad err"

def errsToJson (es : List Err) : Json := Json.arr (es.map fun (c, p) => Json.arr #[Json.str c, jstr p]).toArray

def handleRepair (j : Json) : R Json := do
  let env ← envOfJson (fldD j "env" (Json.mkObj []))
  let d ← docOfJson (← fld j "doc")
  let fix ← (← fld j "fix").getBool?
  let sch ← optSchemaOfJson (fldD j "schema" Json.null)
  let (d', log) := Repair.repair env d fix sch
  pure (Json.mkObj [("doc", docToJson d'), ("log", Json.arr (log.map entryToJson).toArray)])

/-- `{"op":"repair_value","value":V,"field":F|null|"absent","fix":b,"env":E}` -> `{"value":V,"log":[...]}`
(`"absent"` = `field_def is None`). -/
def handleRepairValue (j : Json) : R Json := do
  let env ← envOfJson (fldD j "env" (Json.mkObj []))
  let v ← valOfJson (← fld j "value")
  let fix ← (← fld j "fix").getBool?
  let fdj := fldD j "field" (Json.str "absent")
  let fd : Option FieldDef ← match fdj with
    | .str _ => pure none
    | _ => do pure (some (← fieldDefOfJson fdj))
  let (v', log) := Repair.repairValue env v fd fix
  pure (Json.mkObj [("value", valToJson v'), ("log", Json.arr (log.map entryToJson).toArray)])

def handleValidate (j : Json) : R Json := do
  let env ← envOfJson (fldD j "env" (Json.mkObj []))
  let d ← docOfJson (← fld j "doc")
  let strict := (fldD j "strict" (Json.bool false)).getBool?.toOption.getD false
  let schemas : Option (List (Str × Schema)) ← match fldD j "schemas" Json.null with
    | .null => pure none
    | js => do pure (some ((← (← arr js).mapM schemaOfJson).map fun s => (s.name, s)))
  let extTab ← (← arr (fldD j "ext" (Json.arr #[]))).mapM fun e => do
    match ← arr e with
    | [id, pv, code] => pure ((← id.getNat?), pv.compress, (code.getStr?.toOption))
    | _ => throw "bad ext entry"
  let metaE ← errsOfJson (fldD j "meta" (Json.arr #[]))
  let fmE ← errsOfJson (fldD j "fm" (Json.arr #[]))
  let ce : CEnv := {
    ext := fun id v =>
      let key := (pyToJson v).compress
      match extTab.find? (fun e => e.1 == id && e.2.1 == key) with
      | some e => e.2.2
      | none => some "EXT-MISSING"
    strOf := fun _ => "\x00<object>".toList }
  let ve : VEnv := { env := env, ce := ce, metaErrors := fun _ _ => metaE, fmErrors := fun _ _ => fmE }
  pure (Json.mkObj [("errs", errsToJson (Validator.validate ve d strict schemas))])

def handleNumeral (j : Json) : R Json := do
  let env ← envOfJson (fldD j "env" (Json.mkObj []))
  let s ← strOf (← fld j "s")
  let st := Numeral.strip env s
  let i : Json := match Numeral.pyInt env st with | some n => Json.str (toString n) | none => Json.null
  let f : Json := match Numeral.floatLit env st with
    | some .dec => "dec" | some (.inf false) => "inf" | some (.inf true) => "-inf" | some .nan => "nan" | none => Json.null
  let lo := env.lower st
  let branch : Json := if !st.contains '.' && !lo.contains 'e' then "int" else "float"
  let co : Json := match Repair.coerceNumber env st with
    | some (v, after) => Json.arr #[valToJson v, jstr after]
    | none => Json.null
  pure (Json.mkObj [("strip", jstr st), ("int", i), ("float", f), ("branch", branch), ("coerce", co)])

def handleContentEq (j : Json) : R Json := do
  let a ← docOfJson (← fld j "a")
  let b ← docOfJson (← fld j "b")
  pure (Json.mkObj [("eq", Json.bool ((docToJson a.content).compress == (docToJson b.content).compress)),
                    ("skel_eq", Json.bool (reprStr a.skeleton == reprStr b.skeleton))])

/-- the tool skeleton (`Model/Tools`) run on abstract stage outcomes given as data:
`{"op":"tool","tool":"validate"|"write"|"cli","fix":b,"lenient":b,"has_schema":b,"errors":b,"doc":D,"schema":S|null,"env":E}`
-> `{"doc":D,"log":[...],"repaired":b}` (the document handed to `emit`). -/
def handleTool (j : Json) : R Json := do
  let env ← envOfJson (fldD j "env" (Json.mkObj []))
  let d ← docOfJson (← fld j "doc")
  let sch ← optSchemaOfJson (fldD j "schema" Json.null)
  let flag (k : String) : Bool := (fldD j k (Json.bool false)).getBool?.toOption.getD false
  let tool ← (← fld j "tool").getStr?
  let flags : Tools.Flags := { fix := flag "fix", lenient := flag "lenient", schemaDefinition := sch.isSome, validationErrors := flag "errors" }
  let prog ← match tool with
    | "validate" => pure Tools.validateToolProg
    | "write" => pure Tools.writeToolProg
    | "cli" => pure Tools.cliValidateProg
    | t => throw s!"unknown tool {t}"
  let (d', log) := Tools.run (fun d => Repair.repair env d true sch) flags prog d
  pure (Json.mkObj [("doc", docToJson d'), ("log", Json.arr (log.map entryToJson).toArray)])

def handle (j : Json) : Json :=
  let r : R Json := do
    match ← j.getObjValAs? String "op" with
    | "repair" => handleRepair j
    | "repair_value" => handleRepairValue j
    | "validate" => handleValidate j
    | "numeral" => handleNumeral j
    | "content_eq" => handleContentEq j
    | "tool" => handleTool j
    | _ => throw "op"
  match r with
  | .ok out => out
  | .error e => Json.mkObj [("unsupported", e)]

partial def loop (h : IO.FS.Stream) (out : IO.FS.Stream) : IO Unit := do
  let line ← h.getLine
  if line.isEmpty then return ()
  let reply := match Json.parse line with
    | .ok j => handle j
    | .error e => Json.mkObj [("unsupported", s!"json: {e}")]
  out.putStrLn reply.compress
  loop h out

def main : IO Unit := do
  let out ← IO.getStdout
  loop (← IO.getStdin) out
  out.flush
