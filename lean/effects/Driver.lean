/-
JSON-lines driver of the effects engine: the check asks the Lean policy (the single place where whitelists
live) about effects it observed dynamically on the real code.
  {"op":"facts"}                                        -> disciplines of Gen.summary evaluated, and counts
  {"op":"state_change","file":f,"owner":o,"name":n}     -> {"listed":b,"benign":b,"escape_only":b}   (owner "<module>" or class / "Cls<instance>")
  {"op":"set_site","file":f,"func":g,"expr":e}          -> {"known":"sensitive"|"insensitive"|"unknown"}
  {"op":"env_read","file":f,"func":g,"kind":k}          -> {"listed":b,"allowed":b}
-/
import Lean.Data.Json
import Octave.Model.Effects
import Octave.Gen.Effects
open Lean Octave

def targetMatches (file owner name : String) (t : String) : Bool :=
  if owner == "<module>" then t.startsWith s!"{file}:{name}" else t.startsWith s!"{owner}.{name}"

def handle (j : Json) : Json :=
  let str (k : String) : String := (j.getObjValAs? String k).toOption.getD ""
  match j.getObjValAs? String "op" with
  | .ok "facts" =>
    Json.mkObj [
      ("frame", toJson (decide (Frame Gen.summary))),
      ("noenv", toJson (decide (NoEnv Gen.summary))),
      ("ordered", toJson (decide (Ordered Gen.summary))),
      ("noawait", toJson (decide (NoAwait Gen.summary))),
      ("pkg_first", toJson (decide (PkgFirst Gen.summary))),
      ("modules", toJson Gen.modules.length),
      ("bindings", toJson Gen.bindingCount),
      ("mutable_bindings", toJson Gen.mutableBindings.length),
      ("writes", toJson Gen.stateWrites.length),
      ("escapes", toJson Gen.stateEscapes.length),
      ("set_sinks", toJson Gen.unorderedSetIterations.length),
      ("set_insensitive", toJson Gen.orderInsensitiveSetIterations.length),
      ("env_reads", toJson Gen.envReads.length),
      ("async_sites", toJson Gen.asyncSites.length),
      ("write_targets", toJson (writeTargets Gen.summary)),
      ("env_not_allowed", toJson ((Gen.envReads.filter (fun r => !allowedEnv r)).map (fun r => s!"{r.file}:{r.func}:{r.kind}"))),
      ("search_order", toJson Gen.searchOrder),
      ("gen_hash", toJson Gen.genHash)]
  | .ok "state_change" =>
    let (f, o, n) := (str "file", str "owner", str "name")
    let ws := Gen.stateWrites.filter (fun w => targetMatches f o n w.target)
    let es := Gen.stateEscapes.filter (fun e => targetMatches f o n e.target)
    -- an observed change needs a listed WRITE; a listed escape that the policy calls benign is refuted by it
    Json.mkObj [("listed", toJson (!ws.isEmpty)),
                ("benign", toJson (ws.all benignWrite)),
                ("escape_only", toJson (ws.isEmpty && !es.isEmpty))]
  | .ok "set_site" =>
    let (f, g, e) := (str "file", str "func", str "expr")
    let hit (l : List SetIter) : Bool := l.any (fun s => s.file == f && s.func == g && (s.expr == e || (e.splitOn s.expr).length > 1 || (s.expr.splitOn e).length > 1))
    Json.mkObj [("known", toJson (if hit Gen.unorderedSetIterations then "sensitive" else if hit Gen.orderInsensitiveSetIterations then "insensitive" else "unknown"))]
  | .ok "env_read" =>
    let (f, g, k) := (str "file", str "func", str "kind")
    let rs := Gen.envReads.filter (fun r => r.file == f && r.func == g && r.kind == k)
    Json.mkObj [("listed", toJson (!rs.isEmpty)), ("allowed", toJson (rs.all allowedEnv))]
  | _ => Json.mkObj [("unsupported", "op")]

partial def loop (h : IO.FS.Stream) (out : IO.FS.Stream) : IO Unit := do
  let line ← h.getLine
  if line.isEmpty then return ()
  let reply := match Json.parse line with
    | .ok j => handle j
    | .error e => Json.mkObj [("unsupported", s!"json: {e}")]
  out.putStrLn reply.compress
  loop h out

def main : IO Unit := do
  let out ← IO.getStdout
  loop (← IO.getStdin) out
  out.flush
