/-
Helper lemmas for property C06 (engine `effects`): invariants of the abstract machine of `Model/Effects` under the
disciplines `Frame`, `NoEnv`, `Ordered`, `NoAwait`.  Core Lean only.  The property theorems are in `Props/C06.lean`.
-/
import Octave.Model.Effects
namespace Octave.Effects
open Octave

section
variable {Args Text Data : Type}

theorem mask_fill (clock : Nat) (sk : List (Option Data)) : mask (fill clock sk) = sk := by
  induction sk with
  | nil => rfl
  | cons x xs ih =>
    cases x with
    | none => simp only [fill, mask, List.map_cons, List.map_map] at *; simp [ih]
    | some d => simp only [fill, mask, List.map_cons, List.map_map] at *; simp [ih]

theorem applyWrites_frame {S : Summary} (hF : Frame S) (old new : PState) : applyWrites S old new = old := by
  funext b
  unfold Frame at hF
  simp [applyWrites, hF]

theorem step_state_frame {S : Summary} (hF : Frame S) (impl : Impl Args Text Data)
    (cfg : Config Text) (st : PState) (c : Call Args) : (step S impl cfg st c).1 = st := by
  simp [step, applyWrites_frame hF]

/-- Invariant, by induction over the history: under `Frame` the module/class state after any history is the
state the process had after import. -/
theorem run_state_frame {S : Summary} (hF : Frame S) (impl : Impl Args Text Data)
    (cfg : Config Text) (st : PState) (hist : List (Call Args)) : (run S impl cfg st hist).1 = st := by
  induction hist generalizing st with
  | nil => rfl
  | cons c cs ih =>
    simp only [run]
    rw [ih, step_state_frame hF]

theorem run_append (S : Summary) (impl : Impl Args Text Data) (cfg : Config Text)
    (st : PState) (hist : List (Call Args)) (c : Call Args) :
    (run S impl cfg st (hist ++ [c])).2
      = (run S impl cfg st hist).2 ++ [(step S impl cfg (run S impl cfg st hist).1 c).2] := by
  induction hist generalizing st with
  | nil => simp [run]
  | cons d ds ih => simp only [List.cons_append, run, ih, List.cons_append]

theorem lastResp_append (S : Summary) (impl : Impl Args Text Data) (cfg : Config Text)
    (st : PState) (hist : List (Call Args)) (c : Call Args) :
    lastResp (run S impl cfg st (hist ++ [c])) = some (step S impl cfg (run S impl cfg st hist).1 c).2 := by
  simp [lastResp, run_append]

theorem leak_nil {S : Summary} (hE : NoEnv S) (hO : Ordered S) (cfg : Config Text) : leakOf S cfg = [] := by
  unfold Ordered at hO
  have hfil : S.envReads.filter (fun r => !allowedEnv r) = [] := by
    rw [List.filter_eq_nil_iff]
    intro r hr
    have := hE r hr
    simp [this]
  unfold leakOf
  rw [hfil, hO]
  rfl

/-- Under the three disciplines a call observes nothing but its arguments, the resolved schema text and the
(constant) post-import state. -/
theorem observe_eq {S : Summary} (hE : NoEnv S) (hO : Ordered S) (cfg cfg' : Config Text) (st : PState) (c : Call Args)
    (hs : sameSchemaText S cfg cfg' c) : observe (Args := Args) S cfg st c = observe S cfg' st c := by
  unfold sameSchemaText at hs
  simp [observe, leak_nil hE hO cfg, leak_nil hE hO cfg', hs]

/-! ### Concurrency -/

theorem tick_eq_serialTick {S : Summary} (hA : NoAwait S) (impl : Impl Args Text Data)
    (cfg : Config Text) (calls : List (Call Args)) (L : Loop Args Text Data) (i : Nat)
    (hL : ∀ (j : Nat) (o : Obs Args Text), L.phases[j]? ≠ some (Phase.observed o)) :
    tick S impl cfg calls L i = serialTick S impl cfg calls L i := by
  unfold NoAwait at hA
  unfold tick serialTick
  cases hc : calls[i]? with
  | none => rfl
  | some c =>
    cases hp : L.phases[i]? with
    | none => rfl
    | some p =>
      cases p with
      | fresh => simp [hA, step]
      | observed o => exact absurd hp (hL i o)
      | done r => rfl

theorem serialTick_no_observed (S : Summary) (impl : Impl Args Text Data)
    (cfg : Config Text) (calls : List (Call Args)) (L : Loop Args Text Data) (i : Nat)
    (hL : ∀ (j : Nat) (o : Obs Args Text), L.phases[j]? ≠ some (Phase.observed o)) :
    ∀ (j : Nat) (o : Obs Args Text), (serialTick S impl cfg calls L i).phases[j]? ≠ some (Phase.observed o) := by
  intro j o
  unfold serialTick
  cases hc : calls[i]? with
  | none => exact hL j o
  | some c =>
    cases hp : L.phases[i]? with
    | none => exact hL j o
    | some p =>
      cases p with
      | fresh =>
        by_cases hij : i = j
        · subst hij
          intro h
          simp [List.getElem?_set] at h
        · rw [List.getElem?_set_ne hij]; exact hL j o
      | observed o' => exact hL j o
      | done r => exact hL j o

theorem foldl_tick_eq {S : Summary} (hA : NoAwait S) (impl : Impl Args Text Data)
    (cfg : Config Text) (calls : List (Call Args)) (sched : List Nat) (L : Loop Args Text Data)
    (hL : ∀ (j : Nat) (o : Obs Args Text), L.phases[j]? ≠ some (Phase.observed o)) :
    sched.foldl (tick S impl cfg calls) L = sched.foldl (serialTick S impl cfg calls) L := by
  induction sched generalizing L with
  | nil => rfl
  | cons i is ih =>
    simp only [List.foldl_cons]
    rw [tick_eq_serialTick hA impl cfg calls L i hL]
    exact ih _ (serialTick_no_observed S impl cfg calls L i hL)

theorem initLoop_no_observed (init : PState) (calls : List (Call Args)) :
    ∀ (j : Nat) (o : Obs Args Text), (initLoop (Text := Text) (Data := Data) init calls).phases[j]? ≠ some (Phase.observed o) := by
  intro j o h
  simp only [initLoop, List.getElem?_map] at h
  cases hc : calls[j]? <;> simp [hc] at h

/-- Invariant of a serial run under `Frame`: the state stays `init` and every finished task holds the
response a fresh step from `init` gives. -/
theorem serial_invariant {S : Summary} (hF : Frame S) (impl : Impl Args Text Data)
    (cfg : Config Text) (init : PState) (calls : List (Call Args)) (order : List Nat) (L : Loop Args Text Data)
    (hst : L.st = init)
    (hdone : ∀ (j : Nat) (r : List (Slot Data)), L.phases[j]? = some (Phase.done r) → ∃ c, calls[j]? = some c ∧ r = (step S impl cfg init c).2) :
    let L' := order.foldl (serialTick S impl cfg calls) L
    L'.st = init ∧ ∀ (j : Nat) (r : List (Slot Data)), L'.phases[j]? = some (Phase.done r) → ∃ c, calls[j]? = some c ∧ r = (step S impl cfg init c).2 := by
  induction order generalizing L with
  | nil => exact ⟨hst, hdone⟩
  | cons i is ih =>
    simp only [List.foldl_cons]
    apply ih
    · unfold serialTick
      cases hc : calls[i]? with
      | none => exact hst
      | some c =>
        cases hp : L.phases[i]? with
        | none => exact hst
        | some p =>
          cases p with
          | fresh => show (step S impl cfg L.st c).1 = init; rw [step_state_frame hF]; exact hst
          | observed o => exact hst
          | done r => exact hst
    · intro j r
      unfold serialTick
      cases hc : calls[i]? with
      | none => exact hdone j r
      | some c =>
        cases hp : L.phases[i]? with
        | none => exact hdone j r
        | some p =>
          cases p with
          | fresh =>
            by_cases hij : i = j
            · subst hij
              intro h
              simp [List.getElem?_set] at h
              exact ⟨c, hc, by rw [← h.2, hst]⟩
            · rw [List.getElem?_set_ne hij]; exact hdone j r
          | observed o => exact hdone j r
          | done r' => exact hdone j r

end
end Octave.Effects
