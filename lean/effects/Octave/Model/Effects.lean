/-
Model/Effects — the abstract machine of property C06 ("results depend only on the input").

Determinism of a Lean function is `rfl` and says nothing about Python.  The property is therefore stated over
an explicit machine whose ONLY knowledge of the code is an effect summary (`Summary`, regenerated from the
source on every run as `Gen.summary`):

  * the response to a call is computed by an ARBITRARY function (`Impl.body`) of an observation `Obs`;
  * the observation contains the call's arguments, the text the named schema resolves to, the module/class
    state, and a `leak`: one entry for every environment read and every unordered set iteration that the
    summary lists and the policy below does not allow;
  * the state the arbitrary code would like to leave behind (`Impl.next`) is applied only to the targets
    of the writes the summary lists and the policy does not classify as benign;
  * timestamps are slots of the response filled from the clock and removed by `mask`.

So the machine can exhibit exactly the non-determinism for which the summary shows a channel.  Core Lean only.
-/
import Octave.Model.Summary
namespace Octave

/-! ## Policy.  Every entry carries its justification; anything not matched here is a channel. -/

/-- Listed writes to module/class state that cannot influence a later call. -/
def benignWrite (w : StateWrite) : Bool :=
  -- (W1) `Absent._instance`, the singleton cache of the I2 sentinel.  The store is lexically guarded by
  --      `if cls._instance is None`, and `ast_nodes` itself executes `ABSENT = Absent()` at import time, so
  --      after import the guard is false and the store is dead code; the cached object has no fields.
  --      (The dynamic snapshot check confirms the binding never changes after import.)
  (w.file == "core/ast_nodes.py" && w.func == "Absent.__new__" && w.target == "Absent._instance"
    && w.guard == "init-once" && w.initAtImport && w.n == 1)
  -- (W2) the enclosing function is referenced by import-time code only: deterministic initialisation.
  || w.importOnly
  -- (W3) the enclosing function is referenced by no function reachable from the tools or the API.
  || w.reach == "module"

/-- Listed alias escapes of mutable module/class state that are known not to be written through. -/
def benignEscape (e : Escape) : Bool :=
  -- (E1) `USAGE_HINTS` (a dict of string constants) is placed in the response envelope of
  --      compile_grammar / validate / write.  The envelope is handed straight to the serialiser
  --      (`json.dumps` in server.py); no package code receives it again.
  (e.target == "mcp/compile_grammar.py:USAGE_HINTS" && e.how == "stored in a dict display"
    && ((e.file == "mcp/compile_grammar.py" && e.func == "CompileGrammarTool.execute" && e.n == 2)
      || (e.file == "mcp/validate.py" && e.func == "ValidateTool.execute" && e.n == 1)
      || (e.file == "mcp/write.py" && e.func == "WriteTool.execute" && e.n == 1)))
  -- (E2) `get_builtin_schema` returns an inner dict of `BUILTIN_SCHEMA_DEFINITIONS`.  Its consumers
  --      (validate/write execute, Validator) only call `.get` / iterate; the translator tracks the alias at
  --      every call site and reports stores or mutating calls through it as writes (none today).
  || (e.file == "schemas/loader.py" && e.func == "get_builtin_schema"
      && e.target == "schemas/loader.py:BUILTIN_SCHEMA_DEFINITIONS" && e.how == "element of it returned" && e.n == 1)
  || e.reach == "module"

/-- Environment reads that cannot reach a masked response (DESIGN.md C06: cwd for the schema search, home for
the frozen cache, now() for timestamps) plus reads whose value provably never becomes output. -/
def allowedEnv (r : EnvRead) : Bool :=
  -- (A1) cwd, only to build the cwd-relative schema search directories: flows into schema resolution, which
  --      the statement conditions on (`sameSchemaText`).
  (r.kind == "cwd" && r.file == "schemas/loader.py" && r.func == "get_schema_search_paths" && r.n == 2)
  -- (A2) home, only to locate the frozen-standard cache (`frozen@sha256:…` / `latest`): schema resolution.
  || (r.kind == "home" && r.file == "core/hydrator.py" && r.func == "resolve_hermetic_standard" && r.n == 1)
  -- (A3) now(), only into `RoutingEntry.timestamp` (masked by the statement).
  || (r.kind == "now" && r.file == "core/routing.py" && r.func == "RoutingLog.add" && r.n == 1)
  -- (A4) now(), only into the HYDRATION_TIME field of a hydration manifest (Python API `hydrate`; a
  --      timestamp, and hydration output is not among the results the statement lists).
  || (r.kind == "now" && r.file == "core/hydrator.py" && r.func == "_create_manifest_section" && r.n == 1)
  -- (A5) `.absolute()` / `.resolve()` / `relpath` of a path that comes from the call's arguments: for an
  --      absolute argument the result does not depend on cwd; a relative argument names a different file in
  --      a different cwd, which is a different input (same reading as for schema files).
  || r.kind == "cwd-resolve"
  -- (A6) `hash("Absent")` inside `Absent.__hash__`: only places the sentinel in hash tables; iteration
  --      order of sets is covered separately by `Ordered`.
  || (r.kind == "hash" && r.file == "core/ast_nodes.py" && r.func == "Absent.__hash__" && r.n == 1)
  -- (A7) `tempfile.mkstemp` for the atomic replace in octave_write: the random name is renamed onto the
  --      target; it appears in no envelope unless a file-system call fails (faults are outside C06).
  || (r.kind == "tmpname" && r.file == "mcp/write.py" && r.func == "WriteTool.execute" && r.n == 1)
  -- (A8) `open(path)` without `encoding=` in `load_schema`: decodes with the locale encoding, which is UTF-8
  --      for every locale the statement quantifies over (C and POSIX switch CPython ≥ 3.7 to UTF-8 mode,
  --      PEP 540; C.UTF-8 / en_US.UTF-8 are UTF-8).  Sampled by the behavioural matrix.
  || (r.kind == "default-encoding" && r.file == "schemas/loader.py" && r.func == "load_schema" && r.n == 1)
  -- (A9) package metadata read once at import for `__version__`, which no tool output contains.
  || (r.kind == "pkg-metadata" && r.file == "__init__.py" && r.func == "<module>" && r.n == 1)
  -- (A10) not referenced by any function reachable from the tools or the API.
  || r.reach == "module"

/-! ## Disciplines of a summary -/

def writeTargets (S : Summary) : List String :=
  (S.writes.filter (fun w => !benignWrite w)).map (·.target) ++ (S.escapes.filter (fun e => !benignEscape e)).map (·.target)

/-- No reachable function writes module/class state (outside the justified benign list). -/
def Frame (S : Summary) : Prop := writeTargets S = []
/-- Every environment read is on the allowed list. -/
def NoEnv (S : Summary) : Prop := ∀ r ∈ S.envReads, allowedEnv r = true
/-- No unordered set iteration can reach an output. -/
def Ordered (S : Summary) : Prop := S.setIters = []
/-- No await (or thread) inside tool code: each execute() is one atomic step of the event loop. -/
def NoAwait (S : Summary) : Prop := S.asyncs = []
/-- The first schema search directory is a package directory. -/
def PkgFirst (S : Summary) : Prop := S.searchOrder.head? = some "package"

instance (S : Summary) : Decidable (Frame S) := by unfold Frame; infer_instance
instance (S : Summary) : Decidable (NoEnv S) := by unfold NoEnv; infer_instance
instance (S : Summary) : Decidable (Ordered S) := by unfold Ordered; infer_instance
instance (S : Summary) : Decidable (NoAwait S) := by unfold NoAwait; infer_instance
instance (S : Summary) : Decidable (PkgFirst S) := by unfold PkgFirst; infer_instance

/-! ## The machine -/

/-- Module-level and class-level state of a process: binding ↦ abstract value. -/
abbrev PState := String → Nat

/-- Everything outside the call that a process could observe. -/
structure Config (Text : Type) where
  /-- value of each environment component, by kind ("hashseed", "cwd", "environ", "locale", "identity", …) -/
  env : String → Nat
  /-- wall clock -/
  clock : Nat
  /-- `dirs i name` = text of schema `name` in the i-th search directory (`none` = no such file) -/
  dirs : Nat → String → Option Text

structure Call (Args : Type) where
  args : Args
  schema : Option String

/-- What the code can see while serving one call. -/
structure Obs (Args Text : Type) where
  args : Args
  schema : Option Text
  state : PState
  leak : List (String × Nat)

/-- The code: arbitrary functions of the observation. -/
structure Impl (Args Text Data : Type) where
  /-- response skeleton; `none` marks a slot that receives a clock reading -/
  body : Obs Args Text → List (Option Data)
  /-- the module/class state the code would like to leave behind -/
  next : Obs Args Text → PState

inductive Slot (Data : Type) where
  | data (d : Data)
  | stamp (t : Nat)
deriving DecidableEq, Repr

section
variable {Args Text Data : Type}

def fill (clock : Nat) (sk : List (Option Data)) : List (Slot Data) :=
  sk.map (fun x => match x with | some d => Slot.data d | none => Slot.stamp clock)

/-- The view under which the statement compares responses: timestamps removed. -/
def mask (r : List (Slot Data)) : List (Option Data) :=
  r.map (fun x => match x with | Slot.data d => some d | Slot.stamp _ => none)

def resolveFrom (dirs : Nat → String → Option Text) (name : String) : Nat → List String → Option Text
  | _, [] => none
  | i, _ :: ks => match dirs i name with
    | some t => some t
    | none => resolveFrom dirs name (i + 1) ks

/-- Schema lookup: the search directories in the order the code appends them; first hit wins. -/
def resolve (S : Summary) (cfg : Config Text) : Option String → Option Text
  | none => none
  | some name => resolveFrom cfg.dirs name 0 S.searchOrder

/-- The two configurations resolve the call's schema name to the same text (or both to nothing). -/
def sameSchemaText (S : Summary) (cfg cfg' : Config Text) (c : Call Args) : Prop :=
  resolve S cfg c.schema = resolve S cfg' c.schema

instance [DecidableEq Text] (S : Summary) (cfg cfg' : Config Text) (c : Call Args) :
    Decidable (sameSchemaText S cfg cfg' c) := by unfold sameSchemaText; infer_instance

/-- Same installed package: directories of kind "package" hold the same files. -/
def sameInstall (S : Summary) (cfg cfg' : Config Text) : Prop :=
  ∀ i, S.searchOrder[i]? = some "package" → cfg.dirs i = cfg'.dirs i

/-- The environment values that reach the code: one entry per listed read that is not allowed, one per unordered
set iteration. -/
def leakOf (S : Summary) (cfg : Config Text) : List (String × Nat) :=
  ((S.envReads.filter (fun r => !allowedEnv r)).map (fun r => (r.kind, cfg.env r.kind)))
  ++ S.setIters.map (fun _ => ("hashseed", cfg.env "hashseed"))

def observe (S : Summary) (cfg : Config Text) (st : PState) (c : Call Args) : Obs Args Text :=
  { args := c.args, schema := resolve S cfg c.schema, state := st, leak := leakOf S cfg }

/-- Only the targets of listed, non-benign writes can change. -/
def applyWrites (S : Summary) (old new : PState) : PState :=
  fun b => if (writeTargets S).contains b then new b else old b

def step (S : Summary) (impl : Impl Args Text Data) (cfg : Config Text)
    (st : PState) (c : Call Args) : PState × List (Slot Data) :=
  let o := observe S cfg st c
  (applyWrites S st (impl.next o), fill cfg.clock (impl.body o))

/-- Serve a history of calls one after the other in one process. -/
def run (S : Summary) (impl : Impl Args Text Data) (cfg : Config Text) :
    PState → List (Call Args) → PState × List (List (Slot Data))
  | st, [] => (st, [])
  | st, c :: cs =>
    let r := step S impl cfg st c
    let rest := run S impl cfg r.1 cs
    (rest.1, r.2 :: rest.2)

/-- The response to the last call of a history. -/
def lastResp (x : PState × List (List (Slot Data))) : Option (List (Slot Data)) := x.2.getLast?

/-! ### One event loop, several concurrently scheduled calls

Each call is an asyncio task.  The event loop can switch tasks only at an `await`; the summary lists them.
With none, a task's whole execute() body is one atomic slot.  With some, the body is cut in (at least) two:
the task first observes, is suspended, and commits later. -/

inductive Phase (Args Text Data : Type) where
  | fresh
  | observed (o : Obs Args Text)
  | done (r : List (Slot Data))

structure Loop (Args Text Data : Type) where
  st : PState
  phases : List (Phase Args Text Data)

def initLoop (init : PState) (calls : List (Call Args)) : Loop Args Text Data :=
  { st := init, phases := calls.map (fun _ => Phase.fresh) }

/-- The event loop gives task `i` its next slot. -/
def tick (S : Summary) (impl : Impl Args Text Data) (cfg : Config Text)
    (calls : List (Call Args)) (L : Loop Args Text Data) (i : Nat) : Loop Args Text Data :=
  match calls[i]?, L.phases[i]? with
  | some c, some Phase.fresh =>
    let o := observe S cfg L.st c
    if S.asyncs.isEmpty then
      { st := applyWrites S L.st (impl.next o), phases := L.phases.set i (Phase.done (fill cfg.clock (impl.body o))) }
    else
      { st := L.st, phases := L.phases.set i (Phase.observed o) }
  | some _, some (Phase.observed o) =>
    { st := applyWrites S L.st (impl.next o), phases := L.phases.set i (Phase.done (fill cfg.clock (impl.body o))) }
  | _, _ => L

def runSched (S : Summary) (impl : Impl Args Text Data) (cfg : Config Text)
    (init : PState) (calls : List (Call Args)) (sched : List Nat) : Loop Args Text Data :=
  sched.foldl (tick S impl cfg calls) (initLoop init calls)

/-- Serial reference: serve call `i` completely (one `step`) unless it has been served already. -/
def serialTick (S : Summary) (impl : Impl Args Text Data) (cfg : Config Text)
    (calls : List (Call Args)) (L : Loop Args Text Data) (i : Nat) : Loop Args Text Data :=
  match calls[i]?, L.phases[i]? with
  | some c, some Phase.fresh =>
    let r := step S impl cfg L.st c
    { st := r.1, phases := L.phases.set i (Phase.done r.2) }
  | _, _ => L

def runSerial (S : Summary) (impl : Impl Args Text Data) (cfg : Config Text)
    (init : PState) (calls : List (Call Args)) (order : List Nat) : Loop Args Text Data :=
  order.foldl (serialTick S impl cfg calls) (initLoop init calls)

/-- The responses of the tasks that have finished. -/
def responses (L : Loop Args Text Data) : List (Option (List (Slot Data))) :=
  L.phases.map (fun p => match p with | Phase.done r => some r | _ => none)

end
end Octave
