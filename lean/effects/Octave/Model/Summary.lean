/-
Data types of the regenerated effect summary (`Octave/Gen/Effects.lean`, written by tools/gen/effects.py).
Core Lean only.  Every record carries the file, the function and a line-independent description; `n` counts
identical sites in the same function; `reach` is "tools" (reachable from an MCP tool's execute()), "api"
(reachable from the Python API only), "module" (defined in a reachable module but referenced by no reachable
function) or "import" (module / class body, runs at import time).
-/
namespace Octave

structure Binding where
  file : String
  owner : String      -- "<module>" or the class name
  name : String
  kind : String       -- dict, list, set, instance:…, …
deriving DecidableEq, Repr

structure StateWrite where
  file : String
  func : String
  target : String
  how : String
  guard : String      -- "init-once": lexically inside `if <target> is None:`; otherwise "none"
  importOnly : Bool   -- the function is referenced only by module-level code
  initAtImport : Bool -- the owning class / function is called by module-level code of its module
  reach : String
  n : Nat
deriving DecidableEq, Repr

structure Escape where
  file : String
  func : String
  target : String
  how : String
  reach : String
  n : Nat
deriving DecidableEq, Repr

structure SetIter where
  file : String
  func : String
  what : String
  expr : String
  reach : String
  n : Nat
deriving DecidableEq, Repr

structure EnvRead where
  file : String
  func : String
  kind : String
  detail : String
  reach : String
  n : Nat
deriving DecidableEq, Repr

structure AsyncSite where
  file : String
  func : String
  what : String
  reach : String
  n : Nat
deriving DecidableEq, Repr

/-- What the abstract machine of `Model/Effects` knows about the code. -/
structure Summary where
  writes : List StateWrite
  escapes : List Escape
  setIters : List SetIter
  envReads : List EnvRead
  asyncs : List AsyncSite
  searchOrder : List String
deriving Repr

end Octave
