/-
C06 — Results depend only on the input: same bytes in, same bytes out, everywhere.

Property theorems over the abstract machine `Octave.Model.Effects`, whose only knowledge of the code is the
regenerated effect summary `Gen.summary`.

  generic (any summary, any code `impl`, any history length, any schedule):
    C06_history_independent   Frame ∧ NoEnvPartial ∧ Ordered → masked response after any history in any
                              configuration = masked response of a fresh process in any other configuration
                              that resolves the schema name to the same text (calls outside the C06N1 class)
    C06_lookup_order          PkgFirst → a schema shipped in the first (package) directory resolves to the same
                              text in every working directory
    C06_serialisable          NoAwait → every schedule of concurrently submitted calls equals the serial
                              execution of whole calls in the order the loop first picked them
    C06_concurrent_same       all four → every response produced under any schedule = fresh response
  instance facts about the code as it is now (`decide` over the generated summary):
    C06_frame, C06_noenv_partial, C06_ordered, C06_noawait, C06_pkg_first
  and their combination  C06_code_partial / C06_code_concurrent_partial.

`_partial`: the generated summary contains one environment read that is not allowed — known finding C06N1
(default object repr of `ConstraintChain`, a memory address, reaches routing `value_hash` and the markdown
projection).  The theorems hold for calls outside that class (`kf c = false`); `C06_N1_channel` shows that
inside the class the machine does produce different responses.
-/
import Octave.Model.Effects
import Octave.Gen.Effects
namespace Octave.C06
open Octave

section Generic
variable {Args Text Data : Type}

theorem mask_fill (clock : Nat) (sk : List (Option Data)) : mask (fill clock sk) = sk := by
  induction sk with
  | nil => rfl
  | cons x xs ih =>
    cases x with
    | none => simp only [fill, mask, List.map_cons, List.map_map] at *; simp [ih]
    | some d => simp only [fill, mask, List.map_cons, List.map_map] at *; simp [ih]

theorem applyWrites_frame {S : Summary} (hF : Frame S) (old new : PState) : applyWrites S old new = old := by
  funext b
  unfold Frame at hF
  simp [applyWrites, hF]

theorem step_state_frame {S : Summary} (hF : Frame S) (kf : Call Args → Bool) (impl : Impl Args Text Data)
    (cfg : Config Text) (st : PState) (c : Call Args) : (step S kf impl cfg st c).1 = st := by
  simp [step, applyWrites_frame hF]

/-- Invariant, by induction over the history: under `Frame` the module/class state after any history is the
state the process had after import. -/
theorem run_state_frame {S : Summary} (hF : Frame S) (kf : Call Args → Bool) (impl : Impl Args Text Data)
    (cfg : Config Text) (st : PState) (hist : List (Call Args)) : (run S kf impl cfg st hist).1 = st := by
  induction hist generalizing st with
  | nil => rfl
  | cons c cs ih =>
    simp only [run]
    rw [ih, step_state_frame hF]

theorem run_append (S : Summary) (kf : Call Args → Bool) (impl : Impl Args Text Data) (cfg : Config Text)
    (st : PState) (hist : List (Call Args)) (c : Call Args) :
    (run S kf impl cfg st (hist ++ [c])).2
      = (run S kf impl cfg st hist).2 ++ [(step S kf impl cfg (run S kf impl cfg st hist).1 c).2] := by
  induction hist generalizing st with
  | nil => simp [run]
  | cons d ds ih => simp only [List.cons_append, run, ih, List.cons_append]

theorem lastResp_append (S : Summary) (kf : Call Args → Bool) (impl : Impl Args Text Data) (cfg : Config Text)
    (st : PState) (hist : List (Call Args)) (c : Call Args) :
    lastResp (run S kf impl cfg st (hist ++ [c])) = some (step S kf impl cfg (run S kf impl cfg st hist).1 c).2 := by
  simp [lastResp, run_append]

theorem leak_nil {S : Summary} (hE : NoEnvPartial S) (hO : Ordered S) (kf : Call Args → Bool)
    (cfg : Config Text) (c : Call Args) (hc : kf c = false) : leakOf S kf cfg c = [] := by
  unfold Ordered at hO
  have hfil : S.envReads.filter (fun r => !allowedEnv r && (!knownFindingEnv r || kf c)) = [] := by
    rw [List.filter_eq_nil_iff]
    intro r hr
    rcases hE r hr with h | h <;> simp [h, hc]
  simp [leakOf, hO, hfil]

/-- Under the three disciplines a call outside the known-finding class observes nothing but its arguments,
the resolved schema text and the (constant) post-import state. -/
theorem observe_eq {S : Summary} (hE : NoEnvPartial S) (hO : Ordered S) (kf : Call Args → Bool)
    (cfg cfg' : Config Text) (st : PState) (c : Call Args) (hc : kf c = false)
    (hs : sameSchemaText S cfg cfg' c) : observe S kf cfg st c = observe S kf cfg' st c := by
  unfold sameSchemaText at hs
  simp [observe, leak_nil hE hO kf cfg c hc, leak_nil hE hO kf cfg' c hc, hs]

/-- **History independence + configuration independence** (the generic lifting theorem, any history length):
the masked response to `call` after serving an arbitrary history in configuration `cfg` equals the masked
response of a fresh process in configuration `cfg'`, provided both resolve the schema name to the same text. -/
theorem C06_history_independent {S : Summary} (hF : Frame S) (hE : NoEnvPartial S) (hO : Ordered S)
    (kf : Call Args → Bool) (impl : Impl Args Text Data) (init : PState)
    (cfg cfg' : Config Text) (hist : List (Call Args)) (call : Call Args)
    (hc : kf call = false) (hs : sameSchemaText S cfg cfg' call) :
    (lastResp (run S kf impl cfg init (hist ++ [call]))).map mask
      = (lastResp (run S kf impl cfg' init [call])).map mask := by
  have h1 := lastResp_append S kf impl cfg init hist call
  have h2 := lastResp_append S kf impl cfg' init [] call
  simp only [List.nil_append] at h2
  rw [h1, h2, run_state_frame hF]
  simp only [run, Option.map_some, step, mask_fill]
  rw [observe_eq hE hO kf cfg cfg' init call hc hs]

/-- Full-strength form for a summary without any disallowed read (no known-finding exemption needed). -/
theorem C06_history_independent_full {S : Summary} (hF : Frame S) (hE : NoEnv S) (hO : Ordered S)
    (impl : Impl Args Text Data) (init : PState)
    (cfg cfg' : Config Text) (hist : List (Call Args)) (call : Call Args)
    (hs : sameSchemaText S cfg cfg' call) :
    (lastResp (run S (fun _ => true) impl cfg init (hist ++ [call]))).map mask
      = (lastResp (run S (fun _ => true) impl cfg' init [call])).map mask := by
  have hfil : ∀ (cfg : Config Text), leakOf S (fun _ => true) cfg call = [] := by
    intro cfg
    unfold Ordered at hO
    have hnil : S.envReads.filter (fun r => !allowedEnv r && (!knownFindingEnv r || (fun _ => true) call)) = [] := by
      rw [List.filter_eq_nil_iff]
      intro r hr
      have := hE r hr
      simp [this]
    unfold leakOf
    rw [hnil, hO]
    rfl
  have h1 := lastResp_append S (fun _ => true) impl cfg init hist call
  have h2 := lastResp_append S (fun _ => true) impl cfg' init [] call
  simp only [List.nil_append] at h2
  unfold sameSchemaText at hs
  rw [h1, h2, run_state_frame hF]
  simp only [run, Option.map_some, step, mask_fill, observe, hfil, hs]

/-- **Lookup order**: when the first search directory is a package directory and contains the schema, the
name resolves to that text whatever the working directory holds. -/
theorem C06_lookup_order {S : Summary} (hP : PkgFirst S) (cfg cfg' : Config Text) (hI : sameInstall S cfg cfg')
    (c : Call Args) (name : String) (hn : c.schema = some name) (hpkg : (cfg.dirs 0 name).isSome) :
    sameSchemaText S cfg cfg' c := by
  unfold PkgFirst at hP
  unfold sameSchemaText
  rw [hn]
  cases hso : S.searchOrder with
  | nil => simp [hso] at hP
  | cons k ks =>
    simp only [hso, List.head?_cons, Option.some.injEq] at hP
    have h0 : cfg.dirs 0 = cfg'.dirs 0 := hI 0 (by simp [hso, hP])
    cases hd : cfg.dirs 0 name with
    | none => simp [hd] at hpkg
    | some t =>
      have hd' : cfg'.dirs 0 name = some t := by rw [← h0]; exact hd
      simp [resolve, hso, resolveFrom, hd, hd']

/-! ### Concurrency -/

theorem tick_eq_serialTick {S : Summary} (hA : NoAwait S) (kf : Call Args → Bool) (impl : Impl Args Text Data)
    (cfg : Config Text) (calls : List (Call Args)) (L : Loop Args Text Data) (i : Nat)
    (hL : ∀ (j : Nat) (o : Obs Args Text), L.phases[j]? ≠ some (Phase.observed o)) :
    tick S kf impl cfg calls L i = serialTick S kf impl cfg calls L i := by
  unfold NoAwait at hA
  unfold tick serialTick
  cases hc : calls[i]? with
  | none => rfl
  | some c =>
    cases hp : L.phases[i]? with
    | none => rfl
    | some p =>
      cases p with
      | fresh => simp [hA, step]
      | observed o => exact absurd hp (hL i o)
      | done r => rfl

theorem serialTick_no_observed (S : Summary) (kf : Call Args → Bool) (impl : Impl Args Text Data)
    (cfg : Config Text) (calls : List (Call Args)) (L : Loop Args Text Data) (i : Nat)
    (hL : ∀ (j : Nat) (o : Obs Args Text), L.phases[j]? ≠ some (Phase.observed o)) :
    ∀ (j : Nat) (o : Obs Args Text), (serialTick S kf impl cfg calls L i).phases[j]? ≠ some (Phase.observed o) := by
  intro j o
  unfold serialTick
  cases hc : calls[i]? with
  | none => exact hL j o
  | some c =>
    cases hp : L.phases[i]? with
    | none => exact hL j o
    | some p =>
      cases p with
      | fresh =>
        by_cases hij : i = j
        · subst hij
          intro h
          simp [List.getElem?_set] at h
        · rw [List.getElem?_set_ne hij]; exact hL j o
      | observed o' => exact hL j o
      | done r => exact hL j o

theorem foldl_tick_eq {S : Summary} (hA : NoAwait S) (kf : Call Args → Bool) (impl : Impl Args Text Data)
    (cfg : Config Text) (calls : List (Call Args)) (sched : List Nat) (L : Loop Args Text Data)
    (hL : ∀ (j : Nat) (o : Obs Args Text), L.phases[j]? ≠ some (Phase.observed o)) :
    sched.foldl (tick S kf impl cfg calls) L = sched.foldl (serialTick S kf impl cfg calls) L := by
  induction sched generalizing L with
  | nil => rfl
  | cons i is ih =>
    simp only [List.foldl_cons]
    rw [tick_eq_serialTick hA kf impl cfg calls L i hL]
    exact ih _ (serialTick_no_observed S kf impl cfg calls L i hL)

theorem initLoop_no_observed (init : PState) (calls : List (Call Args)) :
    ∀ (j : Nat) (o : Obs Args Text), (initLoop (Text := Text) (Data := Data) init calls).phases[j]? ≠ some (Phase.observed o) := by
  intro j o h
  simp only [initLoop, List.getElem?_map] at h
  cases hc : calls[j]? <;> simp [hc] at h

/-- **Serialisability**: without an await inside tool code, every schedule the event loop can choose — any
list of task indices, of any length, with repetitions — has exactly the effect of serving whole calls one
after the other in the order in which the loop first picked them. -/
theorem C06_serialisable {S : Summary} (hA : NoAwait S) (kf : Call Args → Bool) (impl : Impl Args Text Data)
    (cfg : Config Text) (init : PState) (calls : List (Call Args)) (sched : List Nat) :
    runSched S kf impl cfg init calls sched = runSerial S kf impl cfg init calls sched := by
  unfold runSched runSerial
  exact foldl_tick_eq hA kf impl cfg calls sched _ (initLoop_no_observed init calls)

/-- Invariant of a serial run under `Frame`: the state stays `init` and every finished task holds the
response a fresh step from `init` gives. -/
theorem serial_invariant {S : Summary} (hF : Frame S) (kf : Call Args → Bool) (impl : Impl Args Text Data)
    (cfg : Config Text) (init : PState) (calls : List (Call Args)) (order : List Nat) (L : Loop Args Text Data)
    (hst : L.st = init)
    (hdone : ∀ (j : Nat) (r : List (Slot Data)), L.phases[j]? = some (Phase.done r) → ∃ c, calls[j]? = some c ∧ r = (step S kf impl cfg init c).2) :
    let L' := order.foldl (serialTick S kf impl cfg calls) L
    L'.st = init ∧ ∀ (j : Nat) (r : List (Slot Data)), L'.phases[j]? = some (Phase.done r) → ∃ c, calls[j]? = some c ∧ r = (step S kf impl cfg init c).2 := by
  induction order generalizing L with
  | nil => exact ⟨hst, hdone⟩
  | cons i is ih =>
    simp only [List.foldl_cons]
    apply ih
    · unfold serialTick
      cases hc : calls[i]? with
      | none => exact hst
      | some c =>
        cases hp : L.phases[i]? with
        | none => exact hst
        | some p =>
          cases p with
          | fresh => show (step S kf impl cfg L.st c).1 = init; rw [step_state_frame hF]; exact hst
          | observed o => exact hst
          | done r => exact hst
    · intro j r
      unfold serialTick
      cases hc : calls[i]? with
      | none => exact hdone j r
      | some c =>
        cases hp : L.phases[i]? with
        | none => exact hdone j r
        | some p =>
          cases p with
          | fresh =>
            by_cases hij : i = j
            · subst hij
              intro h
              simp [List.getElem?_set] at h
              exact ⟨c, hc, by rw [← h.2, hst]⟩
            · rw [List.getElem?_set_ne hij]; exact hdone j r
          | observed o => exact hdone j r
          | done r' => exact hdone j r

/-- **Concurrent = fresh**: with all four disciplines, whatever the schedule, every response a task produces
is (after masking) the response a fresh process in any other configuration gives to that call alone. -/
theorem C06_concurrent_same {S : Summary} (hF : Frame S) (hE : NoEnvPartial S) (hO : Ordered S) (hA : NoAwait S)
    (kf : Call Args → Bool) (impl : Impl Args Text Data) (init : PState) (cfg cfg' : Config Text)
    (calls : List (Call Args)) (sched : List Nat) (j : Nat) (r : List (Slot Data))
    (hr : (runSched S kf impl cfg init calls sched).phases[j]? = some (Phase.done r)) :
    ∃ c, calls[j]? = some c ∧
      (kf c = false → sameSchemaText S cfg cfg' c →
        some (mask r) = (lastResp (run S kf impl cfg' init [c])).map mask) := by
  rw [C06_serialisable hA] at hr
  unfold runSerial at hr
  have inv := serial_invariant hF kf impl cfg init calls sched (initLoop init calls) rfl (by
    intro j r h
    simp only [initLoop, List.getElem?_map] at h
    cases hc : calls[j]? <;> simp [hc] at h)
  obtain ⟨c, hc, hrc⟩ := inv.2 j r hr
  refine ⟨c, hc, ?_⟩
  intro hkf hs
  have h2 := lastResp_append S kf impl cfg' init [] c
  simp only [List.nil_append] at h2
  rw [h2, hrc]
  simp only [run, Option.map_some, step, mask_fill]
  rw [observe_eq hE hO kf cfg cfg' init c hkf hs]

end Generic

/-! ## Instance facts: the code as it is now (regenerated summary) -/

/-- No reachable non-import-time function writes module/class state (benign list: `benignWrite`, `benignEscape`). -/
theorem C06_frame : Frame Gen.summary := by decide
/-- Environment reads ⊆ allowed list ∪ {C06N1 site}. -/
theorem C06_noenv_partial : NoEnvPartial Gen.summary := by decide
/-- No unordered set iteration reaches an output. -/
theorem C06_ordered : Ordered Gen.summary := by decide
/-- No await / async with / async for / asyncio / threading in tool code. -/
theorem C06_noawait : NoAwait Gen.summary := by decide
/-- The package resource directory is searched before any cwd-relative directory. -/
theorem C06_pkg_first : PkgFirst Gen.summary := by decide
/-- The whole search order, as the code builds it. -/
theorem C06_search_order : Gen.summary.searchOrder = ["package", "cwd", "cwd", "package"] := by decide
/-- The only serialised field that receives a clock reading is `RoutingLog.to_dict`'s `timestamp`. -/
theorem C06_timestamp_keys : Gen.timestampKeys = [("core/routing.py", "RoutingLog.to_dict", "timestamp")] := by decide
/-- The known-finding exemption covers at most one site (today exactly one; once C06N1 is fixed the list is
empty, `NoEnv Gen.summary` becomes provable by `decide` and the `_partial` instance theorems below can be replaced
by their full forms through `C06_history_independent_full`). -/
theorem C06_N1_at_most_one : (Gen.summary.envReads.filter knownFindingEnv).length ≤ 1 := by decide

/-- **C06 for the code as it is** (partial: calls outside the C06N1 class): any code whose effects are within
the regenerated summary answers `call` identically (timestamps masked) after any history in any
configuration and in a fresh process in any other configuration resolving the schema to the same text. -/
theorem C06_code_partial {Args Text Data : Type} (kf : Call Args → Bool) (impl : Impl Args Text Data) (init : PState)
    (cfg cfg' : Config Text) (hist : List (Call Args)) (call : Call Args)
    (hc : kf call = false) (hs : sameSchemaText Gen.summary cfg cfg' call) :
    (lastResp (run Gen.summary kf impl cfg init (hist ++ [call]))).map mask
      = (lastResp (run Gen.summary kf impl cfg' init [call])).map mask :=
  C06_history_independent C06_frame C06_noenv_partial C06_ordered kf impl init cfg cfg' hist call hc hs

/-- …and under every schedule of concurrently submitted calls in one event loop. -/
theorem C06_code_concurrent_partial {Args Text Data : Type} (kf : Call Args → Bool) (impl : Impl Args Text Data)
    (init : PState) (cfg cfg' : Config Text) (calls : List (Call Args)) (sched : List Nat) (j : Nat)
    (r : List (Slot Data))
    (hr : (runSched Gen.summary kf impl cfg init calls sched).phases[j]? = some (Phase.done r)) :
    ∃ c, calls[j]? = some c ∧
      (kf c = false → sameSchemaText Gen.summary cfg cfg' c →
        some (mask r) = (lastResp (run Gen.summary kf impl cfg' init [c])).map mask) :=
  C06_concurrent_same C06_frame C06_noenv_partial C06_ordered C06_noawait kf impl init cfg cfg' calls sched j r hr

/-- A packaged schema (first search directory) resolves identically in every working directory. -/
theorem C06_code_lookup {Args Text : Type} (cfg cfg' : Config Text) (hI : sameInstall Gen.summary cfg cfg')
    (c : Call Args) (name : String) (hn : c.schema = some name) (hpkg : (cfg.dirs 0 name).isSome) :
    sameSchemaText Gen.summary cfg cfg' c :=
  C06_lookup_order C06_pkg_first cfg cfg' hI c name hn hpkg

/-! ## Non-vacuity and necessity of the hypotheses (toy instances, evaluated by `decide`) -/

namespace Toy
/-- toy code: echoes its argument, the resolved schema, one state cell, everything that leaks, and a timestamp -/
def impl : Impl Nat Nat Nat :=
  { body := fun o => [some o.args, o.schema, some (o.state "counter"), some (o.leak.foldl (fun a p => a + p.2) 0), none],
    next := fun o => fun b => if b == "counter" then o.state "counter" + 1 else o.state b }
def init : PState := fun _ => 0
def cfgA : Config Nat := { env := fun _ => 7, clock := 100, dirs := fun i n => if i == 0 && n == "S" then some 1 else none }
def cfgB : Config Nat := { env := fun _ => 9, clock := 200, dirs := fun i n => if i == 0 && n == "S" then some 1 else if i == 1 then some 5 else none }
def call (a : Nat) : Call Nat := { args := a, schema := some "S" }
def noKf : Call Nat → Bool := fun _ => false
def clean : Summary := { writes := [], escapes := [], setIters := [], envReads := [], asyncs := [], searchOrder := ["package", "cwd"] }
def leakyWrite : Summary := { clean with writes := [⟨"m.py", "f", "counter", ".append()", "none", false, false, "tools", 1⟩] }
def leakyEnv : Summary := { clean with envReads := [⟨"m.py", "f", "environ", "os.environ", "tools", 1⟩] }
def leakySet : Summary := { clean with setIters := [⟨"m.py", "f", "for-loop over set", "s", "tools", 1⟩] }
def withAwait : Summary := { leakyWrite with asyncs := [⟨"m.py", "execute", "await asyncio.sleep(0)", "tools", 1⟩] }
def n1 : Summary := { clean with envReads := [⟨"core/constraints.py", "<class ConstraintChain>", "identity", "default repr", "tools", 1⟩] }
end Toy
open Toy

-- the hypotheses of the generic theorems are satisfiable, and the conclusion is about a non-trivial response
example : Frame clean ∧ NoEnv clean ∧ NoEnvPartial clean ∧ Ordered clean ∧ NoAwait clean ∧ PkgFirst clean := by decide
example : sameSchemaText clean cfgA cfgB (call 3) := by decide
example : (lastResp (run clean noKf impl cfgA init ([call 1, call 2] ++ [call 3]))).map mask
    = some [some 3, some 1, some 0, some 0, none] := by decide
example : (lastResp (run clean noKf impl cfgA init [call 1, call 2, call 3]))
    ≠ (lastResp (run clean noKf impl cfgB init [call 3])) := by decide   -- unmasked timestamps differ
-- each hypothesis is needed: open one channel and the machine exhibits the dependence
example : (lastResp (run leakyWrite noKf impl cfgA init ([call 1, call 2] ++ [call 3]))).map mask
    ≠ (lastResp (run leakyWrite noKf impl cfgA init [call 3])).map mask := by decide      -- ¬Frame: history
example : ¬ Frame leakyWrite := by decide
example : (lastResp (run leakyEnv noKf impl cfgA init [call 3])).map mask
    ≠ (lastResp (run leakyEnv noKf impl cfgB init [call 3])).map mask := by decide        -- ¬NoEnv: configuration
example : ¬ NoEnvPartial leakyEnv := by decide
example : (lastResp (run leakySet noKf impl cfgA init [call 3])).map mask
    ≠ (lastResp (run leakySet noKf impl cfgB init [call 3])).map mask := by decide        -- ¬Ordered: hash seed
example : ¬ Ordered leakySet := by decide
-- a name found only in a cwd directory is outside the statement: the hypothesis fails, as it should
example : ¬ sameSchemaText clean cfgA cfgB ({ args := 0, schema := some "ONLY_IN_CWD" } : Call Nat) := by decide
-- lookup order: with the cwd directory searched first the same name resolves differently
example : ¬ sameSchemaText { clean with searchOrder := ["cwd", "package"] }
    { cfgA with dirs := fun i n => if i == 1 && n == "S" then some 1 else none }
    { cfgB with dirs := fun i n => if i == 1 && n == "S" then some 1 else if i == 0 then some 5 else none } (call 3) := by decide
-- serialisability is about something: without awaits an interleaved schedule equals the serial one …
example : responses (runSched leakyWrite noKf impl cfgA init [call 1, call 2] [1, 0, 1, 0])
    = responses (runSerial leakyWrite noKf impl cfgA init [call 1, call 2] [1, 0]) := by decide
-- … and with an await between observing and committing, a schedule exists whose responses no serial order gives
-- (both tasks observe counter = 0: lost update)
example : responses (runSched withAwait noKf impl cfgA init [call 1, call 2] [0, 1, 0, 1])
    ≠ responses (runSerial withAwait noKf impl cfgA init [call 1, call 2] [0, 1])
  ∧ responses (runSched withAwait noKf impl cfgA init [call 1, call 2] [0, 1, 0, 1])
    ≠ responses (runSerial withAwait noKf impl cfgA init [call 1, call 2] [1, 0]) := by decide
example : ¬ NoAwait withAwait := by decide

/-- **C06N1 in the model**: with the identity read of `ConstraintChain` in the summary, a call inside the
finding's class gets different masked responses in two configurations (the negation of the property on the
witness), while a call outside the class does not. -/
theorem C06_N1_channel :
    (lastResp (run n1 (fun c => c.args == 36) impl cfgA init [call 36])).map mask
      ≠ (lastResp (run n1 (fun c => c.args == 36) impl cfgB init [call 36])).map mask
    ∧ (lastResp (run n1 (fun c => c.args == 36) impl cfgA init [call 3])).map mask
      = (lastResp (run n1 (fun c => c.args == 36) impl cfgB init [call 3])).map mask := by decide
example : NoEnvPartial n1 ∧ ¬ NoEnv n1 := by decide

end Octave.C06
