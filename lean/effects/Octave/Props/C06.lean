/-
C06 — Results depend only on the input: same bytes in, same bytes out, everywhere.

Property theorems over the abstract machine `Octave.Model.Effects`, whose only knowledge of the code is the
regenerated effect summary `Gen.summary`.

  generic (any summary, any code `impl`, any history length, any schedule):
    C06_history_independent   Frame ∧ NoEnv ∧ Ordered → masked response after any history in any configuration
                              = masked response of a fresh process in any other configuration that resolves the
                              schema name to the same text
    C06_lookup_order          PkgFirst → a schema shipped in the first (package) directory resolves to the same
                              text in every working directory
    C06_serialisable          NoAwait → every schedule of concurrently submitted calls equals the serial
                              execution of whole calls in the order the loop first picked them
    C06_concurrent_same       all four → every response produced under any schedule = fresh response
  instance facts about the code as it is now (`decide` over the generated summary):
    C06_frame, C06_noenv, C06_ordered, C06_noawait, C06_pkg_first, C06_search_order, C06_timestamp_keys
  and their combination  C06_code / C06_code_concurrent / C06_code_lookup.

History: until /repo commit 0b0d621 the summary contained one read that is not allowed (finding C06N1: the default
object repr of `ConstraintChain`, a memory address, reached routing `value_hash` and the markdown projection) and
the instance theorems were `_partial`.  The fix gave the class a `__repr__`; the exemption is gone, the theorems
are stated at full strength.  `C06_identity_channel` keeps the regression in the model: a summary with such a read
does produce different responses in two configurations.
-/
import Octave.Model.Effects
import Octave.Lemmas.Effects
import Octave.Gen.Effects
namespace Octave.C06
open Octave Octave.Effects

section Generic
variable {Args Text Data : Type}

/-- **History independence + configuration independence** (the generic lifting theorem, any history length):
the masked response to `call` after serving an arbitrary history in configuration `cfg` equals the masked
response of a fresh process in configuration `cfg'`, provided both resolve the schema name to the same text. -/
theorem C06_history_independent {S : Summary} (hF : Frame S) (hE : NoEnv S) (hO : Ordered S)
    (impl : Impl Args Text Data) (init : PState)
    (cfg cfg' : Config Text) (hist : List (Call Args)) (call : Call Args)
    (hs : sameSchemaText S cfg cfg' call) :
    (lastResp (run S impl cfg init (hist ++ [call]))).map mask
      = (lastResp (run S impl cfg' init [call])).map mask := by
  have h1 := lastResp_append S impl cfg init hist call
  have h2 := lastResp_append S impl cfg' init [] call
  simp only [List.nil_append] at h2
  rw [h1, h2, run_state_frame hF]
  simp only [run, Option.map_some, step, mask_fill]
  rw [observe_eq hE hO cfg cfg' init call hs]

/-- **Lookup order**: when the first search directory is a package directory and contains the schema, the
name resolves to that text whatever the working directory holds. -/
theorem C06_lookup_order {S : Summary} (hP : PkgFirst S) (cfg cfg' : Config Text) (hI : sameInstall S cfg cfg')
    (c : Call Args) (name : String) (hn : c.schema = some name) (hpkg : (cfg.dirs 0 name).isSome) :
    sameSchemaText S cfg cfg' c := by
  unfold PkgFirst at hP
  unfold sameSchemaText
  rw [hn]
  cases hso : S.searchOrder with
  | nil => simp [hso] at hP
  | cons k ks =>
    simp only [hso, List.head?_cons, Option.some.injEq] at hP
    have h0 : cfg.dirs 0 = cfg'.dirs 0 := hI 0 (by simp [hso, hP])
    cases hd : cfg.dirs 0 name with
    | none => simp [hd] at hpkg
    | some t =>
      have hd' : cfg'.dirs 0 name = some t := by rw [← h0]; exact hd
      simp [resolve, hso, resolveFrom, hd, hd']

/-- **Serialisability**: without an await inside tool code, every schedule the event loop can choose — any
list of task indices, of any length, with repetitions — has exactly the effect of serving whole calls one
after the other in the order in which the loop first picked them. -/
theorem C06_serialisable {S : Summary} (hA : NoAwait S) (impl : Impl Args Text Data)
    (cfg : Config Text) (init : PState) (calls : List (Call Args)) (sched : List Nat) :
    runSched S impl cfg init calls sched = runSerial S impl cfg init calls sched := by
  unfold runSched runSerial
  exact foldl_tick_eq hA impl cfg calls sched _ (initLoop_no_observed init calls)

/-- **Concurrent = fresh**: with all four disciplines, whatever the schedule, every response a task produces
is (after masking) the response a fresh process in any other configuration gives to that call alone. -/
theorem C06_concurrent_same {S : Summary} (hF : Frame S) (hE : NoEnv S) (hO : Ordered S) (hA : NoAwait S)
    (impl : Impl Args Text Data) (init : PState) (cfg cfg' : Config Text)
    (calls : List (Call Args)) (sched : List Nat) (j : Nat) (r : List (Slot Data))
    (hr : (runSched S impl cfg init calls sched).phases[j]? = some (Phase.done r)) :
    ∃ c, calls[j]? = some c ∧
      (sameSchemaText S cfg cfg' c →
        some (mask r) = (lastResp (run S impl cfg' init [c])).map mask) := by
  rw [C06_serialisable hA] at hr
  unfold runSerial at hr
  have inv := serial_invariant hF impl cfg init calls sched (initLoop init calls) rfl (by
    intro j r h
    simp only [initLoop, List.getElem?_map] at h
    cases hc : calls[j]? <;> simp [hc] at h)
  obtain ⟨c, hc, hrc⟩ := inv.2 j r hr
  refine ⟨c, hc, ?_⟩
  intro hs
  have h2 := lastResp_append S impl cfg' init [] c
  simp only [List.nil_append] at h2
  rw [h2, hrc]
  simp only [run, Option.map_some, step, mask_fill]
  rw [observe_eq hE hO cfg cfg' init c hs]

end Generic

/-! ## Instance facts: the code as it is now (regenerated summary) -/

/-- No reachable non-import-time function writes module/class state (benign list: `benignWrite`, `benignEscape`). -/
theorem C06_frame : Frame Gen.summary := by decide
/-- Every environment read is on the allowed list (cwd for the schema search, home for the frozen cache, now() for
timestamps, … — `allowedEnv`, each entry justified). -/
theorem C06_noenv : NoEnv Gen.summary := by decide
/-- No unordered set iteration reaches an output. -/
theorem C06_ordered : Ordered Gen.summary := by decide
/-- No await / async with / async for / asyncio / threading in tool code. -/
theorem C06_noawait : NoAwait Gen.summary := by decide
/-- The package resource directory is searched before any cwd-relative directory. -/
theorem C06_pkg_first : PkgFirst Gen.summary := by decide
/-- The whole search order, as the code builds it. -/
theorem C06_search_order : Gen.summary.searchOrder = ["package", "cwd", "cwd", "package"] := by decide
/-- The only serialised field that receives a clock reading is `RoutingLog.to_dict`'s `timestamp`. -/
theorem C06_timestamp_keys : Gen.timestampKeys = [("core/routing.py", "RoutingLog.to_dict", "timestamp")] := by decide
/-- **C06 for the code as it is**: any code whose effects are within the regenerated summary answers `call`
identically (timestamps masked) after any history in any configuration and in a fresh process in any other
configuration resolving the schema to the same text. -/
theorem C06_code {Args Text Data : Type} (impl : Impl Args Text Data) (init : PState)
    (cfg cfg' : Config Text) (hist : List (Call Args)) (call : Call Args)
    (hs : sameSchemaText Gen.summary cfg cfg' call) :
    (lastResp (run Gen.summary impl cfg init (hist ++ [call]))).map mask
      = (lastResp (run Gen.summary impl cfg' init [call])).map mask :=
  C06_history_independent C06_frame C06_noenv C06_ordered impl init cfg cfg' hist call hs

/-- …and under every schedule of concurrently submitted calls in one event loop. -/
theorem C06_code_concurrent {Args Text Data : Type} (impl : Impl Args Text Data)
    (init : PState) (cfg cfg' : Config Text) (calls : List (Call Args)) (sched : List Nat) (j : Nat)
    (r : List (Slot Data))
    (hr : (runSched Gen.summary impl cfg init calls sched).phases[j]? = some (Phase.done r)) :
    ∃ c, calls[j]? = some c ∧
      (sameSchemaText Gen.summary cfg cfg' c →
        some (mask r) = (lastResp (run Gen.summary impl cfg' init [c])).map mask) :=
  C06_concurrent_same C06_frame C06_noenv C06_ordered C06_noawait impl init cfg cfg' calls sched j r hr

/-- A packaged schema (first search directory) resolves identically in every working directory. -/
theorem C06_code_lookup {Args Text : Type} (cfg cfg' : Config Text) (hI : sameInstall Gen.summary cfg cfg')
    (c : Call Args) (name : String) (hn : c.schema = some name) (hpkg : (cfg.dirs 0 name).isSome) :
    sameSchemaText Gen.summary cfg cfg' c :=
  C06_lookup_order C06_pkg_first cfg cfg' hI c name hn hpkg

/-! ## Non-vacuity and necessity of the hypotheses (toy instances, evaluated by `decide`) -/

namespace Toy
/-- toy code: echoes its argument, the resolved schema, one state cell, everything that leaks, and a timestamp -/
def impl : Impl Nat Nat Nat :=
  { body := fun o => [some o.args, o.schema, some (o.state "counter"), some (o.leak.foldl (fun a p => a + p.2) 0), none],
    next := fun o => fun b => if b == "counter" then o.state "counter" + 1 else o.state b }
def init : PState := fun _ => 0
def cfgA : Config Nat := { env := fun _ => 7, clock := 100, dirs := fun i n => if i == 0 && n == "S" then some 1 else none }
def cfgB : Config Nat := { env := fun _ => 9, clock := 200, dirs := fun i n => if i == 0 && n == "S" then some 1 else if i == 1 then some 5 else none }
def call (a : Nat) : Call Nat := { args := a, schema := some "S" }
def clean : Summary := { writes := [], escapes := [], setIters := [], envReads := [], asyncs := [], searchOrder := ["package", "cwd"] }
def leakyWrite : Summary := { clean with writes := [⟨"m.py", "f", "counter", ".append()", "none", false, false, "tools", 1⟩] }
def leakyEnv : Summary := { clean with envReads := [⟨"m.py", "f", "environ", "os.environ", "tools", 1⟩] }
def leakySet : Summary := { clean with setIters := [⟨"m.py", "f", "for-loop over set", "s", "tools", 1⟩] }
def withAwait : Summary := { leakyWrite with asyncs := [⟨"m.py", "execute", "await asyncio.sleep(0)", "tools", 1⟩] }
def identityLeak : Summary := { clean with envReads := [⟨"core/constraints.py", "<class ConstraintChain>", "identity", "default object repr", "tools", 1⟩] }
end Toy
open Toy

-- the hypotheses of the generic theorems are satisfiable, and the conclusion is about a non-trivial response
example : Frame clean ∧ NoEnv clean ∧ Ordered clean ∧ NoAwait clean ∧ PkgFirst clean := by decide
example : sameSchemaText clean cfgA cfgB (call 3) := by decide
example : (lastResp (run clean impl cfgA init ([call 1, call 2] ++ [call 3]))).map mask
    = some [some 3, some 1, some 0, some 0, none] := by decide
example : (lastResp (run clean impl cfgA init [call 1, call 2, call 3]))
    ≠ (lastResp (run clean impl cfgB init [call 3])) := by decide   -- unmasked timestamps differ
-- each hypothesis is needed: open one channel and the machine exhibits the dependence
example : (lastResp (run leakyWrite impl cfgA init ([call 1, call 2] ++ [call 3]))).map mask
    ≠ (lastResp (run leakyWrite impl cfgA init [call 3])).map mask := by decide      -- ¬Frame: history
example : ¬ Frame leakyWrite := by decide
example : (lastResp (run leakyEnv impl cfgA init [call 3])).map mask
    ≠ (lastResp (run leakyEnv impl cfgB init [call 3])).map mask := by decide        -- ¬NoEnv: configuration
example : ¬ NoEnv leakyEnv := by decide
example : (lastResp (run leakySet impl cfgA init [call 3])).map mask
    ≠ (lastResp (run leakySet impl cfgB init [call 3])).map mask := by decide        -- ¬Ordered: hash seed
example : ¬ Ordered leakySet := by decide
-- a name found only in a cwd directory is outside the statement: the hypothesis fails, as it should
example : ¬ sameSchemaText clean cfgA cfgB ({ args := 0, schema := some "ONLY_IN_CWD" } : Call Nat) := by decide
-- lookup order: with the cwd directory searched first the same name resolves differently
example : ¬ sameSchemaText { clean with searchOrder := ["cwd", "package"] }
    { cfgA with dirs := fun i n => if i == 1 && n == "S" then some 1 else none }
    { cfgB with dirs := fun i n => if i == 1 && n == "S" then some 1 else if i == 0 then some 5 else none } (call 3) := by decide
-- serialisability is about something: without awaits an interleaved schedule equals the serial one …
example : responses (runSched leakyWrite impl cfgA init [call 1, call 2] [1, 0, 1, 0])
    = responses (runSerial leakyWrite impl cfgA init [call 1, call 2] [1, 0]) := by decide
-- … and with an await between observing and committing, a schedule exists whose responses no serial order gives
-- (both tasks observe counter = 0: lost update)
example : responses (runSched withAwait impl cfgA init [call 1, call 2] [0, 1, 0, 1])
    ≠ responses (runSerial withAwait impl cfgA init [call 1, call 2] [0, 1])
  ∧ responses (runSched withAwait impl cfgA init [call 1, call 2] [0, 1, 0, 1])
    ≠ responses (runSerial withAwait impl cfgA init [call 1, call 2] [1, 0]) := by decide
example : ¬ NoAwait withAwait := by decide

/-- **Regression of finding C06N1 in the model** (fixed in /repo by commit 0b0d621): a summary that lists the
default object repr of a class held in a dataclass field — what the translator reported for `ConstraintChain` before
the fix — is not within the policy, and the machine then gives different masked responses in two configurations. -/
theorem C06_identity_channel :
    ¬ NoEnv identityLeak
    ∧ (lastResp (run identityLeak impl cfgA init [call 36])).map mask
      ≠ (lastResp (run identityLeak impl cfgB init [call 36])).map mask := by decide

end Octave.C06
