import Octave.Lemmas.NestLex
/-!
Emitter half for flat documents whose values are nested lists of scalars and floats: `emitValue_nitem` — `emit_value` at nesting
level `ind` writes exactly `NItem.text ind` (the layout is chosen per list by `nlMulti`: ≥ 3 items, an annotation-shaped string, or a
LIST among the items; item lines behind `2·(ind+1)` spaces, closing bracket behind `2·ind`) — and `emit_ndoc`.
-/
namespace Octave.Nest
open Octave Lexer Emitter
open Octave.ListDoc

mutual
def NItem.value : NItem → Value
  | .leaf a => a.value
  | .list xs => .list (nlValues xs)
def nlValues : List NItem → List Value
  | [] => []
  | x :: r => x.value :: nlValues r
end

theorem nlValues_eq_map (xs : List NItem) : nlValues xs = xs.map NItem.value := by
  induction xs with
  | nil => rfl
  | cons x r ih => simp [nlValues, ih]

/-- spelled the way the emitter spells it: strings quoted exactly when `needs_quotes` says so. -/
def NLeaf.EmitOK : NLeaf → Prop
  | .sc v => ItemEmitOK v
  | .num _ => True

def NItem.EmitOK (x : NItem) : Prop := ∀ a ∈ x.leaves, a.EmitOK
def nlEmitOK (xs : List NItem) : Prop := ∀ a ∈ nlLeaves xs, a.EmitOK

theorem nlEmitOK_head {x : NItem} {r : List NItem} (h : nlEmitOK (x :: r)) : x.EmitOK :=
  fun a ha => h a (by simp [nlLeaves, ha])
theorem nlEmitOK_tail {x : NItem} {r : List NItem} (h : nlEmitOK (x :: r)) : nlEmitOK r :=
  fun a ha => h a (by simp [nlLeaves, ha])
theorem nlEmitOK_of_list {xs : List NItem} (h : (NItem.list xs).EmitOK) : nlEmitOK xs :=
  fun a ha => h a (by simpa [NItem.leaves] using ha)

theorem emitMultiParts_ncons (x : NItem) (vs : List Value) (ind : Nat) :
    emitMultiParts (x.value :: vs) ind
      = (match emitValue x.value (ind + 1), emitMultiParts vs ind with
         | some p, some rest => some (p :: rest)
         | _, _ => none) := by
  cases x with
  | leaf a =>
    cases a with
    | sc v => cases v <;> rfl
    | num s => rfl
  | list xs => rfl

theorem emitFlatParts_ncons (x : NItem) (vs : List Value) (ind : Nat) :
    emitFlatParts (x.value :: vs) ind
      = (match emitValue x.value ind, emitFlatParts vs ind with
         | some p, some rest => some (p :: rest)
         | _, _ => none) := by
  cases x with
  | leaf a =>
    cases a with
    | sc v => cases v <;> rfl
    | num s => rfl
  | list xs => rfl

theorem needsMultilineAux_ncons (x : NItem) (vs : List Value) (n : Nat) :
    needsMultilineAux (x.value :: vs) n = (x.forces || needsMultilineAux vs (n + 1)) := by
  cases x with
  | leaf a =>
    cases a with
    | sc v => cases v <;> simp [NItem.value, NLeaf.value, NLeaf.toP, FScalar.toP, FlatParse.Scalar.val, NItem.forces, NLeaf.annot, valAnnot, needsMultilineAux]
    | num s => simp [NItem.value, NLeaf.value, NLeaf.toP, FlatParse.Scalar.val, NItem.forces, NLeaf.annot, valAnnot, needsMultilineAux]
  | list xs => simp [NItem.value, NItem.forces, needsMultilineAux]

theorem needsMultilineAux_nl (xs : List NItem) : ∀ n,
    needsMultilineAux (nlValues xs) n = (xs.any NItem.forces || decide (n + xs.length ≥ 3)) := by
  induction xs with
  | nil => intro n; simp [nlValues, needsMultilineAux]
  | cons x r ih =>
    intro n
    rw [nlValues, needsMultilineAux_ncons, ih (n + 1)]
    simp only [List.any_cons, List.length_cons, Bool.or_assoc]
    congr 2
    simp only [decide_eq_decide]; omega

theorem needsMultiline_nl (xs : List NItem) : needsMultiline (nlValues xs) = nlMulti xs := by
  rw [needsMultiline, needsMultilineAux_nl]; simp [nlMulti]

def PEmit (x : NItem) : Prop := ∀ ind, x.EmitOK → emitValue x.value ind = some (x.text ind)

theorem emitMultiParts_nl (r : List NItem) (ih : ∀ x ∈ r, PEmit x) (hok : nlEmitOK r) (ind : Nat) :
    emitMultiParts (nlValues r) ind = some (r.map (NItem.text (ind + 1))) := by
  induction r with
  | nil => rfl
  | cons x r ihr =>
    rw [nlValues, emitMultiParts_ncons, ih x (by simp) (ind + 1) (nlEmitOK_head hok),
      ihr (fun y hy => ih y (by simp [hy])) (nlEmitOK_tail hok)]
    rfl

theorem emitFlatParts_nl (r : List NItem) (ih : ∀ x ∈ r, PEmit x) (hok : nlEmitOK r) (ind : Nat) :
    emitFlatParts (nlValues r) ind = some (r.map (NItem.text ind)) := by
  induction r with
  | nil => rfl
  | cons x r ihr =>
    rw [nlValues, emitFlatParts_ncons, ih x (by simp) ind (nlEmitOK_head hok),
      ihr (fun y hy => ih y (by simp [hy])) (nlEmitOK_tail hok)]
    rfl

theorem joinWith_nlInlineTail (ind : Nat) (x : NItem) (r : List NItem) :
    joinWith [','] ((x :: r).map (NItem.text ind)) ++ [']'] = x.text ind ++ nlInlineTail ind r := by
  induction r generalizing x with
  | nil => simp [joinWith, nlInlineTail]
  | cons y r ih =>
    simp only [List.map_cons, joinWith, nlInlineTail, List.append_assoc] at ih ⊢
    rw [ih y]; simp

theorem joinWith_nlMultiTail (ind : Nat) (x : NItem) (r : List NItem) :
    joinWith ['\n'] (multilineLines (spacesL (2 * (ind + 1))) ((x :: r).map (NItem.text (ind + 1))) ++ [spacesL (2 * ind) ++ [']']])
      = spacesL (2 * (ind + 1)) ++ (x.text (ind + 1) ++ nlMultiTail ind r) := by
  induction r generalizing x with
  | nil => simp [multilineLines, joinWith, nlMultiTail]
  | cons y r ih =>
    have h := ih y
    simp only [List.map_cons] at h ⊢
    rw [multilineLines, List.cons_append, joinWith_cons_ne _ _ _ (by simp), h]
    simp [nlMultiTail]

/-- **`emit_value` on a nested list** at nesting level `ind`: exactly `NItem.text ind`. -/
theorem emitValue_nitem : ∀ x : NItem, PEmit x := by
  apply NItem.induct
  · intro a ind hok
    have ha : a.EmitOK := hok a (by simp [NItem.leaves])
    cases a with
    | sc v =>
      have := emitValue_scalar v ha ind
      rw [← scalar_val_toP] at this
      exact this
    | num s => rfl
  · intro xs ih ind hok
    have hoks := nlEmitOK_of_list hok
    cases xs with
    | nil => rfl
    | cons x r =>
      have hne : (nlValues (x :: r)).isEmpty = false := by simp [nlValues]
      simp only [NItem.value]
      rw [emitValue]
      simp only [hne, Bool.false_eq_true, if_false, needsMultiline_nl]
      cases hm : nlMulti (x :: r) with
      | true =>
        simp only [if_true, emitMultiParts_nl (x :: r) ih hoks ind, Option.map_some]
        have hp : ((x :: r).map (NItem.text (ind + 1))).isEmpty = false := by simp
        simp only [hp, Bool.false_eq_true, if_false]
        have e : indentStr ind = spacesL (2 * ind) := rfl
        have e2 : indentStr (ind + 1) = spacesL (2 * (ind + 1)) := rfl
        rw [e, e2, List.cons_append, joinWith_cons_ne _ _ _ (by simp), joinWith_nlMultiTail]
        simp [NItem.text, hm]
      | false =>
        simp only [Bool.false_eq_true, if_false, emitFlatParts_nl (x :: r) ih hoks ind, Option.map_some]
        have := joinWith_nlInlineTail ind x r
        simp only [List.cons_append, NItem.text, hm, Bool.false_eq_true, if_false]
        rw [this]

/-! ### lines and documents -/

def NItem.isBare : NItem → Bool
  | .leaf (.sc (.bare _)) => true
  | _ => false

/-- the line is spelled the way the emitter spells it: leaves by `needs_quotes`; a bare word as the line's own value does not sit
under `PATTERN` / `REGEX` (list items there are not force-quoted). -/
def NLine.EmitOK (ln : NLine) : Prop := ln.v.EmitOK ∧ (ln.v.isBare = true → alwaysQuoteKey ln.key = false)

def NLine.node (ln : NLine) (l c : Nat) : Node := .assign ln.key ln.v.value l c [] none

theorem emitNode_nline (env : Env) (ln : NLine) (l c : Nat) (h : ln.EmitOK) :
    emitNode env (ln.node l c) 0 false = some [ln.text] := by
  obtain ⟨key, v⟩ := ln
  obtain ⟨h1, h2⟩ := h
  cases v with
  | leaf a =>
    have ha : a.EmitOK := h1 a (by simp [NItem.leaves])
    cases a with
    | sc s =>
      have hf : (FLine.mk key s).EmitOK := by
        cases s with
        | qstr t => exact ha
        | bare t => exact ⟨ha, h2 rfl⟩
        | bool b => trivial
        | null => trivial
        | int i => trivial
      have := emitNode_flat env ⟨key, s⟩ l c hf
      simp only [FLine.node, FLine.text] at this
      simp only [NLine.node, NItem.value, NLeaf.value, NLeaf.toP, scalar_val_toP, NLine.text, NItem.text, NLeaf.text]
      rw [this]
    | num s =>
      simp [NLine.node, NItem.value, NLeaf.value, NLeaf.toP, FlatParse.Scalar.val, emitNode, emitAssignment, emitValue, forceQuote,
        leadingLines, indentStr, NLine.text, NItem.text, NLeaf.text]
  | list xs =>
    have hv := emitValue_nitem (.list xs) 0 h1
    simp only [NItem.value] at hv
    simp only [NLine.node, NItem.value, emitNode, emitAssignment, hv, Option.map_some, forceQuote, leadingLines, List.map_nil,
      List.nil_append, indentStr, NLine.text]
    simp

/-- the nodes of the lines, each at any position. -/
inductive NNodesOf : List NLine → List Node → Prop
  | nil : NNodesOf [] []
  | cons (ln : NLine) (l c : Nat) {r : List NLine} {ns : List Node} : NNodesOf r ns → NNodesOf (ln :: r) (ln.node l c :: ns)

theorem emitTop_nlines (env : Env) {lines : List NLine} {nodes : List Node} (hn : NNodesOf lines nodes)
    (h : ∀ ln ∈ lines, ln.EmitOK) :
    emitTop env nodes = some (lines.map NLine.text) := by
  induction hn with
  | nil => rfl
  | cons ln l c _ ih =>
    have h1 := emitNode_nline env ln l c (h ln (by simp))
    have h2 := ih (fun x hx => h x (by simp [hx]))
    simp only [NLine.node] at h1
    simp only [emitTop, NLine.node, h1, h2, List.map_cons]
    rfl

theorem joinWith_nlines (ls : List NLine) (tail : Str) :
    joinWith ['\n'] (ls.map NLine.text ++ [tail]) = nlinesText ls ++ tail := by
  induction ls with
  | nil => rfl
  | cons x r ih =>
    rw [List.map_cons, List.cons_append, joinWith_cons_ne _ _ _ (by simp), ih]
    simp [nlinesText]

/-- **The emitter on a flat document with nested-list values** writes exactly `ndocText`. -/
theorem emit_ndoc (env : Env) (name : Str) {lines : List NLine} {nodes : List Node} (hn : NNodesOf lines nodes)
    (h : ∀ ln ∈ lines, ln.EmitOK) :
    emit env { name := name, sections := nodes } = some (ndocText name lines) := by
  have ht := emitTop_nlines env hn h
  have hj := joinWith_nlines lines "===END===".toList
  unfold emit emitBody
  simp only [emitMetaLines, ht, leadingLines, List.map_nil, List.isEmpty_nil, Bool.true_or, if_true,
    Bool.false_eq_true, if_false, List.nil_append, List.append_nil, bind, Option.bind, pure, Option.map]
  show some (finishText (joinWith ['\n'] (("===".toList ++ name ++ "===".toList) ::
    (lines.map NLine.text ++ ["===END===".toList])))) = _
  rw [joinWith_cons_ne _ _ _ (by simp), hj]
  have hlast : (("===".toList ++ name ++ "===".toList) ++ ['\n'] ++ (nlinesText lines ++ "===END===".toList)).getLast? = some '=' := by
    rw [List.getLast?_append, List.getLast?_append]; rfl
  simp only [finishText, hlast]
  simp [ndocText]

end Octave.Nest
