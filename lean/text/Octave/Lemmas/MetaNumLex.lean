import Octave.Lemmas.MetaLex
import Octave.Lemmas.NestLex
/-!
The lexer and the emitter on documents whose META block carries NUMBERS — the lexer+emitter half of the round trip for the
class C04 lists as a gap: floats as META values.

Content model: `fields : List MField` (the META fields `KEY::leaf`, a leaf = `Nest.NLeaf`: an `FScalar` — quoted string, bare
word, boolean, null, integer of any sign — or `num s`, a FLOAT written with its canonical lexeme `s`) and a body forest
`nodes : List TNode` (lines `KEY::scalar` and nested blocks of `BlockLex`; flat bodies are the forests without blocks).
Canonical text (`metaNumText`):

    ===NAME===
    META:
      KEY::leaf              one line per field, two spaces
    <body at depth 0>
    ===END===

* `metaNum_step_leaf`    one lexer step on a leaf behind `::` (floats through `C13.step_numParts`);
* `metaNum_run_field`    one field line: INDENT(2) IDENTIFIER ASSIGN value NEWLINE;
* `tokenize_metaNum`     the lexer yields exactly `metaNumToks` (positions included), receipts = identifier notes only;
* `emit_metaNum` / `emit_metaNum_matches`   the emitter (`emit` → `emit_meta` → `emit_value` at indent 1) writes exactly
                         `metaNumText` when `fields ≠ []` (`MField.EmitOK`: the leaf is spelled as `emit_value` spells it; a
                         float is ALWAYS spelled by its text: no condition).
Everything lives in `namespace Octave.MetaNum`.
-/
namespace Octave.MetaNum
open Octave Lexer Scan Emitter
open Octave.Nest (NLeaf)

/-! ### content, text, tokens -/

/-- a META field `KEY::leaf`. -/
structure MField where
  key : Str
  v : NLeaf
  deriving Repr, DecidableEq

/-- lexable: key identifier-shaped without reserved-word prefix; the leaf `NLeaf.OK` (a float lexeme is a full match of the
NUMBER pattern, not an int lexeme, and its own `repr`). -/
def MField.OK (env : Env) (f : MField) : Prop :=
  isIdentifierText f.key = true ∧ hasReservedPrefix f.key = false ∧ f.v.OK env

/-- `KEY::leaf` (without indentation and line end). -/
def MField.text (f : MField) : Str := f.key ++ (':' :: ':' :: f.v.text)

/-- identifier notes of a leaf (a bare word only). -/
def leafReps (l c : Nat) : NLeaf → List Repair
  | .sc v => v.reps l c
  | .num _ => []

/-- tokens of a field line at text line `l`, newest first. -/
def MField.toksRev (f : MField) (l : Nat) : List Token :=
  [tNewline l (3 + f.key.length + 2 + f.v.text.length), f.v.tok l (3 + f.key.length + 2), tAssign l (3 + f.key.length),
   tIdent f.key l 3, tIndent 2 l 1]

def MField.repsRev (f : MField) (l : Nat) : List Repair :=
  (leafReps l (3 + f.key.length + 2) f.v).reverse ++ (identifierRepairs f.key l 3).reverse

/-- **a leaf behind `::`, before the line end**: one token. -/
theorem metaNum_step_leaf (env : Env) (lenient : Bool) (st : LState) (a : NLeaf) (rest : Str) (hr : Ready st)
    (hp : st.prev = some ':') (ha : a.OK env) :
    ∃ st' p, step env lenient st (a.text ++ '\n' :: rest) = .ok (st', '\n' :: rest) ∧
      Adv st st' [a.tok st.line st.col] (leafReps st.line st.col a).reverse 0 (st.col + a.text.length) p := by
  cases a with
  | sc v =>
    obtain ⟨st', p, e, adv⟩ := step_scalar env lenient st v rest hr hp ha
    refine ⟨st', p, e, ?_⟩
    have ht : NLeaf.tok (.sc v) st.line st.col = v.tok st.line st.col := (ListDoc.scalar_tok_toP v _ _).symm
    rw [ht]; exact adv
  | num s =>
    obtain ⟨hfull, hint, hrepr⟩ := ha
    obtain ⟨q, hq, rfl⟩ := C13.pyNumberFull_shape s hfull
    have hrep : C13.Representable env q.text := by
      unfold C13.Representable
      rw [hint]
      simp only [Bool.false_eq_true, if_false]
      rw [hrepr]
      exact Nest.num_not_inf _ hfull
    obtain ⟨s1, e1, a1⟩ := C13.step_numParts env lenient st q hq ('\n' :: rest) hr
      (Nest.floatTerm_term env '\n' rest (Or.inr (Or.inr rfl))) hrep
    have hns : C13.numScalar env q.text = .float q.text q.text := by
      unfold C13.numScalar
      rw [hint, hrepr]; rfl
    rw [hns] at a1
    exact ⟨s1, _, e1, a1⟩

/-- **one field line**: five iterations of the main loop, five tokens, next line, column 1. -/
theorem metaNum_run_field (env : Env) (lenient : Bool) (st : LState) (f : MField) (rest : Str) (hr : Ready st)
    (hcol : st.col = 1) (hok : f.OK env) :
    ∃ st', Run env lenient 5 st (indentStr 1 ++ (f.text ++ '\n' :: rest)) st' rest ∧
      AdvL st st' (f.toksRev st.line) (f.repsRev st.line) 1 := by
  obtain ⟨hk1, hk2, hv⟩ := hok
  obtain ⟨kc, kt, hkey, h1, h2, _⟩ := identText_cons f.key hk1
  have hshape : f.text ++ '\n' :: rest = kc :: (kt ++ (':' :: ':' :: f.v.text) ++ '\n' :: rest) := by
    simp [MField.text, hkey]
  obtain ⟨s0, p0, r0, a0⟩ := run_indent env lenient st 1 kc (kt ++ (':' :: ':' :: f.v.text) ++ '\n' :: rest) hr hcol h1 h2
  rw [← hshape] at r0
  have hshape2 : f.text ++ '\n' :: rest = f.key ++ (':' :: ':' :: (f.v.text ++ '\n' :: rest)) := by simp [MField.text]
  obtain ⟨s1, e1, a1⟩ := step_ident env lenient s0 f.key (':' :: ':' :: (f.v.text ++ '\n' :: rest)) a0.ready hk1 hk2 (termOK_colon env _)
  obtain ⟨s2, e2, a2⟩ := step_assign env lenient s1 (f.v.text ++ '\n' :: rest) a1.ready
  obtain ⟨s3, p3, e3, a3⟩ := metaNum_step_leaf env lenient s2 f.v rest a2.ready a2.prev hv
  obtain ⟨s4, e4, a4⟩ := step_newline env lenient s3 rest a3.ready
  rw [← hshape2] at e1
  have hvne : f.v.text ++ '\n' :: rest ≠ [] := by simp
  have run : Run env lenient 5 st (indentStr 1 ++ (f.text ++ '\n' :: rest)) s4 rest := by
    have r14 : Run env lenient 4 s0 (f.text ++ '\n' :: rest) s4 rest :=
      Run.cons' (by rw [hshape]; simp) e1 (Run.cons e2 (Run.cons' hvne e3 (Run.one e4)))
    have := Run.trans r0 r14
    exact Run.cast (by simp [indentSteps]) this
  refine ⟨s4, run, ?_⟩
  have h := (((a0.trans a1).trans a2).trans a3).trans a4
  have l0 : s0.line = st.line := by rw [a0.line]; rfl
  have l1 : s1.line = st.line := by rw [a1.line, l0]; rfl
  have l2 : s2.line = st.line := by rw [a2.line, l1]; rfl
  have l3 : s3.line = st.line := by rw [a3.line, l2]; rfl
  have c0 : s0.col = 3 := a0.col
  have c1 : s1.col = 3 + f.key.length := by rw [a1.col, c0]
  have c2 : s2.col = 3 + f.key.length + 2 := by rw [a2.col, c1]
  have c3 : s3.col = 3 + f.key.length + 2 + f.v.text.length := by rw [a3.col, c2]
  rw [l0, l1, l2, l3, c0, c1, c2, c3] at h
  exact ⟨h.ready, by rw [h.toks]; simp [MField.toksRev, indentToksRev], by rw [h.repairs]; simp [MField.repsRev], h.stack,
    by rw [h.line], h.col⟩

/-! ### all fields -/

def fieldsText : List MField → Str
  | [] => []
  | f :: fs => indentStr 1 ++ (f.text ++ '\n' :: fieldsText fs)

def fieldsToksRev (l : Nat) : List MField → List Token
  | [] => []
  | f :: fs => fieldsToksRev (l + 1) fs ++ f.toksRev l

def fieldsRepsRev (l : Nat) : List MField → List Repair
  | [] => []
  | f :: fs => fieldsRepsRev (l + 1) fs ++ f.repsRev l

theorem metaNum_run_fields (env : Env) (lenient : Bool) (fields : List MField) :
    ∀ (st : LState) (rest : Str), Ready st → st.col = 1 → (∀ f ∈ fields, f.OK env) →
    ∃ st', Run env lenient (5 * fields.length) st (fieldsText fields ++ rest) st' rest ∧
      AdvL st st' (fieldsToksRev st.line fields) (fieldsRepsRev st.line fields) fields.length := by
  induction fields with
  | nil =>
    intro st rest hr hc _
    exact ⟨st, by simpa [fieldsText] using Run.refl st rest, ⟨hr, by simp [fieldsToksRev], by simp [fieldsRepsRev], rfl, by simp, hc⟩⟩
  | cons f fs ih =>
    intro st rest hr hc hok
    obtain ⟨s1, r1, a1⟩ := metaNum_run_field env lenient st f (fieldsText fs ++ rest) hr hc (hok f (by simp))
    obtain ⟨s2, r2, a2⟩ := ih s1 rest a1.ready a1.col (fun l hl => hok l (by simp [hl]))
    refine ⟨s2, ?_, ?_⟩
    · have := Run.trans r1 r2
      have hlen : 5 + 5 * fs.length = 5 * (f :: fs).length := by simp; omega
      rw [hlen] at this
      simpa [fieldsText, List.append_assoc] using this
    · have h := a1.trans a2
      rw [a1.line] at h
      have hl : 1 + fs.length = (f :: fs).length := by simp; omega
      rw [hl] at h
      simpa [fieldsToksRev, fieldsRepsRev] using h

/-! ### the whole document -/

/-- canonical text. -/
def metaNumText (name : Str) (fields : List MField) (nodes : List TNode) : Str :=
  "===".toList ++ name ++ "===".toList ++ '\n' ::
    ("META:".toList ++ '\n' :: (fieldsText fields ++ (treeText 0 nodes ++ ("===END===".toList ++ ['\n']))))

/-- number of text lines between the envelope line and `===END===`. -/
def metaNumBodyLines (fields : List MField) (nodes : List TNode) : Nat := 1 + fields.length + treeNLines nodes

/-- tokens, newest first (without EOF). -/
def metaNumToksRev (name : Str) (fields : List MField) (nodes : List TNode) : List Token :=
  [tNewline (metaNumBodyLines fields nodes + 2) 10, tEnvEnd (metaNumBodyLines fields nodes + 2) 1] ++
    treeToksRev 0 (3 + fields.length) nodes ++ fieldsToksRev 3 fields ++
    [tNewline 2 6, tBlock 2 5, tIdent "META".toList 2 1] ++
    [tNewline 1 (1 + (name.length + 6)), tEnvStart name 1 1]

/-- tokens in reading order, EOF included. -/
def metaNumToks (name : Str) (fields : List MField) (nodes : List TNode) : List Token :=
  (tEof (metaNumBodyLines fields nodes + 3) 1 :: metaNumToksRev name fields nodes).reverse

/-- receipts (identifier notes only), newest first. -/
def metaNumRepsRev (fields : List MField) (nodes : List TNode) : List Repair :=
  treeRepsRev 0 (3 + fields.length) nodes ++ fieldsRepsRev 3 fields ++ (identifierRepairs "META".toList 2 1).reverse

theorem metaNum_run_doc (env : Env) (lenient : Bool) (name : Str) (fields : List MField) (nodes : List TNode)
    (hn : isEnvName name = true) (hne : name ≠ "END".toList) (hf : ∀ f ∈ fields, f.OK env) (hok : treeOK nodes) :
    ∃ st' n, Run env lenient n ({ spans := [] } : LState) (metaNumText name fields nodes) st' [] ∧
      st'.toks = metaNumToksRev name fields nodes ∧ st'.repairs = metaNumRepsRev fields nodes ∧ st'.stack = [] ∧
      st'.line = metaNumBodyLines fields nodes + 3 ∧ st'.col = 1 := by
  let st0 : LState := { spans := [] }
  let tailEnd : Str := "===END===".toList ++ ['\n']
  obtain ⟨s1, e1, a1⟩ := step_envStart env lenient st0 name
    ('\n' :: ("META:".toList ++ '\n' :: (fieldsText fields ++ (treeText 0 nodes ++ tailEnd)))) rfl hn hne
  obtain ⟨s2, e2, a2⟩ := step_newline env lenient s1 ("META:".toList ++ '\n' :: (fieldsText fields ++ (treeText 0 nodes ++ tailEnd))) a1.ready
  obtain ⟨sh, rh, ah⟩ := run_header env lenient s2 "META".toList 0 (fieldsText fields ++ (treeText 0 nodes ++ tailEnd)) a2.ready a2.col
    (by decide) (by decide)
  obtain ⟨sf, rf, af⟩ := metaNum_run_fields env lenient fields sh (treeText 0 nodes ++ tailEnd) ah.ready ah.col hf
  obtain ⟨s3, r3, a3⟩ := run_tree env lenient nodes 0 sf tailEnd af.ready af.col hok
  obtain ⟨s4, e4, a4⟩ := step_envEnd env lenient s3 ['\n'] a3.ready
  obtain ⟨s5, e5, a5⟩ := step_newline env lenient s4 [] a4.ready
  have hhdr : indentStr 0 ++ ("META".toList ++ ':' :: '\n' :: (fieldsText fields ++ (treeText 0 nodes ++ tailEnd)))
      = "META:".toList ++ '\n' :: (fieldsText fields ++ (treeText 0 nodes ++ tailEnd)) := by
    simp [indentStr]
  rw [hhdr] at rh
  have tail : Run env lenient _ s2 ("META:".toList ++ '\n' :: (fieldsText fields ++ (treeText 0 nodes ++ tailEnd))) s5 [] :=
    Run.trans rh (Run.trans rf (Run.trans r3 (Run.cons' (by simp [tailEnd]) e4 (Run.one e5))))
  have run : Run env lenient _ st0 (metaNumText name fields nodes) s5 [] :=
    Run.cons' (by simp [metaNumText]) (by simpa [metaNumText, tailEnd] using e1) (Run.cons e2 tail)
  have l1 : s1.line = 1 := by rw [a1.line]
  have l2 : s2.line = 2 := by rw [a2.line, l1]
  have lh : sh.line = 3 := by rw [ah.line, l2]
  have lf : sf.line = 3 + fields.length := by rw [af.line, lh]
  have l3 : s3.line = metaNumBodyLines fields nodes + 2 := by rw [a3.line, lf, metaNumBodyLines]; omega
  have l4 : s4.line = metaNumBodyLines fields nodes + 2 := by rw [a4.line, l3]
  have c1 : s1.col = 1 + (name.length + 6) := a1.col
  have c3 : s3.col = 1 := a3.col
  have c4 : s4.col = 10 := by rw [a4.col, c3]
  refine ⟨s5, _, run, ?_, ?_, ?_, ?_, a5.col⟩
  · rw [a5.toks, a4.toks, a3.toks, af.toks, ah.toks, a2.toks, a1.toks, l1, l2, lh, lf, l3, l4, c1, c3, c4]
    simp [metaNumToksRev, headerToksRev, indentToksRev]
    exact ⟨rfl, rfl⟩
  · rw [a5.repairs, a4.repairs, a3.repairs, af.repairs, ah.repairs, a2.repairs, a1.repairs, l2, lh, lf]
    simp [metaNumRepsRev]; rfl
  · rw [a5.stack, a4.stack, a3.stack, af.stack, ah.stack, a2.stack, a1.stack]
  · rw [a5.line, l4]

/-! ### the lines of the text -/

/-- the lines between the envelope line and `===END===` as (depth, text after the indentation) rows. -/
def metaNumRows (fields : List MField) (nodes : List TNode) : List (Nat × Str) :=
  ((0, "META:".toList) :: fields.map fun f => (1, f.text)) ++ treeRows 0 nodes

theorem fieldsText_rows (fields : List MField) : fieldsText fields = unlines ((fields.map fun f => (1, f.text)).map rowText) := by
  induction fields with
  | nil => rfl
  | cons f fs ih => simp [fieldsText, unlines, rowText, ih]

theorem metaNumText_rows (name : Str) (fields : List MField) (nodes : List TNode) :
    metaNumText name fields nodes = "===".toList ++ name ++ "===".toList ++ '\n' ::
      (unlines ((metaNumRows fields nodes).map rowText) ++ ("===END===".toList ++ ['\n'])) := by
  simp [metaNumText, metaNumRows, unlines, unlines_append, fieldsText_rows, treeText_rows, rowText, indentStr]

theorem bodyOK_field (env : Env) (f : MField) (h : f.OK env) : BodyOK f.text := by
  refine ⟨?_, ?_⟩
  · have e : f.text = f.key ++ ("::".toList ++ f.v.text) := rfl
    rw [e]
    exact Clean.append (identText_clean f.key h.1) (Clean.append (clean_lit _ (by decide)) (Nest.leaf_clean env f.v h.2.2))
  · obtain ⟨c, t, hk, h1, h2, h3⟩ := identText_cons f.key h.1
    exact ⟨c, t ++ (':' :: ':' :: f.v.text), by simp [MField.text, hk], h1, h2, h3⟩

theorem metaNumRows_ok (env : Env) (fields : List MField) (nodes : List TNode) (hf : ∀ f ∈ fields, f.OK env) (hok : treeOK nodes) :
    ∀ r ∈ metaNumRows fields nodes, BodyOK r.2 := by
  intro r hr
  simp only [metaNumRows, List.cons_append, List.mem_cons, List.mem_append, List.mem_map] at hr
  rcases hr with h | ⟨f, hfm, rfl⟩ | h
  · subst h; exact bodyOK_header "META".toList (by decide)
  · exact bodyOK_field env f (hf f hfm)
  · exact treeRows_ok nodes 0 hok r h

theorem splitLines_metaNumText (env : Env) (name : Str) (fields : List MField) (nodes : List TNode) (hn : isEnvName name = true)
    (hf : ∀ f ∈ fields, f.OK env) (hok : treeOK nodes) :
    splitLines (metaNumText name fields nodes) =
      ("===".toList ++ name ++ "===".toList) :: ((metaNumRows fields nodes).map rowText ++ ["===END===".toList, []]) := by
  have h1 := splitLines_append_nl ("===".toList ++ name ++ "===".toList)
    (unlines ((metaNumRows fields nodes).map rowText) ++ ("===END===".toList ++ ['\n']))
    (fun d hd => (envLine_clean name hn d hd).1)
  have h2 := splitLines_unlines ((metaNumRows fields nodes).map rowText) ("===END===".toList ++ ['\n']) (by
    intro l hl d hd
    obtain ⟨r, hr, rfl⟩ := List.mem_map.mp hl
    exact (rowText_clean r (metaNumRows_ok env fields nodes hf hok r hr) d hd).1)
  have h3 : splitLines ("===END===".toList ++ ['\n']) = ["===END===".toList, []] := by decide
  rw [metaNumText_rows, h1, h2, h3]

theorem metaNumText_noTab (env : Env) (name : Str) (fields : List MField) (nodes : List TNode) (hn : isEnvName name = true)
    (hf : ∀ f ∈ fields, f.OK env) (hok : treeOK nodes) : ∀ d ∈ metaNumText name fields nodes, d ≠ '\t' := by
  have hl := unlines_noTab ((metaNumRows fields nodes).map rowText) (by
    intro l hl d hd
    obtain ⟨r, hr, rfl⟩ := List.mem_map.mp hl
    exact (rowText_clean r (metaNumRows_ok env fields nodes hf hok r hr) d hd).2)
  intro d hd
  rw [metaNumText_rows] at hd
  simp only [List.mem_append, List.mem_cons] at hd
  rcases hd with h' | h' | h' | h' | h'
  · exact (envLine_clean name hn d (by simp only [List.mem_append]; exact h')).2
  · subst h'; decide
  · exact hl d h'
  · intro he; subst he; revert h'; decide
  · intro he; subst he; simp at h'

/-- **The lexer on the canonical text of a document whose META block carries scalars and floats** (any name, any fields, any
forest of lines and nested blocks as body, both lexer modes): exactly `metaNumToks`, positions included — `META:` is lexed like a
block header, every field as `INDENT(2) IDENTIFIER ASSIGN value NEWLINE`, a float value as ONE NUMBER token typed float —, and
no receipt other than the identifier notes. -/
theorem tokenize_metaNum (env : Env) (lenient : Bool) (name : Str) (fields : List MField) (nodes : List TNode)
    (hn : isEnvName name = true) (hne : name ≠ "END".toList) (hf : ∀ f ∈ fields, f.OK env) (hok : treeOK nodes)
    (hnfc : ∀ l ∈ splitLines (metaNumText name fields nodes), env.nfc l = l) :
    tokenize env (metaNumText name fields nodes) lenient
      = .ok (metaNumToks name fields nodes, (metaNumRepsRev fields nodes).reverse) := by
  have hsplit := splitLines_metaNumText env name fields nodes hn hf hok
  have hfence : ∀ l ∈ splitLines (metaNumText name fields nodes), fenceLine l = none ∧ env.nfc l = l := by
    intro l hl
    refine ⟨?_, hnfc l hl⟩
    rw [hsplit] at hl
    simp only [List.mem_cons, List.mem_append, List.mem_map, List.mem_nil_iff, or_false] at hl
    rcases hl with h | ⟨r, hr, rfl⟩ | h | h
    · subst h; exact fenceLine_none_of_head _ (by intro c hc; have : c = '=' := by simpa using hc.symm
                                                  subst this; decide)
    · exact rowText_fence r (metaNumRows_ok env fields nodes hf hok r hr)
    · subst h; decide
    · subst h; decide
  have hnorm := normalize_plain env (metaNumText name fields nodes) hfence
  have htab := tabCheck_noTab [] (metaNumText name fields nodes) 0 1 1 (metaNumText_noTab env name fields nodes hn hf hok)
  obtain ⟨st', n, run, ht, hr, hs, hl, hc⟩ := metaNum_run_doc env lenient name fields nodes hn hne hf hok
  have hloop := loop_of_run env lenient _ _ st' (metaNumText name fields nodes) run (by intro sp hsp; simp at hsp)
  unfold tokenize
  simp only [hnorm, htab, hloop, bind, Except.bind, hs, List.getLast?_nil, ht, hr, hl, hc]
  rfl

/-! ### the emitter -/

/-- the fields as entries of `Document.metaKv` (the Python dict `doc.meta`), in order. -/
def metaNumKv (fields : List MField) : List (Str × MetaVal) := fields.map fun f => (f.key, MetaVal.val f.v.value)

/-- `emit_meta` (→ `emit_value`, indent 1) spells the leaf the way `MField.text` does. -/
def MField.EmitOK (f : MField) : Prop := emitValue f.v.value 1 = some f.v.text

instance (f : MField) : Decidable f.EmitOK := by unfold MField.EmitOK; infer_instance

/-- a float is ALWAYS spelled by its text: no condition. -/
theorem emitOK_num (key s : Str) : (MField.mk key (.num s)).EmitOK := by
  simp [MField.EmitOK, NLeaf.value, NLeaf.toP, NLeaf.text, FlatParse.Scalar.val, emitValue]

/-- a scalar: the condition of `MetaLex`. -/
theorem emitOK_sc (key : Str) (v : FScalar) (h : (FLine.mk key v).MetaEmitOK) : (MField.mk key (.sc v)).EmitOK := by
  have e : NLeaf.value (.sc v) = v.value := by
    cases v <;> rfl
  simpa [MField.EmitOK, e, NLeaf.text, FLine.MetaEmitOK] using h

theorem emitMetaLines_mfields (fields : List MField) (h : ∀ f ∈ fields, f.EmitOK) :
    emitMetaLines (metaNumKv fields) = some (fields.map fun f => rowText (1, f.text)) := by
  induction fields with
  | nil => rfl
  | cons f fs ih =>
    have h1 : emitValue f.v.value 1 = some f.v.text := h f (by simp)
    have h2 := ih (fun l hl => h l (by simp [hl]))
    simp only [metaNumKv, List.map_cons] at h2 ⊢
    rw [emitMetaLines_val f.key f.v.value _ _ _ h1 h2]
    simp [rowText, MField.text]

/-- **The emitter on a document whose (non-empty) META carries scalars and floats** writes exactly `metaNumText`, whatever
positions the body nodes carry. -/
theorem emit_metaNum_matches (env : Env) (name : Str) (fields : List MField) (nodes : List TNode) (sections : List Node)
    (hne : fields ≠ []) (hm : treeMatches nodes sections) (hfe : ∀ f ∈ fields, f.EmitOK) (h : treeEmitOK nodes) :
    emit env { name := name, metaKv := metaNumKv fields, sections := sections } = some (metaNumText name fields nodes) := by
  have ht := emitTop_tree env nodes sections hm h
  have hml := emitMetaLines_mfields fields hfe
  have hkv : (metaNumKv fields).isEmpty = false := by
    cases fields with
    | nil => exact absurd rfl hne
    | cons a b => rfl
  have hle : (fields.map fun f => rowText (1, f.text)).isEmpty = false := by
    cases fields with
    | nil => exact absurd rfl hne
    | cons a b => rfl
  unfold emit emitBody
  simp only [hml, ht, hkv, hle, leadingLines, List.map_nil, Bool.false_or, Bool.false_eq_true, if_false,
    List.nil_append, List.append_nil, bind, Option.bind, pure, Option.map]
  have hrows : (metaNumRows fields nodes).map rowText
      = ("META:".toList :: fields.map fun f => rowText (1, f.text)) ++ (treeRows 0 nodes).map rowText := by
    simp [metaNumRows, rowText, indentStr]
  have hj : joinWith ['\n'] (["===".toList ++ name ++ "===".toList] ++
                [joinWith ['\n'] ("META:".toList :: List.map (fun f => rowText (1, f.text)) fields)] ++
              List.map rowText (treeRows 0 nodes) ++ ["===END===".toList])
      = ("===".toList ++ name ++ "===".toList) ++ ['\n'] ++
          (unlines ((metaNumRows fields nodes).map rowText) ++ "===END===".toList) := by
    simp only [List.cons_append, List.nil_append, List.append_assoc]
    rw [joinWith, joinWith_join_head _ _ _ (by simp) (by simp), hrows, ← joinWith_unlines]
    simp only [List.cons_append, List.append_assoc, List.nil_append]
  rw [hj]
  have hlast : (("===".toList ++ name ++ "===".toList) ++ ['\n'] ++
      (unlines ((metaNumRows fields nodes).map rowText) ++ "===END===".toList)).getLast? = some '=' := by
    rw [List.getLast?_append, List.getLast?_append]; rfl
  simp only [finishText, hlast]
  rw [metaNumText_rows]
  simp

/-- the document: the fields in `meta` (in order), the forest in `sections` (positions `pos`). -/
def metaNumDoc (name : Str) (pos : Nat → Nat → Nat × Nat) (fields : List MField) (nodes : List TNode) : Document :=
  { name := name, metaKv := metaNumKv fields, sections := treeNodes pos (1 + fields.length) 0 nodes }

theorem emit_metaNum (env : Env) (name : Str) (pos : Nat → Nat → Nat × Nat) (fields : List MField) (nodes : List TNode)
    (hne : fields ≠ []) (hfe : ∀ f ∈ fields, f.EmitOK) (h : treeEmitOK nodes) :
    emit env (metaNumDoc name pos fields nodes) = some (metaNumText name fields nodes) :=
  emit_metaNum_matches env name fields nodes _ hne (treeNodes_matches pos nodes (1 + fields.length) 0) hfe h

end Octave.MetaNum
