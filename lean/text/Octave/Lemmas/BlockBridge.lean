import Octave.Lemmas.FlatBridge
import Octave.Lemmas.BlockLex
import Octave.Lemmas.BlockParse
/-!
Glue between the lexer half (`BlockLex`, concrete positions) and the parser half (`BlockParse`, arbitrary positions) of the
round trip of documents with nested BLOCKS — the analogue of `FlatBridge` for trees of any depth and width.

* `TNode.toP` / `treeToP`          the content of the lexer half as the parser half describes it (scalars by `FScalar.toP`);
* `TNode.lpos` / `lposList d l`    the positions the lexer gives to every source line (one `BlockParse.LPos` per line, reading
                                   order): line `l`, INDENT at column 1, key at column `1 + 2·d`, …;
* `posOf nodes`                    the position function of the parser half (`i` ↦ positions of the `i`-th body line);
* `Agree pos L i`                  `pos` coincides with the list `L` on the window `[i, i + |L|)`;
* `treeToks_agree` (mutual)        the two token descriptions coincide for every `pos` that agrees with `lposList` on the window
                                   of the forest; `treeToks_bridge`: the whole document;
* `canonCols_posOf`, `metaFirstT_bridge`, `treeDoc_bridge`   the side conditions and the document of the parser half in the
                                   vocabulary of the lexer half;
* `Content` / `treeContent`        position-free content of a tree, determined by any AST that `treeMatches` it.
-/
namespace Octave
open Lexer Emitter

/-! ### content and positions in the vocabulary of the parser half -/

mutual
/-- the node as the parser half describes it. -/
def TNode.toP : TNode → BlockParse.TNode
  | .line ln => .line ln.key ln.v.toP
  | .block key cs => .block key (treeToP cs)
def treeToP : List TNode → List BlockParse.TNode
  | [] => []
  | n :: ns => n.toP :: treeToP ns
end

/-- positions of the tokens of a `KEY::value` line at depth `d`, text line `l`. -/
def linePos (ln : FLine) (d l : Nat) : BlockParse.LPos :=
  { li := l, ci := 1, l := l, c1 := 1 + 2 * d, c2 := 1 + 2 * d + ln.key.length, c3 := 1 + 2 * d + ln.key.length + 2,
    c4 := 1 + 2 * d + ln.key.length + 2 + ln.v.text.length }

/-- positions of the tokens of a block header `KEY:` at depth `d`, text line `l` (`c3` is not used by a header). -/
def headerPos (key : Str) (d l : Nat) : BlockParse.LPos :=
  { li := l, ci := 1, l := l, c1 := 1 + 2 * d, c2 := 1 + 2 * d + key.length, c3 := 1 + 2 * d + key.length + 1,
    c4 := 1 + 2 * d + key.length + 1 }

mutual
/-- positions of the source lines of a node at depth `d` whose first line is text line `l`, in reading order. -/
def TNode.lpos (d l : Nat) : TNode → List BlockParse.LPos
  | .line ln => [linePos ln d l]
  | .block key cs => headerPos key d l :: lposList (d + 1) (l + 1) cs
def lposList (d l : Nat) : List TNode → List BlockParse.LPos
  | [] => []
  | n :: ns => n.lpos d l ++ lposList d (l + n.nlines) ns
end

/-- the position function of the parser half for the canonical text: body line `i` (0-based) is text line `i + 2`. -/
def posOf (nodes : List TNode) : Nat → BlockParse.LPos := fun i => (lposList 0 2 nodes).getD i default

/-- the frame (envelope and end tokens) of the canonical text with `n` body lines. -/
def treeFrame (name : Str) (n : Nat) : FlatParse.Frame := flatFrame name n

mutual
theorem TNode.lines_toP : ∀ (n : TNode), n.toP.lines = n.nlines
  | .line ln => rfl
  | .block key cs => by simp only [TNode.toP, BlockParse.TNode.lines, TNode.nlines, linesList_toP cs]
theorem linesList_toP : ∀ (ns : List TNode), BlockParse.linesList (treeToP ns) = treeNLines ns
  | [] => rfl
  | n :: ns => by simp only [treeToP, BlockParse.linesList, treeNLines, TNode.lines_toP n, linesList_toP ns]
end

mutual
theorem TNode.lpos_length : ∀ (n : TNode) (d l : Nat), (n.lpos d l).length = n.nlines
  | .line ln, d, l => rfl
  | .block key cs, d, l => by
    simp only [TNode.lpos, TNode.nlines, List.length_cons, lposList_length cs (d + 1) (l + 1)]; omega
theorem lposList_length : ∀ (ns : List TNode) (d l : Nat), (lposList d l ns).length = treeNLines ns
  | [], d, l => rfl
  | n :: ns, d, l => by
    simp only [lposList, treeNLines, List.length_append, TNode.lpos_length n d l, lposList_length ns d (l + n.nlines)]
end

/-! ### a position function that agrees with a list of positions on a window -/

/-- `pos` coincides with `L` on the index window `[i, i + L.length)`. -/
def Agree (pos : Nat → BlockParse.LPos) (L : List BlockParse.LPos) (i : Nat) : Prop :=
  ∀ j p, L[j]? = some p → pos (i + j) = p

theorem Agree.head {pos : Nat → BlockParse.LPos} {p : BlockParse.LPos} {L : List BlockParse.LPos} {i : Nat}
    (h : Agree pos (p :: L) i) : pos i = p := h 0 p rfl

theorem Agree.tail {pos : Nat → BlockParse.LPos} {p : BlockParse.LPos} {L : List BlockParse.LPos} {i : Nat}
    (h : Agree pos (p :: L) i) : Agree pos L (i + 1) := by
  intro j q hq
  have := h (j + 1) q (by simpa using hq)
  rw [← this]; congr 1; omega

theorem Agree.left {pos : Nat → BlockParse.LPos} {A B : List BlockParse.LPos} {i : Nat}
    (h : Agree pos (A ++ B) i) : Agree pos A i := by
  intro j q hq
  have hj : j < A.length := by
    rcases Nat.lt_or_ge j A.length with h' | h'
    · exact h'
    · rw [List.getElem?_eq_none h'] at hq; cases hq
  exact h j q (by rw [List.getElem?_append_left hj]; exact hq)

theorem Agree.right {pos : Nat → BlockParse.LPos} {A B : List BlockParse.LPos} {i : Nat}
    (h : Agree pos (A ++ B) i) : Agree pos B (i + A.length) := by
  intro j q hq
  have := h (A.length + j) q (by rw [List.getElem?_append_right (by omega)]; simpa using hq)
  rw [← this]; congr 1; omega

theorem agree_posOf (nodes : List TNode) : Agree (posOf nodes) (lposList 0 2 nodes) 0 := by
  intro j p hp
  simp only [posOf, Nat.zero_add, List.getD_eq_getElem?_getD, hp, Option.getD_some]

/-! ### the two descriptions of the token list agree -/

theorem indentToks_bridge (d l : Nat) (p : BlockParse.LPos) (h1 : p.li = l) (h2 : p.ci = 1) :
    indentToks d l = BlockParse.indentToks d p := by
  cases d with
  | zero => rfl
  | succ k =>
    simp only [indentToks, BlockParse.indentToks, BlockParse.indentTok, tIndent, h1, h2, Nat.succ_ne_zero, if_false]

theorem FScalar.tok_toP (v : FScalar) (l c : Nat) : v.tok l c = v.toP.tok l c := by
  cases v <;> rfl

theorem FScalar.val_toP (v : FScalar) : v.toP.val = v.value := by
  cases v <;> rfl

/-- the tokens of a `KEY::value` line after its INDENT. -/
theorem line_body_bridge (ln : FLine) (d l : Nat) :
    [tIdent ln.key l (1 + 2 * d), tAssign l (1 + 2 * d + ln.key.length), ln.v.tok l (1 + 2 * d + ln.key.length + 2),
      tNewline l (1 + 2 * d + ln.key.length + 2 + ln.v.text.length)]
      = (BlockParse.mkLine ln.key ln.v.toP (linePos ln d l)).toks := by
  simp only [FlatParse.Line.toks, FlatParse.Line.keyTok, FlatParse.Line.assignTok, FlatParse.Line.valTok,
    FlatParse.Line.nlTok, BlockParse.mkLine, linePos, FScalar.tok_toP]
  rfl

/-- the tokens of a block header after its INDENT. -/
theorem header_body_bridge (key : Str) (d l : Nat) :
    [tIdent key l (1 + 2 * d), tBlock l (1 + 2 * d + key.length), tNewline l (1 + 2 * d + key.length + 1)]
      = [BlockParse.hdrKeyTok key (headerPos key d l), BlockParse.hdrBlockTok (headerPos key d l),
         BlockParse.hdrNlTok (headerPos key d l)] := rfl

mutual
/-- **a node**: its tokens are its INDENT followed by `body`, for every `pos` that agrees with the node's positions on the
window of its lines. -/
theorem TNode.toks_agree : ∀ (n : TNode) (d l : Nat) (pos : Nat → BlockParse.LPos) (i : Nat),
    Agree pos (n.lpos d l) i → n.toks d l = BlockParse.indentToks d (pos i) ++ n.toP.body pos d i
  | .line ln, d, l, pos, i, h => by
    simp only [TNode.lpos] at h
    have hp : pos i = linePos ln d l := h.head
    simp only [TNode.toks, FLine.toksAt, TNode.toP, BlockParse.TNode.body, hp]
    rw [indentToks_bridge d l (linePos ln d l) rfl rfl, line_body_bridge]
  | .block key cs, d, l, pos, i, h => by
    simp only [TNode.lpos] at h
    have hp : pos i = headerPos key d l := h.head
    have ih := treeToks_agree cs (d + 1) (l + 1) pos (i + 1) h.tail
    simp only [TNode.toks, headerToks, TNode.toP, BlockParse.TNode.body, hp, ih]
    rw [indentToks_bridge d l (headerPos key d l) rfl rfl, header_body_bridge]
    simp only [List.append_assoc, List.cons_append, List.nil_append]
/-- **a forest**: for every `pos` that agrees with `lposList d l ns` on the window `[i, i + lines)`. -/
theorem treeToks_agree : ∀ (ns : List TNode) (d l : Nat) (pos : Nat → BlockParse.LPos) (i : Nat),
    Agree pos (lposList d l ns) i → treeToks d l ns = BlockParse.toksList pos (treeToP ns) d i
  | [], d, l, pos, i, _ => rfl
  | n :: ns, d, l, pos, i, h => by
    simp only [lposList] at h
    have h2 := h.right
    rw [TNode.lpos_length] at h2
    simp only [treeToks, treeToP, BlockParse.toksList, TNode.toks_agree n d l pos i h.left,
      treeToks_agree ns d (l + n.nlines) pos (i + n.nlines) h2, TNode.lines_toP, List.append_assoc]
end

/-- **the two descriptions of the token list of the whole document agree.** -/
theorem treeToks_bridge (name : Str) (nodes : List TNode) :
    treeDocToks name nodes
      = BlockParse.treeToks (treeFrame name (treeNLines nodes)) name (posOf nodes) (treeToP nodes) := by
  rw [treeDocToks_eq, treeToks_agree nodes 0 2 (posOf nodes) 0 (agree_posOf nodes)]
  rfl

/-! ### the side conditions of the parser half -/

mutual
theorem TNode.canonCols_agree : ∀ (n : TNode) (d l : Nat) (pos : Nat → BlockParse.LPos) (i : Nat),
    Agree pos (n.lpos d l) i → n.toP.canonCols pos d i = true
  | .line ln, d, l, pos, i, _ => rfl
  | .block key cs, d, l, pos, i, h => by
    simp only [TNode.lpos] at h
    have hp : pos i = headerPos key d l := h.head
    simp only [TNode.toP, BlockParse.TNode.canonCols, hp, canonColsList_agree cs (d + 1) (l + 1) pos (i + 1) h.tail,
      Bool.and_true, decide_eq_true_eq, headerPos]
    omega
theorem canonColsList_agree : ∀ (ns : List TNode) (d l : Nat) (pos : Nat → BlockParse.LPos) (i : Nat),
    Agree pos (lposList d l ns) i → BlockParse.canonColsList pos (treeToP ns) d i = true
  | [], d, l, pos, i, _ => rfl
  | n :: ns, d, l, pos, i, h => by
    simp only [lposList] at h
    have h2 := h.right
    rw [TNode.lpos_length] at h2
    simp only [treeToP, BlockParse.canonColsList, TNode.canonCols_agree n d l pos i h.left, TNode.lines_toP,
      canonColsList_agree ns d (l + n.nlines) pos (i + n.nlines) h2, Bool.and_self]
end

/-- every block key of the canonical text sits at column `2·d + 1`. -/
theorem canonCols_posOf (nodes : List TNode) : BlockParse.canonColsList (posOf nodes) (treeToP nodes) 0 0 = true :=
  canonColsList_agree nodes 0 2 (posOf nodes) 0 (agree_posOf nodes)

def TNode.key : TNode → Str
  | .line ln => ln.key
  | .block key _ => key

/-- the first top-level key (of a line or of a block) is `META`. -/
def firstKeyIsMeta : List TNode → Bool
  | n :: _ => n.key == "META".toList
  | [] => false

theorem metaFirstT_bridge (nodes : List TNode) : BlockParse.metaFirstT (treeToP nodes) = firstKeyIsMeta nodes := by
  cases nodes with
  | nil => rfl
  | cons n ns => cases n <;> rfl

/-! ### the document -/

/-- the positions the reader stores in the AST of the canonical text: the node whose first line is body line `i`, at
depth `d`, is at text line `i + 2`, column `1 + 2·d`. -/
def canonPos : Nat → Nat → Nat × Nat := fun i d => (i + 2, 1 + 2 * d)

mutual
theorem TNode.node_agree : ∀ (n : TNode) (d : Nat) (pos : Nat → BlockParse.LPos) (i : Nat),
    Agree pos (n.lpos d (i + 2)) i → n.toP.node pos i = n.node canonPos i d
  | .line ln, d, pos, i, h => by
    simp only [TNode.lpos] at h
    have hp : pos i = linePos ln d (i + 2) := h.head
    simp only [TNode.toP, BlockParse.TNode.node, TNode.node, FlatParse.Line.node, BlockParse.mkLine, hp, linePos, canonPos,
      FScalar.val_toP]
  | .block key cs, d, pos, i, h => by
    simp only [TNode.lpos] at h
    have hp : pos i = headerPos key d (i + 2) := h.head
    have ht := h.tail
    rw [show i + 2 + 1 = (i + 1) + 2 by omega] at ht
    simp only [TNode.toP, BlockParse.TNode.node, TNode.node, hp, headerPos, canonPos,
      nodeList_agree cs (d + 1) pos (i + 1) ht]
theorem nodeList_agree : ∀ (ns : List TNode) (d : Nat) (pos : Nat → BlockParse.LPos) (i : Nat),
    Agree pos (lposList d (i + 2) ns) i → BlockParse.nodeList pos (treeToP ns) i = treeNodes canonPos i d ns
  | [], d, pos, i, _ => rfl
  | n :: ns, d, pos, i, h => by
    simp only [lposList] at h
    have h2 := h.right
    rw [TNode.lpos_length, show i + 2 + n.nlines = (i + n.nlines) + 2 by omega] at h2
    simp only [treeToP, BlockParse.nodeList, treeNodes, TNode.node_agree n d pos i h.left, TNode.lines_toP,
      nodeList_agree ns d pos (i + n.nlines) h2]
end

/-- **the document of the parser half is the document of the lexer half** at the canonical positions. -/
theorem treeDoc_bridge (name : Str) (nodes : List TNode) :
    BlockParse.treeDoc name (posOf nodes) (treeToP nodes) = treeDoc name canonPos nodes := by
  simp only [BlockParse.treeDoc, treeDoc, nodeList_agree nodes 0 (posOf nodes) 0 (agree_posOf nodes)]

theorem stripFrontmatter_tree (env : Env) (name : Str) (nodes : List TNode) :
    Parser.stripFrontmatter env (treeDocText name nodes) = (treeDocText name nodes, none) := by
  unfold Parser.stripFrontmatter
  have : startsWith "---".toList (treeDocText name nodes) = false := by
    simp [treeDocText, startsWith, List.isPrefixOf]
  rw [this]; rfl

/-! ### position-free content -/

/-- the content of a tree with every position forgotten: keys, nesting, order, values with their types. -/
inductive Content where
  | line (key : Str) (v : Value)
  | block (key : Str) (children : List Content)

mutual
def TNode.content : TNode → Content
  | .line ln => .line ln.key ln.v.value
  | .block key cs => .block key (treeContent cs)
def treeContent : List TNode → List Content
  | [] => []
  | n :: ns => n.content :: treeContent ns
end

mutual
/-- an AST node determines the content of every tree node that `Matches` it. -/
theorem TNode.content_of_matches : ∀ (t t' : TNode) (n : Node), t.Matches n → t'.Matches n → t.content = t'.content
  | .line ln, .line ln', n, h, h' => by
    simp only [TNode.Matches] at h h'
    obtain ⟨l, c, rfl⟩ := h
    obtain ⟨l', c', e⟩ := h'
    simp only [Node.assign.injEq] at e
    simp only [TNode.content, e.1, e.2.1]
  | .line ln, .block key' cs', n, h, h' => by
    simp only [TNode.Matches] at h h'
    obtain ⟨l, c, rfl⟩ := h
    obtain ⟨ch, l', c', e, _⟩ := h'
    cases e
  | .block key cs, .line ln', n, h, h' => by
    simp only [TNode.Matches] at h h'
    obtain ⟨ch, l, c, rfl, _⟩ := h
    obtain ⟨l', c', e⟩ := h'
    cases e
  | .block key cs, .block key' cs', n, h, h' => by
    simp only [TNode.Matches] at h h'
    obtain ⟨ch, l, c, rfl, hm⟩ := h
    obtain ⟨ch', l', c', e, hm'⟩ := h'
    simp only [Node.block.injEq] at e
    obtain ⟨ek, ec, _⟩ := e
    subst ec
    simp only [TNode.content, ek, treeContent_of_matches cs cs' ch hm hm']
theorem treeContent_of_matches : ∀ (ts ts' : List TNode) (ns : List Node), treeMatches ts ns → treeMatches ts' ns →
    treeContent ts = treeContent ts'
  | [], [], _, _, _ => rfl
  | [], t' :: ts', ns, h, h' => by
    simp only [treeMatches] at h h'
    obtain ⟨n, ns', e, _⟩ := h'
    rw [h] at e; cases e
  | t :: ts, [], ns, h, h' => by
    simp only [treeMatches] at h h'
    obtain ⟨n, ns', e, _⟩ := h
    rw [h'] at e; cases e
  | t :: ts, t' :: ts', ns, h, h' => by
    simp only [treeMatches] at h h'
    obtain ⟨n, ns1, rfl, hm, hr⟩ := h
    obtain ⟨n', ns1', e, hm', hr'⟩ := h'
    simp only [List.cons.injEq] at e
    obtain ⟨e1, e2⟩ := e
    subst e1; subst e2
    simp only [treeContent, TNode.content_of_matches t t' n hm hm', treeContent_of_matches ts ts' ns1 hr hr']
end

end Octave
