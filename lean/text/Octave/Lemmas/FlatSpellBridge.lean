import Octave.Lemmas.FlatSpell
import Octave.Lemmas.FlatSpellParse
import Octave.Lemmas.Receipts
/-! Glue between the lexer half (`FlatSpell`: exact tokens of a spelled text) and the parser half (`FlatSpellParse`: token
lists with arbitrary positions, extra NEWLINE / INDENT tokens and `normFrom`) of the convergence theorem for flat
documents. -/
namespace Octave.Spell
open Lexer Emitter SpellParse

/-- the parser-level scalar and the `normFrom` mark of a spelled value. -/
def SVal.toP : SVal → FlatParse.Scalar × Option Str
  | .quo s => (.str s, none)
  | .tri b => (.str (Lexer.unescape b), some "\"\"\"".toList)
  | .word s => (.word s, none)
  | .bool b => (.bool b, none)
  | .null => (.null, none)
  | .int i => (.int i (intStr i), none)

/-- positions of the NEWLINE tokens of blank lines starting at line `l`. -/
def blankPos (l : Nat) : List Nat → List (Nat × Nat)
  | [] => []
  | _ :: ks => (l, 1) :: blankPos (l + 1) ks

/-- the INDENT token of `n` leading spaces at line `l`. -/
def indPos (n l : Nat) : List (Nat × Nat × Nat) := if n = 0 then [] else [(n, l, 1)]

/-- the spelled line at line `l` as the parser half describes it. -/
def toSLine (ln : FLine) (sp : LSpell) (l : Nat) : SLine :=
  { base := { key := ln.key, v := (spellVal ln.v sp).toP.1, l := l, c1 := colKey sp, c2 := colAssign ln sp, c3 := colVal ln sp,
              c4 := colNl ln sp },
    nf := (spellVal ln.v sp).toP.2, ind := indPos sp.indent l, extra := blankPos (l + 1) sp.blank }

def toSLines (l : Nat) : List SL → List SLine
  | [] => []
  | x :: r => toSLine x.1 x.2 l :: toSLines (l + (1 + x.2.blank.length)) r

theorem blankToks_bridge (ks : List Nat) : ∀ l, (blankToksRev l ks).reverse = (blankPos l ks).map nlAt := by
  induction ks with
  | nil => intro l; rfl
  | cons k ks ih =>
    intro l
    simp only [blankToksRev, blankPos, List.reverse_append, List.reverse_cons, List.reverse_nil, List.nil_append,
      List.singleton_append, List.map_cons, ih]
    rfl

theorem indentToks_bridge (n l : Nat) : (indentToksRev n l).reverse = (indPos n l).map indAt := by
  unfold indentToksRev indPos
  split <;> rfl

theorem sval_tok_bridge (v : SVal) (l c : Nat) : v.tok l c = nfTok v.toP.1 v.toP.2 l c := by
  cases v <;> rfl

theorem sbody_toks_bridge (ln : FLine) (sp : LSpell) (l : Nat) : (bodyToksRev ln sp l).reverse = (toSLine ln sp l).cutToks := by
  simp only [bodyToksRev, List.reverse_append, indentToks_bridge, SLine.cutToks, SLine.head3, toSLine, SLine.valTok,
    sval_tok_bridge]
  rfl

theorem sline_toks_bridge (ln : FLine) (sp : LSpell) (l : Nat) : (lineToksRev ln sp l).reverse = (toSLine ln sp l).toks := by
  simp only [lineToksRev, List.reverse_append, List.reverse_cons, blankToks_bridge, sbody_toks_bridge, SLine.toks,
    List.append_assoc, List.singleton_append]
  rfl

theorem slines_toks_bridge (sl : List SL) : ∀ l, (slinesToksRev l sl).reverse = (toSLines l sl).flatMap SLine.toks := by
  induction sl with
  | nil => intro l; rfl
  | cons x r ih =>
    intro l
    simp only [slinesToksRev, toSLines, List.reverse_append, List.flatMap_cons, sline_toks_bridge, ih]

/-- the INDENT tokens before `===END===`. -/
def endIndOf (ds : DSpell) (l : Nat) : List (Nat × Nat × Nat) := if ds.endOmitted then [] else indPos ds.endIndent l

/-- the last tokens of the spelled text: possibly an INDENT, then `===END===` …, or just EOF. -/
theorem endToks_shape (ds : DSpell) (l : Nat) :
    ∃ e tail, (endToksRev ds l).reverse = (endIndOf ds l).map indAt ++ e :: tail ∧ (e.type = .envelopeEnd ∨ e.type = .eof) := by
  unfold endToksRev endIndOf
  by_cases ho : ds.endOmitted = true
  · exact ⟨tEof l 1, [], by simp [ho], Or.inr rfl⟩
  · by_cases hnl : ds.endNl = true
    · exact ⟨tEnvEnd l (1 + ds.endIndent), tNewline l (10 + ds.endIndent + ds.endTrail) ::
          ((blankToksRev (l + 1) ds.endBlank).reverse ++ [tEof (l + 1 + ds.endBlank.length) 1]),
        by simp [ho, hnl, indentToks_bridge], Or.inl rfl⟩
    · exact ⟨tEnvEnd l (1 + ds.endIndent), [tEof l (10 + ds.endIndent + ds.endTrail)], by simp [ho, hnl, indentToks_bridge], Or.inl rfl⟩

theorem frontToks_bridge (name : Str) (sl : List SL) (ds : DSpell) (rest : List Token) :
    (frontToksRev name sl ds).reverse ++ rest
      = envTokAt name 1 1 :: nlAt (1, 1 + (name.length + 6) + ds.envTrail) ::
          ((blankPos 2 ds.envBlank).map nlAt ++ ((toSLines (firstLine ds) sl).flatMap SLine.toks ++ rest)) := by
  simp only [frontToksRev, List.reverse_append, slines_toks_bridge, blankToks_bridge]
  simp only [List.reverse_cons, List.reverse_nil, List.nil_append, List.cons_append, List.append_assoc]
  rfl

/-- the two descriptions of the token list agree. -/
theorem spellToks_bridge (name : Str) (sl : List SL) (ds : DSpell) :
    ∃ e tail, (e.type = .envelopeEnd ∨ e.type = .eof) ∧
      spellToks name sl ds = docToks name 1 1 (1, 1 + (name.length + 6) + ds.envTrail) (blankPos 2 ds.envBlank)
        (toSLines (firstLine ds) sl) none (endIndOf ds (firstLine ds + slinesHeight sl)) e tail := by
  obtain ⟨e, tail, h, he⟩ := endToks_shape ds (firstLine ds + slinesHeight sl)
  refine ⟨e, tail, he, ?_⟩
  simp only [spellToks, List.reverse_append, h, frontToks_bridge, docToks, bodyToks, lastToks, List.nil_append]

/-- … and for the text cut after the last line's value. -/
theorem spellToksCut_bridge (name : Str) (sl : List SL) (ln : FLine) (sp : LSpell) (ds : DSpell) :
    spellToksCut name sl ln sp ds = docToks name 1 1 (1, 1 + (name.length + 6) + ds.envTrail) (blankPos 2 ds.envBlank)
        (toSLines (firstLine ds) sl) (some (toSLine ln sp (firstLine ds + slinesHeight sl))) []
        (tEof (firstLine ds + slinesHeight sl) (colNl ln sp)) [] := by
  simp only [spellToksCut, List.reverse_cons, List.reverse_append, sbody_toks_bridge, frontToks_bridge, docToks,
    bodyToks, lastToks, List.map_nil, List.nil_append]
  simp only [List.cons_append, List.append_assoc]

/-! ### the document read back -/

theorem strSpell_val (s : Str) (sp : LSpell) : (strSpell s sp).toP.1.val = .str s := by
  unfold strSpell
  split
  · rename_i b hb
    simp only [SVal.toP, FlatParse.Scalar.val, (tripleFor_some hb).2]
  · rfl

theorem sval_val_bridge (v : FScalar) (sp : LSpell) : (spellVal v sp).toP.1.val = v.value := by
  cases v with
  | qstr s => exact strSpell_val s sp
  | bare s =>
    simp only [spellVal]
    split
    · exact strSpell_val s sp
    · rfl
  | bool b => rfl
  | null => rfl
  | int i => rfl

theorem snode_bridge (ln : FLine) (sp : LSpell) (l : Nat) : (toSLine ln sp l).node = ln.node l (colKey sp) := by
  simp only [SLine.node, toSLine, FlatParse.Line.node, FLine.node, sval_val_bridge]

/-- position (line, column) of the `i`-th spelled line when the first starts at line `l`. -/
def slinePos (l : Nat) : List SL → Nat → Nat × Nat
  | [], _ => (l, 1)
  | x :: _, 0 => (l, colKey x.2)
  | x :: r, i + 1 => slinePos (l + (1 + x.2.blank.length)) r i

theorem flatNodes_shift (pos : Nat → Nat × Nat) (ls : List FLine) : ∀ i, flatNodes pos (i + 1) ls = flatNodes (fun j => pos (j + 1)) i ls := by
  induction ls with
  | nil => intro i; rfl
  | cons ln r ih => intro i; simp only [flatNodes, ih]

theorem snodes_bridge (sl : List SL) : ∀ l, (toSLines l sl).map SLine.node = flatNodes (slinePos l sl) 0 (sl.map Prod.fst) := by
  induction sl with
  | nil => intro l; rfl
  | cons x r ih =>
    intro l
    simp only [toSLines, List.map_cons, flatNodes, snode_bridge, ih, flatNodes_shift]
    rfl

theorem toSLines_append (a b : List SL) : ∀ l, toSLines l (a ++ b) = toSLines l a ++ toSLines (l + slinesHeight a) b := by
  induction a with
  | nil => intro l; rfl
  | cons x r ih =>
    intro l
    simp only [List.cons_append, toSLines, ih, slinesHeight]
    rw [show l + (1 + x.2.blank.length) + slinesHeight r = l + (1 + x.2.blank.length + slinesHeight r) by omega]

/-- the parser-level lines of the cut text are those of the document `sl ++ [(ln, sp)]`. -/
theorem cut_lines_bridge (sl : List SL) (ln : FLine) (sp : LSpell) (l : Nat) :
    toSLines l sl ++ lastList (some (toSLine ln sp (l + slinesHeight sl))) = toSLines l (sl ++ [(ln, sp)]) := by
  rw [toSLines_append]; rfl

theorem metaFirst_spelled (sl : List SL) (l : Nat) :
    FlatParse.metaFirst ((toSLines l sl).map SLine.base) = (match sl with | x :: _ => x.1.key == "META".toList | [] => false) := by
  cases sl <;> rfl

theorem stripFrontmatter_front (env : Env) (name : Str) (sl : List SL) (ds : DSpell) (tail : Str) :
    Parser.stripFrontmatter env (frontText name sl ds tail) = (frontText name sl ds tail, none) := by
  unfold Parser.stripFrontmatter
  have : startsWith "---".toList (frontText name sl ds tail) = false := by
    simp [frontText, startsWith, List.isPrefixOf]
  rw [this]; rfl

/-! ### receipts -/

/-- the normalisation receipts a spelling owes: one per triple-quoted value, at the value's position. -/
def tripleReceipts (l : Nat) : List SL → List Repair
  | [] => []
  | x :: r =>
    (match spellVal x.1.v x.2 with
      | .tri b => [Repair.normalization "\"\"\"".toList (.str (Lexer.unescape b)) l (colVal x.1 x.2)]
      | _ => []) ++ tripleReceipts (l + (1 + x.2.blank.length)) r

theorem identifierRepairs_filter (s : Str) (l c : Nat) : (identifierRepairs s l c).filter isNormalization = [] := by
  rw [List.filter_eq_nil_iff]
  intro r hr
  have := identifierRepairs_not_norm s l c r hr
  simpa using this

theorem sval_reps_filter (v : SVal) (l c : Nat) :
    (v.repsRev l c).reverse.filter isNormalization =
      (match v with | .tri b => [Repair.normalization "\"\"\"".toList (.str (Lexer.unescape b)) l c] | _ => []) := by
  cases v with
  | word s => simp only [SVal.repsRev, List.reverse_reverse, identifierRepairs_filter]
  | tri s => rfl
  | quo s => rfl
  | bool b => rfl
  | null => rfl
  | int i => rfl

theorem slinesReps_normalization (sl : List SL) : ∀ l,
    (slinesRepsRev l sl).reverse.filter isNormalization = tripleReceipts l sl := by
  induction sl with
  | nil => intro l; rfl
  | cons x r ih =>
    intro l
    simp only [slinesRepsRev, lineRepsRev, List.reverse_append, List.reverse_reverse, List.filter_append, ih,
      identifierRepairs_filter, List.nil_append, sval_reps_filter, tripleReceipts]

theorem slinesRepsRev_append (a b : List SL) : ∀ l,
    slinesRepsRev l (a ++ b) = slinesRepsRev (l + slinesHeight a) b ++ slinesRepsRev l a := by
  induction a with
  | nil => intro l; simp [slinesRepsRev, slinesHeight]
  | cons x r ih =>
    intro l
    simp only [List.cons_append, slinesRepsRev, ih, slinesHeight, List.append_assoc]
    rw [show l + (1 + x.2.blank.length) + slinesHeight r = l + (1 + x.2.blank.length + slinesHeight r) by omega]

/-- the receipts of the cut text are those of the document `sl ++ [(ln, sp)]`. -/
theorem spellRepsCut_eq (sl : List SL) (ln : FLine) (sp : LSpell) (ds : DSpell) :
    spellRepsCut sl ln sp ds = (slinesRepsRev (firstLine ds) (sl ++ [(ln, sp)])).reverse := by
  rw [slinesRepsRev_append]
  simp [spellRepsCut, slinesRepsRev]

end Octave.Spell
