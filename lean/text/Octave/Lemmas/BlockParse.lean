/-
Parser half of the "document with nested blocks" read theorem (C01 / C02), extending `Lemmas/FlatParse.lean`.

Content model: `TNode` = `line key scalar` | `block key children` (any depth, any width).  Token rendering at ARBITRARY
line/column numbers: `pos : Nat → LPos` gives one record of positions per source line of the body, lines numbered in
reading order (`TNode.lines`); `TNode.body pos c d i` are the tokens of node `c` at depth `d` starting at body line `i`
(without its INDENT), `toksList pos cs d i` those of a forest (each node preceded by `INDENT(2·d)` when `d > 0` —
the INDENT VALUE is content).  `TNode.node` / `nodeList` are the AST nodes expected, `TNode.warns` / `warnsList` the
exact warnings, `TNode.lastTok` the last token consumed (always a NEWLINE).

What is proved about the model's parser (`parseSection`, `blockLoop` of `Model/ParserDoc.lean`, `docLoop`, `parseDocument`):

* `blockLoop_stop`        the child loop ends at a token that `stopsAt` its child indentation
* `SecOK` / `ChildOK` / `LoopOK`, `sec_of` / `child_of` / `loop_of`, `all_ok`
                          the three mutually dependent statements (block header → first child → rest of the children →
                          nested header …) indexed by the fuel, each proved from the others at smaller fuel, then tied by
                          strong induction on the fuel (the fuel bounds — token counts — guarantee enough fuel remains)
* `parseSection_block`    `parse_section` on a block: Block node with exactly the children, cursor on the next line that is
                          not deeper, only warnings added
* `blockLoop_forest`      the child loop on any forest of children
* `docLoop_tree`          the body loop of `parse_document` on a forest mixing lines and blocks (extends `docLoop_flat`)
* `parseDocument_tree`    the whole `parse_document`, with the parser's own fuel (`2·(tokens+2)+10`)
* `warnsList_eq_nil`      when there is no warning at all;  `body_length`, `toksList_succ_length`: token counts
* `nodeEqT` … `isOkDocT_sound`   Boolean equality on documents with blocks, for closed `decide` checks

Conditions found in the code (all decidable, see `Props/C02blocks.lean` for the discussion and the real-reader runs):
`TNode.colsOk` (the column of a block key is read as `block_indent`), `stopsAt` (what may follow a block),
`metaFirstT` (a leading top-level `META`).  Everything lives in `namespace Octave.BlockParse`.
-/
import Octave.Lemmas.FlatParse
namespace Octave.BlockParse
open Octave Parser FlatParse

/-! ## Content model -/

/-- document content below the envelope: lines `KEY::scalar` and blocks `KEY:` with children (any depth, any width). -/
inductive TNode where
  | line (key : Str) (v : Scalar)
  | block (key : Str) (children : List TNode)

/-- positions of the tokens of one source line (a `KEY::scalar` line or a block header `KEY:`): all arbitrary.
`li`/`ci`: line and column of the INDENT token (present at depth > 0 only); `l`: line of the other tokens;
`c1`: column of the key; `c2`: of `::` / `:`; `c3`: of the scalar; `c4`: of the NEWLINE. -/
structure LPos where
  li : Nat
  ci : Nat
  l : Nat
  c1 : Nat
  c2 : Nat
  c3 : Nat
  c4 : Nat
  deriving DecidableEq, Repr, Inhabited

/-- the `FlatParse.Line` of a `KEY::scalar` line at positions `p`. -/
def mkLine (key : Str) (v : Scalar) (p : LPos) : Line := ⟨key, v, p.l, p.c1, p.c2, p.c3, p.c4⟩

def hdrKeyTok (key : Str) (p : LPos) : Token := { type := .identifier, value := .str key, line := p.l, col := p.c1 }
def hdrBlockTok (p : LPos) : Token := { type := .block, value := .str ":".toList, line := p.l, col := p.c2 }
def hdrNlTok (p : LPos) : Token := { type := .newline, value := .str "\n".toList, line := p.l, col := p.c4 }
/-- the INDENT token of a line at depth `d`: its VALUE `2 * d` is content. -/
def indentTok (d : Nat) (p : LPos) : Token := { type := .indent, value := .nat (2 * d), line := p.li, col := p.ci }

/-- a line at depth 0 has no INDENT token; at depth `d > 0` it starts with `INDENT(2 * d)`. -/
def indentToks : Nat → LPos → List Token
  | 0, _ => []
  | d + 1, p => [indentTok (d + 1) p]

mutual
/-- number of source lines of a node (a block: its header and all lines below it). -/
def TNode.lines : TNode → Nat
  | .line _ _ => 1
  | .block _ cs => 1 + linesList cs
def linesList : List TNode → Nat
  | [] => 0
  | c :: cs => c.lines + linesList cs
end

mutual
/-- tokens of a node at depth `d` whose first source line is line number `i` of the body (`pos i` gives its positions),
WITHOUT the leading INDENT token. -/
def TNode.body (pos : Nat → LPos) : TNode → Nat → Nat → List Token
  | .line key v, _, i => (mkLine key v (pos i)).toks
  | .block key cs, d, i => hdrKeyTok key (pos i) :: hdrBlockTok (pos i) :: hdrNlTok (pos i) :: toksList pos cs (d + 1) (i + 1)
/-- tokens of a forest at depth `d` starting at body line `i`: every node with its INDENT token (if `d > 0`). -/
def toksList (pos : Nat → LPos) : List TNode → Nat → Nat → List Token
  | [], _, _ => []
  | c :: cs, d, i => indentToks d (pos i) ++ (c.body pos d i ++ toksList pos cs d (i + c.lines))
end

mutual
/-- the AST node the reader must produce (positions: those of the key token). -/
def TNode.node (pos : Nat → LPos) : TNode → Nat → Node
  | .line key v, i => (mkLine key v (pos i)).node
  | .block key cs, i => .block key (nodeList pos cs (i + 1)) (pos i).l (pos i).c1 [] none
def nodeList (pos : Nat → LPos) : List TNode → Nat → List Node
  | [], _ => []
  | c :: cs, i => c.node pos i :: nodeList pos cs (i + c.lines)
end

/-- duplicate-key bookkeeping of a child loop: only Assignment children are tracked. -/
def trackNode (kp : KeyPos) (c : TNode) (p : LPos) : KeyPos × List Warning :=
  match c with
  | .line key _ => trackPure kp key p.l
  | .block _ _ => (kp, [])

mutual
/-- warnings `parseSection` emits on the node, in emission order. -/
def TNode.warns (pos : Nat → LPos) : TNode → Nat → List Warning
  | .line key v, i => (mkLine key v (pos i)).warns
  | .block _ cs, i => warnsList pos cs [] (i + 1)
/-- warnings of a child loop (block body or document body) on a forest, starting from key table `kp`. -/
def warnsList (pos : Nat → LPos) : List TNode → KeyPos → Nat → List Warning
  | [], _, _ => []
  | c :: cs, kp, i => c.warns pos i ++ ((trackNode kp c (pos i)).2 ++ warnsList pos cs (trackNode kp c (pos i)).1 (i + c.lines))
end

mutual
/-- the last token the loops consume for the node: always a NEWLINE. -/
def TNode.lastTok (pos : Nat → LPos) : TNode → Nat → Token
  | .line key v, i => (mkLine key v (pos i)).nlTok
  | .block _ cs, i => lastTokList pos cs (hdrNlTok (pos i)) (i + 1)
def lastTokList (pos : Nat → LPos) : List TNode → Token → Nat → Token
  | [], dflt, _ => dflt
  | c :: cs, _, i => lastTokList pos cs (c.lastTok pos i) (i + c.lines)
end

/-- `prev` after a loop went through the forest. -/
def prevAfterList (pos : Nat → LPos) (p : Option Token) (cs : List TNode) (i : Nat) : Option Token :=
  match cs with
  | [] => p
  | c :: cs => some (lastTokList pos cs (c.lastTok pos i) (i + c.lines))

mutual
/-- the condition the code imposes on the COLUMN of block keys (`block_indent = key.column - 1`):
a block with children must have `block_indent < ` its children's indentation `2 * (d + 1)`;
an empty block must have `block_indent ≥ 2 * d`, its own indentation (else a following sibling would be taken as its child).
The lexer always gives `column = 2 * d + 1`, which satisfies both. -/
def TNode.colsOk (pos : Nat → LPos) : TNode → Nat → Nat → Bool
  | .line _ _, _, _ => true
  | .block _ cs, d, i =>
    (if cs.isEmpty then decide (2 * d ≤ (pos i).c1 - 1) else decide ((pos i).c1 - 1 < 2 * (d + 1))) && colsOkList pos cs (d + 1) (i + 1)
def colsOkList (pos : Nat → LPos) : List TNode → Nat → Nat → Bool
  | [], _, _ => true
  | c :: cs, d, i => c.colsOk pos d i && colsOkList pos cs d (i + c.lines)
end


/-! ## Evaluation on explicit states -/

/-- evaluation of the parser monad on explicit states (as in `Lemmas/FlatParse.lean`). -/
local macro "step_simp" "[" ts:Lean.Parser.Tactic.simpLemma,* "]" : tactic =>
  `(tactic| simp only [bind, StateT.bind, Except.bind, pure, StateT.pure, Except.pure, current_mk, peek_mk, advance_mk,
      curType_mk, isAdjacentBracket_mk, budget_mk, warn_mk, get, getThe, MonadStateOf.get, StateT.get,
      Bool.false_eq_true, if_false, if_true, Bool.false_and, Bool.and_false, Bool.or_false, Bool.false_or,
      List.length_cons, List.length_nil, beq_iff_eq, bne_iff_ne, ne_eq, reduceCtorEq, not_true_eq_false, not_false_eq_true,
      Bool.and_eq_true, Bool.or_eq_true, Bool.not_eq_true', beq_eq_false_iff_ne, false_and, and_false, true_and, and_true,
      false_or, or_false, true_or, or_true, decide_eq_true_eq,
      beq_self_eq_true, Bool.true_or, Bool.or_true, Bool.true_and, Bool.and_true, Bool.not_true, Bool.not_false, $ts,*])

/-- two results that differ only in the (arithmetically equal) cursor count. -/
theorem ok_pos_congr {α : Type} (a : α) (r : List Token) (p : Option Token) (n n' : Nat) (la : Token) (w : List Warning)
    (d : Nat) (wd : List Nat) (s : Bool) (th : Nat) (al : Char → Bool) (h : n = n') :
    (Except.ok (a, { rest := r, prev := p, pos := n, last := la, warnings := w, depth := d, warned := wd, strict := s, threshold := th, alpha := al }) : Except Exc (α × PState))
      = Except.ok (a, { rest := r, prev := p, pos := n', last := la, warnings := w, depth := d, warned := wd, strict := s, threshold := th, alpha := al }) := by
  rw [h]

theorem set_mk (s st : PState) : (set s : P Unit) st = .ok ((), s) := rfl

/-- the INDENT value as every loop reads it (`token.value`, 0 when it is not a number). -/
def indentVal (t : Token) : Nat := match t.value with | .nat n => n | _ => 0

/-- what may follow a forest whose lines are indented by at least `ci`: the first token of a line that is less
indented (an INDENT with a smaller value, or any token of an unindented line — IDENTIFIER, `===END===`, EOF …),
not a blank line, a comment or a fence (those are absorbed by the block). -/
def stopsAt (ci : Nat) (e : Token) : Bool :=
  e.type != .newline && e.type != .comment && e.type != .fenceOpen && (e.type != .indent || decide (indentVal e < ci))

theorem stopsAt_mono {a b : Nat} (h : a ≤ b) {e : Token} (hs : stopsAt a e = true) : stopsAt b e = true := by
  simp only [stopsAt, Bool.and_eq_true, Bool.or_eq_true, bne_iff_ne, ne_eq, decide_eq_true_eq] at hs ⊢
  refine ⟨hs.1, ?_⟩
  rcases hs.2 with h1 | h1
  · exact Or.inl h1
  · exact Or.inr (by omega)

/-- the child loop of a block stops at a token that `stopsAt` its child indentation (on a fresh line: `lineIndent = 0`). -/
theorem blockLoop_stop (fuel ci : Nat) (hci : 0 < ci) (acc : List Node) (kp : KeyPos) (e : Token) (r : List Token)
    (p : Option Token) (n : Nat) (la : Token) (w : List Warning) (d : Nat) (wd : List Nat) (s : Bool) (th : Nat) (al : Char → Bool)
    (hs : stopsAt ci e = true) :
    blockLoop (fuel + 1) ci 0 [] acc kp { rest := e :: r, prev := p, pos := n, last := la, warnings := w, depth := d, warned := wd, strict := s, threshold := th, alpha := al }
      = .ok (acc, { rest := e :: r, prev := p, pos := n, last := la, warnings := w, depth := d, warned := wd, strict := s, threshold := th, alpha := al }) := by
  simp only [stopsAt, Bool.and_eq_true, Bool.or_eq_true, bne_iff_ne, ne_eq, decide_eq_true_eq] at hs
  obtain ⟨⟨⟨h1, h2⟩, h3⟩, h4⟩ := hs
  rw [blockLoop]
  step_simp [List.map_nil, List.append_nil]
  by_cases he : e.type = TT.eof ∨ e.type = TT.envelopeEnd
  · rw [if_pos he]; rfl
  · rw [if_neg he]
    by_cases hi : e.type = TT.indent
    · have h5 : indentVal e < ci := by
        rcases h4 with h | h
        · exact absurd hi h
        · exact h
      obtain ⟨ty, val, l, c, nf, raw⟩ := e
      simp only at hi
      subst hi
      cases val <;> simp only [indentVal] at h5 <;> step_simp [h5] <;> (try (rw [if_pos hci]))
    · step_simp [hi, h1, h2, h3, hci]

/-! ## The three mutually dependent statements, indexed by the fuel -/

/-- `parseSection` on a block at depth `d` (cursor on its key, INDENT already consumed), followed by a token that
`stopsAt` depth `d`: the Block node with exactly the children; cursor on that token; only warnings added. -/
def SecOK (pos : Nat → LPos) (F : Nat) : Prop :=
  ∀ (key : Str) (cs : List TNode) (d i : Nat) (st : PState) (e : Token) (k : List Token),
    st.rest = (TNode.block key cs).body pos d i ++ e :: k →
    stopsAt (2 * d + 1) e = true →
    (TNode.block key cs).colsOk pos d i = true →
    ((TNode.block key cs).body pos d i).length ≤ F →
    parseSection F [] st = .ok (some ((TNode.block key cs).node pos i),
      { st with rest := e :: k, prev := some ((TNode.block key cs).lastTok pos i),
                pos := st.pos + ((TNode.block key cs).body pos d i).length,
                warnings := ((TNode.block key cs).warns pos i).reverse ++ st.warnings })

/-- the child loop with the cursor on the key of child `c` (its INDENT consumed: `lineIndent = li ≥ childIndent`),
further children `cs` behind it. -/
def ChildOK (pos : Nat → LPos) (F : Nat) : Prop :=
  ∀ (c : TNode) (cs : List TNode) (d i li : Nat) (st : PState) (e : Token) (k : List Token) (acc : List Node) (kp : KeyPos),
    st.rest = c.body pos (d + 1) i ++ (toksList pos cs (d + 1) (i + c.lines) ++ e :: k) →
    2 * (d + 1) ≤ li →
    stopsAt (2 * (d + 1)) e = true →
    c.colsOk pos (d + 1) i = true → colsOkList pos cs (d + 1) (i + c.lines) = true →
    (c.body pos (d + 1) i).length + (toksList pos cs (d + 1) (i + c.lines)).length + 1 ≤ F →
    blockLoop F (2 * (d + 1)) li [] acc kp st = .ok (acc ++ nodeList pos (c :: cs) i,
      { st with rest := e :: k, prev := some (lastTokList pos cs (c.lastTok pos i) (i + c.lines)),
                pos := st.pos + ((c.body pos (d + 1) i).length + (toksList pos cs (d + 1) (i + c.lines)).length),
                warnings := (warnsList pos (c :: cs) kp i).reverse ++ st.warnings })

/-- the child loop at the start of a line (`lineIndent = 0`), children `cs` (each with its INDENT) ahead. -/
def LoopOK (pos : Nat → LPos) (F : Nat) : Prop :=
  ∀ (cs : List TNode) (d i : Nat) (st : PState) (e : Token) (k : List Token) (acc : List Node) (kp : KeyPos),
    st.rest = toksList pos cs (d + 1) i ++ e :: k →
    stopsAt (2 * (d + 1)) e = true →
    colsOkList pos cs (d + 1) i = true →
    (toksList pos cs (d + 1) i).length + 1 ≤ F →
    blockLoop F (2 * (d + 1)) 0 [] acc kp st = .ok (acc ++ nodeList pos cs i,
      { st with rest := e :: k, prev := prevAfterList pos st.prev cs i,
                pos := st.pos + (toksList pos cs (d + 1) i).length,
                warnings := (warnsList pos cs kp i).reverse ++ st.warnings })

theorem body_ne_nil (pos : Nat → LPos) (c : TNode) (d i : Nat) (r : List Token) : c.body pos d i ++ r ≠ [] := by
  cases c <;> simp [TNode.body, Line.toks]

theorem loop_of (pos : Nat → LPos) (F : Nat) (ih : ∀ F' < F, ChildOK pos F') : LoopOK pos F := by
  intro cs d i st e k acc kp hr hs hc hF
  obtain ⟨rest, p, n, la, w, dp, wd, s, th, al⟩ := st
  simp only at hr
  subst hr
  obtain ⟨F', rfl⟩ : ∃ F', F = F' + 1 := ⟨F - 1, by omega⟩
  cases cs with
  | nil =>
    simp only [toksList, List.nil_append]
    rw [blockLoop_stop (hci := by omega) (hs := hs)]
    simp only [nodeList, List.append_nil, prevAfterList, List.length_nil, Nat.add_zero, warnsList, List.reverse_nil, List.nil_append]
  | cons c cs =>
    simp only [toksList, indentToks, List.cons_append, List.nil_append, List.append_assoc, colsOkList, Bool.and_eq_true,
      List.length_cons, List.length_append] at hF hc ⊢
    rw [blockLoop]
    step_simp [indentTok, Nat.lt_irrefl]
    rw [advance_ne (h := body_ne_nil pos c (d + 1) i _)]
    simp only []
    rw [ih F' (Nat.lt_succ_self _) c cs d i (2 * (d + 1)) _ e k acc kp rfl (Nat.le_refl _) hs hc.1 hc.2 (by omega)]
    simp only [prevAfterList]
    have hp : n + 1 + ((c.body pos (d + 1) i).length + (toksList pos cs (d + 1) (i + c.lines)).length)
        = n + ((c.body pos (d + 1) i).length + (toksList pos cs (d + 1) (i + c.lines)).length + 1) := by omega
    rw [hp]


/-- the first token after a node at depth `d` (a sibling's INDENT or key, or what follows the forest) `stopsAt` depth `d`. -/
theorem cont_head (pos : Nat → LPos) (cs : List TNode) (d i : Nat) (e : Token) (k : List Token)
    (hs : stopsAt (2 * d + 1) e = true) :
    ∃ e' k', toksList pos cs d i ++ e :: k = e' :: k' ∧ stopsAt (2 * d + 1) e' = true := by
  cases cs with
  | nil => exact ⟨e, k, rfl, hs⟩
  | cons c cs =>
    cases d with
    | zero =>
      cases c with
      | line key v => exact ⟨_, _, rfl, by simp [stopsAt, Line.keyTok]⟩
      | block key cs' => exact ⟨_, _, rfl, by simp [stopsAt, hdrKeyTok]⟩
    | succ d => exact ⟨_, _, rfl, by simp [stopsAt, indentTok, indentVal]⟩

theorem prevAfterList_some (pos : Nat → LPos) (t : Token) (cs : List TNode) (i : Nat) :
    prevAfterList pos (some t) cs i = some (lastTokList pos cs t i) := by
  cases cs <;> rfl

theorem prevAfterList_cons (pos : Nat → LPos) (p : Option Token) (c : TNode) (cs : List TNode) (i : Nat) :
    prevAfterList pos p (c :: cs) i = some (lastTokList pos cs (c.lastTok pos i) (i + c.lines)) := rfl

theorem child_of (pos : Nat → LPos) (F : Nat) (ihS : ∀ F' < F, SecOK pos F') (ihL : ∀ F' < F, LoopOK pos F') :
    ChildOK pos F := by
  intro c cs d i li st e k acc kp hr hli hs hc hcs hF
  have hnlt : ¬ li < 2 * (d + 1) := by omega
  cases c with
  | line key v =>
    obtain ⟨rest, p, n, la, w, dp, wd, s, th, al⟩ := st
    simp only at hr
    subst hr
    have hlen : ((TNode.line key v).body pos (d + 1) i).length = 4 := rfl
    rw [hlen] at hF ⊢
    simp only [TNode.lines] at hF hcs ⊢
    obtain ⟨G, rfl⟩ : ∃ G, F = G + 5 := ⟨F - 5, by omega⟩
    simp only [TNode.body, Line.toks, List.cons_append, List.nil_append]
    rw [blockLoop]
    step_simp [Line.keyTok, hnlt]
    rw [parseSection_flat_line (ln := mkLine key v (pos i)) (fuel := G + 1)
      (k := toksList pos cs (d + 1) (i + 1) ++ e :: k) (hr := rfl)]
    step_simp [Line.node, nodeAssignKey?, trackKey_eq]
    rw [blockLoop]
    step_simp [Line.nlTok]
    rw [advance_ne (h := by simp)]
    simp only []
    rw [ihL (G + 3) (by omega) cs d (i + 1) _ e k _ _ rfl hs hcs (by omega)]
    simp only [nodeList, TNode.node, TNode.lines, TNode.lastTok, Line.node, Line.nlTok, warnsList, TNode.warns, trackNode, mkLine,
      prevAfterList_some, List.append_assoc, List.cons_append, List.nil_append, List.reverse_append,
      trackPure_warns_reverse, Line.warns_reverse]
    have hp : n + 3 + 1 + (toksList pos cs (d + 1) (i + 1)).length = n + (4 + (toksList pos cs (d + 1) (i + 1)).length) := by omega
    rw [hp]
  | block key' cs' =>
    obtain ⟨e', k', hek, hs'⟩ := cont_head pos cs (d + 1) (i + (TNode.block key' cs').lines) e k
      (stopsAt_mono (by omega) hs)
    rw [hek] at hr
    obtain ⟨rest, p, n, la, w, dp, wd, s, th, al⟩ := st
    simp only at hr
    subst hr
    obtain ⟨F', rfl⟩ : ∃ F', F = F' + 1 := ⟨F - 1, by omega⟩
    have hlen3 : 3 ≤ ((TNode.block key' cs').body pos (d + 1) i).length := by
      simp only [TNode.body, List.length_cons]; omega
    have hsec := ihS F' (Nat.lt_succ_self _) key' cs' (d + 1) i
      { rest := (TNode.block key' cs').body pos (d + 1) i ++ e' :: k', prev := p, pos := n, last := la, warnings := w, depth := dp,
        warned := wd, strict := s, threshold := th, alpha := al } e' k' rfl hs' hc (by omega)
    rw [blockLoop]
    simp only [TNode.body, List.cons_append] at hsec ⊢
    step_simp [hdrKeyTok, hnlt]
    simp only [hdrKeyTok] at hsec
    rw [hsec]
    step_simp [TNode.node, nodeAssignKey?]
    rw [ihL F' (Nat.lt_succ_self _) cs d (i + (TNode.block key' cs').lines) _ e k _ _ hek.symm hs hcs (by omega)]
    simp only [nodeList, TNode.node, TNode.lastTok, warnsList, TNode.warns, trackNode,
      prevAfterList_some, List.append_assoc, List.cons_append, List.nil_append, List.reverse_append, Nat.add_assoc]


theorem preIndentComments_stop (fuel : Nat) (acc : List Str) (t : Token) (r : List Token) (p : Option Token) (n : Nat) (la : Token)
    (w : List Warning) (d : Nat) (wd : List Nat) (s : Bool) (th : Nat) (al : Char → Bool)
    (h1 : t.type ≠ TT.comment) (h2 : t.type ≠ TT.newline) :
    preIndentComments (fuel + 1) acc { rest := t :: r, prev := p, pos := n, last := la, warnings := w, depth := d, warned := wd, strict := s, threshold := th, alpha := al }
      = .ok (acc, { rest := t :: r, prev := p, pos := n, last := la, warnings := w, depth := d, warned := wd, strict := s, threshold := th, alpha := al }) := by
  rw [preIndentComments]
  step_simp [h1, h2]

/-- `advance` over a token followed by the tokens of a node. -/
theorem advance_body (pos : Nat → LPos) (c : TNode) (d' i' : Nat) (X : List Token) (t : Token) (p : Option Token) (n : Nat) (la : Token)
    (w : List Warning) (d : Nat) (wd : List Nat) (s : Bool) (th : Nat) (al : Char → Bool) :
    advance { rest := t :: (c.body pos d' i' ++ X), prev := p, pos := n, last := la, warnings := w, depth := d, warned := wd, strict := s, threshold := th, alpha := al }
      = .ok (t, { rest := c.body pos d' i' ++ X, prev := some t, pos := n + 1, last := la, warnings := w, depth := d, warned := wd, strict := s, threshold := th, alpha := al }) :=
  advance_ne (h := body_ne_nil pos c d' i' X) ..

theorem sec_of (pos : Nat → LPos) (F : Nat) (ih : ∀ F' < F, ChildOK pos F') : SecOK pos F := by
  intro key cs d i st e k hr hs hc hF
  obtain ⟨rest, p, n, la, w, dp, wd, s, th, al⟩ := st
  simp only at hr
  subst hr
  have hs0 := hs
  simp only [stopsAt, Bool.and_eq_true, Bool.or_eq_true, bne_iff_ne, ne_eq, decide_eq_true_eq] at hs0
  obtain ⟨⟨⟨h1, h2⟩, h3⟩, h4⟩ := hs0
  cases cs with
  | nil =>
    simp only [TNode.colsOk, List.isEmpty_nil, if_true, colsOkList, Bool.and_true, decide_eq_true_eq] at hc
    simp only [TNode.body, toksList, List.cons_append, List.nil_append, List.length_cons, List.length_nil] at hF ⊢
    obtain ⟨F', rfl⟩ : ∃ F', F = F' + 1 := ⟨F - 1, by omega⟩
    rw [parseSection]
    step_simp [hdrKeyTok, hdrBlockTok, hdrNlTok, pyStrVal_str]
    rw [skipWhitespace_newline (h := rfl) (h1 := h1) (h2 := h2)]
    step_simp []
    rw [preIndentComments_stop (h1 := h2) (h2 := h1)]
    step_simp []
    have hfin : n + 1 + 1 + 1 = n + (0 + 1 + 1 + 1) := by omega
    by_cases hi : e.type = TT.indent
    · have h5 : indentVal e < 2 * d + 1 := by
        rcases h4 with h | h
        · exact absurd hi h
        · exact h
      cases hv : e.value with
      | nat m =>
        simp only [indentVal, hv] at h5
        have h6 : ¬ (m > (pos i).c1 - 1) := by omega
        step_simp [hi, h3, h6, set_mk, decide_false, eq_self, Option.isSome_none]
        simp only [TNode.node, nodeList, TNode.lastTok, lastTokList, TNode.warns, warnsList, List.reverse_nil, List.nil_append, hdrNlTok, hfin]
      | _ =>
        step_simp [hi, h3, set_mk, decide_false, eq_self, Option.isSome_none, gt_iff_lt, Nat.not_lt_zero]
        simp only [TNode.node, nodeList, TNode.lastTok, lastTokList, TNode.warns, warnsList, List.reverse_nil, List.nil_append, hdrNlTok, hfin]
    · have hib : (e.type == TT.indent) = false := by simp [hi]
      step_simp [hi, hib, h3, set_mk, decide_false, eq_self, Option.isSome_none]
      simp only [TNode.node, nodeList, TNode.lastTok, lastTokList, TNode.warns, warnsList, List.reverse_nil, List.nil_append, hdrNlTok, hfin]
  | cons c cs =>
    simp only [TNode.colsOk, List.isEmpty_cons, Bool.false_eq_true, if_false, colsOkList, Bool.and_eq_true, decide_eq_true_eq] at hc
    obtain ⟨hc1, hc2, hc3⟩ := hc
    simp only [TNode.body, toksList, indentToks, List.cons_append, List.nil_append, List.append_assoc, List.length_cons,
      List.length_append] at hF ⊢
    obtain ⟨F', rfl⟩ : ∃ F', F = F' + 1 := ⟨F - 1, by omega⟩
    rw [parseSection]
    step_simp [hdrKeyTok, hdrBlockTok, hdrNlTok, pyStrVal_str]
    rw [skipWhitespace_newline (h := rfl) (h1 := by simp [indentTok]) (h2 := by simp [indentTok])]
    step_simp []
    rw [preIndentComments_stop (h1 := by simp [indentTok]) (h2 := by simp [indentTok])]
    have h6 : 2 * (d + 1) > (pos i).c1 - 1 := hc1
    step_simp [indentTok, h6, decide_true, Option.isSome_none, advance_body]
    rw [ih F' (Nat.lt_succ_self _) c cs d (i + 1) (2 * (d + 1)) _ e k [] [] rfl (Nat.le_refl _)
      (stopsAt_mono (by omega) hs) hc2 hc3 (by omega)]
    simp only [TNode.node, nodeList, TNode.lastTok, lastTokList, TNode.warns, warnsList, List.nil_append]
    have hp : n + 1 + 1 + 1 + 1 + ((c.body pos (d + 1) (i + 1)).length + (toksList pos cs (d + 1) (i + 1 + c.lines)).length)
        = n + ((c.body pos (d + 1) (i + 1)).length + (toksList pos cs (d + 1) (i + 1 + c.lines)).length + 1 + 1 + 1 + 1) := by omega
    rw [hp]


/-- all three statements hold for every fuel (strong induction on the fuel; the fuel bounds inside the statements
make every recursive call land on a smaller fuel that is still large enough). -/
theorem all_ok (pos : Nat → LPos) (F : Nat) : SecOK pos F ∧ ChildOK pos F ∧ LoopOK pos F := by
  induction F using Nat.strongRecOn with
  | _ F ih =>
    have hC : ∀ F' < F, ChildOK pos F' := fun F' h => (ih F' h).2.1
    exact ⟨sec_of pos F hC, child_of pos F (fun F' h => (ih F' h).1) (fun F' h => (ih F' h).2.2), loop_of pos F hC⟩

/-- **`parse_section` on a block** of any depth and width, at any depth `d`, at arbitrary token positions (the key column
subject to `colsOk`), followed by a token `e` that is not deeper than the block (`stopsAt (2 * d + 1) e`), with
fuel at least the number of the block's tokens: returns the Block node with exactly the children, leaves the cursor on
`e`; `warnings` grows by exactly `warns` (duplicate keys per block, PATTERN/REGEX bare words); `depth`, `warned`
and everything else unchanged. -/
theorem parseSection_block (pos : Nat → LPos) (key : Str) (cs : List TNode) (d i : Nat) (st : PState) (e : Token) (k : List Token)
    (F : Nat) (hr : st.rest = (TNode.block key cs).body pos d i ++ e :: k) (hs : stopsAt (2 * d + 1) e = true)
    (hc : (TNode.block key cs).colsOk pos d i = true) (hF : ((TNode.block key cs).body pos d i).length ≤ F) :
    parseSection F [] st = .ok (some ((TNode.block key cs).node pos i),
      { st with rest := e :: k, prev := some ((TNode.block key cs).lastTok pos i),
                pos := st.pos + ((TNode.block key cs).body pos d i).length,
                warnings := ((TNode.block key cs).warns pos i).reverse ++ st.warnings }) :=
  (all_ok pos F).1 key cs d i st e k hr hs hc hF

/-- **the child loop of a block** from the start of a line, on any forest of children at depth `d + 1`. -/
theorem blockLoop_forest (pos : Nat → LPos) (cs : List TNode) (d i : Nat) (st : PState) (e : Token) (k : List Token)
    (acc : List Node) (kp : KeyPos) (F : Nat)
    (hr : st.rest = toksList pos cs (d + 1) i ++ e :: k) (hs : stopsAt (2 * (d + 1)) e = true)
    (hc : colsOkList pos cs (d + 1) i = true) (hF : (toksList pos cs (d + 1) i).length + 1 ≤ F) :
    blockLoop F (2 * (d + 1)) 0 [] acc kp st = .ok (acc ++ nodeList pos cs i,
      { st with rest := e :: k, prev := prevAfterList pos st.prev cs i,
                pos := st.pos + (toksList pos cs (d + 1) i).length,
                warnings := (warnsList pos cs kp i).reverse ++ st.warnings }) :=
  (all_ok pos F).2.2 cs d i st e k acc kp hr hs hc hF

/-! ## The body loop of `parseDocument` on a forest (lines and blocks mixed) -/

theorem docLoop_tree (pos : Nat → LPos) (vf : Nat) (nodes : List TNode) (e : Token) (tail : List Token)
    (he : e.type = .envelopeEnd ∨ e.type = .eof) (i : Nat) (st : PState) (acc : List Node) (kp : KeyPos) (extra : Nat)
    (hr : st.rest = toksList pos nodes 0 i ++ e :: tail)
    (hc : colsOkList pos nodes 0 i = true)
    (hvf : (toksList pos nodes 0 i).length + 3 ≤ vf) :
    docLoop vf (2 * nodes.length + 1 + extra) [] acc kp st
      = .ok ((acc ++ nodeList pos nodes i, []),
             { st with rest := e :: tail, prev := prevAfterList pos st.prev nodes i,
                       pos := st.pos + (toksList pos nodes 0 i).length,
                       warnings := (warnsList pos nodes kp i).reverse ++ st.warnings }) := by
  have hse : stopsAt 1 e = true := by
    rcases he with h | h <;> simp [stopsAt, h]
  induction nodes generalizing st acc kp i extra with
  | nil =>
    obtain ⟨rest, p, n, la, w, dp, wd, s, th, al⟩ := st
    simp only [toksList, List.nil_append] at hr
    subst hr
    have hf : 2 * ([] : List TNode).length + 1 + extra = extra + 1 := by simp only [List.length_nil]; omega
    rw [hf, docLoop]
    step_simp [he]
    simp only [nodeList, List.append_nil, prevAfterList, toksList, List.length_nil, Nat.add_zero, warnsList, List.reverse_nil,
      List.nil_append]
  | cons c r ih =>
    have hf : 2 * (c :: r).length + 1 + extra = (2 * r.length + 1 + extra) + 1 + 1 := by
      simp only [List.length_cons]; omega
    simp only [colsOkList, Bool.and_eq_true] at hc
    rw [hf]
    cases c with
    | line key v =>
      obtain ⟨rest, p, n, la, w, dp, wd, s, th, al⟩ := st
      simp only at hr
      subst hr
      simp only [toksList, indentToks, TNode.body, Line.toks, TNode.lines, List.nil_append, List.cons_append, List.length_cons] at hvf ⊢
      obtain ⟨vf0, rfl⟩ : ∃ vf0, vf = vf0 + 3 := ⟨vf - 3, by omega⟩
      rw [docLoop]
      step_simp [Line.keyTok]
      rw [parseSection_flat_line (ln := mkLine key v (pos i)) (fuel := vf0)
        (k := toksList pos r 0 (i + 1) ++ e :: tail) (hr := rfl)]
      step_simp [Line.node, nodeAssignKey?, trackKey_eq]
      rw [docLoop]
      step_simp [Line.nlTok]
      rw [advance_ne (h := by simp)]
      simp only []
      rw [ih (i + 1) _ _ _ extra rfl hc.2 (by omega)]
      simp only [nodeList, TNode.node, TNode.lines, TNode.lastTok, Line.node, Line.nlTok, warnsList, TNode.warns, trackNode, mkLine,
        prevAfterList_some, prevAfterList_cons, List.append_assoc, List.cons_append, List.nil_append, List.reverse_append,
        trackPure_warns_reverse, Line.warns_reverse]
      have hp : n + 3 + 1 + (toksList pos r 0 (i + 1)).length = n + ((toksList pos r 0 (i + 1)).length + 1 + 1 + 1 + 1) := by omega
      rw [hp]
    | block key cs =>
      obtain ⟨e', k', hek, hs'⟩ := cont_head pos r 0 (i + (TNode.block key cs).lines) e tail hse
      simp only [toksList, indentToks, List.nil_append, List.append_assoc] at hr hvf
      rw [hek] at hr
      obtain ⟨rest, p, n, la, w, dp, wd, s, th, al⟩ := st
      simp only at hr
      subst hr
      have hsec := parseSection_block pos key cs 0 i
        { rest := (TNode.block key cs).body pos 0 i ++ e' :: k', prev := p, pos := n, last := la, warnings := w, depth := dp,
          warned := wd, strict := s, threshold := th, alpha := al } e' k' vf rfl hs' hc.1
          (by simp only [List.length_append] at hvf; omega)
      rw [docLoop]
      simp only [TNode.body, List.cons_append] at hsec ⊢
      step_simp [hdrKeyTok]
      simp only [hdrKeyTok] at hsec
      rw [hsec]
      step_simp [TNode.node, nodeAssignKey?]
      have hfm : 2 * r.length + 1 + extra + 1 = 2 * r.length + 1 + (extra + 1) := by omega
      rw [hfm, ih (i + (TNode.block key cs).lines) _ _ _ (extra + 1) hek.symm hc.2
        (by simp only [List.length_append] at hvf; omega)]
      simp only [nodeList, TNode.node, TNode.lastTok, warnsList, TNode.warns, trackNode, toksList, indentToks, TNode.body,
        prevAfterList_some, prevAfterList_cons, List.append_assoc, List.cons_append, List.nil_append, List.reverse_append,
        List.length_cons, List.length_append]
      apply ok_pos_congr
      omega


/-- `docLoop_tree` with fuel given by lower bounds. -/
theorem docLoop_tree' (pos : Nat → LPos) (vf fuel : Nat) (nodes : List TNode) (e : Token) (tail : List Token)
    (he : e.type = .envelopeEnd ∨ e.type = .eof) (i : Nat) (st : PState) (acc : List Node) (kp : KeyPos)
    (hr : st.rest = toksList pos nodes 0 i ++ e :: tail)
    (hc : colsOkList pos nodes 0 i = true)
    (hvf : (toksList pos nodes 0 i).length + 3 ≤ vf) (hfuel : 2 * nodes.length + 1 ≤ fuel) :
    docLoop vf fuel [] acc kp st
      = .ok ((acc ++ nodeList pos nodes i, []),
             { st with rest := e :: tail, prev := prevAfterList pos st.prev nodes i,
                       pos := st.pos + (toksList pos nodes 0 i).length,
                       warnings := (warnsList pos nodes kp i).reverse ++ st.warnings }) := by
  obtain ⟨extra, rfl⟩ : ∃ extra, fuel = 2 * nodes.length + 1 + extra := ⟨fuel - (2 * nodes.length + 1), by omega⟩
  exact docLoop_tree pos vf nodes e tail he i st acc kp extra hr hc hvf

/-- every node has at least one token. -/
theorem length_le_toks (pos : Nat → LPos) (nodes : List TNode) (d i : Nat) : nodes.length ≤ (toksList pos nodes d i).length := by
  induction nodes generalizing i with
  | nil => simp [toksList]
  | cons c r ih =>
    have := ih (i + c.lines)
    have hb : 1 ≤ (c.body pos d i).length := by
      cases c <;> simp [TNode.body, Line.toks]
    simp only [toksList, List.length_append, List.length_cons]
    omega

/-! ## `parseDocument` on a whole tree document -/

/-- the token list of a tree document: envelope line, the forest at depth 0 (body lines numbered from 0), `===END===`. -/
def treeToks (f : Frame) (name : Str) (pos : Nat → LPos) (nodes : List TNode) : List Token :=
  f.envTok name :: f.nl0Tok :: (toksList pos nodes 0 0 ++ [f.endTok, f.nl1Tok, f.eofTok])

/-- the document it denotes (all other fields at their defaults). -/
def treeDoc (name : Str) (pos : Nat → LPos) (nodes : List TNode) : Document := { name := name, sections := nodeList pos nodes 0 }

def TNode.key : TNode → Str
  | .line key _ => key
  | .block key _ => key

/-- the first top-level key is `META` (then `parse_document` reads a META block, not a section). -/
def metaFirstT : List TNode → Bool
  | c :: _ => c.key == "META".toList
  | [] => false

/-- what follows the envelope line: the first key (not `META`) or `===END===`. -/
theorem tree_body_head (f : Frame) (pos : Nat → LPos) (nodes : List TNode) (hm : metaFirstT nodes = false) :
    ∃ u K, toksList pos nodes 0 0 ++ [f.endTok, f.nl1Tok, f.eofTok] = u :: K ∧
      u.type ≠ TT.newline ∧ u.type ≠ TT.comment ∧ u.type ≠ TT.separator ∧ u.type ≠ TT.grammarSentinel ∧
      u.type ≠ TT.envelopeStart ∧ ¬(u.type = TT.identifier ∧ u.value = TVal.str "META".toList) := by
  cases nodes with
  | nil => exact ⟨f.endTok, _, rfl, by simp [Frame.endTok], by simp [Frame.endTok], by simp [Frame.endTok], by simp [Frame.endTok], by simp [Frame.endTok], fun h => by cases h.1⟩
  | cons c r =>
    simp only [metaFirstT, beq_eq_false_iff_ne, ne_eq] at hm
    cases c with
    | line key v =>
      refine ⟨(mkLine key v (pos 0)).keyTok, _, rfl, by simp [Line.keyTok], by simp [Line.keyTok], by simp [Line.keyTok], by simp [Line.keyTok], by simp [Line.keyTok], fun h => ?_⟩
      have := h.2
      simp only [Line.keyTok, mkLine, TVal.str.injEq] at this
      exact hm this
    | block key cs =>
      refine ⟨hdrKeyTok key (pos 0), _, rfl, by simp [hdrKeyTok], by simp [hdrKeyTok], by simp [hdrKeyTok], by simp [hdrKeyTok], by simp [hdrKeyTok], fun h => ?_⟩
      have := h.2
      simp only [hdrKeyTok, TVal.str.injEq] at this
      exact hm this

theorem parseDocument_tree (f : Frame) (name : Str) (pos : Nat → LPos) (nodes : List TNode) (st : PState)
    (hm : metaFirstT nodes = false) (hc : colsOkList pos nodes 0 0 = true) (hr : st.rest = treeToks f name pos nodes) :
    parseDocument st
      = .ok (treeDoc name pos nodes,
             { st with rest := [f.nl1Tok, f.eofTok], prev := some f.endTok, pos := st.pos + (toksList pos nodes 0 0).length + 3,
                       warnings := (warnsList pos nodes [] 0).reverse ++ st.warnings }) := by
  obtain ⟨u, K, hK, h1, h2, h3, h4, h5, h6⟩ := tree_body_head f pos nodes hm
  have hlen : (toksList pos nodes 0 0).length + 2 = K.length := by
    have := congrArg List.length hK
    simp only [List.length_append, List.length_cons, List.length_nil] at this
    omega
  have hnl := length_le_toks pos nodes 0 0
  have hst : st = { st with rest := f.envTok name :: f.nl0Tok :: u :: K } := by rw [← hK, ← treeToks, ← hr]
  rw [hst]
  unfold parseDocument
  simp (config := {zeta := false}) only [bind, StateT.bind, Except.bind, budget_mk]
  extract_lets n doc0 jp5 jp4 jp3 jp2 jp1
  step_simp [Frame.envTok, Frame.nl0Tok, skipWhitespace_stop]
  simp only [jp1]
  step_simp []
  simp only [jp2]
  step_simp [skipWhitespace_newline, pyStrVal_str, h1, h2]
  simp only [jp3]
  step_simp [h6]
  simp only [jp4]
  step_simp [h3]
  simp only [jp5]
  step_simp []
  rw [docLoop_tree' (pos := pos) (nodes := nodes) (e := f.endTok) (tail := [f.nl1Tok, f.eofTok]) (he := Or.inl rfl) (i := 0)
    (hr := hK.symm) (hc := hc)
    (hvf := by simp only [n, List.length_cons]; omega) (hfuel := by simp only [n, List.length_cons]; omega)]
  step_simp [Frame.endTok]
  have hp : st.pos + 1 + 1 + (toksList pos nodes 0 0).length + 1 = st.pos + (toksList pos nodes 0 0).length + 3 := by omega
  rw [hp, List.nil_append]
  rfl


/-! ## When the reader is silent -/

/-- keys of the Assignment children of a forest (the keys the duplicate-key check of that level sees). -/
def lineKeys : List TNode → List Str
  | [] => []
  | .line key _ :: cs => key :: lineKeys cs
  | .block _ _ :: cs => lineKeys cs

mutual
/-- no warning arises below the node: no bare word under `PATTERN`/`REGEX`, no Assignment key repeated within one block. -/
def TNode.quiet : TNode → Bool
  | .line key v => !(v.isWord && (key == "PATTERN".toList || key == "REGEX".toList))
  | .block _ cs => quietList cs && decide (lineKeys cs).Nodup
def quietList : List TNode → Bool
  | [] => true
  | c :: cs => c.quiet && quietList cs
end

mutual
theorem warns_eq_nil (pos : Nat → LPos) : ∀ (c : TNode) (i : Nat), c.quiet = true → c.warns pos i = []
  | .line key v, i, h => by
    simp only [TNode.warns]
    exact (Line.warns_eq_nil_iff _).2 (by simpa [Line.plain, mkLine, TNode.quiet] using h)
  | .block _ cs, i, h => by
    simp only [TNode.quiet, Bool.and_eq_true, decide_eq_true_eq] at h
    simp only [TNode.warns]
    exact warnsList_eq_nil pos cs [] (i + 1) h.1 h.2 (fun _ _ => rfl)
theorem warnsList_eq_nil (pos : Nat → LPos) : ∀ (cs : List TNode) (kp : KeyPos) (i : Nat), quietList cs = true →
    (lineKeys cs).Nodup → (∀ key ∈ lineKeys cs, kp.lookup key = none) → warnsList pos cs kp i = []
  | [], _, _, _, _, _ => rfl
  | .line key v :: cs, kp, i, hq, hnd, hkp => by
    simp only [quietList, Bool.and_eq_true] at hq
    simp only [lineKeys, List.nodup_cons] at hnd
    have h0 : kp.lookup key = none := hkp key (by simp [lineKeys])
    have htp : trackPure kp key (pos i).l = (kp ++ [(key, [(pos i).l])], []) := by
      unfold trackPure; rw [h0]
    simp only [warnsList, trackNode, htp, warns_eq_nil pos _ i hq.1, List.nil_append]
    apply warnsList_eq_nil pos cs _ _ hq.2 hnd.2
    intro x hx
    apply lookup_append_none _ _ _ (hkp x (by simp [lineKeys, hx]))
    have hne : x ≠ key := fun h => hnd.1 (h ▸ hx)
    simp only [List.lookup_cons, List.lookup_nil]
    rw [beq_eq_false_iff_ne.2 hne]
  | .block key cs' :: cs, kp, i, hq, hnd, hkp => by
    simp only [quietList, Bool.and_eq_true] at hq
    simp only [lineKeys] at hnd hkp
    simp only [warnsList, trackNode, warns_eq_nil pos _ i hq.1, List.nil_append]
    exact warnsList_eq_nil pos cs kp _ hq.2 hnd hkp
end

/-! ## Boolean equality on documents with blocks (for closed `decide` checks) -/

mutual
def nodeEqT : Node → Node → Bool
  | .assign k v l c ld tr, .assign k' v' l' c' ld' tr' =>
    k == k' && valEqB v v' && l == l' && c == c' && ld == ld' && tr == tr'
  | .block k ch l c ld tg, .block k' ch' l' c' ld' tg' =>
    k == k' && nodesEqT ch ch' && l == l' && c == c' && ld == ld' && tg == tg'
  | _, _ => false
def nodesEqT : List Node → List Node → Bool
  | [], [] => true
  | a :: as, b :: bs => nodeEqT a b && nodesEqT as bs
  | _, _ => false
end

mutual
theorem nodeEqT_sound : ∀ {a b : Node}, nodeEqT a b = true → a = b
  | .assign .., .assign .., h => by
    simp only [nodeEqT, Bool.and_eq_true, beq_iff_eq] at h
    obtain ⟨⟨⟨⟨⟨h1, h2⟩, h3⟩, h4⟩, h5⟩, h6⟩ := h
    rw [h1, valEqB_sound h2, h3, h4, h5, h6]
  | .block _ ch .., .block _ ch' .., h => by
    simp only [nodeEqT, Bool.and_eq_true, beq_iff_eq] at h
    obtain ⟨⟨⟨⟨⟨h1, h2⟩, h3⟩, h4⟩, h5⟩, h6⟩ := h
    rw [h1, nodesEqT_sound h2, h3, h4, h5, h6]
  | .assign .., .block .., h => by simp [nodeEqT] at h
  | .assign .., .sect .., h => by simp [nodeEqT] at h
  | .assign .., .comment .., h => by simp [nodeEqT] at h
  | .block .., .assign .., h => by simp [nodeEqT] at h
  | .block .., .sect .., h => by simp [nodeEqT] at h
  | .block .., .comment .., h => by simp [nodeEqT] at h
  | .sect .., _, h => by simp [nodeEqT] at h
  | .comment .., _, h => by simp [nodeEqT] at h
theorem nodesEqT_sound : ∀ {a b : List Node}, nodesEqT a b = true → a = b
  | [], [], _ => rfl
  | [], _ :: _, h => by simp [nodesEqT] at h
  | _ :: _, [], h => by simp [nodesEqT] at h
  | a :: as, b :: bs, h => by
    simp only [nodesEqT, Bool.and_eq_true] at h
    rw [nodeEqT_sound h.1, nodesEqT_sound h.2]
end

def docEqT (a b : Document) : Bool :=
  a.name == b.name && a.metaKv.isEmpty && b.metaKv.isEmpty && a.hasSeparator == b.hasSeparator &&
  nodesEqT a.sections b.sections && a.grammarVersion == b.grammarVersion &&
  a.rawFrontmatter == b.rawFrontmatter && a.trailingComments == b.trailingComments

theorem docEqT_sound {a b : Document} (h : docEqT a b = true) : a = b := by
  obtain ⟨n, m, hs, s, g, rf, tc⟩ := a
  obtain ⟨n', m', hs', s', g', rf', tc'⟩ := b
  simp only [docEqT, Bool.and_eq_true, beq_iff_eq, List.isEmpty_iff] at h
  obtain ⟨⟨⟨⟨⟨⟨⟨h1, h2⟩, h3⟩, h4⟩, h5⟩, h6⟩, h7⟩, h8⟩ := h
  rw [h1, h2, h3, h4, nodesEqT_sound h5, h6, h7, h8]

/-- Boolean test `r = .ok d`. -/
def isOkDocT (r : Except Exc Document) (d : Document) : Bool :=
  match r with | .ok x => docEqT x d | .error _ => false

theorem isOkDocT_sound {r : Except Exc Document} {d : Document} (h : isOkDocT r d = true) : r = .ok d := by
  cases r with
  | error e => simp [isOkDocT] at h
  | ok x => rw [docEqT_sound (a := x) (b := d) h]


/-! ## Token counts (independent of the positions): the fuel bounds are linear in the size of the text -/

mutual
/-- number of tokens of a node without its INDENT: 4 for a line, 3 for a block header plus its children with their INDENTs. -/
def TNode.size : TNode → Nat
  | .line _ _ => 4
  | .block _ cs => 3 + sizeList cs
/-- number of tokens of an indented forest. -/
def sizeList : List TNode → Nat
  | [] => 0
  | c :: cs => 1 + c.size + sizeList cs
end

mutual
theorem body_length (pos : Nat → LPos) : ∀ (c : TNode) (d i : Nat), (c.body pos d i).length = c.size
  | .line _ _, _, _ => rfl
  | .block _ cs, d, i => by
    simp only [TNode.body, TNode.size, List.length_cons, toksList_succ_length pos cs d (i + 1)]
    omega
theorem toksList_succ_length (pos : Nat → LPos) : ∀ (cs : List TNode) (d i : Nat), (toksList pos cs (d + 1) i).length = sizeList cs
  | [], _, _ => rfl
  | c :: cs, d, i => by
    simp only [toksList, indentToks, sizeList, List.length_cons, List.length_append, List.length_nil,
      body_length pos c (d + 1) i, toksList_succ_length pos cs d (i + c.lines)]
    omega
end


/-! ## The lexer's columns satisfy `colsOk` -/

mutual
/-- every block key sits right after its indentation: `column = 2·d + 1` (what the lexer produces). -/
def TNode.canonCols (pos : Nat → LPos) : TNode → Nat → Nat → Bool
  | .line _ _, _, _ => true
  | .block _ cs, d, i => decide ((pos i).c1 = 2 * d + 1) && canonColsList pos cs (d + 1) (i + 1)
def canonColsList (pos : Nat → LPos) : List TNode → Nat → Nat → Bool
  | [], _, _ => true
  | c :: cs, d, i => c.canonCols pos d i && canonColsList pos cs d (i + c.lines)
end

mutual
theorem colsOk_of_canon (pos : Nat → LPos) : ∀ (c : TNode) (d i : Nat), c.canonCols pos d i = true → c.colsOk pos d i = true
  | .line _ _, _, _, _ => rfl
  | .block _ cs, d, i, h => by
    simp only [TNode.canonCols, Bool.and_eq_true, decide_eq_true_eq] at h
    simp only [TNode.colsOk, Bool.and_eq_true, colsOkList_of_canon pos cs (d + 1) (i + 1) h.2, and_true]
    split <;> simp only [decide_eq_true_eq] <;> omega
theorem colsOkList_of_canon (pos : Nat → LPos) : ∀ (cs : List TNode) (d i : Nat), canonColsList pos cs d i = true → colsOkList pos cs d i = true
  | [], _, _, _ => rfl
  | c :: cs, d, i, h => by
    simp only [canonColsList, Bool.and_eq_true] at h
    simp only [colsOkList, Bool.and_eq_true]
    exact ⟨colsOk_of_canon pos c d i h.1, colsOkList_of_canon pos cs d (i + c.lines) h.2⟩
end

end Octave.BlockParse
