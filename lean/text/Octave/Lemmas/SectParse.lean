/-
Parser half of the "document with SECTION MARKERS" read theorem (C01 / C02), extending `Lemmas/BlockParse.lean`.

Content model: `PNode` = `line key scalar` | `block key children` | `sect id key children` — any depth, any width, the
three kinds mixed at every level (a section may contain lines, blocks and sections; a block may contain sections too:
`blockLoop` hands every non-fence child to `parseSection`, which dispatches on the SECTION token).  Section ids (`PId`):
a NUMBER token (`§1`), an IDENTIFIER token (`§CONTEXT`), or a NUMBER token followed by a one-letter IDENTIFIER (`§2b`).
Token rendering at ARBITRARY line/column numbers: `pos : Nat → SPos` gives one record of positions per source line of the
body, lines numbered in reading order; the `normFrom` mark of the SECTION token is arbitrary too (`SPos.nf`: the parser
does not look at it, so the ASCII spelling `#` of the marker is covered).

What is proved about the model's parser (`parseSection`, `parseSectionMarker`, `sectionLoop`, `blockLoop`, `docLoop`,
`parseDocument`):

* `sectionLoop_stop`      the child loop of a section ends at a token that `stopsAt` its child indentation
* `HdrOK` / `ChildOK` / `LoopOK`, `hdr_of` / `child_of` / `loop_of`, `all_ok`
                          the three mutually dependent statements (header of a block or a section → first child → rest of
                          the children → nested header …), the two child loops handled together (`childLoop inSect`),
                          tied by strong induction on the fuel
* `parseSection_node`     `parse_section` on a block or a section: the node with exactly the children, cursor on the next
                          line that is not deeper, only warnings added
* `childLoop_forest`      either child loop on any forest of children
* `docLoop_sect`          the body loop of `parse_document` on a forest mixing lines, blocks and sections
* `parseDocument_sect`    the whole `parse_document`, with the parser's own fuel
* `warnsList_eq_nil`, `body_length`, `toksList_succ_length`, `nodeEqS` … `isOkDocS_sound`, `wf_of_canon`

Conditions found in the code (decidable, discussed in `Props/C01sections.lean` with runs of the real reader):
`PNode.wf` (the column of a block key / of a section marker is read as the node's own indentation; the letter of a `§2b`
id must be alphabetic for the parser's `str.isalpha`), `stopsAt` (what may follow), `metaFirstS` (a leading top-level `META`).
Everything lives in `namespace Octave.SectParse`.
-/
import Octave.Lemmas.BlockParse
namespace Octave.SectParse
open Octave Parser FlatParse
open Octave.BlockParse (indentVal stopsAt stopsAt_mono blockLoop_stop preIndentComments_stop ok_pos_congr set_mk)

/-! ## Content model -/

/-- the id of a section marker as the parser sees it: a NUMBER token (`value` an int, any lexeme `raw`), an IDENTIFIER
token, or a NUMBER token followed by a one-character IDENTIFIER token (`§2b`). -/
inductive PId where
  | num (i : Int) (raw : Str)
  | name (s : Str)
  | numLetter (i : Int) (raw : Str) (c : Char)

/-- the `section_id` string the parser builds. -/
def PId.str : PId → Str
  | .num i _ => intStr i
  | .name s => s
  | .numLetter i _ c => intStr i ++ [c]

/-- document content below the envelope: lines `KEY::scalar`, blocks `KEY:` and sections `§ID::NAME` with children. -/
inductive PNode where
  | line (key : Str) (v : Scalar)
  | block (key : Str) (children : List PNode)
  | sect (id : PId) (key : Str) (children : List PNode)

/-- positions of the tokens of one source line: all arbitrary.  `li`/`ci`: INDENT token (depth > 0 only); `l`: line of the
other tokens.  `KEY::scalar`: `c1` key, `c2` `::`, `c3` scalar, `c4` NEWLINE.  `KEY:`: `c1` key, `c2` `:`, `c4` NEWLINE.
`§ID::NAME`: `c0` the marker, `c1` the id (`c1b` its letter), `c2` `::`, `c3` the name, `c4` NEWLINE; `nf` is the
`normFrom` mark of the marker token (`none` for `§`, `some "#"` for the ASCII spelling). -/
structure SPos where
  (li ci l c0 c1 c1b c2 c3 c4 : Nat)
  nf : Option Str
  deriving DecidableEq, Repr, Inhabited

def mkLine (key : Str) (v : Scalar) (p : SPos) : Line := ⟨key, v, p.l, p.c1, p.c2, p.c3, p.c4⟩

def hdrKeyTok (key : Str) (p : SPos) : Token := { type := .identifier, value := .str key, line := p.l, col := p.c1 }
def hdrBlockTok (p : SPos) : Token := { type := .block, value := .str ":".toList, line := p.l, col := p.c2 }
def hdrNlTok (p : SPos) : Token := { type := .newline, value := .str "\n".toList, line := p.l, col := p.c4 }
def indentTok (d : Nat) (p : SPos) : Token := { type := .indent, value := .nat (2 * d), line := p.li, col := p.ci }

def indentToks : Nat → SPos → List Token
  | 0, _ => []
  | d + 1, p => [indentTok (d + 1) p]

def secTok (p : SPos) : Token := { type := .section, value := .str ['§'], line := p.l, col := p.c0, normFrom := p.nf }
def secAssignTok (p : SPos) : Token := { type := .assign, value := .str [':', ':'], line := p.l, col := p.c2 }
def secNameTok (key : Str) (p : SPos) : Token := { type := .identifier, value := .str key, line := p.l, col := p.c3 }
def idNumTok (i : Int) (raw : Str) (p : SPos) : Token := { type := .number, value := .int i, line := p.l, col := p.c1, raw := some raw }
def idNameTok (s : Str) (p : SPos) : Token := { type := .identifier, value := .str s, line := p.l, col := p.c1 }
def idLetterTok (c : Char) (p : SPos) : Token := { type := .identifier, value := .str [c], line := p.l, col := p.c1b }

/-- the tokens of a section id. -/
def PId.toks (p : SPos) : PId → List Token
  | .num i raw => [idNumTok i raw p]
  | .name s => [idNameTok s p]
  | .numLetter i raw c => [idNumTok i raw p, idLetterTok c p]

mutual
/-- number of source lines of a node. -/
def PNode.lines : PNode → Nat
  | .line _ _ => 1
  | .block _ cs => 1 + linesList cs
  | .sect _ _ cs => 1 + linesList cs
def linesList : List PNode → Nat
  | [] => 0
  | c :: cs => c.lines + linesList cs
end

mutual
/-- tokens of a node at depth `d` whose first source line is body line `i`, WITHOUT the leading INDENT token. -/
def PNode.body (pos : Nat → SPos) : PNode → Nat → Nat → List Token
  | .line key v, _, i => (mkLine key v (pos i)).toks
  | .block key cs, d, i => hdrKeyTok key (pos i) :: hdrBlockTok (pos i) :: hdrNlTok (pos i) :: toksList pos cs (d + 1) (i + 1)
  | .sect id key cs, d, i =>
    secTok (pos i) :: (id.toks (pos i) ++ secAssignTok (pos i) :: secNameTok key (pos i) :: hdrNlTok (pos i) :: toksList pos cs (d + 1) (i + 1))
/-- tokens of a forest at depth `d` starting at body line `i`: every node with its INDENT token (if `d > 0`). -/
def toksList (pos : Nat → SPos) : List PNode → Nat → Nat → List Token
  | [], _, _ => []
  | c :: cs, d, i => indentToks d (pos i) ++ (c.body pos d i ++ toksList pos cs d (i + c.lines))
end

mutual
/-- the AST node the reader must produce (positions: those of the key token / of the section marker). -/
def PNode.node (pos : Nat → SPos) : PNode → Nat → Node
  | .line key v, i => (mkLine key v (pos i)).node
  | .block key cs, i => .block key (nodeList pos cs (i + 1)) (pos i).l (pos i).c1 [] none
  | .sect id key cs, i => .sect id.str key none (nodeList pos cs (i + 1)) (pos i).l (pos i).c0 []
def nodeList (pos : Nat → SPos) : List PNode → Nat → List Node
  | [], _ => []
  | c :: cs, i => c.node pos i :: nodeList pos cs (i + c.lines)
end

/-- duplicate-key bookkeeping of a child loop: only Assignment children are tracked. -/
def trackNode (kp : KeyPos) (c : PNode) (p : SPos) : KeyPos × List Warning :=
  match c with
  | .line key _ => trackPure kp key p.l
  | .block _ _ => (kp, [])
  | .sect _ _ _ => (kp, [])

mutual
/-- warnings `parseSection` emits on the node, in emission order. -/
def PNode.warns (pos : Nat → SPos) : PNode → Nat → List Warning
  | .line key v, i => (mkLine key v (pos i)).warns
  | .block _ cs, i => warnsList pos cs [] (i + 1)
  | .sect _ _ cs, i => warnsList pos cs [] (i + 1)
/-- warnings of a child loop (block body, section body or document body) on a forest, starting from key table `kp`. -/
def warnsList (pos : Nat → SPos) : List PNode → KeyPos → Nat → List Warning
  | [], _, _ => []
  | c :: cs, kp, i => c.warns pos i ++ ((trackNode kp c (pos i)).2 ++ warnsList pos cs (trackNode kp c (pos i)).1 (i + c.lines))
end

mutual
/-- the last token the loops consume for the node: always a NEWLINE. -/
def PNode.lastTok (pos : Nat → SPos) : PNode → Nat → Token
  | .line key v, i => (mkLine key v (pos i)).nlTok
  | .block _ cs, i => lastTokList pos cs (hdrNlTok (pos i)) (i + 1)
  | .sect _ _ cs, i => lastTokList pos cs (hdrNlTok (pos i)) (i + 1)
def lastTokList (pos : Nat → SPos) : List PNode → Token → Nat → Token
  | [], dflt, _ => dflt
  | c :: cs, _, i => lastTokList pos cs (c.lastTok pos i) (i + c.lines)
end

/-- `prev` after a loop went through the forest. -/
def prevAfterList (pos : Nat → SPos) (p : Option Token) (cs : List PNode) (i : Nat) : Option Token :=
  match cs with
  | [] => p
  | c :: cs => some (lastTokList pos cs (c.lastTok pos i) (i + c.lines))

/-- the parser's `str.isalpha` holds for the letter of a `§2b` id (else the id stops at the number and `::` is missed: E006). -/
def PId.letterOk (al : Char → Bool) : PId → Bool
  | .numLetter _ _ c => al c
  | _ => true

mutual
/-- the conditions the code imposes on positions and letters.  The COLUMN of a block key is `block_indent + 1`, the column of
a section marker is the section's indentation `+ 1`: a node with children needs that indentation `<` its children's
indentation `2 * (d + 1)` (else the first child is not "indented" and the node is read as empty, the children re-parented
to the enclosing level); a node without children needs it `≥ 2 * d`, its own indentation (else a following sibling would be
taken as its child).  The lexer always gives column `2 * d + 1`, which satisfies both.  And `PId.letterOk`. -/
def PNode.wf (al : Char → Bool) (pos : Nat → SPos) : PNode → Nat → Nat → Bool
  | .line _ _, _, _ => true
  | .block _ cs, d, i =>
    (if cs.isEmpty then decide (2 * d ≤ (pos i).c1 - 1) else decide ((pos i).c1 - 1 < 2 * (d + 1))) && wfList al pos cs (d + 1) (i + 1)
  | .sect id _ cs, d, i =>
    id.letterOk al && (if cs.isEmpty then decide (2 * d ≤ (pos i).c0 - 1) else decide ((pos i).c0 - 1 < 2 * (d + 1)))
      && wfList al pos cs (d + 1) (i + 1)
def wfList (al : Char → Bool) (pos : Nat → SPos) : List PNode → Nat → Nat → Bool
  | [], _, _ => true
  | c :: cs, d, i => c.wf al pos d i && wfList al pos cs d (i + c.lines)
end

/-! ## Evaluation on explicit states -/

/-- evaluation of the parser monad on explicit states (as in `Lemmas/FlatParse.lean`). -/
local macro "step_simp" "[" ts:Lean.Parser.Tactic.simpLemma,* "]" : tactic =>
  `(tactic| simp only [bind, StateT.bind, Except.bind, pure, StateT.pure, Except.pure, current_mk, peek_mk, advance_mk,
      curType_mk, isAdjacentBracket_mk, budget_mk, warn_mk, get, getThe, MonadStateOf.get, StateT.get,
      Bool.false_eq_true, if_false, if_true, Bool.false_and, Bool.and_false, Bool.or_false, Bool.false_or,
      List.length_cons, List.length_nil, beq_iff_eq, bne_iff_ne, ne_eq, reduceCtorEq, not_true_eq_false, not_false_eq_true,
      Bool.and_eq_true, Bool.or_eq_true, Bool.not_eq_true', beq_eq_false_iff_ne, false_and, and_false, true_and, and_true,
      false_or, or_false, true_or, or_true, decide_eq_true_eq,
      beq_self_eq_true, Bool.true_or, Bool.or_true, Bool.true_and, Bool.and_true, Bool.not_true, Bool.not_false, $ts,*])

/-- the child loop of a section stops at a token that `stopsAt` its child indentation (on a fresh line: `lineIndent = 0`). -/
theorem sectionLoop_stop (fuel ci : Nat) (hci : 0 < ci) (acc : List Node) (kp : KeyPos) (e : Token) (r : List Token)
    (p : Option Token) (n : Nat) (la : Token) (w : List Warning) (d : Nat) (wd : List Nat) (s : Bool) (th : Nat) (al : Char → Bool)
    (hs : stopsAt ci e = true) :
    sectionLoop (fuel + 1) ci 0 [] acc kp { rest := e :: r, prev := p, pos := n, last := la, warnings := w, depth := d, warned := wd, strict := s, threshold := th, alpha := al }
      = .ok (acc, { rest := e :: r, prev := p, pos := n, last := la, warnings := w, depth := d, warned := wd, strict := s, threshold := th, alpha := al }) := by
  simp only [stopsAt, Bool.and_eq_true, Bool.or_eq_true, bne_iff_ne, ne_eq, decide_eq_true_eq] at hs
  obtain ⟨⟨⟨h1, h2⟩, h3⟩, h4⟩ := hs
  rw [sectionLoop]
  step_simp [List.map_nil, List.append_nil]
  by_cases he : e.type = TT.eof ∨ e.type = TT.envelopeEnd
  · rw [if_pos he]; rfl
  · rw [if_neg he]
    by_cases hi : e.type = TT.indent
    · have h5 : indentVal e < ci := by
        rcases h4 with h | h
        · exact absurd hi h
        · exact h
      obtain ⟨ty, val, l, c, nf, raw⟩ := e
      simp only at hi
      subst hi
      cases val <;> simp only [indentVal] at h5 <;> step_simp [h5] <;> (try (rw [if_pos hci]))
    · step_simp [hi, h1, h2, hci, ite_self]


/-! ## The three mutually dependent statements, indexed by the fuel -/

/-- the child loop of a section (`true`) or of a block (`false`). -/
def childLoop (inSect : Bool) : Nat → Nat → Nat → List Str → List Node → KeyPos → P (List Node) :=
  if inSect then sectionLoop else blockLoop

theorem childLoop_true : childLoop true = sectionLoop := rfl
theorem childLoop_false : childLoop false = blockLoop := rfl

/-- a block or a section (a node with a header line). -/
def PNode.isHdr : PNode → Bool
  | .line _ _ => false
  | _ => true

/-- `parseSection` on a block or a section at depth `d` (cursor on its first token, INDENT already consumed), followed by
a token that `stopsAt` depth `d`: the node with exactly the children; cursor on that token; only warnings added. -/
def HdrOK (pos : Nat → SPos) (F : Nat) : Prop :=
  ∀ (c : PNode) (d i : Nat) (st : PState) (e : Token) (k : List Token),
    c.isHdr = true →
    st.rest = c.body pos d i ++ e :: k →
    stopsAt (2 * d + 1) e = true →
    c.wf st.alpha pos d i = true →
    (c.body pos d i).length ≤ F →
    parseSection F [] st = .ok (some (c.node pos i),
      { st with rest := e :: k, prev := some (c.lastTok pos i),
                pos := st.pos + (c.body pos d i).length,
                warnings := (c.warns pos i).reverse ++ st.warnings })

/-- a child loop with the cursor on the first token of child `c` (its INDENT consumed: `lineIndent = li ≥ childIndent`),
further children `cs` behind it. -/
def ChildOK (pos : Nat → SPos) (F : Nat) : Prop :=
  ∀ (b : Bool) (c : PNode) (cs : List PNode) (d i li : Nat) (st : PState) (e : Token) (k : List Token) (acc : List Node) (kp : KeyPos),
    st.rest = c.body pos (d + 1) i ++ (toksList pos cs (d + 1) (i + c.lines) ++ e :: k) →
    2 * (d + 1) ≤ li →
    stopsAt (2 * (d + 1)) e = true →
    c.wf st.alpha pos (d + 1) i = true → wfList st.alpha pos cs (d + 1) (i + c.lines) = true →
    (c.body pos (d + 1) i).length + (toksList pos cs (d + 1) (i + c.lines)).length + 1 ≤ F →
    childLoop b F (2 * (d + 1)) li [] acc kp st = .ok (acc ++ nodeList pos (c :: cs) i,
      { st with rest := e :: k, prev := some (lastTokList pos cs (c.lastTok pos i) (i + c.lines)),
                pos := st.pos + ((c.body pos (d + 1) i).length + (toksList pos cs (d + 1) (i + c.lines)).length),
                warnings := (warnsList pos (c :: cs) kp i).reverse ++ st.warnings })

/-- a child loop at the start of a line (`lineIndent = 0`), children `cs` (each with its INDENT) ahead. -/
def LoopOK (pos : Nat → SPos) (F : Nat) : Prop :=
  ∀ (b : Bool) (cs : List PNode) (d i : Nat) (st : PState) (e : Token) (k : List Token) (acc : List Node) (kp : KeyPos),
    st.rest = toksList pos cs (d + 1) i ++ e :: k →
    stopsAt (2 * (d + 1)) e = true →
    wfList st.alpha pos cs (d + 1) i = true →
    (toksList pos cs (d + 1) i).length + 1 ≤ F →
    childLoop b F (2 * (d + 1)) 0 [] acc kp st = .ok (acc ++ nodeList pos cs i,
      { st with rest := e :: k, prev := prevAfterList pos st.prev cs i,
                pos := st.pos + (toksList pos cs (d + 1) i).length,
                warnings := (warnsList pos cs kp i).reverse ++ st.warnings })

theorem body_ne_nil (pos : Nat → SPos) (c : PNode) (d i : Nat) (r : List Token) : c.body pos d i ++ r ≠ [] := by
  cases c <;> simp [PNode.body, Line.toks]

theorem childLoop_stop (b : Bool) (fuel ci : Nat) (hci : 0 < ci) (acc : List Node) (kp : KeyPos) (e : Token) (r : List Token)
    (p : Option Token) (n : Nat) (la : Token) (w : List Warning) (d : Nat) (wd : List Nat) (s : Bool) (th : Nat) (al : Char → Bool)
    (hs : stopsAt ci e = true) :
    childLoop b (fuel + 1) ci 0 [] acc kp { rest := e :: r, prev := p, pos := n, last := la, warnings := w, depth := d, warned := wd, strict := s, threshold := th, alpha := al }
      = .ok (acc, { rest := e :: r, prev := p, pos := n, last := la, warnings := w, depth := d, warned := wd, strict := s, threshold := th, alpha := al }) := by
  cases b
  · exact blockLoop_stop fuel ci hci acc kp e r p n la w d wd s th al hs
  · exact sectionLoop_stop fuel ci hci acc kp e r p n la w d wd s th al hs

theorem loop_of (pos : Nat → SPos) (F : Nat) (ih : ∀ F' < F, ChildOK pos F') : LoopOK pos F := by
  intro b cs d i st e k acc kp hr hs hc hF
  obtain ⟨rest, p, n, la, w, dp, wd, s, th, al⟩ := st
  simp only at hr hc
  subst hr
  obtain ⟨F', rfl⟩ : ∃ F', F = F' + 1 := ⟨F - 1, by omega⟩
  cases cs with
  | nil =>
    simp only [toksList, List.nil_append]
    rw [childLoop_stop (hci := by omega) (hs := hs)]
    simp only [nodeList, List.append_nil, prevAfterList, List.length_nil, Nat.add_zero, warnsList, List.reverse_nil, List.nil_append]
  | cons c cs =>
    simp only [toksList, indentToks, List.cons_append, List.nil_append, List.append_assoc, wfList, Bool.and_eq_true,
      List.length_cons, List.length_append] at hF hc ⊢
    have hch := ih F' (Nat.lt_succ_self _) b c cs d i (2 * (d + 1))
      { rest := c.body pos (d + 1) i ++ (toksList pos cs (d + 1) (i + c.lines) ++ e :: k), prev := some (indentTok (d + 1) (pos i)),
        pos := n + 1, last := la, warnings := w, depth := dp, warned := wd, strict := s, threshold := th, alpha := al }
      e k acc kp rfl (Nat.le_refl _) hs hc.1 hc.2 (by omega)
    cases b
    · rw [childLoop_false] at hch ⊢
      rw [blockLoop]
      step_simp [indentTok, Nat.lt_irrefl]
      rw [advance_ne (h := body_ne_nil pos c (d + 1) i _)]
      simp only []
      simp only [indentTok] at hch
      rw [hch]
      simp only [prevAfterList]
      have hp : n + 1 + ((c.body pos (d + 1) i).length + (toksList pos cs (d + 1) (i + c.lines)).length)
          = n + ((c.body pos (d + 1) i).length + (toksList pos cs (d + 1) (i + c.lines)).length + 1) := by omega
      rw [hp]
    · rw [childLoop_true] at hch ⊢
      rw [sectionLoop]
      step_simp [indentTok, Nat.lt_irrefl]
      rw [advance_ne (h := body_ne_nil pos c (d + 1) i _)]
      simp only []
      simp only [indentTok] at hch
      rw [hch]
      simp only [prevAfterList]
      have hp : n + 1 + ((c.body pos (d + 1) i).length + (toksList pos cs (d + 1) (i + c.lines)).length)
          = n + ((c.body pos (d + 1) i).length + (toksList pos cs (d + 1) (i + c.lines)).length + 1) := by omega
      rw [hp]


/-- the first token after a node at depth `d` (a sibling's INDENT or first token, or what follows the forest) `stopsAt` depth `d`. -/
theorem cont_head (pos : Nat → SPos) (cs : List PNode) (d i : Nat) (e : Token) (k : List Token)
    (hs : stopsAt (2 * d + 1) e = true) :
    ∃ e' k', toksList pos cs d i ++ e :: k = e' :: k' ∧ stopsAt (2 * d + 1) e' = true := by
  cases cs with
  | nil => exact ⟨e, k, rfl, hs⟩
  | cons c cs =>
    cases d with
    | zero =>
      cases c with
      | line key v => exact ⟨_, _, rfl, by simp [stopsAt, Line.keyTok]⟩
      | block key cs' => exact ⟨_, _, rfl, by simp [stopsAt, hdrKeyTok]⟩
      | sect id key cs' => exact ⟨_, _, rfl, by simp [stopsAt, secTok]⟩
    | succ d => exact ⟨_, _, rfl, by simp [stopsAt, indentTok, indentVal]⟩

theorem prevAfterList_some (pos : Nat → SPos) (t : Token) (cs : List PNode) (i : Nat) :
    prevAfterList pos (some t) cs i = some (lastTokList pos cs t i) := by
  cases cs <;> rfl

theorem prevAfterList_cons (pos : Nat → SPos) (p : Option Token) (c : PNode) (cs : List PNode) (i : Nat) :
    prevAfterList pos p (c :: cs) i = some (lastTokList pos cs (c.lastTok pos i) (i + c.lines)) := rfl

/-- the first token of a block or a section: an IDENTIFIER or a SECTION token. -/
theorem hdr_head (pos : Nat → SPos) (c : PNode) (d i : Nat) (hh : c.isHdr = true) :
    ∃ t r, c.body pos d i = t :: r ∧ (t.type = TT.identifier ∨ t.type = TT.section) := by
  cases c with
  | line key v => cases hh
  | block key cs => exact ⟨_, _, rfl, Or.inl rfl⟩
  | sect id key cs => exact ⟨_, _, rfl, Or.inr rfl⟩

theorem hdr_node_key (pos : Nat → SPos) (c : PNode) (i : Nat) (hh : c.isHdr = true) : nodeAssignKey? (c.node pos i) = none := by
  cases c with
  | line key v => cases hh
  | block key cs => rfl
  | sect id key cs => rfl

theorem hdr_track (kp : KeyPos) (c : PNode) (p : SPos) (hh : c.isHdr = true) : trackNode kp c p = (kp, []) := by
  cases c with
  | line key v => cases hh
  | block key cs => rfl
  | sect id key cs => rfl

theorem child_of (pos : Nat → SPos) (F : Nat) (ihS : ∀ F' < F, HdrOK pos F') (ihL : ∀ F' < F, LoopOK pos F') :
    ChildOK pos F := by
  intro b c cs d i li st e k acc kp hr hli hs hc hcs hF
  have hnlt : ¬ li < 2 * (d + 1) := by omega
  by_cases hh : c.isHdr = true
  · -- a block or a section
    obtain ⟨e', k', hek, hs'⟩ := cont_head pos cs (d + 1) (i + c.lines) e k (stopsAt_mono (by omega) hs)
    rw [hek] at hr
    obtain ⟨rest, p, n, la, w, dp, wd, s, th, al⟩ := st
    simp only at hr hc hcs
    subst hr
    obtain ⟨F', rfl⟩ : ∃ F', F = F' + 1 := ⟨F - 1, by omega⟩
    obtain ⟨t, r, hb, ht⟩ := hdr_head pos c (d + 1) i hh
    have hlen : (c.body pos (d + 1) i).length = r.length + 1 := by rw [hb]; rfl
    have hsec := ihS F' (Nat.lt_succ_self _) c (d + 1) i
      { rest := c.body pos (d + 1) i ++ e' :: k', prev := p, pos := n, last := la, warnings := w, depth := dp,
        warned := wd, strict := s, threshold := th, alpha := al } e' k' hh rfl hs' hc (by omega)
    have hL := ihL F' (Nat.lt_succ_self _) b cs d (i + c.lines)
      { rest := e' :: k', prev := some (c.lastTok pos i), pos := n + (c.body pos (d + 1) i).length, last := la,
        warnings := (c.warns pos i).reverse ++ w, depth := dp, warned := wd, strict := s, threshold := th, alpha := al }
      e k (acc ++ [c.node pos i]) kp hek.symm hs hcs (by omega)
    simp only [hlen] at hL hF ⊢
    rw [hb] at hsec ⊢
    simp only [List.cons_append, List.length_cons] at hsec ⊢
    have h1 : t.type ≠ TT.eof := by rcases ht with h | h <;> rw [h] <;> decide
    have h2 : t.type ≠ TT.envelopeEnd := by rcases ht with h | h <;> rw [h] <;> decide
    have h3 : t.type ≠ TT.indent := by rcases ht with h | h <;> rw [h] <;> decide
    have h4 : t.type ≠ TT.comment := by rcases ht with h | h <;> rw [h] <;> decide
    have h5 : t.type ≠ TT.newline := by rcases ht with h | h <;> rw [h] <;> decide
    have h6 : t.type ≠ TT.fenceOpen := by rcases ht with h | h <;> rw [h] <;> decide
    cases b
    · rw [childLoop_false] at hL ⊢
      rw [blockLoop]
      step_simp [h1, h2, h3, h4, h5, h6, hnlt]
      rw [hsec]
      step_simp [hdr_node_key pos c i hh]
      rw [hL]
      simp only [nodeList, warnsList, hdr_track kp c (pos i) hh, prevAfterList_some, List.append_assoc, List.cons_append,
        List.nil_append, List.reverse_append, Nat.add_assoc]
    · rw [childLoop_true] at hL ⊢
      rw [sectionLoop]
      step_simp [h1, h2, h3, h4, h5, h6, hnlt]
      rw [hsec]
      step_simp [hdr_node_key pos c i hh]
      rw [hL]
      simp only [nodeList, warnsList, hdr_track kp c (pos i) hh, prevAfterList_some, List.append_assoc, List.cons_append,
        List.nil_append, List.reverse_append, Nat.add_assoc]
  · cases c with
    | block key cs' => exact absurd rfl hh
    | sect id key cs' => exact absurd rfl hh
    | line key v =>
      obtain ⟨rest, p, n, la, w, dp, wd, s, th, al⟩ := st
      simp only at hr hc hcs
      subst hr
      have hlen : ((PNode.line key v).body pos (d + 1) i).length = 4 := rfl
      rw [hlen] at hF ⊢
      simp only [PNode.lines] at hF hcs ⊢
      obtain ⟨G, rfl⟩ : ∃ G, F = G + 5 := ⟨F - 5, by omega⟩
      have hL := ihL (G + 3) (by omega) b cs d (i + 1)
        { rest := toksList pos cs (d + 1) (i + 1) ++ e :: k, prev := some (mkLine key v (pos i)).nlTok, pos := n + 3 + 1, last := la,
          warnings := (trackPure kp key (pos i).l).2 ++ ((mkLine key v (pos i)).warns ++ w), depth := dp, warned := wd, strict := s,
          threshold := th, alpha := al }
        e k (acc ++ [(mkLine key v (pos i)).node]) (trackPure kp key (pos i).l).1 rfl hs hcs (by omega)
      simp only [PNode.body, Line.toks, List.cons_append, List.nil_append]
      cases b
      · rw [childLoop_false] at hL ⊢
        rw [blockLoop]
        step_simp [Line.keyTok, hnlt]
        rw [parseSection_flat_line (ln := mkLine key v (pos i)) (fuel := G + 1)
          (k := toksList pos cs (d + 1) (i + 1) ++ e :: k) (hr := rfl)]
        step_simp [Line.node, nodeAssignKey?, trackKey_eq]
        rw [blockLoop]
        step_simp [Line.nlTok]
        rw [advance_ne (h := by simp)]
        simp only []
        simp only [Line.node, Line.nlTok, mkLine] at hL ⊢
        rw [hL]
        simp only [nodeList, PNode.node, PNode.lines, PNode.lastTok, Line.node, Line.nlTok, warnsList, PNode.warns, trackNode, mkLine,
          prevAfterList_some, List.append_assoc, List.cons_append, List.nil_append, List.reverse_append,
          trackPure_warns_reverse, Line.warns_reverse]
        have hp : n + 3 + 1 + (toksList pos cs (d + 1) (i + 1)).length = n + (4 + (toksList pos cs (d + 1) (i + 1)).length) := by omega
        rw [hp]
      · rw [childLoop_true] at hL ⊢
        rw [sectionLoop]
        step_simp [Line.keyTok, hnlt]
        rw [parseSection_flat_line (ln := mkLine key v (pos i)) (fuel := G + 1)
          (k := toksList pos cs (d + 1) (i + 1) ++ e :: k) (hr := rfl)]
        step_simp [Line.node, nodeAssignKey?, trackKey_eq]
        rw [sectionLoop]
        step_simp [Line.nlTok]
        rw [advance_ne (h := by simp)]
        simp only []
        simp only [Line.node, Line.nlTok, mkLine] at hL ⊢
        rw [hL]
        simp only [nodeList, PNode.node, PNode.lines, PNode.lastTok, Line.node, Line.nlTok, warnsList, PNode.warns, trackNode, mkLine,
          prevAfterList_some, List.append_assoc, List.cons_append, List.nil_append, List.reverse_append,
          trackPure_warns_reverse, Line.warns_reverse]
        have hp : n + 3 + 1 + (toksList pos cs (d + 1) (i + 1)).length = n + (4 + (toksList pos cs (d + 1) (i + 1)).length) := by omega
        rw [hp]


/-- `advance` over a token followed by the tokens of a node. -/
theorem advance_body (pos : Nat → SPos) (c : PNode) (d' i' : Nat) (X : List Token) (t : Token) (p : Option Token) (n : Nat) (la : Token)
    (w : List Warning) (d : Nat) (wd : List Nat) (s : Bool) (th : Nat) (al : Char → Bool) :
    advance { rest := t :: (c.body pos d' i' ++ X), prev := p, pos := n, last := la, warnings := w, depth := d, warned := wd, strict := s, threshold := th, alpha := al }
      = .ok (t, { rest := c.body pos d' i' ++ X, prev := some t, pos := n + 1, last := la, warnings := w, depth := d, warned := wd, strict := s, threshold := th, alpha := al }) :=
  advance_ne (h := body_ne_nil pos c d' i' X) ..

theorem consumeBracketAnnotation_none (b : Bool) (fuel : Nat) (t : Token) (r : List Token) (p : Option Token) (n : Nat) (la : Token)
    (w : List Warning) (d : Nat) (wd : List Nat) (s : Bool) (th : Nat) (al : Char → Bool) (h : t.type ≠ TT.listStart) :
    consumeBracketAnnotation b fuel { rest := t :: r, prev := p, pos := n, last := la, warnings := w, depth := d, warned := wd, strict := s, threshold := th, alpha := al }
      = .ok (none, { rest := t :: r, prev := p, pos := n, last := la, warnings := w, depth := d, warned := wd, strict := s, threshold := th, alpha := al }) := by
  unfold consumeBracketAnnotation
  step_simp [h]

theorem pyStrVal_int (i : Int) : pyStrVal (.int i) = intStr i := rfl

theorem wf_sect_nil {al : Char → Bool} {pos : Nat → SPos} {id : PId} {key : Str} {d i : Nat}
    (h : (PNode.sect id key []).wf al pos d i = true) : id.letterOk al = true ∧ 2 * d ≤ (pos i).c0 - 1 := by
  simpa [PNode.wf, wfList] using h

theorem wf_sect_cons {al : Char → Bool} {pos : Nat → SPos} {id : PId} {key : Str} {c : PNode} {cs : List PNode} {d i : Nat}
    (h : (PNode.sect id key (c :: cs)).wf al pos d i = true) :
    id.letterOk al = true ∧ (pos i).c0 - 1 < 2 * (d + 1) ∧ c.wf al pos (d + 1) (i + 1) = true ∧
      wfList al pos cs (d + 1) (i + 1 + c.lines) = true := by
  simpa [PNode.wf, wfList, and_assoc] using h

/-- the header line of a section up to (not including) the NEWLINE. -/
local macro "sect_hdr" "[" ts:Lean.Parser.Tactic.simpLemma,* "]" : tactic =>
  `(tactic| (rw [parseSection]; step_simp [secTok]; rw [parseSectionMarker];
             step_simp [expect, idNumTok, idNameTok, idLetterTok, secAssignTok, secNameTok, hdrNlTok, pyStrVal_str, pyStrVal_int, $ts,*];
             rw [consumeBracketAnnotation_none (h := by simp)]; step_simp []))

set_option hygiene false in
/-- a section without children: what follows is not an INDENT deeper than the marker. -/
local macro "sect_nil_tail" : tactic =>
  `(tactic| (
    rw [skipWhitespace_newline (h := rfl) (h1 := h1) (h2 := h2)]
    step_simp []
    rw [preIndentComments_stop (h1 := h2) (h2 := h1)]
    step_simp []
    by_cases hi : e.type = TT.indent
    · have h5 : indentVal e < 2 * d + 1 := by
        rcases h4 with h | h
        · exact absurd hi h
        · exact h
      cases hv : e.value with
      | nat m =>
        simp only [indentVal, hv] at h5
        have h6 : ¬ (m > (pos i).c0 - 1) := by omega
        step_simp [hi, h6, set_mk, List.isEmpty_nil]
        simp only [PNode.node, nodeList, PNode.lastTok, lastTokList, PNode.warns, warnsList, List.reverse_nil, List.nil_append, hdrNlTok, PId.str]
      | _ =>
        step_simp [hi, set_mk, gt_iff_lt, Nat.not_lt_zero, List.isEmpty_nil]
        simp only [PNode.node, nodeList, PNode.lastTok, lastTokList, PNode.warns, warnsList, List.reverse_nil, List.nil_append, hdrNlTok, PId.str]
    · step_simp [hi, set_mk, List.isEmpty_nil]
      simp only [PNode.node, nodeList, PNode.lastTok, lastTokList, PNode.warns, warnsList, List.reverse_nil, List.nil_append, hdrNlTok, PId.str]
))

theorem hdr_sect_nil (pos : Nat → SPos) (F : Nat) (id : PId) (key : Str) (d i : Nat) (e : Token) (k : List Token)
    (p : Option Token) (n : Nat) (la : Token) (w : List Warning) (dp : Nat) (wd : List Nat) (s : Bool) (th : Nat) (al : Char → Bool)
    (hs : stopsAt (2 * d + 1) e = true)
    (hc : (PNode.sect id key []).wf al pos d i = true)
    (hF : ((PNode.sect id key []).body pos d i).length ≤ F) :
    parseSection F [] ({ rest := (PNode.sect id key []).body pos d i ++ e :: k, prev := p, pos := n, last := la, warnings := w, depth := dp, warned := wd, strict := s, threshold := th, alpha := al } : PState)
      = .ok (some ((PNode.sect id key []).node pos i),
         { rest := e :: k, prev := some ((PNode.sect id key []).lastTok pos i), pos := n + ((PNode.sect id key []).body pos d i).length, last := la,
           warnings := ((PNode.sect id key []).warns pos i).reverse ++ w, depth := dp, warned := wd, strict := s, threshold := th, alpha := al }) := by
  have hs0 := hs
  simp only [stopsAt, Bool.and_eq_true, Bool.or_eq_true, bne_iff_ne, ne_eq, decide_eq_true_eq] at hs0
  obtain ⟨⟨⟨h1, h2⟩, h3⟩, h4⟩ := hs0
  obtain ⟨hlet, hcol⟩ := wf_sect_nil hc
  cases id with
  | num i0 raw =>
    simp only [PNode.body, PId.toks, toksList, List.cons_append, List.nil_append, List.length_cons, List.length_nil] at hF ⊢
    obtain ⟨F', rfl⟩ : ∃ F', F = F' + 2 := ⟨F - 2, by omega⟩
    sect_hdr []
    sect_nil_tail
  | name s0 =>
    simp only [PNode.body, PId.toks, toksList, List.cons_append, List.nil_append, List.length_cons, List.length_nil] at hF ⊢
    obtain ⟨F', rfl⟩ : ∃ F', F = F' + 2 := ⟨F - 2, by omega⟩
    sect_hdr []
    sect_nil_tail
  | numLetter i0 raw c0 =>
    simp only [PId.letterOk] at hlet
    simp only [PNode.body, PId.toks, toksList, List.cons_append, List.nil_append, List.length_cons, List.length_nil] at hF ⊢
    obtain ⟨F', rfl⟩ : ∃ F', F = F' + 2 := ⟨F - 2, by omega⟩
    sect_hdr [hlet]
    sect_nil_tail


set_option hygiene false in
/-- a section with children: the first child's INDENT is deeper than the marker; the child loop does the rest. -/
local macro "sect_cons_tail" : tactic =>
  `(tactic| (
    rw [skipWhitespace_newline (h := rfl) (h1 := by simp [indentTok]) (h2 := by simp [indentTok])]
    step_simp []
    rw [preIndentComments_stop (h1 := by simp [indentTok]) (h2 := by simp [indentTok])]
    have h6 : 2 * (d + 1) > (pos i).c0 - 1 := hcol
    step_simp [indentTok, h6, advance_body, List.isEmpty_nil]
    rw [hch]
    simp only [PNode.node, nodeList, PNode.lastTok, lastTokList, PNode.warns, warnsList, List.nil_append, PId.str]
    apply ok_pos_congr
    omega))

theorem hdr_sect_cons (pos : Nat → SPos) (F : Nat) (ih : ∀ F' < F, ChildOK pos F') (id : PId) (key : Str) (c : PNode) (cs : List PNode)
    (d i : Nat) (e : Token) (k : List Token)
    (p : Option Token) (n : Nat) (la : Token) (w : List Warning) (dp : Nat) (wd : List Nat) (s : Bool) (th : Nat) (al : Char → Bool)
    (hs : stopsAt (2 * d + 1) e = true)
    (hc : (PNode.sect id key (c :: cs)).wf al pos d i = true)
    (hF : ((PNode.sect id key (c :: cs)).body pos d i).length ≤ F) :
    parseSection F [] ({ rest := (PNode.sect id key (c :: cs)).body pos d i ++ e :: k, prev := p, pos := n, last := la, warnings := w, depth := dp, warned := wd, strict := s, threshold := th, alpha := al } : PState)
      = .ok (some ((PNode.sect id key (c :: cs)).node pos i),
         { rest := e :: k, prev := some ((PNode.sect id key (c :: cs)).lastTok pos i), pos := n + ((PNode.sect id key (c :: cs)).body pos d i).length, last := la,
           warnings := ((PNode.sect id key (c :: cs)).warns pos i).reverse ++ w, depth := dp, warned := wd, strict := s, threshold := th, alpha := al }) := by
  obtain ⟨hlet, hcol, hc2, hc3⟩ := wf_sect_cons hc
  cases id with
  | num i0 raw =>
    simp only [PNode.body, PId.toks, toksList, indentToks, List.cons_append, List.nil_append, List.append_assoc, List.length_cons,
      List.length_append] at hF ⊢
    obtain ⟨F', rfl⟩ : ∃ F', F = F' + 2 := ⟨F - 2, by omega⟩
    have hch := ih F' (by omega) true c cs d (i + 1) (2 * (d + 1))
      { rest := c.body pos (d + 1) (i + 1) ++ (toksList pos cs (d + 1) (i + 1 + c.lines) ++ e :: k),
        prev := some (indentTok (d + 1) (pos (i + 1))), pos := n + 1 + 1 + 1 + 1 + 1 + 1, last := la, warnings := w, depth := dp,
        warned := wd, strict := s, threshold := th, alpha := al }
      e k [] [] rfl (Nat.le_refl _) (stopsAt_mono (by omega) hs) hc2 hc3 (by omega)
    rw [childLoop_true] at hch
    simp only [indentTok] at hch
    sect_hdr []
    sect_cons_tail
  | name s0 =>
    simp only [PNode.body, PId.toks, toksList, indentToks, List.cons_append, List.nil_append, List.append_assoc, List.length_cons,
      List.length_append] at hF ⊢
    obtain ⟨F', rfl⟩ : ∃ F', F = F' + 2 := ⟨F - 2, by omega⟩
    have hch := ih F' (by omega) true c cs d (i + 1) (2 * (d + 1))
      { rest := c.body pos (d + 1) (i + 1) ++ (toksList pos cs (d + 1) (i + 1 + c.lines) ++ e :: k),
        prev := some (indentTok (d + 1) (pos (i + 1))), pos := n + 1 + 1 + 1 + 1 + 1 + 1, last := la, warnings := w, depth := dp,
        warned := wd, strict := s, threshold := th, alpha := al }
      e k [] [] rfl (Nat.le_refl _) (stopsAt_mono (by omega) hs) hc2 hc3 (by omega)
    rw [childLoop_true] at hch
    simp only [indentTok] at hch
    sect_hdr []
    sect_cons_tail
  | numLetter i0 raw c0 =>
    simp only [PId.letterOk] at hlet
    simp only [PNode.body, PId.toks, toksList, indentToks, List.cons_append, List.nil_append, List.append_assoc, List.length_cons,
      List.length_append] at hF ⊢
    obtain ⟨F', rfl⟩ : ∃ F', F = F' + 2 := ⟨F - 2, by omega⟩
    have hch := ih F' (by omega) true c cs d (i + 1) (2 * (d + 1))
      { rest := c.body pos (d + 1) (i + 1) ++ (toksList pos cs (d + 1) (i + 1 + c.lines) ++ e :: k),
        prev := some (indentTok (d + 1) (pos (i + 1))), pos := n + 1 + 1 + 1 + 1 + 1 + 1 + 1, last := la, warnings := w, depth := dp,
        warned := wd, strict := s, threshold := th, alpha := al }
      e k [] [] rfl (Nat.le_refl _) (stopsAt_mono (by omega) hs) hc2 hc3 (by omega)
    rw [childLoop_true] at hch
    simp only [indentTok] at hch
    sect_hdr [hlet]
    sect_cons_tail


theorem wf_block_nil {al : Char → Bool} {pos : Nat → SPos} {key : Str} {d i : Nat}
    (h : (PNode.block key []).wf al pos d i = true) : 2 * d ≤ (pos i).c1 - 1 := by
  simpa [PNode.wf, wfList] using h

theorem wf_block_cons {al : Char → Bool} {pos : Nat → SPos} {key : Str} {c : PNode} {cs : List PNode} {d i : Nat}
    (h : (PNode.block key (c :: cs)).wf al pos d i = true) :
    (pos i).c1 - 1 < 2 * (d + 1) ∧ c.wf al pos (d + 1) (i + 1) = true ∧ wfList al pos cs (d + 1) (i + 1 + c.lines) = true := by
  simpa [PNode.wf, wfList, and_assoc] using h

theorem hdr_block (pos : Nat → SPos) (F : Nat) (ih : ∀ F' < F, ChildOK pos F') (key : Str) (cs : List PNode)
    (d i : Nat) (e : Token) (k : List Token)
    (p : Option Token) (n : Nat) (la : Token) (w : List Warning) (dp : Nat) (wd : List Nat) (s : Bool) (th : Nat) (al : Char → Bool)
    (hs : stopsAt (2 * d + 1) e = true)
    (hc : (PNode.block key cs).wf al pos d i = true)
    (hF : ((PNode.block key cs).body pos d i).length ≤ F) :
    parseSection F [] ({ rest := (PNode.block key cs).body pos d i ++ e :: k, prev := p, pos := n, last := la, warnings := w, depth := dp, warned := wd, strict := s, threshold := th, alpha := al } : PState)
      = .ok (some ((PNode.block key cs).node pos i),
         { rest := e :: k, prev := some ((PNode.block key cs).lastTok pos i), pos := n + ((PNode.block key cs).body pos d i).length, last := la,
           warnings := ((PNode.block key cs).warns pos i).reverse ++ w, depth := dp, warned := wd, strict := s, threshold := th, alpha := al }) := by
  have hs0 := hs
  simp only [stopsAt, Bool.and_eq_true, Bool.or_eq_true, bne_iff_ne, ne_eq, decide_eq_true_eq] at hs0
  obtain ⟨⟨⟨h1, h2⟩, h3⟩, h4⟩ := hs0
  cases cs with
  | nil =>
    have hc := wf_block_nil hc
    simp only [PNode.body, toksList, List.cons_append, List.nil_append, List.length_cons, List.length_nil] at hF ⊢
    obtain ⟨F', rfl⟩ : ∃ F', F = F' + 1 := ⟨F - 1, by omega⟩
    rw [parseSection]
    step_simp [hdrKeyTok, hdrBlockTok, hdrNlTok, pyStrVal_str]
    rw [skipWhitespace_newline (h := rfl) (h1 := h1) (h2 := h2)]
    step_simp []
    rw [preIndentComments_stop (h1 := h2) (h2 := h1)]
    step_simp []
    have hfin : n + 1 + 1 + 1 = n + (0 + 1 + 1 + 1) := by omega
    by_cases hi : e.type = TT.indent
    · have h5 : indentVal e < 2 * d + 1 := by
        rcases h4 with h | h
        · exact absurd hi h
        · exact h
      cases hv : e.value with
      | nat m =>
        simp only [indentVal, hv] at h5
        have h6 : ¬ (m > (pos i).c1 - 1) := by omega
        step_simp [hi, h3, h6, set_mk, decide_false, eq_self, Option.isSome_none]
        simp only [PNode.node, nodeList, PNode.lastTok, lastTokList, PNode.warns, warnsList, List.reverse_nil, List.nil_append, hdrNlTok, hfin]
      | _ =>
        step_simp [hi, h3, set_mk, decide_false, eq_self, Option.isSome_none, gt_iff_lt, Nat.not_lt_zero]
        simp only [PNode.node, nodeList, PNode.lastTok, lastTokList, PNode.warns, warnsList, List.reverse_nil, List.nil_append, hdrNlTok, hfin]
    · have hib : (e.type == TT.indent) = false := by simp [hi]
      step_simp [hi, hib, h3, set_mk, decide_false, eq_self, Option.isSome_none]
      simp only [PNode.node, nodeList, PNode.lastTok, lastTokList, PNode.warns, warnsList, List.reverse_nil, List.nil_append, hdrNlTok, hfin]
  | cons c cs =>
    obtain ⟨hc1, hc2, hc3⟩ := wf_block_cons hc
    simp only [PNode.body, toksList, indentToks, List.cons_append, List.nil_append, List.append_assoc, List.length_cons,
      List.length_append] at hF ⊢
    obtain ⟨F', rfl⟩ : ∃ F', F = F' + 1 := ⟨F - 1, by omega⟩
    have hch := ih F' (Nat.lt_succ_self _) false c cs d (i + 1) (2 * (d + 1))
      { rest := c.body pos (d + 1) (i + 1) ++ (toksList pos cs (d + 1) (i + 1 + c.lines) ++ e :: k),
        prev := some (indentTok (d + 1) (pos (i + 1))), pos := n + 1 + 1 + 1 + 1, last := la, warnings := w, depth := dp,
        warned := wd, strict := s, threshold := th, alpha := al }
      e k [] [] rfl (Nat.le_refl _) (stopsAt_mono (by omega) hs) hc2 hc3 (by omega)
    rw [childLoop_false] at hch
    simp only [indentTok] at hch
    rw [parseSection]
    step_simp [hdrKeyTok, hdrBlockTok, hdrNlTok, pyStrVal_str]
    rw [skipWhitespace_newline (h := rfl) (h1 := by simp [indentTok]) (h2 := by simp [indentTok])]
    step_simp []
    rw [preIndentComments_stop (h1 := by simp [indentTok]) (h2 := by simp [indentTok])]
    have h6 : 2 * (d + 1) > (pos i).c1 - 1 := hc1
    step_simp [indentTok, h6, decide_true, Option.isSome_none, advance_body]
    rw [hch]
    simp only [PNode.node, nodeList, PNode.lastTok, lastTokList, PNode.warns, warnsList, List.nil_append]
    apply ok_pos_congr
    omega

theorem hdr_of (pos : Nat → SPos) (F : Nat) (ih : ∀ F' < F, ChildOK pos F') : HdrOK pos F := by
  intro c d i st e k hh hr hs hc hF
  obtain ⟨rest, p, n, la, w, dp, wd, s, th, al⟩ := st
  simp only at hr hc
  subst hr
  cases c with
  | line key v => cases hh
  | block key cs => exact hdr_block pos F ih key cs d i e k p n la w dp wd s th al hs hc hF
  | sect id key cs =>
    cases cs with
    | nil => exact hdr_sect_nil pos F id key d i e k p n la w dp wd s th al hs hc hF
    | cons c cs => exact hdr_sect_cons pos F ih id key c cs d i e k p n la w dp wd s th al hs hc hF

/-- all three statements hold for every fuel (strong induction on the fuel; the fuel bounds inside the statements
make every recursive call land on a smaller fuel that is still large enough). -/
theorem all_ok (pos : Nat → SPos) (F : Nat) : HdrOK pos F ∧ ChildOK pos F ∧ LoopOK pos F := by
  induction F using Nat.strongRecOn with
  | _ F ih =>
    have hC : ∀ F' < F, ChildOK pos F' := fun F' h => (ih F' h).2.1
    exact ⟨hdr_of pos F hC, child_of pos F (fun F' h => (ih F' h).1) (fun F' h => (ih F' h).2.2), loop_of pos F hC⟩


/-- **`parse_section` on a block or a section** of any depth and width, at any depth `d`, at arbitrary token positions
(subject to `wf`), followed by a token `e` that is not deeper than the node (`stopsAt (2 * d + 1) e`), with fuel at least
the number of the node's tokens: returns the Block / Section node with exactly the children (for a section: the id string,
the name, no annotation), leaves the cursor on `e`; `warnings` grows by exactly `warns`; everything else unchanged. -/
theorem parseSection_node (pos : Nat → SPos) (c : PNode) (d i : Nat) (st : PState) (e : Token) (k : List Token)
    (F : Nat) (hh : c.isHdr = true) (hr : st.rest = c.body pos d i ++ e :: k) (hs : stopsAt (2 * d + 1) e = true)
    (hc : c.wf st.alpha pos d i = true) (hF : (c.body pos d i).length ≤ F) :
    parseSection F [] st = .ok (some (c.node pos i),
      { st with rest := e :: k, prev := some (c.lastTok pos i),
                pos := st.pos + (c.body pos d i).length,
                warnings := (c.warns pos i).reverse ++ st.warnings }) :=
  (all_ok pos F).1 c d i st e k hh hr hs hc hF

/-- **the child loop of a section (`b = true`) or of a block (`b = false`)** from the start of a line, on any forest of
children at depth `d + 1`. -/
theorem childLoop_forest (pos : Nat → SPos) (b : Bool) (cs : List PNode) (d i : Nat) (st : PState) (e : Token) (k : List Token)
    (acc : List Node) (kp : KeyPos) (F : Nat)
    (hr : st.rest = toksList pos cs (d + 1) i ++ e :: k) (hs : stopsAt (2 * (d + 1)) e = true)
    (hc : wfList st.alpha pos cs (d + 1) i = true) (hF : (toksList pos cs (d + 1) i).length + 1 ≤ F) :
    childLoop b F (2 * (d + 1)) 0 [] acc kp st = .ok (acc ++ nodeList pos cs i,
      { st with rest := e :: k, prev := prevAfterList pos st.prev cs i,
                pos := st.pos + (toksList pos cs (d + 1) i).length,
                warnings := (warnsList pos cs kp i).reverse ++ st.warnings }) :=
  (all_ok pos F).2.2 b cs d i st e k acc kp hr hs hc hF

/-! ## The body loop of `parseDocument` on a forest (lines, blocks and sections mixed) -/

theorem docLoop_sect (pos : Nat → SPos) (vf : Nat) (nodes : List PNode) (e : Token) (tail : List Token)
    (he : e.type = .envelopeEnd ∨ e.type = .eof) (i : Nat) (st : PState) (acc : List Node) (kp : KeyPos) (extra : Nat)
    (hr : st.rest = toksList pos nodes 0 i ++ e :: tail)
    (hc : wfList st.alpha pos nodes 0 i = true)
    (hvf : (toksList pos nodes 0 i).length + 3 ≤ vf) :
    docLoop vf (2 * nodes.length + 1 + extra) [] acc kp st
      = .ok ((acc ++ nodeList pos nodes i, []),
             { st with rest := e :: tail, prev := prevAfterList pos st.prev nodes i,
                       pos := st.pos + (toksList pos nodes 0 i).length,
                       warnings := (warnsList pos nodes kp i).reverse ++ st.warnings }) := by
  have hse : stopsAt 1 e = true := by
    rcases he with h | h <;> simp [stopsAt, h]
  induction nodes generalizing st acc kp i extra with
  | nil =>
    obtain ⟨rest, p, n, la, w, dp, wd, s, th, al⟩ := st
    simp only [toksList, List.nil_append] at hr
    subst hr
    have hf : 2 * ([] : List PNode).length + 1 + extra = extra + 1 := by simp only [List.length_nil]; omega
    rw [hf, docLoop]
    step_simp [he]
    simp only [nodeList, List.append_nil, prevAfterList, toksList, List.length_nil, Nat.add_zero, warnsList, List.reverse_nil,
      List.nil_append]
  | cons c r ih =>
    have hf : 2 * (c :: r).length + 1 + extra = (2 * r.length + 1 + extra) + 1 + 1 := by
      simp only [List.length_cons]; omega
    simp only [wfList, Bool.and_eq_true] at hc
    rw [hf]
    by_cases hh : c.isHdr = true
    · obtain ⟨e', k', hek, hs'⟩ := cont_head pos r 0 (i + c.lines) e tail hse
      simp only [toksList, indentToks, List.nil_append, List.append_assoc] at hr hvf
      rw [hek] at hr
      obtain ⟨rest, p, n, la, w, dp, wd, s, th, al⟩ := st
      simp only at hr hc
      subst hr
      have hsec := parseSection_node pos c 0 i
        { rest := c.body pos 0 i ++ e' :: k', prev := p, pos := n, last := la, warnings := w, depth := dp,
          warned := wd, strict := s, threshold := th, alpha := al } e' k' vf hh rfl hs' hc.1
          (by simp only [List.length_append] at hvf; omega)
      obtain ⟨t, rr, hb, ht⟩ := hdr_head pos c 0 i hh
      have hlen : (c.body pos 0 i).length = rr.length + 1 := by rw [hb]; rfl
      have h1 : t.type ≠ TT.eof := by rcases ht with h | h <;> rw [h] <;> decide
      have h2 : t.type ≠ TT.envelopeEnd := by rcases ht with h | h <;> rw [h] <;> decide
      have h3 : t.type ≠ TT.indent := by rcases ht with h | h <;> rw [h] <;> decide
      have h4 : t.type ≠ TT.comment := by rcases ht with h | h <;> rw [h] <;> decide
      have h5 : t.type ≠ TT.newline := by rcases ht with h | h <;> rw [h] <;> decide
      have hfm : 2 * r.length + 1 + extra + 1 = 2 * r.length + 1 + (extra + 1) := by omega
      have hrest := ih (i + c.lines)
        { rest := e' :: k', prev := some (c.lastTok pos i), pos := n + (c.body pos 0 i).length, last := la,
          warnings := (c.warns pos i).reverse ++ w, depth := dp, warned := wd, strict := s, threshold := th, alpha := al }
        (acc ++ [c.node pos i]) kp (extra + 1) hek.symm hc.2 (by simp only [List.length_append] at hvf; omega)
      rw [docLoop]
      simp only [hlen] at hrest
      rw [hb] at hsec ⊢
      simp only [List.cons_append, List.length_cons] at hsec ⊢
      step_simp [h1, h2, h3, h4, h5]
      rw [hsec]
      step_simp [hdr_node_key pos c i hh]
      rw [hfm, hrest]
      simp only [nodeList, warnsList, hdr_track kp c (pos i) hh, toksList, indentToks,
        prevAfterList_some, prevAfterList_cons, List.append_assoc, List.cons_append, List.nil_append, List.reverse_append,
        List.length_cons, List.length_append, hb]
      apply ok_pos_congr
      omega
    · cases c with
      | block key cs' => exact absurd rfl hh
      | sect id key cs' => exact absurd rfl hh
      | line key v =>
        obtain ⟨rest, p, n, la, w, dp, wd, s, th, al⟩ := st
        simp only at hr hc
        subst hr
        simp only [toksList, indentToks, PNode.body, Line.toks, PNode.lines, List.nil_append, List.cons_append, List.length_cons] at hvf ⊢
        obtain ⟨vf0, rfl⟩ : ∃ vf0, vf = vf0 + 3 := ⟨vf - 3, by omega⟩
        rw [docLoop]
        step_simp [Line.keyTok]
        rw [parseSection_flat_line (ln := mkLine key v (pos i)) (fuel := vf0)
          (k := toksList pos r 0 (i + 1) ++ e :: tail) (hr := rfl)]
        step_simp [Line.node, nodeAssignKey?, trackKey_eq]
        rw [docLoop]
        step_simp [Line.nlTok]
        rw [advance_ne (h := by simp)]
        simp only []
        rw [ih (i + 1) _ _ _ extra rfl hc.2 (by omega)]
        simp only [nodeList, PNode.node, PNode.lines, PNode.lastTok, Line.node, Line.nlTok, warnsList, PNode.warns, trackNode, mkLine,
          prevAfterList_some, prevAfterList_cons, List.append_assoc, List.cons_append, List.nil_append, List.reverse_append,
          trackPure_warns_reverse, Line.warns_reverse]
        have hp : n + 3 + 1 + (toksList pos r 0 (i + 1)).length = n + ((toksList pos r 0 (i + 1)).length + 1 + 1 + 1 + 1) := by omega
        rw [hp]

/-- `docLoop_sect` with fuel given by lower bounds. -/
theorem docLoop_sect' (pos : Nat → SPos) (vf fuel : Nat) (nodes : List PNode) (e : Token) (tail : List Token)
    (he : e.type = .envelopeEnd ∨ e.type = .eof) (i : Nat) (st : PState) (acc : List Node) (kp : KeyPos)
    (hr : st.rest = toksList pos nodes 0 i ++ e :: tail)
    (hc : wfList st.alpha pos nodes 0 i = true)
    (hvf : (toksList pos nodes 0 i).length + 3 ≤ vf) (hfuel : 2 * nodes.length + 1 ≤ fuel) :
    docLoop vf fuel [] acc kp st
      = .ok ((acc ++ nodeList pos nodes i, []),
             { st with rest := e :: tail, prev := prevAfterList pos st.prev nodes i,
                       pos := st.pos + (toksList pos nodes 0 i).length,
                       warnings := (warnsList pos nodes kp i).reverse ++ st.warnings }) := by
  obtain ⟨extra, rfl⟩ : ∃ extra, fuel = 2 * nodes.length + 1 + extra := ⟨fuel - (2 * nodes.length + 1), by omega⟩
  exact docLoop_sect pos vf nodes e tail he i st acc kp extra hr hc hvf

/-- every node has at least one token. -/
theorem length_le_toks (pos : Nat → SPos) (nodes : List PNode) (d i : Nat) : nodes.length ≤ (toksList pos nodes d i).length := by
  induction nodes generalizing i with
  | nil => simp [toksList]
  | cons c r ih =>
    have := ih (i + c.lines)
    have hb : 1 ≤ (c.body pos d i).length := by
      cases c <;> simp [PNode.body, Line.toks]
    simp only [toksList, List.length_append, List.length_cons]
    omega

/-! ## `parseDocument` on a whole document with sections -/

/-- the token list of the document: envelope line, the forest at depth 0 (body lines numbered from 0), `===END===`. -/
def sectToks (f : Frame) (name : Str) (pos : Nat → SPos) (nodes : List PNode) : List Token :=
  f.envTok name :: f.nl0Tok :: (toksList pos nodes 0 0 ++ [f.endTok, f.nl1Tok, f.eofTok])

/-- the document it denotes (all other fields at their defaults). -/
def sectDoc (name : Str) (pos : Nat → SPos) (nodes : List PNode) : Document := { name := name, sections := nodeList pos nodes 0 }

/-- the first top-level node is a line or a block keyed `META` (then `parse_document` reads a META block, not a section);
a section marker never is: its first token is the SECTION token. -/
def metaFirstS : List PNode → Bool
  | .line key _ :: _ => key == "META".toList
  | .block key _ :: _ => key == "META".toList
  | _ => false

/-- what follows the envelope line: the first token of the body (not a `META` key) or `===END===`. -/
theorem sect_body_head (f : Frame) (pos : Nat → SPos) (nodes : List PNode) (hm : metaFirstS nodes = false) :
    ∃ u K, toksList pos nodes 0 0 ++ [f.endTok, f.nl1Tok, f.eofTok] = u :: K ∧
      u.type ≠ TT.newline ∧ u.type ≠ TT.comment ∧ u.type ≠ TT.separator ∧ u.type ≠ TT.grammarSentinel ∧
      u.type ≠ TT.envelopeStart ∧ ¬(u.type = TT.identifier ∧ u.value = TVal.str "META".toList) := by
  cases nodes with
  | nil => exact ⟨f.endTok, _, rfl, by simp [Frame.endTok], by simp [Frame.endTok], by simp [Frame.endTok], by simp [Frame.endTok], by simp [Frame.endTok], fun h => by cases h.1⟩
  | cons c r =>
    cases c with
    | line key v =>
      simp only [metaFirstS, beq_eq_false_iff_ne, ne_eq] at hm
      refine ⟨(mkLine key v (pos 0)).keyTok, _, rfl, by simp [Line.keyTok], by simp [Line.keyTok], by simp [Line.keyTok], by simp [Line.keyTok], by simp [Line.keyTok], fun h => ?_⟩
      have := h.2
      simp only [Line.keyTok, mkLine, TVal.str.injEq] at this
      exact hm this
    | block key cs =>
      simp only [metaFirstS, beq_eq_false_iff_ne, ne_eq] at hm
      refine ⟨hdrKeyTok key (pos 0), _, rfl, by simp [hdrKeyTok], by simp [hdrKeyTok], by simp [hdrKeyTok], by simp [hdrKeyTok], by simp [hdrKeyTok], fun h => ?_⟩
      have := h.2
      simp only [hdrKeyTok, TVal.str.injEq] at this
      exact hm this
    | sect id key cs =>
      exact ⟨secTok (pos 0), _, rfl, by simp [secTok], by simp [secTok], by simp [secTok], by simp [secTok], by simp [secTok], fun h => by cases h.1⟩

theorem parseDocument_sect (f : Frame) (name : Str) (pos : Nat → SPos) (nodes : List PNode) (st : PState)
    (hm : metaFirstS nodes = false) (hc : wfList st.alpha pos nodes 0 0 = true) (hr : st.rest = sectToks f name pos nodes) :
    parseDocument st
      = .ok (sectDoc name pos nodes,
             { st with rest := [f.nl1Tok, f.eofTok], prev := some f.endTok, pos := st.pos + (toksList pos nodes 0 0).length + 3,
                       warnings := (warnsList pos nodes [] 0).reverse ++ st.warnings }) := by
  obtain ⟨u, K, hK, h1, h2, h3, h4, h5, h6⟩ := sect_body_head f pos nodes hm
  have hlen : (toksList pos nodes 0 0).length + 2 = K.length := by
    have := congrArg List.length hK
    simp only [List.length_append, List.length_cons, List.length_nil] at this
    omega
  have hnl := length_le_toks pos nodes 0 0
  have hst : st = { st with rest := f.envTok name :: f.nl0Tok :: u :: K } := by rw [← hK, ← sectToks, ← hr]
  rw [hst]
  unfold parseDocument
  simp (config := {zeta := false}) only [bind, StateT.bind, Except.bind, budget_mk]
  extract_lets n doc0 jp5 jp4 jp3 jp2 jp1
  step_simp [Frame.envTok, Frame.nl0Tok, skipWhitespace_stop]
  simp only [jp1]
  step_simp []
  simp only [jp2]
  step_simp [skipWhitespace_newline, pyStrVal_str, h1, h2]
  simp only [jp3]
  step_simp [h6]
  simp only [jp4]
  step_simp [h3]
  simp only [jp5]
  step_simp []
  rw [docLoop_sect' (pos := pos) (nodes := nodes) (e := f.endTok) (tail := [f.nl1Tok, f.eofTok]) (he := Or.inl rfl) (i := 0)
    (hr := hK.symm)
    (hvf := by simp only [n, List.length_cons]; omega) (hfuel := by simp only [n, List.length_cons]; omega)]
  · step_simp [Frame.endTok]
    have hp : st.pos + 1 + 1 + (toksList pos nodes 0 0).length + 1 = st.pos + (toksList pos nodes 0 0).length + 3 := by omega
    rw [hp, List.nil_append]
    rfl
  · exact hc


/-! ## When the reader is silent -/

/-- keys of the Assignment children of a forest (the keys the duplicate-key check of that level sees). -/
def lineKeys : List PNode → List Str
  | [] => []
  | .line key _ :: cs => key :: lineKeys cs
  | .block _ _ :: cs => lineKeys cs
  | .sect _ _ _ :: cs => lineKeys cs

mutual
/-- no warning arises below the node: no bare word under `PATTERN`/`REGEX`, no Assignment key repeated within one block or section. -/
def PNode.quiet : PNode → Bool
  | .line key v => !(v.isWord && (key == "PATTERN".toList || key == "REGEX".toList))
  | .block _ cs => quietList cs && decide (lineKeys cs).Nodup
  | .sect _ _ cs => quietList cs && decide (lineKeys cs).Nodup
def quietList : List PNode → Bool
  | [] => true
  | c :: cs => c.quiet && quietList cs
end

mutual
theorem warns_eq_nil (pos : Nat → SPos) : ∀ (c : PNode) (i : Nat), c.quiet = true → c.warns pos i = []
  | .line key v, i, h => by
    simp only [PNode.warns]
    exact (Line.warns_eq_nil_iff _).2 (by simpa [Line.plain, mkLine, PNode.quiet] using h)
  | .block _ cs, i, h => by
    simp only [PNode.quiet, Bool.and_eq_true, decide_eq_true_eq] at h
    simp only [PNode.warns]
    exact warnsList_eq_nil pos cs [] (i + 1) h.1 h.2 (fun _ _ => rfl)
  | .sect _ _ cs, i, h => by
    simp only [PNode.quiet, Bool.and_eq_true, decide_eq_true_eq] at h
    simp only [PNode.warns]
    exact warnsList_eq_nil pos cs [] (i + 1) h.1 h.2 (fun _ _ => rfl)
theorem warnsList_eq_nil (pos : Nat → SPos) : ∀ (cs : List PNode) (kp : KeyPos) (i : Nat), quietList cs = true →
    (lineKeys cs).Nodup → (∀ key ∈ lineKeys cs, kp.lookup key = none) → warnsList pos cs kp i = []
  | [], _, _, _, _, _ => rfl
  | .line key v :: cs, kp, i, hq, hnd, hkp => by
    simp only [quietList, Bool.and_eq_true] at hq
    simp only [lineKeys, List.nodup_cons] at hnd
    have h0 : kp.lookup key = none := hkp key (by simp [lineKeys])
    have htp : trackPure kp key (pos i).l = (kp ++ [(key, [(pos i).l])], []) := by
      unfold trackPure; rw [h0]
    simp only [warnsList, trackNode, htp, warns_eq_nil pos _ i hq.1, List.nil_append]
    apply warnsList_eq_nil pos cs _ _ hq.2 hnd.2
    intro x hx
    apply lookup_append_none _ _ _ (hkp x (by simp [lineKeys, hx]))
    have hne : x ≠ key := fun h => hnd.1 (h ▸ hx)
    simp only [List.lookup_cons, List.lookup_nil]
    rw [beq_eq_false_iff_ne.2 hne]
  | .block key cs' :: cs, kp, i, hq, hnd, hkp => by
    simp only [quietList, Bool.and_eq_true] at hq
    simp only [lineKeys] at hnd hkp
    simp only [warnsList, trackNode, warns_eq_nil pos _ i hq.1, List.nil_append]
    exact warnsList_eq_nil pos cs kp _ hq.2 hnd hkp
  | .sect id key cs' :: cs, kp, i, hq, hnd, hkp => by
    simp only [quietList, Bool.and_eq_true] at hq
    simp only [lineKeys] at hnd hkp
    simp only [warnsList, trackNode, warns_eq_nil pos _ i hq.1, List.nil_append]
    exact warnsList_eq_nil pos cs kp _ hq.2 hnd hkp
end

/-! ## Boolean equality on documents with blocks and sections (for closed `decide` checks) -/

mutual
def nodeEqS : Node → Node → Bool
  | .assign k v l c ld tr, .assign k' v' l' c' ld' tr' =>
    k == k' && valEqB v v' && l == l' && c == c' && ld == ld' && tr == tr'
  | .block k ch l c ld tg, .block k' ch' l' c' ld' tg' =>
    k == k' && nodesEqS ch ch' && l == l' && c == c' && ld == ld' && tg == tg'
  | .sect id k an ch l c ld, .sect id' k' an' ch' l' c' ld' =>
    id == id' && k == k' && an == an' && nodesEqS ch ch' && l == l' && c == c' && ld == ld'
  | _, _ => false
def nodesEqS : List Node → List Node → Bool
  | [], [] => true
  | a :: as, b :: bs => nodeEqS a b && nodesEqS as bs
  | _, _ => false
end

mutual
theorem nodeEqS_sound : ∀ {a b : Node}, nodeEqS a b = true → a = b
  | .assign .., .assign .., h => by
    simp only [nodeEqS, Bool.and_eq_true, beq_iff_eq] at h
    obtain ⟨⟨⟨⟨⟨h1, h2⟩, h3⟩, h4⟩, h5⟩, h6⟩ := h
    rw [h1, valEqB_sound h2, h3, h4, h5, h6]
  | .block _ ch .., .block _ ch' .., h => by
    simp only [nodeEqS, Bool.and_eq_true, beq_iff_eq] at h
    obtain ⟨⟨⟨⟨⟨h1, h2⟩, h3⟩, h4⟩, h5⟩, h6⟩ := h
    rw [h1, nodesEqS_sound h2, h3, h4, h5, h6]
  | .sect _ _ _ ch .., .sect _ _ _ ch' .., h => by
    simp only [nodeEqS, Bool.and_eq_true, beq_iff_eq] at h
    obtain ⟨⟨⟨⟨⟨⟨h1, h2⟩, h3⟩, h4⟩, h5⟩, h6⟩, h7⟩ := h
    rw [h1, h2, h3, nodesEqS_sound h4, h5, h6, h7]
  | .assign .., .block .., h => by simp [nodeEqS] at h
  | .assign .., .sect .., h => by simp [nodeEqS] at h
  | .assign .., .comment .., h => by simp [nodeEqS] at h
  | .block .., .assign .., h => by simp [nodeEqS] at h
  | .block .., .sect .., h => by simp [nodeEqS] at h
  | .block .., .comment .., h => by simp [nodeEqS] at h
  | .sect .., .assign .., h => by simp [nodeEqS] at h
  | .sect .., .block .., h => by simp [nodeEqS] at h
  | .sect .., .comment .., h => by simp [nodeEqS] at h
  | .comment .., _, h => by simp [nodeEqS] at h
theorem nodesEqS_sound : ∀ {a b : List Node}, nodesEqS a b = true → a = b
  | [], [], _ => rfl
  | [], _ :: _, h => by simp [nodesEqS] at h
  | _ :: _, [], h => by simp [nodesEqS] at h
  | a :: as, b :: bs, h => by
    simp only [nodesEqS, Bool.and_eq_true] at h
    rw [nodeEqS_sound h.1, nodesEqS_sound h.2]
end

def docEqS (a b : Document) : Bool :=
  a.name == b.name && a.metaKv.isEmpty && b.metaKv.isEmpty && a.hasSeparator == b.hasSeparator &&
  nodesEqS a.sections b.sections && a.grammarVersion == b.grammarVersion &&
  a.rawFrontmatter == b.rawFrontmatter && a.trailingComments == b.trailingComments

theorem docEqS_sound {a b : Document} (h : docEqS a b = true) : a = b := by
  obtain ⟨n, m, hs, s, g, rf, tc⟩ := a
  obtain ⟨n', m', hs', s', g', rf', tc'⟩ := b
  simp only [docEqS, Bool.and_eq_true, beq_iff_eq, List.isEmpty_iff] at h
  obtain ⟨⟨⟨⟨⟨⟨⟨h1, h2⟩, h3⟩, h4⟩, h5⟩, h6⟩, h7⟩, h8⟩ := h
  rw [h1, h2, h3, h4, nodesEqS_sound h5, h6, h7, h8]

/-- Boolean test `r = .ok d`. -/
def isOkDocS (r : Except Exc Document) (d : Document) : Bool :=
  match r with | .ok x => docEqS x d | .error _ => false

theorem isOkDocS_sound {r : Except Exc Document} {d : Document} (h : isOkDocS r d = true) : r = .ok d := by
  cases r with
  | error e => simp [isOkDocS] at h
  | ok x => rw [docEqS_sound (a := x) (b := d) h]

/-! ## Token counts (independent of the positions): the fuel bounds are linear in the size of the text -/

def PId.size : PId → Nat
  | .numLetter _ _ _ => 2
  | _ => 1

theorem PId.toks_length (p : SPos) (id : PId) : (id.toks p).length = id.size := by cases id <;> rfl

mutual
/-- number of tokens of a node without its INDENT: 4 for a line, 3 for a block header, 5 or 6 for a section header, plus the
children with their INDENTs. -/
def PNode.size : PNode → Nat
  | .line _ _ => 4
  | .block _ cs => 3 + sizeList cs
  | .sect id _ cs => 4 + id.size + sizeList cs
/-- number of tokens of an indented forest. -/
def sizeList : List PNode → Nat
  | [] => 0
  | c :: cs => 1 + c.size + sizeList cs
end

mutual
theorem body_length (pos : Nat → SPos) : ∀ (c : PNode) (d i : Nat), (c.body pos d i).length = c.size
  | .line _ _, _, _ => rfl
  | .block _ cs, d, i => by
    simp only [PNode.body, PNode.size, List.length_cons, toksList_succ_length pos cs d (i + 1)]
    omega
  | .sect id _ cs, d, i => by
    simp only [PNode.body, PNode.size, List.length_cons, List.length_append, PId.toks_length, toksList_succ_length pos cs d (i + 1)]
    omega
theorem toksList_succ_length (pos : Nat → SPos) : ∀ (cs : List PNode) (d i : Nat), (toksList pos cs (d + 1) i).length = sizeList cs
  | [], _, _ => rfl
  | c :: cs, d, i => by
    simp only [toksList, indentToks, sizeList, List.length_cons, List.length_append, List.length_nil,
      body_length pos c (d + 1) i, toksList_succ_length pos cs d (i + c.lines)]
    omega
end

/-! ## The lexer's columns satisfy `wf` -/

mutual
/-- every block key and every section marker sits right after its indentation: `column = 2·d + 1` (what the lexer
produces), and the letter of every `§2b` id is alphabetic for the parser. -/
def PNode.canon (al : Char → Bool) (pos : Nat → SPos) : PNode → Nat → Nat → Bool
  | .line _ _, _, _ => true
  | .block _ cs, d, i => decide ((pos i).c1 = 2 * d + 1) && canonList al pos cs (d + 1) (i + 1)
  | .sect id _ cs, d, i => id.letterOk al && decide ((pos i).c0 = 2 * d + 1) && canonList al pos cs (d + 1) (i + 1)
def canonList (al : Char → Bool) (pos : Nat → SPos) : List PNode → Nat → Nat → Bool
  | [], _, _ => true
  | c :: cs, d, i => c.canon al pos d i && canonList al pos cs d (i + c.lines)
end

mutual
theorem wf_of_canon (al : Char → Bool) (pos : Nat → SPos) : ∀ (c : PNode) (d i : Nat), c.canon al pos d i = true → c.wf al pos d i = true
  | .line _ _, _, _, _ => rfl
  | .block _ cs, d, i, h => by
    simp only [PNode.canon, Bool.and_eq_true, decide_eq_true_eq] at h
    simp only [PNode.wf, Bool.and_eq_true, wfList_of_canon al pos cs (d + 1) (i + 1) h.2, and_true]
    split <;> simp only [decide_eq_true_eq] <;> omega
  | .sect id _ cs, d, i, h => by
    simp only [PNode.canon, Bool.and_eq_true, decide_eq_true_eq] at h
    simp only [PNode.wf, Bool.and_eq_true, wfList_of_canon al pos cs (d + 1) (i + 1) h.2, and_true, h.1.1, true_and]
    split <;> simp only [decide_eq_true_eq] <;> omega
theorem wfList_of_canon (al : Char → Bool) (pos : Nat → SPos) : ∀ (cs : List PNode) (d i : Nat), canonList al pos cs d i = true → wfList al pos cs d i = true
  | [], _, _, _ => rfl
  | c :: cs, d, i, h => by
    simp only [canonList, Bool.and_eq_true] at h
    simp only [wfList, Bool.and_eq_true]
    exact ⟨wf_of_canon al pos c d i h.1, wfList_of_canon al pos cs d (i + c.lines) h.2⟩
end


end Octave.SectParse
