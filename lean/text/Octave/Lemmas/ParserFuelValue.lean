import Octave.Lemmas.ParserFuelLeaf
/-!
C20, parser side: **no hang** — `ParserValue`: the value loops driven by `budget`, `parse_flow_expression`, and the
mutual block of `parse_value` (fuel bounded by the weighted measure `cA`).
-/
namespace Octave
namespace Parser

-- the proofs below execute every path of large `do` blocks symbolically: 5× the default budget, so that no proof
-- sits at the edge of the deterministic timeout
set_option maxHeartbeats 1000000

theorem takeValueToks_spec : ∀ {fuel : Nat} {acc : List Str} {r : List Token},
    (EofEnd r ∧ cB r < fuel) → wpr (takeValueToks fuel acc) r (fun _ r' => Le r r') := by
  intro fuel
  induction fuel with
  | zero => intro _ r h; omega
  | succ n ih =>
    intro acc r h
    unfold takeValueToks
    wp_ind [ih]
    all_goals wp_fin
macro_rules
  | `(tactic| wp_lemma) => `(tactic| with_reducible refine wpr_mono (takeValueToks_spec ?_) (fun _ _ _ => ?_))

theorem takeExprParts_spec : ∀ {fuel : Nat} {acc : List Str} {r : List Token},
    (EofEnd r ∧ cB r < fuel) → wpr (takeExprParts fuel acc) r (fun _ r' => Le r r') := by
  intro fuel
  induction fuel with
  | zero => intro _ r h; omega
  | succ n ih =>
    intro acc r h
    unfold takeExprParts
    wp_ind [ih]
    all_goals wp_fin
macro_rules
  | `(tactic| wp_lemma) => `(tactic| with_reducible refine wpr_mono (takeExprParts_spec ?_) (fun _ _ _ => ?_))

theorem trailingBracket_spec {res sep : Str} {r : List Token} (h : EofEnd r) :
    wpr (trailingBracket res sep) r (fun _ r' => Le r r') := by
  unfold trailingBracket
  wp_run
  all_goals wp_fin
macro_rules
  | `(tactic| wp_lemma) => `(tactic| with_reducible refine wpr_mono (trailingBracket_spec ?_) (fun _ _ _ => ?_))

/-- consumes (at least) the current token. -/
theorem multiWordSimple_spec {tok : Token} {ctx : String} {r : List Token} (h : EofEnd r) :
    wpr (multiWordSimple tok ctx) r (fun _ r' => Le r r' ∧ cA r' + wtA (hd r).type ≤ cA r) := by
  unfold multiWordSimple
  wp_run
  all_goals wp_fin
macro_rules
  | `(tactic| wp_lemma) => `(tactic| with_reducible refine wpr_mono (multiWordSimple_spec ?_) (fun _ _ _ => ?_))

/-- consumes the opening fence. -/
theorem parseLiteralZone_spec {r : List Token} (h : EofEnd r) :
    wpr parseLiteralZone r (fun _ r' => Le r r' ∧ cA r' + 1 ≤ cA r) := by
  unfold parseLiteralZone
  wp_run
  all_goals wp_fin
macro_rules
  | `(tactic| wp_lemma) => `(tactic| with_reducible refine wpr_mono (parseLiteralZone_spec ?_) (fun _ _ _ => ?_))

theorem operatorRichLoop_spec : ∀ {fuel : Nat} {acc : List Str} {r : List Token},
    (EofEnd r ∧ cB r < fuel) → wpr (operatorRichLoop fuel acc) r (fun _ r' => Le r r') := by
  intro fuel
  induction fuel with
  | zero => intro _ r h; omega
  | succ n ih =>
    intro acc r h
    unfold operatorRichLoop
    wp_ind [ih]
    all_goals wp_fin
macro_rules
  | `(tactic| wp_lemma) => `(tactic| with_reducible refine wpr_mono (operatorRichLoop_spec ?_) (fun _ _ _ => ?_))

theorem colonPath_spec : ∀ {fuel : Nat} {acc : List Str} {r : List Token},
    (EofEnd r ∧ cB r < fuel) → wpr (colonPath fuel acc) r (fun _ r' => Le r r') := by
  intro fuel
  induction fuel with
  | zero => intro _ r h; omega
  | succ n ih =>
    intro acc r h
    unfold colonPath
    wp_ind [ih]
    all_goals wp_fin
macro_rules
  | `(tactic| wp_lemma) => `(tactic| with_reducible refine wpr_mono (colonPath_spec ?_) (fun _ _ _ => ?_))

theorem skipListWs_spec : ∀ {fuel : Nat} {r : List Token},
    (EofEnd r ∧ cB r < fuel) → wpr (skipListWs fuel) r (fun _ r' => Le r r') := by
  intro fuel
  induction fuel with
  | zero => intro r h; omega
  | succ n ih =>
    intro r h
    unfold skipListWs
    wp_ind [ih]
    all_goals wp_fin
macro_rules
  | `(tactic| wp_lemma) => `(tactic| with_reducible refine wpr_mono (skipListWs_spec ?_) (fun _ _ _ => ?_))

/-- 1 when the first iteration of the flow loop consumes the current token. -/
def fs (t : TT) : Nat :=
  if isExprOp t || t == .identifier || t == .string || t == .variable || t == .section then 1 else 0

theorem fs_le_one (t : TT) : fs t ≤ 1 := by unfold fs; split <;> omega

theorem flowLoop_spec : ∀ {fuel : Nat} {parts : List Str} {tc : Nat} {ft : Option Token} {r : List Token},
    (EofEnd r ∧ cB r < fuel) →
    wpr (flowLoop fuel parts tc ft) r (fun _ r' => Le r r' ∧ cA r' + fs (hd r).type ≤ cA r) := by
  intro fuel
  induction fuel with
  | zero => intro _ _ _ r h; omega
  | succ n ih =>
    intro parts tc ft r h
    have hfs := fs_le_one (hd r).type
    unfold flowLoop
    wp_ind [ih]
    all_goals try wp_fin
    have : fs (hd r).type = 0 := by tt_tac
    wp_fin
macro_rules
  | `(tactic| wp_lemma) => `(tactic| with_reducible refine wpr_mono (flowLoop_spec ?_) (fun _ _ _ => ?_))

theorem parseFlowExpression_spec {r : List Token} (h : EofEnd r) :
    wpr parseFlowExpression r (fun _ r' => Le r r' ∧ cA r' + fs (hd r).type ≤ cA r) := by
  unfold parseFlowExpression
  wp_run
  all_goals wp_fin
macro_rules
  | `(tactic| wp_lemma) => `(tactic| with_reducible refine wpr_mono (parseFlowExpression_spec ?_) (fun _ _ _ => ?_))

theorem checkDeepNesting_spec {tok : Token} {r : List Token} (_ : True) :
    wpr (checkDeepNesting tok) r (fun _ r' => Same r r') := by
  unfold checkDeepNesting
  wp_run
  all_goals wp_fin
macro_rules
  | `(tactic| wp_lemma) => `(tactic| with_reducible refine wpr_mono (checkDeepNesting_spec ?_) (fun _ _ _ => ?_))

theorem checkListItems_spec {key : Str} {tok : Token} : ∀ {vs : List Value} {r : List Token}, True →
    wpr (checkListItems key tok vs) r (fun _ r' => Same r r') := by
  intro vs
  fun_induction checkListItems key tok vs with
  | case1 => intro r _; wp_run; all_goals wp_fin
  | case2 => intro r _; wp_run; all_goals wp_fin
  | case3 inner rest ih1 ih2 => intro r _; wp_ind [ih1, ih2]; all_goals wp_fin
  | case4 _ rest _ _ ih => intro r _; wp_ind [ih]; all_goals wp_fin
macro_rules
  | `(tactic| wp_lemma) => `(tactic| with_reducible refine wpr_mono (checkListItems_spec ?_) (fun _ _ _ => ?_))

end Parser
end Octave
