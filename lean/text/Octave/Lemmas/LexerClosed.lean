import Octave.Lemmas.StepProgress
/-! Fence spans produced by the normaliser are well-formed; the lexer raises only LexerError and never runs out
of fuel (C20). -/
namespace Octave
open Lexer Scan

/-- invariant of the line loop of `_normalize_with_fence_detection`. -/
def NInv (st : NState) : Prop :=
  (st.inFence = true → st.spanStart < st.offset) ∧ SpansOK st.spans

theorem normLine_inv (env : Env) (st st' : NState) (n : Nat) (line : Str) (hi : NInv st)
    (h : normLine env st n line = .ok st') : NInv st' := by
  obtain ⟨h1, h2⟩ := hi
  unfold normLine at h
  split at h
  · -- opening fence
    simp only [Except.ok.injEq] at h; subst h
    exact ⟨fun _ => by show st.offset < st.offset + (env.nfc line).length + 1; omega, h2⟩
  · -- fence line inside an open fence
    rename_i ticks trailing hf hin
    split at h
    · simp only [Except.ok.injEq] at h; subst h
      refine ⟨fun hc => by simp at hc, ?_⟩
      intro sp hsp
      simp only [List.mem_cons] at hsp
      rcases hsp with rfl | hsp
      · have := h1 hin; show st.spanStart < st.offset + (env.nfc line).length + 1 - 1; omega
      · exact h2 sp hsp
    · split at h
      · simp at h
      · simp only [Except.ok.injEq] at h; subst h
        exact ⟨fun hc => by have := h1 hin; show st.spanStart < st.offset + line.length + 1; omega, h2⟩
  · rename_i hin
    simp only [Except.ok.injEq] at h; subst h
    exact ⟨fun _ => by have := h1 hin; show st.spanStart < st.offset + line.length + 1; omega, h2⟩
  · rename_i hin
    simp only [Except.ok.injEq] at h; subst h
    exact ⟨fun hc => absurd (hc.symm.trans hin) (by decide), h2⟩

theorem normLines_inv (env : Env) : ∀ (ls : List Str) (st st' : NState) (n : Nat), NInv st →
    normLines env st n ls = .ok st' → NInv st'
  | [], st, st', n, hi, h => by simp [normLines] at h; subst h; exact hi
  | l :: ls, st, st', n, hi, h => by
    simp only [normLines, bind, Except.bind] at h
    cases hl : normLine env st n l with
    | error e => simp [hl] at h
    | ok st1 =>
      simp only [hl] at h
      exact normLines_inv env ls st1 st' (n + 1) (normLine_inv env st st1 n l hi hl) h

theorem normalize_spans_ok (env : Env) (content norm : Str) (spans : List Span)
    (h : normalize env content = .ok (norm, spans)) : SpansOK spans := by
  unfold normalize at h
  simp only [bind, Except.bind] at h
  cases hn : normLines env {} 1 (splitLines content) with
  | error e => simp [hn] at h
  | ok st =>
    simp only [hn] at h
    have hinv := normLines_inv env _ {} st 1 ⟨fun hc => by simp at hc, fun sp hsp => by simp at hsp⟩ hn
    split at h
    · simp at h
    · simp only [Except.ok.injEq, Prod.mk.injEq] at h
      obtain ⟨_, rfl⟩ := h
      intro sp hsp
      exact hinv.2 sp (by simpa using hsp)

theorem normLine_error_lexer (env : Env) (st : NState) (n : Nat) (line : Str) (e : Exc)
    (h : normLine env st n line = .error e) : ∃ code l c, e = .lexer code l c := by
  unfold normLine at h
  split at h
  · simp at h
  · split at h
    · simp at h
    · split at h
      · simp at h; exact ⟨_, _, _, h.symm⟩
      · simp at h
  · simp at h
  · simp at h

theorem normLines_error_lexer (env : Env) : ∀ (ls : List Str) (st : NState) (n : Nat) (e : Exc),
    normLines env st n ls = .error e → ∃ code l c, e = .lexer code l c
  | [], st, n, e, h => by simp [normLines] at h
  | l :: ls, st, n, e, h => by
    simp only [normLines, bind, Except.bind] at h
    cases hl : normLine env st n l with
    | error e' => simp [hl] at h; subst h; exact normLine_error_lexer env st n l _ hl
    | ok st1 => simp only [hl] at h; exact normLines_error_lexer env ls st1 (n + 1) e h

theorem tabCheck_error_lexer (spans : List Span) : ∀ (s : Str) (pos line col : Nat) (e : Exc),
    tabCheck spans s pos line col = .error e → ∃ code l c, e = .lexer code l c
  | [], _, _, _, e, h => by simp [tabCheck] at h
  | c :: cs, pos, line, col, e, h => by
    unfold tabCheck at h
    split at h
    · simp at h; exact ⟨_, _, _, h.symm⟩
    · split at h
      · exact tabCheck_error_lexer spans cs _ _ _ e h
      · exact tabCheck_error_lexer spans cs _ _ _ e h

theorem loop_error_lexer (env : Env) (lenient : Bool) : ∀ (fuel : Nat) (st : LState) (s : Str) (e : Exc),
    s.length < fuel → SpansOK st.spans → loop env lenient fuel st s = .error e → ∃ code l c, e = .lexer code l c := by
  intro fuel
  induction fuel with
  | zero => intro st s e h; exact absurd h (Nat.not_lt_zero _)
  | succ n ih =>
    intro st s e hlen hok h
    cases s with
    | nil => simp [loop] at h
    | cons c r =>
      unfold loop at h
      simp only [bind, Except.bind] at h
      cases hst : step env lenient st (c :: r) with
      | error e' => simp only [hst] at h; simp at h; subst h; exact step_error_lexer env lenient st (c :: r) _ hst
      | ok p =>
        obtain ⟨st', s'⟩ := p
        simp only [hst] at h
        have ⟨hlt, hok'⟩ := step_progress env lenient st st' (c :: r) s' (by simp) hok hst
        exact ih st' s' e (by omega) hok' h

/-- **The lexer is closed**: for every text, every environment and both modes, `tokenize` returns tokens or raises
its own positioned LexerError — never a foreign Python exception, and the model never runs out of fuel (every loop
iteration consumes input; the over-long integer literal is re-raised as LexerError). -/
theorem tokenize_closed (env : Env) (content : Str) (lenient : Bool) (e : Exc)
    (h : tokenize env content lenient = .error e) : ∃ code l c, e = .lexer code l c := by
  unfold tokenize at h
  simp only [bind, Except.bind] at h
  cases hn : normalize env content with
  | error e' =>
    simp only [hn] at h; simp at h; subst h
    unfold normalize at hn
    simp only [bind, Except.bind] at hn
    cases hl : normLines env {} 1 (splitLines content) with
    | error e'' => simp only [hl] at hn; simp at hn; subst hn; exact normLines_error_lexer env _ _ _ _ hl
    | ok st =>
      simp only [hl] at hn
      split at hn
      · simp at hn; exact ⟨_, _, _, hn.symm⟩
      · simp at hn
  | ok p =>
    obtain ⟨norm, spans⟩ := p
    have hok := normalize_spans_ok env content norm spans hn
    simp only [hn] at h
    cases ht : tabCheck spans norm 0 1 1 with
    | error e' => simp only [ht] at h; simp at h; subst h; exact tabCheck_error_lexer spans norm 0 1 1 _ ht
    | ok u =>
      simp only [ht] at h
      cases hl : loop env lenient (norm.length + 1) { spans := spans } norm with
      | error e' =>
        simp only [hl] at h; simp at h; subst h
        exact loop_error_lexer env lenient _ _ _ _ (Nat.lt_succ_self _) hok hl
      | ok st =>
        simp only [hl] at h
        split at h
        · simp at h; exact ⟨_, _, _, h.symm⟩
        · simp at h
end Octave
