import Octave.Lemmas.ListBridge
import Octave.Lemmas.C13Reader
/-!
The lexer on flat documents whose line values are NESTED lists (any depth) of scalars and canonical FLOAT lexemes, in the
layout the emitter chooses (`Lemmas/NestBridge.emitValue_nitem`):

* a list is written one item per line — behind `2·(ind+1)` spaces, closing bracket behind `2·ind` spaces, `ind` = nesting level of
  the list — when it has ≥ 3 items, or an annotation-shaped string item, or an item that is itself a LIST (`nlMulti`); otherwise on
  one line `[a,b]`.  So an inner list is written inline exactly when it is short and holds leaves only, and every list that
  contains a list is multi-line, at every depth.
* `NLeaf` (an `FScalar`, or `num s`: a float lexeme `s`), `NItem` (`leaf` / `list`), texts `NItem.text`, tokens with concrete
  positions `NItem.toks`; positions after a text are computed from the text (`nlCount`, `colAfter`).
* `lex_leaf` (floats through `C13.step_numParts`), `lex_nitem` (nested induction `NItem.induct`; the bracket stack of `ListLex.At`
  is pushed / popped per bracket), fence-freeness / no-tab walks, `tokenize_ndoc`.
-/
namespace Octave.Nest
open Octave Lexer Scan Emitter
open Octave.ListDoc

/-! ### leaves and items -/

/-- a leaf: a scalar of the flat class, or a FLOAT written with the lexeme `s`. -/
inductive NLeaf where
  | sc (v : FScalar)
  | num (s : Str)
  deriving Repr, DecidableEq

def NLeaf.text : NLeaf → Str
  | .sc v => v.text
  | .num s => s

/-- the parser-side scalar: a float is carried as its `repr` text (`= s` for a canonical lexeme), `raw = s`. -/
def NLeaf.toP : NLeaf → FlatParse.Scalar
  | .sc v => v.toP
  | .num s => .float s s

def NLeaf.tok (a : NLeaf) (l c : Nat) : Token := a.toP.tok l c
def NLeaf.value (a : NLeaf) : Value := a.toP.val

/-- lexable: `FScalar.OK`; a float lexeme is a full match of the NUMBER pattern, not an int lexeme, and its own `repr`. -/
def NLeaf.OK (env : Env) : NLeaf → Prop
  | .sc v => v.OK
  | .num s => C13.pyNumberFull s = true ∧ C13.isIntLexeme s = false ∧ env.floatRepr s = s

def NLeaf.annot (a : NLeaf) : Bool := valAnnot a.value

inductive NItem where
  | leaf (a : NLeaf)
  | list (xs : List NItem)

abbrev NItem.scalar (s : FScalar) : NItem := .leaf (.sc s)
abbrev NItem.num (s : Str) : NItem := .leaf (.num s)

/-- an item that forces its list into the multi-line layout: an annotation-shaped string, or a list. -/
def NItem.forces : NItem → Bool
  | .leaf a => a.annot
  | .list _ => true

/-- `_needs_multiline` on these items. -/
def nlMulti (xs : List NItem) : Bool := xs.any NItem.forces || decide (xs.length ≥ 3)

mutual
theorem NItem.induct {P : NItem → Prop} (hl : ∀ a, P (.leaf a)) (hs : ∀ xs, (∀ x ∈ xs, P x) → P (.list xs)) : ∀ v, P v
  | .leaf a => hl a
  | .list xs => hs xs (NItem.induct_list hl hs xs)
theorem NItem.induct_list {P : NItem → Prop} (hl : ∀ a, P (.leaf a)) (hs : ∀ xs, (∀ x ∈ xs, P x) → P (.list xs)) :
    ∀ xs : List NItem, ∀ x ∈ xs, P x
  | [], _, h => by cases h
  | y :: r, x, h => by
    rcases List.mem_cons.mp h with h | h
    · exact h ▸ NItem.induct hl hs y
    · exact NItem.induct_list hl hs r x h
end

mutual
def NItem.leaves : NItem → List NLeaf
  | .leaf a => [a]
  | .list xs => nlLeaves xs
def nlLeaves : List NItem → List NLeaf
  | [] => []
  | x :: r => x.leaves ++ nlLeaves r
end

def NItem.OK (env : Env) (x : NItem) : Prop := ∀ a ∈ x.leaves, a.OK env
def nlOK (env : Env) (xs : List NItem) : Prop := ∀ a ∈ nlLeaves xs, a.OK env

theorem nlOK_head {env : Env} {x : NItem} {r : List NItem} (h : nlOK env (x :: r)) : x.OK env :=
  fun a ha => h a (by simp [nlLeaves, ha])
theorem nlOK_tail {env : Env} {x : NItem} {r : List NItem} (h : nlOK env (x :: r)) : nlOK env r :=
  fun a ha => h a (by simp [nlLeaves, ha])
theorem nlOK_of_list {env : Env} {xs : List NItem} (h : (NItem.list xs).OK env) : nlOK env xs :=
  fun a ha => h a (by simpa [NItem.leaves] using ha)

/-! ### texts -/

mutual
/-- the canonical text of an item at nesting level `ind`. -/
def NItem.text (ind : Nat) : NItem → Str
  | .leaf a => a.text
  | .list [] => ['[', ']']
  | .list (x :: r) =>
    if nlMulti (x :: r) then '[' :: '\n' :: (spacesL (2 * (ind + 1)) ++ (x.text (ind + 1) ++ nlMultiTail ind r))
    else '[' :: (x.text ind ++ nlInlineTail ind r)
/-- after an item of a multi-line list: `,⏎␣␣item` … `⏎␣]`. -/
def nlMultiTail (ind : Nat) : List NItem → Str
  | [] => '\n' :: (spacesL (2 * ind) ++ [']'])
  | x :: r => ',' :: '\n' :: (spacesL (2 * (ind + 1)) ++ (x.text (ind + 1) ++ nlMultiTail ind r))
/-- after an item of a one-line list. -/
def nlInlineTail (ind : Nat) : List NItem → Str
  | [] => [']']
  | x :: r => ',' :: (x.text ind ++ nlInlineTail ind r)
end

/-! ### positions after a text -/

def colAfter : Str → Nat → Nat
  | [], c => c
  | ch :: s, c => colAfter s (if ch = '\n' then 1 else c + 1)

def nlCount : Str → Nat
  | [] => 0
  | ch :: s => (if ch = '\n' then 1 else 0) + nlCount s

theorem colAfter_append (a b : Str) : ∀ c, colAfter (a ++ b) c = colAfter b (colAfter a c) := by
  induction a with
  | nil => intro c; rfl
  | cons x r ih => intro c; simp only [List.cons_append, colAfter]; exact ih _

theorem nlCount_append (a b : Str) : nlCount (a ++ b) = nlCount a + nlCount b := by
  induction a with
  | nil => simp [nlCount]
  | cons x r ih => simp only [List.cons_append, nlCount, ih]; omega

theorem colAfter_noNl (s : Str) (h : NoNl s) : ∀ c, colAfter s c = c + s.length := by
  induction s with
  | nil => intro c; rfl
  | cons x r ih =>
    intro c
    have hx : x ≠ '\n' := h x (by simp)
    simp only [colAfter, if_neg hx, List.length_cons]
    rw [ih (fun d hd => h d (by simp [hd]))]; omega

theorem nlCount_noNl (s : Str) (h : NoNl s) : nlCount s = 0 := by
  induction s with
  | nil => rfl
  | cons x r ih =>
    have hx : x ≠ '\n' := h x (by simp)
    simp only [nlCount, if_neg hx, ih (fun d hd => h d (by simp [hd]))]

theorem noNl_spaces (n : Nat) : NoNl (spacesL n) := by
  intro d hd
  have : d = ' ' := by simp [spacesL, List.mem_replicate] at hd; exact hd.2
  subst this; decide

theorem colAfter_spaces (n c : Nat) : colAfter (spacesL n) c = c + n := by
  rw [colAfter_noNl _ (noNl_spaces n)]; simp [spacesL]
theorem nlCount_spaces (n : Nat) : nlCount (spacesL n) = 0 := nlCount_noNl _ (noNl_spaces n)

/-! ### tokens (reading order, concrete positions) -/

mutual
def NItem.toks (ind l c : Nat) : NItem → List Token
  | .leaf a => [a.tok l c]
  | .list [] => [tLb l c, tRb l (c + 1)]
  | .list (x :: r) =>
    if nlMulti (x :: r) then
      tLb l c :: tNewline l (c + 1) :: tIndent (2 * (ind + 1)) (l + 1) 1 ::
        (x.toks (ind + 1) (l + 1) (1 + 2 * (ind + 1))
          ++ nlMultiTailToks ind (l + 1 + nlCount (x.text (ind + 1))) (colAfter (x.text (ind + 1)) (1 + 2 * (ind + 1))) r)
    else tLb l c :: (x.toks ind l (c + 1) ++ nlInlineTailToks ind (l + nlCount (x.text ind)) (colAfter (x.text ind) (c + 1)) r)
def nlMultiTailToks (ind l c : Nat) : List NItem → List Token
  | [] => tNewline l c :: (indToks (2 * ind) (l + 1) ++ [tRb (l + 1) (1 + 2 * ind)])
  | x :: r => tComma l c :: tNewline l (c + 1) :: tIndent (2 * (ind + 1)) (l + 1) 1 ::
      (x.toks (ind + 1) (l + 1) (1 + 2 * (ind + 1))
        ++ nlMultiTailToks ind (l + 1 + nlCount (x.text (ind + 1))) (colAfter (x.text (ind + 1)) (1 + 2 * (ind + 1))) r)
def nlInlineTailToks (ind l c : Nat) : List NItem → List Token
  | [] => [tRb l c]
  | x :: r => tComma l c :: (x.toks ind l (c + 1) ++ nlInlineTailToks ind (l + nlCount (x.text ind)) (colAfter (x.text ind) (c + 1)) r)
end

/-! ### leaves -/

theorem floatTerm_term (env : Env) (d : Char) (r : Str) (h : TermChar d) : FloatTerm env (d :: r) := by
  intro e he
  have : e = d := by simpa using he.symm
  subst this
  rcases h with h | h | h <;> subst h <;>
    exact ⟨isDigit_ascii_false env _ (by decide) (by decide), by decide, by decide, by decide, by decide, by decide⟩

theorem num_not_inf (s : Str) (h : C13.pyNumberFull s = true) : s ≠ "inf".toList ∧ s ≠ "-inf".toList := by
  constructor <;> (intro e; rw [e] at h; revert h; decide)

theorem lex_leaf (env : Env) (lenient : Bool) (st : LState) (a : NLeaf) (p : Char) (R : Str) (l c : Nat)
    (stk : List (Nat × Nat)) (h : At st l c stk) (hp : st.prev = some p) (hsep : SepChar p) (hterm : ItemTerm R) (ha : a.OK env) :
    ∃ st', Lexes env lenient st (a.text ++ R) st' R [a.tok l c] ∧ At st' l (c + a.text.length) stk := by
  cases a with
  | sc v =>
    obtain ⟨st', x, y⟩ := lex_item env lenient st v p R l c stk h hp hsep hterm ha
    refine ⟨st', ?_, y⟩
    have e : NLeaf.tok (.sc v) l c = v.tok l c := (scalar_tok_toP v l c).symm
    rw [e]; exact x
  | num s =>
    obtain ⟨d, rest, rfl, hd⟩ := hterm
    obtain ⟨hfull, hint, hrepr⟩ := ha
    obtain ⟨q, hq, rfl⟩ := C13.pyNumberFull_shape s hfull
    have hrep : C13.Representable env q.text := by
      unfold C13.Representable
      rw [hint]
      simp only [Bool.false_eq_true, if_false]
      rw [hrepr]
      exact num_not_inf _ hfull
    obtain ⟨s1, e1, a1⟩ := C13.step_numParts env lenient st q hq (d :: rest) h.ready (floatTerm_term env d rest hd) hrep
    rw [h.line, h.col] at a1
    have hns : C13.numScalar env q.text = .float q.text q.text := by
      unfold C13.numScalar
      rw [hint, hrepr]; rfl
    rw [hns] at a1
    have := lexes_of_adv (by simp [q.ne_nil hq]) e1 a1 h (by simp [toksReps, tokReps, FlatParse.Scalar.tok])
    exact ⟨s1, by simpa [NLeaf.text, NLeaf.tok, NLeaf.toP] using this.1, this.2.1⟩

theorem leaf_clean (env : Env) (a : NLeaf) (ha : a.OK env) : Clean a.text := by
  cases a with
  | sc v => exact scalar_clean v ha
  | num s =>
    obtain ⟨q, hq, rfl⟩ := C13.pyNumberFull_shape s ha.1
    exact q.clean hq

theorem leaf_head (env : Env) (a : NLeaf) (ha : a.OK env) : ∃ c t, a.text = c :: t ∧ c ≠ ' ' ∧ c ≠ '`' ∧ c ≠ '\n' := by
  cases a with
  | sc v => exact scalar_text_head v ha
  | num s =>
    obtain ⟨q, hq, rfl⟩ := C13.pyNumberFull_shape s ha.1
    obtain ⟨c, t, hct⟩ := List.exists_cons_of_ne_nil (q.ne_nil hq)
    have hm : c ∈ q.text := by rw [hct]; simp
    refine ⟨c, t, hct, ?_, ?_, ?_⟩
    · exact q.not_mem hq ' ' (by decide) (by decide) (by decide) (by decide) (by decide) (by decide) c hm
    · exact q.not_mem hq '`' (by decide) (by decide) (by decide) (by decide) (by decide) (by decide) c hm
    · exact q.not_mem hq '\n' (by decide) (by decide) (by decide) (by decide) (by decide) (by decide) c hm

/-- the first char of an item's text. -/
theorem nitem_head (env : Env) (x : NItem) (ind : Nat) (hx : x.OK env) :
    ∃ c t, x.text ind = c :: t ∧ c ≠ ' ' ∧ c ≠ '`' ∧ c ≠ '\n' := by
  cases x with
  | leaf a => exact leaf_head env a (hx a (by simp [NItem.leaves]))
  | list xs =>
    cases xs with
    | nil => exact ⟨'[', [']'], rfl, by decide, by decide, by decide⟩
    | cons y r =>
      simp only [NItem.text]
      split
      · exact ⟨'[', _, rfl, by decide, by decide, by decide⟩
      · exact ⟨'[', _, rfl, by decide, by decide, by decide⟩

theorem itemTerm_nlMultiTail (ind : Nat) (r : List NItem) (R : Str) : ItemTerm (nlMultiTail ind r ++ R) := by
  cases r with
  | nil => exact ⟨'\n', _, rfl, Or.inr (Or.inr rfl)⟩
  | cons x r => exact ⟨',', _, rfl, Or.inl rfl⟩

theorem itemTerm_nlInlineTail (ind : Nat) (r : List NItem) (R : Str) : ItemTerm (nlInlineTail ind r ++ R) := by
  cases r with
  | nil => exact ⟨']', _, rfl, Or.inr (Or.inl rfl)⟩
  | cons x r => exact ⟨',', _, rfl, Or.inl rfl⟩

/-! ### the nested induction -/

/-- what the lexer does on the text of one item (any state between tokens, any bracket stack, any terminator). -/
def PLex (env : Env) (lenient : Bool) (x : NItem) : Prop :=
  ∀ (ind : Nat) (st : LState) (R : Str) (l c : Nat) (stk : List (Nat × Nat)) (p : Char),
    At st l c stk → st.prev = some p → SepChar p → ItemTerm R → x.OK env →
    ∃ st', Lexes env lenient st (x.text ind ++ R) st' R (x.toks ind l c) ∧
      At st' (l + nlCount (x.text ind)) (colAfter (x.text ind) c) stk

/-- an item line of a multi-line list from column 1: INDENT, the item. -/
theorem lex_nlItemLine (env : Env) (lenient : Bool) (x : NItem) (ih : PLex env lenient x) (n ind : Nat) (hn : 0 < n)
    (st : LState) (R : Str) (l : Nat) (stk : List (Nat × Nat)) (h : At st l 1 stk) (hterm : ItemTerm R) (hx : x.OK env) :
    ∃ st', Lexes env lenient st (spacesL n ++ (x.text ind ++ R)) st' R (tIndent n l 1 :: x.toks ind l (1 + n)) ∧
      At st' (l + nlCount (x.text ind)) (colAfter (x.text ind) (1 + n)) stk := by
  obtain ⟨c0, t0, hct, h1, _, h3⟩ := nitem_head env x ind hx
  have e : x.text ind ++ R = c0 :: (t0 ++ R) := by rw [hct]; simp
  obtain ⟨s1, x1, a1, p1⟩ := lex_indent env lenient st n c0 (t0 ++ R) l stk h hn h1 h3
  rw [← e] at x1
  obtain ⟨s2, x2, a2⟩ := ih ind s1 R l (1 + n) stk ' ' a1 p1 (Or.inr (Or.inr (Or.inl rfl))) hterm hx
  exact ⟨s2, by simpa using x1.trans x2, a2⟩

theorem lex_nlMultiTail (env : Env) (lenient : Bool) (ind : Nat) (r : List NItem) :
    (∀ x ∈ r, PLex env lenient x) →
    ∀ (st : LState) (R : Str) (l c : Nat) (top : Nat × Nat) (stk : List (Nat × Nat)), At st l c (top :: stk) → nlOK env r →
    ∃ st', Lexes env lenient st (nlMultiTail ind r ++ R) st' R (nlMultiTailToks ind l c r) ∧
      At st' (l + nlCount (nlMultiTail ind r)) (colAfter (nlMultiTail ind r) c) stk := by
  induction r with
  | nil =>
    intro _ st R l c top stk h _
    obtain ⟨s1, x1, a1, _⟩ := lex_nl env lenient st (spacesL (2 * ind) ++ ']' :: R) l c _ h
    have hpos : l + nlCount (nlMultiTail ind []) = l + 1 ∧ colAfter (nlMultiTail ind []) c = 1 + 2 * ind + 1 := by
      simp [nlMultiTail, nlCount, colAfter, nlCount_append, colAfter_append, nlCount_spaces, colAfter_spaces]
    by_cases hind : ind = 0
    · subst hind
      obtain ⟨s2, x2, a2, _⟩ := lex_rb env lenient s1 R (l + 1) 1 top stk a1
      refine ⟨s2, ?_, a2.cast hpos.1.symm (by rw [hpos.2])⟩
      simpa [nlMultiTail, nlMultiTailToks, spacesL, indToks] using x1.trans x2
    · obtain ⟨s2, x2, a2, _⟩ := lex_indent env lenient s1 (2 * ind) ']' R (l + 1) _ a1 (by omega) (by decide) (by decide)
      obtain ⟨s3, x3, a3, _⟩ := lex_rb env lenient s2 R (l + 1) (1 + 2 * ind) top stk a2
      refine ⟨s3, ?_, a3.cast hpos.1.symm (by rw [hpos.2])⟩
      have h2 : 2 * ind ≠ 0 := by omega
      have hi : indToks (2 * ind) (l + 1) = [tIndent (2 * ind) (l + 1) 1] := by simp [indToks, h2]
      have := (x1.trans x2).trans x3
      simpa [nlMultiTail, nlMultiTailToks, hi, List.append_assoc] using this
  | cons x r ih =>
    intro hP st R l c top stk h hok
    have hx := nlOK_head hok
    obtain ⟨s1, x1, a1, _⟩ := lex_comma env lenient st ('\n' :: (spacesL (2 * (ind + 1)) ++ (x.text (ind + 1) ++ (nlMultiTail ind r ++ R)))) l c _ h
    obtain ⟨s2, x2, a2, _⟩ := lex_nl env lenient s1 (spacesL (2 * (ind + 1)) ++ (x.text (ind + 1) ++ (nlMultiTail ind r ++ R))) l (c + 1) _ a1
    obtain ⟨s3, x3, a3⟩ := lex_nlItemLine env lenient x (hP x (by simp)) (2 * (ind + 1)) (ind + 1) (by omega) s2
      (nlMultiTail ind r ++ R) (l + 1) _ a2 (itemTerm_nlMultiTail ind r R) hx
    obtain ⟨s4, x4, a4⟩ := ih (fun y hy => hP y (by simp [hy])) s3 R _ _ top stk a3 (nlOK_tail hok)
    refine ⟨s4, ?_, a4.cast ?_ ?_⟩
    · have := ((x1.trans x2).trans x3).trans x4
      simpa [nlMultiTail, nlMultiTailToks, List.append_assoc] using this
    · simp [nlMultiTail, nlCount, nlCount_append, nlCount_spaces]; omega
    · simp [nlMultiTail, colAfter, colAfter_append, colAfter_spaces]

theorem lex_nlInlineTail (env : Env) (lenient : Bool) (ind : Nat) (r : List NItem) :
    (∀ x ∈ r, PLex env lenient x) →
    ∀ (st : LState) (R : Str) (l c : Nat) (top : Nat × Nat) (stk : List (Nat × Nat)), At st l c (top :: stk) → nlOK env r →
    ∃ st', Lexes env lenient st (nlInlineTail ind r ++ R) st' R (nlInlineTailToks ind l c r) ∧
      At st' (l + nlCount (nlInlineTail ind r)) (colAfter (nlInlineTail ind r) c) stk := by
  induction r with
  | nil =>
    intro _ st R l c top stk h _
    obtain ⟨s1, x1, a1, _⟩ := lex_rb env lenient st R l c top stk h
    exact ⟨s1, by simpa [nlInlineTail, nlInlineTailToks] using x1, a1.cast (by simp [nlInlineTail, nlCount]) (by simp [nlInlineTail, colAfter])⟩
  | cons x r ih =>
    intro hP st R l c top stk h hok
    obtain ⟨s1, x1, a1, p1⟩ := lex_comma env lenient st (x.text ind ++ (nlInlineTail ind r ++ R)) l c _ h
    obtain ⟨s2, x2, a2⟩ := hP x (by simp) ind s1 (nlInlineTail ind r ++ R) l (c + 1) _ ',' a1 p1 (Or.inr (Or.inl rfl))
      (itemTerm_nlInlineTail ind r R) (nlOK_head hok)
    obtain ⟨s3, x3, a3⟩ := ih (fun y hy => hP y (by simp [hy])) s2 R _ _ top stk a2 (nlOK_tail hok)
    refine ⟨s3, ?_, a3.cast ?_ ?_⟩
    · have := (x1.trans x2).trans x3
      simpa [nlInlineTail, nlInlineTailToks, List.append_assoc] using this
    · simp [nlInlineTail, nlCount, nlCount_append]; omega
    · simp [nlInlineTail, colAfter, colAfter_append]

/-- **the lexer on any item** (nested to any depth). -/
theorem lex_nitem (env : Env) (lenient : Bool) : ∀ x : NItem, PLex env lenient x := by
  apply NItem.induct
  · intro a ind st R l c stk p h hp hsep hterm hok
    have ha : a.OK env := hok a (by simp [NItem.leaves])
    obtain ⟨s1, x1, a1⟩ := lex_leaf env lenient st a p R l c stk h hp hsep hterm ha
    have hn : NoNl a.text := fun d hd => (leaf_clean env a ha d hd).1
    refine ⟨s1, by simpa [NItem.text, NItem.toks] using x1, a1.cast ?_ ?_⟩
    · simp [NItem.text, nlCount_noNl _ hn]
    · simp [NItem.text, colAfter_noNl _ hn]
  · intro xs ih ind st R l c stk p h _ _ _ hok
    have hoks := nlOK_of_list hok
    cases xs with
    | nil =>
      obtain ⟨s1, x1, a1, _⟩ := lex_lb env lenient st (']' :: R) l c stk h
      obtain ⟨s2, x2, a2, _⟩ := lex_rb env lenient s1 R l (c + 1) _ _ a1
      exact ⟨s2, by simpa [NItem.text, NItem.toks] using x1.trans x2,
        a2.cast (by simp [NItem.text, nlCount]) (by simp [NItem.text, colAfter])⟩
    | cons x r =>
      have hx := nlOK_head hoks
      by_cases hm : nlMulti (x :: r) = true
      · obtain ⟨s1, x1, a1, _⟩ := lex_lb env lenient st ('\n' :: (spacesL (2 * (ind + 1)) ++ (x.text (ind + 1) ++ (nlMultiTail ind r ++ R)))) l c stk h
        obtain ⟨s2, x2, a2, _⟩ := lex_nl env lenient s1 (spacesL (2 * (ind + 1)) ++ (x.text (ind + 1) ++ (nlMultiTail ind r ++ R))) l (c + 1) _ a1
        obtain ⟨s3, x3, a3⟩ := lex_nlItemLine env lenient x (ih x (by simp)) (2 * (ind + 1)) (ind + 1) (by omega) s2
          (nlMultiTail ind r ++ R) (l + 1) _ a2 (itemTerm_nlMultiTail ind r R) hx
        obtain ⟨s4, x4, a4⟩ := lex_nlMultiTail env lenient ind r (fun y hy => ih y (by simp [hy])) s3 R _ _ _ stk a3 (nlOK_tail hoks)
        refine ⟨s4, ?_, a4.cast ?_ ?_⟩
        · have := ((x1.trans x2).trans x3).trans x4
          simpa [NItem.text, NItem.toks, hm, List.append_assoc] using this
        · simp [NItem.text, hm, nlCount, nlCount_append, nlCount_spaces]; omega
        · simp [NItem.text, hm, colAfter, colAfter_append, colAfter_spaces]
      · obtain ⟨s1, x1, a1, p1⟩ := lex_lb env lenient st (x.text ind ++ (nlInlineTail ind r ++ R)) l c stk h
        obtain ⟨s2, x2, a2⟩ := ih x (by simp) ind s1 (nlInlineTail ind r ++ R) l (c + 1) _ '[' a1 p1 (Or.inl rfl)
          (itemTerm_nlInlineTail ind r R) hx
        obtain ⟨s3, x3, a3⟩ := lex_nlInlineTail env lenient ind r (fun y hy => ih y (by simp [hy])) s2 R _ _ _ stk a2 (nlOK_tail hoks)
        refine ⟨s3, ?_, a3.cast ?_ ?_⟩
        · have := (x1.trans x2).trans x3
          simpa [NItem.text, NItem.toks, hm, List.append_assoc] using this
        · simp [NItem.text, hm, nlCount, nlCount_append]; omega
        · simp [NItem.text, hm, colAfter, colAfter_append]


/-! ### no line of the text is a fence line; no tab -/

def PFF (env : Env) (x : NItem) : Prop :=
  ∀ (ind : Nat) (R : Str), x.OK env → FFmid R →
    FFmid (x.text ind ++ R) ∧ ∀ n, FF0 (spacesL n ++ (x.text ind ++ R))

theorem ff_nlMultiTail (env : Env) (ind : Nat) (r : List NItem) :
    (∀ x ∈ r, PFF env x) → ∀ R, nlOK env r → FFmid R → FFmid (nlMultiTail ind r ++ R) := by
  induction r with
  | nil =>
    intro _ R _ hR
    show FFmid ('\n' :: ((spacesL (2 * ind) ++ [']']) ++ R))
    have e : (spacesL (2 * ind) ++ [']']) ++ R = spacesL (2 * ind) ++ ']' :: R := by simp
    rw [e]
    exact FFmid_nl _ (FF0_start (2 * ind) ']' R (by decide) (by decide) (by decide) hR)
  | cons x r ih =>
    intro hP R hok hR
    have e : nlMultiTail ind (x :: r) ++ R
        = ',' :: '\n' :: (spacesL (2 * (ind + 1)) ++ (x.text (ind + 1) ++ (nlMultiTail ind r ++ R))) := by
      simp [nlMultiTail, List.append_assoc]
    rw [e]
    exact FFmid_cons _ _ (by decide) (FFmid_nl _ ((hP x (by simp) (ind + 1) _ (nlOK_head hok)
      (ih (fun y hy => hP y (by simp [hy])) R (nlOK_tail hok) hR)).2 _))

theorem ff_nlInlineTail (env : Env) (ind : Nat) (r : List NItem) :
    (∀ x ∈ r, PFF env x) → ∀ R, nlOK env r → FFmid R → FFmid (nlInlineTail ind r ++ R) := by
  induction r with
  | nil =>
    intro _ R _ hR
    exact FFmid_cons _ _ (by decide) hR
  | cons x r ih =>
    intro hP R hok hR
    have e : nlInlineTail ind (x :: r) ++ R = ',' :: (x.text ind ++ (nlInlineTail ind r ++ R)) := by
      simp [nlInlineTail, List.append_assoc]
    rw [e]
    exact FFmid_cons _ _ (by decide) (hP x (by simp) ind _ (nlOK_head hok)
      (ih (fun y hy => hP y (by simp [hy])) R (nlOK_tail hok) hR)).1

theorem ff_nitem (env : Env) : ∀ x : NItem, PFF env x := by
  apply NItem.induct
  · intro a ind R hok hR
    have ha : a.OK env := hok a (by simp [NItem.leaves])
    obtain ⟨c0, t0, hct, h1, h2, h3⟩ := leaf_head env a ha
    have hn : NoNl a.text := fun d hd => (leaf_clean env a ha d hd).1
    have hn0 : NoNl t0 := fun d hd => hn d (by rw [hct]; simp [hd])
    refine ⟨FFmid_append _ _ hn hR, fun n => ?_⟩
    show FF0 (spacesL n ++ (a.text ++ R))
    rw [hct]
    exact FF0_start n c0 (t0 ++ R) h1 h2 h3 (FFmid_append t0 R hn0 hR)
  · intro xs ih ind R hok hR
    have hoks := nlOK_of_list hok
    have key : ∀ rest', NItem.text ind (.list xs) ++ R = '[' :: rest' → FFmid rest' →
        FFmid (NItem.text ind (.list xs) ++ R) ∧ ∀ n, FF0 (spacesL n ++ (NItem.text ind (.list xs) ++ R)) := by
      intro rest' e h
      rw [e]
      exact ⟨FFmid_cons _ _ (by decide) h, fun n => FF0_start n '[' rest' (by decide) (by decide) (by decide) h⟩
    cases xs with
    | nil => exact key (']' :: R) rfl (FFmid_cons _ _ (by decide) hR)
    | cons x r =>
      by_cases hm : nlMulti (x :: r) = true
      · refine key ('\n' :: (spacesL (2 * (ind + 1)) ++ (x.text (ind + 1) ++ (nlMultiTail ind r ++ R)))) (by simp [NItem.text, hm, List.append_assoc]) ?_
        exact FFmid_nl _ ((ih x (by simp) (ind + 1) _ (nlOK_head hoks)
          (ff_nlMultiTail env ind r (fun y hy => ih y (by simp [hy])) R (nlOK_tail hoks) hR)).2 _)
      · refine key (x.text ind ++ (nlInlineTail ind r ++ R)) (by simp [NItem.text, hm, List.append_assoc]) ?_
        exact (ih x (by simp) ind _ (nlOK_head hoks)
          (ff_nlInlineTail env ind r (fun y hy => ih y (by simp [hy])) R (nlOK_tail hoks) hR)).1

def PNT (env : Env) (x : NItem) : Prop := ∀ ind, x.OK env → NoTab (x.text ind)

theorem nt_nlMultiTail (env : Env) (ind : Nat) (r : List NItem) :
    (∀ x ∈ r, PNT env x) → nlOK env r → NoTab (nlMultiTail ind r) := by
  induction r with
  | nil =>
    intro _ _
    exact NoTab.cons (by decide) ((noTab_spaces _).append (NoTab.cons (by decide) (fun _ h => by cases h)))
  | cons x r ih =>
    intro hP hok
    exact NoTab.cons (by decide) (NoTab.cons (by decide) ((noTab_spaces _).append
      ((hP x (by simp) _ (nlOK_head hok)).append (ih (fun y hy => hP y (by simp [hy])) (nlOK_tail hok)))))

theorem nt_nlInlineTail (env : Env) (ind : Nat) (r : List NItem) :
    (∀ x ∈ r, PNT env x) → nlOK env r → NoTab (nlInlineTail ind r) := by
  induction r with
  | nil => intro _ _; exact NoTab.cons (by decide) (fun _ h => by cases h)
  | cons x r ih =>
    intro hP hok
    exact NoTab.cons (by decide) ((hP x (by simp) _ (nlOK_head hok)).append (ih (fun y hy => hP y (by simp [hy])) (nlOK_tail hok)))

theorem nt_nitem (env : Env) : ∀ x : NItem, PNT env x := by
  apply NItem.induct
  · intro a ind hok
    exact noTab_of_clean (leaf_clean env a (hok a (by simp [NItem.leaves])))
  · intro xs ih ind hok
    have hoks := nlOK_of_list hok
    cases xs with
    | nil => exact NoTab.cons (by decide) (NoTab.cons (by decide) (fun _ h => by cases h))
    | cons x r =>
      by_cases hm : nlMulti (x :: r) = true
      · simp only [NItem.text, hm, if_true]
        exact NoTab.cons (by decide) (NoTab.cons (by decide) ((noTab_spaces _).append
          ((ih x (by simp) _ (nlOK_head hoks)).append (nt_nlMultiTail env ind r (fun y hy => ih y (by simp [hy])) (nlOK_tail hoks)))))
      · simp only [NItem.text, hm, Bool.false_eq_true, if_false]
        exact NoTab.cons (by decide) ((ih x (by simp) _ (nlOK_head hoks)).append
          (nt_nlInlineTail env ind r (fun y hy => ih y (by simp [hy])) (nlOK_tail hoks)))

/-! ### lines and documents -/

structure NLine where
  key : Str
  v : NItem

def NLine.OK (env : Env) (ln : NLine) : Prop :=
  isIdentifierText ln.key = true ∧ hasReservedPrefix ln.key = false ∧ ln.v.OK env

/-- `KEY::value` without the final line end (the value at nesting level 0). -/
def NLine.text (ln : NLine) : Str := ln.key ++ (':' :: ':' :: ln.v.text 0)

def NLine.toks (ln : NLine) (l : Nat) : List Token :=
  tIdent ln.key l 1 :: tAssign l (1 + ln.key.length) :: (ln.v.toks 0 l (1 + ln.key.length + 2)
    ++ [tNewline (l + nlCount (ln.v.text 0)) (colAfter (ln.v.text 0) (1 + ln.key.length + 2))])

def NLine.height (ln : NLine) : Nat := nlCount (ln.v.text 0) + 1

def nlinesText : List NLine → Str
  | [] => []
  | x :: r => x.text ++ '\n' :: nlinesText r

def nlinesToks (l : Nat) : List NLine → List Token
  | [] => []
  | x :: r => x.toks l ++ nlinesToks (l + x.height) r

def nlinesHeight : List NLine → Nat
  | [] => 0
  | x :: r => x.height + nlinesHeight r

def ndocText (name : Str) (ls : List NLine) : Str :=
  "===".toList ++ name ++ "===".toList ++ '\n' :: (nlinesText ls ++ ("===END===".toList ++ ['\n']))

def ndocToks (name : Str) (ls : List NLine) : List Token :=
  tEnvStart name 1 1 :: tNewline 1 (1 + (name.length + 6)) :: (nlinesToks 2 ls ++
    [tEnvEnd (nlinesHeight ls + 2) 1, tNewline (nlinesHeight ls + 2) 10, tEof (nlinesHeight ls + 3) 1])

theorem lex_nline (env : Env) (lenient : Bool) (ln : NLine) (st : LState) (rest : Str) (l : Nat)
    (stk : List (Nat × Nat)) (h : At st l 1 stk) (hok : ln.OK env) :
    ∃ st', Lexes env lenient st (ln.text ++ '\n' :: rest) st' rest (ln.toks l) ∧ At st' (l + ln.height) 1 stk := by
  obtain ⟨hk1, hk2, hv⟩ := hok
  obtain ⟨s1, x1, a1⟩ := lex_ident env lenient st ln.key (':' :: ':' :: (ln.v.text 0 ++ '\n' :: rest)) l 1 stk h hk1 hk2 (termOK_colon env _)
  obtain ⟨s2, x2, a2, p2⟩ := lex_assign env lenient s1 (ln.v.text 0 ++ '\n' :: rest) l (1 + ln.key.length) stk a1
  obtain ⟨s3, x3, a3⟩ := lex_nitem env lenient ln.v 0 s2 ('\n' :: rest) l (1 + ln.key.length + 2) stk ':' a2 p2
    (Or.inr (Or.inr (Or.inr (Or.inl rfl)))) (itemTerm_nl rest) hv
  obtain ⟨s4, x4, a4, _⟩ := lex_nl env lenient s3 rest _ _ stk a3
  refine ⟨s4, ?_, a4.cast (by simp [NLine.height]; omega) rfl⟩
  have := ((x1.trans x2).trans x3).trans x4
  simpa [NLine.text, NLine.toks, List.append_assoc] using this

theorem lex_nlines (env : Env) (lenient : Bool) (ls : List NLine) :
    ∀ (st : LState) (rest : Str) (l : Nat) (stk : List (Nat × Nat)), At st l 1 stk → (∀ x ∈ ls, x.OK env) →
    ∃ st', Lexes env lenient st (nlinesText ls ++ rest) st' rest (nlinesToks l ls) ∧ At st' (l + nlinesHeight ls) 1 stk := by
  induction ls with
  | nil =>
    intro st rest l stk h _
    exact ⟨st, by simpa [nlinesText, nlinesToks] using Lexes.refl env lenient st rest, h.cast (by simp [nlinesHeight]) rfl⟩
  | cons x r ih =>
    intro st rest l stk h hok
    obtain ⟨s1, x1, a1⟩ := lex_nline env lenient x st (nlinesText r ++ rest) l stk h (hok x (by simp))
    obtain ⟨s2, x2, a2⟩ := ih s1 rest _ stk a1 (fun y hy => hok y (by simp [hy]))
    refine ⟨s2, ?_, a2.cast (by simp [nlinesHeight]; omega) rfl⟩
    have := x1.trans x2
    simpa [nlinesText, nlinesToks, List.append_assoc] using this

theorem lex_ndoc (env : Env) (lenient : Bool) (name : Str) (ls : List NLine)
    (hn : isEnvName name = true) (hne : name ≠ "END".toList) (hok : ∀ x ∈ ls, x.OK env) :
    ∃ st', Lexes env lenient ({ spans := [] } : LState) (ndocText name ls) st' [] (ndocToks name ls).dropLast ∧
      At st' (nlinesHeight ls + 3) 1 [] := by
  let st0 : LState := { spans := [] }
  obtain ⟨s1, e1, a1⟩ := step_envStart env lenient st0 name ('\n' :: (nlinesText ls ++ ("===END===".toList ++ ['\n']))) rfl hn hne
  have h1 : Lexes env lenient st0 (ndocText name ls) s1 ('\n' :: (nlinesText ls ++ ("===END===".toList ++ ['\n']))) [tEnvStart name 1 1] := by
    refine Lexes.step (by simp [ndocText]) (by simpa [ndocText] using e1) (by rw [a1.toks]; rfl) (by rw [a1.repairs]; rfl)
  have at1 : At s1 1 (1 + (name.length + 6)) [] := ⟨a1.ready, by rw [a1.line], a1.col, by rw [a1.stack]⟩
  obtain ⟨s2, x2, a2, _⟩ := lex_nl env lenient s1 (nlinesText ls ++ ("===END===".toList ++ ['\n'])) _ _ _ at1
  obtain ⟨s3, x3, a3⟩ := lex_nlines env lenient ls s2 ("===END===".toList ++ ['\n']) 2 [] a2 hok
  obtain ⟨s4, x4, a4⟩ := lex_envEnd env lenient s3 ['\n'] _ _ _ a3
  obtain ⟨s5, x5, a5, _⟩ := lex_nl env lenient s4 [] _ _ _ a4
  refine ⟨s5, ?_, a5.cast (by omega) rfl⟩
  have := (((h1.trans x2).trans x3).trans x4).trans x5
  have e : (ndocToks name ls).dropLast = [tEnvStart name 1 1] ++ [tNewline 1 (1 + (name.length + 6))] ++ nlinesToks 2 ls ++
      [tEnvEnd (2 + nlinesHeight ls) 1] ++ [tNewline (2 + nlinesHeight ls) (1 + 9)] := by
    have : ndocToks name ls = ([tEnvStart name 1 1] ++ [tNewline 1 (1 + (name.length + 6))] ++ nlinesToks 2 ls ++
      [tEnvEnd (2 + nlinesHeight ls) 1] ++ [tNewline (2 + nlinesHeight ls) (1 + 9)]) ++ [tEof (nlinesHeight ls + 3) 1] := by
      simp [ndocToks, Nat.add_comm]
    rw [this, List.dropLast_concat]
  rw [e]; exact this

theorem FF0_nline (env : Env) (ln : NLine) (Y : Str) (hok : ln.OK env) (hY : FF0 Y) : FF0 (ln.text ++ '\n' :: Y) := by
  obtain ⟨hk1, _, hv⟩ := hok
  have hne : ln.key ≠ [] := by intro e; rw [e] at hk1; simp [isIdentifierText] at hk1
  obtain ⟨kc, kt, hkey⟩ := List.exists_cons_of_ne_nil hne
  have hh := identText_head ln.key hk1 kc (by rw [hkey]; rfl)
  have hcl := identText_clean ln.key hk1
  have e : ln.text ++ '\n' :: Y = spacesL 0 ++ kc :: (kt ++ (':' :: ':' :: (ln.v.text 0 ++ '\n' :: Y))) := by
    simp [NLine.text, hkey, spacesL]
  rw [e]
  refine FF0_start 0 kc _ hh.1 hh.2 (hcl kc (by rw [hkey]; simp)).1 ?_
  refine FFmid_append kt _ (fun d hd => (hcl d (by rw [hkey]; simp [hd])).1) ?_
  exact FFmid_cons _ _ (by decide) (FFmid_cons _ _ (by decide) (ff_nitem env ln.v 0 _ hv (FFmid_nl _ hY)).1)

theorem FF0_nlines (env : Env) (ls : List NLine) (Y : Str) (hok : ∀ x ∈ ls, x.OK env) (hY : FF0 Y) : FF0 (nlinesText ls ++ Y) := by
  induction ls with
  | nil => exact hY
  | cons x r ih =>
    have := FF0_nline env x (nlinesText r ++ Y) (hok x (by simp)) (ih (fun y hy => hok y (by simp [hy])))
    simpa [nlinesText, List.append_assoc] using this

theorem FF0_ndoc (env : Env) (name : Str) (ls : List NLine) (hn : isEnvName name = true) (hok : ∀ x ∈ ls, x.OK env) :
    FF0 (ndocText name ls) := by
  have hend : FF0 ("===END===".toList ++ ['\n']) := by
    intro l hl
    have h3 : splitLines ("===END===".toList ++ ['\n']) = ["===END===".toList, []] := by decide
    rw [h3] at hl
    simp only [List.mem_cons, List.mem_nil_iff, or_false] at hl
    rcases hl with h | h <;> subst h <;> decide
  have hbody := FF0_nlines env ls _ hok hend
  have hcl := envLine_clean name hn
  have e : ndocText name ls = spacesL 0 ++ '=' :: ("==".toList ++ name ++ "===".toList ++ '\n' :: (nlinesText ls ++ ("===END===".toList ++ ['\n']))) := by
    simp [ndocText, spacesL]
  rw [e]
  refine FF0_start 0 '=' _ (by decide) (by decide) (by decide) ?_
  have e2 : "==".toList ++ name ++ "===".toList ++ '\n' :: (nlinesText ls ++ ("===END===".toList ++ ['\n']))
      = ("==".toList ++ name ++ "===".toList) ++ '\n' :: (nlinesText ls ++ ("===END===".toList ++ ['\n'])) := by simp
  rw [e2]
  refine FFmid_append _ _ ?_ (FFmid_nl _ hbody)
  intro d hd
  have e3 : "==".toList = ['=', '='] := rfl
  have e4 : "===".toList = ['=', '=', '='] := rfl
  refine (hcl d ?_).1
  rw [e3, e4] at hd; rw [e4]
  simp only [List.mem_append, List.mem_cons, List.mem_nil_iff, or_false, or_self] at hd ⊢
  rcases hd with (h | h) | h
  · exact Or.inl (Or.inl h)
  · exact Or.inl (Or.inr h)
  · exact Or.inr h

theorem noTab_nlines (env : Env) (ls : List NLine) (hok : ∀ x ∈ ls, x.OK env) : NoTab (nlinesText ls) := by
  induction ls with
  | nil => intro d hd; simp [nlinesText] at hd
  | cons x r ih =>
    have hx := hok x (by simp)
    have h1 : NoTab x.text :=
      (noTab_of_clean (identText_clean x.key hx.1)).append (NoTab.cons (by decide) (NoTab.cons (by decide) (nt_nitem env x.v 0 hx.2.2)))
    exact h1.append (NoTab.cons (by decide) (ih (fun y hy => hok y (by simp [hy]))))

theorem noTab_ndoc (env : Env) (name : Str) (ls : List NLine) (hn : isEnvName name = true) (hok : ∀ x ∈ ls, x.OK env) :
    NoTab (ndocText name ls) := by
  have h1 : NoTab ("===".toList ++ name ++ "===".toList) := noTab_of_clean (envLine_clean name hn)
  have h2 : NoTab ("===END===".toList ++ ['\n']) := fun d hd => by
    intro e; subst e; revert hd; decide
  exact h1.append (NoTab.cons (by decide) ((noTab_nlines env ls hok).append h2))

theorem ndocToks_eq (name : Str) (ls : List NLine) :
    ndocToks name ls = (ndocToks name ls).dropLast ++ [tEof (nlinesHeight ls + 3) 1] := by
  have : ndocToks name ls = (tEnvStart name 1 1 :: tNewline 1 (1 + (name.length + 6)) :: (nlinesToks 2 ls ++
    [tEnvEnd (nlinesHeight ls + 2) 1, tNewline (nlinesHeight ls + 2) 10])) ++ [tEof (nlinesHeight ls + 3) 1] := by
    simp [ndocToks]
  rw [this, List.dropLast_concat]

/-- **The lexer on a flat document whose values are nested lists** (any name, any number of lines, any nesting depth, scalars
and canonical float lexemes as leaves, both lexer modes, every environment whose NFC leaves the lines alone): `tokenize`
succeeds with exactly `ndocToks`, positions included, and with no receipt other than the notes of identifier tokens. -/
theorem tokenize_ndoc (env : Env) (lenient : Bool) (name : Str) (ls : List NLine)
    (hn : isEnvName name = true) (hne : name ≠ "END".toList) (hok : ∀ x ∈ ls, x.OK env)
    (hnfc : ∀ l ∈ splitLines (ndocText name ls), env.nfc l = l) :
    tokenize env (ndocText name ls) lenient = .ok (ndocToks name ls, toksReps (ndocToks name ls)) := by
  have hfence : ∀ l ∈ splitLines (ndocText name ls), fenceLine l = none ∧ env.nfc l = l :=
    fun l hl => ⟨FF0_ndoc env name ls hn hok l hl, hnfc l hl⟩
  have hnorm := normalize_plain env (ndocText name ls) hfence
  have htab := tabCheck_noTab [] (ndocText name ls) 0 1 1 (noTab_ndoc env name ls hn hok)
  obtain ⟨st', ⟨n, run, ht, hr⟩, hat⟩ := lex_ndoc env lenient name ls hn hne hok
  have hloop := loop_of_run env lenient _ _ st' (ndocText name ls) run (by intro sp hsp; simp at hsp)
  have hreps : toksReps (ndocToks name ls) = toksReps (ndocToks name ls).dropLast := by
    conv => lhs; rw [ndocToks_eq, toksReps_append]
    simp [toksReps, tokReps, tEof]
  unfold tokenize
  simp only [hnorm, htab, hloop, bind, Except.bind, hat.stack, List.getLast?_nil, ht, hr, hat.line, hat.col]
  rw [hreps]
  conv => rhs; rw [ndocToks_eq]
  simp [tEof]

end Octave.Nest
