import Octave.Lemmas.BlockBridge
import Octave.Lemmas.SectLex
import Octave.Lemmas.SectParse
/-!
Glue between the lexer half (`SectLex`, concrete positions) and the parser half (`SectParse`, arbitrary positions) of the
round trip of documents with SECTION MARKERS — the analogue of `BlockBridge`.

* `SecId.toP`, `SNode.toP` / `sectToP`   the content of the lexer half as the parser half describes it;
* `SNode.spos` / `sposList hash d l`    the positions the lexer gives to every source line (one `SectParse.SPos` per line,
                                        reading order), the `normFrom` mark of the marker included (`markerNf hash`);
* `sposOf hash nodes`                   the position function of the parser half;
* `AgreeS pos L i`                      `pos` coincides with the list `L` on the window `[i, i + |L|)`;
* `sectToks_agree` (mutual)             the two token descriptions coincide; `sectToks_bridge`: the whole document;
* `canon_sposOf`, `metaFirstS_bridge`, `sectDoc_bridge`   the side conditions and the document of the parser half in the
                                        vocabulary of the lexer half;
* `SContent` / `sectContent`            position-free content, determined by any AST that `sectMatches` it.
-/
namespace Octave
open Lexer Emitter

/-! ### content and positions in the vocabulary of the parser half -/

def SecId.toP : SecId → SectParse.PId
  | .num n => .num n (intStr n)
  | .name s => .name s
  | .numLetter n c => .numLetter n (intStr n) c

theorem SecId.str_toP (id : SecId) : id.toP.str = id.text := by
  cases id <;> simp [SecId.toP, SectParse.PId.str, SecId.text, intStr_natCast]

mutual
/-- the node as the parser half describes it. -/
def SNode.toP : SNode → SectParse.PNode
  | .line ln => .line ln.key ln.v.toP
  | .block key cs => .block key (sectToP cs)
  | .sect id key cs => .sect id.toP key (sectToP cs)
def sectToP : List SNode → List SectParse.PNode
  | [] => []
  | n :: ns => n.toP :: sectToP ns
end

/-- positions of the tokens of a `KEY::value` line at depth `d`, text line `l`. -/
def linePosS (ln : FLine) (d l : Nat) : SectParse.SPos :=
  { li := l, ci := 1, l := l, c0 := 1 + 2 * d, c1 := 1 + 2 * d, c1b := 1 + 2 * d, c2 := 1 + 2 * d + ln.key.length,
    c3 := 1 + 2 * d + ln.key.length + 2, c4 := 1 + 2 * d + ln.key.length + 2 + ln.v.text.length, nf := none }

/-- positions of the tokens of a block header `KEY:` at depth `d`, text line `l`. -/
def headerPosS (key : Str) (d l : Nat) : SectParse.SPos :=
  { li := l, ci := 1, l := l, c0 := 1 + 2 * d, c1 := 1 + 2 * d, c1b := 1 + 2 * d, c2 := 1 + 2 * d + key.length,
    c3 := 1 + 2 * d + key.length + 1, c4 := 1 + 2 * d + key.length + 1, nf := none }

/-- length of the digits of a `§2b` id (where its letter starts). -/
def SecId.numLen : SecId → Nat
  | .numLetter n _ => (natStr n).length
  | _ => 0

/-- positions of the tokens of a section header `§ID::NAME` at depth `d`, text line `l`; the marker's `normFrom` mark. -/
def sheaderPosS (hash : Bool) (id : SecId) (key : Str) (d l : Nat) : SectParse.SPos :=
  { li := l, ci := 1, l := l, c0 := 1 + 2 * d, c1 := 1 + 2 * d + 1, c1b := 1 + 2 * d + 1 + id.numLen,
    c2 := 1 + 2 * d + 1 + id.text.length, c3 := 1 + 2 * d + 1 + id.text.length + 2,
    c4 := 1 + 2 * d + 1 + id.text.length + 2 + key.length, nf := markerNf hash }

mutual
/-- positions of the source lines of a node at depth `d` whose first line is text line `l`, in reading order. -/
def SNode.spos (hash : Bool) (d l : Nat) : SNode → List SectParse.SPos
  | .line ln => [linePosS ln d l]
  | .block key cs => headerPosS key d l :: sposList hash (d + 1) (l + 1) cs
  | .sect id key cs => sheaderPosS hash id key d l :: sposList hash (d + 1) (l + 1) cs
def sposList (hash : Bool) (d l : Nat) : List SNode → List SectParse.SPos
  | [] => []
  | n :: ns => n.spos hash d l ++ sposList hash d (l + n.nlines) ns
end

/-- the position function of the parser half for the text: body line `i` (0-based) is text line `i + 2`. -/
def sposOf (hash : Bool) (nodes : List SNode) : Nat → SectParse.SPos := fun i => (sposList hash 0 2 nodes).getD i default

mutual
theorem SNode.lines_toP : ∀ (n : SNode), n.toP.lines = n.nlines
  | .line ln => rfl
  | .block key cs => by simp only [SNode.toP, SectParse.PNode.lines, SNode.nlines, linesList_toPS cs]
  | .sect id key cs => by simp only [SNode.toP, SectParse.PNode.lines, SNode.nlines, linesList_toPS cs]
theorem linesList_toPS : ∀ (ns : List SNode), SectParse.linesList (sectToP ns) = sectNLines ns
  | [] => rfl
  | n :: ns => by simp only [sectToP, SectParse.linesList, sectNLines, SNode.lines_toP n, linesList_toPS ns]
end

mutual
theorem SNode.spos_length (hash : Bool) : ∀ (n : SNode) (d l : Nat), (n.spos hash d l).length = n.nlines
  | .line ln, d, l => rfl
  | .block key cs, d, l => by
    simp only [SNode.spos, SNode.nlines, List.length_cons, sposList_length hash cs (d + 1) (l + 1)]; omega
  | .sect id key cs, d, l => by
    simp only [SNode.spos, SNode.nlines, List.length_cons, sposList_length hash cs (d + 1) (l + 1)]; omega
theorem sposList_length (hash : Bool) : ∀ (ns : List SNode) (d l : Nat), (sposList hash d l ns).length = sectNLines ns
  | [], d, l => rfl
  | n :: ns, d, l => by
    simp only [sposList, sectNLines, List.length_append, SNode.spos_length hash n d l, sposList_length hash ns d (l + n.nlines)]
end

/-! ### a position function that agrees with a list of positions on a window -/

/-- `pos` coincides with `L` on the index window `[i, i + L.length)`. -/
def AgreeS (pos : Nat → SectParse.SPos) (L : List SectParse.SPos) (i : Nat) : Prop :=
  ∀ j p, L[j]? = some p → pos (i + j) = p

theorem AgreeS.head {pos : Nat → SectParse.SPos} {p : SectParse.SPos} {L : List SectParse.SPos} {i : Nat}
    (h : AgreeS pos (p :: L) i) : pos i = p := h 0 p rfl

theorem AgreeS.tail {pos : Nat → SectParse.SPos} {p : SectParse.SPos} {L : List SectParse.SPos} {i : Nat}
    (h : AgreeS pos (p :: L) i) : AgreeS pos L (i + 1) := by
  intro j q hq
  have := h (j + 1) q (by simpa using hq)
  rw [← this]; congr 1; omega

theorem AgreeS.left {pos : Nat → SectParse.SPos} {A B : List SectParse.SPos} {i : Nat}
    (h : AgreeS pos (A ++ B) i) : AgreeS pos A i := by
  intro j q hq
  have hj : j < A.length := by
    rcases Nat.lt_or_ge j A.length with h' | h'
    · exact h'
    · rw [List.getElem?_eq_none h'] at hq; cases hq
  exact h j q (by rw [List.getElem?_append_left hj]; exact hq)

theorem AgreeS.right {pos : Nat → SectParse.SPos} {A B : List SectParse.SPos} {i : Nat}
    (h : AgreeS pos (A ++ B) i) : AgreeS pos B (i + A.length) := by
  intro j q hq
  have := h (A.length + j) q (by rw [List.getElem?_append_right (by omega)]; simpa using hq)
  rw [← this]; congr 1; omega

theorem agree_sposOf (hash : Bool) (nodes : List SNode) : AgreeS (sposOf hash nodes) (sposList hash 0 2 nodes) 0 := by
  intro j p hp
  simp only [sposOf, Nat.zero_add, List.getD_eq_getElem?_getD, hp, Option.getD_some]

/-! ### the two descriptions of the token list agree -/

theorem indentToks_bridgeS (d l : Nat) (p : SectParse.SPos) (h1 : p.li = l) (h2 : p.ci = 1) :
    indentToks d l = SectParse.indentToks d p := by
  cases d with
  | zero => rfl
  | succ k =>
    simp only [indentToks, SectParse.indentToks, SectParse.indentTok, tIndent, h1, h2, Nat.succ_ne_zero, if_false]

/-- the tokens of a `KEY::value` line after its INDENT. -/
theorem line_body_bridgeS (ln : FLine) (d l : Nat) :
    [tIdent ln.key l (1 + 2 * d), tAssign l (1 + 2 * d + ln.key.length), ln.v.tok l (1 + 2 * d + ln.key.length + 2),
      tNewline l (1 + 2 * d + ln.key.length + 2 + ln.v.text.length)]
      = (SectParse.mkLine ln.key ln.v.toP (linePosS ln d l)).toks := by
  simp only [FlatParse.Line.toks, FlatParse.Line.keyTok, FlatParse.Line.assignTok, FlatParse.Line.valTok,
    FlatParse.Line.nlTok, SectParse.mkLine, linePosS, FScalar.tok_toP]
  rfl

/-- the tokens of a block header after its INDENT. -/
theorem header_body_bridgeS (key : Str) (d l : Nat) :
    [tIdent key l (1 + 2 * d), tBlock l (1 + 2 * d + key.length), tNewline l (1 + 2 * d + key.length + 1)]
      = [SectParse.hdrKeyTok key (headerPosS key d l), SectParse.hdrBlockTok (headerPosS key d l),
         SectParse.hdrNlTok (headerPosS key d l)] := rfl

/-- the tokens of a section id. -/
theorem secId_toks_bridge (hash : Bool) (id : SecId) (key : Str) (d l : Nat) :
    id.toksAt l (1 + 2 * d + 1) = id.toP.toks (sheaderPosS hash id key d l) := by
  cases id <;> rfl

/-- the tokens of a section header after its INDENT. -/
theorem sheader_body_bridge (hash : Bool) (id : SecId) (key : Str) (d l : Nat) (X : List Token) :
    [tSection (markerNf hash) l (1 + 2 * d)] ++ id.toksAt l (1 + 2 * d + 1) ++
      [tAssign l (1 + 2 * d + 1 + id.text.length), tIdent key l (1 + 2 * d + 1 + id.text.length + 2),
       tNewline l (1 + 2 * d + 1 + id.text.length + 2 + key.length)] ++ X
      = SectParse.secTok (sheaderPosS hash id key d l) :: (id.toP.toks (sheaderPosS hash id key d l) ++
          SectParse.secAssignTok (sheaderPosS hash id key d l) :: SectParse.secNameTok key (sheaderPosS hash id key d l) ::
          SectParse.hdrNlTok (sheaderPosS hash id key d l) :: X) := by
  rw [secId_toks_bridge hash id key d l]
  simp only [List.cons_append, List.nil_append, List.append_assoc]
  rfl

mutual
/-- **a node**: its tokens are its INDENT followed by `body`, for every `pos` that agrees with the node's positions on the
window of its lines. -/
theorem SNode.toks_agree (hash : Bool) : ∀ (n : SNode) (d l : Nat) (pos : Nat → SectParse.SPos) (i : Nat),
    AgreeS pos (n.spos hash d l) i → n.toks hash d l = SectParse.indentToks d (pos i) ++ n.toP.body pos d i
  | .line ln, d, l, pos, i, h => by
    simp only [SNode.spos] at h
    have hp : pos i = linePosS ln d l := h.head
    simp only [SNode.toks, FLine.toksAt, SNode.toP, SectParse.PNode.body, hp]
    rw [indentToks_bridgeS d l (linePosS ln d l) rfl rfl, line_body_bridgeS]
  | .block key cs, d, l, pos, i, h => by
    simp only [SNode.spos] at h
    have hp : pos i = headerPosS key d l := h.head
    have ih := sectToks_agree hash cs (d + 1) (l + 1) pos (i + 1) h.tail
    simp only [SNode.toks, headerToks, SNode.toP, SectParse.PNode.body, hp, ih]
    rw [indentToks_bridgeS d l (headerPosS key d l) rfl rfl, header_body_bridgeS]
    simp only [List.append_assoc, List.cons_append, List.nil_append]
  | .sect id key cs, d, l, pos, i, h => by
    simp only [SNode.spos] at h
    have hp : pos i = sheaderPosS hash id key d l := h.head
    have ih := sectToks_agree hash cs (d + 1) (l + 1) pos (i + 1) h.tail
    simp only [SNode.toks, sheaderToks, SNode.toP, SectParse.PNode.body, hp, ih]
    rw [indentToks_bridgeS d l (sheaderPosS hash id key d l) rfl rfl, ← sheader_body_bridge]
    simp only [List.append_assoc, List.cons_append, List.nil_append]
/-- **a forest**: for every `pos` that agrees with `sposList hash d l ns` on the window `[i, i + lines)`. -/
theorem sectToks_agree (hash : Bool) : ∀ (ns : List SNode) (d l : Nat) (pos : Nat → SectParse.SPos) (i : Nat),
    AgreeS pos (sposList hash d l ns) i → sectToks hash d l ns = SectParse.toksList pos (sectToP ns) d i
  | [], d, l, pos, i, _ => rfl
  | n :: ns, d, l, pos, i, h => by
    simp only [sposList] at h
    have h2 := h.right
    rw [SNode.spos_length] at h2
    simp only [sectToks, sectToP, SectParse.toksList, SNode.toks_agree hash n d l pos i h.left,
      sectToks_agree hash ns d (l + n.nlines) pos (i + n.nlines) h2, SNode.lines_toP, List.append_assoc]
end

/-- **the two descriptions of the token list of the whole document agree.** -/
theorem sectToks_bridge (hash : Bool) (name : Str) (nodes : List SNode) :
    sectDocToks hash name nodes
      = SectParse.sectToks (treeFrame name (sectNLines nodes)) name (sposOf hash nodes) (sectToP nodes) := by
  rw [sectDocToks_eq, sectToks_agree hash nodes 0 2 (sposOf hash nodes) 0 (agree_sposOf hash nodes)]
  rfl

/-! ### the side conditions of the parser half -/

/-- the parser's `str.isalpha` accepts every ASCII letter. -/
def AlphaOK (al : Char → Bool) : Prop := ∀ c, isAlphaA c = true → al c = true

theorem alphaOK_env (env : Env) : AlphaOK env.isAlpha := by
  intro c hc
  have ha : isAscii c = true := by
    simp only [isAlphaA, isUpper, isLower, isAscii, Bool.or_eq_true, Bool.and_eq_true, decide_eq_true_eq] at *
    omega
  simp [Env.isAlpha, ha, hc]

theorem SecId.letterOk_toP (al : Char → Bool) (hal : AlphaOK al) (id : SecId) (h : id.OK) : id.toP.letterOk al = true := by
  cases id with
  | num n => rfl
  | name s => rfl
  | numLetter n c => exact hal c h.2

mutual
theorem SNode.canon_agree (hash : Bool) (al : Char → Bool) (hal : AlphaOK al) :
    ∀ (n : SNode) (d l : Nat) (pos : Nat → SectParse.SPos) (i : Nat),
    n.OK → AgreeS pos (n.spos hash d l) i → n.toP.canon al pos d i = true
  | .line ln, d, l, pos, i, _, _ => rfl
  | .block key cs, d, l, pos, i, hok, h => by
    simp only [SNode.spos] at h
    simp only [SNode.OK] at hok
    have hp : pos i = headerPosS key d l := h.head
    simp only [SNode.toP, SectParse.PNode.canon, hp, canonList_agree hash al hal cs (d + 1) (l + 1) pos (i + 1) hok.2.2 h.tail,
      Bool.and_true, decide_eq_true_eq, headerPosS]
    omega
  | .sect id key cs, d, l, pos, i, hok, h => by
    simp only [SNode.spos] at h
    simp only [SNode.OK] at hok
    have hp : pos i = sheaderPosS hash id key d l := h.head
    simp only [SNode.toP, SectParse.PNode.canon, hp, canonList_agree hash al hal cs (d + 1) (l + 1) pos (i + 1) hok.2.2.2 h.tail,
      Bool.and_true, decide_eq_true_eq, sheaderPosS, SecId.letterOk_toP al hal id hok.1, Bool.true_and]
    omega
theorem canonList_agree (hash : Bool) (al : Char → Bool) (hal : AlphaOK al) :
    ∀ (ns : List SNode) (d l : Nat) (pos : Nat → SectParse.SPos) (i : Nat),
    sectOK ns → AgreeS pos (sposList hash d l ns) i → SectParse.canonList al pos (sectToP ns) d i = true
  | [], d, l, pos, i, _, _ => rfl
  | n :: ns, d, l, pos, i, hok, h => by
    simp only [sposList] at h
    simp only [sectOK] at hok
    have h2 := h.right
    rw [SNode.spos_length] at h2
    simp only [sectToP, SectParse.canonList, SNode.canon_agree hash al hal n d l pos i hok.1 h.left, SNode.lines_toP,
      canonList_agree hash al hal ns d (l + n.nlines) pos (i + n.nlines) hok.2 h2, Bool.and_self]
end

/-- every block key and every section marker of the text sits at column `2·d + 1`, and every `§2b` letter is a letter. -/
theorem canon_sposOf (hash : Bool) (al : Char → Bool) (hal : AlphaOK al) (nodes : List SNode) (hok : sectOK nodes) :
    SectParse.canonList al (sposOf hash nodes) (sectToP nodes) 0 0 = true :=
  canonList_agree hash al hal nodes 0 2 (sposOf hash nodes) 0 hok (agree_sposOf hash nodes)

theorem wf_sposOf (hash : Bool) (al : Char → Bool) (hal : AlphaOK al) (nodes : List SNode) (hok : sectOK nodes) :
    SectParse.wfList al (sposOf hash nodes) (sectToP nodes) 0 0 = true :=
  SectParse.wfList_of_canon al _ _ 0 0 (canon_sposOf hash al hal nodes hok)

/-- the first top-level node is a line or a block keyed `META` (a section marker never is). -/
def firstKeyIsMetaS : List SNode → Bool
  | .line ln :: _ => ln.key == "META".toList
  | .block key _ :: _ => key == "META".toList
  | _ => false

theorem metaFirstS_bridge (nodes : List SNode) : SectParse.metaFirstS (sectToP nodes) = firstKeyIsMetaS nodes := by
  cases nodes with
  | nil => rfl
  | cons n ns => cases n <;> rfl

/-! ### the document -/

mutual
theorem SNode.node_agree (hash : Bool) : ∀ (n : SNode) (d : Nat) (pos : Nat → SectParse.SPos) (i : Nat),
    AgreeS pos (n.spos hash d (i + 2)) i → n.toP.node pos i = n.node canonPos i d
  | .line ln, d, pos, i, h => by
    simp only [SNode.spos] at h
    have hp : pos i = linePosS ln d (i + 2) := h.head
    simp only [SNode.toP, SectParse.PNode.node, SNode.node, FlatParse.Line.node, SectParse.mkLine, hp, linePosS, canonPos,
      FScalar.val_toP]
  | .block key cs, d, pos, i, h => by
    simp only [SNode.spos] at h
    have hp : pos i = headerPosS key d (i + 2) := h.head
    have ht := h.tail
    rw [show i + 2 + 1 = (i + 1) + 2 by omega] at ht
    simp only [SNode.toP, SectParse.PNode.node, SNode.node, hp, headerPosS, canonPos,
      nodeList_agreeS hash cs (d + 1) pos (i + 1) ht]
  | .sect id key cs, d, pos, i, h => by
    simp only [SNode.spos] at h
    have hp : pos i = sheaderPosS hash id key d (i + 2) := h.head
    have ht := h.tail
    rw [show i + 2 + 1 = (i + 1) + 2 by omega] at ht
    simp only [SNode.toP, SectParse.PNode.node, SNode.node, hp, sheaderPosS, canonPos, SecId.str_toP,
      nodeList_agreeS hash cs (d + 1) pos (i + 1) ht]
theorem nodeList_agreeS (hash : Bool) : ∀ (ns : List SNode) (d : Nat) (pos : Nat → SectParse.SPos) (i : Nat),
    AgreeS pos (sposList hash d (i + 2) ns) i → SectParse.nodeList pos (sectToP ns) i = sectNodes canonPos i d ns
  | [], d, pos, i, _ => rfl
  | n :: ns, d, pos, i, h => by
    simp only [sposList] at h
    have h2 := h.right
    rw [SNode.spos_length, show i + 2 + n.nlines = (i + n.nlines) + 2 by omega] at h2
    simp only [sectToP, SectParse.nodeList, sectNodes, SNode.node_agree hash n d pos i h.left, SNode.lines_toP,
      nodeList_agreeS hash ns d pos (i + n.nlines) h2]
end

/-- **the document of the parser half is the document of the lexer half** at the canonical positions (each node at its text
line, column `1 + 2·depth`), whichever way the markers are spelled. -/
theorem sectDoc_bridge (hash : Bool) (name : Str) (nodes : List SNode) :
    SectParse.sectDoc name (sposOf hash nodes) (sectToP nodes) = sectDoc name canonPos nodes := by
  simp only [SectParse.sectDoc, sectDoc, nodeList_agreeS hash nodes 0 (sposOf hash nodes) 0 (agree_sposOf hash nodes)]

theorem stripFrontmatter_sect (env : Env) (hash : Bool) (name : Str) (nodes : List SNode) :
    Parser.stripFrontmatter env (sectDocText hash name nodes) = (sectDocText hash name nodes, none) := by
  unfold Parser.stripFrontmatter
  have : startsWith "---".toList (sectDocText hash name nodes) = false := by
    simp [sectDocText, startsWith, List.isPrefixOf]
  rw [this]; rfl

/-! ### position-free content -/

/-- the content of a forest with every position forgotten: ids, names, keys, nesting, order, values with their types. -/
inductive SContent where
  | line (key : Str) (v : Value)
  | block (key : Str) (children : List SContent)
  | sect (id key : Str) (children : List SContent)

mutual
def SNode.content : SNode → SContent
  | .line ln => .line ln.key ln.v.value
  | .block key cs => .block key (sectContent cs)
  | .sect id key cs => .sect id.text key (sectContent cs)
def sectContent : List SNode → List SContent
  | [] => []
  | n :: ns => n.content :: sectContent ns
end

mutual
/-- an AST node determines the content of every node that `Matches` it. -/
theorem SNode.content_of_matches : ∀ (t t' : SNode) (n : Node), t.Matches n → t'.Matches n → t.content = t'.content
  | .line ln, .line ln', n, h, h' => by
    simp only [SNode.Matches] at h h'
    obtain ⟨l, c, rfl⟩ := h
    obtain ⟨l', c', e⟩ := h'
    simp only [Node.assign.injEq] at e
    simp only [SNode.content, e.1, e.2.1]
  | .line ln, .block key' cs', n, h, h' => by
    simp only [SNode.Matches] at h h'
    obtain ⟨l, c, rfl⟩ := h
    obtain ⟨ch, l', c', e, _⟩ := h'
    cases e
  | .line ln, .sect id' key' cs', n, h, h' => by
    simp only [SNode.Matches] at h h'
    obtain ⟨l, c, rfl⟩ := h
    obtain ⟨ch, l', c', e, _⟩ := h'
    cases e
  | .block key cs, .line ln', n, h, h' => by
    simp only [SNode.Matches] at h h'
    obtain ⟨ch, l, c, rfl, _⟩ := h
    obtain ⟨l', c', e⟩ := h'
    cases e
  | .block key cs, .sect id' key' cs', n, h, h' => by
    simp only [SNode.Matches] at h h'
    obtain ⟨ch, l, c, rfl, _⟩ := h
    obtain ⟨ch', l', c', e, _⟩ := h'
    cases e
  | .block key cs, .block key' cs', n, h, h' => by
    simp only [SNode.Matches] at h h'
    obtain ⟨ch, l, c, rfl, hm⟩ := h
    obtain ⟨ch', l', c', e, hm'⟩ := h'
    simp only [Node.block.injEq] at e
    obtain ⟨ek, ec, _⟩ := e
    subst ec
    simp only [SNode.content, ek, sectContent_of_matches cs cs' ch hm hm']
  | .sect id key cs, .line ln', n, h, h' => by
    simp only [SNode.Matches] at h h'
    obtain ⟨ch, l, c, rfl, _⟩ := h
    obtain ⟨l', c', e⟩ := h'
    cases e
  | .sect id key cs, .block key' cs', n, h, h' => by
    simp only [SNode.Matches] at h h'
    obtain ⟨ch, l, c, rfl, _⟩ := h
    obtain ⟨ch', l', c', e, _⟩ := h'
    cases e
  | .sect id key cs, .sect id' key' cs', n, h, h' => by
    simp only [SNode.Matches] at h h'
    obtain ⟨ch, l, c, rfl, hm⟩ := h
    obtain ⟨ch', l', c', e, hm'⟩ := h'
    simp only [Node.sect.injEq] at e
    obtain ⟨ei, ek, _, ec, _⟩ := e
    subst ec
    simp only [SNode.content, ei, ek, sectContent_of_matches cs cs' ch hm hm']
theorem sectContent_of_matches : ∀ (ts ts' : List SNode) (ns : List Node), sectMatches ts ns → sectMatches ts' ns →
    sectContent ts = sectContent ts'
  | [], [], _, _, _ => rfl
  | [], t' :: ts', ns, h, h' => by
    simp only [sectMatches] at h h'
    obtain ⟨n, ns', e, _⟩ := h'
    rw [h] at e; cases e
  | t :: ts, [], ns, h, h' => by
    simp only [sectMatches] at h h'
    obtain ⟨n, ns', e, _⟩ := h
    rw [h'] at e; cases e
  | t :: ts, t' :: ts', ns, h, h' => by
    simp only [sectMatches] at h h'
    obtain ⟨n, ns1, rfl, hm, hr⟩ := h
    obtain ⟨n', ns1', e, hm', hr'⟩ := h'
    simp only [List.cons.injEq] at e
    obtain ⟨e1, e2⟩ := e
    subst e1; subst e2
    simp only [sectContent, SNode.content_of_matches t t' n hm hm', sectContent_of_matches ts ts' ns1 hr hr']
end


end Octave
