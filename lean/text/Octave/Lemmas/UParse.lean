/-
Parser half of the UNIFIED document-level read theorem (C01 / C02 / C03): lines whose values are scalars, LISTS or operator
EXPRESSIONS, nested in BLOCKS and SECTIONS of any depth and width.

Content model at token level (every line / column number arbitrary, the positions are stored in the nodes):

* `QLine`   one line `KEY :: value NEWLINE`: the key token, the `::` token, the value tokens `vt :: vr`, the NEWLINE token, the
            value `v` and the warnings `vw` that `parse_value` raises on it.  `QLine.OK` says what `parse_value` does on the value
            tokens from ANY state at bracket depth 0 (`ListDocParse.Top`): it returns `v`, stops on the NEWLINE and adds exactly
            `vw` — this is the only thing the block / section / document loops need to know about a value, so the scheme below is
            GENERIC in the kind of value.  Instances: `qline_scalar_ok` (`FlatParse.parseValue_scalar`), `qline_list_ok`
            (`ListDocParse.parseValue_listToks`: any layout, NEWLINE / INDENT tokens inside the brackets are consumed by
            `listLoop`, never seen by `blockLoop`), `qline_expr_ok` (`Expr.parseValue_expr`: bracket depth 0, any `normFrom`).
* `QNode`   `line` | `block` (header positions `SPos`, key, children) | `sect` (header positions, id, name, children).

What is proved about the model's parser (`parseSection`, `parseSectionMarker`, `blockLoop`, `sectionLoop`, `docLoop`,
`parseDocument`), following the scheme of `Lemmas/SectParse` (three mutually dependent statements tied by strong induction on
the fuel: `HdrOK` / `ChildOK` / `LoopOK`):

* `parseSection_qline`    `parse_section` on a line (the generic `ListDocParse.parseSection_value` under `QLine.OK`);
* `childLoop_line_step`   two iterations of a child loop on a line child (the Assignment, then its NEWLINE);
* `parseSection_node`     `parse_section` on a block or a section of any depth and width;
* `childLoop_forest`      either child loop on any forest of children;
* `docLoop_forest`, `parseDocument_forest`   the body loop and the whole `parse_document`, with the parser's own fuel.

Result states are described by `After st rest warnings st'`: `st'` is `st` with the cursor on `rest` and `warnings` added in
front (`prev` and the cursor count are whatever they are: no loop reads them, `QLine.OK` holds from any state).
Conditions found in the code: `QNode.wf` (the column of a block key / a section marker is read as the node's indentation; the
letter of a `§2b` id; every line satisfies `QLine.OK`), `stopsAt` (what may follow), `metaFirstQ` (a leading top-level `META`).
-/
import Octave.Lemmas.SectParse
import Octave.Lemmas.ListDocParse
import Octave.Lemmas.ExprParse
set_option linter.unusedSimpArgs false
namespace Octave.UParse
open Octave Parser FlatParse
open Octave.BlockParse (indentVal stopsAt stopsAt_mono blockLoop_stop preIndentComments_stop set_mk)
open Octave.SectParse (PId SPos hdrKeyTok hdrBlockTok hdrNlTok secTok secAssignTok secNameTok idNumTok idNameTok idLetterTok
  childLoop childLoop_true childLoop_false childLoop_stop consumeBracketAnnotation_none pyStrVal_int)
open Octave.ListDocParse (lineWarns parseSection_value Top lineWarns_reverse)

/-- evaluation of the parser monad on explicit states (as in `Lemmas/FlatParse.lean`). -/
local macro "step_simp" "[" ts:Lean.Parser.Tactic.simpLemma,* "]" : tactic =>
  `(tactic| simp only [bind, StateT.bind, Except.bind, pure, StateT.pure, Except.pure, current_mk, peek_mk, advance_mk,
      curType_mk, isAdjacentBracket_mk, budget_mk, warn_mk, get, getThe, MonadStateOf.get, StateT.get,
      Bool.false_eq_true, if_false, if_true, Bool.false_and, Bool.and_false, Bool.or_false, Bool.false_or,
      List.length_cons, List.length_nil, beq_iff_eq, bne_iff_ne, ne_eq, reduceCtorEq, not_true_eq_false, not_false_eq_true,
      Bool.and_eq_true, Bool.or_eq_true, Bool.not_eq_true', beq_eq_false_iff_ne, false_and, and_false, true_and, and_true,
      false_or, or_false, true_or, or_true, decide_eq_true_eq,
      beq_self_eq_true, Bool.true_or, Bool.or_true, Bool.true_and, Bool.and_true, Bool.not_true, Bool.not_false, $ts,*])

/-! ## Result states -/

/-- `st'` is `st` with the cursor on `r` and the warnings `w` (newest first) added; `prev` and the cursor count are free. -/
def After (st : PState) (r : List Token) (w : List Warning) (st' : PState) : Prop :=
  ∃ p n, st' = { st with rest := r, prev := p, pos := n, warnings := w ++ st.warnings }

/-! ## Lines -/

/-- one line `KEY :: value NEWLINE` at token level.  `il` / `ic`: position of the INDENT token in front of it (depth > 0 only);
the value is ANY token list `vt :: vr` that `parse_value` reads as `v`, raising the warnings `vw` (newest first). -/
structure QLine where
  il : Nat
  ic : Nat
  kt : Token
  key : Str
  a : Token
  vt : Token
  vr : List Token
  v : Value
  vw : List Warning
  nl : Token

def QLine.toks (ln : QLine) : List Token := ln.kt :: ln.a :: ln.vt :: (ln.vr ++ [ln.nl])
def QLine.node (ln : QLine) : Node := .assign ln.key ln.v ln.kt.line ln.kt.col [] none
/-- the warnings `parse_section` files for the line, newest first: those of the value, then W_PATTERN_AUTOQUOTE. -/
def QLine.warnsRev (ln : QLine) : List Warning := lineWarns ln.key ln.v ln.vt ln.kt ++ ln.vw

/-- the line is well formed: token types, and `parse_value` — from any state at bracket depth 0, with fuel at least the number
of value tokens plus 6 — reads the value tokens as `v`, stops on the NEWLINE and adds exactly the warnings `vw`. -/
structure QLine.OK (ln : QLine) : Prop where
  kt : ln.kt.type = .identifier
  kv : ln.kt.value = .str ln.key
  a : ln.a.type = .assign
  nl : ln.nl.type = .newline
  reads : ∀ (st : PState) (k : List Token) (fuel : Nat), Top st → st.rest = ln.vt :: (ln.vr ++ ln.nl :: k) →
    ln.vr.length + 7 ≤ fuel → ∃ s3, parseValue fuel st = .ok (ln.v, s3) ∧ After st (ln.nl :: k) ln.vw s3

/-- **`parse_section` on a line with any value** (generic in the value: `QLine.OK`). -/
theorem parseSection_qline (ln : QLine) (h : ln.OK) (st : PState) (k : List Token) (fuel : Nat) (ht : Top st)
    (hr : st.rest = ln.toks ++ k) (hf : ln.vr.length + 8 ≤ fuel) :
    ∃ s3, parseSection fuel [] st = .ok (some ln.node, s3) ∧ After st (ln.nl :: k) ln.warnsRev s3 := by
  obtain ⟨f, rfl⟩ : ∃ f, fuel = f + 1 := ⟨fuel - 1, by omega⟩
  have hr' : st.rest = ln.kt :: ln.a :: ln.vt :: (ln.vr ++ ln.nl :: k) := by rw [hr]; simp [QLine.toks]
  have ht2 : Top ({ st with rest := ln.vt :: (ln.vr ++ ln.nl :: k), prev := some ln.a, pos := st.pos + 1 + 1 } : PState) := ht
  obtain ⟨s3, hv, p, n, rfl⟩ := h.reads _ k f ht2 rfl (by omega)
  have hps := parseSection_value st _ ln.kt ln.a ln.vt (ln.vr ++ ln.nl :: k) k ln.key ln.v ln.nl f h.kt h.kv h.a hr' hv rfl h.nl
  refine ⟨_, hps, p, n, ?_⟩
  simp only [QLine.warnsRev, List.append_assoc]

/-- two iterations of a child loop (of a block: `b = false`, of a section: `b = true`) on a line child: `parse_section`
reads the Assignment, its key is tracked, the line's NEWLINE is stepped over. -/
theorem childLoop_line_step (b : Bool) (fuel ci li : Nat) (hli : ¬ li < ci) (acc : List Node) (kp : KeyPos) (st s3 : PState)
    (kt : Token) (R : List Token) (node : Node) (key : Str) (line : Nat) (nl u : Token) (r' : List Token)
    (hr : st.rest = kt :: R) (hkt : kt.type = .identifier)
    (hps : parseSection (fuel + 1) [] st = .ok (some node, s3)) (hk : nodeAssignKey? node = some (key, line))
    (hr3 : s3.rest = nl :: u :: r') (hnl : nl.type = .newline) :
    childLoop b (fuel + 2) ci li [] acc kp st
      = childLoop b fuel ci 0 [] (acc ++ [node]) (trackPure kp key line).1
          { s3 with rest := u :: r', prev := some nl, pos := s3.pos + 1, warnings := (trackPure kp key line).2 ++ s3.warnings } := by
  have hst : st = { st with rest := kt :: R } := by rw [← hr]
  have hs3 : s3 = { s3 with rest := nl :: u :: r' } := by rw [← hr3]
  cases b
  · rw [childLoop_false, blockLoop]
    conv => lhs; rw [hst]
    step_simp [hkt, hli, List.map_nil, List.append_nil]
    rw [← hst, hps]
    step_simp [hk, trackKey_eq]
    rw [blockLoop, hs3]
    step_simp [hnl]
  · rw [childLoop_true, sectionLoop]
    conv => lhs; rw [hst]
    step_simp [hkt, hli, List.map_nil, List.append_nil]
    rw [← hst, hps]
    step_simp [hk, trackKey_eq]
    rw [sectionLoop, hs3]
    step_simp [hnl]

/-! ## Content model -/

/-- document content below the envelope at token level: lines (any value), blocks `KEY:` and sections `§ID::NAME` with
children; the positions of the header tokens (`SPos`, as in `Lemmas/SectParse`) are stored in the node. -/
inductive QNode where
  | line (ln : QLine)
  | block (p : SPos) (key : Str) (children : List QNode)
  | sect (p : SPos) (id : PId) (key : Str) (children : List QNode)

/-- position of the INDENT token in front of the node (depth > 0 only). -/
def QNode.ipos : QNode → Nat × Nat
  | .line ln => (ln.il, ln.ic)
  | .block p _ _ => (p.li, p.ci)
  | .sect p _ _ _ => (p.li, p.ci)

/-- the INDENT token in front of a node at depth `d`: its VALUE `2·d` is content. -/
def QNode.itok (c : QNode) (d : Nat) : Token := { type := .indent, value := .nat (2 * d), line := c.ipos.1, col := c.ipos.2 }

def QNode.indent (c : QNode) : Nat → List Token
  | 0 => []
  | d + 1 => [c.itok (d + 1)]

mutual
/-- tokens of a node at depth `d` WITHOUT the leading INDENT token. -/
def QNode.body : QNode → Nat → List Token
  | .line ln, _ => ln.toks
  | .block p key cs, d => hdrKeyTok key p :: hdrBlockTok p :: hdrNlTok p :: toksList cs (d + 1)
  | .sect p id key cs, d => secTok p :: (id.toks p ++ secAssignTok p :: secNameTok key p :: hdrNlTok p :: toksList cs (d + 1))
/-- tokens of a forest at depth `d`: every node with its INDENT token (if `d > 0`). -/
def toksList : List QNode → Nat → List Token
  | [], _ => []
  | c :: cs, d => c.indent d ++ (c.body d ++ toksList cs d)
end

mutual
/-- the AST node the reader must produce (positions: those of the key token / of the section marker). -/
def QNode.node : QNode → Node
  | .line ln => ln.node
  | .block p key cs => .block key (nodeList cs) p.l p.c1 [] none
  | .sect p id key cs => .sect id.str key none (nodeList cs) p.l p.c0 []
def nodeList : List QNode → List Node
  | [] => []
  | c :: cs => c.node :: nodeList cs
end

/-- duplicate-key bookkeeping of a child loop: only Assignment children are tracked. -/
def trackNode (kp : KeyPos) : QNode → KeyPos × List Warning
  | .line ln => trackPure kp ln.key ln.kt.line
  | .block _ _ _ => (kp, [])
  | .sect _ _ _ _ => (kp, [])

mutual
/-- warnings `parseSection` emits on the node, in emission order. -/
def QNode.warns : QNode → List Warning
  | .line ln => ln.warnsRev.reverse
  | .block _ _ cs => warnsList cs []
  | .sect _ _ _ cs => warnsList cs []
/-- warnings of a child loop (block body, section body or document body) on a forest, starting from key table `kp`. -/
def warnsList : List QNode → KeyPos → List Warning
  | [], _ => []
  | c :: cs, kp => c.warns ++ ((trackNode kp c).2 ++ warnsList cs (trackNode kp c).1)
end

mutual
/-- the conditions the code imposes: every line is `QLine.OK`; the COLUMN of a block key / of a section marker is read as the
node's own indentation `+ 1` — with children it must be `<` the children's indentation `2·(d+1)` (else the first child is
not "indented": the node is read as empty and the children are re-parented), without children it must be `≥ 2·d` (else the
next sibling is taken as its child); the letter of a `§2b` id is alphabetic for the parser. -/
def QNode.wf (al : Char → Bool) : QNode → Nat → Prop
  | .line ln, _ => ln.OK
  | .block p _ cs, d => (if cs.isEmpty then 2 * d ≤ p.c1 - 1 else p.c1 - 1 < 2 * (d + 1)) ∧ wfList al cs (d + 1)
  | .sect p id _ cs, d =>
    id.letterOk al = true ∧ (if cs.isEmpty then 2 * d ≤ p.c0 - 1 else p.c0 - 1 < 2 * (d + 1)) ∧ wfList al cs (d + 1)
def wfList (al : Char → Bool) : List QNode → Nat → Prop
  | [], _ => True
  | c :: cs, d => c.wf al d ∧ wfList al cs d
end

/-- a block or a section (a node with a header line). -/
def QNode.isHdr : QNode → Bool
  | .line _ => false
  | _ => true

/-! ## The three mutually dependent statements, indexed by the fuel -/

/-- `parseSection` on a block or a section at depth `d` (cursor on its first token, INDENT already consumed), followed by
a token that `stopsAt` depth `d`: the node with exactly the children; cursor on that token; only warnings added. -/
def HdrOK (F : Nat) : Prop :=
  ∀ (c : QNode) (d : Nat) (st : PState) (e : Token) (k : List Token),
    c.isHdr = true → Top st →
    st.rest = c.body d ++ e :: k →
    stopsAt (2 * d + 1) e = true →
    c.wf st.alpha d →
    (c.body d).length + 4 ≤ F →
    ∃ st', parseSection F [] st = .ok (some c.node, st') ∧ After st (e :: k) c.warns.reverse st'

/-- a child loop with the cursor on the first token of child `c` (its INDENT consumed: `lineIndent = li ≥ childIndent`),
further children `cs` behind it. -/
def ChildOK (F : Nat) : Prop :=
  ∀ (b : Bool) (c : QNode) (cs : List QNode) (d li : Nat) (st : PState) (e : Token) (k : List Token) (acc : List Node) (kp : KeyPos),
    Top st →
    st.rest = c.body (d + 1) ++ (toksList cs (d + 1) ++ e :: k) →
    2 * (d + 1) ≤ li →
    stopsAt (2 * (d + 1)) e = true →
    c.wf st.alpha (d + 1) → wfList st.alpha cs (d + 1) →
    (c.body (d + 1)).length + (toksList cs (d + 1)).length + 1 + 4 ≤ F →
    ∃ st', childLoop b F (2 * (d + 1)) li [] acc kp st = .ok (acc ++ nodeList (c :: cs), st') ∧
      After st (e :: k) (warnsList (c :: cs) kp).reverse st'

/-- a child loop at the start of a line (`lineIndent = 0`), children `cs` (each with its INDENT) ahead. -/
def LoopOK (F : Nat) : Prop :=
  ∀ (b : Bool) (cs : List QNode) (d : Nat) (st : PState) (e : Token) (k : List Token) (acc : List Node) (kp : KeyPos),
    Top st →
    st.rest = toksList cs (d + 1) ++ e :: k →
    stopsAt (2 * (d + 1)) e = true →
    wfList st.alpha cs (d + 1) →
    (toksList cs (d + 1)).length + 1 + 4 ≤ F →
    ∃ st', childLoop b F (2 * (d + 1)) 0 [] acc kp st = .ok (acc ++ nodeList cs, st') ∧
      After st (e :: k) (warnsList cs kp).reverse st'

theorem body_ne_nil (c : QNode) (d : Nat) (r : List Token) : c.body d ++ r ≠ [] := by
  cases c <;> simp [QNode.body, QLine.toks]

theorem loop_of (F : Nat) (ih : ∀ F' < F, ChildOK F') : LoopOK F := by
  intro b cs d st e k acc kp ht hr hs hc hF
  obtain ⟨rest, p, n, la, w, dp, wd, s, th, al⟩ := st
  simp only at hr hc
  subst hr
  obtain ⟨F', rfl⟩ : ∃ F', F = F' + 1 := ⟨F - 1, by omega⟩
  cases cs with
  | nil =>
    refine ⟨_, ?_, p, n, rfl⟩
    simp only [toksList, List.nil_append]
    rw [childLoop_stop (hci := by omega) (hs := hs)]
    simp only [nodeList, List.append_nil, warnsList, List.reverse_nil, List.nil_append]
  | cons c cs =>
    simp only [toksList, QNode.indent, List.cons_append, List.nil_append, List.append_assoc, wfList,
      List.length_cons, List.length_append] at hF hc ⊢
    obtain ⟨st', hch, p', n', rfl⟩ := ih F' (Nat.lt_succ_self _) b c cs d (2 * (d + 1))
      { rest := c.body (d + 1) ++ (toksList cs (d + 1) ++ e :: k), prev := some (c.itok (d + 1)),
        pos := n + 1, last := la, warnings := w, depth := dp, warned := wd, strict := s, threshold := th, alpha := al }
      e k acc kp ht rfl (Nat.le_refl _) hs hc.1 hc.2 (by omega)
    refine ⟨_, ?_, p', n', rfl⟩
    cases b
    · rw [childLoop_false] at hch ⊢
      rw [blockLoop]
      step_simp [QNode.itok, Nat.lt_irrefl]
      rw [advance_ne (h := body_ne_nil c (d + 1) _)]
      simp only []
      simp only [QNode.itok] at hch
      exact hch
    · rw [childLoop_true] at hch ⊢
      rw [sectionLoop]
      step_simp [QNode.itok, Nat.lt_irrefl]
      rw [advance_ne (h := body_ne_nil c (d + 1) _)]
      simp only []
      simp only [QNode.itok] at hch
      exact hch

/-- the first token after a node at depth `d` (a sibling's INDENT or first token, or what follows the forest) `stopsAt` depth `d`. -/
theorem cont_head (al : Char → Bool) (cs : List QNode) (d : Nat) (e : Token) (k : List Token) (hwf : wfList al cs d)
    (hs : stopsAt (2 * d + 1) e = true) :
    ∃ e' k', toksList cs d ++ e :: k = e' :: k' ∧ stopsAt (2 * d + 1) e' = true := by
  cases cs with
  | nil => exact ⟨e, k, rfl, hs⟩
  | cons c cs =>
    cases d with
    | zero =>
      cases c with
      | line ln =>
        have h : ln.OK := hwf.1
        exact ⟨_, _, rfl, by simp [stopsAt, h.kt]⟩
      | block p key cs' => exact ⟨_, _, rfl, by simp [stopsAt, hdrKeyTok]⟩
      | sect p id key cs' => exact ⟨_, _, rfl, by simp [stopsAt, secTok]⟩
    | succ d => exact ⟨_, _, rfl, by simp [stopsAt, QNode.itok, indentVal]⟩

/-- the first token of a block or a section: an IDENTIFIER or a SECTION token. -/
theorem hdr_head (c : QNode) (d : Nat) (hh : c.isHdr = true) :
    ∃ t r, c.body d = t :: r ∧ (t.type = TT.identifier ∨ t.type = TT.section) := by
  cases c with
  | line ln => cases hh
  | block p key cs => exact ⟨_, _, rfl, Or.inl rfl⟩
  | sect p id key cs => exact ⟨_, _, rfl, Or.inr rfl⟩

theorem hdr_node_key (c : QNode) (hh : c.isHdr = true) : nodeAssignKey? c.node = none := by
  cases c with
  | line ln => cases hh
  | block p key cs => rfl
  | sect p id key cs => rfl

theorem hdr_track (kp : KeyPos) (c : QNode) (hh : c.isHdr = true) : trackNode kp c = (kp, []) := by
  cases c with
  | line ln => cases hh
  | block p key cs => rfl
  | sect p id key cs => rfl

theorem forest_cons (cs : List QNode) (d : Nat) (e : Token) (k : List Token) : ∃ u K, toksList cs d ++ e :: k = u :: K := by
  cases h : toksList cs d ++ e :: k with
  | nil => simp at h
  | cons u K => exact ⟨u, K, rfl⟩

theorem child_of (F : Nat) (ihS : ∀ F' < F, HdrOK F') (ihL : ∀ F' < F, LoopOK F') : ChildOK F := by
  intro b c cs d li st e k acc kp ht hr hli hs hc hcs hF
  have hnlt : ¬ li < 2 * (d + 1) := by omega
  by_cases hh : c.isHdr = true
  · -- a block or a section
    obtain ⟨e', k', hek, hs'⟩ := cont_head st.alpha cs (d + 1) e k hcs (stopsAt_mono (by omega) hs)
    rw [hek] at hr
    obtain ⟨rest, p, n, la, w, dp, wd, s, th, al⟩ := st
    simp only at hr hc hcs
    subst hr
    obtain ⟨F', rfl⟩ : ∃ F', F = F' + 1 := ⟨F - 1, by omega⟩
    obtain ⟨t, r, hb, htt⟩ := hdr_head c (d + 1) hh
    have hlen : (c.body (d + 1)).length = r.length + 1 := by rw [hb]; rfl
    obtain ⟨s1, hsec, p1, n1, rfl⟩ := ihS F' (Nat.lt_succ_self _) c (d + 1)
      { rest := c.body (d + 1) ++ e' :: k', prev := p, pos := n, last := la, warnings := w, depth := dp,
        warned := wd, strict := s, threshold := th, alpha := al } e' k' hh ht rfl hs' hc (by omega)
    obtain ⟨s2, hL, p2, n2, rfl⟩ := ihL F' (Nat.lt_succ_self _) b cs d
      { rest := e' :: k', prev := p1, pos := n1, last := la,
        warnings := c.warns.reverse ++ w, depth := dp, warned := wd, strict := s, threshold := th, alpha := al }
      e k (acc ++ [c.node]) kp ht hek.symm hs hcs (by omega)
    have hw : (warnsList cs kp).reverse ++ (c.warns.reverse ++ w) = (warnsList (c :: cs) kp).reverse ++ w := by
      simp only [warnsList, hdr_track kp c hh, List.reverse_append, List.append_assoc, List.nil_append, List.reverse_nil,
        List.append_nil]
    simp only [] at hsec hL
    rw [hw] at hL
    refine ⟨_, ?_, p2, n2, rfl⟩
    · rw [hb] at hsec ⊢
      simp only [List.cons_append] at hsec ⊢
      have h1 : t.type ≠ TT.eof := by rcases htt with h | h <;> rw [h] <;> decide
      have h2 : t.type ≠ TT.envelopeEnd := by rcases htt with h | h <;> rw [h] <;> decide
      have h3 : t.type ≠ TT.indent := by rcases htt with h | h <;> rw [h] <;> decide
      have h4 : t.type ≠ TT.comment := by rcases htt with h | h <;> rw [h] <;> decide
      have h5 : t.type ≠ TT.newline := by rcases htt with h | h <;> rw [h] <;> decide
      have h6 : t.type ≠ TT.fenceOpen := by rcases htt with h | h <;> rw [h] <;> decide
      cases b
      · rw [childLoop_false] at hL ⊢
        rw [blockLoop]
        step_simp [h1, h2, h3, h4, h5, h6, hnlt]
        rw [hsec]
        step_simp [hdr_node_key c hh]
        rw [hL]
        simp only [nodeList, List.append_assoc, List.cons_append, List.nil_append]
      · rw [childLoop_true] at hL ⊢
        rw [sectionLoop]
        step_simp [h1, h2, h3, h4, h5, h6, hnlt]
        rw [hsec]
        step_simp [hdr_node_key c hh]
        rw [hL]
        simp only [nodeList, List.append_assoc, List.cons_append, List.nil_append]
  · cases c with
    | block p key cs' => exact absurd rfl hh
    | sect p id key cs' => exact absurd rfl hh
    | line ln =>
      have hok : ln.OK := hc
      obtain ⟨u, K', hK⟩ := forest_cons cs (d + 1) e k
      obtain ⟨G, rfl⟩ : ∃ G, F = G + 2 := ⟨F - 2, by omega⟩
      have hlen : (QNode.body (.line ln) (d + 1)).length = ln.vr.length + 4 := by
        simp [QNode.body, QLine.toks]
      rw [hlen] at hF
      obtain ⟨rest, p, n, la, w, dp, wd, s, th, al⟩ := st
      simp only at hr hcs
      subst hr
      obtain ⟨s3, hps, p3, n3, rfl⟩ := parseSection_qline ln hok
        { rest := ln.toks ++ (toksList cs (d + 1) ++ e :: k), prev := p, pos := n, last := la, warnings := w, depth := dp,
          warned := wd, strict := s, threshold := th, alpha := al } _ (G + 1) ht rfl (by omega)
      have hstep := childLoop_line_step b G (2 * (d + 1)) li hnlt acc kp _ _ ln.kt _ ln.node ln.key ln.kt.line ln.nl u K'
        rfl hok.kt hps rfl (by simp only []; rw [hK]) hok.nl
      simp only [] at hstep
      obtain ⟨s4, hL, p4, n4, rfl⟩ := ihL G (by omega) b cs d
        { rest := u :: K', prev := some ln.nl, pos := n3 + 1, last := la,
          warnings := (trackPure kp ln.key ln.kt.line).2 ++ (ln.warnsRev ++ w), depth := dp,
          warned := wd, strict := s, threshold := th, alpha := al }
        e k (acc ++ [ln.node]) (trackPure kp ln.key ln.kt.line).1 ht hK.symm hs hcs (by omega)
      have hw : (warnsList cs (trackPure kp ln.key ln.kt.line).1).reverse ++ ((trackPure kp ln.key ln.kt.line).2 ++ (ln.warnsRev ++ w))
          = (warnsList (.line ln :: cs) kp).reverse ++ w := by
        simp only [warnsList, QNode.warns, trackNode, List.reverse_append, List.reverse_reverse, trackPure_warns_reverse,
          List.append_assoc]
      simp only [] at hL
      rw [hw] at hL
      refine ⟨_, ?_, p4, n4, rfl⟩
      simp only [QNode.body]
      rw [hstep, hL]
      simp only [nodeList, QNode.node, List.append_assoc, List.cons_append, List.nil_append]

/-- `advance` over a token followed by the tokens of a node. -/
theorem advance_body (c : QNode) (d' : Nat) (X : List Token) (t : Token) (p : Option Token) (n : Nat) (la : Token)
    (w : List Warning) (d : Nat) (wd : List Nat) (s : Bool) (th : Nat) (al : Char → Bool) :
    advance { rest := t :: (c.body d' ++ X), prev := p, pos := n, last := la, warnings := w, depth := d, warned := wd, strict := s, threshold := th, alpha := al }
      = .ok (t, { rest := c.body d' ++ X, prev := some t, pos := n + 1, last := la, warnings := w, depth := d, warned := wd, strict := s, threshold := th, alpha := al }) :=
  advance_ne (h := body_ne_nil c d' X) ..

theorem wf_sect_nil {al : Char → Bool} {p : SPos} {id : PId} {key : Str} {d : Nat}
    (h : (QNode.sect p id key []).wf al d) : id.letterOk al = true ∧ 2 * d ≤ p.c0 - 1 := by
  simpa [QNode.wf, wfList] using h

theorem wf_sect_cons {al : Char → Bool} {p : SPos} {id : PId} {key : Str} {c : QNode} {cs : List QNode} {d : Nat}
    (h : (QNode.sect p id key (c :: cs)).wf al d) :
    id.letterOk al = true ∧ p.c0 - 1 < 2 * (d + 1) ∧ c.wf al (d + 1) ∧ wfList al cs (d + 1) := by
  simpa [QNode.wf, wfList, and_assoc] using h

theorem wf_block_nil {al : Char → Bool} {p : SPos} {key : Str} {d : Nat}
    (h : (QNode.block p key []).wf al d) : 2 * d ≤ p.c1 - 1 := by
  simpa [QNode.wf, wfList] using h

theorem wf_block_cons {al : Char → Bool} {p : SPos} {key : Str} {c : QNode} {cs : List QNode} {d : Nat}
    (h : (QNode.block p key (c :: cs)).wf al d) :
    p.c1 - 1 < 2 * (d + 1) ∧ c.wf al (d + 1) ∧ wfList al cs (d + 1) := by
  simpa [QNode.wf, wfList, and_assoc] using h

/-- the header line of a section up to (not including) the NEWLINE. -/
local macro "sect_hdr" "[" ts:Lean.Parser.Tactic.simpLemma,* "]" : tactic =>
  `(tactic| (rw [parseSection]; step_simp [secTok]; rw [parseSectionMarker];
             step_simp [expect, idNumTok, idNameTok, idLetterTok, secAssignTok, secNameTok, hdrNlTok, pyStrVal_str, pyStrVal_int, $ts,*];
             rw [consumeBracketAnnotation_none (h := by simp)]; step_simp []))

set_option hygiene false in
/-- a section without children: what follows is not an INDENT deeper than the marker. -/
local macro "sect_nil_tail" : tactic =>
  `(tactic| (
    rw [skipWhitespace_newline (h := rfl) (h1 := h1) (h2 := h2)]
    step_simp []
    rw [preIndentComments_stop (h1 := h2) (h2 := h1)]
    step_simp []
    by_cases hi : e.type = TT.indent
    · have h5 : indentVal e < 2 * d + 1 := by
        rcases h4 with h | h
        · exact absurd hi h
        · exact h
      cases hv : e.value with
      | nat m =>
        simp only [indentVal, hv] at h5
        have h6 : ¬ (m > p0.c0 - 1) := by omega
        step_simp [hi, h6, set_mk, List.isEmpty_nil]
        simp only [QNode.node, nodeList, hdrNlTok, PId.str]
      | _ =>
        step_simp [hi, set_mk, gt_iff_lt, Nat.not_lt_zero, List.isEmpty_nil]
        simp only [QNode.node, nodeList, hdrNlTok, PId.str]
    · step_simp [hi, set_mk, List.isEmpty_nil]
      simp only [QNode.node, nodeList, hdrNlTok, PId.str]
))

theorem hdr_sect_nil (F : Nat) (p0 : SPos) (id : PId) (key : Str) (d : Nat) (e : Token) (k : List Token)
    (p : Option Token) (n : Nat) (la : Token) (w : List Warning) (dp : Nat) (wd : List Nat) (s : Bool) (th : Nat) (al : Char → Bool)
    (hs : stopsAt (2 * d + 1) e = true)
    (hc : (QNode.sect p0 id key []).wf al d)
    (hF : ((QNode.sect p0 id key []).body d).length + 4 ≤ F) :
    parseSection F [] ({ rest := (QNode.sect p0 id key []).body d ++ e :: k, prev := p, pos := n, last := la, warnings := w, depth := dp, warned := wd, strict := s, threshold := th, alpha := al } : PState)
      = .ok (some ((QNode.sect p0 id key []).node),
         { rest := e :: k, prev := some (hdrNlTok p0), pos := n + ((QNode.sect p0 id key []).body d).length, last := la,
           warnings := w, depth := dp, warned := wd, strict := s, threshold := th, alpha := al }) := by
  have hs0 := hs
  simp only [stopsAt, Bool.and_eq_true, Bool.or_eq_true, bne_iff_ne, ne_eq, decide_eq_true_eq] at hs0
  obtain ⟨⟨⟨h1, h2⟩, h3⟩, h4⟩ := hs0
  obtain ⟨hlet, hcol⟩ := wf_sect_nil hc
  cases id with
  | num i0 raw =>
    simp only [QNode.body, PId.toks, toksList, List.cons_append, List.nil_append, List.length_cons, List.length_nil] at hF ⊢
    obtain ⟨F', rfl⟩ : ∃ F', F = F' + 2 := ⟨F - 2, by omega⟩
    sect_hdr []
    sect_nil_tail
  | name s0 =>
    simp only [QNode.body, PId.toks, toksList, List.cons_append, List.nil_append, List.length_cons, List.length_nil] at hF ⊢
    obtain ⟨F', rfl⟩ : ∃ F', F = F' + 2 := ⟨F - 2, by omega⟩
    sect_hdr []
    sect_nil_tail
  | numLetter i0 raw c0 =>
    simp only [PId.letterOk] at hlet
    simp only [QNode.body, PId.toks, toksList, List.cons_append, List.nil_append, List.length_cons, List.length_nil] at hF ⊢
    obtain ⟨F', rfl⟩ : ∃ F', F = F' + 2 := ⟨F - 2, by omega⟩
    sect_hdr [hlet]
    sect_nil_tail

set_option hygiene false in
/-- a section with children: the first child's INDENT is deeper than the marker; the child loop does the rest. -/
local macro "sect_cons_tail" : tactic =>
  `(tactic| (
    rw [skipWhitespace_newline (h := rfl) (h1 := by simp [QNode.itok]) (h2 := by simp [QNode.itok])]
    step_simp []
    rw [preIndentComments_stop (h1 := by simp [QNode.itok]) (h2 := by simp [QNode.itok])]
    have h6 : 2 * (d + 1) > p0.c0 - 1 := hcol
    step_simp [QNode.itok, h6, advance_body, List.isEmpty_nil]
    rw [hch]
    simp only [QNode.node, nodeList, List.nil_append, PId.str]))

theorem hdr_sect_cons (F : Nat) (ih : ∀ F' < F, ChildOK F') (p0 : SPos) (id : PId) (key : Str) (c : QNode) (cs : List QNode)
    (d : Nat) (e : Token) (k : List Token)
    (p : Option Token) (n : Nat) (la : Token) (w : List Warning) (dp : Nat) (wd : List Nat) (s : Bool) (th : Nat) (al : Char → Bool)
    (ht : Top ({ rest := [], prev := p, pos := n, last := la, warnings := w, depth := dp, warned := wd, strict := s, threshold := th, alpha := al } : PState))
    (hs : stopsAt (2 * d + 1) e = true)
    (hc : (QNode.sect p0 id key (c :: cs)).wf al d)
    (hF : ((QNode.sect p0 id key (c :: cs)).body d).length + 4 ≤ F) :
    ∃ p' n', parseSection F [] ({ rest := (QNode.sect p0 id key (c :: cs)).body d ++ e :: k, prev := p, pos := n, last := la, warnings := w, depth := dp, warned := wd, strict := s, threshold := th, alpha := al } : PState)
      = .ok (some ((QNode.sect p0 id key (c :: cs)).node),
         { rest := e :: k, prev := p', pos := n', last := la,
           warnings := ((QNode.sect p0 id key (c :: cs)).warns).reverse ++ w, depth := dp, warned := wd, strict := s, threshold := th, alpha := al }) := by
  obtain ⟨hlet, hcol, hc2, hc3⟩ := wf_sect_cons hc
  have hwn : (QNode.sect p0 id key (c :: cs)).warns = warnsList (c :: cs) [] := by simp only [QNode.warns]
  rw [hwn]
  cases id with
  | num i0 raw =>
    simp only [QNode.body, PId.toks, toksList, QNode.indent, List.cons_append, List.nil_append, List.append_assoc, List.length_cons,
      List.length_append] at hF ⊢
    obtain ⟨F', rfl⟩ : ∃ F', F = F' + 2 := ⟨F - 2, by omega⟩
    obtain ⟨st', hch, p', n', rfl⟩ := ih F' (by omega) true c cs d (2 * (d + 1))
      { rest := c.body (d + 1) ++ (toksList cs (d + 1) ++ e :: k),
        prev := some (c.itok (d + 1)), pos := n + 1 + 1 + 1 + 1 + 1 + 1, last := la, warnings := w, depth := dp,
        warned := wd, strict := s, threshold := th, alpha := al }
      e k [] [] ht rfl (Nat.le_refl _) (stopsAt_mono (by omega) hs) hc2 hc3 (by omega)
    rw [childLoop_true] at hch
    simp only [QNode.itok] at hch
    refine ⟨p', n', ?_⟩
    sect_hdr []
    sect_cons_tail
  | name s0 =>
    simp only [QNode.body, PId.toks, toksList, QNode.indent, List.cons_append, List.nil_append, List.append_assoc, List.length_cons,
      List.length_append] at hF ⊢
    obtain ⟨F', rfl⟩ : ∃ F', F = F' + 2 := ⟨F - 2, by omega⟩
    obtain ⟨st', hch, p', n', rfl⟩ := ih F' (by omega) true c cs d (2 * (d + 1))
      { rest := c.body (d + 1) ++ (toksList cs (d + 1) ++ e :: k),
        prev := some (c.itok (d + 1)), pos := n + 1 + 1 + 1 + 1 + 1 + 1, last := la, warnings := w, depth := dp,
        warned := wd, strict := s, threshold := th, alpha := al }
      e k [] [] ht rfl (Nat.le_refl _) (stopsAt_mono (by omega) hs) hc2 hc3 (by omega)
    rw [childLoop_true] at hch
    simp only [QNode.itok] at hch
    refine ⟨p', n', ?_⟩
    sect_hdr []
    sect_cons_tail
  | numLetter i0 raw c0 =>
    simp only [PId.letterOk] at hlet
    simp only [QNode.body, PId.toks, toksList, QNode.indent, List.cons_append, List.nil_append, List.append_assoc, List.length_cons,
      List.length_append] at hF ⊢
    obtain ⟨F', rfl⟩ : ∃ F', F = F' + 2 := ⟨F - 2, by omega⟩
    obtain ⟨st', hch, p', n', rfl⟩ := ih F' (by omega) true c cs d (2 * (d + 1))
      { rest := c.body (d + 1) ++ (toksList cs (d + 1) ++ e :: k),
        prev := some (c.itok (d + 1)), pos := n + 1 + 1 + 1 + 1 + 1 + 1 + 1, last := la, warnings := w, depth := dp,
        warned := wd, strict := s, threshold := th, alpha := al }
      e k [] [] ht rfl (Nat.le_refl _) (stopsAt_mono (by omega) hs) hc2 hc3 (by omega)
    rw [childLoop_true] at hch
    simp only [QNode.itok] at hch
    refine ⟨p', n', ?_⟩
    sect_hdr [hlet]
    sect_cons_tail

theorem hdr_block_nil (F : Nat) (p0 : SPos) (key : Str) (d : Nat) (e : Token) (k : List Token)
    (p : Option Token) (n : Nat) (la : Token) (w : List Warning) (dp : Nat) (wd : List Nat) (s : Bool) (th : Nat) (al : Char → Bool)
    (hs : stopsAt (2 * d + 1) e = true)
    (hc : (QNode.block p0 key []).wf al d)
    (hF : ((QNode.block p0 key []).body d).length + 4 ≤ F) :
    parseSection F [] ({ rest := (QNode.block p0 key []).body d ++ e :: k, prev := p, pos := n, last := la, warnings := w, depth := dp, warned := wd, strict := s, threshold := th, alpha := al } : PState)
      = .ok (some ((QNode.block p0 key []).node),
         { rest := e :: k, prev := some (hdrNlTok p0), pos := n + ((QNode.block p0 key []).body d).length, last := la,
           warnings := w, depth := dp, warned := wd, strict := s, threshold := th, alpha := al }) := by
  have hs0 := hs
  simp only [stopsAt, Bool.and_eq_true, Bool.or_eq_true, bne_iff_ne, ne_eq, decide_eq_true_eq] at hs0
  obtain ⟨⟨⟨h1, h2⟩, h3⟩, h4⟩ := hs0
  have hc := wf_block_nil hc
  simp only [QNode.body, toksList, List.cons_append, List.nil_append, List.length_cons, List.length_nil] at hF ⊢
  obtain ⟨F', rfl⟩ : ∃ F', F = F' + 1 := ⟨F - 1, by omega⟩
  rw [parseSection]
  step_simp [hdrKeyTok, hdrBlockTok, hdrNlTok, pyStrVal_str]
  rw [skipWhitespace_newline (h := rfl) (h1 := h1) (h2 := h2)]
  step_simp []
  rw [preIndentComments_stop (h1 := h2) (h2 := h1)]
  step_simp []
  have hfin : n + 1 + 1 + 1 = n + (0 + 1 + 1 + 1) := by omega
  by_cases hi : e.type = TT.indent
  · have h5 : indentVal e < 2 * d + 1 := by
      rcases h4 with h | h
      · exact absurd hi h
      · exact h
    cases hv : e.value with
    | nat m =>
      simp only [indentVal, hv] at h5
      have h6 : ¬ (m > p0.c1 - 1) := by omega
      step_simp [hi, h3, h6, set_mk, decide_false, eq_self, Option.isSome_none]
      simp only [QNode.node, nodeList, hdrNlTok, hfin]
    | _ =>
      step_simp [hi, h3, set_mk, decide_false, eq_self, Option.isSome_none, gt_iff_lt, Nat.not_lt_zero]
      simp only [QNode.node, nodeList, hdrNlTok, hfin]
  · have hib : (e.type == TT.indent) = false := by simp [hi]
    step_simp [hi, hib, h3, set_mk, decide_false, eq_self, Option.isSome_none]
    simp only [QNode.node, nodeList, hdrNlTok, hfin]

theorem hdr_block_cons (F : Nat) (ih : ∀ F' < F, ChildOK F') (p0 : SPos) (key : Str) (c : QNode) (cs : List QNode)
    (d : Nat) (e : Token) (k : List Token)
    (p : Option Token) (n : Nat) (la : Token) (w : List Warning) (dp : Nat) (wd : List Nat) (s : Bool) (th : Nat) (al : Char → Bool)
    (ht : Top ({ rest := [], prev := p, pos := n, last := la, warnings := w, depth := dp, warned := wd, strict := s, threshold := th, alpha := al } : PState))
    (hs : stopsAt (2 * d + 1) e = true)
    (hc : (QNode.block p0 key (c :: cs)).wf al d)
    (hF : ((QNode.block p0 key (c :: cs)).body d).length + 4 ≤ F) :
    ∃ p' n', parseSection F [] ({ rest := (QNode.block p0 key (c :: cs)).body d ++ e :: k, prev := p, pos := n, last := la, warnings := w, depth := dp, warned := wd, strict := s, threshold := th, alpha := al } : PState)
      = .ok (some ((QNode.block p0 key (c :: cs)).node),
         { rest := e :: k, prev := p', pos := n', last := la,
           warnings := ((QNode.block p0 key (c :: cs)).warns).reverse ++ w, depth := dp, warned := wd, strict := s, threshold := th, alpha := al }) := by
  obtain ⟨hc1, hc2, hc3⟩ := wf_block_cons hc
  have hwn : (QNode.block p0 key (c :: cs)).warns = warnsList (c :: cs) [] := by simp only [QNode.warns]
  rw [hwn]
  simp only [QNode.body, toksList, QNode.indent, List.cons_append, List.nil_append, List.append_assoc, List.length_cons,
    List.length_append] at hF ⊢
  obtain ⟨F', rfl⟩ : ∃ F', F = F' + 1 := ⟨F - 1, by omega⟩
  obtain ⟨st', hch, p', n', rfl⟩ := ih F' (Nat.lt_succ_self _) false c cs d (2 * (d + 1))
    { rest := c.body (d + 1) ++ (toksList cs (d + 1) ++ e :: k),
      prev := some (c.itok (d + 1)), pos := n + 1 + 1 + 1 + 1, last := la, warnings := w, depth := dp,
      warned := wd, strict := s, threshold := th, alpha := al }
    e k [] [] ht rfl (Nat.le_refl _) (stopsAt_mono (by omega) hs) hc2 hc3 (by omega)
  rw [childLoop_false] at hch
  simp only [QNode.itok] at hch
  refine ⟨p', n', ?_⟩
  rw [parseSection]
  step_simp [hdrKeyTok, hdrBlockTok, hdrNlTok, pyStrVal_str]
  rw [skipWhitespace_newline (h := rfl) (h1 := by simp [QNode.itok]) (h2 := by simp [QNode.itok])]
  step_simp []
  rw [preIndentComments_stop (h1 := by simp [QNode.itok]) (h2 := by simp [QNode.itok])]
  have h6 : 2 * (d + 1) > p0.c1 - 1 := hc1
  step_simp [QNode.itok, h6, decide_true, Option.isSome_none, advance_body]
  rw [hch]
  simp only [QNode.node, nodeList, List.nil_append]

theorem hdr_of (F : Nat) (ih : ∀ F' < F, ChildOK F') : HdrOK F := by
  intro c d st e k hh ht hr hs hc hF
  obtain ⟨rest, p, n, la, w, dp, wd, s, th, al⟩ := st
  simp only at hr hc
  subst hr
  cases c with
  | line ln => cases hh
  | block p0 key cs =>
    cases cs with
    | nil =>
      have hwn : (QNode.block p0 key []).warns = [] := by simp only [QNode.warns, warnsList]
      rw [hwn]
      exact ⟨_, hdr_block_nil F p0 key d e k p n la w dp wd s th al hs hc hF, _, _, rfl⟩
    | cons c cs =>
      obtain ⟨p', n', h⟩ := hdr_block_cons F ih p0 key c cs d e k p n la w dp wd s th al ht hs hc hF
      exact ⟨_, h, p', n', rfl⟩
  | sect p0 id key cs =>
    cases cs with
    | nil =>
      have hwn : (QNode.sect p0 id key []).warns = [] := by simp only [QNode.warns, warnsList]
      rw [hwn]
      exact ⟨_, hdr_sect_nil F p0 id key d e k p n la w dp wd s th al hs hc hF, _, _, rfl⟩
    | cons c cs =>
      obtain ⟨p', n', h⟩ := hdr_sect_cons F ih p0 id key c cs d e k p n la w dp wd s th al ht hs hc hF
      exact ⟨_, h, p', n', rfl⟩

/-- all three statements hold for every fuel (strong induction on the fuel; the fuel bounds inside the statements
make every recursive call land on a smaller fuel that is still large enough). -/
theorem all_ok (F : Nat) : HdrOK F ∧ ChildOK F ∧ LoopOK F := by
  induction F using Nat.strongRecOn with
  | _ F ih =>
    have hC : ∀ F' < F, ChildOK F' := fun F' h => (ih F' h).2.1
    exact ⟨hdr_of F hC, child_of F (fun F' h => (ih F' h).1) (fun F' h => (ih F' h).2.2), loop_of F hC⟩

/-- **`parse_section` on a block or a section** of any depth and width whose lines carry values of any kind (`QLine.OK`), at
any depth `d`, at arbitrary token positions (subject to `wf`), from any state at bracket depth 0, followed by a token `e`
that is not deeper than the node, with fuel at least the number of the node's tokens plus 4: returns the Block / Section
node with exactly the children, leaves the cursor on `e`; `warnings` grows by exactly `warns`; nothing else changes. -/
theorem parseSection_node (c : QNode) (d : Nat) (st : PState) (e : Token) (k : List Token)
    (F : Nat) (hh : c.isHdr = true) (ht : Top st) (hr : st.rest = c.body d ++ e :: k) (hs : stopsAt (2 * d + 1) e = true)
    (hc : c.wf st.alpha d) (hF : (c.body d).length + 4 ≤ F) :
    ∃ st', parseSection F [] st = .ok (some c.node, st') ∧ After st (e :: k) c.warns.reverse st' :=
  (all_ok F).1 c d st e k hh ht hr hs hc hF

/-- **the child loop of a section (`b = true`) or of a block (`b = false`)** from the start of a line, on any forest of
children at depth `d + 1`. -/
theorem childLoop_forest (b : Bool) (cs : List QNode) (d : Nat) (st : PState) (e : Token) (k : List Token)
    (acc : List Node) (kp : KeyPos) (F : Nat) (ht : Top st)
    (hr : st.rest = toksList cs (d + 1) ++ e :: k) (hs : stopsAt (2 * (d + 1)) e = true)
    (hc : wfList st.alpha cs (d + 1)) (hF : (toksList cs (d + 1)).length + 1 + 4 ≤ F) :
    ∃ st', childLoop b F (2 * (d + 1)) 0 [] acc kp st = .ok (acc ++ nodeList cs, st') ∧
      After st (e :: k) (warnsList cs kp).reverse st' :=
  (all_ok F).2.2 b cs d st e k acc kp ht hr hs hc hF

/-! ## The body loop of `parseDocument` on a forest -/

open Octave.ListDocParse (docLoop_iter)

theorem docLoop_forest (vf : Nat) (nodes : List QNode) (e : Token) (tail : List Token)
    (he : e.type = .envelopeEnd ∨ e.type = .eof) (st : PState) (acc : List Node) (kp : KeyPos) (extra : Nat) (ht : Top st)
    (hr : st.rest = toksList nodes 0 ++ e :: tail)
    (hc : wfList st.alpha nodes 0)
    (hvf : (toksList nodes 0).length + 4 ≤ vf) :
    ∃ st', docLoop vf (2 * nodes.length + 1 + extra) [] acc kp st = .ok ((acc ++ nodeList nodes, []), st') ∧
      After st (e :: tail) (warnsList nodes kp).reverse st' := by
  have hse : stopsAt 1 e = true := by
    rcases he with h | h <;> simp [stopsAt, h]
  induction nodes generalizing st acc kp extra with
  | nil =>
    obtain ⟨rest, p, n, la, w, dp, wd, s, th, al⟩ := st
    simp only [toksList, List.nil_append] at hr
    subst hr
    refine ⟨_, ?_, p, n, rfl⟩
    have hf : 2 * ([] : List QNode).length + 1 + extra = extra + 1 := by simp only [List.length_nil]; omega
    rw [hf, docLoop]
    step_simp [he]
    simp only [nodeList, List.append_nil, warnsList, List.reverse_nil, List.nil_append]
  | cons c r ih =>
    have hf : 2 * (c :: r).length + 1 + extra = (2 * r.length + 1 + extra) + 1 + 1 := by
      simp only [List.length_cons]; omega
    simp only [wfList] at hc
    rw [hf]
    by_cases hh : c.isHdr = true
    · obtain ⟨e', k', hek, hs'⟩ := cont_head st.alpha r 0 e tail hc.2 hse
      simp only [toksList, QNode.indent, List.nil_append, List.append_assoc] at hr hvf
      rw [hek] at hr
      obtain ⟨rest, p, n, la, w, dp, wd, s, th, al⟩ := st
      simp only at hr hc
      subst hr
      obtain ⟨s1, hsec, p1, n1, rfl⟩ := parseSection_node c 0
        { rest := c.body 0 ++ e' :: k', prev := p, pos := n, last := la, warnings := w, depth := dp,
          warned := wd, strict := s, threshold := th, alpha := al } e' k' vf hh ht rfl hs' hc.1
          (by simp only [List.length_append] at hvf; omega)
      obtain ⟨t, rr, hb, htt⟩ := hdr_head c 0 hh
      have h1 : t.type ≠ TT.eof := by rcases htt with h | h <;> rw [h] <;> decide
      have h2 : t.type ≠ TT.envelopeEnd := by rcases htt with h | h <;> rw [h] <;> decide
      have h3 : t.type ≠ TT.indent := by rcases htt with h | h <;> rw [h] <;> decide
      have h4 : t.type ≠ TT.comment := by rcases htt with h | h <;> rw [h] <;> decide
      have h5 : t.type ≠ TT.newline := by rcases htt with h | h <;> rw [h] <;> decide
      have hfm : 2 * r.length + 1 + extra + 1 = 2 * r.length + 1 + (extra + 1) := by omega
      obtain ⟨s2, hrest, p2, n2, rfl⟩ := ih
        { rest := e' :: k', prev := p1, pos := n1, last := la,
          warnings := c.warns.reverse ++ w, depth := dp, warned := wd, strict := s, threshold := th, alpha := al }
        (acc ++ [c.node]) kp (extra + 1) ht hek.symm hc.2 (by simp only [List.length_append] at hvf; omega)
      have hw : (warnsList r kp).reverse ++ (c.warns.reverse ++ w) = (warnsList (c :: r) kp).reverse ++ w := by
        simp only [warnsList, hdr_track kp c hh, List.reverse_append, List.append_assoc, List.nil_append, List.reverse_nil,
          List.append_nil]
      simp only [] at hsec hrest
      rw [hw] at hrest
      refine ⟨_, ?_, p2, n2, rfl⟩
      rw [docLoop]
      rw [hb] at hsec ⊢
      simp only [List.cons_append] at hsec ⊢
      step_simp [h1, h2, h3, h4, h5]
      rw [hsec]
      step_simp [hdr_node_key c hh]
      rw [hfm, hrest]
      simp only [nodeList, List.append_assoc, List.cons_append, List.nil_append]
    · cases c with
      | block p0 key cs' => exact absurd rfl hh
      | sect p0 id key cs' => exact absurd rfl hh
      | line ln =>
        have hok : ln.OK := hc.1
        obtain ⟨u, K', hK⟩ := forest_cons r 0 e tail
        have hlen : (toksList (.line ln :: r) 0).length = ln.vr.length + 4 + (toksList r 0).length := by
          simp [toksList, QNode.indent, QNode.body, QLine.toks]; omega
        rw [hlen] at hvf
        obtain ⟨rest, p, n, la, w, dp, wd, s, th, al⟩ := st
        simp only at hr hc
        simp only [toksList, QNode.indent, QNode.body, List.nil_append, List.append_assoc] at hr
        subst hr
        obtain ⟨s3, hps, p3, n3, rfl⟩ := parseSection_qline ln hok
          { rest := ln.toks ++ (toksList r 0 ++ e :: tail), prev := p, pos := n, last := la, warnings := w, depth := dp,
            warned := wd, strict := s, threshold := th, alpha := al } _ vf ht rfl (by omega)
        have hstep := docLoop_iter vf (2 * r.length + 1 + extra) _ _ ln.kt _ ln.node ln.key ln.kt.line acc kp ln.nl u K'
          rfl hok.kt hps rfl (by simp only []; rw [hK]) hok.nl
        simp only [] at hstep
        obtain ⟨s4, hL, p4, n4, rfl⟩ := ih
          { rest := u :: K', prev := some ln.nl, pos := n3 + 1, last := la,
            warnings := (trackPure kp ln.key ln.kt.line).2 ++ (ln.warnsRev ++ w), depth := dp,
            warned := wd, strict := s, threshold := th, alpha := al }
          (acc ++ [ln.node]) (trackPure kp ln.key ln.kt.line).1 extra ht hK.symm hc.2 (by omega)
        have hw : (warnsList r (trackPure kp ln.key ln.kt.line).1).reverse ++ ((trackPure kp ln.key ln.kt.line).2 ++ (ln.warnsRev ++ w))
            = (warnsList (.line ln :: r) kp).reverse ++ w := by
          simp only [warnsList, QNode.warns, trackNode, List.reverse_append, List.reverse_reverse, trackPure_warns_reverse,
            List.append_assoc]
        simp only [] at hL
        rw [hw] at hL
        refine ⟨_, ?_, p4, n4, rfl⟩
        have hf2 : 2 * r.length + 1 + extra + 1 + 1 = (2 * r.length + 1 + extra) + 2 := by omega
        rw [hf2, hstep, hL]
        simp only [nodeList, QNode.node, List.append_assoc, List.cons_append, List.nil_append]

/-- `docLoop_forest` with fuel given by lower bounds. -/
theorem docLoop_forest' (vf fuel : Nat) (nodes : List QNode) (e : Token) (tail : List Token)
    (he : e.type = .envelopeEnd ∨ e.type = .eof) (st : PState) (acc : List Node) (kp : KeyPos) (ht : Top st)
    (hr : st.rest = toksList nodes 0 ++ e :: tail)
    (hc : wfList st.alpha nodes 0)
    (hvf : (toksList nodes 0).length + 4 ≤ vf) (hfuel : 2 * nodes.length + 1 ≤ fuel) :
    ∃ st', docLoop vf fuel [] acc kp st = .ok ((acc ++ nodeList nodes, []), st') ∧
      After st (e :: tail) (warnsList nodes kp).reverse st' := by
  obtain ⟨extra, rfl⟩ : ∃ extra, fuel = 2 * nodes.length + 1 + extra := ⟨fuel - (2 * nodes.length + 1), by omega⟩
  exact docLoop_forest vf nodes e tail he st acc kp extra ht hr hc hvf

/-- every node has at least one token. -/
theorem length_le_toks (nodes : List QNode) (d : Nat) : nodes.length ≤ (toksList nodes d).length := by
  induction nodes with
  | nil => simp [toksList]
  | cons c r ih =>
    have hb : 1 ≤ (c.body d).length := by
      cases c <;> simp [QNode.body, QLine.toks]
    simp only [toksList, List.length_append, List.length_cons]
    omega

/-! ## `parseDocument` on a whole document -/

/-- the token list of the document: envelope line, the forest at depth 0, `===END===`. -/
def docToks (f : Frame) (name : Str) (nodes : List QNode) : List Token :=
  f.envTok name :: f.nl0Tok :: (toksList nodes 0 ++ [f.endTok, f.nl1Tok, f.eofTok])

/-- the document it denotes (all other fields at their defaults). -/
def qdoc (name : Str) (nodes : List QNode) : Document := { name := name, sections := nodeList nodes }

/-- the first top-level node is a line or a block keyed `META` (then `parse_document` reads a META block, not a section);
a section marker never is: its first token is the SECTION token. -/
def metaFirstQ : List QNode → Bool
  | .line ln :: _ => ln.key == "META".toList
  | .block _ key _ :: _ => key == "META".toList
  | _ => false

/-- what follows the envelope line: the first token of the body (not a `META` key) or `===END===`. -/
theorem body_head (al : Char → Bool) (f : Frame) (nodes : List QNode) (hwf : wfList al nodes 0) (hm : metaFirstQ nodes = false) :
    ∃ u K, toksList nodes 0 ++ [f.endTok, f.nl1Tok, f.eofTok] = u :: K ∧
      u.type ≠ TT.newline ∧ u.type ≠ TT.comment ∧ u.type ≠ TT.separator ∧ u.type ≠ TT.grammarSentinel ∧
      u.type ≠ TT.envelopeStart ∧ ¬(u.type = TT.identifier ∧ u.value = TVal.str "META".toList) := by
  cases nodes with
  | nil => exact ⟨f.endTok, _, rfl, by simp [Frame.endTok], by simp [Frame.endTok], by simp [Frame.endTok], by simp [Frame.endTok], by simp [Frame.endTok], fun h => by cases h.1⟩
  | cons c r =>
    cases c with
    | line ln =>
      have hok : ln.OK := hwf.1
      simp only [metaFirstQ, beq_eq_false_iff_ne, ne_eq] at hm
      refine ⟨ln.kt, _, rfl, by simp [hok.kt], by simp [hok.kt], by simp [hok.kt], by simp [hok.kt], by simp [hok.kt], fun h => ?_⟩
      have := h.2
      rw [hok.kv] at this
      simp only [TVal.str.injEq] at this
      exact hm this
    | block p key cs =>
      simp only [metaFirstQ, beq_eq_false_iff_ne, ne_eq] at hm
      refine ⟨hdrKeyTok key p, _, rfl, by simp [hdrKeyTok], by simp [hdrKeyTok], by simp [hdrKeyTok], by simp [hdrKeyTok], by simp [hdrKeyTok], fun h => ?_⟩
      have := h.2
      simp only [hdrKeyTok, TVal.str.injEq] at this
      exact hm this
    | sect p id key cs =>
      exact ⟨secTok p, _, rfl, by simp [secTok], by simp [secTok], by simp [secTok], by simp [secTok], by simp [secTok], fun h => by cases h.1⟩

/-- **`parse_document` on the token list of a unified document** (envelope, any forest of lines with values of any kind,
blocks and sections, `===END===`), from any state at bracket depth 0: exactly the document `qdoc`, and `warnings` grows by
exactly `warnsList nodes []`. -/
theorem parseDocument_forest (f : Frame) (name : Str) (nodes : List QNode) (st : PState) (ht : Top st)
    (hm : metaFirstQ nodes = false) (hc : wfList st.alpha nodes 0) (hr : st.rest = docToks f name nodes) :
    ∃ st', parseDocument st = .ok (qdoc name nodes, st') ∧
      After st [f.nl1Tok, f.eofTok] (warnsList nodes []).reverse st' := by
  obtain ⟨u, K, hK, h1, h2, h3, h4, h5, h6⟩ := body_head st.alpha f nodes hc hm
  have hlen : (toksList nodes 0).length + 2 = K.length := by
    have := congrArg List.length hK
    simp only [List.length_append, List.length_cons, List.length_nil] at this
    omega
  have hnl := length_le_toks nodes 0
  obtain ⟨rest, p, n0, la, w, dp, wd, s, th, al⟩ := st
  simp only at hr hc
  have hrest : rest = f.envTok name :: f.nl0Tok :: u :: K := by rw [hr, docToks, hK]
  subst hrest
  obtain ⟨stD, hD, pD, nD, rfl⟩ := docLoop_forest' (2 * ((f.envTok name :: f.nl0Tok :: u :: K).length + 2) + 10)
    (2 * (2 * ((f.envTok name :: f.nl0Tok :: u :: K).length + 2) + 10)) nodes f.endTok [f.nl1Tok, f.eofTok] (Or.inl rfl)
    { rest := u :: K, prev := some f.nl0Tok, pos := n0 + 1 + 1, last := la, warnings := w, depth := dp, warned := wd,
      strict := s, threshold := th, alpha := al } [] [] ht hK.symm hc
    (by simp only [List.length_cons]; omega) (by simp only [List.length_cons]; omega)
  simp only [] at hD
  refine ⟨_, ?_, some f.endTok, nD + 1, rfl⟩
  unfold parseDocument
  simp (config := {zeta := false}) only [bind, StateT.bind, Except.bind, budget_mk]
  extract_lets n doc0 jp5 jp4 jp3 jp2 jp1
  step_simp [Frame.envTok, Frame.nl0Tok, skipWhitespace_stop]
  simp only [jp1]
  step_simp []
  simp only [jp2]
  step_simp [skipWhitespace_newline, pyStrVal_str, h1, h2]
  simp only [jp3]
  step_simp [h6]
  simp only [jp4]
  step_simp [h3]
  simp only [jp5]
  step_simp []
  simp only [n, Frame.envTok, Frame.nl0Tok] at hD ⊢
  rw [hD]
  step_simp [Frame.endTok, List.nil_append]
  rfl

/-! ## The three kinds of lines -/

open Octave.ListDocParse (AllWs HeadToks ListToks parseValue_listToks)

/-- `KEY :: scalar NEWLINE` (a string, a number, a boolean, null, a bare word): no warning from `parse_value`. -/
theorem qline_scalar_ok (il ic : Nat) (kt a nl : Token) (key : Str) (v : FlatParse.Scalar) (l c : Nat)
    (hkt : kt.type = .identifier) (hkv : kt.value = .str key) (ha : a.type = .assign) (hnl : nl.type = .newline) :
    QLine.OK ⟨il, ic, kt, key, a, v.tok l c, [], v.val, [], nl⟩ := by
  refine ⟨hkt, hkv, ha, hnl, ?_⟩
  intro st k fuel _ hr hf
  obtain ⟨f, rfl⟩ : ∃ f, fuel = f + 2 := ⟨fuel - 2, by simp only [List.length_nil] at hf; omega⟩
  have he : endsValue nl.type = true := by rw [hnl]; decide
  exact ⟨_, FlatParse.parseValue_scalar st v l c nl k f he hr, _, _, rfl⟩

theorem headToks_length {vs : List FlatParse.Scalar} {ts : List Token} (h : HeadToks vs ts) : vs.length + 1 ≤ ts.length := by
  induction h with
  | last ws v l c ws' rb _ _ _ => simp only [List.length_cons, List.length_append, List.length_nil]; omega
  | more ws v l c cm r ts _ _ _ ih => simp only [List.length_cons, List.length_append]; omega

theorem listToks_length {vs : List FlatParse.Scalar} {ts : List Token} (h : ListToks vs ts) : vs.length + 2 ≤ ts.length := by
  cases h with
  | empty lb ws rb _ _ _ => simp only [List.length_cons, List.length_append, List.length_nil]; omega
  | items lb vs ts _ hh => have := headToks_length hh; simp only [List.length_cons]; omega

/-- `KEY :: [ … ] NEWLINE` for a list of scalars in ANY layout: the NEWLINE / INDENT (/ COMMENT) tokens between the brackets
belong to the value tokens `vt :: vr` and are consumed by `listLoop`; no warning. -/
theorem qline_list_ok (il ic : Nat) (kt a nl : Token) (key : Str) (vs : List FlatParse.Scalar) (vt : Token) (vr : List Token)
    (h : ListToks vs (vt :: vr))
    (hkt : kt.type = .identifier) (hkv : kt.value = .str key) (ha : a.type = .assign) (hnl : nl.type = .newline) :
    QLine.OK ⟨il, ic, kt, key, a, vt, vr, .list (vs.map FlatParse.Scalar.val), [], nl⟩ := by
  refine ⟨hkt, hkv, ha, hnl, ?_⟩
  intro st k fuel htop hr hf
  have hlen := listToks_length h
  simp only [List.length_cons] at hlen
  have hr' : st.rest = (vt :: vr) ++ nl :: k := hr
  refine ⟨_, parseValue_listToks h st nl k fuel hr' (by simp only at hf; omega) (by rw [htop.1]; omega)
    (by rw [htop.1]; simpa using htop.2), _, _, rfl⟩

open Octave.Expr (Expr TailToks parseValue_expr exprWarnsRev stopsFlow)

/-- `KEY :: IDENTIFIER (OP IDENTIFIER)+ NEWLINE`, an operator expression at bracket depth 0 (any `normFrom` on the operator
tokens): the value is the string of the canonical expression text; `parse_value` raises `exprWarnsRev` (one `bare_flow` per
`→`, one `constraint_outside_brackets` per `∧`, `chained_tension` for more than one `⇌`). -/
theorem qline_expr_ok (il ic : Nat) (kt a nl : Token) (key : Str) (e : Expr) (hne : e.tail ≠ []) (l c : Nat) (ts : List Token)
    (h : TailToks e.tail ts)
    (hkt : kt.type = .identifier) (hkv : kt.value = .str key) (ha : a.type = .assign) (hnl : nl.type = .newline) :
    QLine.OK ⟨il, ic, kt, key, a, tIdent e.head l c, ts, .str e.text, exprWarnsRev ts, nl⟩ := by
  refine ⟨hkt, hkv, ha, hnl, ?_⟩
  intro st k fuel htop hr hf
  obtain ⟨rest, p, n, la, w, dp, wd, s, th, al⟩ := st
  obtain ⟨hd, _⟩ := htop
  simp only at hd hr
  subst hd; subst hr
  obtain ⟨f, rfl⟩ : ∃ f, fuel = f + 1 := ⟨fuel - 1, by omega⟩
  have hn : stopsFlow nl.type = true := by rw [hnl]; decide
  obtain ⟨p', hp⟩ := parseValue_expr e hne l c h nl k hn f p n la w wd s th al
  exact ⟨_, hp, p', _, rfl⟩

end Octave.UParse
