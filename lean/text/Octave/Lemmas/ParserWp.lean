import Octave.Lemmas.ParserClosed
/-!
C20, parser side: **no hang** — framework.

`wpr x r Q` : running `x` from ANY state whose remaining token list is `r` either returns `(a, st')` with
`Q a st'.rest`, or raises something that is not the model's out-of-fuel marker.  (Control flow of the parser depends
on the other state fields — depth, strictness, previous token — only to choose between raising, warning and
continuing, so the remaining token list is the whole "logical state" of a termination argument.)  Two token-list measures drive every termination argument:

* `cB r` — number of tokens of `r` whose type is not EOF (every `advance` on a non-EOF token decreases it by one;
  the clamped `advance` at the final EOF leaves it unchanged);
* `cA r` — the same sum with weights `[` ↦ 4, `]` ↦ 0, EOF ↦ 0, other ↦ 1: the fuel that the mutually recursive
  value / section functions burn along one call chain is bounded by it (four calls per bracket level:
  `parseValue → parseList → listLoop → parseListItem → parseValue`).

The standing invariant is `EofEnd st.rest`: the remaining token list is non-empty and ends with an EOF token (true
for every lexer output, preserved by `advance` and by the parser's own backtracking `set`).
-/
namespace Octave
namespace Parser

/-! ### measures -/

def wtA (t : TT) : Nat := if t = .listStart then 4 else if t = .listEnd then 0 else if t = .eof then 0 else 1
def wtB (t : TT) : Nat := if t = .eof then 0 else 1

def cA : List Token → Nat
  | [] => 0
  | t :: ts => wtA t.type + cA ts

def cB : List Token → Nat
  | [] => 0
  | t :: ts => wtB t.type + cB ts

/-- the remaining tokens are non-empty and end with EOF. -/
def EofEnd (r : List Token) : Prop := ∃ t, r.getLast? = some t ∧ t.type = .eof

theorem cB_le_length : ∀ r : List Token, cB r ≤ r.length
  | [] => Nat.le_refl _
  | t :: ts => by
    have := cB_le_length ts
    simp only [cB, List.length_cons, wtB]
    split <;> omega

theorem EofEnd.ne_nil {r : List Token} (h : EofEnd r) : r ≠ [] := by
  intro hr; subst hr; obtain ⟨t, ht, _⟩ := h; simp at ht

theorem EofEnd.tail {t u : Token} {r : List Token} (h : EofEnd (t :: u :: r)) : EofEnd (u :: r) := by
  obtain ⟨x, hx, he⟩ := h
  exact ⟨x, by simpa [List.getLast?_cons_cons] using hx, he⟩

theorem EofEnd.single {t : Token} (h : EofEnd [t]) : t.type = .eof := by
  obtain ⟨x, hx, he⟩ := h
  simp at hx; subst hx; exact he

/-! ### weakest precondition (over the remaining token list) -/

def wpr {α : Type} (x : P α) (r : List Token) (Q : α → List Token → Prop) : Prop :=
  ∀ st : PState, st.rest = r →
    match x st with
    | .ok (a, st') => Q a st'.rest
    | .error e => e ≠ .fuel

theorem wpr_bind {α β : Type} {x : P α} {f : α → P β} {r : List Token} {Q : β → List Token → Prop}
    (h : wpr x r (fun a r' => wpr (f a) r' Q)) : wpr (x >>= f) r Q := by
  intro st hst
  have h1 := h st hst
  rw [run_bind]
  cases hx : x st with
  | error e => rw [hx] at h1; exact h1
  | ok p => obtain ⟨a, s⟩ := p; rw [hx] at h1; exact h1 s rfl

theorem wpr_pure {α : Type} {a : α} {r : List Token} {Q : α → List Token → Prop} (h : Q a r) :
    wpr (pure a : P α) r Q := by
  intro st hst; subst hst; exact h

theorem wpr_map {α β : Type} {x : P α} {f : α → β} {r : List Token} {Q : β → List Token → Prop}
    (h : wpr x r (fun a r' => Q (f a) r')) : wpr (f <$> x) r Q := by
  intro st hst
  have h1 := h st hst
  show (match (StateT.map f x) st with
    | .ok (a, st') => Q a (PState.rest st') | .error e => e ≠ Exc.fuel : Prop)
  unfold StateT.map
  show (match (x st >>= fun p => pure (f p.1, p.2) : Except Exc (β × PState)) with
    | .ok (a, st') => Q a (PState.rest st') | .error e => e ≠ Exc.fuel : Prop)
  cases hx : x st with
  | error e => rw [hx] at h1; exact h1
  | ok p => obtain ⟨a, s⟩ := p; rw [hx] at h1; exact h1

theorem wpr_throw {α : Type} {e : Exc} {r : List Token} {Q : α → List Token → Prop} (h : e ≠ .fuel) :
    wpr (throw e : P α) r Q := fun _ _ => h

theorem wpr_get {r : List Token} {Q : PState → List Token → Prop} (h : ∀ st, st.rest = r → Q st r) :
    wpr (get : P PState) r Q := by
  intro st hst; have := h st hst; subst hst; exact this

theorem wpr_set {s : PState} {r r' : List Token} {Q : PUnit → List Token → Prop} (hs : s.rest = r') (h : Q ⟨⟩ r') :
    wpr (set s : P PUnit) r Q := by
  intro st _; subst hs; exact h

/-- a `modify` that does not touch the token cursor (warnings, bracket depth). -/
theorem wpr_modify {f : PState → PState} {r : List Token} {Q : PUnit → List Token → Prop}
    (hf : ∀ st, (f st).rest = st.rest) (h : Q ⟨⟩ r) : wpr (modify f : P PUnit) r Q := by
  intro st hst
  show Q ⟨⟩ (f st).rest
  rw [hf, hst]; exact h

theorem wpr_mono {α : Type} {x : P α} {r : List Token} {Q Q' : α → List Token → Prop}
    (h : wpr x r Q') (himp : ∀ a r', Q' a r' → Q a r') : wpr x r Q := by
  intro st hst
  have h1 := h st hst
  cases hx : x st with
  | error e => rw [hx] at h1; exact h1
  | ok p => obtain ⟨a, s⟩ := p; rw [hx] at h1; exact himp a _ h1

theorem wpr_id {α : Type} {x : P α} {r : List Token} {Q : α → List Token → Prop} (h : wpr x r Q) : wpr x r Q := h

/-- what `wpr` means for a run. -/
theorem wpr_run {α : Type} {x : P α} {st : PState} {Q : α → List Token → Prop} (h : wpr x st.rest Q) :
    x.run st ≠ .error .fuel := by
  have h1 := h st rfl
  show x st ≠ _
  cases hx : x st with
  | error e => rw [hx] at h1; intro hc; cases hc; exact h1 rfl
  | ok p => intro hc; cases hc

theorem parserError_ne_fuel (c : String) (t : Token) : parserError c t ≠ .fuel := by
  intro h; cases h

/-! ### cursor primitives -/

/-- the current token of a non-empty remaining list. -/
def hd (r : List Token) : Token := match r with | t :: _ => t | [] => default

/-- the remaining list after `advance` (clamped at the last token). -/
def tl (r : List Token) : List Token := match r with | _ :: u :: r => u :: r | r => r

theorem current_run (st : PState) (h : st.rest ≠ []) : current st = .ok (hd st.rest, st) := by
  obtain ⟨rest, prev, pos, last, warnings, depth, warned, strict, threshold, alpha⟩ := st
  cases rest with
  | nil => exact absurd rfl h
  | cons t r => rfl

theorem advance_run (st : PState) (h : st.rest ≠ []) :
    ∃ st', advance st = .ok (hd st.rest, st') ∧ st'.rest = tl st.rest := by
  obtain ⟨rest, prev, pos, last, warnings, depth, warned, strict, threshold, alpha⟩ := st
  cases rest with
  | nil => exact absurd rfl h
  | cons t r => cases r with
    | nil => exact ⟨_, rfl, rfl⟩
    | cons u r => exact ⟨_, rfl, rfl⟩

theorem wpr_current {r : List Token} {Q : Token → List Token → Prop} (he : EofEnd r) (h : Q (hd r) r) :
    wpr current r Q := by
  intro st hst; subst hst
  rw [current_run st he.ne_nil]; exact h

theorem wpr_curType {r : List Token} {Q : TT → List Token → Prop} (he : EofEnd r) (h : Q (hd r).type r) :
    wpr curType r Q := by
  intro st hst; subst hst
  show (match (current >>= fun t => pure t.type : P TT) st with
    | .ok (a, st') => Q a (PState.rest st') | .error e => e ≠ Exc.fuel : Prop)
  rw [run_bind, current_run st he.ne_nil]; exact h

theorem wpr_peek {k : Nat} {r : List Token} {Q : Token → List Token → Prop} (h : ∀ t, Q t r) : wpr (peek k) r Q := by
  intro st hst; subst hst; exact h _

theorem wpr_budget {r : List Token} {Q : Nat → List Token → Prop} (h : Q (r.length + 2) r) : wpr budget r Q := by
  intro st hst; subst hst; exact h

theorem wpr_peekPastBrackets {k : Nat} {r : List Token} {Q : TT → List Token → Prop} (h : ∀ t, Q t r) :
    wpr (peekPastBrackets k) r Q := by
  intro st hst; subst hst; exact h _

theorem wpr_warn {w : Warning} {r : List Token} {Q : Unit → List Token → Prop} (h : Q () r) : wpr (warn w) r Q :=
  wpr_modify (fun _ => rfl) h

/-- the relation between the token lists before and after an `advance`. -/
structure AdvRel (r r' : List Token) : Prop where
  eof : EofEnd r'
  a : cA r' + wtA (hd r).type = cA r
  b : cB r' + wtB (hd r).type = cB r

theorem adv_rel {r : List Token} (h : EofEnd r) : AdvRel r (tl r) := by
  cases r with
  | nil => exact absurd rfl h.ne_nil
  | cons t r => cases r with
    | nil =>
      have := h.single
      exact ⟨h, by simp [hd, tl, this, wtA], by simp [hd, tl, this, wtB]⟩
    | cons u r =>
      exact ⟨h.tail, by simp only [hd, tl, cA]; omega, by simp only [hd, tl, cB]; omega⟩

/-- `advance`: the new token list is related to the old one by `AdvRel`. -/
theorem wpr_advance {r : List Token} {Q : Token → List Token → Prop} (he : EofEnd r)
    (h : ∀ r', AdvRel r r' → Q (hd r) r') : wpr advance r Q := by
  intro st hst; subst hst
  obtain ⟨st', h1, h2⟩ := advance_run st he.ne_nil
  rw [h1]
  show Q _ st'.rest
  rw [h2]; exact h _ (adv_rel he)

end Parser
end Octave
