import Octave.Lemmas.Quoted
/-! A bare identifier written by the emitter is re-lexed as exactly one IDENTIFIER token (pattern dispatch,
keyword patterns with word boundaries, `_match_unicode_identifier`). -/
namespace Octave
open Lexer Emitter Scan

/-- ASCII identifier-start chars (emitter's `[A-Za-z_]`). -/
theorem identStart_props (c : Char) (h : isIdentStartA c = true) : isAscii c = true ∧ isDigitA c = false := by
  simp only [isIdentStartA, isAlphaA, isUpper, isLower, isAscii, isDigitA, Bool.or_eq_true, Bool.and_eq_true, decide_eq_true_eq,
    beq_iff_eq, Bool.and_eq_false_iff, decide_eq_false_iff_not] at *
  rcases h with (⟨h1, h2⟩ | ⟨h1, h2⟩) | h
  · constructor <;> omega
  · constructor <;> omega
  · subst h; decide

/-- an identifier-start char is none of the punctuation / operator chars the pattern dispatch tests. -/
theorem identStart_ne (c x : Char) (h : isIdentStartA c = true) (hx : isIdentStartA x = false) : (c == x) = false := by
  rw [beq_eq_false_iff_ne]
  intro e; subst e; rw [h] at hx; cases hx

/-- no token pattern except the keywords can start at an ASCII identifier-start char (not at offset 0). -/
theorem matchPattern_identStart (env : Env) (prev : Option Char) (c : Char) (t : Str) (h : isIdentStartA c = true)
    (hv : c = 'v' → kw env prev ['v', 's'] (c :: t) = none)
    (ht : c = 't' → kw env prev ['t', 'r', 'u', 'e'] (c :: t) = none)
    (hf : c = 'f' → kw env prev ['f', 'a', 'l', 's', 'e'] (c :: t) = none)
    (hn : c = 'n' → kw env prev ['n', 'u', 'l', 'l'] (c :: t) = none) :
    matchPattern env false prev (c :: t) = .ok none := by
  obtain ⟨ha, hd⟩ := identStart_props c h
  have ne := fun x (hx : isIdentStartA x = false) => identStart_ne c x h hx
  unfold matchPattern
  simp only [Bool.false_eq_true, if_false, Env.isDigit, Env.digit?, ha, hd, if_true, Option.isSome_none,
    ne '=' (by decide), ne '-' (by decide), ne '"' (by decide)]
  by_cases h1 : c = 'v'
  · subst h1; simp [matchKeyword, hv rfl]
  by_cases h2 : c = 't'
  · subst h2; simp [matchKeyword, ht rfl]
  by_cases h3 : c = 'f'
  · subst h3; simp [matchKeyword, hf rfl]
  by_cases h4 : c = 'n'
  · subst h4; simp [matchKeyword, hn rfl]
  have e1 : (c == 'v') = false := by simpa using h1
  have e2 : (c == 't') = false := by simpa using h2
  have e3 : (c == 'f') = false := by simpa using h3
  have e4 : (c == 'n') = false := by simpa using h4
  simp only [e1, e2, e3, e4, Bool.or_self, Bool.false_eq_true, if_false, matchPunct, singleCharType,
    ne '/' (by decide), ne ':' (by decide), ne '→' (by decide), ne '<' (by decide),
    ne '⊕' (by decide), ne '⧺' (by decide), ne '~' (by decide), ne '@' (by decide), ne '⇌' (by decide), ne '∨' (by decide),
    ne '|' (by decide), ne '∧' (by decide), ne '&' (by decide), ne '§' (by decide), ne '[' (by decide), ne ']' (by decide),
    ne ',' (by decide), ne '#' (by decide), ne '$' (by decide), ne '\n' (by decide), Option.map_none]

theorem lit_eq {p s r : Str} (h : lit p s = some r) : s = p ++ r := by
  induction p generalizing s with
  | nil => simp [lit] at h; simp [h]
  | cons x xs ih =>
    cases s with
    | nil => simp [lit] at h
    | cons c cs =>
      simp only [lit] at h
      split at h
      · rename_i hxc; have := ih h; simp at hxc; simp [hxc, this]
      · simp at h

theorem word_of_isWordA (env : Env) (d : Char) (h : isWordA d = true) : env.word d = true := by
  have ha : isAscii d = true := by
    simp only [isWordA, isAlnumA, isAlphaA, isUpper, isLower, isDigitA, isAscii, Bool.or_eq_true, Bool.and_eq_true, decide_eq_true_eq, beq_iff_eq] at *
    rcases h with ((⟨_, _⟩ | ⟨_, _⟩) | ⟨_, _⟩) | h
    · omega
    · omega
    · omega
    · subst h; decide
  simp only [Env.word, ha, if_true]
  simpa [isWordA] using h

/-- the keyword patterns (`\bvs\b`, `\btrue\b`, …) do not match at the start of `s ++ rest` when `s` does not
begin with the keyword followed by a non-word char / its end, and `rest` does not continue with a letter. -/
theorem kw_none (env : Env) (prev : Option Char) (w s rest : Str) (lastc : Char)
    (hwb : w.all isIdentBodyA = true) (hwl : w.getLast? = some lastc) (hlw : isWordA lastc = true)
    (hres : w.isPrefixOf s = true → ((s.drop w.length).head?.map isWordA).getD false = true)
    (hrest : ∀ d, rest.head? = some d → isIdentBodyA d = false) :
    kw env prev w (s ++ rest) = none := by
  unfold kw
  cases hl : lit w (s ++ rest) with
  | none => rfl
  | some r =>
    have heq := lit_eq hl
    have hb : env.boundary w.getLast? r.head? = false := by
      by_cases hp : w.isPrefixOf s = true
      · have hnext := hres hp
        obtain ⟨s', hs'⟩ := List.isPrefixOf_iff_prefix.mp hp
        subst hs'
        rw [List.append_assoc] at heq
        have hr : r = s' ++ rest := (List.append_cancel_left heq).symm
        simp only [List.drop_left] at hnext
        cases s' with
        | nil => simp at hnext
        | cons d s'' =>
          simp at hnext
          subst hr
          simp only [hwl, List.cons_append, List.head?_cons, Env.boundary, word_of_isWordA env d hnext, word_of_isWordA env lastc hlw]
          rfl
      · -- `w` is not a prefix of `s` but is a prefix of `s ++ rest`: the next keyword letter comes from `rest`
        exfalso
        have hp2 : w.isPrefixOf (s ++ rest) = true := by rw [heq]; simp
        rw [List.isPrefixOf_iff_prefix] at hp2
        obtain ⟨k, hk⟩ := hp2
        -- s ++ rest = w ++ k ; compare lengths
        rcases List.append_eq_append_iff.mp hk.symm with ⟨a, h1, h2⟩ | ⟨a, h1, h2⟩
        · -- w = s ++ a, rest = a ++ k
          cases a with
          | nil => simp at h1; subst h1; simp at hp
          | cons d a' =>
            have hd : isIdentBodyA d = true := by
              have : d ∈ w := by rw [h1]; simp
              exact (List.all_eq_true.mp hwb) d this
            have := hrest d (by rw [h2]; rfl)
            rw [hd] at this; cases this
        · -- s = w ++ a
          apply hp; rw [h1]; simp
    simp [hb]

theorem takeWhile_append_stop (p : Char → Bool) (t rest : Str) (ht : ∀ x ∈ t, p x = true)
    (hr : ∀ d, rest.head? = some d → p d = false) : takeWhile p (t ++ rest) = (t, rest) := by
  induction t with
  | nil =>
    cases rest with
    | nil => simp [takeWhile]
    | cons d r => simp [takeWhile, hr d rfl]
  | cons x xs ih =>
    have hx := ht x (by simp)
    have := ih (fun y hy => ht y (by simp [hy]))
    simp [takeWhile, hx, this]

theorem identBody_ascii (d : Char) (h : isIdentBodyA d = true) : isAscii d = true := by
  simp only [isIdentBodyA, isAlnumA, isAlphaA, isUpper, isLower, isDigitA, isAscii, Bool.or_eq_true, Bool.and_eq_true, decide_eq_true_eq, beq_iff_eq] at *
  rcases h with ((((⟨_, _⟩ | ⟨_, _⟩) | ⟨_, _⟩) | h) | h) | h
  · omega
  · omega
  · omega
  · subst h; decide
  · subst h; decide
  · subst h; decide

theorem idChar_of_identBody (env : Env) (d : Char) (h : isIdentBodyA d = true) : env.idChar d = true := by
  have ha := identBody_ascii d h
  simp only [Env.idChar, ha, if_true]
  simp only [isIdentBodyA, Bool.or_eq_true, beq_iff_eq] at h
  simp only [Bool.or_eq_true, beq_iff_eq]
  rcases h with ((h | h) | h) | h
  · exact Or.inl (Or.inl (Or.inl (Or.inl h)))
  · exact Or.inl (Or.inl (Or.inl (Or.inr h)))
  · exact Or.inl (Or.inl (Or.inr h))
  · exact Or.inr h

theorem stripHyphens_id (c : Char) (t : Str) (h : (c :: t).getLast? ≠ some '-') : stripHyphens (c :: t) = (c :: t, []) := by
  unfold stripHyphens
  have : (t.reverse.takeWhile (· == '-')).length = 0 := by
    cases ht : t.reverse with
    | nil => simp
    | cons x xs =>
      have hx : (c :: t).getLast? = some x := by
        have : t = (x :: xs).reverse := by rw [← ht]; simp
        rw [this, List.reverse_cons, ← List.cons_append, List.getLast?_append]; simp
      have hne : (x == '-') = false := by
        rw [beq_eq_false_iff_ne]; intro e; subst e; exact h hx
      simp [List.takeWhile, hne]
  simp [this]

/-- what may follow a bare value in canonical text: end of input or a char that neither extends an
identifier nor opens an annotation tail (newline, comma, closing bracket, space). -/
def TermOK (env : Env) (rest : Str) : Prop :=
  ∀ d, rest.head? = some d → env.idChar d = false ∧ isIdentBodyA d = false ∧ d ≠ '<' ∧ d ≠ '{'

theorem matchIdentifier_identText (env : Env) (lenient : Bool) (c : Char) (t rest : Str)
    (hc : isIdentStartA c = true) (ht : t.all isIdentBodyA = true) (hl : (c :: t).getLast? ≠ some '-')
    (hrest : TermOK env rest) :
    matchIdentifier env lenient (c :: t ++ rest) = some (c :: t, rest, none) := by
  obtain ⟨ha, _⟩ := identStart_props c hc
  have hstart : env.idStart c = true := by
    simp only [Env.idStart, ha, if_true]
    simp only [isIdentStartA, Bool.or_eq_true] at hc
    simp only [Bool.or_eq_true]
    rcases hc with h | h
    · exact Or.inl (Or.inl (Or.inl h))
    · exact Or.inl (Or.inl (Or.inr h))
  have htw : takeWhile env.idChar (t ++ rest) = (t, rest) :=
    takeWhile_append_stop env.idChar t rest
      (fun x hx => idChar_of_identBody env x ((List.all_eq_true.mp ht) x hx))
      (fun d hd => (hrest d hd).1)
  have hrun : idRun env (c :: t ++ rest) = some (c :: t, rest) := by
    simp only [idRun, List.cons_append, hstart, if_true, htw, stripHyphens_id c t hl, List.nil_append]
  have hangle : angleTail env rest = none := by
    unfold angleTail
    cases rest with
    | nil => rfl
    | cons d r =>
      have := (hrest d rfl).2.2.1
      split <;> simp_all
  have hcurly : curlyTail env rest = none := by
    unfold curlyTail
    cases rest with
    | nil => rfl
    | cons d r =>
      have := (hrest d rfl).2.2.2
      split <;> simp_all
  simp only [matchIdentifier, hrun, hangle, hcurly]

theorem reservedAt_false (s w : Str) (h : reservedAt s = false)
    (hw : w ∈ ["true".toList, "false".toList, "null".toList, "vs".toList]) :
    w.isPrefixOf s = true → ((s.drop w.length).head?.map isWordA).getD false = true := by
  intro hp
  unfold reservedAt at h
  rw [List.any_eq_false] at h
  have := h w hw
  simp only [hp, Bool.true_and, Bool.not_eq_true', Bool.not_eq_false] at this
  simpa using this

/-- **Bare identifiers re-lex as themselves.**  For every string the emitter leaves bare because it matches
`IDENTIFIER_PATTERN` (and `needs_quotes` found no reserved prefix), one lexer step on that string followed by any
terminator yields exactly one IDENTIFIER token whose value is the string, consumes exactly the string, and
emits no normalisation receipt — for every environment, lexer state (not at offset 0, not at a fence) and mode. -/
theorem bare_identifier_step (env : Env) (lenient : Bool) (st : LState) (s rest : Str)
    (hid : isIdentifierText s = true) (hres : hasReservedPrefix s = false) (hterm : TermOK env rest)
    (hspan : atSpanStart st = false) (hpos : st.blank = false) :
    step env lenient st (s ++ rest) = .ok ({ st with
        pos := st.pos + s.length, prev := s.getLast?.orElse (fun _ => st.prev), col := st.col + s.length,
        toks := { type := .identifier, value := .str s, line := st.line, col := st.col } :: st.toks,
        repairs := (identifierRepairs s st.line st.col).reverse ++ st.repairs, blank := false }, rest) := by
  cases s with
  | nil => simp [isIdentifierText] at hid
  | cons c t =>
    simp only [isIdentifierText, Bool.and_eq_true, bne_iff_ne, ne_eq] at hid
    obtain ⟨⟨hc, ht⟩, hl⟩ := hid
    have hra : reservedAt (c :: t) = false := by
      simp only [hasReservedPrefix, Bool.or_eq_false_iff] at hres; exact hres.1
    have hbody : (c :: t).all isIdentBodyA = true := by
      simp only [List.all_cons, Bool.and_eq_true]; refine ⟨?_, ht⟩
      simp only [isIdentStartA, Bool.or_eq_true] at hc
      simp only [isIdentBodyA, Bool.or_eq_true]
      rcases hc with h | h
      · exact Or.inl (Or.inl (Or.inl (by simp [isAlnumA, h])))
      · exact Or.inl (Or.inl (Or.inr h))
    have hrest' : ∀ d, rest.head? = some d → isIdentBodyA d = false := fun d hd => (hterm d hd).2.1
    have hkw : ∀ (w : Str) (lastc : Char), w ∈ ["true".toList, "false".toList, "null".toList, "vs".toList] →
        w.all isIdentBodyA = true → w.getLast? = some lastc → isWordA lastc = true →
        kw env st.prev w (c :: t ++ rest) = none := fun w lastc hw hwb hwl hlw =>
      kw_none env st.prev w (c :: t) rest lastc hwb hwl hlw (reservedAt_false (c :: t) w hra hw) hrest'
    have hmp : matchPattern env false st.prev (c :: (t ++ rest)) = .ok none :=
      matchPattern_identStart env st.prev c (t ++ rest) hc
        (fun _ => hkw ['v', 's'] 's' (by simp) (by decide) (by decide) (by decide))
        (fun _ => hkw ['t', 'r', 'u', 'e'] 'e' (by simp) (by decide) (by decide) (by decide))
        (fun _ => hkw ['f', 'a', 'l', 's', 'e'] 'e' (by simp) (by decide) (by decide) (by decide))
        (fun _ => hkw ['n', 'u', 'l', 'l'] 'l' (by simp) (by decide) (by decide) (by decide))
    have hmi := matchIdentifier_identText env lenient c t rest hc ht (by simpa using hl) hterm
    have hsp : (c == ' ') = false := identStart_ne c ' ' hc (by decide)
    have heq3 : startsWith "===".toList (c :: (t ++ rest)) = false := by
      have hne : c ≠ '=' := by
        have := identStart_ne c '=' hc (by decide); simpa using this
      show List.isPrefixOf ['=', '=', '='] (c :: (t ++ rest)) = false
      simp only [List.isPrefixOf]
      have : ('=' == c) = false := by rw [beq_eq_false_iff_ne]; exact hne.symm
      simp [this]
    have hplus : (c == '+') = false := identStart_ne c '+' hc (by decide)
    simp only [List.cons_append] at hmi ⊢
    unfold step
    simp only [hspan, hsp, hpos, hmp, heq3, hplus, hmi, Bool.false_eq_true, if_false, bind, Except.bind, Bool.false_and]
    simp [List.take_left']

end Octave
