import Octave.Lemmas.FlatLexBase
/-!
FRAME LEMMA for the lexer's main loop: pending fence spans that start AHEAD of the current position are not looked at.

`Lexer.step` consults `st.spans` only through `atSpanStart st` (is the current position the start of the first pending
span?) and, in every other branch, copies the field along.  So a step / a `Run` proved for a state WITHOUT pending spans
(`Ready`: the whole `step_*` / `run_*` library of FlatLexBase, FlatLex, NumberLex, BlockLex, CommentLex, …) holds verbatim
for the same state WITH pending spans, provided the run ends at or before the start of the first pending span.

To know where a run ends one needs the POSITION bookkeeping of `step`, which the `Adv` records do not carry; it is proved
here once and for all, for EVERY input: outside the fence branch `step` advances `pos` by exactly the number of characters
it removes from the remaining input (`step_pos`: every token pattern, the indentation branch, identifiers with annotation
tails — the lenient `{q}` → `<q>` rewrite keeps the length —, the `+` fallback and the `%` merge).

Contents:
* exact-length lemmas for the recognisers of `Model/Scan` and the token patterns (`*_len`), `matchPattern_len`,
  `matchIdentifier_len`;
* `step_pos`, `step_spans` (a non-fence step copies the pending spans);
* `setSpans`, `step_frame` (one step), `Run.pos` / `Run.len_le` (position after a run), `Run.frame` (a whole run).
-/
namespace Octave
open Lexer Scan

/-! ### exact lengths: the recognisers of `Model/Scan` -/

namespace Scan

theorem takeWhile_len (p : Char → Bool) (s : Str) : (takeWhile p s).1.length + (takeWhile p s).2.length = s.length := by
  have h := congrArg List.length (takeWhile_append p s)
  simpa only [List.length_append] using h

theorem many1_len {p : Char → Bool} {s a b : Str} (h : many1 p s = some (a, b)) : a.length + b.length = s.length := by
  unfold many1 at h
  have hd := takeWhile_len p s
  split at h
  · simp at h
  · rename_i a' b' hne heq
    simp only [Option.some.injEq, Prod.mk.injEq] at h
    obtain ⟨rfl, rfl⟩ := h
    rw [heq] at hd
    exact hd

theorem stringBody_len (s : Str) : ∀ a b, stringBody s = some (a, b) → a.length + 1 + b.length = s.length := by
  fun_induction stringBody s <;> intro a b h
  all_goals simp_all
  all_goals (try (obtain ⟨x, y, hxy, rfl, rfl⟩ := h))
  all_goals first | omega | (rename_i ih; have := ih _ _ y; simp only [List.length_cons]; omega)

theorem tripleBody_len (s : Str) : ∀ a b, tripleBody s = some (a, b) → a.length + 3 + b.length = s.length := by
  fun_induction tripleBody s <;> intro a b h
  all_goals simp_all
  all_goals (try (obtain ⟨x, y, hxy, rfl, rfl⟩ := h))
  all_goals first | omega | (rename_i ih; have := ih _ _ y; simp only [List.length_cons]; omega)

theorem dotDigitsStar_len (env : Env) (fuel : Nat) (s : Str) :
    (dotDigitsStar env fuel s).1.length + (dotDigitsStar env fuel s).2.length = s.length := by
  induction fuel generalizing s with
  | zero => simp [dotDigitsStar]
  | succ n ih =>
    unfold dotDigitsStar
    split
    · rename_i r
      cases hm : many1 env.isDigit r with
      | none => simp
      | some v =>
        obtain ⟨d, r'⟩ := v
        have h1 := many1_len hm
        have h2 := ih r'
        simp only [List.length_cons, List.length_append]; omega
    · simp

theorem prerelease_len {s a b : Str} (h : prerelease s = some (a, b)) : a.length + b.length = s.length := by
  unfold prerelease at h
  split at h
  · rename_i r
    cases hm : many1 isPreChar r with
    | none => simp [hm] at h
    | some v =>
      obtain ⟨x, y⟩ := v
      simp [hm] at h
      obtain ⟨rfl, rfl⟩ := h
      have := many1_len hm
      simp only [List.length_cons]; omega
  · simp at h

theorem build_len {s a b : Str} (h : build s = some (a, b)) : a.length + b.length = s.length := by
  unfold build at h
  split at h
  · rename_i r
    cases hm : many1 isBuildChar r with
    | none => simp [hm] at h
    | some v =>
      obtain ⟨x, y⟩ := v
      simp [hm] at h
      obtain ⟨rfl, rfl⟩ := h
      have := many1_len hm
      simp only [List.length_cons]; omega
  · simp at h

theorem opt_len (f : Str → Option (Str × Str)) (hf : ∀ s a b, f s = some (a, b) → a.length + b.length = s.length) (s : Str) :
    (opt f s).1.length + (opt f s).2.length = s.length := by
  unfold opt
  cases h : f s with
  | none => simp
  | some v => obtain ⟨a, b⟩ := v; exact hf s a b h

theorem twoParts_len {env : Env} {s a b : Str} (h : twoParts env s = some (a, b)) : a.length + b.length = s.length := by
  unfold twoParts at h
  cases hm1 : many1 env.isDigit s with
  | none => simp [hm1] at h
  | some v =>
    obtain ⟨d1, r⟩ := v
    simp only [hm1] at h
    cases r with
    | nil => simp at h
    | cons c r1 =>
      by_cases hc : c = '.'
      · subst hc
        simp only at h
        cases hm2 : many1 env.isDigit r1 with
        | none => simp [hm2] at h
        | some w =>
          obtain ⟨d2, r'⟩ := w
          simp [hm2] at h
          obtain ⟨rfl, rfl⟩ := h
          have h1 := many1_len hm1
          have h2 := many1_len hm2
          simp only [List.length_cons, List.length_append] at h1 ⊢; omega
      · split at h
        · rename_i heq; simp at heq; exact absurd heq.2.1 hc
        · simp at h

theorem sentinelVersion_len {env : Env} {s a b : Str} (h : sentinelVersion env s = some (a, b)) : a.length + b.length = s.length := by
  unfold sentinelVersion at h
  cases hm : many1 env.isDigit s with
  | none => simp [hm] at h
  | some v =>
    obtain ⟨d, r⟩ := v
    simp only [hm] at h
    have h1 := many1_len hm
    have h2 := dotDigitsStar_len env r.length r
    have h3 := opt_len prerelease (fun _ _ _ => prerelease_len) (dotDigitsStar env r.length r).2
    simp only [Option.some.injEq, Prod.mk.injEq] at h
    obtain ⟨rfl, rfl⟩ := h
    simp only [List.length_append]; omega

theorem version3_len {env : Env} {s a b : Str} (h : version3 env s = some (a, b)) : a.length + b.length = s.length := by
  unfold version3 at h
  cases ht : twoParts env s with
  | none => simp [ht] at h
  | some v =>
    obtain ⟨ab, r⟩ := v
    have h0 := twoParts_len ht
    simp only [ht] at h
    cases r with
    | nil => simp at h
    | cons c r0 =>
      by_cases hc : c = '.'
      · subst hc
        simp only at h
        cases hm : many1 env.isDigit r0 with
        | none => simp [hm] at h
        | some w =>
          obtain ⟨d3, r1⟩ := w
          have h1 := many1_len hm
          have h2 := dotDigitsStar_len env r1.length r1
          have h3 := opt_len prerelease (fun _ _ _ => prerelease_len) (dotDigitsStar env r1.length r1).2
          have h4 := opt_len build (fun _ _ _ => build_len) (opt prerelease (dotDigitsStar env r1.length r1).2).2
          simp [hm] at h
          obtain ⟨rfl, rfl⟩ := h
          simp only [List.length_cons, List.length_append] at h0 ⊢; omega
      · split at h
        · rename_i heq; simp at heq; exact absurd heq.2.1 hc
        · simp at h

theorem version2pre_len {env : Env} {s a b : Str} (h : version2pre env s = some (a, b)) : a.length + b.length = s.length := by
  unfold version2pre at h
  cases ht : twoParts env s with
  | none => simp [ht] at h
  | some v =>
    obtain ⟨ab, r⟩ := v
    have h0 := twoParts_len ht
    simp only [ht] at h
    cases hp : prerelease r with
    | none => simp [hp] at h
    | some w =>
      obtain ⟨p, r1⟩ := w
      have h1 := prerelease_len hp
      have h2 := opt_len build (fun _ _ _ => build_len) r1
      simp [hp] at h
      obtain ⟨rfl, rfl⟩ := h
      simp only [List.length_append]; omega

theorem version2build_len {env : Env} {s a b : Str} (h : version2build env s = some (a, b)) : a.length + b.length = s.length := by
  unfold version2build at h
  cases ht : twoParts env s with
  | none => simp [ht] at h
  | some v =>
    obtain ⟨ab, r⟩ := v
    have h0 := twoParts_len ht
    simp only [ht] at h
    cases hb : build r with
    | none => simp [hb] at h
    | some w =>
      obtain ⟨p, r1⟩ := w
      have h1 := build_len hb
      simp [hb] at h
      obtain ⟨rfl, rfl⟩ := h
      simp only [List.length_append]; omega

theorem envelopeStart_len {s a b : Str} (h : envelopeStart s = some (a, b)) : a.length + 6 + b.length = s.length := by
  unfold envelopeStart at h
  split at h
  · rename_i c r hl
    have h0 := lit_rest hl
    split at h
    · have h1 := takeWhile_len isEnvBody r
      simp only [Option.map_eq_some_iff, Prod.mk.injEq] at h
      obtain ⟨r2, hl2, rfl, rfl⟩ := h
      have h2 := lit_rest hl2
      have e3 : "===".toList.length = 3 := by decide
      simp only [List.length_cons, e3] at h0 h2 ⊢
      omega
    · simp at h
  · simp at h

theorem optChar_len (p : Char → Bool) (s : Str) : (optChar p s).1.length + (optChar p s).2.length = s.length := by
  unfold optChar
  split
  · split <;> simp; omega
  · simp

theorem number_len {env : Env} {s a b : Str} (h : number env s = some (a, b)) : a.length + b.length = s.length := by
  unfold number at h
  have h0 := optChar_len (· == '-') s
  cases hm : many1 env.isDigit (optChar (· == '-') s).2 with
  | none => simp [hm] at h
  | some v =>
    obtain ⟨d, r1⟩ := v
    have h1 := many1_len hm
    have h2 := optChar_len (· == '.') r1
    have h3 := takeWhile_len env.isDigit (optChar (· == '.') r1).2
    simp only [hm] at h
    split at h
    · rename_i e r4 heq
      have h4 := optChar_len (fun c => c == '+' || c == '-') r4
      have h5 : r4.length + 1 = (takeWhile env.isDigit (optChar (· == '.') r1).2).2.length := by rw [heq]; simp
      split at h
      · cases hm2 : many1 env.isDigit (optChar (fun c => c == '+' || c == '-') r4).2 with
        | none =>
          simp [hm2] at h; obtain ⟨rfl, rfl⟩ := h
          simp only [List.length_append]; omega
        | some w =>
          obtain ⟨ed, r6⟩ := w
          have h6 := many1_len hm2
          simp [hm2] at h; obtain ⟨rfl, rfl⟩ := h
          simp only [List.length_append, List.length_cons]; omega
      · simp at h; obtain ⟨rfl, rfl⟩ := h
        simp only [List.length_append]; omega
    · simp at h; obtain ⟨rfl, rfl⟩ := h
      simp only [List.length_append]; omega

end Scan
end Octave

namespace Octave
open Lexer Scan

/-! ### exact lengths: the token patterns -/

theorem simple_text (t : TT) (text rest : Str) : (simple t text rest).text = text := by
  unfold simple; split <;> rfl

theorem numberMatch_text {env : Env} {t r1 : Str} {m : Match} (h : numberMatch env t r1 = .ok (some m)) : m.text = t := by
  unfold numberMatch at h
  split at h
  · split at h
    · cases h
    · simp only [Except.ok.injEq, Option.some.injEq] at h; subst h; rfl
  · split at h
    · simp only [Except.ok.injEq, Option.some.injEq] at h; subst h; rfl
    · cases h

theorem kw_len {env : Env} {prev : Option Char} {w s r : Str} (h : kw env prev w s = some r) : w.length + r.length = s.length := by
  unfold kw at h
  split at h
  · rename_i r' hl
    split at h
    · simp at h; subst h
      have := lit_rest hl
      omega
    · simp at h
  · simp at h

theorem matchSentinel_len {env : Env} {s : Str} {m : Match} (h : matchSentinel env s = some m) :
    m.text.length + m.rest.length = s.length := by
  unfold matchSentinel at h
  split at h
  · rename_i r0 hl
    have h0 := lit_rest hl
    simp only [Option.map_eq_some_iff] at h
    obtain ⟨⟨v, r1⟩, hv, rfl⟩ := h
    have := sentinelVersion_len hv
    simp only [List.length_append]; omega
  · simp at h

theorem matchDigit_len {env : Env} {s : Str} {m : Match} (h : matchDigit env s = .ok (some m)) :
    m.text.length + m.rest.length = s.length := by
  unfold matchDigit at h
  split at h
  · rename_i v r1 hv; simp at h; subst h; exact version3_len hv
  · split at h
    · rename_i v r1 hv; simp at h; subst h; exact version2pre_len hv
    · split at h
      · rename_i v r1 hv; simp at h; subst h; exact version2build_len hv
      · split at h
        · rename_i t r1 hn; rw [numberMatch_rest h, numberMatch_text h]; exact number_len hn
        · simp at h

theorem matchEq_len {s : Str} {m : Match} (h : matchEq s = some m) : m.text.length + m.rest.length = s.length := by
  unfold matchEq at h
  split at h
  · rename_i r1 hl; simp at h; subst h
    have := lit_rest hl
    have e : "===END===".toList.length = 9 := by decide
    rw [e] at this
    simp only [List.length_cons, List.length_nil]; omega
  · split at h
    · rename_i name r1 he; simp at h; subst h
      have := envelopeStart_len he
      simp only [List.length_append, List.length_cons, List.length_nil]; omega
    · simp at h

theorem matchDash_len {env : Env} {s : Str} {m : Match} (h : matchDash env s = .ok (some m)) :
    m.text.length + m.rest.length = s.length := by
  unfold matchDash at h
  split at h
  · rename_i r1 hl; simp at h; subst h
    have := lit_rest hl
    have e : "---".toList.length = 3 := by decide
    rw [e] at this
    rw [simple_rest, simple_text]; simp only [List.length_cons, List.length_nil]; omega
  · split at h
    · rename_i r1 hl; simp at h; subst h
      have := lit_rest hl
      have e : "->".toList.length = 2 := by decide
      rw [e] at this
      rw [simple_rest, simple_text]; simp only [List.length_cons, List.length_nil]; omega
    · split at h
      · rename_i t r1 hn; rw [numberMatch_rest h, numberMatch_text h]; exact number_len hn
      · simp at h

theorem matchQuote_len {c : Char} {r : Str} {m : Match} (h : matchQuote (c :: r) r = some m) :
    m.text.length + m.rest.length = (c :: r).length := by
  unfold matchQuote at h
  simp only at h
  split at h
  · rename_i m' hm
    simp at h; subst h
    split at hm
    · rename_i r0 hl
      have h0 := lit_rest hl
      simp only [Option.map_eq_some_iff] at hm
      obtain ⟨⟨body, r1⟩, hb, rfl⟩ := hm
      have := tripleBody_len r0 body r1 hb
      have e3 : "\"\"\"".toList.length = 3 := by decide
      simp only [List.length_append, e3] at h0 ⊢; omega
    · simp at hm
  · split at h
    · rename_i body r1 hb
      simp at h; subst h
      have := stringBody_len r body r1 hb
      simp only [List.length_cons, List.length_append, List.length_nil]; omega
    · simp at h

theorem matchKeyword_len {env : Env} {prev : Option Char} {c : Char} {s : Str} {m : Match}
    (h : matchKeyword env prev c s = some m) : m.text.length + m.rest.length = s.length := by
  unfold matchKeyword at h
  split at h
  · simp only [Option.map_eq_some_iff] at h; obtain ⟨r1, hk, rfl⟩ := h
    rw [simple_rest, simple_text]; exact kw_len hk
  · split at h
    · simp only [Option.map_eq_some_iff] at h; obtain ⟨r1, hk, rfl⟩ := h
      exact kw_len hk
    · split at h
      · simp only [Option.map_eq_some_iff] at h; obtain ⟨r1, hk, rfl⟩ := h
        exact kw_len hk
      · split at h
        · simp only [Option.map_eq_some_iff] at h; obtain ⟨r1, hk, rfl⟩ := h
          exact kw_len hk
        · simp at h

theorem matchPunct_len {env : Env} {c : Char} {r : Str} {m : Match}
    (h : matchPunct env c r (c :: r) = some m) : m.text.length + m.rest.length = (c :: r).length := by
  unfold matchPunct at h
  split at h
  · split at h
    · rename_i r1
      simp at h; subst h
      have := takeWhile_len (· != '\n') r1
      simp only [List.length_cons]; omega
    · simp at h
  · split at h
    · split at h
      · simp at h; subst h; simp only [simple_rest, simple_text, List.length_cons, List.length_nil]; omega
      · simp at h; subst h; simp only [simple_rest, simple_text, List.length_cons, List.length_nil]; omega
    · split at h
      · simp only [Option.map_eq_some_iff] at h; obtain ⟨r1, hl, rfl⟩ := h
        have := lit_rest hl
        rw [simple_rest, simple_text]; omega
      · split at h
        · simp only [Option.map_eq_some_iff] at h; obtain ⟨⟨b, r1⟩, hm, rfl⟩ := h
          have := many1_len hm
          simp only [List.length_cons]; omega
        · split at h
          · simp at h; subst h; simp only [List.length_cons, List.length_nil]; omega
          · simp only [Option.map_eq_some_iff] at h; obtain ⟨t, _, rfl⟩ := h
            simp only [simple_rest, simple_text, List.length_cons, List.length_nil]; omega

/-- **every token pattern consumes exactly its text**: `len(matched_text)` characters go, the rest stays. -/
theorem matchPattern_len {env : Env} {z : Bool} {prev : Option Char} {s : Str} {m : Match}
    (h : matchPattern env z prev s = .ok (some m)) : m.text.length + m.rest.length = s.length := by
  unfold matchPattern at h
  split at h
  · simp at h
  · rename_i c r
    split at h
    · rename_i m' hs
      simp at h; subst h
      split at hs
      · exact matchSentinel_len hs
      · simp at hs
    · split at h
      · exact matchDigit_len h
      · split at h
        · simp at h; exact matchEq_len h
        · split at h
          · exact matchDash_len h
          · split at h
            · simp at h; exact matchQuote_len h
            · split at h
              · simp at h; exact matchKeyword_len h
              · simp at h; exact matchPunct_len h

/-! ### exact lengths: identifiers -/

theorem idRun_len {env : Env} {s a b : Str} (h : idRun env s = some (a, b)) : a.length + b.length = s.length := by
  unfold idRun at h
  split at h
  · rename_i c cs
    split at h
    · have h1 := takeWhile_len env.idChar cs
      have h2 := stripHyphens_len c (takeWhile env.idChar cs).1
      simp only [Option.some.injEq, Prod.mk.injEq] at h
      obtain ⟨rfl, rfl⟩ := h
      simp only [List.length_append, List.length_cons] at *
      omega
    · simp at h
  · simp at h

/-- `<q>`: the two brackets and the text between them are consumed. -/
theorem angleTail_len {env : Env} {s a b : Str} (h : angleTail env s = some (a, b)) : a.length + 2 + b.length = s.length := by
  unfold angleTail at h
  split at h
  · simp at h; obtain ⟨rfl, rfl⟩ := h; simp only [List.length_cons, List.length_nil]; omega
  · rename_i c cs _
    split at h
    · have h1 := takeWhile_len (fun d => env.idChar d || d == ',') cs
      have h2 := stripHyphens_len c (takeWhile (fun d => env.idChar d || d == ',') cs).1
      generalize hsh : stripHyphens (c :: (takeWhile (fun d => env.idChar d || d == ',') cs).1) = sh at h h2
      obtain ⟨kept, back⟩ := sh
      generalize htw : takeWhile (fun d => env.idChar d || d == ',') cs = tw at h h1 h2 hsh
      obtain ⟨body, r⟩ := tw
      simp only at h h1 h2
      have e1 : (stripHyphens (c :: body)).1 = kept := by rw [hsh]
      have e2 : (stripHyphens (c :: body)).2 = back := by rw [hsh]
      split at h
      · rename_i r' heq
        simp at h; obtain ⟨rfl, rfl⟩ := h
        have h3 := congrArg List.length heq
        simp only [e1, e2] at *
        simp only [List.length_append, List.length_cons] at *
        omega
      · simp at h
    · simp at h
  · simp at h

/-- `{q}`: the two braces and the qualifier are consumed. -/
theorem curlyTail_len {env : Env} {s a b : Str} (h : curlyTail env s = some (a, b)) : a.length + 2 + b.length = s.length := by
  unfold curlyTail at h
  split at h
  · rename_i r
    split at h
    · rename_i q r' hi
      simp at h; obtain ⟨rfl, rfl⟩ := h
      have := idRun_len hi
      simp only [List.length_cons] at *; omega
    · simp at h
  · simp at h

/-- `_match_unicode_identifier`: the token value is exactly as long as the text it replaces (the lenient `{q}` → `<q>`
rewrite keeps the length). -/
theorem matchIdentifier_len {env : Env} {l : Bool} {s v rest : Str} {rep : Option (Str × Str)}
    (h : matchIdentifier env l s = some (v, rest, rep)) : v.length + rest.length = s.length := by
  unfold matchIdentifier at h
  split at h
  · simp at h
  · rename_i name r hi
    have h0 := idRun_len hi
    split at h
    rename_i name1 r1 hpair
    have h1' : name1.length + r1.length = s.length := by
      cases ha : angleTail env r with
      | none => simp [ha] at hpair; obtain ⟨rfl, rfl⟩ := hpair; exact h0
      | some v =>
        obtain ⟨q, r'⟩ := v
        simp [ha] at hpair; obtain ⟨rfl, rfl⟩ := hpair
        have := angleTail_len ha
        simp only [List.length_append, List.length_cons, List.length_nil]; omega
    split at h
    · rename_i q r2 hc
      have h2 := curlyTail_len hc
      split at h
      · simp only [Option.some.injEq, Prod.mk.injEq] at h; obtain ⟨rfl, rfl, _⟩ := h
        simp only [List.length_append, List.length_cons, List.length_nil]; omega
      · simp only [Option.some.injEq, Prod.mk.injEq] at h; obtain ⟨rfl, rfl, _⟩ := h; exact h1'
    · simp only [Option.some.injEq, Prod.mk.injEq] at h; obtain ⟨rfl, rfl, _⟩ := h; exact h1'

end Octave

namespace Octave
open Lexer Scan

/-! ### the frame lemma -/

/-- the same lexer state with other pending fence spans. -/
def setSpans (st : LState) (sps : List Span) : LState := { st with spans := sps }

@[simp] theorem setSpans_pos (st : LState) (sps : List Span) : (setSpans st sps).pos = st.pos := rfl
@[simp] theorem setSpans_prev (st : LState) (sps : List Span) : (setSpans st sps).prev = st.prev := rfl
@[simp] theorem setSpans_line (st : LState) (sps : List Span) : (setSpans st sps).line = st.line := rfl
@[simp] theorem setSpans_col (st : LState) (sps : List Span) : (setSpans st sps).col = st.col := rfl
@[simp] theorem setSpans_toks (st : LState) (sps : List Span) : (setSpans st sps).toks = st.toks := rfl
@[simp] theorem setSpans_repairs (st : LState) (sps : List Span) : (setSpans st sps).repairs = st.repairs := rfl
@[simp] theorem setSpans_stack (st : LState) (sps : List Span) : (setSpans st sps).stack = st.stack := rfl
@[simp] theorem setSpans_spans (st : LState) (sps : List Span) : (setSpans st sps).spans = sps := rfl
@[simp] theorem setSpans_blank (st : LState) (sps : List Span) : (setSpans st sps).blank = st.blank := rfl

theorem notAtSpan {st : LState} (h : ∀ sp ∈ st.spans.head?, st.pos < sp.start) : atSpanStart st = false := by
  unfold atSpanStart
  cases hs : st.spans with
  | nil => rfl
  | cons sp rest =>
    have := h sp (by rw [hs]; rfl)
    simp only [beq_eq_false_iff_ne]; omega

/-- **FRAME LEMMA, one step.**  Outside the fence branch (`atSpanStart = false`, before and after the pending spans are
replaced by `sps`) `step` does the same thing whatever the pending spans are: same tokens, receipts, line / column, same
remaining input, the pending spans copied along.  It also advances `pos` by exactly the number of characters it removes
from the remaining input. -/
theorem step_frame (env : Env) (lenient : Bool) (st st' : LState) (s s' : Str) (sps : List Span)
    (hns0 : atSpanStart st = false) (hns : atSpanStart (setSpans st sps) = false)
    (h : step env lenient st s = .ok (st', s')) :
    step env lenient (setSpans st sps) s = .ok (setSpans st' sps, s') ∧ st'.pos + s'.length = st.pos + s.length
      ∧ st'.spans = st.spans := by
  cases s with
  | nil =>
    simp only [step, Except.ok.injEq, Prod.mk.injEq] at h
    obtain ⟨rfl, rfl⟩ := h
    exact ⟨rfl, rfl, rfl⟩
  | cons c r =>
    unfold step at h
    simp only [hns0, Bool.false_eq_true, if_false] at h
    unfold step
    simp only [hns, Bool.false_eq_true, if_false, setSpans_pos, setSpans_prev, setSpans_line, setSpans_col, setSpans_toks,
      setSpans_repairs, setSpans_stack, setSpans_spans, setSpans_blank]
    split at h
    · -- space
      rename_i hc
      simp only [hc, if_true]
      have htw := takeWhile_len (· == ' ') (c :: r)
      split at h
      · rename_i hcol
        simp only [hcol, if_true]
        split at h
        · rename_i d tail heq
          simp only [heq]
          split at h
          · rename_i hd
            simp only [hd, if_true]
            simp only [Except.ok.injEq, Prod.mk.injEq] at h
            obtain ⟨rfl, rfl⟩ := h
            refine ⟨by rw [heq]; rfl, ?_, rfl⟩
            simp only [List.length_cons] at htw ⊢; omega
          · rename_i hd
            simp only [hd, Bool.false_eq_true, if_false]
            simp only [Except.ok.injEq, Prod.mk.injEq] at h
            obtain ⟨rfl, rfl⟩ := h
            refine ⟨by rw [heq]; rfl, ?_, rfl⟩
            simp only [List.length_cons] at htw ⊢; omega
        · rename_i heq
          simp only [heq]
          simp only [Except.ok.injEq, Prod.mk.injEq] at h
          obtain ⟨rfl, rfl⟩ := h
          refine ⟨by rw [heq]; rfl, ?_, rfl⟩
          simp only [List.length_cons] at htw ⊢; omega
      · rename_i hcol
        simp only [hcol, Bool.false_eq_true, if_false]
        simp only [Except.ok.injEq, Prod.mk.injEq] at h
        obtain ⟨rfl, rfl⟩ := h
        refine ⟨rfl, ?_, rfl⟩
        simp only [List.length_cons]; omega
    · rename_i hc
      simp only [hc, Bool.false_eq_true, if_false]
      simp only [bind, Except.bind] at h ⊢
      cases hmp : matchPattern env st.blank st.prev (c :: r) with
      | error e => simp [hmp] at h
      | ok v =>
        simp only [hmp] at h ⊢
        cases v with
        | some m =>
          simp only at h ⊢
          have hlen := matchPattern_len hmp
          split at h
          · simp at h
          · rename_i stk hstk
            simp only [Except.ok.injEq, Prod.mk.injEq] at h
            obtain ⟨rfl, rfl⟩ := h
            refine ⟨rfl, ?_, rfl⟩
            simp only [List.length_cons] at hlen ⊢; omega
        | none =>
          simp only at h ⊢
          split at h
          · simp at h
          · rename_i hinv
            simp only [hinv, Bool.false_eq_true, if_false]
            split at h
            · rename_i hplus
              simp only [hplus, if_true]
              simp only [Except.ok.injEq, Prod.mk.injEq] at h
              obtain ⟨rfl, rfl⟩ := h
              refine ⟨rfl, ?_, rfl⟩
              simp only [List.length_cons]; omega
            · rename_i hplus
              simp only [hplus, Bool.false_eq_true, if_false]
              split at h
              · rename_i ident rest rep hmi
                have hlen := matchIdentifier_len hmi
                simp only [Except.ok.injEq, Prod.mk.injEq] at h
                obtain ⟨rfl, rfl⟩ := h
                refine ⟨rfl, ?_, rfl⟩
                simp only [List.length_cons] at hlen ⊢; omega
              · by_cases hpc : (c == '%') = true
                · simp only [hpc, if_true] at h ⊢
                  cases htoks : st.toks with
                  | nil => simp [htoks] at h
                  | cons last before =>
                    simp only [htoks] at h ⊢
                    by_cases hty : ((last.type == TT.number || last.type == TT.identifier) && !startsWith "::".toList (env.lstrip r)) = true
                    · simp only [hty, if_true] at h ⊢
                      have key : ∀ pv : Str,
                          (match (match pv.getLast? with
                              | some lc => if env.isAlnum lc = true then
                                  some (({ st with pos := st.pos + (stripHyphens ('%' :: (takeWhile (fun d => env.idChar d && !isOperatorChar d) r).1)).1.length,
                                                   prev := (stripHyphens ('%' :: (takeWhile (fun d => env.idChar d && !isOperatorChar d) r).1)).1.getLast?,
                                                   col := st.col + (stripHyphens ('%' :: (takeWhile (fun d => env.idChar d && !isOperatorChar d) r).1)).1.length,
                                                   toks := ({ type := .identifier, value := .str (pv ++ (stripHyphens ('%' :: (takeWhile (fun d => env.idChar d && !isOperatorChar d) r).1)).1),
                                                              line := last.line, col := last.col, normFrom := last.normFrom, raw := none } : Token) :: before,
                                                   blank := false } : LState),
                                        (stripHyphens ('%' :: (takeWhile (fun d => env.idChar d && !isOperatorChar d) r).1)).2 ++ (takeWhile (fun d => env.idChar d && !isOperatorChar d) r).2)
                                else none
                              | none => none : Option (LState × Str)) with
                            | some res => Except.ok res
                            | none => Except.error (Exc.lexer "E005".toList st.line st.col) : Except Exc (LState × Str)) = .ok (st', s') →
                          (match (match pv.getLast? with
                              | some lc => if env.isAlnum lc = true then
                                  some (({ st with pos := st.pos + (stripHyphens ('%' :: (takeWhile (fun d => env.idChar d && !isOperatorChar d) r).1)).1.length,
                                                   prev := (stripHyphens ('%' :: (takeWhile (fun d => env.idChar d && !isOperatorChar d) r).1)).1.getLast?,
                                                   col := st.col + (stripHyphens ('%' :: (takeWhile (fun d => env.idChar d && !isOperatorChar d) r).1)).1.length,
                                                   toks := ({ type := .identifier, value := .str (pv ++ (stripHyphens ('%' :: (takeWhile (fun d => env.idChar d && !isOperatorChar d) r).1)).1),
                                                              line := last.line, col := last.col, normFrom := last.normFrom, raw := none } : Token) :: before,
                                                   spans := sps, blank := false } : LState),
                                        (stripHyphens ('%' :: (takeWhile (fun d => env.idChar d && !isOperatorChar d) r).1)).2 ++ (takeWhile (fun d => env.idChar d && !isOperatorChar d) r).2)
                                else none
                              | none => none : Option (LState × Str)) with
                            | some res => Except.ok res
                            | none => Except.error (Exc.lexer "E005".toList st.line st.col) : Except Exc (LState × Str)) = .ok (setSpans st' sps, s')
                          ∧ st'.pos + s'.length = st.pos + (c :: r).length ∧ st'.spans = st.spans := by
                        intro pv h
                        cases hlast : pv.getLast? with
                        | none => simp [hlast] at h
                        | some lc =>
                          simp only [hlast] at h ⊢
                          by_cases hal : env.isAlnum lc = true
                          · simp only [hal, if_true] at h ⊢
                            simp only [Except.ok.injEq, Prod.mk.injEq] at h
                            obtain ⟨rfl, rfl⟩ := h
                            have h1 := takeWhile_len (fun d => env.idChar d && !isOperatorChar d) r
                            have h2 := stripHyphens_len '%' (takeWhile (fun d => env.idChar d && !isOperatorChar d) r).1
                            refine ⟨rfl, ?_, rfl⟩
                            simp only [List.length_append, List.length_cons] at *
                            omega
                          · simp [hal] at h
                      exact key _ h
                    · rw [if_neg hty] at h; cases h
                · rw [if_neg hpc] at h; cases h

/-- a non-fence step copies the pending spans and advances `pos` by what it consumes. -/
theorem step_pos (env : Env) (lenient : Bool) (st st' : LState) (s s' : Str)
    (hns : atSpanStart st = false) (h : step env lenient st s = .ok (st', s')) :
    st'.pos + s'.length = st.pos + s.length ∧ st'.spans = st.spans :=
  (step_frame env lenient st st' s s' st.spans hns hns h).2

theorem atSpanStart_nil {st : LState} (h : st.spans = []) : atSpanStart st = false := by simp [atSpanStart, h]

theorem setSpans_self (st : LState) : setSpans st st.spans = st := rfl

/-- a run without pending spans: the remaining input only shrinks, `pos` counts the consumed characters, no span appears. -/
theorem Run.pos_nil {env : Env} {lenient : Bool} {n : Nat} {st st' : LState} {s s' : Str}
    (h : Run env lenient n st s st' s') (h0 : st.spans = []) :
    s'.length ≤ s.length ∧ st'.pos + s'.length = st.pos + s.length ∧ st'.spans = [] := by
  induction h with
  | refl => exact ⟨Nat.le_refl _, rfl, h0⟩
  | cons hs _ ih =>
    have hp := step_pos env lenient _ _ _ _ (atSpanStart_nil h0) hs
    have hlt := (step_progress env lenient _ _ _ _ (by simp) (by rw [h0]; intro sp hsp; simp at hsp) hs).1
    obtain ⟨i1, i2, i3⟩ := ih (by rw [hp.2, h0])
    exact ⟨by omega, by omega, i3⟩

/-- **FRAME LEMMA, a whole run.**  Any `Run` proved for a state without pending spans — every `step_*` / `run_*` lemma
stated under `Ready` — holds verbatim with pending spans `sps` carried along, provided the run ends at or before the
start of the first pending span (`pos` + consumed length `≤ sp.start`). -/
theorem Run.frame {env : Env} {lenient : Bool} {n : Nat} {st st' : LState} {s s' : Str}
    (h : Run env lenient n st s st' s') (h0 : st.spans = []) (sps : List Span)
    (hahead : ∀ sp ∈ sps.head?, st.pos + (s.length - s'.length) ≤ sp.start) :
    Run env lenient n (setSpans st sps) s (setSpans st' sps) s' := by
  induction h with
  | refl => exact Run.refl _ _
  | @cons n st st1 st' c r s1 s' hs hrun ih =>
    have hns0 := atSpanStart_nil h0
    have hp := step_pos env lenient _ _ _ _ hns0 hs
    have hlt := (step_progress env lenient _ _ _ _ (by simp) (by rw [h0]; intro sp hsp; simp at hsp) hs).1
    have h1 : st1.spans = [] := by rw [hp.2, h0]
    obtain ⟨i1, i2, _⟩ := hrun.pos_nil h1
    have hns : atSpanStart (setSpans st sps) = false := by
      apply notAtSpan
      intro sp hsp
      have := hahead sp hsp
      simp only [setSpans_pos]; omega
    have hf := (step_frame env lenient st st1 (c :: r) s1 sps hns0 hns hs).1
    refine Run.cons hf (ih h1 ?_)
    intro sp hsp
    have := hahead sp hsp
    omega

end Octave
