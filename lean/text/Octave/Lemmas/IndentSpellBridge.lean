import Octave.Lemmas.BlockBridge
import Octave.Lemmas.IndentSpell
import Octave.Lemmas.IndentSpellParse
/-!
Glue between the lexer half (`IndentSpell`, concrete positions) and the parser half (`IndentSpellParse`, arbitrary positions)
for block trees spelled with free indentation widths — `Lemmas/BlockBridge.lean` restated (its `Agree` machinery is reused).

* `INode.toP` / `itreeToP`       the spelled tree as the parser half describes it (the widths are kept);
* `INode.lpos` / `ilposList d l` the positions the lexer gives to every source line: line `l`, INDENT at column 1, key at
                                 column `1 + d` (`d` = the line's leading spaces);
* `iposOf nodes`                 the position function of the parser half;
* `itreeToks_agree`, `idocToks_bridge`   the two token descriptions coincide;
* `canonCols_iposOf`             every block key sits at column `d + 1` and every width is positive (`widthsOk`): hence `colsOk`;
* `nodeList_matches`             whatever the positions, the AST of the parser half carries the ERASED tree (`treeMatches`).
-/
namespace Octave.C03.Indent
open Octave Lexer Emitter

mutual
def INode.toP : INode → IndentParse.PNode
  | .line ln => .line ln.key ln.v.toP
  | .block key w cs => .block key w (itreeToP cs)
def itreeToP : List INode → List IndentParse.PNode
  | [] => []
  | n :: ns => n.toP :: itreeToP ns
end

/-- positions of the tokens of a `KEY::value` line with `d` leading spaces, text line `l`. -/
def ilinePos (ln : FLine) (d l : Nat) : BlockParse.LPos :=
  { li := l, ci := 1, l := l, c1 := 1 + d, c2 := 1 + d + ln.key.length, c3 := 1 + d + ln.key.length + 2,
    c4 := 1 + d + ln.key.length + 2 + ln.v.text.length }

/-- positions of the tokens of a block header `KEY:` with `d` leading spaces, text line `l`. -/
def iheaderPos (key : Str) (d l : Nat) : BlockParse.LPos :=
  { li := l, ci := 1, l := l, c1 := 1 + d, c2 := 1 + d + key.length, c3 := 1 + d + key.length + 1,
    c4 := 1 + d + key.length + 1 }

mutual
def INode.lpos (d l : Nat) : INode → List BlockParse.LPos
  | .line ln => [ilinePos ln d l]
  | .block key w cs => iheaderPos key d l :: ilposList (d + w) (l + 1) cs
def ilposList (d l : Nat) : List INode → List BlockParse.LPos
  | [] => []
  | n :: ns => n.lpos d l ++ ilposList d (l + n.nlines) ns
end

/-- the position function of the parser half for the spelled text: body line `i` (0-based) is text line `i + 2`. -/
def iposOf (nodes : List INode) : Nat → BlockParse.LPos := fun i => (ilposList 0 2 nodes).getD i default

mutual
theorem INode.lines_toP : ∀ (n : INode), n.toP.lines = n.nlines
  | .line ln => rfl
  | .block key w cs => by simp only [INode.toP, IndentParse.PNode.lines, INode.nlines, linesList_toP cs]
theorem linesList_toP : ∀ (ns : List INode), IndentParse.linesList (itreeToP ns) = itreeNLines ns
  | [] => rfl
  | n :: ns => by simp only [itreeToP, IndentParse.linesList, itreeNLines, INode.lines_toP n, linesList_toP ns]
end

mutual
theorem INode.lpos_length : ∀ (n : INode) (d l : Nat), (n.lpos d l).length = n.nlines
  | .line ln, d, l => rfl
  | .block key w cs, d, l => by
    simp only [INode.lpos, INode.nlines, List.length_cons, ilposList_length cs (d + w) (l + 1)]; omega
theorem ilposList_length : ∀ (ns : List INode) (d l : Nat), (ilposList d l ns).length = itreeNLines ns
  | [], d, l => rfl
  | n :: ns, d, l => by
    simp only [ilposList, itreeNLines, List.length_append, INode.lpos_length n d l, ilposList_length ns d (l + n.nlines)]
end

theorem agree_iposOf (nodes : List INode) : Agree (iposOf nodes) (ilposList 0 2 nodes) 0 := by
  intro j p hp
  simp only [iposOf, Nat.zero_add, List.getD_eq_getElem?_getD, hp, Option.getD_some]

/-! ### the two descriptions of the token list agree -/

theorem iIndentToks_bridge (d l : Nat) (p : BlockParse.LPos) (h1 : p.li = l) (h2 : p.ci = 1) :
    iIndentToks d l = IndentParse.indentToks d p := by
  cases d with
  | zero => rfl
  | succ k =>
    simp only [iIndentToks, IndentParse.indentToks, IndentParse.indentTok, tIndent, h1, h2, Nat.succ_ne_zero, if_false]

theorem iline_body_bridge (ln : FLine) (d l : Nat) :
    [tIdent ln.key l (1 + d), tAssign l (1 + d + ln.key.length), ln.v.tok l (1 + d + ln.key.length + 2),
      tNewline l (1 + d + ln.key.length + 2 + ln.v.text.length)]
      = (BlockParse.mkLine ln.key ln.v.toP (ilinePos ln d l)).toks := by
  simp only [FlatParse.Line.toks, FlatParse.Line.keyTok, FlatParse.Line.assignTok, FlatParse.Line.valTok,
    FlatParse.Line.nlTok, BlockParse.mkLine, ilinePos, FScalar.tok_toP]
  rfl

theorem iheader_body_bridge (key : Str) (d l : Nat) :
    [tIdent key l (1 + d), tBlock l (1 + d + key.length), tNewline l (1 + d + key.length + 1)]
      = [BlockParse.hdrKeyTok key (iheaderPos key d l), BlockParse.hdrBlockTok (iheaderPos key d l),
         BlockParse.hdrNlTok (iheaderPos key d l)] := rfl

mutual
theorem INode.toks_agree : ∀ (n : INode) (d l : Nat) (pos : Nat → BlockParse.LPos) (i : Nat),
    Agree pos (n.lpos d l) i → n.toks d l = IndentParse.indentToks d (pos i) ++ n.toP.body pos d i
  | .line ln, d, l, pos, i, h => by
    simp only [INode.lpos] at h
    have hp : pos i = ilinePos ln d l := h.head
    simp only [INode.toks, ilineToks, INode.toP, IndentParse.PNode.body, hp]
    rw [iIndentToks_bridge d l (ilinePos ln d l) rfl rfl, iline_body_bridge]
  | .block key w cs, d, l, pos, i, h => by
    simp only [INode.lpos] at h
    have hp : pos i = iheaderPos key d l := h.head
    have ih := itreeToks_agree cs (d + w) (l + 1) pos (i + 1) h.tail
    simp only [INode.toks, iheaderToks, INode.toP, IndentParse.PNode.body, hp, ih]
    rw [iIndentToks_bridge d l (iheaderPos key d l) rfl rfl, iheader_body_bridge]
    simp only [List.append_assoc, List.cons_append, List.nil_append]
theorem itreeToks_agree : ∀ (ns : List INode) (d l : Nat) (pos : Nat → BlockParse.LPos) (i : Nat),
    Agree pos (ilposList d l ns) i → itreeToks d l ns = IndentParse.toksList pos (itreeToP ns) d i
  | [], d, l, pos, i, _ => rfl
  | n :: ns, d, l, pos, i, h => by
    simp only [ilposList] at h
    have h2 := h.right
    rw [INode.lpos_length] at h2
    simp only [itreeToks, itreeToP, IndentParse.toksList, INode.toks_agree n d l pos i h.left,
      itreeToks_agree ns d (l + n.nlines) pos (i + n.nlines) h2, INode.lines_toP, List.append_assoc]
end

/-- **the two descriptions of the token list of the whole spelled document agree.** -/
theorem idocToks_bridge (name : Str) (nodes : List INode) :
    idocToks name nodes
      = IndentParse.treeToks (treeFrame name (itreeNLines nodes)) name (iposOf nodes) (itreeToP nodes) := by
  rw [idocToks_eq, itreeToks_agree nodes 0 2 (iposOf nodes) 0 (agree_iposOf nodes)]
  rfl

/-! ### the side conditions of the parser half -/

mutual
theorem INode.canonCols_agree : ∀ (n : INode) (d l : Nat) (pos : Nat → BlockParse.LPos) (i : Nat),
    Agree pos (n.lpos d l) i → n.widthsOk = true → n.toP.canonCols pos d i = true
  | .line ln, d, l, pos, i, _, _ => rfl
  | .block key w cs, d, l, pos, i, h, hw => by
    simp only [INode.lpos] at h
    simp only [INode.widthsOk, Bool.and_eq_true, decide_eq_true_eq] at hw
    have hp : pos i = iheaderPos key d l := h.head
    simp only [INode.toP, IndentParse.PNode.canonCols, hp, canonColsList_agree cs (d + w) (l + 1) pos (i + 1) h.tail hw.2,
      Bool.and_true, Bool.and_eq_true, decide_eq_true_eq, iheaderPos]
    omega
theorem canonColsList_agree : ∀ (ns : List INode) (d l : Nat) (pos : Nat → BlockParse.LPos) (i : Nat),
    Agree pos (ilposList d l ns) i → widthsOkList ns = true → IndentParse.canonColsList pos (itreeToP ns) d i = true
  | [], d, l, pos, i, _, _ => rfl
  | n :: ns, d, l, pos, i, h, hw => by
    simp only [ilposList] at h
    simp only [widthsOkList, Bool.and_eq_true] at hw
    have h2 := h.right
    rw [INode.lpos_length] at h2
    simp only [itreeToP, IndentParse.canonColsList, INode.canonCols_agree n d l pos i h.left hw.1, INode.lines_toP,
      canonColsList_agree ns d (l + n.nlines) pos (i + n.nlines) h2 hw.2, Bool.and_self]
end

/-- in the spelled text every block key sits right after its leading spaces, and every width is positive. -/
theorem canonCols_iposOf (nodes : List INode) (hw : widthsOkList nodes = true) :
    IndentParse.canonColsList (iposOf nodes) (itreeToP nodes) 0 0 = true :=
  canonColsList_agree nodes 0 2 (iposOf nodes) 0 (agree_iposOf nodes) hw

/-- … hence the parser's own side condition holds: for EVERY choice of positive widths. -/
theorem colsOk_iposOf (nodes : List INode) (hw : widthsOkList nodes = true) :
    IndentParse.colsOkList (iposOf nodes) (itreeToP nodes) 0 0 = true :=
  IndentParse.colsOkList_of_canon _ _ 0 0 (canonCols_iposOf nodes hw)

theorem metaFirstT_ibridge (nodes : List INode) : IndentParse.metaFirstT (itreeToP nodes) = firstKeyIsMeta (eraseList nodes) := by
  cases nodes with
  | nil => rfl
  | cons n ns => cases n <;> rfl

/-! ### the document -/

mutual
/-- whatever the positions, the AST the parser half prescribes carries the tree that is spelled (widths forgotten). -/
theorem INode.node_matches (pos : Nat → BlockParse.LPos) : ∀ (n : INode) (i : Nat), n.erase.Matches (n.toP.node pos i)
  | .line ln, i => by
    simp only [INode.erase, INode.toP, IndentParse.PNode.node, TNode.Matches, FlatParse.Line.node, BlockParse.mkLine,
      FScalar.val_toP]
    exact ⟨_, _, rfl⟩
  | .block key w cs, i => by
    simp only [INode.erase, INode.toP, IndentParse.PNode.node, TNode.Matches]
    exact ⟨_, _, _, rfl, nodeList_matches pos cs (i + 1)⟩
theorem nodeList_matches (pos : Nat → BlockParse.LPos) : ∀ (ns : List INode) (i : Nat),
    treeMatches (eraseList ns) (IndentParse.nodeList pos (itreeToP ns) i)
  | [], i => by simp [eraseList, itreeToP, IndentParse.nodeList, treeMatches]
  | n :: ns, i => by
    simp only [eraseList, itreeToP, IndentParse.nodeList, treeMatches]
    exact ⟨_, _, rfl, INode.node_matches pos n i, nodeList_matches pos ns (i + n.toP.lines)⟩
end

theorem stripFrontmatter_idoc (env : Env) (name : Str) (nodes : List INode) :
    Parser.stripFrontmatter env (idocText name nodes) = (idocText name nodes, none) := by
  unfold Parser.stripFrontmatter
  have : startsWith "---".toList (idocText name nodes) = false := by
    simp [idocText, startsWith, List.isPrefixOf]
  rw [this]; rfl

end Octave.C03.Indent
