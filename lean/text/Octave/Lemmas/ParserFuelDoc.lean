import Octave.Lemmas.ParserFuelParseValue
/-!
C20, parser side: **no hang** — `ParserDoc`: `parse_section`, the block / section child loops, `parse_section_marker`.
-/
namespace Octave
namespace Parser

-- the proofs below execute every path of large `do` blocks symbolically: 5× the default budget, so that no proof
-- sits at the edge of the deterministic timeout
set_option maxHeartbeats 1000000

theorem trackKey_spec {kp : KeyPos} {key : Str} {line : Nat} {r : List Token} (_ : True) :
    wpr (trackKey kp key line) r (fun _ r' => Same r r') := by
  unfold trackKey
  wp_run
  all_goals wp_fin
macro_rules
  | `(tactic| wp_lemma) => `(tactic| with_reducible refine wpr_mono (trackKey_spec ?_) (fun _ _ _ => ?_))

theorem preIndentComments_spec : ∀ {fuel : Nat} {acc : List Str} {r : List Token},
    (EofEnd r ∧ cB r < fuel) → wpr (preIndentComments fuel acc) r (fun _ r' => Le r r') := by
  intro fuel
  induction fuel with
  | zero => intro _ r h; omega
  | succ n ih =>
    intro acc r h
    unfold preIndentComments
    wp_ind [ih]
    all_goals wp_fin
macro_rules
  | `(tactic| wp_lemma) => `(tactic| with_reducible refine wpr_mono (preIndentComments_spec ?_) (fun _ _ _ => ?_))

theorem commentBelongsOuter_spec {a b : Nat} {r : List Token} {Q : Bool → List Token → Prop} (h : ∀ x, Q x r) :
    wpr (commentBelongsOuter a b) r Q := by
  unfold commentBelongsOuter
  wp_run
  all_goals exact h _
macro_rules
  | `(tactic| wp_lemma) => `(tactic| ((with_reducible refine commentBelongsOuter_spec ?_); intro _))

/-! the four specifications at one fuel level -/

/-- `parse_section`: either nothing was consumed and the answer is `None`, or at least one token of weight 1 went. -/
def SpecS (fuel : Nat) : Prop := ∀ {lead : List Str} {r : List Token}, (EofEnd r ∧ cA r + 2 ≤ fuel) →
  wpr (parseSection fuel lead) r (fun res r' => Le r r' ∧ ((Same r r' ∧ res = none) ∨ cA r' + 1 ≤ cA r))
def SpecB (fuel : Nat) : Prop :=
  ∀ {ci li : Nat} {pend : List Str} {ch : List Node} {kp : KeyPos} {r : List Token}, (EofEnd r ∧ cA r + 3 ≤ fuel) →
  wpr (blockLoop fuel ci li pend ch kp) r (fun _ r' => Le r r')
def SpecM (fuel : Nat) : Prop := ∀ {r : List Token}, (EofEnd r ∧ cA r + 1 ≤ fuel) →
  wpr (parseSectionMarker fuel) r (fun _ r' => Le r r' ∧ cA r' + 1 ≤ cA r)
def SpecSL (fuel : Nat) : Prop :=
  ∀ {ci li : Nat} {pend : List Str} {ch : List Node} {kp : KeyPos} {r : List Token}, (EofEnd r ∧ cA r + 3 ≤ fuel) →
  wpr (sectionLoop fuel ci li pend ch kp) r (fun _ r' => Le r r')

theorem parseSection_step {n : Nat} (ihB : SpecB n) (ihM : SpecM n) : SpecS (n + 1) := by
  unfold SpecS SpecB SpecM at *
  intro lead r h
  unfold parseSection
  wp_ind [ihB, ihM]
  all_goals wp_fin

theorem parseSectionMarker_step {n : Nat} (ihSL : SpecSL n) : SpecM (n + 1) := by
  unfold SpecM SpecSL at *
  intro r h
  unfold parseSectionMarker
  wp_ind [ihSL]
  all_goals wp_fin

theorem sectionLoop_step {n : Nat} (ihS : SpecS n) (ihSL : SpecSL n) : SpecSL (n + 1) := by
  unfold SpecS SpecSL at *
  intro ci li pend ch kp r h
  unfold sectionLoop
  wp_ind [ihS, ihSL]
  all_goals try wp_fin
  all_goals first
    | contradiction
    | (exfalso; generalize (hd _).type = t at *; cases t <;> simp_all)

theorem blockLoop_step {n : Nat} (ihS : SpecS n) (ihB : SpecB n) : SpecB (n + 1) := by
  unfold SpecS SpecB at *
  intro ci li pend ch kp r h
  unfold blockLoop
  wp_ind [ihS, ihB]
  all_goals try wp_fin
  all_goals first
    | contradiction
    | (exfalso; generalize (hd _).type = t at *; cases t <;> simp_all)

/-- **Fuel of the section block**: with `cA rest + 2 ≤ fuel`, `parse_section` never runs out of fuel. -/
theorem section_spec : ∀ fuel : Nat, SpecS fuel ∧ SpecB fuel ∧ SpecM fuel ∧ SpecSL fuel := by
  intro fuel
  induction fuel with
  | zero =>
    refine ⟨?_, ?_, ?_, ?_⟩
    · intro _ r h; omega
    · intro _ _ _ _ _ r h; omega
    · intro r h; omega
    · intro _ _ _ _ _ r h; omega
  | succ n ih =>
    obtain ⟨ihS, ihB, ihM, ihSL⟩ := ih
    exact ⟨parseSection_step ihB ihM, blockLoop_step ihS ihB, parseSectionMarker_step ihSL, sectionLoop_step ihS ihSL⟩

theorem parseSection_spec {fuel : Nat} {lead : List Str} {r : List Token} (h : EofEnd r ∧ cA r + 2 ≤ fuel) :
    wpr (parseSection fuel lead) r (fun res r' => Le r r' ∧ ((Same r r' ∧ res = none) ∨ cA r' + 1 ≤ cA r)) :=
  (section_spec fuel).1 h
macro_rules
  | `(tactic| wp_lemma) => `(tactic| with_reducible refine wpr_mono (parseSection_spec ?_) (fun _ _ _ => ?_))

end Parser
end Octave
