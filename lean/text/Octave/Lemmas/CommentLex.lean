import Octave.Lemmas.BlockLex
/-!
The lexer and the emitter on documents with COMMENTS: leading comment lines above a node (`indent // text`), the trailing
comment of an assignment (`KEY::value // text`), the document's trailing comment lines before `===END===`, on trees of any
depth and width (`CNode`).  New steps `step_inner_space` / `step_comment` in the `Adv` format of `FlatLex`, scalar values in front
of a space (`step_scalar_sp`), comment lines and lines with a trailing comment at depth `d`, the tree by structural recursion
(`run_cnode` / `run_ctree`), the whole document (`tokenize_ctree`) and the emitter (`emit_ctree`).
-/
namespace Octave
open Lexer Scan Emitter

/-! ### `strip` / `rstrip` on comment texts -/

theorem isSpace_space (env : Env) : env.isSpace ' ' = true := by
  simp [Env.isSpace, isAscii]

theorem isSpace_slash (env : Env) : env.isSpace '/' = false := by
  simp [Env.isSpace, isAscii]

theorem strip_empty (env : Env) : env.strip [] = [] := rfl

/-- the space the emitter puts between `//` and the text is stripped by the lexer. -/
theorem strip_space_cons (env : Env) (c : Str) : env.strip (' ' :: c) = env.strip c := by
  simp [Env.strip, Env.lstrip, List.dropWhile, isSpace_space]

theorem rstrip_snoc_space (env : Env) (a : Str) : env.rstrip (a ++ [' ']) = env.rstrip a := by
  simp [Env.rstrip, isSpace_space]

/-- a strip-stable text does not end with a white-space character. -/
theorem strip_stable_last (env : Env) (c : Str) (h : env.strip c = c) :
    ∀ x, c.getLast? = some x → env.isSpace x = false := by
  intro x hx
  have h1 : c.reverse = (env.lstrip c).reverse.dropWhile env.isSpace := by
    have : c.reverse = (env.strip c).reverse := by rw [h]
    rw [this]; simp [Env.strip, Env.rstrip]
  have h2 : c.reverse.head? = some x := by rw [List.head?_reverse]; exact hx
  rw [h1] at h2
  have := List.head?_dropWhile_not env.isSpace (env.lstrip c).reverse
  rw [h2] at this
  simpa using this

/-- `rstrip` leaves a line alone when it ends with a non-empty text that does not end with white space. -/
theorem rstrip_append_stable (env : Env) (a c : Str) (hne : c ≠ [])
    (hl : ∀ x, c.getLast? = some x → env.isSpace x = false) : env.rstrip (a ++ c) = a ++ c := by
  cases hc : c.reverse with
  | nil => simp at hc; exact absurd hc hne
  | cons x xs =>
    have hx : c.getLast? = some x := by rw [← List.head?_reverse, hc]; rfl
    have hsp := hl x hx
    unfold Env.rstrip
    rw [List.reverse_append, hc, List.cons_append, List.dropWhile_cons_of_neg (by simp [hsp]), ← List.cons_append, ← hc,
      ← List.reverse_append, List.reverse_reverse]

/-! ### comment texts -/

/-- what the emitter writes after `//`: nothing for the empty comment, else a space and the text. -/
def cmtBody (c : Str) : Str := if c.isEmpty then [] else ' ' :: c

/-- a comment without its indentation: `//` or `// text`. -/
def cmtText (c : Str) : Str := '/' :: '/' :: cmtBody c

/-- the texts that survive a write/read cycle as comments: the lexer strips the text (`strip c = c` is needed for the token
to carry `c`, and for the emitter's `rstrip` of the whole line to be the identity), the comment ends at the first line break,
and a tab outside a literal zone is a lexer error.  The EMPTY text is allowed, so is a text that starts with `/`. -/
def CommentOK (env : Env) (c : Str) : Prop := env.strip c = c ∧ Clean c

instance (p : Str) : Decidable (Clean p) := by unfold Clean; exact inferInstance
instance (env : Env) (c : Str) : Decidable (CommentOK env c) := by unfold CommentOK; exact inferInstance

theorem strip_cmtBody (env : Env) (c : Str) (h : env.strip c = c) : env.strip (cmtBody c) = c := by
  unfold cmtBody
  split
  · rename_i he
    have : c = [] := by simpa using he
    subst this; rfl
  · rw [strip_space_cons, h]

theorem cmtBody_clean (c : Str) (h : Clean c) : Clean (cmtBody c) := by
  unfold cmtBody
  split
  · intro d hd; simp at hd
  · intro d hd
    rcases List.mem_cons.mp hd with h' | h'
    · subst h'; decide
    · exact h d h'

theorem cmtText_clean (c : Str) (h : Clean c) : Clean (cmtText c) := by
  intro d hd
  simp only [cmtText, List.mem_cons] at hd
  rcases hd with h' | h' | h'
  · subst h'; decide
  · subst h'; decide
  · exact cmtBody_clean c h d h'

/-- **the emitter's comment line** is `indent // text`, and `indent //` for the empty comment (no trailing space). -/
theorem commentLine_eq (env : Env) (d : Nat) (c : Str) (h : env.strip c = c) :
    commentLine env d c = indentStr d ++ cmtText c := by
  unfold commentLine cmtText cmtBody
  by_cases he : c = []
  · subst he
    have e : indentStr d ++ "// ".toList ++ [] = (indentStr d ++ ['/', '/']) ++ [' '] := by simp
    rw [e, rstrip_snoc_space, rstrip_append_stable env (indentStr d) ['/', '/'] (by simp)]
    · simp
    · intro x hx
      have : x = '/' := by simpa using hx.symm
      subst this; exact isSpace_slash env
  · have hemp : c.isEmpty = false := by simpa using he
    have e : indentStr d ++ "// ".toList ++ c = (indentStr d ++ ['/', '/', ' ']) ++ c := by simp
    rw [e, rstrip_append_stable env _ c he (strip_stable_last env c h)]
    simp [hemp]

/-! ### new steps -/

def tComment (c : Str) (l col : Nat) : Token := { type := .comment, value := .str c, line := l, col := col }

/-- **a space inside a line** (not at column 1): consumed, no token. -/
theorem step_inner_space (env : Env) (lenient : Bool) (st : LState) (rest : Str) (hr : Ready st) (hcol : st.col ≠ 1) :
    ∃ st', step env lenient st (' ' :: rest) = .ok (st', rest) ∧ Adv st st' [] [] 0 (st.col + 1) (some ' ') := by
  have hc : (st.col == 1) = false := by simpa using hcol
  refine ⟨{ st with pos := st.pos + 1, prev := some ' ', col := st.col + 1, blank := false }, ?_, ?_⟩
  · unfold step
    simp only [hr.noSpan, Bool.false_eq_true, if_false, beq_self_eq_true, if_true, hc]
  · exact ⟨⟨hr.spans, rfl⟩, rfl, rfl, rfl, rfl, rfl, rfl⟩

def mComment (env : Env) (body rest : Str) : Match :=
  { type := .comment, value := .str (env.strip body), text := '/' :: '/' :: body, rest := rest }

theorem takeWhile_notNl (body rest : Str) (hb : ∀ x ∈ body, x ≠ '\n') (hrest : ∀ x, rest.head? = some x → x = '\n') :
    takeWhile (· != '\n') (body ++ rest) = (body, rest) := by
  apply takeWhile_append_stop
  · intro x hx; simpa using hb x hx
  · intro d hd; simp [hrest d hd]

theorem matchPattern_comment (env : Env) (prev : Option Char) (body rest : Str) (hb : ∀ x ∈ body, x ≠ '\n')
    (hrest : ∀ x, rest.head? = some x → x = '\n') :
    matchPattern env false prev ('/' :: '/' :: (body ++ rest)) = .ok (some (mComment env body rest)) := by
  have hd : env.isDigit '/' = false := isDigit_ascii_false env '/' (by decide) (by decide)
  unfold matchPattern
  simp only [Bool.false_eq_true, if_false, hd]
  rw [if_neg (by decide), if_neg (by decide), if_neg (by decide), if_neg (by decide)]
  unfold matchPunct
  rw [if_pos (by decide)]
  simp only [takeWhile_notNl body rest hb hrest]
  rfl

/-- **a comment**: `//` and everything up to the line end (or the end of the input) is ONE COMMENT token whose value is the
stripped text; no receipt; the column moves past the comment. -/
theorem step_comment (env : Env) (lenient : Bool) (st : LState) (body rest : Str) (hr : Ready st)
    (hb : ∀ x ∈ body, x ≠ '\n') (hrest : ∀ x, rest.head? = some x → x = '\n') :
    ∃ st' p, step env lenient st ('/' :: '/' :: (body ++ rest)) = .ok (st', rest) ∧
      Adv st st' [tComment (env.strip body) st.line st.col] [] 0 (st.col + (2 + body.length)) p := by
  have hm : matchPattern env st.blank st.prev ('/' :: '/' :: (body ++ rest)) = .ok (some (mComment env body rest)) := by
    rw [hr.blank]; exact matchPattern_comment env st.prev body rest hb hrest
  have hnl : ∀ d ∈ '/' :: '/' :: body, d ≠ '\n' := by
    intro d hd
    simp only [List.mem_cons] at hd
    rcases hd with h | h | h
    · subst h; decide
    · subst h; decide
    · exact hb d h
  have hadv := advancePos_noNl st.line st.col ('/' :: '/' :: body) hnl
  refine ⟨patNext st (mComment env body rest), (patNext st (mComment env body rest)).prev,
    pattern_step_eq env lenient st '/' _ (mComment env body rest) hr.noSpan (by decide) hm (by simp [mComment])
    (by simp [mComment]), ?_⟩
  refine ⟨⟨hr.spans, by simp [patNext, hr.blank]⟩, rfl, rfl, rfl, ?_, ?_, rfl⟩
  · simp [patNext, mComment, hadv]
  · simp only [patNext, mComment, hadv, List.length_cons]; omega

end Octave

namespace Octave
open Lexer Scan Emitter

/-! ### scalar values in front of a space (the trailing comment follows) -/

theorem word_sp (env : Env) : env.word ' ' = false := by
  simp [Env.word, isAscii, isAlnumA, isAlphaA, isDigitA, isUpper, isLower]

theorem termOK_sp (env : Env) (rest : Str) : TermOK env (' ' :: rest) := by
  intro d hd
  have : d = ' ' := by simpa using hd.symm
  subst this
  refine ⟨?_, by decide, by decide, by decide⟩
  simp [Env.idChar, isAscii, isAlnumA, isAlphaA, isDigitA, isUpper, isLower]

/-- `true` after `::` and before any char that is not a word char (the `\b` of `\btrue\b`). -/
theorem matchPattern_true_term (env : Env) (d : Char) (rest : Str) (hd : env.word d = false) :
    matchPattern env false (some ':') ("true".toList ++ d :: rest) = .ok (some (mBool true (d :: rest))) := by
  have hdg : env.isDigit 't' = false := isDigit_ascii_false env 't' (by decide) (by decide)
  show matchPattern env false (some ':') ('t' :: ("rue".toList ++ d :: rest)) = _
  unfold matchPattern
  simp only [Bool.false_eq_true, if_false, hdg]
  have hk : kw env (some ':') "true".toList ('t' :: ("rue".toList ++ d :: rest)) = some (d :: rest) := by
    unfold kw
    have hl : lit "true".toList ('t' :: ("rue".toList ++ d :: rest)) = some (d :: rest) := lit_append "true".toList _
    rw [hl]
    simp [Env.boundary, word_colon, hd, word_lower env 't' (by decide), word_lower env 'e' (by decide)]
  have : matchKeyword env (some ':') 't' ('t' :: ("rue".toList ++ d :: rest)) = some (mBool true (d :: rest)) := by
    unfold matchKeyword
    simp only [hk]
    rfl
  rw [if_neg (by decide), if_neg (by decide), if_neg (by decide), if_pos (by decide), this]

theorem matchPattern_false_term (env : Env) (d : Char) (rest : Str) (hd : env.word d = false) :
    matchPattern env false (some ':') ("false".toList ++ d :: rest) = .ok (some (mBool false (d :: rest))) := by
  have hdg : env.isDigit 'f' = false := isDigit_ascii_false env 'f' (by decide) (by decide)
  show matchPattern env false (some ':') ('f' :: ("alse".toList ++ d :: rest)) = _
  unfold matchPattern
  simp only [Bool.false_eq_true, if_false, hdg]
  have hk : kw env (some ':') "false".toList ('f' :: ("alse".toList ++ d :: rest)) = some (d :: rest) := by
    unfold kw
    have hl : lit "false".toList ('f' :: ("alse".toList ++ d :: rest)) = some (d :: rest) := lit_append "false".toList _
    rw [hl]
    simp [Env.boundary, word_colon, hd, word_lower env 'f' (by decide), word_lower env 'e' (by decide)]
  have : matchKeyword env (some ':') 'f' ('f' :: ("alse".toList ++ d :: rest)) = some (mBool false (d :: rest)) := by
    unfold matchKeyword
    simp only [hk]
    rfl
  rw [if_neg (by decide), if_neg (by decide), if_neg (by decide), if_pos (by decide), this]

theorem matchPattern_null_term (env : Env) (d : Char) (rest : Str) (hd : env.word d = false) :
    matchPattern env false (some ':') ("null".toList ++ d :: rest) = .ok (some (mNull (d :: rest))) := by
  have hdg : env.isDigit 'n' = false := isDigit_ascii_false env 'n' (by decide) (by decide)
  show matchPattern env false (some ':') ('n' :: ("ull".toList ++ d :: rest)) = _
  unfold matchPattern
  simp only [Bool.false_eq_true, if_false, hdg]
  have hk : kw env (some ':') "null".toList ('n' :: ("ull".toList ++ d :: rest)) = some (d :: rest) := by
    unfold kw
    have hl : lit "null".toList ('n' :: ("ull".toList ++ d :: rest)) = some (d :: rest) := lit_append "null".toList _
    rw [hl]
    simp [Env.boundary, word_colon, hd, word_lower env 'n' (by decide), word_lower env 'l' (by decide)]
  have : matchKeyword env (some ':') 'n' ('n' :: ("ull".toList ++ d :: rest)) = some (mNull (d :: rest)) := by
    unfold matchKeyword
    simp only [hk]
    rfl
  rw [if_neg (by decide), if_neg (by decide), if_neg (by decide), if_pos (by decide), this]

/-- `true` / `false` right after `::` and before a non-word char: one BOOLEAN token. -/
theorem step_bool_term (env : Env) (lenient : Bool) (st : LState) (b : Bool) (d : Char) (rest : Str) (hr : Ready st)
    (hp : st.prev = some ':') (hd : env.word d = false) :
    ∃ st', step env lenient st ((if b then "true".toList else "false".toList) ++ d :: rest) = .ok (st', d :: rest) ∧
      Adv st st' [tBool b st.line st.col] [] 0 (st.col + (if b then 4 else 5)) (some 'e') := by
  cases b with
  | true =>
    have hm : matchPattern env st.blank st.prev ('t' :: ("rue".toList ++ d :: rest)) = .ok (some (mBool true (d :: rest))) := by
      rw [hr.blank, hp]; exact matchPattern_true_term env d rest hd
    refine ⟨_, pattern_step_eq env lenient st 't' _ (mBool true (d :: rest)) hr.noSpan (by decide) hm (by simp [mBool]) (by simp [mBool]), ?_⟩
    refine ⟨⟨hr.spans, by simp [patNext, hr.blank]⟩, rfl, rfl, rfl, ?_, ?_, rfl⟩
    · simp [patNext, mBool, advancePos]
    · simp [patNext, mBool, advancePos]
  | false =>
    have hm : matchPattern env st.blank st.prev ('f' :: ("alse".toList ++ d :: rest)) = .ok (some (mBool false (d :: rest))) := by
      rw [hr.blank, hp]; exact matchPattern_false_term env d rest hd
    refine ⟨_, pattern_step_eq env lenient st 'f' _ (mBool false (d :: rest)) hr.noSpan (by decide) hm (by simp [mBool]) (by simp [mBool]), ?_⟩
    refine ⟨⟨hr.spans, by simp [patNext, hr.blank]⟩, rfl, rfl, rfl, ?_, ?_, rfl⟩
    · simp [patNext, mBool, advancePos]
    · simp [patNext, mBool, advancePos]

/-- `null` right after `::` and before a non-word char: one NULL token. -/
theorem step_null_term (env : Env) (lenient : Bool) (st : LState) (d : Char) (rest : Str) (hr : Ready st)
    (hp : st.prev = some ':') (hd : env.word d = false) :
    ∃ st', step env lenient st ("null".toList ++ d :: rest) = .ok (st', d :: rest) ∧
      Adv st st' [tNull st.line st.col] [] 0 (st.col + 4) (some 'l') := by
  have hm : matchPattern env st.blank st.prev ('n' :: ("ull".toList ++ d :: rest)) = .ok (some (mNull (d :: rest))) := by
    rw [hr.blank, hp]; exact matchPattern_null_term env d rest hd
  refine ⟨_, pattern_step_eq env lenient st 'n' _ (mNull (d :: rest)) hr.noSpan (by decide) hm (by simp [mNull]) (by simp [mNull]), ?_⟩
  refine ⟨⟨hr.spans, by simp [patNext, hr.blank]⟩, rfl, rfl, rfl, ?_, ?_, rfl⟩
  · simp [patNext, mNull, advancePos]
  · simp [patNext, mNull, advancePos]

/-- the value of a line, right after `::` and before a SPACE (`step_scalar` of `FlatLex` is the same before a line end). -/
theorem step_scalar_sp (env : Env) (lenient : Bool) (st : LState) (v : FScalar) (rest : Str) (hr : Ready st)
    (hp : st.prev = some ':') (hv : v.OK) :
    ∃ st' p, step env lenient st (v.text ++ ' ' :: rest) = .ok (st', ' ' :: rest) ∧
      Adv st st' [v.tok st.line st.col] (v.reps st.line st.col).reverse 0 (st.col + v.text.length) p := by
  cases v with
  | qstr s =>
    obtain ⟨st', h1, h2⟩ := step_quoted env lenient st s (' ' :: rest) hr (by simp)
    exact ⟨st', _, h1, h2⟩
  | bare s =>
    obtain ⟨st', h1, h2⟩ := step_ident env lenient st s (' ' :: rest) hr hv.1 hv.2 (termOK_sp env rest)
    exact ⟨st', _, h1, h2⟩
  | bool b =>
    obtain ⟨st', h1, h2⟩ := step_bool_term env lenient st b ' ' rest hr hp (word_sp env)
    refine ⟨st', some 'e', h1, ?_⟩
    cases b <;> exact h2
  | null =>
    obtain ⟨st', h1, h2⟩ := step_null_term env lenient st ' ' rest hr hp (word_sp env)
    exact ⟨st', _, h1, h2⟩
  | int i =>
    obtain ⟨st', h1, h2⟩ := step_int env lenient st i (' ' :: rest) hr (floatTerm_space env rest).num hv
    exact ⟨st', _, h1, h2⟩

end Octave

namespace Octave
open Lexer Scan Emitter

/-! ### a comment line at depth `d`, leading comments -/

/-- tokens of a comment line at depth `d`, line `l`, newest first: `INDENT(2d)? COMMENT(text) NEWLINE`. -/
def cmtLineToksRev (c : Str) (d l : Nat) : List Token :=
  [tNewline l (1 + 2 * d + (cmtText c).length), tComment c l (1 + 2 * d)] ++ indentToksRev d l

/-- **one comment line at depth `d`**: 2 iterations (3 when indented). -/
theorem run_cmtLine (env : Env) (lenient : Bool) (st : LState) (c : Str) (d : Nat) (rest : Str) (hr : Ready st)
    (hcol : st.col = 1) (hok : CommentOK env c) :
    ∃ st', Run env lenient (indentSteps d + 2) st (indentStr d ++ (cmtText c ++ '\n' :: rest)) st' rest ∧
      AdvL st st' (cmtLineToksRev c d st.line) [] 1 := by
  have hshape : cmtText c ++ '\n' :: rest = '/' :: ('/' :: (cmtBody c ++ '\n' :: rest)) := by simp [cmtText]
  obtain ⟨s1, p1, r1, a1⟩ := run_indent env lenient st d '/' ('/' :: (cmtBody c ++ '\n' :: rest)) hr hcol (by decide) (by decide)
  rw [← hshape] at r1
  obtain ⟨s2, p2, e2, a2⟩ := step_comment env lenient s1 (cmtBody c) ('\n' :: rest) a1.ready
    (fun x hx => (cmtBody_clean c hok.2 x hx).1) (by simp)
  obtain ⟨s3, e3, a3⟩ := step_newline env lenient s2 rest a2.ready
  have run : Run env lenient (indentSteps d + 2) st (indentStr d ++ (cmtText c ++ '\n' :: rest)) s3 rest := by
    refine Run.trans r1 ?_
    rw [hshape]
    exact Run.cons e2 (Run.one e3)
  refine ⟨s3, run, ?_⟩
  have h := (a1.trans a2).trans a3
  have l1 : s1.line = st.line := by rw [a1.line]; rfl
  have l2 : s2.line = st.line := by rw [a2.line, l1]; rfl
  have c1 : s1.col = 1 + 2 * d := a1.col
  have c2 : s2.col = 1 + 2 * d + (cmtText c).length := by rw [a2.col, c1]; simp [cmtText]; omega
  rw [l1, l2, c1, c2, strip_cmtBody env c hok.1] at h
  exact ⟨h.ready, by rw [h.toks]; simp [cmtLineToksRev], by rw [h.repairs]; simp, h.stack, by rw [h.line], h.col⟩

/-- canonical text of a run of comment lines at depth `d`. -/
def leadText (d : Nat) : List Str → Str
  | [] => []
  | c :: cs => indentStr d ++ (cmtText c ++ '\n' :: leadText d cs)

/-- their tokens (first comment at line `l`), newest first. -/
def leadToksRev (d l : Nat) : List Str → List Token
  | [] => []
  | c :: cs => leadToksRev d (l + 1) cs ++ cmtLineToksRev c d l

/-- **a run of comment lines at depth `d`** (the leading comments of a node, the trailing comments of the document). -/
theorem run_lead (env : Env) (lenient : Bool) (d : Nat) : ∀ (cs : List Str) (st : LState) (rest : Str),
    Ready st → st.col = 1 → (∀ c ∈ cs, CommentOK env c) →
    ∃ st', Run env lenient (cs.length * (indentSteps d + 2)) st (leadText d cs ++ rest) st' rest ∧
      AdvL st st' (leadToksRev d st.line cs) [] cs.length
  | [], st, rest, hr, hc, _ =>
    ⟨st, by simpa [leadText] using Run.refl st rest, ⟨hr, by simp [leadToksRev], by simp, rfl, by simp, hc⟩⟩
  | c :: cs, st, rest, hr, hc, hok => by
    obtain ⟨s1, r1, a1⟩ := run_cmtLine env lenient st c d (leadText d cs ++ rest) hr hc (hok c (by simp))
    obtain ⟨s2, r2, a2⟩ := run_lead env lenient d cs s1 rest a1.ready a1.col (fun x hx => hok x (by simp [hx]))
    refine ⟨s2, ?_, ?_⟩
    · have := Run.trans r1 r2
      have hlen : indentSteps d + 2 + cs.length * (indentSteps d + 2) = (c :: cs).length * (indentSteps d + 2) := by
        simp [Nat.succ_mul]; omega
      rw [hlen] at this
      simpa [leadText, List.append_assoc] using this
    · have h := a1.trans a2
      rw [a1.line] at h
      refine ⟨h.ready, ?_, ?_, h.stack, ?_, h.col⟩
      · rw [h.toks]; simp [leadToksRev]
      · rw [h.repairs]; simp
      · rw [h.line]; simp; omega

/-! ### an assignment line with an optional trailing comment -/

/-- ` // text` after the value — ` //` for the EMPTY trailing comment —, nothing when there is no trailing comment. -/
def trailText : Option Str → Str
  | none => []
  | some c => ' ' :: '/' :: '/' :: cmtBody c

/-- the COMMENT token of a trailing comment; `col` is the column right after the value. -/
def trailToksRev (l col : Nat) : Option Str → List Token
  | none => []
  | some c => [tComment c l (col + 1)]

def trailSteps : Option Str → Nat
  | none => 0
  | some _ => 2

/-- a trailing comment satisfies `CommentOK` (the empty one included: it is written ` //` and read back as `""`). -/
def TrailOK (env : Env) : Option Str → Prop
  | none => True
  | some c => CommentOK env c

instance (env : Env) (trail : Option Str) : Decidable (TrailOK env trail) := by
  cases trail <;> (unfold TrailOK; exact inferInstance)

/-- tokens of `KEY::value // text` at depth `d`, line `l`, newest first. -/
def cLineToksRev (ln : FLine) (trail : Option Str) (d l : Nat) : List Token :=
  [tNewline l (1 + 2 * d + ln.key.length + 2 + ln.v.text.length + (trailText trail).length)] ++
  trailToksRev l (1 + 2 * d + ln.key.length + 2 + ln.v.text.length) trail ++
  [ln.v.tok l (1 + 2 * d + ln.key.length + 2), tAssign l (1 + 2 * d + ln.key.length), tIdent ln.key l (1 + 2 * d)] ++
  indentToksRev d l

theorem cLineToksRev_none (ln : FLine) (d l : Nat) : cLineToksRev ln none d l = ln.toksRevAt d l := by
  simp [cLineToksRev, trailText, trailToksRev, FLine.toksRevAt, FLine.toksRev]

/-- **one `KEY::value // text` line at depth `d`**: INDENT?, IDENTIFIER, ASSIGN, value, then (one space, no token) COMMENT,
NEWLINE. -/
theorem run_cline (env : Env) (lenient : Bool) (st : LState) (ln : FLine) (trail : Option Str) (d : Nat) (rest : Str)
    (hr : Ready st) (hcol : st.col = 1) (hok : ln.OK) (ht : TrailOK env trail) :
    ∃ st', Run env lenient (indentSteps d + 4 + trailSteps trail) st
        (indentStr d ++ (ln.text ++ (trailText trail ++ '\n' :: rest))) st' rest ∧
      AdvL st st' (cLineToksRev ln trail d st.line) (ln.repsRev st.line (1 + 2 * d)) 1 := by
  cases trail with
  | none =>
    obtain ⟨s1, r1, a1⟩ := run_tline env lenient st ln d rest hr hcol hok
    refine ⟨s1, by simpa [trailText, trailSteps] using r1, ?_⟩
    rw [cLineToksRev_none]; exact a1
  | some c =>
    obtain ⟨hk1, hk2, hv⟩ := hok
    have hcok : CommentOK env c := ht
    obtain ⟨kc, kt, hkey, h1, h2, _⟩ := identText_cons ln.key hk1
    let tail : Str := '/' :: '/' :: (cmtBody c ++ '\n' :: rest)
    have hshape : ln.text ++ (trailText (some c) ++ '\n' :: rest) =
        kc :: (kt ++ (':' :: ':' :: (ln.v.text ++ ' ' :: tail))) := by
      simp [FLine.text, hkey, trailText, tail]
    obtain ⟨s1, p1, r1, a1⟩ := run_indent env lenient st d kc (kt ++ (':' :: ':' :: (ln.v.text ++ ' ' :: tail))) hr hcol h1 h2
    rw [← hshape] at r1
    obtain ⟨s2, e2, a2⟩ := step_ident env lenient s1 ln.key (':' :: ':' :: (ln.v.text ++ ' ' :: tail)) a1.ready hk1 hk2 (termOK_colon env _)
    obtain ⟨s3, e3, a3⟩ := step_assign env lenient s2 (ln.v.text ++ ' ' :: tail) a2.ready
    obtain ⟨s4, p4, e4, a4⟩ := step_scalar_sp env lenient s3 ln.v tail a3.ready a3.prev hv
    have l1 : s1.line = st.line := by rw [a1.line]; rfl
    have l2 : s2.line = st.line := by rw [a2.line, l1]; rfl
    have l3 : s3.line = st.line := by rw [a3.line, l2]; rfl
    have l4 : s4.line = st.line := by rw [a4.line, l3]; rfl
    have c1 : s1.col = 1 + 2 * d := a1.col
    have c2 : s2.col = 1 + 2 * d + ln.key.length := by rw [a2.col, c1]
    have c3 : s3.col = 1 + 2 * d + ln.key.length + 2 := by rw [a3.col, c2]
    have c4 : s4.col = 1 + 2 * d + ln.key.length + 2 + ln.v.text.length := by rw [a4.col, c3]
    obtain ⟨s5, e5, a5⟩ := step_inner_space env lenient s4 tail a4.ready (by rw [c4]; omega)
    obtain ⟨s6, p6, e6, a6⟩ := step_comment env lenient s5 (cmtBody c) ('\n' :: rest) a5.ready
      (fun x hx => (cmtBody_clean c hcok.2 x hx).1) (by simp)
    obtain ⟨s7, e7, a7⟩ := step_newline env lenient s6 rest a6.ready
    have l5 : s5.line = st.line := by rw [a5.line, l4]; rfl
    have l6 : s6.line = st.line := by rw [a6.line, l5]; rfl
    have c5 : s5.col = 1 + 2 * d + ln.key.length + 2 + ln.v.text.length + 1 := by rw [a5.col, c4]
    have c6 : s6.col = 1 + 2 * d + ln.key.length + 2 + ln.v.text.length + (trailText (some c)).length := by
      rw [a6.col, c5]; simp [trailText]; omega
    have hvne : ln.v.text ++ ' ' :: tail ≠ [] := by simp
    have run : Run env lenient (indentSteps d + 4 + trailSteps (some c)) st
        (indentStr d ++ (ln.text ++ (trailText (some c) ++ '\n' :: rest))) s7 rest := by
      have e2' : step env lenient s1 (ln.text ++ (trailText (some c) ++ '\n' :: rest)) =
          .ok (s2, ':' :: ':' :: (ln.v.text ++ ' ' :: tail)) := by
        rw [show ln.text ++ (trailText (some c) ++ '\n' :: rest) = ln.key ++ (':' :: ':' :: (ln.v.text ++ ' ' :: tail)) by
          simp [FLine.text, trailText, tail]]
        exact e2
      have tailRun : Run env lenient 6 s1 (ln.text ++ (trailText (some c) ++ '\n' :: rest)) s7 rest :=
        Run.cons' (by rw [hshape]; simp) e2' (Run.cons e3 (Run.cons' hvne e4 (Run.cons e5 (Run.cons e6 (Run.one e7)))))
      have := Run.trans r1 tailRun
      simpa [trailSteps, Nat.add_assoc] using this
    refine ⟨s7, run, ?_⟩
    have h := (((((a1.trans a2).trans a3).trans a4).trans a5).trans a6).trans a7
    have hstrip : env.strip (cmtBody c) = c := strip_cmtBody env c hcok.1
    rw [l1, l2, l3, l5, l6, c1, c2, c3, c5, c6, hstrip] at h
    refine ⟨h.ready, ?_, ?_, h.stack, ?_, h.col⟩
    · rw [h.toks]; simp [cLineToksRev, trailToksRev]
    · rw [h.repairs]; simp [FLine.repsRev]
    · rw [h.line]

end Octave

namespace Octave
open Lexer Scan Emitter

/-! ### trees with comments -/

/-- content of a document body with nested blocks and comments: a `KEY::scalar` line with its leading comment lines and an
optional trailing comment, a `KEY:` block with its leading comment lines and its children; any depth, width and number of
comments. -/
inductive CNode where
  | line (ln : FLine) (lead : List Str) (trail : Option Str)
  | block (key : Str) (children : List CNode) (lead : List Str)
  deriving Repr

mutual
/-- `FLine.OK` on every line, block keys are identifiers without a reserved prefix, every comment — leading or
trailing, the empty one included — satisfies `CommentOK`. -/
def CNode.OK (env : Env) : CNode → Prop
  | .line ln lead trail => ln.OK ∧ (∀ c ∈ lead, CommentOK env c) ∧ TrailOK env trail
  | .block key cs lead =>
    isIdentifierText key = true ∧ hasReservedPrefix key = false ∧ (∀ c ∈ lead, CommentOK env c) ∧ ctreeOK env cs
def ctreeOK (env : Env) : List CNode → Prop
  | [] => True
  | n :: ns => n.OK env ∧ ctreeOK env ns
end

mutual
/-- canonical text of a node at depth `d` (with its line ends): the leading comments, then the node. -/
def CNode.text (d : Nat) : CNode → Str
  | .line ln lead trail => leadText d lead ++ (indentStr d ++ (ln.text ++ (trailText trail ++ ['\n'])))
  | .block key cs lead => leadText d lead ++ (indentStr d ++ (key ++ ':' :: '\n' :: ctreeText (d + 1) cs))
def ctreeText (d : Nat) : List CNode → Str
  | [] => []
  | n :: ns => n.text d ++ ctreeText d ns
end

mutual
/-- number of text lines of a node (comment lines included). -/
def CNode.nlines : CNode → Nat
  | .line _ lead _ => lead.length + 1
  | .block _ cs lead => lead.length + 1 + ctreeNLines cs
def ctreeNLines : List CNode → Nat
  | [] => 0
  | n :: ns => n.nlines + ctreeNLines ns
end

mutual
/-- tokens of a node at depth `d` whose first line (its first leading comment, if any) is line `l`, newest first. -/
def CNode.toksRev (d l : Nat) : CNode → List Token
  | .line ln lead trail => cLineToksRev ln trail d (l + lead.length) ++ leadToksRev d l lead
  | .block key cs lead =>
    ctreeToksRev (d + 1) (l + lead.length + 1) cs ++ headerToksRev key d (l + lead.length) ++ leadToksRev d l lead
def ctreeToksRev (d l : Nat) : List CNode → List Token
  | [] => []
  | n :: ns => ctreeToksRev d (l + n.nlines) ns ++ n.toksRev d l
end

mutual
/-- receipts (identifier notes only; comments produce none), newest first. -/
def CNode.repsRev (d l : Nat) : CNode → List Repair
  | .line ln lead _ => ln.repsRev (l + lead.length) (1 + 2 * d)
  | .block key cs lead =>
    ctreeRepsRev (d + 1) (l + lead.length + 1) cs ++ (identifierRepairs key (l + lead.length) (1 + 2 * d)).reverse
def ctreeRepsRev (d l : Nat) : List CNode → List Repair
  | [] => []
  | n :: ns => ctreeRepsRev d (l + n.nlines) ns ++ n.repsRev d l
end

mutual
/-- iterations of the lexer's main loop. -/
def CNode.steps (d : Nat) : CNode → Nat
  | .line _ lead trail => lead.length * (indentSteps d + 2) + (indentSteps d + 4 + trailSteps trail)
  | .block _ cs lead => lead.length * (indentSteps d + 2) + (indentSteps d + 3 + ctreeSteps (d + 1) cs)
def ctreeSteps (d : Nat) : List CNode → Nat
  | [] => 0
  | n :: ns => n.steps d + ctreeSteps d ns
end

mutual
/-- **one node at depth `d`** with its comments (a line, or a block with all its descendants). -/
theorem run_cnode (env : Env) (lenient : Bool) : ∀ (n : CNode) (d : Nat) (st : LState) (rest : Str),
    Ready st → st.col = 1 → n.OK env →
    ∃ st', Run env lenient (n.steps d) st (n.text d ++ rest) st' rest ∧
      AdvL st st' (n.toksRev d st.line) (n.repsRev d st.line) n.nlines
  | .line ln lead trail, d, st, rest, hr, hc, hok => by
    simp only [CNode.OK] at hok
    obtain ⟨s1, r1, a1⟩ := run_lead env lenient d lead st
      (indentStr d ++ (ln.text ++ (trailText trail ++ '\n' :: rest))) hr hc hok.2.1
    obtain ⟨s2, r2, a2⟩ := run_cline env lenient s1 ln trail d rest a1.ready a1.col hok.1 hok.2.2
    refine ⟨s2, ?_, ?_⟩
    · have := Run.trans r1 r2
      simpa [CNode.text, CNode.steps, List.append_assoc] using this
    · have h := a1.trans a2
      rw [a1.line] at h
      refine ⟨h.ready, ?_, ?_, h.stack, ?_, h.col⟩
      · rw [h.toks]; simp [CNode.toksRev]
      · rw [h.repairs]; simp [CNode.repsRev]
      · rw [h.line]; simp [CNode.nlines]
  | .block key cs lead, d, st, rest, hr, hc, hok => by
    simp only [CNode.OK] at hok
    obtain ⟨s1, r1, a1⟩ := run_lead env lenient d lead st
      (indentStr d ++ (key ++ ':' :: '\n' :: (ctreeText (d + 1) cs ++ rest))) hr hc hok.2.2.1
    obtain ⟨s2, r2, a2⟩ := run_header env lenient s1 key d (ctreeText (d + 1) cs ++ rest) a1.ready a1.col hok.1 hok.2.1
    obtain ⟨s3, r3, a3⟩ := run_ctree env lenient cs (d + 1) s2 rest a2.ready a2.col hok.2.2.2
    refine ⟨s3, ?_, ?_⟩
    · have := Run.trans r1 (Run.trans r2 r3)
      simpa [CNode.text, CNode.steps, List.append_assoc] using this
    · have h := (a1.trans a2).trans a3
      rw [a2.line, a1.line] at h
      refine ⟨h.ready, ?_, ?_, h.stack, ?_, h.col⟩
      · rw [h.toks]; simp [CNode.toksRev]
      · rw [h.repairs]; simp [CNode.repsRev]
      · rw [h.line]; simp only [CNode.nlines]
/-- **a list of sibling nodes at depth `d`**, any depth and width below, any number of comments. -/
theorem run_ctree (env : Env) (lenient : Bool) : ∀ (ns : List CNode) (d : Nat) (st : LState) (rest : Str),
    Ready st → st.col = 1 → ctreeOK env ns →
    ∃ st', Run env lenient (ctreeSteps d ns) st (ctreeText d ns ++ rest) st' rest ∧
      AdvL st st' (ctreeToksRev d st.line ns) (ctreeRepsRev d st.line ns) (ctreeNLines ns)
  | [], d, st, rest, hr, hc, _ =>
    ⟨st, by simpa [ctreeText, ctreeSteps] using Run.refl st rest,
      ⟨hr, by simp [ctreeToksRev], by simp [ctreeRepsRev], rfl, by simp [ctreeNLines], hc⟩⟩
  | n :: ns, d, st, rest, hr, hc, hok => by
    simp only [ctreeOK] at hok
    obtain ⟨s1, r1, a1⟩ := run_cnode env lenient n d st (ctreeText d ns ++ rest) hr hc hok.1
    obtain ⟨s2, r2, a2⟩ := run_ctree env lenient ns d s1 rest a1.ready a1.col hok.2
    refine ⟨s2, ?_, ?_⟩
    · have := Run.trans r1 r2
      simpa [ctreeText, ctreeSteps, List.append_assoc] using this
    · have h := a1.trans a2
      rw [a1.line] at h
      simpa [ctreeToksRev, ctreeRepsRev, ctreeNLines] using h
end

end Octave

namespace Octave
open Lexer Scan Emitter

/-! ### the lines of the text: (depth, body) rows -/

/-- the rows of a run of comment lines at depth `d`. -/
def leadRows (d : Nat) (cs : List Str) : List (Nat × Str) := cs.map fun c => (d, cmtText c)

mutual
/-- the lines of a node as (depth, text after the indentation), comment lines included. -/
def CNode.rows (d : Nat) : CNode → List (Nat × Str)
  | .line ln lead trail => leadRows d lead ++ [(d, ln.text ++ trailText trail)]
  | .block key cs lead => leadRows d lead ++ (d, key ++ [':']) :: ctreeRows (d + 1) cs
def ctreeRows (d : Nat) : List CNode → List (Nat × Str)
  | [] => []
  | n :: ns => n.rows d ++ ctreeRows d ns
end

theorem leadText_rows (d : Nat) (cs : List Str) : leadText d cs = unlines ((leadRows d cs).map rowText) := by
  induction cs with
  | nil => rfl
  | cons c cs ih =>
    simp only [leadRows] at ih
    simp [leadText, leadRows, rowText, unlines, ih]

theorem leadRows_length (d : Nat) (cs : List Str) : (leadRows d cs).length = cs.length := by simp [leadRows]

mutual
theorem CNode.text_rows : ∀ (n : CNode) (d : Nat), n.text d = unlines ((n.rows d).map rowText)
  | .line ln lead trail, d => by
    simp [CNode.text, CNode.rows, rowText, unlines, unlines_append, leadText_rows]
  | .block key cs lead, d => by
    simp [CNode.text, CNode.rows, rowText, unlines, unlines_append, leadText_rows, ctreeText_rows cs (d + 1)]
theorem ctreeText_rows : ∀ (ns : List CNode) (d : Nat), ctreeText d ns = unlines ((ctreeRows d ns).map rowText)
  | [], d => rfl
  | n :: ns, d => by
    simp [ctreeText, ctreeRows, unlines_append, CNode.text_rows n d, ctreeText_rows ns d]
end

mutual
theorem CNode.rows_length : ∀ (n : CNode) (d : Nat), (n.rows d).length = n.nlines
  | .line ln lead trail, d => by simp [CNode.rows, CNode.nlines, leadRows_length]
  | .block key cs lead, d => by
    simp [CNode.rows, CNode.nlines, leadRows_length, ctreeRows_length cs (d + 1)]; omega
theorem ctreeRows_length : ∀ (ns : List CNode) (d : Nat), (ctreeRows d ns).length = ctreeNLines ns
  | [], d => rfl
  | n :: ns, d => by simp [ctreeRows, ctreeNLines, CNode.rows_length n d, ctreeRows_length ns d]
end

theorem bodyOK_comment (c : Str) (h : Clean c) : BodyOK (cmtText c) :=
  ⟨cmtText_clean c h, '/', '/' :: cmtBody c, rfl, by decide, by decide, by decide⟩

theorem trailText_clean (env : Env) (trail : Option Str) (h : TrailOK env trail) : Clean (trailText trail) := by
  cases trail with
  | none => intro d hd; simp [trailText] at hd
  | some c =>
    intro d hd
    simp only [trailText, List.mem_cons] at hd
    rcases hd with h' | h' | h' | h'
    · subst h'; decide
    · subst h'; decide
    · subst h'; decide
    · exact cmtBody_clean c h.2 d h'

theorem bodyOK_cline (env : Env) (ln : FLine) (trail : Option Str) (h : ln.OK) (ht : TrailOK env trail) :
    BodyOK (ln.text ++ trailText trail) := by
  refine ⟨Clean.append (line_clean ln h) (trailText_clean env trail ht), ?_⟩
  obtain ⟨c, t, hk, h1, h2, h3⟩ := identText_cons ln.key h.1
  exact ⟨c, t ++ (':' :: ':' :: ln.v.text) ++ trailText trail, by simp [FLine.text, hk], h1, h2, h3⟩

theorem leadRows_ok (env : Env) (d : Nat) (cs : List Str) (h : ∀ c ∈ cs, CommentOK env c) : ∀ r ∈ leadRows d cs, BodyOK r.2 := by
  intro r hr
  obtain ⟨c, hc, rfl⟩ := List.mem_map.mp hr
  exact bodyOK_comment c (h c hc).2

mutual
theorem CNode.rows_ok (env : Env) : ∀ (n : CNode) (d : Nat), n.OK env → ∀ r ∈ n.rows d, BodyOK r.2
  | .line ln lead trail, d, hok, r, hr => by
    simp only [CNode.OK] at hok
    simp only [CNode.rows, List.mem_append, List.mem_singleton] at hr
    rcases hr with h | h
    · exact leadRows_ok env d lead hok.2.1 r h
    · subst h; exact bodyOK_cline env ln trail hok.1 hok.2.2
  | .block key cs lead, d, hok, r, hr => by
    simp only [CNode.OK] at hok
    simp only [CNode.rows, List.mem_append, List.mem_cons] at hr
    rcases hr with h | h | h
    · exact leadRows_ok env d lead hok.2.2.1 r h
    · subst h; exact bodyOK_header key hok.1
    · exact ctreeRows_ok env cs (d + 1) hok.2.2.2 r h
theorem ctreeRows_ok (env : Env) : ∀ (ns : List CNode) (d : Nat), ctreeOK env ns → ∀ r ∈ ctreeRows d ns, BodyOK r.2
  | [], d, _, r, hr => by simp [ctreeRows] at hr
  | n :: ns, d, hok, r, hr => by
    simp only [ctreeOK] at hok
    simp only [ctreeRows, List.mem_append] at hr
    rcases hr with h | h
    · exact CNode.rows_ok env n d hok.1 r h
    · exact ctreeRows_ok env ns d hok.2 r h
end

/-! ### the whole document -/

/-- canonical text of a document whose body is a tree with comments, followed by the document's trailing comments. -/
def cDocText (name : Str) (nodes : List CNode) (trailing : List Str) : Str :=
  "===".toList ++ name ++ "===".toList ++ '\n' :: (ctreeText 0 nodes ++ (leadText 0 trailing ++ ("===END===".toList ++ ['\n'])))

/-- all rows of the body: the tree, then the document's trailing comments. -/
def cDocRows (nodes : List CNode) (trailing : List Str) : List (Nat × Str) := ctreeRows 0 nodes ++ leadRows 0 trailing

/-- number of lines of the body. -/
def cDocNLines (nodes : List CNode) (trailing : List Str) : Nat := ctreeNLines nodes + trailing.length

/-- its tokens, newest first (without EOF). -/
def cDocToksRev (name : Str) (nodes : List CNode) (trailing : List Str) : List Token :=
  [tNewline (cDocNLines nodes trailing + 2) 10, tEnvEnd (cDocNLines nodes trailing + 2) 1] ++
  leadToksRev 0 (ctreeNLines nodes + 2) trailing ++ ctreeToksRev 0 2 nodes ++
  [tNewline 1 (1 + (name.length + 6)), tEnvStart name 1 1]

/-- its tokens in reading order, EOF included. -/
def cDocToks (name : Str) (nodes : List CNode) (trailing : List Str) : List Token :=
  (tEof (cDocNLines nodes trailing + 3) 1 :: cDocToksRev name nodes trailing).reverse

def cDocSteps (nodes : List CNode) (trailing : List Str) : Nat := ctreeSteps 0 nodes + trailing.length * 2 + 4

theorem run_cDoc (env : Env) (lenient : Bool) (name : Str) (nodes : List CNode) (trailing : List Str)
    (hn : isEnvName name = true) (hne : name ≠ "END".toList) (hok : ctreeOK env nodes)
    (htr : ∀ c ∈ trailing, CommentOK env c) :
    ∃ st', Run env lenient (cDocSteps nodes trailing) ({ spans := [] } : LState) (cDocText name nodes trailing) st' [] ∧
      st'.toks = cDocToksRev name nodes trailing ∧ st'.repairs = ctreeRepsRev 0 2 nodes ∧ st'.stack = [] ∧
      st'.line = cDocNLines nodes trailing + 3 ∧ st'.col = 1 := by
  let st0 : LState := { spans := [] }
  let endT : Str := "===END===".toList ++ ['\n']
  obtain ⟨s1, e1, a1⟩ := step_envStart env lenient st0 name ('\n' :: (ctreeText 0 nodes ++ (leadText 0 trailing ++ endT))) rfl hn hne
  obtain ⟨s2, e2, a2⟩ := step_newline env lenient s1 (ctreeText 0 nodes ++ (leadText 0 trailing ++ endT)) a1.ready
  obtain ⟨s3, r3, a3⟩ := run_ctree env lenient nodes 0 s2 (leadText 0 trailing ++ endT) a2.ready a2.col hok
  obtain ⟨s3', r3', a3'⟩ := run_lead env lenient 0 trailing s3 endT a3.ready a3.col htr
  obtain ⟨s4, e4, a4⟩ := step_envEnd env lenient s3' ['\n'] a3'.ready
  obtain ⟨s5, e5, a5⟩ := step_newline env lenient s4 [] a4.ready
  have run : Run env lenient (cDocSteps nodes trailing) st0 (cDocText name nodes trailing) s5 [] := by
    have tail : Run env lenient (ctreeSteps 0 nodes + (trailing.length * (indentSteps 0 + 2) + 2)) s2
        (ctreeText 0 nodes ++ (leadText 0 trailing ++ endT)) s5 [] :=
      Run.trans r3 (Run.trans r3' (Run.cons' (by simp [endT]) e4 (Run.one e5)))
    have e1' : step env lenient st0 (cDocText name nodes trailing) =
        .ok (s1, '\n' :: (ctreeText 0 nodes ++ (leadText 0 trailing ++ endT))) := e1
    have full : Run env lenient (ctreeSteps 0 nodes + (trailing.length * (indentSteps 0 + 2) + 2) + 1 + 1) st0
        (cDocText name nodes trailing) s5 [] :=
      Run.cons' (by simp [cDocText]) e1' (Run.cons e2 tail)
    refine Run.cast ?_ full
    simp [cDocSteps, indentSteps]; omega
  have l1 : s1.line = 1 := by rw [a1.line]
  have l2 : s2.line = 2 := by rw [a2.line, l1]
  have l3 : s3.line = ctreeNLines nodes + 2 := by rw [a3.line, l2]; omega
  have l3' : s3'.line = cDocNLines nodes trailing + 2 := by rw [a3'.line, l3]; simp [cDocNLines]; omega
  have l4 : s4.line = cDocNLines nodes trailing + 2 := by rw [a4.line, l3']
  refine ⟨s5, run, ?_, ?_, ?_, ?_, a5.col⟩
  · have c1 : s1.col = 1 + (name.length + 6) := a1.col
    have c3 : s3'.col = 1 := a3'.col
    have c4 : s4.col = 10 := by rw [a4.col, c3]
    rw [a5.toks, a4.toks, a3'.toks, a3.toks, a2.toks, a1.toks, l1, l2, l3, l3', l4, c1, c3, c4]
    simp [cDocToksRev]
    exact ⟨rfl, rfl⟩
  · rw [a5.repairs, a4.repairs, a3'.repairs, a3.repairs, a2.repairs, a1.repairs, l2]; simp; rfl
  · rw [a5.stack, a4.stack, a3'.stack, a3.stack, a2.stack, a1.stack]
  · rw [a5.line, l4]

theorem cDocRows_ok (env : Env) (nodes : List CNode) (trailing : List Str) (hok : ctreeOK env nodes)
    (htr : ∀ c ∈ trailing, CommentOK env c) : ∀ r ∈ cDocRows nodes trailing, BodyOK r.2 := by
  intro r hr
  rcases List.mem_append.mp hr with h | h
  · exact ctreeRows_ok env nodes 0 hok r h
  · exact leadRows_ok env 0 trailing htr r h

theorem cDocText_rows (name : Str) (nodes : List CNode) (trailing : List Str) :
    cDocText name nodes trailing =
      "===".toList ++ name ++ "===".toList ++ '\n' :: (unlines ((cDocRows nodes trailing).map rowText) ++ ("===END===".toList ++ ['\n'])) := by
  simp [cDocText, cDocRows, ctreeText_rows, leadText_rows, unlines_append]

/-- the lines of the text. -/
theorem splitLines_cDocText (env : Env) (name : Str) (nodes : List CNode) (trailing : List Str) (hn : isEnvName name = true)
    (hok : ctreeOK env nodes) (htr : ∀ c ∈ trailing, CommentOK env c) :
    splitLines (cDocText name nodes trailing) =
      ("===".toList ++ name ++ "===".toList) :: ((cDocRows nodes trailing).map rowText ++ ["===END===".toList, []]) := by
  have h1 := splitLines_append_nl ("===".toList ++ name ++ "===".toList)
    (unlines ((cDocRows nodes trailing).map rowText) ++ ("===END===".toList ++ ['\n']))
    (fun d hd => (envLine_clean name hn d hd).1)
  have h2 := splitLines_unlines ((cDocRows nodes trailing).map rowText) ("===END===".toList ++ ['\n']) (by
    intro l hl d hd
    obtain ⟨r, hr, rfl⟩ := List.mem_map.mp hl
    exact (rowText_clean r (cDocRows_ok env nodes trailing hok htr r hr) d hd).1)
  have h3 : splitLines ("===END===".toList ++ ['\n']) = ["===END===".toList, []] := by decide
  rw [cDocText_rows, h1, h2, h3]

theorem cDocText_noTab (env : Env) (name : Str) (nodes : List CNode) (trailing : List Str) (hn : isEnvName name = true)
    (hok : ctreeOK env nodes) (htr : ∀ c ∈ trailing, CommentOK env c) :
    ∀ d ∈ cDocText name nodes trailing, d ≠ '\t' := by
  have hl := unlines_noTab ((cDocRows nodes trailing).map rowText) (by
    intro l hl d hd
    obtain ⟨r, hr, rfl⟩ := List.mem_map.mp hl
    exact (rowText_clean r (cDocRows_ok env nodes trailing hok htr r hr) d hd).2)
  intro d hd
  rw [cDocText_rows] at hd
  simp only [List.mem_append, List.mem_cons] at hd
  rcases hd with h' | h' | h' | h' | h'
  · exact (envLine_clean name hn d (by simp only [List.mem_append]; exact h')).2
  · subst h'; decide
  · exact hl d h'
  · intro he; subst he; revert h'; decide
  · intro he; subst he; simp at h'

/-- **The lexer on the canonical text of a document with nested blocks and comments** (any name, any tree — any depth, any
width —, any number of leading comments above every node, an optional trailing comment after every assignment, any number of
trailing comments of the document; keys and scalars satisfying the emitter's own conditions, comment texts satisfying
`CommentOK`; both lexer modes, every environment whose NFC leaves the lines alone): `tokenize` succeeds with exactly the
expected tokens, positions included — ONE COMMENT token per comment, carrying exactly its text —, and with no receipt other
than the (non-normalisation) identifier notes of keys and bare words. -/
theorem tokenize_ctree (env : Env) (lenient : Bool) (name : Str) (nodes : List CNode) (trailing : List Str)
    (hn : isEnvName name = true) (hne : name ≠ "END".toList) (hok : ctreeOK env nodes)
    (htr : ∀ c ∈ trailing, CommentOK env c)
    (hnfc : ∀ l ∈ splitLines (cDocText name nodes trailing), env.nfc l = l) :
    tokenize env (cDocText name nodes trailing) lenient =
      .ok (cDocToks name nodes trailing, (ctreeRepsRev 0 2 nodes).reverse) := by
  have hsplit := splitLines_cDocText env name nodes trailing hn hok htr
  have hfence : ∀ l ∈ splitLines (cDocText name nodes trailing), fenceLine l = none ∧ env.nfc l = l := by
    intro l hl
    refine ⟨?_, hnfc l hl⟩
    rw [hsplit] at hl
    simp only [List.mem_cons, List.mem_append, List.mem_map, List.mem_nil_iff, or_false] at hl
    rcases hl with h | ⟨r, hr, rfl⟩ | h | h
    · subst h; exact fenceLine_none_of_head _ (by intro c hc; have : c = '=' := by simpa using hc.symm
                                                  subst this; decide)
    · exact rowText_fence r (cDocRows_ok env nodes trailing hok htr r hr)
    · subst h; decide
    · subst h; decide
  have hnorm := normalize_plain env (cDocText name nodes trailing) hfence
  have htab := tabCheck_noTab [] (cDocText name nodes trailing) 0 1 1 (cDocText_noTab env name nodes trailing hn hok htr)
  obtain ⟨st', run, ht, hr, hs, hl, hc⟩ := run_cDoc env lenient name nodes trailing hn hne hok htr
  have hloop := loop_of_run env lenient _ _ st' (cDocText name nodes trailing) run (by intro sp hsp; simp at hsp)
  unfold tokenize
  simp only [hnorm, htab, hloop, bind, Except.bind, hs, List.getLast?_nil, ht, hr, hl, hc]
  rfl

end Octave

namespace Octave
open Lexer Scan Emitter

/-! ### the emitter -/

/-- what `emit_assignment` appends for the trailing comment (`_emit_trailing_comment`): `f" // {comment}".rstrip()`, nothing
for `None`. -/
def trEmit (env : Env) : Option Str → Str
  | some c => env.rstrip (" // ".toList ++ c)
  | none => []

/-- the emitter's condition on a trailing comment: strip-stable (the empty text included). -/
def TrailEmitOK (env : Env) : Option Str → Prop
  | none => True
  | some c => env.strip c = c

instance (env : Env) (trail : Option Str) : Decidable (TrailEmitOK env trail) := by
  cases trail <;> (unfold TrailEmitOK; exact inferInstance)

theorem TrailOK.emit {env : Env} {trail : Option Str} (h : TrailOK env trail) : TrailEmitOK env trail := by
  cases trail with
  | none => trivial
  | some c => exact h.1

/-- **the emitter's trailing-comment suffix** is ` // text`, and ` //` for the empty comment (no trailing space). -/
theorem trEmit_eq (env : Env) (trail : Option Str) (h : TrailEmitOK env trail) : trEmit env trail = trailText trail := by
  cases trail with
  | none => rfl
  | some c =>
    have hs : env.strip c = c := h
    show env.rstrip (" // ".toList ++ c) = ' ' :: '/' :: '/' :: cmtBody c
    unfold cmtBody
    by_cases he : c = []
    · subst he
      have e : " // ".toList ++ [] = ([' '] ++ ['/', '/']) ++ [' '] := by simp
      rw [e, rstrip_snoc_space, rstrip_append_stable env [' '] ['/', '/'] (by simp)]
      · simp
      · intro x hx
        have : x = '/' := by simpa using hx.symm
        subst this; exact isSpace_slash env
    · have hemp : c.isEmpty = false := by simpa using he
      rw [rstrip_append_stable env _ c he (strip_stable_last env c hs)]
      simp [hemp]

/-- the empty trailing comment is written ` //`, in every environment. -/
theorem trEmit_empty (env : Env) : trEmit env (some []) = " //".toList :=
  trEmit_eq env (some []) (strip_empty env)

/-- an assignment whose value is a scalar: the emitter's lines, comments included. -/
theorem emitNode_scalar_assign (env : Env) (key : Str) (v : FScalar) (l c d : Nat) (b : Bool) (lead : List Str) (trail : Option Str) :
    emitNode env (.assign key v.value l c lead trail) d b =
      (emitValue v.value d).map fun vs =>
        leadingLines env lead d ++ [indentStr d ++ key ++ "::".toList ++ forceQuote key vs v.value ++ trEmit env trail] := by
  cases v <;> cases trail <;> rfl

/-- the emitter spells every scalar the way `FLine.text` does, and every comment — leading or trailing, the empty one
included — is strip-stable (else the emitter's `rstrip` or the lexer's `strip` changes it). -/
def CNode.LineEmitOK (env : Env) (ln : FLine) (lead : List Str) (trail : Option Str) : Prop :=
  ln.EmitOK ∧ (∀ c ∈ lead, env.strip c = c) ∧ TrailEmitOK env trail

theorem leadingLines_eq (env : Env) (d : Nat) (cs : List Str) (h : ∀ c ∈ cs, env.strip c = c) :
    leadingLines env cs d = (leadRows d cs).map rowText := by
  induction cs with
  | nil => rfl
  | cons c cs ih =>
    have := ih (fun x hx => h x (by simp [hx]))
    simp only [leadingLines, leadRows, List.map_cons, List.map_map] at this ⊢
    rw [this, commentLine_eq env d c (h c (by simp))]
    rfl

/-- an assignment line with its comments, at any depth, inside or outside a block. -/
theorem emitNode_cline (env : Env) (ln : FLine) (lead : List Str) (trail : Option Str) (l c d : Nat) (b : Bool)
    (h : CNode.LineEmitOK env ln lead trail) :
    emitNode env (.assign ln.key ln.v.value l c lead trail) d b =
      some ((leadRows d lead).map rowText ++ [indentStr d ++ (ln.text ++ trailText trail)]) := by
  have h0 := emitNode_line env ln l c d b h.1
  rw [emitNode_scalar_assign] at h0 ⊢
  cases hv : emitValue ln.v.value d with
  | none => rw [hv] at h0; simp at h0
  | some vs =>
    rw [hv] at h0
    simp only [Option.map_some, leadingLines, List.map_nil, List.nil_append, trEmit, List.append_nil, Option.some.injEq,
      List.cons.injEq, and_true] at h0
    simp only [Option.map_some, trEmit_eq env trail h.2.2, leadingLines_eq env d lead h.2.1]
    rw [h0, List.append_assoc]

mutual
/-- when the emitter writes exactly `CNode.text`. -/
def CNode.EmitOK (env : Env) : CNode → Prop
  | .line ln lead trail => CNode.LineEmitOK env ln lead trail
  | .block _ cs lead => (∀ c ∈ lead, env.strip c = c) ∧ ctreeEmitOK env cs
def ctreeEmitOK (env : Env) : List CNode → Prop
  | [] => True
  | n :: ns => n.EmitOK env ∧ ctreeEmitOK env ns
end

mutual
/-- the AST node carries this content — key, value, children, `leading_comments`, `trailing_comment` —, with ANY source
positions (no block target). -/
def CNode.Matches : CNode → Node → Prop
  | .line ln lead trail, n => ∃ l c, n = .assign ln.key ln.v.value l c lead trail
  | .block key cs lead, n => ∃ children l c, n = .block key children l c lead none ∧ ctreeMatches cs children
def ctreeMatches : List CNode → List Node → Prop
  | [], ns => ns = []
  | t :: ts, ns => ∃ n ns', ns = n :: ns' ∧ t.Matches n ∧ ctreeMatches ts ns'
end

mutual
theorem emitNode_ctree (env : Env) : ∀ (t : CNode) (n : Node) (d : Nat) (b : Bool), t.Matches n → t.EmitOK env →
    emitNode env n d b = some ((t.rows d).map rowText)
  | .line ln lead trail, n, d, b, hm, he => by
    simp only [CNode.Matches] at hm
    obtain ⟨l, c, rfl⟩ := hm
    rw [emitNode_cline env ln lead trail l c d b (by simpa [CNode.EmitOK] using he)]
    simp [CNode.rows, rowText]
  | .block key cs lead, n, d, b, hm, he => by
    simp only [CNode.Matches] at hm
    obtain ⟨children, l, c, rfl, hch⟩ := hm
    simp only [CNode.EmitOK] at he
    have ih := emitChildren_ctree env cs children (d + 1) true hch he.2
    simp only [emitNode, ih, Option.map_some, leadingLines_eq env d lead he.1, List.append_nil, CNode.rows,
      List.map_cons, List.map_append, rowText, List.cons_append, List.append_assoc, List.nil_append]
theorem emitChildren_ctree (env : Env) : ∀ (ts : List CNode) (ns : List Node) (d : Nat) (b : Bool),
    ctreeMatches ts ns → ctreeEmitOK env ts → emitChildren env ns d b = some ((ctreeRows d ts).map rowText)
  | [], ns, d, b, hm, _ => by
    simp only [ctreeMatches] at hm
    subst hm; rfl
  | t :: ts, ns, d, b, hm, he => by
    simp only [ctreeMatches] at hm
    obtain ⟨n, ns', rfl, h1, h2⟩ := hm
    simp only [ctreeEmitOK] at he
    simp only [emitChildren, emitNode_ctree env t n d b h1 he.1, emitChildren_ctree env ts ns' d b h2 he.2, ctreeRows,
      List.map_append]
end

theorem emitTop_ctree (env : Env) : ∀ (ts : List CNode) (ns : List Node), ctreeMatches ts ns → ctreeEmitOK env ts →
    emitTop env ns = some ((ctreeRows 0 ts).map rowText)
  | [], ns, hm, _ => by
    simp only [ctreeMatches] at hm
    subst hm; rfl
  | t :: ts, ns, hm, he => by
    simp only [ctreeMatches] at hm
    obtain ⟨n, ns', rfl, h1, h2⟩ := hm
    simp only [ctreeEmitOK] at he
    have hn := emitNode_ctree env t n 0 false h1 he.1
    have ih := emitTop_ctree env ts ns' h2 he.2
    cases t with
    | line ln lead trail =>
      simp only [CNode.Matches] at h1
      obtain ⟨l, c, rfl⟩ := h1
      simp only [emitTop, hn, ih, ctreeRows, List.map_append]
    | block key cs lead =>
      simp only [CNode.Matches] at h1
      obtain ⟨children, l, c, rfl, _⟩ := h1
      simp only [emitTop, hn, ih, ctreeRows, List.map_append]

/-- **The emitter on a document with nested blocks and comments** writes exactly `cDocText`, whatever positions the nodes
carry: leading comments as `indent // text` lines above their node, the trailing comment as ` // text` after the value, the
document's trailing comments as `// text` lines before `===END===`. -/
theorem emit_ctree_matches (env : Env) (name : Str) (nodes : List CNode) (trailing : List Str) (sections : List Node)
    (hm : ctreeMatches nodes sections) (h : ctreeEmitOK env nodes) (htr : ∀ c ∈ trailing, env.strip c = c) :
    emit env { name := name, sections := sections, trailingComments := trailing } = some (cDocText name nodes trailing) := by
  have ht := emitTop_ctree env nodes sections hm h
  have hj := joinWith_unlines ((cDocRows nodes trailing).map rowText) "===END===".toList
  unfold emit emitBody
  simp only [emitMetaLines, ht, leadingLines_eq env 0 trailing htr, List.isEmpty_nil, Bool.true_or, if_true,
    Bool.false_eq_true, if_false, List.nil_append, List.append_nil, bind, Option.bind, pure, Option.map]
  show some (finishText (joinWith ['\n'] (("===".toList ++ name ++ "===".toList) ::
    ((ctreeRows 0 nodes).map rowText ++ (leadRows 0 trailing).map rowText ++ ["===END===".toList])))) = _
  rw [← List.map_append, ← cDocRows]
  have hne : (cDocRows nodes trailing).map rowText ++ ["===END===".toList] ≠ [] := by simp
  obtain ⟨x, xs, hx⟩ := List.exists_cons_of_ne_nil hne
  rw [hx, joinWith, ← hx, hj]
  have hlast : (("===".toList ++ name ++ "===".toList) ++ ['\n'] ++ (unlines ((cDocRows nodes trailing).map rowText) ++ "===END===".toList)).getLast? = some '=' := by
    rw [List.getLast?_append, List.getLast?_append]; rfl
  simp only [finishText, hlast]
  simp [cDocText_rows]

mutual
/-- the AST of a tree with positions chosen by `pos` from the (0-based) index of the node's own line in the body and its
depth; comments in the `leading` / `trailing` fields. -/
def CNode.node (pos : Nat → Nat → Nat × Nat) (i d : Nat) : CNode → Node
  | .line ln lead trail => .assign ln.key ln.v.value (pos (i + lead.length) d).1 (pos (i + lead.length) d).2 lead trail
  | .block key cs lead =>
    .block key (ctreeNodes pos (i + lead.length + 1) (d + 1) cs) (pos (i + lead.length) d).1 (pos (i + lead.length) d).2 lead none
def ctreeNodes (pos : Nat → Nat → Nat × Nat) (i d : Nat) : List CNode → List Node
  | [] => []
  | n :: ns => n.node pos i d :: ctreeNodes pos (i + n.nlines) d ns
end

mutual
theorem CNode.node_matches (pos : Nat → Nat → Nat × Nat) : ∀ (t : CNode) (i d : Nat), t.Matches (t.node pos i d)
  | .line ln lead trail, i, d => by simp only [CNode.Matches, CNode.node]; exact ⟨_, _, rfl⟩
  | .block key cs lead, i, d => by
    simp only [CNode.Matches, CNode.node]
    exact ⟨_, _, _, rfl, ctreeNodes_matches pos cs (i + lead.length + 1) (d + 1)⟩
theorem ctreeNodes_matches (pos : Nat → Nat → Nat × Nat) : ∀ (ts : List CNode) (i d : Nat), ctreeMatches ts (ctreeNodes pos i d ts)
  | [], i, d => by simp [ctreeMatches, ctreeNodes]
  | t :: ts, i, d => by
    simp only [ctreeMatches, ctreeNodes]
    exact ⟨_, _, rfl, CNode.node_matches pos t i d, ctreeNodes_matches pos ts (i + t.nlines) d⟩
end

def cDoc (name : Str) (pos : Nat → Nat → Nat × Nat) (nodes : List CNode) (trailing : List Str) : Document :=
  { name := name, sections := ctreeNodes pos 0 0 nodes, trailingComments := trailing }

theorem emit_ctree (env : Env) (name : Str) (pos : Nat → Nat → Nat × Nat) (nodes : List CNode) (trailing : List Str)
    (h : ctreeEmitOK env nodes) (htr : ∀ c ∈ trailing, env.strip c = c) :
    emit env (cDoc name pos nodes trailing) = some (cDocText name nodes trailing) :=
  emit_ctree_matches env name nodes trailing _ (ctreeNodes_matches pos nodes 0 0) h htr

/-- **an empty trailing comment is kept by the emitter**: the node with `trailing_comment = ""` is written `KEY::value //`
(no trailing space), below its leading comments — and `step_comment` reads `//` before a line end back as a COMMENT token
valued `""`. -/
theorem emitNode_empty_trailing_kept (env : Env) (ln : FLine) (lead : List Str) (l c d : Nat) (b : Bool)
    (h : ln.EmitOK) (hl : ∀ x ∈ lead, env.strip x = x) :
    emitNode env (.assign ln.key ln.v.value l c lead (some [])) d b =
      some ((leadRows d lead).map rowText ++ [indentStr d ++ (ln.text ++ " //".toList)]) :=
  emitNode_cline env ln lead (some []) l c d b ⟨h, hl, strip_empty env⟩

end Octave

namespace Octave
open Lexer Scan Emitter

/-! ### the token list in reading order (for the bridge to the parser half) -/

/-- `INDENT(2d)? COMMENT(text) NEWLINE` at line `l`; the comment starts at column `1 + 2d`. -/
def cmtLineToks (c : Str) (d l : Nat) : List Token :=
  indentToks d l ++ [tComment c l (1 + 2 * d), tNewline l (1 + 2 * d + (cmtText c).length)]

/-- a run of comment lines at depth `d`, the first at line `l`. -/
def leadToks (d l : Nat) : List Str → List Token
  | [] => []
  | c :: cs => cmtLineToks c d l ++ leadToks d (l + 1) cs

/-- `INDENT(2d)? IDENTIFIER(key) ASSIGN value COMMENT(text)? NEWLINE` at line `l`; the trailing comment starts one column
after the end of the value (the space in between yields no token). -/
def cLineToks (ln : FLine) (trail : Option Str) (d l : Nat) : List Token :=
  indentToks d l ++
  [tIdent ln.key l (1 + 2 * d), tAssign l (1 + 2 * d + ln.key.length), ln.v.tok l (1 + 2 * d + ln.key.length + 2)] ++
  trailToksRev l (1 + 2 * d + ln.key.length + 2 + ln.v.text.length) trail ++
  [tNewline l (1 + 2 * d + ln.key.length + 2 + ln.v.text.length + (trailText trail).length)]

mutual
def CNode.toks (d l : Nat) : CNode → List Token
  | .line ln lead trail => leadToks d l lead ++ cLineToks ln trail d (l + lead.length)
  | .block key cs lead => leadToks d l lead ++ (headerToks key d (l + lead.length) ++ ctreeToks (d + 1) (l + lead.length + 1) cs)
def ctreeToks (d l : Nat) : List CNode → List Token
  | [] => []
  | n :: ns => n.toks d l ++ ctreeToks d (l + n.nlines) ns
end

theorem leadToksRev_reverse (d : Nat) : ∀ (cs : List Str) (l : Nat), (leadToksRev d l cs).reverse = leadToks d l cs
  | [], l => rfl
  | c :: cs, l => by
    simp [leadToksRev, leadToks, cmtLineToksRev, cmtLineToks, indentToksRev_reverse, leadToksRev_reverse d cs (l + 1)]

theorem trailToksRev_reverse (l col : Nat) (trail : Option Str) : (trailToksRev l col trail).reverse = trailToksRev l col trail := by
  cases trail <;> rfl

theorem cLineToksRev_reverse (ln : FLine) (trail : Option Str) (d l : Nat) :
    (cLineToksRev ln trail d l).reverse = cLineToks ln trail d l := by
  simp [cLineToksRev, cLineToks, indentToksRev_reverse, trailToksRev_reverse]

mutual
theorem CNode.toksRev_reverse : ∀ (n : CNode) (d l : Nat), (n.toksRev d l).reverse = n.toks d l
  | .line ln lead trail, d, l => by
    simp [CNode.toksRev, CNode.toks, cLineToksRev_reverse, leadToksRev_reverse]
  | .block key cs lead, d, l => by
    simp [CNode.toksRev, CNode.toks, headerToksRev, headerToks, indentToksRev_reverse, leadToksRev_reverse,
      ctreeToksRev_reverse cs (d + 1) (l + lead.length + 1)]
theorem ctreeToksRev_reverse : ∀ (ns : List CNode) (d l : Nat), (ctreeToksRev d l ns).reverse = ctreeToks d l ns
  | [], d, l => rfl
  | n :: ns, d, l => by
    simp [ctreeToksRev, ctreeToks, CNode.toksRev_reverse n d l, ctreeToksRev_reverse ns d (l + n.nlines)]
end

/-- the token list of the document in reading order. -/
theorem cDocToks_eq (name : Str) (nodes : List CNode) (trailing : List Str) :
    cDocToks name nodes trailing =
      tEnvStart name 1 1 :: tNewline 1 (1 + (name.length + 6)) :: (ctreeToks 0 2 nodes ++ (leadToks 0 (ctreeNLines nodes + 2) trailing ++
        [tEnvEnd (cDocNLines nodes trailing + 2) 1, tNewline (cDocNLines nodes trailing + 2) 10,
         tEof (cDocNLines nodes trailing + 3) 1])) := by
  simp [cDocToks, cDocToksRev, ctreeToksRev_reverse, leadToksRev_reverse]

/-- `INDENT(2d)? COMMENT(text) NEWLINE` without positions. -/
def cmtShape (d : Nat) (c : Str) : List (TT × TVal) := indentShape d ++ [(.comment, .str c), (.newline, .str ['\n'])]

def leadShape (d : Nat) : List Str → List (TT × TVal)
  | [] => []
  | c :: cs => cmtShape d c ++ leadShape d cs

def trailShape : Option Str → List (TT × TVal)
  | none => []
  | some c => [(.comment, .str c)]

mutual
/-- the token list without positions: INDENT carries `2 * depth`, COMMENT carries the comment text. -/
def CNode.shape (d : Nat) : CNode → List (TT × TVal)
  | .line ln lead trail =>
    leadShape d lead ++ (indentShape d ++ [(.identifier, .str ln.key), (.assign, .str "::".toList), ln.v.tv] ++ trailShape trail ++
      [(.newline, .str ['\n'])])
  | .block key cs lead =>
    leadShape d lead ++ (indentShape d ++ [(.identifier, .str key), (.block, .str [':']), (.newline, .str ['\n'])] ++ ctreeShape (d + 1) cs)
def ctreeShape (d : Nat) : List CNode → List (TT × TVal)
  | [] => []
  | n :: ns => n.shape d ++ ctreeShape d ns
end

theorem leadToks_tv (d : Nat) : ∀ (cs : List Str) (l : Nat), (leadToks d l cs).map Token.tv = leadShape d cs
  | [], l => rfl
  | c :: cs, l => by
    simp only [leadToks, leadShape, cmtLineToks, cmtShape, List.map_append, indentToks_tv, List.map_cons, List.map_nil,
      leadToks_tv d cs (l + 1)]
    rfl

theorem trailToks_tv (l col : Nat) (trail : Option Str) : (trailToksRev l col trail).map Token.tv = trailShape trail := by
  cases trail <;> rfl

mutual
theorem CNode.toks_tv : ∀ (n : CNode) (d l : Nat), (n.toks d l).map Token.tv = n.shape d
  | .line ln lead trail, d, l => by
    simp only [CNode.toks, CNode.shape, cLineToks, List.map_append, indentToks_tv, List.map_cons, List.map_nil,
      FScalar.tok_tv, leadToks_tv, trailToks_tv]
    rfl
  | .block key cs lead, d, l => by
    simp only [CNode.toks, CNode.shape, headerToks, List.map_append, indentToks_tv, List.map_cons, List.map_nil,
      leadToks_tv, ctreeToks_tv cs (d + 1) (l + lead.length + 1)]
    rfl
theorem ctreeToks_tv : ∀ (ns : List CNode) (d l : Nat), (ctreeToks d l ns).map Token.tv = ctreeShape d ns
  | [], d, l => rfl
  | n :: ns, d, l => by
    simp only [ctreeToks, ctreeShape, List.map_append, CNode.toks_tv n d l, ctreeToks_tv ns d (l + n.nlines)]
end

/-- types and values of the document's tokens, positions forgotten. -/
theorem cDocToks_tv (name : Str) (nodes : List CNode) (trailing : List Str) :
    (cDocToks name nodes trailing).map Token.tv =
      (.envelopeStart, .str name) :: (.newline, .str ['\n']) :: (ctreeShape 0 nodes ++ (leadShape 0 trailing ++
        [(.envelopeEnd, .str "END".toList), (.newline, .str ['\n']), (.eof, .none)])) := by
  rw [cDocToks_eq]
  simp only [List.map_cons, List.map_append, ctreeToks_tv, leadToks_tv, List.map_nil]
  rfl

/-! ### no token was normalised -/

theorem leadToks_plain (d : Nat) : ∀ (cs : List Str) (l : Nat), ∀ t ∈ leadToks d l cs, t.Plain
  | [], l, t, ht => by simp [leadToks] at ht
  | c :: cs, l, t, ht => by
    simp only [leadToks, cmtLineToks, List.mem_append, List.mem_cons, List.mem_nil_iff, or_false] at ht
    rcases ht with (h | h | h) | h
    · exact indentToks_plain d l t h
    · subst h; exact rfl
    · subst h; exact rfl
    · exact leadToks_plain d cs (l + 1) t h

theorem cLineToks_plain (ln : FLine) (trail : Option Str) (d l : Nat) : ∀ t ∈ cLineToks ln trail d l, t.Plain := by
  intro t ht
  simp only [cLineToks, List.mem_append, List.mem_cons, List.mem_nil_iff, or_false] at ht
  rcases ht with ((h | h | h | h) | h) | h
  · exact indentToks_plain d l t h
  · subst h; exact rfl
  · subst h; exact rfl
  · subst h; cases ln.v <;> exact rfl
  · cases trail with
    | none => simp [trailToksRev] at h
    | some c => simp only [trailToksRev, List.mem_singleton] at h; subst h; exact rfl
  · subst h; exact rfl

mutual
theorem CNode.toks_plain : ∀ (n : CNode) (d l : Nat), ∀ t ∈ n.toks d l, t.Plain
  | .line ln lead trail, d, l, t, ht => by
    simp only [CNode.toks, List.mem_append] at ht
    rcases ht with h | h
    · exact leadToks_plain d lead l t h
    · exact cLineToks_plain ln trail d _ t h
  | .block key cs lead, d, l, t, ht => by
    simp only [CNode.toks, headerToks, List.mem_append, List.mem_cons, List.mem_nil_iff, or_false] at ht
    rcases ht with h | (h | h | h | h) | h
    · exact leadToks_plain d lead l t h
    · exact indentToks_plain d _ t h
    · subst h; exact rfl
    · subst h; exact rfl
    · subst h; exact rfl
    · exact ctreeToks_plain cs (d + 1) _ t h
theorem ctreeToks_plain : ∀ (ns : List CNode) (d l : Nat), ∀ t ∈ ctreeToks d l ns, t.Plain
  | [], d, l, t, ht => by simp [ctreeToks] at ht
  | n :: ns, d, l, t, ht => by
    simp only [ctreeToks, List.mem_append] at ht
    rcases ht with h | h
    · exact CNode.toks_plain n d l t h
    · exact ctreeToks_plain ns d (l + n.nlines) t h
end

theorem cDocToks_plain (name : Str) (nodes : List CNode) (trailing : List Str) : ∀ t ∈ cDocToks name nodes trailing, t.Plain := by
  intro t ht
  rw [cDocToks_eq] at ht
  simp only [List.mem_cons, List.mem_append, List.mem_nil_iff, or_false] at ht
  rcases ht with h | h | h | h | h | h | h
  · subst h; exact rfl
  · subst h; exact rfl
  · exact ctreeToks_plain nodes 0 2 t h
  · exact leadToks_plain 0 trailing _ t h
  · subst h; exact rfl
  · subst h; exact rfl
  · subst h; exact rfl

/-! ### the comments of a document, in reading order, and the COMMENT tokens -/

mutual
/-- the comment texts of a node in document order: its leading comments, then its trailing comment / its children's. -/
def CNode.comments : CNode → List Str
  | .line _ lead trail => lead ++ trail.toList
  | .block _ cs lead => lead ++ ctreeComments cs
def ctreeComments : List CNode → List Str
  | [] => []
  | n :: ns => n.comments ++ ctreeComments ns
end

/-- all comment texts of the document, in order. -/
def cDocComments (nodes : List CNode) (trailing : List Str) : List Str := ctreeComments nodes ++ trailing

/-- the values of the COMMENT entries of a (type, value) list. -/
def commentVals (sh : List (TT × TVal)) : List TVal := (sh.filter fun p => p.1 == .comment).map (·.2)

theorem commentVals_append (a b : List (TT × TVal)) : commentVals (a ++ b) = commentVals a ++ commentVals b := by
  simp [commentVals]

theorem commentVals_indent (d : Nat) : commentVals (indentShape d) = [] := by
  unfold indentShape
  split <;> rfl

theorem commentVals_lead (d : Nat) : ∀ cs : List Str, commentVals (leadShape d cs) = cs.map TVal.str
  | [] => rfl
  | c :: cs => by
    simp only [leadShape, cmtShape, commentVals_append, commentVals_indent, commentVals_lead d cs, List.nil_append, List.map_cons]
    rfl

theorem commentVals_trail (trail : Option Str) : commentVals (trailShape trail) = trail.toList.map TVal.str := by
  cases trail <;> rfl

theorem commentVals_scalar (v : FScalar) : commentVals [v.tv] = [] := by cases v <;> rfl

mutual
theorem CNode.commentVals_shape : ∀ (n : CNode) (d : Nat), commentVals (n.shape d) = n.comments.map TVal.str
  | .line ln lead trail, d => by
    have h3 : commentVals [(TT.identifier, TVal.str ln.key), (TT.assign, TVal.str "::".toList), ln.v.tv] = [] := by
      have := commentVals_scalar ln.v
      simp only [commentVals, List.filter_cons, List.filter_nil] at this ⊢
      simpa using this
    simp only [CNode.shape, CNode.comments, commentVals_append, commentVals_lead, commentVals_indent, commentVals_trail, h3,
      List.map_append, List.nil_append]
    simp [commentVals]
  | .block key cs lead, d => by
    simp only [CNode.shape, CNode.comments, commentVals_append, commentVals_lead, commentVals_indent,
      CNode.ctreeCommentVals_shape cs (d + 1), List.map_append, List.nil_append]
    simp [commentVals]
theorem CNode.ctreeCommentVals_shape : ∀ (ns : List CNode) (d : Nat), commentVals (ctreeShape d ns) = (ctreeComments ns).map TVal.str
  | [], d => rfl
  | n :: ns, d => by
    simp only [ctreeShape, ctreeComments, commentVals_append, CNode.commentVals_shape n d, CNode.ctreeCommentVals_shape ns d,
      List.map_append]
end

theorem commentVals_map_tv (ts : List Token) :
    commentVals (ts.map Token.tv) = (ts.filter fun t => t.type == .comment).map (·.value) := by
  induction ts with
  | nil => rfl
  | cons t ts ih =>
    simp only [commentVals, List.map_cons, List.filter_cons] at ih ⊢
    by_cases h : t.type = .comment
    · simp [Token.tv, h, ih]
    · simp [Token.tv, h, ih]

/-- **the COMMENT tokens of the document's token list carry exactly the document's comment texts, in order**: one token
per comment. -/
theorem cDocToks_comments (name : Str) (nodes : List CNode) (trailing : List Str) :
    ((cDocToks name nodes trailing).filter fun t => t.type == .comment).map (·.value) =
      (cDocComments nodes trailing).map TVal.str := by
  rw [← commentVals_map_tv, cDocToks_tv]
  have e : ((TT.envelopeStart, TVal.str name) :: (TT.newline, TVal.str ['\n']) :: (ctreeShape 0 nodes ++ (leadShape 0 trailing ++
        [(TT.envelopeEnd, TVal.str "END".toList), (TT.newline, TVal.str ['\n']), (TT.eof, TVal.none)]))) =
      [(TT.envelopeStart, TVal.str name), (TT.newline, TVal.str ['\n'])] ++ (ctreeShape 0 nodes ++ (leadShape 0 trailing ++
        [(TT.envelopeEnd, TVal.str "END".toList), (TT.newline, TVal.str ['\n']), (TT.eof, TVal.none)])) := rfl
  rw [e]
  simp only [commentVals_append, CNode.ctreeCommentVals_shape, commentVals_lead, cDocComments, List.map_append]
  simp [commentVals]

end Octave

namespace Octave
open Lexer Scan Emitter

/-! ### trees without comments are the trees of `BlockLex` -/

mutual
/-- a tree of `BlockLex` as a tree with (no) comments. -/
def CNode.ofT : TNode → CNode
  | .line ln => .line ln [] none
  | .block key cs => .block key (ctreeOfT cs) []
def ctreeOfT : List TNode → List CNode
  | [] => []
  | n :: ns => CNode.ofT n :: ctreeOfT ns
end

mutual
theorem CNode.ofT_text : ∀ (n : TNode) (d : Nat), (CNode.ofT n).text d = n.text d
  | .line ln, d => by simp [CNode.ofT, CNode.text, TNode.text, leadText, trailText]
  | .block key cs, d => by simp [CNode.ofT, CNode.text, TNode.text, leadText, ctreeOfT_text cs (d + 1)]
theorem ctreeOfT_text : ∀ (ns : List TNode) (d : Nat), ctreeText d (ctreeOfT ns) = treeText d ns
  | [], d => rfl
  | n :: ns, d => by simp [ctreeOfT, ctreeText, treeText, CNode.ofT_text n d, ctreeOfT_text ns d]
end

mutual
theorem CNode.ofT_nlines : ∀ (n : TNode), (CNode.ofT n).nlines = n.nlines
  | .line ln => by simp [CNode.ofT, CNode.nlines, TNode.nlines]
  | .block key cs => by simp [CNode.ofT, CNode.nlines, TNode.nlines, ctreeOfT_nlines cs]
theorem ctreeOfT_nlines : ∀ (ns : List TNode), ctreeNLines (ctreeOfT ns) = treeNLines ns
  | [] => rfl
  | n :: ns => by simp [ctreeOfT, ctreeNLines, treeNLines, CNode.ofT_nlines n, ctreeOfT_nlines ns]
end

mutual
theorem CNode.ofT_toks : ∀ (n : TNode) (d l : Nat), (CNode.ofT n).toks d l = n.toks d l
  | .line ln, d, l => by
    simp [CNode.ofT, CNode.toks, TNode.toks, leadToks, cLineToks, FLine.toksAt, trailToksRev, trailText]
  | .block key cs, d, l => by
    simp [CNode.ofT, CNode.toks, TNode.toks, leadToks, ctreeOfT_toks cs (d + 1) (l + 1)]
theorem ctreeOfT_toks : ∀ (ns : List TNode) (d l : Nat), ctreeToks d l (ctreeOfT ns) = treeToks d l ns
  | [], d, l => rfl
  | n :: ns, d, l => by
    simp [ctreeOfT, ctreeToks, treeToks, CNode.ofT_toks n d l, CNode.ofT_nlines n, ctreeOfT_toks ns d (l + n.nlines)]
end

/-- without comments, `cDocText` is `treeDocText` and `cDocToks` is `treeDocToks`. -/
theorem cDocText_ofT (name : Str) (nodes : List TNode) : cDocText name (ctreeOfT nodes) [] = treeDocText name nodes := by
  simp [cDocText, treeDocText, ctreeOfT_text, leadText]

theorem cDocToks_ofT (name : Str) (nodes : List TNode) : cDocToks name (ctreeOfT nodes) [] = treeDocToks name nodes := by
  rw [cDocToks_eq, treeDocToks_eq]
  simp [ctreeOfT_toks, leadToks, cDocNLines, ctreeOfT_nlines]

end Octave
