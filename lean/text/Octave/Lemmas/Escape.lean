import Octave.Model.Lexer
import Octave.Model.Emitter
/-! Escape on write (emitter) and unescape on read (lexer) are inverse; an escaped body is scanned
by the STRING pattern as exactly that body. -/
namespace Octave
open Lexer Emitter Scan

theorem unescape_cons_ne (c : Char) (r : Str) (h : c ≠ '\\') : unescape (c :: r) = c :: unescape r := by
  conv => lhs; unfold unescape
  split <;> simp_all

/-- the emitter's escaping is undone by the lexer's unescaping, for every string. -/
theorem unescape_escape (s : Str) : unescape (escape s) = s := by
  fun_induction escape s with
  | case1 => simp [unescape]
  | case2 cs ih => simp [unescape, ih]
  | case3 cs ih => simp [unescape, ih]
  | case4 cs ih => simp [unescape, ih]
  | case5 cs ih => simp [unescape, ih]
  | case6 c cs h1 h2 h3 h4 ih =>
    rw [unescape_cons_ne c _ (by intro h; exact h1 h), ih]

theorem stringBody_cons_plain (c : Char) (r : Str) (h1 : c ≠ '"') (h2 : c ≠ '\\') :
    stringBody (c :: r) = (stringBody r).map fun (a, b) => (c :: a, b) := by
  rw [stringBody]
  all_goals simp_all

/-- the STRING pattern, after the opening quote, reads an escaped body up to the closing quote
the emitter wrote — whatever follows. -/
theorem stringBody_escape (s rest : Str) :
    stringBody (escape s ++ '"' :: rest) = some (escape s, rest) := by
  fun_induction escape s with
  | case1 => simp [stringBody]
  | case2 cs ih => simp [stringBody, ih]
  | case3 cs ih => simp [stringBody, ih]
  | case4 cs ih => simp [stringBody, ih]
  | case5 cs ih => simp [stringBody, ih]
  | case6 c cs h1 h2 h3 h4 ih =>
    simp only [List.cons_append]
    rw [stringBody_cons_plain c _ (by intro h; exact h2 h) (by intro h; exact h1 h), ih]
    rfl

/-- an escaped string never contains a raw newline or tab (so a quoted value stays on its line and passes the tab check). -/
theorem escape_no_raw (s : Str) : ∀ d ∈ escape s, d ≠ '\n' ∧ d ≠ '\t' := by
  fun_induction escape s with
  | case1 => simp
  | case2 cs ih =>
    intro d hd; simp only [List.mem_cons] at hd
    rcases hd with rfl | rfl | h
    · decide
    · decide
    · exact ih d h
  | case3 cs ih =>
    intro d hd; simp only [List.mem_cons] at hd
    rcases hd with rfl | rfl | h
    · decide
    · decide
    · exact ih d h
  | case4 cs ih =>
    intro d hd; simp only [List.mem_cons] at hd
    rcases hd with rfl | rfl | h
    · decide
    · decide
    · exact ih d h
  | case5 cs ih =>
    intro d hd; simp only [List.mem_cons] at hd
    rcases hd with rfl | rfl | h
    · decide
    · decide
    · exact ih d h
  | case6 c cs h1 h2 h3 h4 ih =>
    intro d hd; simp only [List.mem_cons] at hd
    rcases hd with rfl | h
    · exact ⟨by intro h; exact h3 h, by intro h; exact h4 h⟩
    · exact ih d h

end Octave
