import Octave.Lemmas.MwBoolLex
import Octave.Lemmas.C13Reader
/-!
NUMBER-HEADED MULTI-WORD VALUES WITH ANY NUMBER LEXEME (`K::1.50 mice`, `K::1e3 mice`, `K::007 mice`, `K::-0.0 mice`) as values
of a flat document — lexer half.  A port of `MwBoolLex` with one more head constructor, `.num s sc`: `s` is ANY NUMBER
lexeme of the lexer (`C13.pyNumberFull s`: `-?digits(.digits)?([eE][+-]?digits)?`, leading zeros allowed) and `sc` the
scalar the lexer makes of it (`C13.numScalar env s`: an `int` or the float `repr(float(s))`, with `raw = s`).  What the
lexeme must satisfy in an environment is `MfHead.NumOK env` (representable: `C13.Representable`).

* `mwf_step_head`   the head: ONE token (`C13.step_numParts` for `.num`: any float terminator, here a SPACE);
* `mwf_run_words`, `mwf_run_line`, `mwf_run_lines`, `mwf_run_doc`, `tokenize_mwfdoc`   as in `MwBoolLex`.
-/
namespace Octave.MWF
open Octave Lexer Scan Emitter Spell Expr MW MWN MWB

/-! ### the class -/

/-- the head of a multi-word value. -/
inductive MfHead where
  | word (w : Str)
  | int (i : Int)
  | str (s : Str)
  | bool (b : Bool)
  | null
  | ver (d1 d2 d3 : Str)
  /-- ANY NUMBER lexeme `s`; `sc` is the scalar token the lexer makes of it -/
  | num (s : Str) (sc : FlatParse.Scalar)
  deriving Repr, DecidableEq

/-- the head as written. -/
def MfHead.text : MfHead → Str
  | .word w => w
  | .int i => intStr i
  | .str s => quoted s
  | .bool b => if b then "true".toList else "false".toList
  | .null => "null".toList
  | .ver d1 d2 d3 => verText d1 d2 d3
  | .num s _ => s

/-- the string `_token_to_str` gives for the head's token: the word, the RAW number lexeme, `"` + the string's
(unescaped) CONTENT + `"`, the literal `true` / `false` / `null`, the version lexeme. -/
def MfHead.part : MfHead → Str
  | .word w => w
  | .int i => intStr i
  | .str s => '"' :: s ++ ['"']
  | .bool b => if b then "true".toList else "false".toList
  | .null => "null".toList
  | .ver d1 d2 d3 => verText d1 d2 d3
  | .num s _ => s

/-- the `raw` field of a NUMBER scalar. -/
def mwfRaw : FlatParse.Scalar → Option Str
  | .int _ raw => some raw
  | .float _ raw => some raw
  | _ => none

/-- the head's token. -/
def MfHead.tok (h : MfHead) (l c : Nat) : Token :=
  match h with
  | .word w => tIdent w l c
  | .int i => tInt i l c
  | .str s => tString s l c
  | .bool b => tBool b l c
  | .null => tNull l c
  | .ver d1 d2 d3 => tVersion (verText d1 d2 d3) l c
  | .num _ sc => sc.tok l c

/-- lexer notes of the head (identifier notes only). -/
def MfHead.reps (h : MfHead) (l c : Nat) : List Repair :=
  match h with
  | .word w => identifierRepairs w l c
  | _ => []

/-- a word: `wordOK`; an integer: within Python's digit limit (4300; beyond it the lexer raises E005); a version: three
non-empty runs of ASCII digits. -/
def MfHead.OK : MfHead → Prop
  | .word w => wordOK w
  | .int i => (natStr i.natAbs).length ≤ 4300
  | .str _ => True
  | .bool _ => True
  | .null => True
  | .ver d1 d2 d3 => Digits d1 ∧ Digits d2 ∧ Digits d3
  | .num s sc => C13.pyNumberFull s = true ∧ mwfRaw sc = some s

/-- what a `.num` head needs of the ENVIRONMENT: the lexeme is representable (an int lexeme within 4300 digits, a float
lexeme that does not overflow to `inf` — otherwise the lexer raises E005) and `sc` is the scalar the lexer makes of it. -/
def MfHead.NumOK (env : Env) : MfHead → Prop
  | .num s sc => C13.Representable env s ∧ sc = C13.numScalar env s
  | _ => True

instance (s : Str) : Decidable (Digits s) := by unfold Digits; infer_instance
instance (o : Option Str) (s : Str) : Decidable (o = some s) := inferInstance
instance (h : MfHead) : Decidable h.OK := by cases h <;> (unfold MfHead.OK; infer_instance)

/-- the `context` field of the receipt: empty for a word head, `number_identifier` for a NUMBER head,
`string_multiword` / `boolean_multiword` / `null_multiword` / `version_multiword` for the others. -/
def MfHead.ctx : MfHead → Str
  | .word _ => []
  | .int _ => "number_identifier".toList
  | .str _ => "string_multiword".toList
  | .bool _ => "boolean_multiword".toList
  | .null => "null_multiword".toList
  | .ver _ _ _ => "version_multiword".toList
  | .num _ _ => "number_identifier".toList

/-- a multi-word value with any of the seven kinds of head. -/
structure MfWords where
  head : MfHead
  tail : List (Nat × Str)
  deriving Repr, DecidableEq

def MfWords.spell (m : MfWords) : Str := m.head.text ++ mwTailSpell m.tail
/-- the parts as the reader sees them. -/
def MfWords.words (m : MfWords) : List Str := m.head.part :: m.tail.map Prod.snd
/-- what the reader makes of it: the head's lexeme and the words joined by ONE space each. -/
def MfWords.result (m : MfWords) : Str := Parser.spaceJoin m.words
def MfWords.OK (m : MfWords) : Prop := m.head.OK ∧ (∀ p ∈ m.tail, wordOK p.2) ∧ m.tail ≠ []
def MfWords.NumOK (env : Env) (m : MfWords) : Prop := m.head.NumOK env

instance (m : MfWords) : Decidable m.OK := by unfold MfWords.OK; infer_instance

inductive MfVal where
  | sc (v : FScalar)
  | nw (m : MfWords)
  deriving Repr, DecidableEq

structure MfLine where
  key : Str
  v : MfVal
  deriving Repr, DecidableEq

def MfVal.OK : MfVal → Prop
  | .sc v => v.OK
  | .nw m => m.OK

def MfVal.NumOK (env : Env) : MfVal → Prop
  | .sc _ => True
  | .nw m => m.NumOK env

def MfLine.NumOK (env : Env) (ln : MfLine) : Prop := ln.v.NumOK env

def MfLine.OK (ln : MfLine) : Prop := isIdentifierText ln.key = true ∧ hasReservedPrefix ln.key = false ∧ ln.v.OK

def MfVal.spell : MfVal → Str
  | .sc v => v.text
  | .nw m => m.spell

def MfLine.spell (ln : MfLine) : Str := ln.key ++ (':' :: ':' :: ln.v.spell)

def MfVal.toksRev (l c : Nat) : MfVal → List Token
  | .sc v => [v.tok l c]
  | .nw m => mwTailToksRev l (c + m.head.text.length) m.tail ++ [m.head.tok l c]

def MfVal.repsRev (l c : Nat) : MfVal → List Repair
  | .sc v => (v.reps l c).reverse
  | .nw m => mwTailRepsRev l (c + m.head.text.length) m.tail ++ (m.head.reps l c).reverse

def MfLine.toksRev (ln : MfLine) (l c : Nat) : List Token :=
  tNewline l (c + ln.key.length + 2 + ln.v.spell.length) ::
    (ln.v.toksRev l (c + ln.key.length + 2) ++ [tAssign l (c + ln.key.length), tIdent ln.key l c])

def MfLine.repsRev (ln : MfLine) (l c : Nat) : List Repair :=
  ln.v.repsRev l (c + ln.key.length + 2) ++ (identifierRepairs ln.key l c).reverse

theorem mwf_numTerm_tail (env : Env) (tail : List (Nat × Str)) (rest : Str) :
    NumTerm env (mwTailSpell tail ++ '\n' :: rest) := by
  cases tail with
  | nil => exact (floatTerm_nl env rest).num
  | cons q r =>
    obtain ⟨g, w⟩ := q
    simp only [mwTailSpell, spaces_succ]
    exact (floatTerm_space env _).num

theorem mwf_head_text_ne_nil (h : MfHead) (hok : h.OK) : h.text ≠ [] := by
  cases h with
  | word w => exact wordOK_ne_nil hok
  | int i => exact intStr_ne_nil i
  | str s => simp [MfHead.text, quoted]
  | bool b => cases b <;> simp [MfHead.text]
  | null => simp [MfHead.text]
  | ver d1 d2 d3 => exact verText_ne_nil d1 d2 d3
  | num s sc =>
    obtain ⟨p, hp, rfl⟩ := C13.pyNumberFull_shape s hok.1
    exact p.ne_nil hp

theorem mwf_tail_head_ne_quote (tail : List (Nat × Str)) (rest : Str) :
    (mwTailSpell tail ++ '\n' :: rest).head? ≠ some '"' := by
  cases tail with
  | nil => simp [mwTailSpell]
  | cons q r =>
    obtain ⟨g, w⟩ := q
    simp [mwTailSpell, spaces_succ]

theorem mwf_tail_sp (tail : List (Nat × Str)) (rest : Str) (hne : tail ≠ []) :
    ∃ r, mwTailSpell tail ++ '\n' :: rest = ' ' :: r := by
  cases tail with
  | nil => exact absurd rfl hne
  | cons q r =>
    obtain ⟨g, w⟩ := q
    exact ⟨spaces g ++ (w ++ mwTailSpell r) ++ '\n' :: rest, by simp only [mwTailSpell, spaces_succ, List.cons_append]⟩

/-- the head: one step, one token (`prev = ':'` is what `\btrue\b` / `\bnull\b` look at). -/
theorem mwf_step_head (env : Env) (lenient : Bool) (st : LState) (h : MfHead) (tail : List (Nat × Str)) (rest : Str)
    (hr : Ready st) (hp : st.prev = some ':') (hok : h.OK) (hnum : h.NumOK env) (htl : tail ≠ []) :
    ∃ st' p, step env lenient st (h.text ++ (mwTailSpell tail ++ '\n' :: rest)) = .ok (st', mwTailSpell tail ++ '\n' :: rest) ∧
      Adv st st' [h.tok st.line st.col] (h.reps st.line st.col).reverse 0 (st.col + h.text.length) p := by
  cases h with
  | word w =>
    obtain ⟨s1, e1, a1⟩ := step_ident env lenient st w _ hr hok.1 hok.2 (mwTermOK_tail env tail rest)
    exact ⟨s1, _, e1, a1⟩
  | int i =>
    obtain ⟨s1, e1, a1⟩ := step_int env lenient st i _ hr (mwf_numTerm_tail env tail rest) hok
    exact ⟨s1, _, e1, a1⟩
  | str s =>
    obtain ⟨s1, e1, a1⟩ := step_quoted env lenient st s _ hr (mwf_tail_head_ne_quote tail rest)
    exact ⟨s1, _, e1, a1⟩
  | bool b =>
    obtain ⟨r, hr'⟩ := mwf_tail_sp tail rest htl
    rw [hr']
    obtain ⟨s1, e1, a1⟩ := step_bool_sp env lenient st b r hr hp
    refine ⟨s1, some 'e', e1, ?_⟩
    cases b <;> exact a1
  | null =>
    obtain ⟨r, hr'⟩ := mwf_tail_sp tail rest htl
    rw [hr']
    obtain ⟨s1, e1, a1⟩ := step_null_sp env lenient st r hr hp
    exact ⟨s1, _, e1, a1⟩
  | ver d1 d2 d3 =>
    obtain ⟨r, hr'⟩ := mwf_tail_sp tail rest htl
    rw [hr']
    obtain ⟨s1, e1, a1⟩ := step_version_sp env lenient st d1 d2 d3 r hr hok.1 hok.2.1 hok.2.2
    exact ⟨s1, _, e1, a1⟩
  | num s sc =>
    obtain ⟨r, hr'⟩ := mwf_tail_sp tail rest htl
    obtain ⟨p, hpok, rfl⟩ := C13.pyNumberFull_shape s hok.1
    obtain ⟨hrep, rfl⟩ := hnum
    rw [hr']
    obtain ⟨s1, e1, a1⟩ := C13.step_numParts env lenient st p hpok (' ' :: r) hr (floatTerm_space env r) hrep
    exact ⟨s1, _, e1, a1⟩

/-- **one multi-word value** after `::`, before the line end. -/
theorem mwf_run_words (env : Env) (lenient : Bool) (st : LState) (m : MfWords) (rest : Str)
    (hr : Ready st) (hp : st.prev = some ':') (hc : 2 ≤ st.col) (hok : m.OK) (hnum : m.NumOK env) :
    ∃ n st' p, Run env lenient n st (m.spell ++ '\n' :: rest) st' ('\n' :: rest) ∧
      Adv st st' ((MfVal.nw m).toksRev st.line st.col) ((MfVal.nw m).repsRev st.line st.col) 0
        (st.col + m.spell.length) p := by
  obtain ⟨hh, ht, hne⟩ := hok
  let R1 := mwTailSpell m.tail ++ '\n' :: rest
  obtain ⟨s1, p1, e1, a1⟩ := mwf_step_head env lenient st m.head m.tail rest hr hp hh hnum hne
  have c1 : s1.col = st.col + m.head.text.length := a1.col
  have l1 : s1.line = st.line := by rw [a1.line]; rfl
  obtain ⟨n2, s2, p2, r2, a2⟩ := mw_run_tail env lenient m.tail s1 rest a1.ready (by rw [c1]; omega) ht
  have hne1 : m.head.text ++ R1 ≠ [] := by simp [mwf_head_text_ne_nil m.head hh]
  have run := Run.trans (Run.step1 e1 hne1) r2
  have hshape : m.spell ++ '\n' :: rest = m.head.text ++ R1 := by simp [MfWords.spell, R1, List.append_assoc]
  refine ⟨_, s2, p2, by rw [hshape]; exact run, ?_⟩
  refine ⟨a2.ready, ?_, ?_, ?_, ?_, ?_, a2.prev⟩
  · rw [a2.toks, a1.toks, l1, c1]; simp [MfVal.toksRev]
  · rw [a2.repairs, a1.repairs, l1, c1]; simp [MfVal.repsRev]
  · rw [a2.stack, a1.stack]
  · rw [a2.line, l1]
  · rw [a2.col, c1]; simp [MfWords.spell]; omega

/-- **one line** `KEY::value` with its line end. -/
theorem mwf_run_line (env : Env) (lenient : Bool) (st : LState) (ln : MfLine) (rest : Str)
    (hr : Ready st) (hok : ln.OK) (hnum : ln.NumOK env) :
    ∃ n st', Run env lenient n st (ln.spell ++ '\n' :: rest) st' rest ∧
      Adv st st' (ln.toksRev st.line st.col) (ln.repsRev st.line st.col) 1 1 (some '\n') := by
  obtain ⟨key, v⟩ := ln
  obtain ⟨hk1, hk2, hv⟩ := hok
  cases v with
  | sc v =>
    obtain ⟨s4, r4, a4⟩ := run_line env lenient st ⟨key, v⟩ rest hr ⟨hk1, hk2, hv⟩
    exact ⟨4, s4, r4, a4⟩
  | nw m =>
    let R3 := m.spell ++ '\n' :: rest
    obtain ⟨s1, e1, a1⟩ := step_ident env lenient st key (':' :: ':' :: R3) hr hk1 hk2 (termOK_colon env _)
    obtain ⟨s2, e2, a2⟩ := step_assign env lenient s1 R3 a1.ready
    have l1 : s1.line = st.line := by rw [a1.line]; rfl
    have l2 : s2.line = st.line := by rw [a2.line, l1]; rfl
    have c1 : s1.col = st.col + key.length := a1.col
    have c2 : s2.col = st.col + key.length + 2 := by rw [a2.col, c1]
    obtain ⟨n3, s3, p3, r3, a3⟩ := mwf_run_words env lenient s2 m rest a2.ready a2.prev (by rw [c2]; omega) hv hnum
    obtain ⟨s4, e4, a4⟩ := step_newline env lenient s3 rest a3.ready
    have l3 : s3.line = st.line := by rw [a3.line, l2]; rfl
    have c3 : s3.col = st.col + key.length + 2 + m.spell.length := by rw [a3.col, c2]
    have hne : key ≠ [] := by intro h; rw [h] at hk1; simp [isIdentifierText] at hk1
    have run := Run.trans (Run.trans (Run.trans (Run.step1 e1 (by simp [hne])) (Run.one e2)) r3) (Run.one e4)
    have hshape : (MfLine.mk key (.nw m)).spell ++ '\n' :: rest = key ++ (':' :: ':' :: R3) := by
      simp [MfLine.spell, MfVal.spell, R3]
    refine ⟨_, s4, by rw [hshape]; exact run, ?_⟩
    refine ⟨a4.ready, ?_, ?_, ?_, ?_, a4.col, a4.prev⟩
    · rw [a4.toks, a3.toks, a2.toks, a1.toks, l3, c3, l2, c2, l1, c1]; simp [MfLine.toksRev, MfVal.spell]
    · rw [a4.repairs, a3.repairs, a2.repairs, a1.repairs, l2, c2]; simp [MfLine.repsRev]
    · rw [a4.stack, a3.stack, a2.stack, a1.stack]
    · rw [a4.line, l3]

/-! ### all lines, the whole document -/

def mwfLinesText : List MfLine → Str
  | [] => []
  | x :: r => x.spell ++ '\n' :: mwfLinesText r

def mwfLinesToksRev (l : Nat) : List MfLine → List Token
  | [] => []
  | x :: r => mwfLinesToksRev (l + 1) r ++ x.toksRev l 1

def mwfLinesRepsRev (l : Nat) : List MfLine → List Repair
  | [] => []
  | x :: r => mwfLinesRepsRev (l + 1) r ++ x.repsRev l 1

theorem mwf_run_lines (env : Env) (lenient : Bool) (sl : List MfLine) :
    ∀ (st : LState) (rest : Str), Ready st → st.col = 1 → (∀ x ∈ sl, x.OK) → (∀ x ∈ sl, x.NumOK env) →
    ∃ n st', Run env lenient n st (mwfLinesText sl ++ rest) st' rest ∧
      AdvL st st' (mwfLinesToksRev st.line sl) (mwfLinesRepsRev st.line sl) sl.length := by
  induction sl with
  | nil =>
    intro st rest hr hc _ _
    exact ⟨0, st, Run.refl _ _, ⟨hr, rfl, rfl, rfl, rfl, hc⟩⟩
  | cons x r ih =>
    intro st rest hr hc hok hnum
    obtain ⟨n1, s1, r1, a1⟩ := mwf_run_line env lenient st x (mwfLinesText r ++ rest) hr (hok x (by simp)) (hnum x (by simp))
    obtain ⟨n2, s2, r2, a2⟩ := ih s1 rest a1.ready a1.col (fun y hy => hok y (by simp [hy])) (fun y hy => hnum y (by simp [hy]))
    refine ⟨n1 + n2, s2, ?_, ?_⟩
    · have := Run.trans r1 r2
      simpa [mwfLinesText, List.append_assoc] using this
    · have hl : s1.line = st.line + 1 := a1.line
      rw [hl] at a2
      rw [hc] at a1
      refine ⟨a2.ready, ?_, ?_, ?_, ?_, a2.col⟩
      · rw [a2.toks, a1.toks]; simp [mwfLinesToksRev, List.append_assoc]
      · rw [a2.repairs, a1.repairs]; simp [mwfLinesRepsRev, List.append_assoc]
      · rw [a2.stack, a1.stack]
      · rw [a2.line, hl]; simp; omega

/-- **the text of the document as written**: envelope line, the lines, `===END===`. -/
def mwfdocText (name : Str) (sl : List MfLine) : Str :=
  "===".toList ++ name ++ "===".toList ++ '\n' :: (mwfLinesText sl ++ ("===END===".toList ++ ['\n']))

def mwfdocToksRev (name : Str) (sl : List MfLine) : List Token :=
  [tEof (sl.length + 3) 1, tNewline (sl.length + 2) 10, tEnvEnd (sl.length + 2) 1] ++ mwfLinesToksRev 2 sl ++
    [tNewline 1 (1 + (name.length + 6)), tEnvStart name 1 1]

/-- **the tokens of the document**, in reading order. -/
def mwfdocToks (name : Str) (sl : List MfLine) : List Token := (mwfdocToksRev name sl).reverse

/-- its lexer repair log, in order (identifier notes only). -/
def mwfdocReps (sl : List MfLine) : List Repair := (mwfLinesRepsRev 2 sl).reverse

theorem mwf_run_doc (env : Env) (lenient : Bool) (name : Str) (sl : List MfLine)
    (hn : isEnvName name = true) (hne : name ≠ "END".toList) (hok : ∀ x ∈ sl, x.OK) (hnum : ∀ x ∈ sl, x.NumOK env) :
    ∃ n st', Run env lenient n ({ spans := [] } : LState) (mwfdocText name sl) st' [] ∧
      (tEof st'.line st'.col :: st'.toks).reverse = mwfdocToks name sl ∧ st'.repairs.reverse = mwfdocReps sl ∧ st'.stack = [] := by
  let st0 : LState := { spans := [] }
  let T2 := mwfLinesText sl ++ ("===END===".toList ++ ['\n'])
  obtain ⟨s1, e1, a1⟩ := step_envStart env lenient st0 name ('\n' :: T2) rfl hn hne
  obtain ⟨s2, e2, a2⟩ := step_newline env lenient s1 T2 a1.ready
  obtain ⟨n3, s3, r3, a3⟩ := mwf_run_lines env lenient sl s2 ("===END===".toList ++ ['\n']) a2.ready a2.col hok hnum
  obtain ⟨s4, e4, a4⟩ := step_envEnd env lenient s3 ['\n'] a3.ready
  obtain ⟨s5, e5, a5⟩ := step_newline env lenient s4 [] a4.ready
  have e4' : step env lenient s3 ('=' :: ("==END===".toList ++ ['\n'])) = .ok (s4, ['\n']) := e4
  have hne1 : "===".toList ++ name ++ "===".toList ++ '\n' :: T2 ≠ [] := by simp
  have run := Run.trans (Run.trans (Run.step1 e1 hne1) (Run.one e2)) (Run.trans r3 (Run.cons e4' (Run.one e5)))
  have l1 : s1.line = 1 := by rw [a1.line]
  have l2 : s2.line = 2 := by rw [a2.line, l1]
  have l3 : s3.line = sl.length + 2 := by rw [a3.line, l2]; omega
  have l4 : s4.line = sl.length + 2 := by rw [a4.line, l3]
  have l5 : s5.line = sl.length + 3 := by rw [a5.line, l4]
  have c1 : s1.col = 1 + (name.length + 6) := a1.col
  have c3 : s3.col = 1 := a3.col
  have c4 : s4.col = 10 := by rw [a4.col, c3]
  refine ⟨_, s5, run, ?_, ?_, ?_⟩
  · rw [a5.toks, a4.toks, a3.toks, a2.toks, a1.toks, l5, a5.col, l1, l2, l3, l4, c1, c3, c4]
    simp [mwfdocToks, mwfdocToksRev, st0]
  · rw [a5.repairs, a4.repairs, a3.repairs, a2.repairs, a1.repairs, l2]
    simp [mwfdocReps, st0]
  · rw [a5.stack, a4.stack, a3.stack, a2.stack, a1.stack]

/-! ### `normalize` and the tab check: every line is fence-free and tab-free -/

theorem mwf_head_clean (h : MfHead) (hok : h.OK) : Clean h.text := by
  cases h with
  | word w => exact identText_clean w hok.1
  | int i => exact intStr_clean i
  | str s => exact quoted_clean s
  | bool b => cases b <;> exact clean_lit _ (by decide)
  | null => exact clean_lit _ (by decide)
  | ver d1 d2 d3 =>
    intro d hd
    exact ⟨verText_not d1 d2 d3 hok.1 hok.2.1 hok.2.2 '\n' (by decide) (by decide) d hd,
      verText_not d1 d2 d3 hok.1 hok.2.1 hok.2.2 '\t' (by decide) (by decide) d hd⟩
  | num s sc =>
    obtain ⟨p, hp, rfl⟩ := C13.pyNumberFull_shape s hok.1
    exact p.clean hp

theorem mwfspell_clean (ln : MfLine) (h : ln.OK) : Clean ln.spell := by
  obtain ⟨key, v⟩ := ln
  obtain ⟨hk1, _, hv⟩ := h
  have hval : Clean v.spell := by
    cases v with
    | sc v => exact scalar_clean v hv
    | nw m => exact Clean.append (mwf_head_clean m.head hv.1) (mwTailSpell_clean m.tail hv.2.1)
  have h2 : Clean (':' :: ':' :: v.spell) := by
    have := Clean.append (clean_lit "::".toList (by decide)) hval
    simpa using this
  exact Clean.append (identText_clean key hk1) h2

theorem mwfspell_fine (ln : MfLine) (h : ln.OK) : LineFine ln.spell := by
  refine ⟨fenceLine_none_of_head _ ?_, fun d hd => (mwfspell_clean ln h d hd).2⟩
  intro c hc
  apply identText_head ln.key h.1 c
  have hne : ln.key ≠ [] := by
    intro e; have := h.1; rw [e] at this; simp [isIdentifierText] at this
  obtain ⟨k, t, hk⟩ := List.exists_cons_of_ne_nil hne
  simp only [MfLine.spell, hk, List.cons_append, List.head?_cons] at hc ⊢
  exact hc

theorem mwflines_fine (sl : List MfLine) (rest : Str) (hok : ∀ x ∈ sl, x.OK) (hr : AllLines LineFine rest) :
    AllLines LineFine (mwfLinesText sl ++ rest) := by
  induction sl with
  | nil => exact hr
  | cons x r ih =>
    have := allLines_cons LineFine x.spell (mwfLinesText r ++ rest) (mwfspell_clean x (hok x (by simp)))
      (mwfspell_fine x (hok x (by simp))) (ih (fun y hy => hok y (by simp [hy])))
    simpa [mwfLinesText, List.append_assoc] using this

theorem mwfdoc_fine (name : Str) (sl : List MfLine) (hn : isEnvName name = true) (hok : ∀ x ∈ sl, x.OK) :
    AllLines LineFine (mwfdocText name sl) := by
  have hend : AllLines LineFine ("===END===".toList ++ ['\n']) :=
    allLines_cons LineFine "===END===".toList [] (clean_lit _ (by decide)) ⟨by decide, by decide⟩
      (allLines_nil LineFine ⟨by decide, by decide⟩)
  have henv : LineFine ("===".toList ++ name ++ "===".toList) := by
    have := envLine_fine name 0 hn
    simpa [spaces] using this
  exact allLines_cons LineFine _ _ (envLine_clean name hn) henv (mwflines_fine sl _ hok hend)

/-- **The lexer on a flat document whose values are scalars or multi-word values with a word, INTEGER, STRING, BOOLEAN,
NULL or three-part VERSION head** (both lexer modes, every environment whose NFC leaves the lines alone): `tokenize`
succeeds with exactly `mwfdocToks` — one token for the head (a NUMBER token carrying its raw lexeme when the head is an
integer, a STRING token holding the unescaped content when it is a quoted string, a BOOLEAN / NULL token for `true` /
`false` / `null`, a VERSION token whose value is the lexeme for `d1.d2.d3`), one IDENTIFIER token per further
word at the word's own column — and `mwfdocReps`. -/
theorem tokenize_mwfdoc (env : Env) (lenient : Bool) (name : Str) (sl : List MfLine)
    (hn : isEnvName name = true) (hne : name ≠ "END".toList) (hok : ∀ x ∈ sl, x.OK) (hnum : ∀ x ∈ sl, x.NumOK env)
    (hnfc : ∀ l ∈ splitLines (mwfdocText name sl), env.nfc l = l) :
    tokenize env (mwfdocText name sl) lenient = .ok (mwfdocToks name sl, mwfdocReps sl) :=
  tokenize_of_run env lenient _ _ _ (mwfdoc_fine name sl hn hok) hnfc (mwf_run_doc env lenient name sl hn hne hok hnum)

end Octave.MWF
